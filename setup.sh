#!/bin/bash
# Build the framework from files on disk only (offline): extractor, generated Lean facts, Lean library + proofs + driver, harness.
set -e
cd "$(dirname "$0")"
export GOFLAGS=-mod=mod GOPROXY=off GOSUMDB=off GOTOOLCHAIN=local
mkdir -p build evidence replays
(cd tools/extract && go build -o ../../build/extract .)
./build/extract /repo lean/Rtcp/Gen
cp /repo/go.sum tools/harness/go.sum
(cd tools/harness && go build -tags verif -o ../../build/harness .)
(cd lean && lake build Rtcp.Proofs.All rtcpmodel)
# warm the axiom audit cache
python3 - <<'PY'
import importlib.util, importlib.machinery, sys, os
loader = importlib.machinery.SourceFileLoader("check", os.path.join(os.getcwd(), "check"))
spec = importlib.util.spec_from_loader("check", loader)
m = importlib.util.module_from_spec(spec); loader.exec_module(m)
st = {}
m.build_all(st)
print("setup: lake_ok=%s harness_ok=%s audit=%d theorems" % (st.get("lake_ok"), st.get("harness_ok"), len(st.get("audit", []))))
sys.exit(0 if st.get("lake_ok") and st.get("harness_ok") else 1)
PY
