#!/usr/bin/env python3
"""
seeded_matrix.py [--all] [ids...] : apply each seeded change (seeded/<id>/patch.diff) to /repo, run the quick check of
its target property (or of all 18 with --all), undo the change, and record the outcome in seeded/<id>/meta.json under
"checks". Never commits anything to /repo.
"""
import sys, os, json, subprocess, re

ROOT = os.path.dirname(os.path.dirname(os.path.abspath(__file__)))
PROPS = ["C%02d" % i for i in range(1, 19)]


def sh(cmd, **kw):
    # evidence of runs on a deliberately broken tree must not overwrite the evidence of the real tree
    env = dict(os.environ, VERIF_EVIDENCE_DIR="/tmp/verif_seeded_evidence")
    return subprocess.run(cmd, shell=True, stdout=subprocess.PIPE, stderr=subprocess.STDOUT, text=True, env=env, **kw)


def main():
    args = sys.argv[1:]
    allp = "--all" in args
    record = "--norecord" not in args
    ids = [a for a in args if not a.startswith("--")] or sorted(os.listdir(os.path.join(ROOT, "seeded")))
    for sid in ids:
        d = os.path.join(ROOT, "seeded", sid)
        mp = os.path.join(d, "meta.json")
        if not os.path.exists(mp):
            continue
        meta = json.load(open(mp))
        sh("git -C /repo checkout -- .")
        r = sh("git -C /repo apply %s/patch.diff" % d)
        if r.returncode != 0:
            print(sid, "APPLY-FAILED", r.stdout[-300:])
            continue
        checks = meta.get("checks") or {}
        try:
            for prop in (PROPS if allp else [sid[:3]]):
                r = sh("./check %s" % prop, cwd=ROOT)
                v = [l for l in r.stdout.split("\n") if l.startswith("VIOLATION")]
                broken = [l.strip()[:200] for l in r.stdout.split("\n") if l.startswith("BROKEN")][:4]
                replay = None
                oracle = None
                if v:
                    m = re.search(r"replay=(\S+)", v[0])
                    if m:
                        try:
                            rj = json.load(open(os.path.join(ROOT, m.group(1))))
                            oracle = rj.get("oracle")
                            replay = (rj.get("op") or "")[:300] or None
                        except Exception:
                            pass
                checks[prop] = {
                    "detected": r.returncode != 0,
                    "failing_input_found": bool(v) and "no-failing-input-found" not in v[0],
                    "oracle_reason": oracle,
                    "failing_input": replay,
                    "broken": broken,
                }
                print(sid, prop, "detected" if r.returncode else "silent", "| input:" if checks[prop]["failing_input_found"] else "| no-input", (oracle or "")[:90], flush=True)
        finally:
            sh("git -C /repo checkout -- .")
        if record:
            meta["checks"] = checks
            json.dump(meta, open(mp, "w"), indent=1)
    sh("./build/extract /repo lean/Rtcp/Gen", cwd=ROOT)


if __name__ == "__main__":
    main()
