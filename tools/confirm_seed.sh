#!/bin/bash
# confirm_seed.sh <dir-with-patch.diff+demo_test.go> : verifies the three claims in a scratch worktree
# prints: suite_with_patch=pass|fail demo_with_patch=pass|fail demo_without_patch=pass|fail
export GOFLAGS=-mod=mod GOPROXY=off GOSUMDB=off GOTOOLCHAIN=local
D=$1
WT=/tmp/wt_confirm_$$
git -C /repo worktree add -q --detach $WT HEAD || exit 2
cd $WT
r1=fail; r2=pass; r3=fail
if git apply $D/patch.diff 2>/dev/null; then
  go test -count=1 ./... >/dev/null 2>&1 && r1=pass
  cp $D/demo_test.go ./demo_test.go
  go test -count=1 -run 'TestSeededDemo' . >/dev/null 2>&1 && r2=pass || r2=fail
  git checkout -q -- . 
  go test -count=1 -run 'TestSeededDemo' . >/dev/null 2>&1 && r3=pass
else
  r1=noapply
fi
cd /; git -C /repo worktree remove --force $WT
echo "suite_with_patch=$r1 demo_with_patch=$r2 demo_without_patch=$r3"
