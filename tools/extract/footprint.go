package main

// Write-footprint analysis on SSA (DESIGN §4.1, C18): for every function of the package, which abstract
// locations it may write: a package variable, memory reachable from parameter k (receiver = 0), or
// something it cannot trace ("unknown"). Fresh allocations are not reported.
//
// origins(v) for pointer-like SSA values: subset of {fresh, param k, global g, unknown}; field- and
// element-insensitive; local Alloc cells track what was stored into them; summaries (writes, result origins)
// are propagated through static calls and, for interface calls, through every method of that name in the
// package, to a fixpoint. A call that leaves the package with a non-fresh pointer-like argument counts as a
// write through that argument unless the callee is on the read-only allow-list.

import (
	"fmt"
	"go/ast"
	"go/token"
	"go/types"
	"sort"
	"strings"

	"golang.org/x/tools/go/ssa"
	"golang.org/x/tools/go/ssa/ssautil"
)

type origin string // "fresh", "unknown", "param:k", "global:name"

type oset map[origin]bool

func (s oset) addAll(t oset) bool {
	ch := false
	for o := range t {
		if !s[o] {
			s[o] = true
			ch = true
		}
	}
	return ch
}
func (s oset) add(o origin) bool {
	if s[o] {
		return false
	}
	s[o] = true
	return true
}

type summary struct {
	writes  oset         // without "fresh"
	results map[int]oset // per result index
}

func (s *summary) res(i int) oset {
	if s.results[i] == nil {
		s.results[i] = oset{}
	}
	return s.results[i]
}

type analysis struct {
	prog      *ssa.Program
	pkg       *ssa.Package
	sums      map[*ssa.Function]*summary
	byName    map[string][]*ssa.Function // method name -> methods in the package
	changed   bool
	assumed   map[string]bool
}

var readOnlyExternal = map[string]bool{
	"fmt.Sprintf": true, "fmt.Sprint": true, "fmt.Errorf": true, "fmt.Sprintln": true,
	"bytes.Equal": true, "errors.New": true, "errors.Is": true,
	"strings.ReplaceAll": true, "strings.TrimSuffix": true, "strings.Repeat": true,
	"math.Floor": true, "math.Float32frombits": true, "math.Float32bits": true,
	"(encoding/binary.bigEndian).Uint16": true, "(encoding/binary.bigEndian).Uint32": true, "(encoding/binary.bigEndian).Uint64": true,
	"(reflect.StructTag).Get": true, "(reflect.StructTag).Lookup": true,
	"reflect.ValueOf": true, "reflect.Indirect": true, "reflect.TypeOf": true, "reflect.New": true, "reflect.NewAt": true, "reflect.Append": true,
}

// methods of reflect.Value / reflect.Type that only read
func reflectReadOnly(name string) bool {
	for _, p := range []string{"Set", "Call"} {
		if strings.HasPrefix(name, p) {
			return name == "Call" // Call is assumed to invoke only String methods here (recorded as an assumption)
		}
	}
	return true
}

func pointerLike(t types.Type) bool {
	switch u := t.Underlying().(type) {
	case *types.Pointer, *types.Slice, *types.Map, *types.Interface, *types.Chan, *types.Signature:
		return true
	case *types.Basic:
		return u.Kind() == types.UnsafePointer
	case *types.Struct:
		for i := 0; i < u.NumFields(); i++ {
			if pointerLike(u.Field(i).Type()) {
				return true
			}
		}
	case *types.Array:
		return pointerLike(u.Elem())
	case *types.Tuple:
		for i := 0; i < u.Len(); i++ {
			if pointerLike(u.At(i).Type()) {
				return true
			}
		}
	}
	return false
}

func buildSSA(fset *token.FileSet, pkg *types.Package, files []*ast.File, info *types.Info) (*ssa.Package, error) {
	prog := ssa.NewProgram(fset, ssa.InstantiateGenerics)
	// create packages for imports (types only; no bodies needed)
	seen := map[*types.Package]bool{}
	var create func(p *types.Package)
	create = func(p *types.Package) {
		if seen[p] {
			return
		}
		seen[p] = true
		for _, imp := range p.Imports() {
			create(imp)
		}
		if p != pkg {
			prog.CreatePackage(p, nil, nil, true)
		}
	}
	create(pkg)
	sp := prog.CreatePackage(pkg, files, info, false)
	sp.Build()
	_ = ssautil.AllFunctions
	return sp, nil
}

func (a *analysis) sum(f *ssa.Function) *summary {
	s, ok := a.sums[f]
	if !ok {
		s = &summary{writes: oset{}, results: map[int]oset{}}
		a.sums[f] = s
	}
	return s
}

func paramOrigin(k int) origin { return origin(fmt.Sprintf("param:%d", k)) }

func (a *analysis) analyzeFunc(f *ssa.Function) {
	if f.Blocks == nil || f.Name() == "init" || strings.HasPrefix(f.Name(), "init#") {
		return
	}
	org := map[ssa.Value]oset{}
	tupleOrg := map[ssa.Value]map[int]oset{} // call results with several values
	contents := map[ssa.Value]oset{}       // for Alloc cells: origins of stored pointer-like values
	get := func(v ssa.Value) oset {
		if s, ok := org[v]; ok {
			return s
		}
		s := oset{}
		org[v] = s
		switch x := v.(type) {
		case *ssa.Parameter:
			for i, p := range f.Params {
				if p == x {
					s[paramOrigin(i)] = true
				}
			}
		case *ssa.Global:
			s[origin("global:"+x.Name())] = true
		case *ssa.FreeVar:
			s["unknown"] = true
		case *ssa.Const, *ssa.Function, *ssa.Builtin:
			s["fresh"] = true
		}
		return s
	}
	sm := a.sum(f)
	pendingChange := false
	writeK := func(s oset, elem bool) {
		for o := range s {
			if o != "fresh" {
				w := o
				if elem {
					w = origin(string(o) + "#e")
				}
				if sm.writes.add(w) {
					a.changed = true
				}
			}
		}
	}
	write := func(s oset) { writeK(s, true) } // default: element write (append, copy, PutUint, map update, external call)
	writeField := func(s oset) { writeK(s, false) }
	mapSummary := func(callee *summary, args []ssa.Value, resV ssa.Value) {
		// writes
		for o := range callee.writes {
			base, elem := string(o), false
			if strings.HasSuffix(base, "#e") {
				base, elem = base[:len(base)-2], true
			}
			switch {
			case strings.HasPrefix(base, "param:"):
				var k int
				fmt.Sscanf(base, "param:%d", &k)
				if k < len(args) {
					writeK(get(args[k]), elem)
				}
			default:
				writeK(oset{origin(base): true}, elem)
			}
		}
		if resV != nil {
			for idx, rs := range callee.results {
				dst := oset{}
				for o := range rs {
					switch {
					case strings.HasPrefix(string(o), "param:"):
						var k int
						fmt.Sscanf(string(o), "param:%d", &k)
						if k < len(args) {
							dst.addAll(get(args[k]))
						}
					default:
						dst.add(o)
					}
				}
				if _, isTuple := resV.Type().(*types.Tuple); isTuple {
					if tupleOrg[resV] == nil {
						tupleOrg[resV] = map[int]oset{}
					}
					if tupleOrg[resV][idx] == nil {
						tupleOrg[resV][idx] = oset{}
					}
					if tupleOrg[resV][idx].addAll(dst) {
						pendingChange = true
					}
				} else if idx == 0 {
					if get(resV).addAll(dst) {
						pendingChange = true
					}
				}
			}
		}
	}
	for iter := 0; iter < 20; iter++ {
		localChange := pendingChange
		pendingChange = false
		upd := func(v ssa.Value, s oset) {
			if get(v).addAll(s) {
				localChange = true
			}
		}
		for _, b := range f.Blocks {
			for _, ins := range b.Instrs {
				switch x := ins.(type) {
				case *ssa.Alloc:
					upd(x, oset{"fresh": true})
					if c, ok := contents[x]; ok {
						_ = c
					} else {
						contents[x] = oset{}
					}
				case *ssa.MakeSlice, *ssa.MakeMap, *ssa.MakeChan:
					upd(x.(ssa.Value), oset{"fresh": true})
				case *ssa.MakeInterface:
					if pointerLike(x.X.Type()) {
						upd(x, get(x.X))
					} else {
						upd(x, oset{"fresh": true})
					}
				case *ssa.MakeClosure:
					upd(x, oset{"fresh": true})
					for _, bnd := range x.Bindings {
						upd(x, get(bnd))
					}
				case *ssa.FieldAddr:
					upd(x, get(x.X))
				case *ssa.IndexAddr:
					upd(x, get(x.X))
				case *ssa.Field:
					upd(x, get(x.X))
				case *ssa.Index:
					upd(x, get(x.X))
				case *ssa.Slice:
					upd(x, get(x.X))
				case *ssa.Lookup:
					upd(x, get(x.X))
				case *ssa.Phi:
					for _, e := range x.Edges {
						upd(x, get(e))
					}
				case *ssa.ChangeType:
					upd(x, get(x.X))
				case *ssa.ChangeInterface:
					upd(x, get(x.X))
				case *ssa.SliceToArrayPointer:
					upd(x, get(x.X))
				case *ssa.Convert:
					// string<->[]byte conversions copy; unsafe.Pointer conversions alias
					_, fromStr := x.X.Type().Underlying().(*types.Basic)
					_, toStr := x.Type().Underlying().(*types.Basic)
					if fromStr && !isUnsafe(x.X.Type()) || toStr && !isUnsafe(x.Type()) {
						upd(x, oset{"fresh": true})
					} else {
						upd(x, get(x.X))
					}
				case *ssa.TypeAssert:
					upd(x, get(x.X))
				case *ssa.Extract:
					if t, ok := tupleOrg[x.Tuple]; ok {
						if t[x.Index] != nil {
							upd(x, t[x.Index])
						}
					} else {
						upd(x, get(x.Tuple))
					}
				case *ssa.UnOp:
					if x.Op == token.MUL { // load
						if pointerLike(x.Type()) {
							base := x.X
							// loads from (fields of) a local Alloc cell see what was stored there
							root := rootAlloc(base)
							if root != nil {
								upd(x, contents[root])
								// a cell whose address is itself derived from something non-fresh also aliases that
								for o := range get(base) {
									if o != "fresh" {
										upd(x, oset{o: true})
									}
								}
							} else {
								upd(x, get(base))
							}
						}
					} else {
						upd(x, oset{"fresh": true})
					}
				case *ssa.BinOp:
					upd(x, oset{"fresh": true}) // string concatenation etc.
				case *ssa.Store:
					if root := rootAlloc(x.Addr); root != nil {
						if pointerLike(x.Val.Type()) {
							if contents[root] == nil {
								contents[root] = oset{}
							}
							if contents[root].addAll(get(x.Val)) {
								localChange = true
							}
						}
						// the cell may itself live inside non-fresh memory (e.g. &param.field)
						for o := range get(x.Addr) {
							if o != "fresh" {
								writeField(oset{o: true})
							}
						}
					} else if throughIndex(x.Addr) {
						write(get(x.Addr))
					} else {
						writeField(get(x.Addr))
					}
				case *ssa.MapUpdate:
					write(get(x.Map))
				case ssa.CallInstruction:
					a.handleCall(f, x, get, upd, write, mapSummary)
				case *ssa.Return:
					for i, r := range x.Results {
						if pointerLike(r.Type()) {
							if sm.res(i).addAll(get(r)) {
								a.changed = true
							}
						}
					}
				}
			}
		}
		if !localChange && !pendingChange {
			break
		}
	}
}

// is the stored-to address an element of a slice/array (as opposed to a struct field or the pointee itself)?
func throughIndex(v ssa.Value) bool {
	for {
		switch x := v.(type) {
		case *ssa.IndexAddr:
			return true
		case *ssa.FieldAddr:
			v = x.X
		default:
			return false
		}
	}
}

func isUnsafe(t types.Type) bool {
	b, ok := t.Underlying().(*types.Basic)
	return ok && b.Kind() == types.UnsafePointer
}

func rootAlloc(v ssa.Value) *ssa.Alloc {
	for {
		switch x := v.(type) {
		case *ssa.Alloc:
			return x
		case *ssa.FieldAddr:
			v = x.X
		case *ssa.IndexAddr:
			if _, isPtr := x.X.Type().Underlying().(*types.Pointer); isPtr { // &array[i] of a local array
				v = x.X
			} else {
				return nil
			}
		default:
			return nil
		}
	}
}

func (a *analysis) handleCall(f *ssa.Function, ci ssa.CallInstruction, get func(ssa.Value) oset, upd func(ssa.Value, oset),
	write func(oset), mapSummary func(*summary, []ssa.Value, ssa.Value)) {
	c := ci.Common()
	var resV ssa.Value
	if v, ok := ci.(ssa.Value); ok {
		resV = v
	}
	res := oset{}
	summarised := false
	defer func() {
		if resV != nil && pointerLike(resV.Type()) && !summarised {
			if len(res) == 0 {
				res["fresh"] = true
			}
			upd(resV, res)
		}
	}()
	if c.IsInvoke() {
		// interface call: every method of that name declared in the package
		args := append([]ssa.Value{c.Value}, c.Args...)
		ms := a.byName[c.Method.Name()]
		if n, ok := c.Value.Type().(*types.Named); ok && n.Obj().Pkg() != nil && n.Obj().Pkg().Path() == "reflect" {
			return // methods of reflect.Type only read
		}
		if len(ms) == 0 {
			// interface method implemented outside the package (error.Error, fmt.Stringer on foreign types...)
			if c.Method.Name() == "Error" || c.Method.Name() == "String" {
				return
			}
			for _, x := range args {
				if pointerLike(x.Type()) {
					write(get(x))
				}
			}
			res.add("unknown")
			return
		}
		summarised = true
		iface, _ := c.Value.Type().Underlying().(*types.Interface)
		for _, m := range ms {
			if iface != nil && m.Signature.Recv() != nil {
				rt := m.Signature.Recv().Type()
				if !types.Implements(rt, iface) {
					if _, isPtr := rt.(*types.Pointer); isPtr || !types.Implements(types.NewPointer(rt), iface) {
						continue
					}
				}
			}
			mapSummary(a.sum(m), args, resV)
		}
		return
	}
	switch callee := c.Value.(type) {
	case *ssa.Builtin:
		switch callee.Name() {
		case "append":
			// may write into the backing array of its first argument when cap > len
			if len(c.Args) > 0 {
				write(get(c.Args[0]))
				res.addAll(get(c.Args[0]))
				res.add("fresh")
				if len(c.Args) > 1 && pointerLike(elemType(c.Args[0].Type())) {
					res.addAll(get(c.Args[1]))
				}
			}
		case "copy":
			write(get(c.Args[0]))
		case "delete":
			write(get(c.Args[0]))
		case "clear":
			write(get(c.Args[0]))
		}
		return
	case *ssa.Function:
		if callee.Pkg == a.pkg || (callee.Pkg == nil && callee.Blocks != nil) {
			summarised = true
			mapSummary(a.sum(callee), c.Args, resV)
			return
		}
		name := callee.String()
		short := name
		if callee.Pkg != nil && callee.Signature.Recv() == nil {
			short = callee.Pkg.Pkg.Name() + "." + callee.Name()
		}
		if strings.HasPrefix(name, "(encoding/binary.bigEndian).PutUint") || strings.HasPrefix(name, "(encoding/binary.bigEndian).AppendUint") {
			write(get(c.Args[1])) // Args[0] is the receiver value
			res.addAll(get(c.Args[1]))
			return
		}
		if strings.HasPrefix(name, "(reflect.Value).") || strings.HasPrefix(name, "(*reflect.rtype).") || strings.HasPrefix(name, "(reflect.Type).") {
			m := callee.Name()
			if !reflectReadOnly(m) {
				write(get(c.Args[0]))
			}
			if m == "Call" {
				a.assumed["reflect.Value.Call is assumed to invoke only String methods of this package"] = true
			}
			for _, x := range c.Args {
				res.addAll(get(x))
			}
			return
		}
		if readOnlyExternal[short] || readOnlyExternal[name] {
			switch short {
			case "reflect.ValueOf", "reflect.Indirect", "reflect.NewAt", "reflect.Append":
				for _, x := range c.Args {
					res.addAll(get(x))
				}
			default:
				res.add("fresh")
			}
			return
		}
		// unknown external: writes through every pointer-like argument
		for _, x := range c.Args {
			if pointerLike(x.Type()) {
				write(get(x))
				res.addAll(get(x))
			}
		}
		a.assumed["external call treated as writing its pointer arguments: "+name] = true
		return
	default:
		// call of a function value (closure / callback): the NACK Range callback is caller-supplied
		for _, x := range c.Args {
			if pointerLike(x.Type()) {
				write(get(x))
			}
		}
		res.add("unknown")
		// calling a parameter (callback) is not a write by the package itself; calling anything else is unknown
		if _, isParam := c.Value.(*ssa.Parameter); !isParam {
			if mc, ok := c.Value.(*ssa.MakeClosure); ok {
				if fn, ok := mc.Fn.(*ssa.Function); ok {
					summarised = true
					mapSummary(a.sum(fn), append(append([]ssa.Value{}, c.Args...)), resV)
					return
				}
			}
			write(oset{"unknown": true})
		}
	}
}

func elemType(t types.Type) types.Type {
	if s, ok := t.Underlying().(*types.Slice); ok {
		return s.Elem()
	}
	return t
}

func genFootprint(fset *token.FileSet, pkg *types.Package, files []*ast.File, info *types.Info) (string, error) {
	sp, err := buildSSA(fset, pkg, files, info)
	if err != nil {
		return "", err
	}
	a := &analysis{prog: sp.Prog, pkg: sp, sums: map[*ssa.Function]*summary{}, byName: map[string][]*ssa.Function{}, assumed: map[string]bool{}}
	var funcs []*ssa.Function
	addFn := func(fn *ssa.Function) {
		if fn == nil || fn.Blocks == nil {
			return
		}
		funcs = append(funcs, fn)
		for _, an := range fn.AnonFuncs {
			funcs = append(funcs, an)
		}
	}
	for _, m := range sp.Members {
		switch x := m.(type) {
		case *ssa.Function:
			addFn(x)
		case *ssa.Type:
			for _, t := range []types.Type{x.Type(), types.NewPointer(x.Type())} {
				ms := sp.Prog.MethodSets.MethodSet(t)
				for i := 0; i < ms.Len(); i++ {
					fn := sp.Prog.MethodValue(ms.At(i))
					if fn != nil && fn.Pkg == sp && fn.Synthetic == "" {
						already := false
						for _, g := range funcs {
							if g == fn {
								already = true
							}
						}
						if !already {
							addFn(fn)
							a.byName[fn.Name()] = append(a.byName[fn.Name()], fn)
						}
					}
				}
			}
		}
	}
	for round := 0; round < 30; round++ {
		a.changed = false
		for _, fn := range funcs {
			a.analyzeFunc(fn)
		}
		if !a.changed {
			break
		}
	}
	// package-level variables assigned outside init
	var sb strings.Builder
	sb.WriteString("-- GENERATED by tools/extract from /repo (SSA write footprints). Do not edit.\n")
	sb.WriteString("namespace Rtcp.Gen\n\n")
	sb.WriteString("/-- what a function may write: through parameter k (receiver = 0) — any write, and writes into slice/array elements —, package variables, untraceable memory -/\n")
	sb.WriteString("structure Footprint where\n  recv : String\n  method : String\n  writesParams : List Nat\n  elemWritesParams : List Nat\n  writesGlobals : List String\n  writesUnknown : Bool\n  deriving Repr, DecidableEq\n\n")
	type row struct {
		name    string
		params  []int
		eparams []int
		globals []string
		unknown bool
	}
	var rows []row
	for _, fn := range funcs {
		if fn.Parent() != nil || fn.Name() == "init" || strings.HasPrefix(fn.Name(), "init#") {
			continue
		}
		name := fn.Name()
		if recv := fn.Signature.Recv(); recv != nil {
			t := recv.Type()
			if p, ok := t.(*types.Pointer); ok {
				t = p.Elem()
			}
			if n, ok := t.(*types.Named); ok {
				name = n.Obj().Name() + "." + fn.Name()
			}
		}
		if strings.HasPrefix(fn.Name(), "Verif") {
			continue
		}
		r := row{name: name}
		seenP, seenE, seenG := map[int]bool{}, map[int]bool{}, map[string]bool{}
		for o := range a.sum(fn).writes {
			s := string(o)
			elem := false
			if strings.HasSuffix(s, "#e") {
				s, elem = s[:len(s)-2], true
			}
			switch {
			case strings.HasPrefix(s, "param:"):
				var k int
				fmt.Sscanf(s, "param:%d", &k)
				if !seenP[k] {
					seenP[k] = true
					r.params = append(r.params, k)
				}
				if elem && !seenE[k] {
					seenE[k] = true
					r.eparams = append(r.eparams, k)
				}
			case strings.HasPrefix(s, "global:") && seenG[s]:
			case strings.HasPrefix(s, "global:"):
				seenG[s] = true
				r.globals = append(r.globals, s[7:])
			case s == "unknown":
				r.unknown = true
			}
		}
		sort.Ints(r.params)
		sort.Ints(r.eparams)
		sort.Strings(r.globals)
		rows = append(rows, r)
	}
	sort.Slice(rows, func(i, j int) bool { return rows[i].name < rows[j].name })
	sb.WriteString("def footprints : List Footprint := [\n")
	for i, r := range rows {
		ps := make([]string, len(r.params))
		for j, p := range r.params {
			ps[j] = fmt.Sprint(p)
		}
		es := make([]string, len(r.eparams))
		for j, p := range r.eparams {
			es[j] = fmt.Sprint(p)
		}
		gs := make([]string, len(r.globals))
		for j, g := range r.globals {
			gs[j] = fmt.Sprintf("%q", g)
		}
		sep := ","
		if i == len(rows)-1 {
			sep = ""
		}
		recvN, methN := "", r.name
		if i := strings.IndexByte(r.name, '.'); i >= 0 {
			recvN, methN = r.name[:i], r.name[i+1:]
		}
		fmt.Fprintf(&sb, "  { recv := %q, method := %q, writesParams := [%s], elemWritesParams := [%s], writesGlobals := [%s], writesUnknown := %v }%s\n", recvN, methN, strings.Join(ps, ", "), strings.Join(es, ", "), strings.Join(gs, ", "), r.unknown, sep)
	}
	sb.WriteString("]\n\n")
	var as []string
	for k := range a.assumed {
		as = append(as, k)
	}
	sort.Strings(as)
	sb.WriteString("/-- assumptions the analysis made (reported in the evidence) -/\ndef footprintAssumptions : List String := [\n")
	for i, s := range as {
		sep := ","
		if i == len(as)-1 {
			sep = ""
		}
		fmt.Fprintf(&sb, "  %q%s\n", s, sep)
	}
	sb.WriteString("]\n\nend Rtcp.Gen\n")
	return sb.String(), nil
}
