package main

// harness: generates operation lines for a property, executes them against the real pion/rtcp
// (built from /repo with -tags verif) and writes ops + results for the Lean driver to be diffed against.
//
//   harness corr  -prop C01 -seed 1 -n 20000 -ops ops.txt -out go.txt [-stats stats.json] [-corpus dir]
//   harness exec  < ops.txt > go.txt
//   harness oracle -prop C02 -seed 1 -n 20000      (property oracle directly on the implementation)

import (
	"bufio"
	"encoding/json"
	"flag"
	"fmt"
	"os"
	"path/filepath"
	"sort"
	"strings"
	"time"
)

type Stats struct {
	Ops       int            `json:"ops"`
	ByOp      map[string]int `json:"by_op"`
	ByOutcome map[string]int `json:"by_outcome"`
	OpOutcome map[string]int `json:"op_outcome"`
	SizeHist  map[string]int `json:"input_size_hist"`
	Distinct  int            `json:"distinct_ops"`
	Samples   []string       `json:"samples"`
}

func newStats() *Stats {
	return &Stats{ByOp: map[string]int{}, ByOutcome: map[string]int{}, OpOutcome: map[string]int{}, SizeHist: map[string]int{}}
}

func sizeBucket(n int) string {
	switch {
	case n == 0:
		return "0"
	case n <= 8:
		return "1-8"
	case n <= 32:
		return "9-32"
	case n <= 128:
		return "33-128"
	case n <= 1024:
		return "129-1024"
	case n <= 16384:
		return "1025-16384"
	default:
		return ">16384"
	}
}

func (s *Stats) add(op, res string, seen map[string]bool) {
	s.Ops++
	name := op
	if i := strings.IndexByte(op, ' '); i >= 0 {
		name = op[:i]
	}
	s.ByOp[name]++
	out := res
	if i := strings.IndexByte(res, ' '); i >= 0 {
		out = res[:i]
	}
	s.ByOutcome[out]++
	s.OpOutcome[name+":"+out]++
	s.SizeHist[sizeBucket(len(op)/2)]++
	if !seen[op] {
		seen[op] = true
		s.Distinct++
	}
	if len(s.Samples) < 6 && s.Ops%97 == 1 {
		l := op
		if len(l) > 160 {
			l = l[:160] + "…"
		}
		r := res
		if len(r) > 120 {
			r = r[:120] + "…"
		}
		s.Samples = append(s.Samples, l+" => "+r)
	}
}

func main() {
	if len(os.Args) < 2 {
		fmt.Fprintln(os.Stderr, "usage: harness corr|exec|oracle ...")
		os.Exit(2)
	}
	switch os.Args[1] {
	case "exec":
		sc := bufio.NewScanner(os.Stdin)
		sc.Buffer(make([]byte, 1<<20), 1<<28)
		w := bufio.NewWriter(os.Stdout)
		for sc.Scan() {
			line := strings.TrimSpace(sc.Text())
			if line == "" || strings.HasPrefix(line, "#") {
				continue
			}
			res, done := execWatched(line)
			fmt.Fprintln(w, res)
			w.Flush()
			if !done {
				os.Exit(3)
			}
		}
	case "corr":
		fs := flag.NewFlagSet("corr", flag.ExitOnError)
		prop := fs.String("prop", "C01", "")
		seed := fs.Uint64("seed", 1, "")
		n := fs.Int("n", 10000, "")
		opsPath := fs.String("ops", "ops.txt", "")
		outPath := fs.String("out", "go.txt", "")
		statsPath := fs.String("stats", "", "")
		corpus := fs.String("corpus", "", "")
		tier := fs.String("tier", "quick", "")
		fs.IntVar(&shardIdx, "shard", 0, "")
		fs.IntVar(&shardN, "nshards", 1, "")
		_ = fs.Parse(os.Args[2:])
		runCorr(*prop, *seed, *n, *opsPath, *outPath, *statsPath, *corpus, *tier)
	case "oracle":
		fs := flag.NewFlagSet("oracle", flag.ExitOnError)
		prop := fs.String("prop", "C01", "")
		seed := fs.Uint64("seed", 1, "")
		n := fs.Int("n", 10000, "")
		maxFail := fs.Int("maxfail", 50, "")
		asJSON := fs.Bool("json", false, "")
		_ = fs.Parse(os.Args[2:])
		oracleJSON = *asJSON
		os.Exit(runOracle(*prop, *seed, *n, *maxFail))
	case "race":
		fs := flag.NewFlagSet("race", flag.ExitOnError)
		seed := fs.Uint64("seed", 1, "")
		n := fs.Int("n", 200, "")
		_ = fs.Parse(os.Args[2:])
		os.Exit(runRace(*seed, *n))
	case "judge":
		fs := flag.NewFlagSet("judge", flag.ExitOnError)
		prop := fs.String("prop", "C01", "")
		_ = fs.Parse(os.Args[2:])
		sc := bufio.NewScanner(os.Stdin)
		sc.Buffer(make([]byte, 1<<20), 1<<28)
		w := bufio.NewWriter(os.Stdout)
		for sc.Scan() {
			line := strings.Trim(sc.Text(), " \r\n")
			if strings.TrimSpace(line) == "" || strings.HasPrefix(line, "#") {
				continue
			}
			lean := ""
			if i := strings.IndexByte(line, '\t'); i >= 0 {
				line, lean = line[:i], strings.TrimSpace(line[i+1:])
			}
			res, done := execWatched(line)
			why := ""
			if done {
				why = propertyFailsL(*prop, line, res, lean)
			} else {
				why = "operation did not return within " + opTimeout.String() + " (loops without bound)"
			}
			b, _ := json.Marshal(map[string]string{"op": line, "result": clip(res, 4000), "why": why})
			if !done {
				fmt.Fprintln(w, string(b))
				w.Flush()
				os.Exit(3)
			}
			fmt.Fprintln(w, string(b))
			w.Flush()
		}
	default:
		fmt.Fprintln(os.Stderr, "unknown mode")
		os.Exit(2)
	}
}

func runCorr(prop string, seed uint64, n int, opsPath, outPath, statsPath, corpus, tier string) {
	of, err := os.Create(opsPath)
	if err != nil {
		panic(err)
	}
	defer of.Close()
	gf, err := os.Create(outPath)
	if err != nil {
		panic(err)
	}
	defer gf.Close()
	ow := bufio.NewWriterSize(of, 1<<20)
	gw := bufio.NewWriterSize(gf, 1<<20)
	st := newStats()
	seen := map[string]bool{}
	// every op is also put to the property oracle: a hit is a concrete input on which the implementation
	// itself fails the property (independent of the model)
	var hits []map[string]string
	hitsByWhy := map[string]int{}
	emit := func(op string) {
		res, done := execWatched(op)
		fmt.Fprintln(ow, op)
		fmt.Fprintln(gw, res)
		if !done {
			// the stuck goroutine keeps a core busy: record, flush and leave
			hits = append(hits, map[string]string{"op": op, "result": res, "why": "operation did not return within " + opTimeout.String() + " (loops without bound)"})
			ow.Flush()
			gw.Flush()
			writeHits(outPath, hits, hitsByWhy)
			os.Exit(3)
		}
		st.add(op, res, seen)
		if why := propertyFails(prop, op, res); why != "" {
			key := whyKey(why)
			hitsByWhy[key]++
			if hitsByWhy[key] <= 3 || len(op) < 300 && hitsByWhy[key] <= 8 {
				hits = append(hits, map[string]string{"op": op, "result": clip(res, 4000), "why": why})
			}
		}
	}
	defer func() { writeHits(outPath, hits, hitsByWhy) }()
	// corpus first
	if corpus != "" {
		files, _ := filepath.Glob(filepath.Join(corpus, "*.txt"))
		sort.Strings(files)
		for _, f := range files {
			base := filepath.Base(f)
			if !(strings.HasPrefix(base, "all") || strings.HasPrefix(base, prop)) {
				continue
			}
			fh, err := os.Open(f)
			if err != nil {
				continue
			}
			sc := bufio.NewScanner(fh)
			sc.Buffer(make([]byte, 1<<20), 1<<28)
			for sc.Scan() {
				line := strings.TrimSpace(sc.Text())
				if line == "" || strings.HasPrefix(line, "#") {
					continue
				}
				emit(line)
			}
			fh.Close()
		}
	}
	r := NewRng(seed ^ hashString(prop))
	genOps(prop, r, n, tier, emit)
	ow.Flush()
	gw.Flush()
	if statsPath != "" {
		b, _ := json.MarshalIndent(st, "", " ")
		_ = os.WriteFile(statsPath, b, 0o644)
	}
}

func writeHits(outPath string, hits []map[string]string, hitsByWhy map[string]int) {
	f, err := os.Create(filepath.Join(filepath.Dir(outPath), "oracle.jsonl"))
	if err != nil {
		return
	}
	defer f.Close()
	for _, h := range hits {
		b, _ := json.Marshal(h)
		fmt.Fprintln(f, string(b))
	}
	b, _ := json.Marshal(map[string]interface{}{"counts": hitsByWhy})
	fmt.Fprintln(f, string(b))
}

func hashString(s string) uint64 {
	var h uint64 = 1469598103934665603
	for i := 0; i < len(s); i++ {
		h ^= uint64(s[i])
		h *= 1099511628211
	}
	return h
}

// opTimeout: an operation that does not return within this time is reported as `timeout` and the process exits
// with status 3 (a goroutine stuck in a loop cannot be stopped any other way)
var opTimeout = 20 * time.Second

// execWatched runs one op; ok=false when it did not return in time
func execWatched(op string) (res string, ok bool) {
	ch := make(chan string, 1)
	go func() { ch <- execOp(op) }()
	select {
	case r := <-ch:
		return r, true
	case <-time.After(opTimeout):
		return "timeout", false
	}
}

// whyKey: the reason with its numbers blanked, to group oracle hits
func whyKey(why string) string {
	var sb strings.Builder
	for _, c := range why {
		if c >= '0' && c <= '9' {
			continue
		}
		sb.WriteRune(c)
	}
	return sb.String()
}
