package main

// Go-side well-formedness predicates (the domain D of C02/C03/C05), mirroring lean/Rtcp/Model/WF.lean plus the
// types whose Lean WF is not written yet. Used only by the property oracles.

import (
	"math"

	"github.com/pion/rtcp"
)

func wfRRep(r rtcp.ReceptionReport) bool { return r.TotalLost < 1<<24 }

func wfItem(i rtcp.SourceDescriptionItem) bool { return i.Type != 0 && len(i.Text) <= 255 }

func twccConsistent(t *rtcp.TransportLayerCC) bool {
	// header consistent with content: length = content size in words, padding flag iff padding octets exist
	// the type keeps its sizes in 16 bits (Len() is a uint16 by API): values beyond 65535 octets are outside its domain
	real := 20 + 2*len(t.PacketChunks)
	for _, d := range t.RecvDeltas {
		if d != nil && d.Type == 1 {
			real++
		} else {
			real += 2
		}
	}
	if real > 65532 {
		return false
	}
	size := t.MarshalSize()
	pl := int(rtcp.VerifTWCCPacketLen(t))
	if t.Header.Type != rtcp.TypeTransportSpecificFeedback || t.Header.Count != rtcp.FormatTCC {
		return false
	}
	if int(t.Header.Length) != size/4-1 {
		return false
	}
	if t.Header.Padding != (size != pl) {
		return false
	}
	return true
}

// status symbols announced by the chunks (run lengths clipped to count; vector chunks all symbols)
func twccAnnounced(t *rtcp.TransportLayerCC) (types []uint16, ok bool) {
	processed := 0
	count := int(t.PacketStatusCount)
	for i, c := range t.PacketChunks {
		if processed >= count {
			return nil, false // superfluous chunk
		}
		switch v := c.(type) {
		case *rtcp.RunLengthChunk:
			if v.Type != 0 || v.PacketStatusSymbol > 3 || v.RunLength > 8191 || v.RunLength == 0 {
				return nil, false
			}
			n := int(v.RunLength)
			if n > count-processed {
				return nil, false
			}
			if v.PacketStatusSymbol == 1 || v.PacketStatusSymbol == 2 {
				for j := 0; j < n; j++ {
					types = append(types, v.PacketStatusSymbol)
				}
			}
			processed += n
		case *rtcp.StatusVectorChunk:
			if v.Type != 1 || v.SymbolSize > 1 {
				return nil, false
			}
			want := 14
			if v.SymbolSize == 1 {
				want = 7
			}
			if len(v.SymbolList) != want {
				return nil, false
			}
			for j, s := range v.SymbolList {
				if (v.SymbolSize == 0 && s > 1) || s > 3 {
					return nil, false
				}
				if j >= count-processed && s != 0 {
					return nil, false // symbols beyond the count must be "not received"
				}
				if s == 1 || (v.SymbolSize == 1 && s == 2) {
					types = append(types, s)
				}
			}
			if i != len(t.PacketChunks)-1 && want > count-processed {
				return nil, false
			}
			adv := want
			if adv > count-processed {
				adv = count - processed
			}
			processed += adv
		default:
			return nil, false
		}
	}
	return types, processed == count
}

func wfTwcc(t *rtcp.TransportLayerCC) bool {
	if t.ReferenceTime >= 1<<24 || !twccConsistent(t) {
		return false
	}
	types, ok := twccAnnounced(t)
	if !ok || len(types) != len(t.RecvDeltas) {
		return false
	}
	for i, d := range t.RecvDeltas {
		if d == nil || d.Type != types[i] {
			return false
		}
		q := d.Delta / 250
		if d.Type == 1 && (q < 0 || q > 255) {
			return false
		}
		if d.Type == 2 && (q < -32768 || q > 32767) {
			return false
		}
	}
	return t.MarshalSize() <= 65532
}

func wfXRBlock(b rtcp.ReportBlock) bool {
	hdr, omits, _, elems := xrParts(b)
	kind := xrKindOf(b)
	switch kind {
	case 1, 2:
		if omits[0] > 15 || len(elems)%2 != 0 {
			return false
		}
	case 3:
		if omits[0] > 15 {
			return false
		}
	case 6:
		if omits[3] > 3 {
			return false
		}
	case 0:
		if hdr.BlockType >= 1 && hdr.BlockType <= 7 {
			return false
		}
		if len(elems)%4 != 0 {
			return false
		}
	}
	return rtcp.VerifWireSize(b) <= 262144
}

// wfPacket: inside the well-formed domain of C02 (through the datagram path)
func wfPacket(p rtcp.Packet) bool {
	switch v := p.(type) {
	case *rtcp.SenderReport:
		if len(v.Reports) > 31 || len(v.ProfileExtensions)%4 != 0 || v.MarshalSize() > 262144 {
			return false
		}
		for _, r := range v.Reports {
			if !wfRRep(r) {
				return false
			}
		}
		return true
	case *rtcp.ReceiverReport:
		if len(v.Reports) > 31 || v.MarshalSize() > 262144 {
			return false
		}
		for _, r := range v.Reports {
			if !wfRRep(r) {
				return false
			}
		}
		return true
	case *rtcp.SourceDescription:
		if len(v.Chunks) > 31 || v.MarshalSize() > 262144 {
			return false
		}
		for _, c := range v.Chunks {
			for _, i := range c.Items {
				if !wfItem(i) {
					return false
				}
			}
		}
		return true
	case *rtcp.Goodbye:
		return len(v.Sources) <= 31 && len(v.Reason) <= 255
	case *rtcp.ApplicationDefined:
		return v.SubType <= 31 && len(v.Name) == 4 && len(v.Data) <= 0xFFFF-12 && len(v.Data)%4 == 0
	case *rtcp.TransportLayerNack:
		return len(v.Nacks) >= 1 && len(v.Nacks) <= 253
	case *rtcp.RapidResynchronizationRequest, *rtcp.PictureLossIndication:
		return true
	case *rtcp.SliceLossIndication:
		if len(v.SLI) > 253 {
			return false
		}
		for _, e := range v.SLI {
			if e.First > 0x1FFF || e.Number > 0x1FFF || e.Picture > 0x3F {
				return false
			}
		}
		return true
	case *rtcp.FullIntraRequest:
		return len(v.FIR) >= 1 && len(v.FIR) <= 32766
	case *rtcp.ReceiverEstimatedMaximumBitrate:
		f := float64(v.Bitrate)
		return len(v.SSRCs) <= 255 && !math.IsNaN(f) && !(f < 0) && !math.IsInf(f, 0)
	case *rtcp.TransportLayerCC:
		return wfTwcc(v)
	case *rtcp.CCFeedbackReport:
		for _, b := range v.ReportBlocks {
			if len(b.MetricBlocks) > 16384 {
				return false
			}
			if len(b.MetricBlocks) > 0 && int(b.BeginSequence)+len(b.MetricBlocks)-1 > 65535 {
				return false // sequence numbers of one block must not wrap (as the decoder demands)
			}
			for _, m := range b.MetricBlocks {
				if m.ECN > 3 || m.ArrivalTimeOffset > 0x1FFF || (!m.Received && (m.ECN != 0 || m.ArrivalTimeOffset != 0)) {
					return false
				}
			}
		}
		return v.MarshalSize() <= 262144
	case *rtcp.ExtendedReport:
		for _, b := range v.Reports {
			if b == nil || !wfXRBlock(b) {
				return false
			}
		}
		return v.MarshalSize() <= 262144
	case *rtcp.RawPacket:
		b := []byte(*v)
		if len(b) < 4 || len(b)%4 != 0 || b[0]>>6 != 2 {
			return false
		}
		if (int(b[2])<<8|int(b[3])+1)*4 != len(b) {
			return false
		}
		// a raw packet must not carry a registered (PT, FMT): it would be dispatched to that decoder
		pt, fmt := int(b[1]), int(b[0]&31)
		switch pt {
		case 200, 201, 202, 203, 204, 207:
			return false
		case 205:
			return fmt != 1 && fmt != 5 && fmt != 11 && fmt != 15
		case 206:
			return fmt != 1 && fmt != 2 && fmt != 4 && fmt != 15
		}
		return true
	}
	return false
}
