package main

// C18: operation histories on one packet. After every call the harness re-compares deep snapshots of
// the packet, of the input buffers handed to Unmarshal, and of every slice returned earlier; any
// change is reported as `mutated <what>` (which the model never prints).

import (
	"bytes"
	"encoding/hex"
	"fmt"
	"reflect"
	"strings"

	"github.com/pion/rtcp"
)

type heldBytes struct {
	live []byte
	snap []byte
	what string
}
type heldU32 struct {
	live []uint32
	snap []uint32
	what string
}

func eqU32(a, b []uint32) bool {
	if len(a) != len(b) {
		return false
	}
	for i := range a {
		if a[i] != b[i] {
			return false
		}
	}
	return true
}

// execHist: `hist KIND body... n op...`; ops: M S D T U<hex>
func execHist(r *R) string {
	kind := r.S()
	p := getBody(r, kind)
	n := r.N()
	var ops []string
	for i := 0; i < n; i++ {
		ops = append(ops, r.S())
	}
	var hb []heldBytes
	var hu []heldU32
	snapState := bodyTokens(p)
	isXR := kind == "XR"
	deep := deepCopy(reflect.ValueOf(p)).Interface() // distinguishes nil from empty slices, which the tokens do not
	var canaries *canarySet
	if kind != "RAW" {
		canaries = plantCanaries(p)
		if bodyTokens(p) != snapState {
			panic(parseErr{"canary planting changed the value"})
		}
	}
	var res []string
	check := func(step int) string {
		for _, h := range hb {
			if !bytes.Equal(h.live, h.snap) {
				return fmt.Sprintf("mutated step=%d %s", step, h.what)
			}
		}
		for _, h := range hu {
			if !eqU32(h.live, h.snap) {
				return fmt.Sprintf("mutated step=%d %s", step, h.what)
			}
		}
		return ""
	}
	for i, op := range ops {
		switch {
		case op == "M":
			b, err := p.Marshal()
			if err != nil {
				res = append(res, "M=err")
			} else {
				res = append(res, "M="+hexOrDash(b))
				if kind != "RAW" { // RawPacket.Marshal returns the packet itself by design of the type
					hb = append(hb, heldBytes{b, append([]byte{}, b...), fmt.Sprintf("bytes-returned-by-op-%d", i)})
				}
			}
			if isXR && err == nil {
				// documented exception: the blocks' header fields (block type, type-specific octet, block length) are
				// filled in — and nothing else
				if xrNonHeader(p) != xrNonHeader(getBody(NewR(snapState), "XR")) {
					return fmt.Sprintf("mutated step=%d packet (a field other than the blocks' header fields)", i)
				}
				snapState = bodyTokens(p)
			}
			if isXR && canaries != nil && err == nil {
				canaries.resnap() // the documented exception writes the blocks' header fields
			}
		case op == "S":
			res = append(res, fmt.Sprintf("S=%d", p.MarshalSize()))
		case op == "D":
			d := p.DestinationSSRC()
			parts := []string{fmt.Sprint(len(d))}
			for _, s := range d {
				parts = append(parts, fmt.Sprint(s))
			}
			res = append(res, "D="+strings.Join(parts, ","))
			if kind != "REMB" { // REMB documents returning its own SSRC slice
				hu = append(hu, heldU32{d, append([]uint32{}, d...), fmt.Sprintf("ssrcs-returned-by-op-%d", i)})
			}
		case op == "T":
			if s, ok := p.(fmt.Stringer); ok {
				_ = s.String()
			}
			_ = fmt.Sprintf("%+v", p)
			res = append(res, "T")
		case strings.HasPrefix(op, "U"):
			raw := []byte{}
			if op[1:] != "-" {
				var err error
				raw, err = hex.DecodeString(op[1:])
				if err != nil {
					panic(parseErr{"hist U hex"})
				}
			}
			buf := exactCap(raw)
			q := newPacket(kind)
			err := q.Unmarshal(buf)
			hb = append(hb, heldBytes{buf, append([]byte{}, raw...), fmt.Sprintf("input-buffer-of-op-%d", i)})
			if err != nil {
				res = append(res, "U=err")
			} else {
				res = append(res, "U=ok")
				p = q
				snapState = bodyTokens(p)
				canaries = nil
			}
		default:
			panic(parseErr{"hist op " + op})
		}
		if now := bodyTokens(p); now != snapState {
			return fmt.Sprintf("mutated step=%d packet", i)
		}
		if deep != nil && !isXR && !strings.HasPrefix(op, "U") && !reflect.DeepEqual(deep, p) {
			return fmt.Sprintf("mutated step=%d packet (a nil slice became empty, or the like)", i)
		}
		if strings.HasPrefix(op, "U") {
			deep = deepCopy(reflect.ValueOf(p)).Interface()
		}
		if m := check(i); m != "" {
			return m
		}
		if canaries != nil && !canaries.intact() {
			return fmt.Sprintf("mutated step=%d hidden-capacity-of-a-slice-of-the-packet", i)
		}
	}
	return "ok " + strings.Join(res, " ") + " ; " + bodyTokens(p)
}

func hexOrDash(b []byte) string {
	if len(b) == 0 {
		return "-"
	}
	return hex.EncodeToString(b)
}

var _ = rtcp.Header{}

// xrNonHeader: an extended report's tokens with every block's XRHeader zeroed
func xrNonHeader(p rtcp.Packet) string {
	x, ok := p.(*rtcp.ExtendedReport)
	if !ok {
		return bodyTokens(p)
	}
	c := &rtcp.ExtendedReport{SenderSSRC: x.SenderSSRC}
	for _, b := range x.Reports {
		_, omits, vals, elems := xrParts(b)
		c.Reports = append(c.Reports, xrBuild(xrKindOf(b), rtcp.XRHeader{}, omits, vals, elems))
	}
	return bodyTokens(c)
}
