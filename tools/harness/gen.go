package main

// Generators G1–G4 (DESIGN §4.2). All randomness from one splitmix64 stream.

import (
	"encoding/binary"
	"math"

	"github.com/pion/rtcp"
)

// ---------- G1: structured values ----------

// wild=true allows values outside the well-formed domain (limits exceeded, wire widths exceeded).
func genRRep(r *Rng, wild bool) rtcp.ReceptionReport {
	x := rtcp.ReceptionReport{
		SSRC: uint32(r.Bits(32, 32)), FractionLost: uint8(r.Bits(8, 8)),
		LastSequenceNumber: uint32(r.Bits(32, 32)), Jitter: uint32(r.Bits(32, 32)),
		LastSenderReport: uint32(r.Bits(32, 32)), Delay: uint32(r.Bits(32, 32)),
	}
	if wild {
		x.TotalLost = uint32(r.Bits(24, 32))
		if r.Chance(1, 6) {
			x.TotalLost = uint32(r.Pick(1<<24-1, 1<<24, 1<<24+1, 1<<25-1, 1<<25, 1<<25+1))
		}
	} else {
		x.TotalLost = uint32(r.Bits(24, 24))
	}
	return x
}

func genRReps(r *Rng, wild bool) []rtcp.ReceptionReport {
	n := r.Len(3, 30, 31)
	if wild && r.Chance(1, 8) {
		n = r.Pick(31, 32, 33)
	}
	var xs []rtcp.ReceptionReport
	for i := 0; i < n; i++ {
		xs = append(xs, genRRep(r, wild && r.Chance(1, 4)))
	}
	return xs
}

func genExt(r *Rng, wild bool) []byte {
	if r.Chance(1, 2) {
		return []byte{}
	}
	n := 4 * r.Len(3, 8)
	if wild {
		n = r.Len(9)
	}
	return r.Bytes(n)
}

func genText(r *Rng, wild bool) string {
	n := r.Len(6, 253, 254, 255)
	if wild && r.Chance(1, 5) {
		n = r.Pick(255, 256, 257, 300)
	}
	if r.Chance(1, 12) { // text that is not valid UTF-8: only continuation octets, only lead octets, a cut multi-octet rune
		b := make([]byte, r.Pick(1, 64, 65, 66, 200, 255))
		lo, span := 0x80, 0x40
		if r.Chance(1, 3) {
			lo, span = 0xC0, 0x40
		}
		for i := range b {
			b[i] = byte(lo + r.Intn(span))
		}
		return string(b)
	}
	return string(r.Bytes(n))
}

func genItem(r *Rng, wild bool) rtcp.SourceDescriptionItem {
	t := rtcp.SDESType(1 + r.Intn(8))
	if r.Chance(1, 3) {
		t = rtcp.SDESCNAME
	}
	if r.Chance(1, 10) {
		t = rtcp.SDESType(1 + r.Intn(255))
	}
	if wild && r.Chance(1, 8) {
		t = 0
	}
	return rtcp.SourceDescriptionItem{Type: t, Text: genText(r, wild)}
}

func genChunk(r *Rng, wild bool) rtcp.SourceDescriptionChunk {
	c := rtcp.SourceDescriptionChunk{Source: uint32(r.Bits(32, 32))}
	for n := r.Len(3, 8); n > 0; n-- {
		c.Items = append(c.Items, genItem(r, wild && r.Chance(1, 3)))
	}
	return c
}

func genTwccChunk(r *Rng, wild bool) rtcp.PacketStatusChunk {
	if r.Bool() {
		c := &rtcp.RunLengthChunk{Type: 0, PacketStatusSymbol: uint16(r.Intn(4)), RunLength: uint16(r.Bits(13, 13))}
		if wild {
			c.Type = uint16(r.Bits(1, 16))
			c.PacketStatusSymbol = uint16(r.Bits(2, 16))
			c.RunLength = uint16(r.Bits(13, 16))
		}
		return c
	}
	c := &rtcp.StatusVectorChunk{Type: 1, SymbolSize: uint16(r.Intn(2))}
	n := 14
	if c.SymbolSize == 1 {
		n = 7
	}
	if wild {
		c.Type = uint16(r.Bits(1, 16))
		c.SymbolSize = uint16(r.Bits(1, 16))
		n = r.Pick(0, 1, 6, 7, 8, 13, 14, 15, 16, 17)
	}
	for i := 0; i < n; i++ {
		max := 2
		if c.SymbolSize == 1 {
			max = 4
		}
		s := uint16(r.Intn(max))
		if wild && r.Chance(1, 6) {
			s = uint16(r.Bits(2, 16))
		}
		c.SymbolList = append(c.SymbolList, s)
	}
	return c
}

func genDelta(r *Rng, typ uint16, wild bool) *rtcp.RecvDelta {
	d := &rtcp.RecvDelta{Type: typ}
	switch typ {
	case 1:
		d.Delta = 250 * int64(r.Bits(8, 8))
	case 2:
		d.Delta = 250 * int64(int16(r.Bits(16, 16)))
	default:
		d.Delta = int64(r.Bits(20, 64))
	}
	if wild {
		switch r.Intn(6) {
		case 0:
			d.Delta += int64(r.Intn(250))
		case 1:
			d.Delta = -d.Delta - int64(r.Intn(300))
		case 2:
			d.Delta = int64(r.Pick(255*250, 256*250, 256*250-1, 32767*250, 32768*250, -32768*250, -32769*250, -1, -249, -250))
		case 3:
			d.Delta = int64(r.U64())
		case 4:
			d.Type = uint16(r.Bits(2, 16))
		}
	}
	return d
}

// a TWCC value consistent with its chunks (WF) or arbitrary (wild)
func genTwcc(r *Rng, wild bool) *rtcp.TransportLayerCC {
	t := &rtcp.TransportLayerCC{
		SenderSSRC: uint32(r.Bits(32, 32)), MediaSSRC: uint32(r.Bits(32, 32)),
		BaseSequenceNumber: uint16(r.Bits(16, 16)), ReferenceTime: uint32(r.Bits(24, 24)), FbPktCount: uint8(r.Bits(8, 8)),
	}
	if wild {
		t.ReferenceTime = uint32(r.Bits(24, 32))
	}
	nChunks := r.Len(4, 0, 1, 9)
	count := 0
	for i := 0; i < nChunks; i++ {
		c := genTwccChunk(r, wild && r.Chance(1, 3))
		t.PacketChunks = append(t.PacketChunks, c)
		switch v := c.(type) {
		case *rtcp.RunLengthChunk:
			if v.RunLength > 40 && !wild {
				v.RunLength = uint16(r.Intn(40))
			}
			if v.RunLength == 0 && !wild {
				v.RunLength = 1
			}
			count += int(v.RunLength)
			if v.PacketStatusSymbol == 1 || v.PacketStatusSymbol == 2 {
				for j := 0; j < int(v.RunLength) && j < 5000; j++ {
					t.RecvDeltas = append(t.RecvDeltas, genDelta(r, v.PacketStatusSymbol, wild && r.Chance(1, 8)))
				}
			}
		case *rtcp.StatusVectorChunk:
			last := i == nChunks-1
			used := len(v.SymbolList)
			if last && used > 1 && r.Bool() && !wild {
				used = 1 + r.Intn(used) // the final chunk may cover fewer packets than it has symbols
				for j := used; j < len(v.SymbolList); j++ {
					v.SymbolList[j] = 0
				}
			}
			count += used
			for _, s := range v.SymbolList {
				if (v.SymbolSize == 0 && s == 1) || (v.SymbolSize == 1 && (s == 1 || s == 2)) {
					t.RecvDeltas = append(t.RecvDeltas, genDelta(r, s, wild && r.Chance(1, 8)))
				}
			}
		}
	}
	if count > 65535 {
		count = 65535
	}
	t.PacketStatusCount = uint16(count)
	if wild && r.Chance(1, 3) {
		t.PacketStatusCount = uint16(r.Bits(16, 16))
	}
	if wild && r.Chance(1, 3) {
		for n := r.Intn(4); n > 0; n-- {
			t.RecvDeltas = append(t.RecvDeltas, genDelta(r, uint16(1+r.Intn(2)), true))
		}
	}
	// header consistent with content
	size := t.MarshalSize()
	pl := int(rtcp.VerifTWCCPacketLen(t))
	t.Header = rtcp.Header{Padding: size != pl, Count: rtcp.FormatTCC, Type: rtcp.TypeTransportSpecificFeedback, Length: uint16(size/4 - 1)}
	if wild && r.Chance(1, 2) {
		t.Header = genHeader(r, true)
		if r.Bool() {
			t.Header.Count, t.Header.Type = rtcp.FormatTCC, rtcp.TypeTransportSpecificFeedback
		}
	}
	return t
}

func genHeader(r *Rng, wild bool) rtcp.Header {
	h := rtcp.Header{Padding: r.Bool(), Count: uint8(r.Bits(5, 5)), Type: rtcp.PacketType(r.Bits(8, 8)), Length: uint16(r.Bits(16, 16))}
	if r.Chance(1, 2) {
		h.Type = rtcp.PacketType(200 + r.Intn(8))
	}
	if wild {
		h.Count = uint8(r.Bits(5, 8))
	}
	return h
}

func genMetric(r *Rng, wild bool) rtcp.CCFeedbackMetricBlock {
	m := rtcp.CCFeedbackMetricBlock{Received: r.Chance(3, 4), ECN: rtcp.ECN(r.Intn(4)), ArrivalTimeOffset: uint16(r.Bits(13, 13))}
	if !m.Received && !wild {
		m.ECN, m.ArrivalTimeOffset = 0, 0
	}
	if wild {
		m.ECN = rtcp.ECN(r.Bits(2, 8))
		m.ArrivalTimeOffset = uint16(r.Bits(13, 16))
	}
	return m
}

func genCcfbBlock(r *Rng, wild bool) rtcp.CCFeedbackReportBlock {
	b := rtcp.CCFeedbackReportBlock{MediaSSRC: uint32(r.Bits(32, 32)), BeginSequence: uint16(r.Bits(16, 16))}
	n := r.Len(5, 0, 1, 2, 3)
	if wild && r.Chance(1, 40) {
		n = r.Pick(16383, 16384, 16385)
	}
	for i := 0; i < n; i++ {
		b.MetricBlocks = append(b.MetricBlocks, genMetric(r, wild && r.Chance(1, 3)))
	}
	return b
}

func genXRBlock(r *Rng, wild bool) rtcp.ReportBlock {
	kind := r.Intn(8)
	hdr := rtcp.XRHeader{}
	if wild || kind == 0 {
		hdr = rtcp.XRHeader{BlockType: rtcp.BlockTypeType(r.Bits(8, 8)), TypeSpecific: rtcp.TypeSpecificField(r.Bits(8, 8)), BlockLength: uint16(r.Bits(16, 16))}
	}
	if kind == 0 && !wild {
		bt := r.Pick(0, 8, 9, 100, 254, 255)
		hdr.BlockType = rtcp.BlockTypeType(bt)
	}
	var omits, vals []uint64
	var elems [][]uint64
	switch kind {
	case 1, 2:
		omits = []uint64{r.Bits(4, 4)}
		if wild {
			omits[0] = r.Bits(4, 8)
		}
		vals = []uint64{r.Bits(32, 32), r.Bits(16, 16), r.Bits(16, 16)}
		n := 2 * r.Len(3)
		if wild {
			n = r.Len(5)
		}
		for i := 0; i < n; i++ {
			elems = append(elems, []uint64{r.Bits(16, 16)})
		}
	case 3:
		omits = []uint64{r.Bits(4, 4)}
		if wild {
			omits[0] = r.Bits(4, 8)
		}
		vals = []uint64{r.Bits(32, 32), r.Bits(16, 16), r.Bits(16, 16)}
		for n := r.Len(4); n > 0; n-- {
			elems = append(elems, []uint64{r.Bits(32, 32)})
		}
	case 4:
		vals = []uint64{r.Bits(64, 64)}
	case 5:
		for n := r.Len(3); n > 0; n-- {
			elems = append(elems, []uint64{r.Bits(32, 32), r.Bits(32, 32), r.Bits(32, 32)})
		}
	case 6:
		toh := r.Bits(2, 2)
		if wild {
			toh = r.Bits(2, 8)
		}
		omits = []uint64{uint64(r.Intn(2)), uint64(r.Intn(2)), uint64(r.Intn(2)), toh}
		vals = []uint64{r.Bits(32, 32), r.Bits(16, 16), r.Bits(16, 16), r.Bits(32, 32), r.Bits(32, 32), r.Bits(32, 32), r.Bits(32, 32),
			r.Bits(32, 32), r.Bits(32, 32), r.Bits(8, 8), r.Bits(8, 8), r.Bits(8, 8), r.Bits(8, 8)}
	case 7:
		vals = []uint64{r.Bits(32, 32)}
		for _, w := range []int{8, 8, 8, 8, 16, 16, 16, 16, 8, 8, 8, 8, 8, 8, 8, 8, 8, 16, 16, 16} {
			vals = append(vals, r.Bits(w, w))
		}
	case 0:
		n := 4 * r.Len(3)
		if wild {
			n = r.Len(9)
		}
		for i := 0; i < n; i++ {
			elems = append(elems, []uint64{r.Bits(8, 8)})
		}
	}
	return xrBuild(kind, hdr, omits, vals, elems)
}

func rembBits(r *Rng, wild bool) uint32 {
	switch r.Intn(8) {
	case 0:
		return math.Float32bits(float32(r.Intn(1 << 18)))
	case 1: // around powers of two
		e := r.Intn(90)
		f := float32(math.Ldexp(1, e))
		b := math.Float32bits(f)
		return b + uint32(r.Intn(5)) - 2
	case 2: // around mantissa carries of the 18-bit coding
		e := r.Intn(64)
		m := r.Pick(0x3FFFF, 0x20000, 0x1FFFF, 0x3FFFE)
		f := float32(math.Ldexp(float64(m), e))
		b := math.Float32bits(f)
		return b + uint32(r.Intn(5)) - 2
	case 3: // saturation point and beyond
		b := math.Float32bits(0x3FFFFp+63)
		return b + uint32(r.Intn(9)) - 4
	case 4:
		if wild {
			return uint32(r.Pick(0x7f800000, 0x80000000, 0xbf800000, 0xff800000, 0x00000001, 0x007fffff, 0x7f7fffff, // +inf -0 -1 -inf denormals max
				0xbf000000, 0xbf7fbe77, 0xaedbe6ff, 0x80000001, 0x807fffff, 0xbf7fffff)) // -0.5 -0.999 -1e-10 and the negative denormals: negative, yet above -1
		}
		return 0
	case 5: // small and fractional
		return math.Float32bits(float32(r.Intn(1000)) / float32(1+r.Intn(16)))
	default:
		b := uint32(r.U64()) & 0x7fffffff
		if b >= 0x7f800000 { // no NaN/inf here
			b = 0x7f7fffff
		}
		return b
	}
}

func genValue(r *Rng, kind string, wild bool) rtcp.Packet {
	switch kind {
	case "SR":
		return &rtcp.SenderReport{SSRC: uint32(r.Bits(32, 32)), NTPTime: r.Bits(64, 64), RTPTime: uint32(r.Bits(32, 32)),
			PacketCount: uint32(r.Bits(32, 32)), OctetCount: uint32(r.Bits(32, 32)), Reports: genRReps(r, wild), ProfileExtensions: genExt(r, wild)}
	case "RR":
		return &rtcp.ReceiverReport{SSRC: uint32(r.Bits(32, 32)), Reports: genRReps(r, wild), ProfileExtensions: genExt(r, wild || r.Chance(1, 3))}
	case "SDES":
		v := &rtcp.SourceDescription{}
		n := r.Len(3, 30, 31)
		if wild && r.Chance(1, 8) {
			n = r.Pick(31, 32, 33)
		}
		for i := 0; i < n; i++ {
			v.Chunks = append(v.Chunks, genChunk(r, wild && r.Chance(1, 3)))
		}
		return v
	case "BYE":
		v := &rtcp.Goodbye{}
		n := r.Len(3, 30, 31)
		if wild && r.Chance(1, 8) {
			n = r.Pick(31, 32, 33)
		}
		for i := 0; i < n; i++ {
			v.Sources = append(v.Sources, uint32(r.Bits(32, 32)))
		}
		if r.Bool() {
			v.Reason = genText(r, wild)
		}
		return v
	case "APP":
		v := &rtcp.ApplicationDefined{SubType: uint8(r.Bits(5, 5)), SSRC: uint32(r.Bits(32, 32)), Name: string(r.Bytes(4)), Data: r.Bytes(r.Len(9, 0))}
		if wild {
			v.SubType = uint8(r.Bits(5, 8))
			if r.Chance(1, 3) {
				v.Name = string(r.Bytes(r.Pick(0, 3, 5)))
			}
			if r.Chance(1, 20) {
				v.Data = r.Bytes(r.Pick(0xFFFF-13, 0xFFFF-12, 0xFFFF-11))
			}
		}
		return v
	case "NACK":
		v := &rtcp.TransportLayerNack{SenderSSRC: uint32(r.Bits(32, 32)), MediaSSRC: uint32(r.Bits(32, 32))}
		n := 1 + r.Len(4, 252)
		if wild {
			n = r.Len(4, 0, 253, 254, 255)
		}
		for i := 0; i < n; i++ {
			v.Nacks = append(v.Nacks, rtcp.NackPair{PacketID: uint16(r.Bits(16, 16)), LostPackets: rtcp.PacketBitmap(r.Bits(16, 16))})
		}
		return v
	case "RRR":
		return &rtcp.RapidResynchronizationRequest{SenderSSRC: uint32(r.Bits(32, 32)), MediaSSRC: uint32(r.Bits(32, 32))}
	case "PLI":
		return &rtcp.PictureLossIndication{SenderSSRC: uint32(r.Bits(32, 32)), MediaSSRC: uint32(r.Bits(32, 32))}
	case "SLI":
		v := &rtcp.SliceLossIndication{SenderSSRC: uint32(r.Bits(32, 32)), MediaSSRC: uint32(r.Bits(32, 32))}
		n := r.Len(4, 252, 253)
		if wild {
			n = r.Len(4, 253, 254, 255)
		}
		for i := 0; i < n; i++ {
			e := rtcp.SLIEntry{First: uint16(r.Bits(13, 13)), Number: uint16(r.Bits(13, 13)), Picture: uint8(r.Bits(6, 6))}
			if wild {
				e = rtcp.SLIEntry{First: uint16(r.Bits(13, 16)), Number: uint16(r.Bits(13, 16)), Picture: uint8(r.Bits(6, 8))}
			}
			v.SLI = append(v.SLI, e)
		}
		return v
	case "FIR":
		v := &rtcp.FullIntraRequest{SenderSSRC: uint32(r.Bits(32, 32)), MediaSSRC: uint32(r.Bits(32, 32))}
		n := 1 + r.Len(4, 30)
		if wild {
			n = r.Len(4, 0)
		}
		for i := 0; i < n; i++ {
			v.FIR = append(v.FIR, rtcp.FIREntry{SSRC: uint32(r.Bits(32, 32)), SequenceNumber: uint8(r.Bits(8, 8))})
		}
		return v
	case "REMB":
		v := &rtcp.ReceiverEstimatedMaximumBitrate{SenderSSRC: uint32(r.Bits(32, 32)), Bitrate: math.Float32frombits(rembBits(r, wild))}
		n := r.Len(4, 254, 255)
		if wild && r.Chance(1, 6) {
			n = r.Pick(255, 256, 257, 300)
		}
		for i := 0; i < n; i++ {
			v.SSRCs = append(v.SSRCs, uint32(r.Bits(32, 32)))
		}
		return v
	case "TWCC":
		return genTwcc(r, wild)
	case "CCFB":
		v := &rtcp.CCFeedbackReport{SenderSSRC: uint32(r.Bits(32, 32)), ReportTimestamp: uint32(r.Bits(32, 32))}
		for n := r.Len(3); n > 0; n-- {
			v.ReportBlocks = append(v.ReportBlocks, genCcfbBlock(r, wild))
		}
		return v
	case "XR":
		v := &rtcp.ExtendedReport{SenderSSRC: uint32(r.Bits(32, 32))}
		for n := r.Len(4, 0); n > 0; n-- {
			v.Reports = append(v.Reports, genXRBlock(r, wild && r.Chance(1, 2)))
		}
		return v
	case "RAW":
		h := genHeader(r, false)
		body := r.Bytes(4 * r.Len(4))
		h.Length = uint16(len(body) / 4)
		hb, _ := h.Marshal()
		raw := rtcp.RawPacket(append(hb, body...))
		if wild && r.Chance(1, 3) {
			raw = rtcp.RawPacket(r.Bytes(r.Len(9)))
		}
		return &raw
	}
	panic("genValue " + kind)
}

// ---------- G2: mutations of valid encodings ----------

var lengthEdges = []int{0, 1, 2, 3, 4, 5, 6, 7, 0x3FFF, 0x4000, 0x4001, 0x4002, 0x7FFF, 0x8000, 0xFFFE, 0xFFFF}

func mutate(r *Rng, b []byte) []byte {
	b = append([]byte{}, b...)
	nm := 1 + r.Intn(3)
	for ; nm > 0; nm-- {
		switch r.Intn(11) {
		case 0: // truncate
			if len(b) > 0 {
				b = b[:r.Intn(len(b)+1)]
			}
		case 1: // append
			b = append(b, r.Bytes(1+r.Intn(8))...)
		case 2: // flip a bit, concentrated on the first 20 octets
			if len(b) > 0 {
				lim := len(b)
				if lim > 20 && r.Chance(2, 3) {
					lim = 20
				}
				b[r.Intn(lim)] ^= 1 << uint(r.Intn(8))
			}
		case 3: // length field to an edge value
			if len(b) >= 4 {
				binary.BigEndian.PutUint16(b[2:], uint16(lengthEdges[r.Intn(len(lengthEdges))]))
			}
		case 4: // length field to actual-1 / actual / actual+1
			if len(b) >= 4 {
				binary.BigEndian.PutUint16(b[2:], uint16(len(b)/4-1+r.Intn(3)-1))
			}
		case 5: // count
			if len(b) >= 1 {
				b[0] = b[0]&0xE0 | byte(r.Bits(5, 5))
			}
		case 6: // random octet
			if len(b) > 0 {
				b[r.Intn(len(b))] = byte(r.U64())
			}
		case 7: // padding bit / version
			if len(b) >= 1 {
				b[0] ^= byte(r.Pick(0x20, 0x40, 0x80))
			}
		case 8: // set a 16-bit field somewhere to an edge
			if len(b) >= 6 {
				off := 2 * r.Intn(len(b)/2-1)
				binary.BigEndian.PutUint16(b[off:], uint16(r.Pick(0, 1, 2, 0x7fff, 0x8000, 0xfffe, 0xffff, 0x3fff, 0x4000, 0x1fff, 0x2000)))
			}
		case 9: // drop 4 octets from the middle, fix length
			if len(b) >= 12 {
				off := 4 * (1 + r.Intn(len(b)/4-1))
				b = append(b[:off], b[off+4:]...)
				if r.Bool() && len(b) >= 4 {
					binary.BigEndian.PutUint16(b[2:], uint16(len(b)/4-1))
				}
			}
		case 10: // grow with zeros/words, fix length
			for n := 1 + r.Intn(3); n > 0; n-- {
				b = append(b, r.Bytes(4)...)
			}
			if len(b) >= 4 {
				binary.BigEndian.PutUint16(b[2:], uint16(len(b)/4-1))
			}
		}
	}
	return b
}

// header of (pt,count) followed by arbitrary octets with a consistent or inconsistent length
func behindHeader(r *Rng, pt, count int, n int) []byte {
	b := make([]byte, 4, 4+n)
	b[0] = 0x80 | byte(count&31)
	if r.Chance(1, 8) {
		b[0] |= 0x20
	}
	b[1] = byte(pt)
	b = append(b, r.Bytes(n)...)
	l := len(b)/4 - 1
	if l < 0 {
		l = 0
	}
	if r.Chance(1, 5) {
		l = lengthEdges[r.Intn(len(lengthEdges))]
	}
	binary.BigEndian.PutUint16(b[2:], uint16(l))
	return b
}

var ptFmt = [][2]int{{200, 0}, {200, 1}, {200, 2}, {201, 0}, {201, 1}, {201, 3}, {202, 0}, {202, 1}, {202, 2}, {203, 0}, {203, 1}, {203, 2}, {204, 0}, {204, 5},
	{205, 1}, {205, 5}, {205, 11}, {205, 15}, {206, 1}, {206, 2}, {205, 2}, {206, 4}, {206, 15}, {207, 0}, {207, 3}, {205, 3}, {206, 3}, {192, 0}, {208, 1}, {0, 0}, {255, 31}}

// ---------- G4: structure-aware byte streams ----------

func genTwccBytes(r *Rng) []byte {
	nChunks := r.Len(6, 0, 1, 2)
	count := r.Pick(0, 1, 2, 7, 13, 14, 15, 28, 100, 8191, 8192, 65521, 65522, 65534, 65535)
	if r.Bool() {
		count = r.Intn(60)
	}
	body := make([]byte, 16)
	binary.BigEndian.PutUint32(body[0:], uint32(r.U64()))
	binary.BigEndian.PutUint32(body[4:], uint32(r.U64()))
	binary.BigEndian.PutUint16(body[8:], uint16(r.U64()))
	binary.BigEndian.PutUint16(body[10:], uint16(count))
	binary.BigEndian.PutUint32(body[12:], uint32(r.U64()))
	for i := 0; i < nChunks; i++ {
		var w uint16
		switch r.Intn(4) {
		case 0: // run length
			w = uint16(r.Intn(4))<<13 | uint16(r.Bits(13, 13))
			if r.Bool() {
				w = uint16(r.Intn(4))<<13 | uint16(r.Intn(20))
			}
		case 1: // 1-bit vector
			w = 0x8000 | uint16(r.U64())&0x3FFF
		case 2: // 2-bit vector
			w = 0xC000 | uint16(r.U64())&0x3FFF
		default:
			w = uint16(r.U64())
		}
		body = binary.BigEndian.AppendUint16(body, w)
	}
	body = append(body, r.Bytes(r.Len(30, 0, 1, 2))...)
	for len(body)%4 != 0 {
		body = append(body, 0)
	}
	hdr := []byte{0x80 | 15, 205, 0, 0}
	if r.Chance(1, 6) {
		hdr[0] |= 0x20
	}
	binary.BigEndian.PutUint16(hdr[2:], uint16((len(body)+4)/4-1))
	return append(hdr, body...)
}

// TWCC programs whose status counter comes close to (or crosses) 65535: run lengths that reach or overshoot the
// count, vector chunks that overshoot it, followed by more chunks that would only be scanned if the counter wrapped.
func genTwccWrap(r *Rng) []byte {
	count := 65535 - r.Pick(0, 0, 1, 2, 7, 13, 14, 20)
	body := make([]byte, 16)
	binary.BigEndian.PutUint32(body[0:], uint32(r.U64()))
	binary.BigEndian.PutUint32(body[4:], uint32(r.U64()))
	binary.BigEndian.PutUint16(body[8:], uint16(r.U64()))
	binary.BigEndian.PutUint16(body[10:], uint16(count))
	binary.BigEndian.PutUint32(body[12:], uint32(r.U64()))
	processed := 0
	for processed+8191 < count-r.Intn(3)*8191 {
		body = binary.BigEndian.AppendUint16(body, uint16(r.Pick(0, 0, 0, 3))<<13|8191)
		processed += 8191
	}
	extra := 1 + r.Intn(6)
	if r.Chance(1, 12) {
		extra = 200 + r.Intn(380) // long tail: only scanned (and only expensive) if the counter wrapped
	}
	for n := extra; n > 0; n-- {
		var w uint16
		switch r.Intn(4) {
		case 0:
			w = uint16(r.Intn(4))<<13 | 8191
		case 1:
			w = uint16(r.Intn(4))<<13 | uint16(r.Pick(count-processed-1, count-processed, count-processed+1, 1, 14)&0x1FFF)
		case 2:
			w = 0x8000 | uint16(r.U64())&0x3FFF
		default:
			w = 0xC000 | uint16(r.U64())&0x3FFF
		}
		body = binary.BigEndian.AppendUint16(body, w)
	}
	body = append(body, r.Bytes(r.Len(12, 0, 1, 2))...)
	for len(body)%4 != 0 {
		body = append(body, 0)
	}
	hdr := []byte{0x80 | 15, 205, 0, 0}
	binary.BigEndian.PutUint16(hdr[2:], uint16((len(body)+4)/4-1))
	return append(hdr, body...)
}

func genCcfbBytes(r *Rng) []byte {
	body := make([]byte, 4)
	binary.BigEndian.PutUint32(body, uint32(r.U64()))
	for nb := r.Len(3, 0); nb > 0; nb-- {
		blk := make([]byte, 8)
		binary.BigEndian.PutUint32(blk, uint32(r.U64()))
		begin := uint16(r.Bits(16, 16))
		num := r.Len(6, 0, 1, 2)
		binary.BigEndian.PutUint16(blk[4:], begin)
		field := num
		if r.Chance(1, 6) {
			field = r.Pick(0, 1, 0xFFFF, 0xFFFE, 65535-int(begin), 65536-int(begin), 65534-int(begin)) & 0xFFFF
		}
		binary.BigEndian.PutUint16(blk[6:], uint16(field))
		n := num + 1
		if num == 0 {
			n = 0
		}
		if n%2 == 1 && r.Chance(5, 6) {
			n++
		}
		for i := 0; i < n; i++ {
			blk = binary.BigEndian.AppendUint16(blk, uint16(r.U64()))
		}
		body = append(body, blk...)
	}
	body = append(body, r.Bytes(r.Pick(4, 4, 4, 0, 2, 8))...)
	for len(body)%4 != 0 {
		body = append(body, 0)
	}
	hdr := []byte{0x80 | 11, 205, 0, 0}
	binary.BigEndian.PutUint16(hdr[2:], uint16((len(body)+4)/4-1))
	return append(hdr, body...)
}

func genSdesBytes(r *Rng) []byte {
	var body []byte
	nc := r.Len(3, 0)
	for i := 0; i < nc; i++ {
		c := make([]byte, 4)
		binary.BigEndian.PutUint32(c, uint32(r.U64()))
		for ni := r.Len(3, 0); ni > 0; ni-- {
			t := r.Len(6, 0, 253, 255)
			c = append(c, byte(1+r.Intn(8)), byte(t))
			c = append(c, r.Bytes(t)...)
			if r.Chance(1, 12) && len(c) > 6 {
				c[len(c)-t-1] = byte(t + r.Pick(1, -1, 3)) // declared length off by a little
			}
		}
		if !r.Chance(1, 10) {
			c = append(c, 0)
		}
		for len(c)%4 != 0 && !r.Chance(1, 12) {
			c = append(c, byte(r.Pick(0, 0, 0, 1)))
		}
		body = append(body, c...)
	}
	cnt := nc
	if r.Chance(1, 6) {
		cnt = r.Intn(32)
	}
	hdr := []byte{0x80 | byte(cnt&31), 202, 0, 0}
	for len(body)%4 != 0 && r.Chance(9, 10) {
		body = append(body, 0)
	}
	binary.BigEndian.PutUint16(hdr[2:], uint16((len(body)+4)/4-1))
	return append(hdr, body...)
}

func genXRBytes(r *Rng) []byte {
	body := make([]byte, 4)
	binary.BigEndian.PutUint32(body, uint32(r.U64()))
	for nb := r.Len(4, 0); nb > 0; nb-- {
		bt := r.Intn(9)
		if r.Chance(1, 8) {
			bt = r.Intn(256)
		}
		sizes := map[int]int{1: 12, 2: 12, 3: 12, 4: 12, 5: 4, 6: 40, 7: 36}
		sz, ok := sizes[bt]
		if !ok {
			sz = 4
		}
		switch bt {
		case 1, 2:
			sz += 2 * r.Len(5)
		case 3:
			sz += 4 * r.Len(3)
		case 5:
			sz += 12 * r.Len(3)
		default:
			if !ok {
				sz += r.Len(9)
			}
		}
		if r.Chance(1, 8) {
			sz += r.Pick(-4, -2, -1, 1, 2, 4)
		}
		if sz < 4 {
			sz = 4
		}
		blk := r.Bytes(sz)
		blk[0] = byte(bt)
		bl := sz/4 - 1
		if r.Chance(1, 6) {
			bl += r.Pick(-1, 1, 2, 0xFFFF, 100)
		}
		binary.BigEndian.PutUint16(blk[2:], uint16(bl))
		body = append(body, blk...)
	}
	for len(body)%4 != 0 && r.Chance(9, 10) {
		body = append(body, 0)
	}
	hdr := []byte{0x80, 207, 0, 0}
	binary.BigEndian.PutUint16(hdr[2:], uint16((len(body)+4)/4-1))
	return append(hdr, body...)
}

// one frame of kind k in wire form, valid (from the implementation's own encoder) when possible
func validFrame(r *Rng, kind string) []byte {
	for try := 0; try < 8; try++ {
		p := genValue(r, kind, false)
		b, err := safeMarshal(p)
		if err == nil && len(b) >= 4 && len(b)%4 == 0 {
			return b
		}
	}
	return []byte{0x80, 192, 0, 0}
}

func safeMarshal(p rtcp.Packet) (b []byte, err error) {
	defer func() {
		if r := recover(); r != nil {
			err = errPanic
		}
	}()
	return p.Marshal()
}

type panicErr struct{}

func (panicErr) Error() string { return "panic" }

var errPanic = panicErr{}

// genDecodeInput: bytes for decoder `kind`, mixing G2/G3/G4
func genDecodeInput(r *Rng, kind string) []byte {
	switch r.Intn(10) {
	case 0, 1: // valid
		return validFrame(r, kind)
	case 2, 3, 4: // mutated valid
		return mutate(r, validFrame(r, kind))
	case 5: // foreign valid
		return validFrame(r, allKinds[r.Intn(len(allKinds))])
	case 6: // random behind this kind's header
		pf := ptFmt[r.Intn(len(ptFmt))]
		return behindHeader(r, pf[0], pf[1], r.Len(40, 0, 4, 8, 12, 16, 20, 24, 28))
	case 7: // short
		return r.Bytes(r.Intn(13))
	default:
		switch kind {
		case "TWCC":
			b := genTwccBytes(r)
			if r.Chance(1, 3) {
				b = genTwccWrap(r)
			}
			if r.Chance(1, 4) {
				b = mutate(r, b)
			}
			return b
		case "CCFB":
			b := genCcfbBytes(r)
			if r.Chance(1, 4) {
				b = mutate(r, b)
			}
			return b
		case "SDES":
			b := genSdesBytes(r)
			if r.Chance(1, 4) {
				b = mutate(r, b)
			}
			return b
		case "XR":
			b := genXRBytes(r)
			if r.Chance(1, 4) {
				b = mutate(r, b)
			}
			return b
		}
		return mutate(r, validFrame(r, kind))
	}
}

// genDatagram: 1..6 frames, possibly with a malformed one / truncation / surplus octets
func genDatagram(r *Rng) []byte {
	var d []byte
	n := 1 + r.Intn(5)
	bad := -1
	if r.Chance(1, 3) {
		bad = r.Intn(n)
	}
	for i := 0; i < n; i++ {
		k := allKinds[r.Intn(len(allKinds))]
		var f []byte
		switch {
		case i == bad:
			f = genDecodeInput(r, k)
		case r.Chance(1, 6):
			switch r.Intn(5) {
			case 4:
				f = genTwccWrap(r)
			case 0:
				f = genTwccBytes(r)
			case 1:
				f = genCcfbBytes(r)
			case 2:
				f = genSdesBytes(r)
			default:
				f = genXRBytes(r)
			}
		default:
			f = validFrame(r, k)
		}
		d = append(d, f...)
	}
	switch r.Intn(12) {
	case 0:
		d = append(d, r.Bytes(1+r.Intn(7))...)
	case 1:
		if len(d) > 0 {
			d = d[:len(d)-1-r.Intn(minInt(len(d), 5))]
		}
	}
	return d
}

func minInt(a, b int) int {
	if a < b {
		return a
	}
	return b
}

// ---------- G5: values whose encoding lies between 65536 and 262144 octets (the 16-bit word count still fits,
// 16-bit octet arithmetic does not), and element counts around the 8-bit wrap (256..288) ----------

var bigKinds = []string{"CCFB", "XR", "SDES", "SR", "RR", "FIR", "TWCC", "RAW"}

// quickTier: set by genOps; bounds the few generated values on which the model takes minutes
var quickTier bool

func genBig(r *Rng, kind string) rtcp.Packet {
	switch kind {
	case "CCFB":
		v := &rtcp.CCFeedbackReport{SenderSSRC: uint32(r.Bits(32, 32)), ReportTimestamp: uint32(r.Bits(32, 32))}
		nb := r.Pick(2, 3, 4)
		total := 0
		for i := 0; i < nb || total < 32772; i++ { // at least 65544 octets of metric blocks: past the 16-bit octet count
			n := r.Pick(16384, 16372, 16383, 12000)
			total += n
			b := rtcp.CCFeedbackReportBlock{MediaSSRC: uint32(r.Bits(32, 32)), BeginSequence: uint16(r.Intn(65536 - n))}
			for j := 0; j < n; j++ {
				b.MetricBlocks = append(b.MetricBlocks, genMetric(r, false))
			}
			v.ReportBlocks = append(v.ReportBlocks, b)
		}
		return v
	case "XR":
		v := &rtcp.ExtendedReport{SenderSSRC: uint32(r.Bits(32, 32))}
		for n := r.Pick(1, 2, 3); n > 0; n-- {
			switch r.Intn(3) {
			case 0:
				b := &rtcp.LossRLEReportBlock{}
				b.SSRC = uint32(r.Bits(32, 32))
				for j := 2 * r.Pick(16384, 20000, 30000); j > 0; j-- {
					b.Chunks = append(b.Chunks, rtcp.Chunk(r.Bits(16, 16)))
				}
				v.Reports = append(v.Reports, b)
			case 1:
				b := &rtcp.PacketReceiptTimesReportBlock{}
				b.SSRC = uint32(r.Bits(32, 32))
				for j := r.Pick(16384, 20000, 30000); j > 0; j-- {
					b.ReceiptTime = append(b.ReceiptTime, uint32(r.Bits(32, 32)))
				}
				v.Reports = append(v.Reports, b)
			case 2:
				b := &rtcp.UnknownReportBlock{Bytes: r.Bytes(4 * r.Pick(16384, 20000))}
				b.XRHeader.BlockType = rtcp.BlockTypeType(r.Pick(0, 8, 200))
				v.Reports = append(v.Reports, b)
			}
		}
		return v
	case "SDES":
		v := &rtcp.SourceDescription{}
		for i := 0; i < 31; i++ {
			c := rtcp.SourceDescriptionChunk{Source: uint32(r.Bits(32, 32))}
			for j := r.Pick(9, 10, 12); j > 0; j-- {
				c.Items = append(c.Items, rtcp.SourceDescriptionItem{Type: rtcp.SDESType(1 + r.Intn(8)), Text: string(r.Bytes(r.Pick(253, 254, 255)))})
			}
			v.Chunks = append(v.Chunks, c)
		}
		return v
	case "SR":
		return &rtcp.SenderReport{SSRC: uint32(r.Bits(32, 32)), NTPTime: r.Bits(64, 64), Reports: genRReps(r, false), ProfileExtensions: r.Bytes(4 * r.Pick(16384, 16380, 40000))}
	case "RR":
		return &rtcp.ReceiverReport{SSRC: uint32(r.Bits(32, 32)), Reports: genRReps(r, false), ProfileExtensions: r.Bytes(4 * r.Pick(16384, 16380, 40000))}
	case "FIR":
		v := &rtcp.FullIntraRequest{SenderSSRC: uint32(r.Bits(32, 32)), MediaSSRC: uint32(r.Bits(32, 32))}
		for n := r.Pick(8190, 8191, 12000); n > 0; n-- {
			v.FIR = append(v.FIR, rtcp.FIREntry{SSRC: uint32(r.Bits(32, 32)), SequenceNumber: uint8(r.Bits(8, 8))})
		}
		return v
	case "TWCC":
		// the type keeps its sizes in 16 bits: the largest values it can hold are just under 65536 octets
		t := &rtcp.TransportLayerCC{SenderSSRC: uint32(r.Bits(32, 32)), MediaSSRC: uint32(r.Bits(32, 32)),
			BaseSequenceNumber: uint16(r.Bits(16, 16)), ReferenceTime: uint32(r.Bits(24, 24)), FbPktCount: uint8(r.Bits(8, 8))}
		count := r.Pick(2037, 4076, 5000, 20000, 32000, 60000)
		if quickTier && count > 20000 { // the model's TWCC functions are quadratic in the status count (2 min at 60000)
			count = r.Pick(8191, 8192, 12000)
		}
		dtype := uint16(1)
		if count <= 20000 && r.Bool() {
			dtype = 2
		}
		left := count
		for left > 0 {
			n := minInt(left, r.Pick(8191, 8191, 1, 2, 4096))
			t.PacketChunks = append(t.PacketChunks, &rtcp.RunLengthChunk{Type: 0, PacketStatusSymbol: dtype, RunLength: uint16(n)})
			left -= n
		}
		for i := 0; i < count; i++ {
			t.RecvDeltas = append(t.RecvDeltas, genDelta(r, dtype, false))
		}
		t.PacketStatusCount = uint16(count)
		size := t.MarshalSize()
		pl := int(rtcp.VerifTWCCPacketLen(t))
		t.Header = rtcp.Header{Padding: size != pl, Count: rtcp.FormatTCC, Type: rtcp.TypeTransportSpecificFeedback, Length: uint16(size/4 - 1)}
		return t
	case "RAW":
		h := rtcp.Header{Count: uint8(r.Bits(5, 5)), Type: rtcp.PacketType(r.Pick(192, 199, 208, 255))}
		body := r.Bytes(4 * r.Pick(16383, 16384, 30000, 65535))
		h.Length = uint16(len(body) / 4)
		hb, _ := h.Marshal()
		raw := rtcp.RawPacket(append(hb, body...))
		return &raw
	}
	panic("genBig " + kind)
}

var wrapKinds = []string{"BYE", "SR", "RR", "SDES"}

// element counts whose low 8 (or 5) bits look small: 256..288, 32..34
func genCountWrap(r *Rng, kind string) rtcp.Packet {
	n := r.Pick(32, 33, 63, 64, 255, 256, 257, 258, 271, 287, 288, 512, 513)
	switch kind {
	case "BYE":
		v := &rtcp.Goodbye{}
		for i := 0; i < n; i++ {
			v.Sources = append(v.Sources, uint32(r.Bits(32, 32)))
		}
		return v
	case "SR":
		v := &rtcp.SenderReport{SSRC: uint32(r.Bits(32, 32))}
		for i := 0; i < n; i++ {
			v.Reports = append(v.Reports, genRRep(r, false))
		}
		return v
	case "RR":
		v := &rtcp.ReceiverReport{SSRC: uint32(r.Bits(32, 32))}
		for i := 0; i < n; i++ {
			v.Reports = append(v.Reports, genRRep(r, false))
		}
		return v
	case "SDES":
		v := &rtcp.SourceDescription{}
		for i := 0; i < n; i++ {
			v.Chunks = append(v.Chunks, rtcp.SourceDescriptionChunk{Source: uint32(r.Bits(32, 32))})
		}
		return v
	}
	panic("genCountWrap " + kind)
}

// genTwccWrapValid: a VALID feedback packet whose packet status count is a few short of 65536 and whose final
// status-vector chunk announces more symbols than remain. A decoder that advances its 16-bit status counter by
// the whole chunk wraps around and goes on reading; the receive deltas here are octet pairs 1f ff, which such a
// decoder takes for run-length chunks, and 16 octets of padding follow, so the packet is accepted but decoded wrongly.
func genTwccWrapValid(r *Rng) []byte {
	short := 1 + r.Intn(8)                  // count = 65536 - short
	last := 1 + r.Intn(minInt(6, 14-short)) // statuses left for the final vector chunk
	count := 65536 - short
	nd := 16 // received packets (small deltas), announced by the first chunk
	body := make([]byte, 16)
	binary.BigEndian.PutUint32(body[0:], uint32(r.U64()))
	binary.BigEndian.PutUint32(body[4:], uint32(r.U64()))
	binary.BigEndian.PutUint16(body[8:], uint16(r.U64()))
	binary.BigEndian.PutUint16(body[10:], uint16(count))
	binary.BigEndian.PutUint32(body[12:], uint32(r.U64()))
	body = binary.BigEndian.AppendUint16(body, 1<<13|uint16(nd))
	left := count - last - nd
	for left > 0 {
		n := minInt(left, 8191)
		body = binary.BigEndian.AppendUint16(body, uint16(n))
		left -= n
	}
	body = binary.BigEndian.AppendUint16(body, 0x8000) // 1-bit vector, all "not received"
	for i := 0; i < nd/2; i++ {
		body = append(body, 0x1f, 0xff)
	}
	pad := 16 + (4-(len(body)+4)%4)%4
	for i := 0; i < pad-1; i++ {
		body = append(body, 0)
	}
	body = append(body, byte(pad))
	hdr := []byte{0xa0 | 15, 205, 0, 0}
	binary.BigEndian.PutUint16(hdr[2:], uint16((len(body)+4)/4-1))
	return append(hdr, body...)
}

// genTwccWrapValue: the value whose encoding genTwccWrapValid writes by hand (status count just below 65536, final
// status-vector chunk running past it), with a header consistent with the content
func genTwccWrapValue(r *Rng) *rtcp.TransportLayerCC {
	short := 1 + r.Intn(8)
	last := 1 + r.Intn(minInt(6, 14-short))
	count := 65536 - short
	nd := 16
	t := &rtcp.TransportLayerCC{SenderSSRC: uint32(r.U64()), MediaSSRC: uint32(r.U64()), BaseSequenceNumber: uint16(r.U64()),
		PacketStatusCount: uint16(count), ReferenceTime: uint32(r.Bits(24, 24)), FbPktCount: uint8(r.U64())}
	t.PacketChunks = append(t.PacketChunks, &rtcp.RunLengthChunk{PacketStatusSymbol: 1, RunLength: uint16(nd)})
	for left := count - last - nd; left > 0; {
		n := minInt(left, 8191)
		t.PacketChunks = append(t.PacketChunks, &rtcp.RunLengthChunk{PacketStatusSymbol: 0, RunLength: uint16(n)})
		left -= n
	}
	t.PacketChunks = append(t.PacketChunks, &rtcp.StatusVectorChunk{Type: 1, SymbolSize: 0, SymbolList: make([]uint16, 14)})
	for i := 0; i < nd; i++ {
		t.RecvDeltas = append(t.RecvDeltas, &rtcp.RecvDelta{Type: 1, Delta: 250 * int64(r.Pick(1, 31, 255))})
	}
	size := t.MarshalSize()
	pl := int(rtcp.VerifTWCCPacketLen(t))
	t.Header = rtcp.Header{Padding: size != pl, Count: rtcp.FormatTCC, Type: rtcp.TypeTransportSpecificFeedback, Length: uint16(size/4 - 1)}
	return t
}

// dirtyXRHeaders: the embedded XRHeader of a block is an OUTPUT of Marshal (block type, type-specific octet, block
// length are filled in): whatever an earlier Marshal or Unmarshal left there must not show in the encoding
func dirtyXRHeaders(r *Rng, p rtcp.Packet) rtcp.Packet {
	x, ok := p.(*rtcp.ExtendedReport)
	if !ok {
		return p
	}
	for i, b := range x.Reports {
		if u, unk := b.(*rtcp.UnknownReportBlock); unk || b == nil {
			// an opaque block's type and type-specific octet are its content; its length field is an output like any other
			if unk && u != nil {
				c := *u
				c.XRHeader.BlockLength = uint16(r.Bits(16, 16))
				x.Reports[i] = &c
			}
			continue
		}
		hdr, omits, vals, elems := xrParts(b)
		hdr.TypeSpecific = rtcp.TypeSpecificField(r.Bits(8, 8))
		hdr.BlockLength = uint16(r.Bits(16, 16))
		hdr.BlockType = rtcp.BlockTypeType(r.Bits(8, 8))
		if r.Bool() { // as an earlier Marshal or Unmarshal of other content would have left it: right type, stale length
			hdr.BlockType = rtcp.BlockTypeType(xrKindOf(b))
			hdr.BlockLength = uint16(1 + r.Intn(40))
		}
		x.Reports[i] = xrBuild(xrKindOf(b), hdr, omits, vals, elems)
	}
	return x
}

// genCcfbShort: a CCFB frame whose last report block announces one or two metric blocks more than the frame holds,
// (to be followed by another frame: the decoder must reject it, not read the next frame's octets)
func genCcfbShort(r *Rng) []byte {
	b := []byte{0x8b, 205, 0, 0}
	b = binary.BigEndian.AppendUint32(b, uint32(r.U64()))
	for nb := r.Intn(2); nb > 0; nb-- { // complete blocks first
		b = binary.BigEndian.AppendUint32(b, uint32(r.U64()))
		b = binary.BigEndian.AppendUint16(b, uint16(r.Intn(1000)))
		b = binary.BigEndian.AppendUint16(b, 1) // two metric blocks
		b = append(b, r.Bytes(4)...)
	}
	n := 2 * (1 + r.Intn(3)) // metric blocks present (even, so no padding)
	b = binary.BigEndian.AppendUint32(b, uint32(r.U64()))
	b = binary.BigEndian.AppendUint16(b, uint16(r.Intn(1000)))
	b = binary.BigEndian.AppendUint16(b, uint16(n-1+r.Pick(1, 2))) // field = count-1, plus one or two too many
	b = append(b, r.Bytes(2*n)...)
	if r.Bool() {
		b = binary.BigEndian.AppendUint32(b, uint32(r.U64())) // report timestamp
	}
	for len(b)%4 != 0 {
		b = append(b, 0)
	}
	binary.BigEndian.PutUint16(b[2:], uint16(len(b)/4-1))
	return b
}
