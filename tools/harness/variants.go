package main

// C04: RFC-valid encodings the library's own encoder never produces, written by small independent
// encoders (not by calling Marshal), plus count-inflated SR/RR/SDES/BYE.

import (
	"encoding/binary"
	"fmt"
	"math"
	"strings"

	"github.com/pion/rtcp"
)

func hdrBytes(pad bool, count, pt, words int) []byte {
	b := []byte{0x80 | byte(count&31), byte(pt), 0, 0}
	if pad {
		b[0] |= 0x20
	}
	binary.BigEndian.PutUint16(b[2:], uint16(words))
	return b
}

func finish(b []byte) []byte {
	binary.BigEndian.PutUint16(b[2:], uint16(len(b)/4-1))
	return b
}

// twccChunking encodes a status sequence with a random valid chunking; returns chunk words.
func twccChunking(r *Rng, syms []int) []uint16 {
	var out []uint16
	i := 0
	for i < len(syms) {
		// run length possible?
		run := 1
		for i+run < len(syms) && syms[i+run] == syms[i] && run < 8191 {
			run++
		}
		choice := r.Intn(3)
		only01 := true
		for j := i; j < i+14 && j < len(syms); j++ {
			if syms[j] > 1 {
				only01 = false
			}
		}
		switch {
		case choice == 0 || (choice == 1 && !only01 && false):
			n := 1 + r.Intn(run)
			out = append(out, uint16(syms[i])<<13|uint16(n))
			i += n
		case choice == 1 && only01:
			var w uint16 = 0x8000
			for j := 0; j < 14; j++ {
				if i+j < len(syms) && syms[i+j] == 1 {
					w |= 1 << uint(13-j)
				}
			}
			out = append(out, w)
			i += 14
		default:
			var w uint16 = 0xC000
			for j := 0; j < 7; j++ {
				if i+j < len(syms) {
					w |= uint16(syms[i+j]) << uint(12-2*j)
				}
			}
			out = append(out, w)
			i += 7
		}
	}
	return out
}

func twccVariant(r *Rng) []byte {
	n := r.Len(20, 0, 1, 7, 14, 15)
	syms := make([]int, n)
	mode := r.Intn(3)
	for i := range syms {
		switch mode {
		case 0:
			syms[i] = r.Intn(2)
		case 1:
			syms[i] = r.Intn(3)
		default:
			if i > 0 && r.Chance(3, 4) {
				syms[i] = syms[i-1]
			} else {
				syms[i] = r.Intn(3)
			}
		}
	}
	b := hdrBytes(false, 15, 205, 0)
	b = binary.BigEndian.AppendUint32(b, uint32(r.U64()))
	b = binary.BigEndian.AppendUint32(b, uint32(r.U64()))
	b = binary.BigEndian.AppendUint16(b, uint16(r.U64()))
	b = binary.BigEndian.AppendUint16(b, uint16(n))
	b = binary.BigEndian.AppendUint32(b, uint32(r.U64()))
	for _, w := range twccChunking(r, syms) {
		b = binary.BigEndian.AppendUint16(b, w)
	}
	for _, s := range syms {
		switch s {
		case 1:
			b = append(b, byte(r.U64()))
		case 2:
			b = binary.BigEndian.AppendUint16(b, uint16(r.U64()))
		}
	}
	padn := (4 - len(b)%4) % 4
	if padn > 0 {
		for i := 0; i < padn-1; i++ {
			b = append(b, 0)
		}
		b = append(b, byte(padn))
		b[0] |= 0x20
	}
	return finish(b)
}

func genVariantOp(r *Rng) string {
	switch r.Intn(14) {
	case 0: // REMB, any mantissa/exponent
		return "dec.REMB " + hx(rembWire(r, r.Intn(64), int(r.Bits(18, 18)), r.Len(3, 0)))
	case 1: // APP with RFC padding
		data := r.Bytes(4 * r.Len(4))
		pad := 4 * r.Intn(3)
		b := hdrBytes(pad > 0, int(r.Bits(5, 5)), 204, 0)
		b = binary.BigEndian.AppendUint32(b, uint32(r.U64()))
		b = append(b, r.Bytes(4)...)
		b = append(b, data...)
		for i := 0; i < pad; i++ {
			b = append(b, byte(pad))
		}
		return "dec.APP " + hx(finish(b))
	case 2: // FIR with non-zero reserved octets
		b := hdrBytes(false, 4, 206, 0)
		b = binary.BigEndian.AppendUint32(b, uint32(r.U64()))
		b = binary.BigEndian.AppendUint32(b, uint32(r.U64()))
		for n := 1 + r.Len(3); n > 0; n-- {
			b = binary.BigEndian.AppendUint32(b, uint32(r.U64()))
			b = append(b, byte(r.U64()), byte(r.U64()), byte(r.U64()), byte(r.U64()))
		}
		return "dec.FIR " + hx(finish(b))
	case 3: // CCFB with not-received metric blocks carrying stray bits
		b := genCcfbBytes(r)
		return "dec.CCFB " + hx(b)
	case 4: // XR with unknown block types and reserved bits
		return "dec.XR " + hx(genXRBytes(r))
	case 5: // BYE with / without reason, zero-length reason
		ns := r.Len(3, 0, 31)
		b := hdrBytes(false, ns, 203, 0)
		for i := 0; i < ns; i++ {
			b = binary.BigEndian.AppendUint32(b, uint32(r.U64()))
		}
		switch r.Intn(3) {
		case 0:
		case 1:
			b = append(b, 0, 0, 0, 0)
		case 2:
			t := r.Len(6, 255)
			b = append(b, byte(t))
			b = append(b, r.Bytes(t)...)
			for len(b)%4 != 0 {
				b = append(b, 0)
			}
		}
		return "dec.BYE " + hx(finish(b))
	case 6, 7: // TWCC alternative chunkings
		return "dec.TWCC " + hx(twccVariant(r))
	case 8: // count-inflated SR/RR/SDES/BYE
		k := []string{"SR", "RR", "SDES", "BYE"}[r.Intn(4)]
		b := validFrame(r, k)
		c := int(b[0] & 31)
		if c < 31 {
			b[0] = b[0]&0xE0 | byte(c+1+r.Intn(31-c))
		}
		return "dec." + k + " " + hx(b)
	case 9: // SR/RR with reserved... (none); padded SDES chunk with extra null words
		b := validFrame(r, "SDES")
		return "dec.SDES " + hx(b)
	case 10: // SLI with RFC packet type 206/2
		b := validFrame(r, "SLI")
		if len(b) >= 2 {
			b[1] = 206
		}
		if r.Bool() {
			return "udec " + hx(b)
		}
		return "dec.SLI " + hx(b)
	default:
		k := allKinds[r.Intn(len(allKinds))]
		b := validFrame(r, k)
		if r.Bool() {
			return "udec " + hx(b)
		}
		return "dec." + k + " " + hx(b)
	}
}

var _ = rtcp.Header{}

// genDecvOp: an RFC-valid encoding built by hand together with the field values the specification assigns
// (`decv.K <hex> | <expected body tokens>`); judged by the C04 oracle, compared with the model as a plain dec.
func genDecvOp(r *Rng) string {
	switch r.Intn(7) {
	case 5: // TWCC with one run-length chunk over the whole 13-bit range, built by hand
		L := r.Pick(1, 2, 4095, 4096, 5000, 8190, 8191, 1+r.Intn(8191))
		sym := r.Pick(0, 0, 1, 3)
		t := &rtcp.TransportLayerCC{SenderSSRC: uint32(r.U64()), MediaSSRC: uint32(r.U64()), BaseSequenceNumber: uint16(r.U64()),
			PacketStatusCount: uint16(L), ReferenceTime: uint32(r.Bits(24, 24)), FbPktCount: uint8(r.U64())}
		t.PacketChunks = []rtcp.PacketStatusChunk{&rtcp.RunLengthChunk{Type: 0, PacketStatusSymbol: uint16(sym), RunLength: uint16(L)}}
		b := hdrBytes(false, 15, 205, 0)
		b = binary.BigEndian.AppendUint32(b, t.SenderSSRC)
		b = binary.BigEndian.AppendUint32(b, t.MediaSSRC)
		b = binary.BigEndian.AppendUint16(b, t.BaseSequenceNumber)
		b = binary.BigEndian.AppendUint16(b, t.PacketStatusCount)
		b = append(b, byte(t.ReferenceTime>>16), byte(t.ReferenceTime>>8), byte(t.ReferenceTime), t.FbPktCount)
		b = binary.BigEndian.AppendUint16(b, uint16(sym)<<13|uint16(L))
		if sym == 1 {
			for i := 0; i < L; i++ {
				d := byte(r.U64())
				b = append(b, d)
				t.RecvDeltas = append(t.RecvDeltas, &rtcp.RecvDelta{Type: 1, Delta: 250 * int64(d)})
			}
		}
		if pad := (4 - len(b)%4) % 4; pad > 0 {
			for i := 0; i < pad-1; i++ {
				b = append(b, 0)
			}
			b = append(b, byte(pad))
			b[0] |= 0x20
		}
		b = finish(b)
		t.Header = rtcp.Header{Padding: b[0]&0x20 != 0, Count: 15, Type: 205, Length: binary.BigEndian.Uint16(b[2:])}
		return "decv.TWCC " + hx(b) + " | " + bodyTokens(t)
	case 6: // XR with header-only blocks (block length 0): an opaque block and an empty DLRR block, RFC 3611 §3
		s := uint32(r.U64())
		ntp := r.U64()
		bt, ts := r.Pick(0, 8, 42, 200, 255), byte(r.U64())
		b := hdrBytes(false, 0, 207, 0)
		b = binary.BigEndian.AppendUint32(b, s)
		toks := fmt.Sprintf("%d", s)
		var blocks []string
		order := r.Intn(3)
		addRRT := func() {
			b = append(b, 4, 0, 0, 2)
			b = binary.BigEndian.AppendUint64(b, ntp)
			blocks = append(blocks, fmt.Sprintf("4 4 0 2 0 1 %d 0", ntp))
		}
		addOpaque := func() {
			b = append(b, byte(bt), ts, 0, 0)
			blocks = append(blocks, fmt.Sprintf("0 %d %d 0 0 0 0", bt, ts))
		}
		addDLRR := func() {
			b = append(b, 5, 0, 0, 0)
			blocks = append(blocks, "5 5 0 0 0 0 0")
		}
		switch order {
		case 0:
			addRRT()
			addOpaque()
			addDLRR()
		case 1:
			addOpaque()
			addRRT()
			addDLRR()
		default:
			addDLRR()
			addRRT()
			addOpaque()
		}
		toks += fmt.Sprintf(" %d %s", len(blocks), strings.Join(blocks, " "))
		return "decv.XR " + hx(finish(b)) + " | " + toks
	case 0: // REMB with any mantissa/exponent pair: bitrate is exactly mantissa * 2^exp
		exp, mant, nss := r.Intn(64), int(r.Bits(18, 18)), r.Len(3, 0)
		if mant == 0 {
			mant = 1 + r.Intn(0x3FFFF)
		}
		b := rembWire(r, exp, mant, nss)
		v := &rtcp.ReceiverEstimatedMaximumBitrate{SenderSSRC: binary.BigEndian.Uint32(b[4:]), Bitrate: float32(math.Ldexp(float64(mant), exp))}
		for i := 0; i < nss; i++ {
			v.SSRCs = append(v.SSRCs, binary.BigEndian.Uint32(b[20+4*i:]))
		}
		return "decv.REMB " + hx(b) + " | " + bodyTokens(v)
	case 1: // APP with RFC 3550 padding
		v := &rtcp.ApplicationDefined{SubType: uint8(r.Bits(5, 5)), SSRC: uint32(r.U64()), Name: string(r.Bytes(4)), Data: r.Bytes(4 * r.Len(4))}
		pad := 4 * r.Intn(3)
		b := hdrBytes(pad > 0, int(v.SubType), 204, 0)
		b = binary.BigEndian.AppendUint32(b, v.SSRC)
		b = append(b, v.Name...)
		b = append(b, v.Data...)
		for i := 0; i < pad; i++ {
			if i == pad-1 {
				b = append(b, byte(pad))
			} else {
				b = append(b, 0)
			}
		}
		if len(v.Data) == 0 {
			v.Data = []byte{}
		}
		return "decv.APP " + hx(finish(b)) + " | " + bodyTokens(v)
	case 2: // FIR whose reserved octets are not zero
		v := &rtcp.FullIntraRequest{SenderSSRC: uint32(r.U64()), MediaSSRC: uint32(r.U64())}
		b := hdrBytes(false, 4, 206, 0)
		b = binary.BigEndian.AppendUint32(b, v.SenderSSRC)
		b = binary.BigEndian.AppendUint32(b, v.MediaSSRC)
		for n := 1 + r.Len(3); n > 0; n-- {
			e := rtcp.FIREntry{SSRC: uint32(r.U64()), SequenceNumber: uint8(r.U64())}
			v.FIR = append(v.FIR, e)
			b = binary.BigEndian.AppendUint32(b, e.SSRC)
			b = append(b, e.SequenceNumber, byte(r.U64()), byte(r.U64()), byte(r.U64()))
		}
		return "decv.FIR " + hx(finish(b)) + " | " + bodyTokens(v)
	case 3: // BYE without reason / with a reason
		v := &rtcp.Goodbye{}
		ns := r.Len(3, 0, 31)
		b := hdrBytes(false, ns, 203, 0)
		for i := 0; i < ns; i++ {
			s := uint32(r.U64())
			v.Sources = append(v.Sources, s)
			b = binary.BigEndian.AppendUint32(b, s)
		}
		if r.Bool() {
			t := 1 + r.Len(6, 254)
			txt := r.Bytes(t)
			v.Reason = string(txt)
			b = append(b, byte(t))
			b = append(b, txt...)
			for len(b)%4 != 0 {
				b = append(b, 0)
			}
		}
		return "decv.BYE " + hx(finish(b)) + " | " + bodyTokens(v)
	default: // NACK / PLI / RRR built field by field
		s, m := uint32(r.U64()), uint32(r.U64())
		switch r.Intn(3) {
		case 0:
			b := hdrBytes(false, 1, 206, 0)
			b = binary.BigEndian.AppendUint32(b, s)
			b = binary.BigEndian.AppendUint32(b, m)
			return "decv.PLI " + hx(finish(b)) + " | " + bodyTokens(&rtcp.PictureLossIndication{SenderSSRC: s, MediaSSRC: m})
		case 1:
			b := hdrBytes(false, 5, 205, 0)
			b = binary.BigEndian.AppendUint32(b, s)
			b = binary.BigEndian.AppendUint32(b, m)
			return "decv.RRR " + hx(finish(b)) + " | " + bodyTokens(&rtcp.RapidResynchronizationRequest{SenderSSRC: s, MediaSSRC: m})
		}
		v := &rtcp.TransportLayerNack{SenderSSRC: s, MediaSSRC: m}
		b := hdrBytes(false, 1, 205, 0)
		b = binary.BigEndian.AppendUint32(b, s)
		b = binary.BigEndian.AppendUint32(b, m)
		for n := 1 + r.Len(3); n > 0; n-- {
			p := rtcp.NackPair{PacketID: uint16(r.U64()), LostPackets: rtcp.PacketBitmap(r.U64())}
			v.Nacks = append(v.Nacks, p)
			b = binary.BigEndian.AppendUint16(b, p.PacketID)
			b = binary.BigEndian.AppendUint16(b, uint16(p.LostPackets))
		}
		return "decv.NACK " + hx(finish(b)) + " | " + bodyTokens(v)
	}
}

// genBigDecvOp: feedback packets of 65540 octets and more (length field >= 0x4000), built field by field with the
// values they must decode to: 16-bit arithmetic on the octet length does not hold them.
func genBigDecvOp(r *Rng, which int) string {
	s, m := uint32(r.U64()), uint32(r.U64())
	switch which {
	case 0:
		n := r.Pick(16382, 16383, 16385)
		v := &rtcp.TransportLayerNack{SenderSSRC: s, MediaSSRC: m}
		b := hdrBytes(false, 1, 205, 0)
		b = binary.BigEndian.AppendUint32(b, s)
		b = binary.BigEndian.AppendUint32(b, m)
		for i := 0; i < n; i++ {
			p := rtcp.NackPair{PacketID: uint16(r.U64()), LostPackets: rtcp.PacketBitmap(r.U64())}
			v.Nacks = append(v.Nacks, p)
			b = binary.BigEndian.AppendUint16(b, p.PacketID)
			b = binary.BigEndian.AppendUint16(b, uint16(p.LostPackets))
		}
		return "decv.NACK " + hx(finish(b)) + " | " + bodyTokens(v)
	case 1:
		n := r.Pick(8191, 8192, 8200)
		v := &rtcp.FullIntraRequest{SenderSSRC: s, MediaSSRC: m}
		b := hdrBytes(false, 4, 206, 0)
		b = binary.BigEndian.AppendUint32(b, s)
		b = binary.BigEndian.AppendUint32(b, m)
		for i := 0; i < n; i++ {
			e := rtcp.FIREntry{SSRC: uint32(r.U64()), SequenceNumber: uint8(r.U64())}
			v.FIR = append(v.FIR, e)
			b = binary.BigEndian.AppendUint32(b, e.SSRC)
			b = append(b, e.SequenceNumber, 0, 0, 0)
		}
		return "decv.FIR " + hx(finish(b)) + " | " + bodyTokens(v)
	default:
		n := r.Pick(16382, 16383, 16385)
		v := &rtcp.SliceLossIndication{SenderSSRC: s, MediaSSRC: m}
		b := hdrBytes(false, 2, 205, 0) // the packet type this library's SLI decoder expects (known finding sli-packet-type)
		b = binary.BigEndian.AppendUint32(b, s)
		b = binary.BigEndian.AppendUint32(b, m)
		for i := 0; i < n; i++ {
			e := rtcp.SLIEntry{First: uint16(r.Bits(13, 13)), Number: uint16(r.Bits(13, 13)), Picture: uint8(r.Bits(6, 6))}
			v.SLI = append(v.SLI, e)
			b = binary.BigEndian.AppendUint32(b, uint32(e.First)<<19|uint32(e.Number)<<6|uint32(e.Picture))
		}
		return "decv.SLI " + hx(finish(b)) + " | " + bodyTokens(v)
	}
}
