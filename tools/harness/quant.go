package main

// The documented quantisations of C02, computed independently of the package's codec:
// REMB bitrate rounded down to 18 significant bits, TWCC deltas in 250 µs units (Go's truncating
// division), RR profile extensions zero-padded to 32 bits.

import (
	"math"

	"github.com/pion/rtcp"
)

func quantBitrate(f float32) float32 {
	x := float64(f)
	const max = float64(0x3FFFF) * (1 << 63)
	if x >= max {
		return float32(max)
	}
	e := 0
	for x >= 1<<18 {
		x /= 2
		e++
	}
	return float32(math.Ldexp(math.Floor(x), e))
}

func quantPacket(p rtcp.Packet) rtcp.Packet {
	switch v := p.(type) {
	case *rtcp.ReceiverEstimatedMaximumBitrate:
		c := *v
		c.Bitrate = quantBitrate(v.Bitrate)
		return &c
	case *rtcp.TransportLayerCC:
		c := *v
		c.RecvDeltas = nil
		for _, d := range v.RecvDeltas {
			c.RecvDeltas = append(c.RecvDeltas, &rtcp.RecvDelta{Type: d.Type, Delta: d.Delta / 250 * 250})
		}
		return &c
	case *rtcp.ReceiverReport:
		c := *v
		c.ProfileExtensions = append([]byte{}, v.ProfileExtensions...)
		for len(c.ProfileExtensions)%4 != 0 {
			c.ProfileExtensions = append(c.ProfileExtensions, 0)
		}
		return &c
	}
	return p
}

func quantPacketsTokens(tokens string) (out string) {
	defer func() {
		if recover() != nil {
			out = ""
		}
	}()
	ps := getPackets(NewR(tokens))
	for i := range ps {
		ps[i] = quantPacket(ps[i])
	}
	return packetsTokens(ps)
}

// quantReenc canonicalises a decoded packet list for the idempotence comparison of C09:
// XR block headers are compared in their post-marshal state, i.e. BlockLength/TypeSpecific as a
// marshal would set them; we obtain that by marshalling a copy.
func quantReenc(tokens string) (out string) {
	defer func() {
		if recover() != nil {
			out = "?" + tokens
		}
	}()
	ps := getPackets(NewR(tokens))
	for i, p := range ps {
		if x, ok := p.(*rtcp.ExtendedReport); ok {
			ps[i] = xrCanonHeaders(x) // computed from RFC 3611, not by calling the Marshal under test
		}
	}
	return packetsTokens(ps)
}
