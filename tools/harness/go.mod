module verif/harness

go 1.23

require github.com/pion/rtcp v0.0.0

replace github.com/pion/rtcp => /repo
