package main

// Canonical token form shared with the Lean driver (DESIGN Appendix B).
// Decimal tokens; byte strings as one lowercase hex token ("-" for empty); lists length-prefixed;
// booleans 0/1; Go nil and empty print identically.

import (
	"encoding/hex"
	"fmt"
	"math"
	"reflect"
	"strconv"
	"strings"

	"github.com/pion/rtcp"
)

type W struct{ sb strings.Builder }

func (w *W) S(s string) *W {
	if w.sb.Len() > 0 {
		w.sb.WriteByte(' ')
	}
	w.sb.WriteString(s)
	return w
}
func (w *W) U(n uint64) *W { return w.S(strconv.FormatUint(n, 10)) }
func (w *W) I(n int64) *W  { return w.S(strconv.FormatInt(n, 10)) }
func (w *W) B(b bool) *W {
	if b {
		return w.S("1")
	}
	return w.S("0")
}
func (w *W) H(b []byte) *W {
	if len(b) == 0 {
		return w.S("-")
	}
	return w.S(hex.EncodeToString(b))
}
func (w *W) String() string { return w.sb.String() }

type R struct {
	t []string
	i int
}

type parseErr struct{ msg string }

func NewR(s string) *R { return &R{t: strings.Fields(s)} }
func (r *R) S() string {
	if r.i >= len(r.t) {
		panic(parseErr{"unexpected end of tokens"})
	}
	s := r.t[r.i]
	r.i++
	return s
}
func (r *R) U() uint64 {
	n, err := strconv.ParseUint(r.S(), 10, 64)
	if err != nil {
		panic(parseErr{err.Error()})
	}
	return n
}
func (r *R) I() int64 {
	n, err := strconv.ParseInt(r.S(), 10, 64)
	if err != nil {
		panic(parseErr{err.Error()})
	}
	return n
}
func (r *R) N() int  { return int(r.U()) }
func (r *R) B() bool { return r.U() != 0 }
func (r *R) H() []byte {
	s := r.S()
	if s == "-" {
		return []byte{}
	}
	b, err := hex.DecodeString(s)
	if err != nil {
		panic(parseErr{err.Error()})
	}
	return b
}
func (r *R) Done() bool { return r.i >= len(r.t) }

// ---------- sub-structures ----------

func putHeader(w *W, h rtcp.Header) {
	w.B(h.Padding).U(uint64(h.Count)).U(uint64(h.Type)).U(uint64(h.Length))
}
func getHeader(r *R) rtcp.Header {
	return rtcp.Header{Padding: r.B(), Count: uint8(r.U()), Type: rtcp.PacketType(r.U()), Length: uint16(r.U())}
}

func putRRep(w *W, x rtcp.ReceptionReport) {
	w.U(uint64(x.SSRC)).U(uint64(x.FractionLost)).U(uint64(x.TotalLost)).U(uint64(x.LastSequenceNumber)).
		U(uint64(x.Jitter)).U(uint64(x.LastSenderReport)).U(uint64(x.Delay))
}
func getRRep(r *R) rtcp.ReceptionReport {
	return rtcp.ReceptionReport{SSRC: uint32(r.U()), FractionLost: uint8(r.U()), TotalLost: uint32(r.U()),
		LastSequenceNumber: uint32(r.U()), Jitter: uint32(r.U()), LastSenderReport: uint32(r.U()), Delay: uint32(r.U())}
}
func putRReps(w *W, xs []rtcp.ReceptionReport) {
	w.U(uint64(len(xs)))
	for _, x := range xs {
		putRRep(w, x)
	}
}
func getRReps(r *R) []rtcp.ReceptionReport {
	n := r.N()
	var xs []rtcp.ReceptionReport
	for i := 0; i < n; i++ {
		xs = append(xs, getRRep(r))
	}
	return xs
}

func putItem(w *W, x rtcp.SourceDescriptionItem) { w.U(uint64(x.Type)).H([]byte(x.Text)) }
func getItem(r *R) rtcp.SourceDescriptionItem {
	return rtcp.SourceDescriptionItem{Type: rtcp.SDESType(r.U()), Text: string(r.H())}
}
func putChunk(w *W, c rtcp.SourceDescriptionChunk) {
	w.U(uint64(c.Source)).U(uint64(len(c.Items)))
	for _, it := range c.Items {
		putItem(w, it)
	}
}
func getChunk(r *R) rtcp.SourceDescriptionChunk {
	c := rtcp.SourceDescriptionChunk{Source: uint32(r.U())}
	n := r.N()
	for i := 0; i < n; i++ {
		c.Items = append(c.Items, getItem(r))
	}
	return c
}

func putTwccChunk(w *W, c rtcp.PacketStatusChunk) {
	switch v := c.(type) {
	case *rtcp.RunLengthChunk:
		w.U(0).U(uint64(v.Type)).U(uint64(v.PacketStatusSymbol)).U(uint64(v.RunLength))
	case *rtcp.StatusVectorChunk:
		w.U(1).U(uint64(v.Type)).U(uint64(v.SymbolSize)).U(uint64(len(v.SymbolList)))
		for _, s := range v.SymbolList {
			w.U(uint64(s))
		}
	default:
		panic(parseErr{fmt.Sprintf("unknown chunk %T", c)})
	}
}
func getTwccChunk(r *R) rtcp.PacketStatusChunk {
	switch r.U() {
	case 0:
		return &rtcp.RunLengthChunk{Type: uint16(r.U()), PacketStatusSymbol: uint16(r.U()), RunLength: uint16(r.U())}
	default:
		c := &rtcp.StatusVectorChunk{Type: uint16(r.U()), SymbolSize: uint16(r.U())}
		n := r.N()
		for i := 0; i < n; i++ {
			c.SymbolList = append(c.SymbolList, uint16(r.U()))
		}
		return c
	}
}

func putMetric(w *W, m rtcp.CCFeedbackMetricBlock) {
	w.B(m.Received).U(uint64(m.ECN)).U(uint64(m.ArrivalTimeOffset))
}
func getMetric(r *R) rtcp.CCFeedbackMetricBlock {
	return rtcp.CCFeedbackMetricBlock{Received: r.B(), ECN: rtcp.ECN(r.U()), ArrivalTimeOffset: uint16(r.U())}
}
func putCcfbBlock(w *W, b rtcp.CCFeedbackReportBlock) {
	w.U(uint64(b.MediaSSRC)).U(uint64(b.BeginSequence)).U(uint64(len(b.MetricBlocks)))
	for _, m := range b.MetricBlocks {
		putMetric(w, m)
	}
}
func getCcfbBlock(r *R) rtcp.CCFeedbackReportBlock {
	b := rtcp.CCFeedbackReportBlock{MediaSSRC: uint32(r.U()), BeginSequence: uint16(r.U())}
	n := r.N()
	for i := 0; i < n; i++ {
		b.MetricBlocks = append(b.MetricBlocks, getMetric(r))
	}
	return b
}

// ---------- XR blocks, generically by reflection (mirrors Rtcp.XRBlock) ----------

var xrKinds = map[int]func() rtcp.ReportBlock{
	1: func() rtcp.ReportBlock { return new(rtcp.LossRLEReportBlock) },
	2: func() rtcp.ReportBlock { return new(rtcp.DuplicateRLEReportBlock) },
	3: func() rtcp.ReportBlock { return new(rtcp.PacketReceiptTimesReportBlock) },
	4: func() rtcp.ReportBlock { return new(rtcp.ReceiverReferenceTimeReportBlock) },
	5: func() rtcp.ReportBlock { return new(rtcp.DLRRReportBlock) },
	6: func() rtcp.ReportBlock { return new(rtcp.StatisticsSummaryReportBlock) },
	7: func() rtcp.ReportBlock { return new(rtcp.VoIPMetricsReportBlock) },
	0: func() rtcp.ReportBlock { return new(rtcp.UnknownReportBlock) },
}

func xrKindOf(b rtcp.ReportBlock) int {
	switch b.(type) {
	case *rtcp.LossRLEReportBlock:
		return 1
	case *rtcp.DuplicateRLEReportBlock:
		return 2
	case *rtcp.PacketReceiptTimesReportBlock:
		return 3
	case *rtcp.ReceiverReferenceTimeReportBlock:
		return 4
	case *rtcp.DLRRReportBlock:
		return 5
	case *rtcp.StatisticsSummaryReportBlock:
		return 6
	case *rtcp.VoIPMetricsReportBlock:
		return 7
	case *rtcp.UnknownReportBlock:
		return 0
	}
	panic(parseErr{fmt.Sprintf("unknown XR block %T", b)})
}

func scalarU(v reflect.Value) (uint64, bool) {
	switch v.Kind() {
	case reflect.Uint8, reflect.Uint16, reflect.Uint32, reflect.Uint64:
		return v.Uint(), true
	case reflect.Bool:
		if v.Bool() {
			return 1, true
		}
		return 0, true
	}
	return 0, false
}

// xrParts walks the block struct in declaration order.
func xrParts(b rtcp.ReportBlock) (hdr rtcp.XRHeader, omits, vals []uint64, elems [][]uint64) {
	v := reflect.ValueOf(b).Elem()
	t := v.Type()
	for i := 0; i < v.NumField(); i++ {
		f, ft := v.Field(i), t.Field(i)
		if ft.Name == "XRHeader" {
			hdr = f.Interface().(rtcp.XRHeader)
			continue
		}
		if !ft.IsExported() {
			continue
		}
		if ft.Tag.Get("encoding") == "omit" {
			u, _ := scalarU(f)
			omits = append(omits, u)
			continue
		}
		if f.Kind() == reflect.Slice {
			for j := 0; j < f.Len(); j++ {
				e := f.Index(j)
				if e.Kind() == reflect.Struct {
					var ev []uint64
					for k := 0; k < e.NumField(); k++ {
						u, _ := scalarU(e.Field(k))
						ev = append(ev, u)
					}
					elems = append(elems, ev)
				} else {
					u, _ := scalarU(e)
					elems = append(elems, []uint64{u})
				}
			}
			continue
		}
		u, ok := scalarU(f)
		if !ok {
			panic(parseErr{"xr field kind " + ft.Name})
		}
		vals = append(vals, u)
	}
	return
}

func setScalar(v reflect.Value, u uint64) {
	if v.Kind() == reflect.Bool {
		v.SetBool(u != 0)
	} else {
		v.SetUint(u)
	}
}

func xrBuild(kind int, hdr rtcp.XRHeader, omits, vals []uint64, elems [][]uint64) rtcp.ReportBlock {
	mk, ok := xrKinds[kind]
	if !ok {
		panic(parseErr{"xr kind"})
	}
	b := mk()
	v := reflect.ValueOf(b).Elem()
	t := v.Type()
	oi, vi := 0, 0
	for i := 0; i < v.NumField(); i++ {
		f, ft := v.Field(i), t.Field(i)
		if ft.Name == "XRHeader" {
			f.Set(reflect.ValueOf(hdr))
			continue
		}
		if !ft.IsExported() {
			continue
		}
		if ft.Tag.Get("encoding") == "omit" {
			if oi < len(omits) {
				setScalar(f, omits[oi])
			}
			oi++
			continue
		}
		if f.Kind() == reflect.Slice {
			s := reflect.MakeSlice(f.Type(), len(elems), len(elems))
			for j, ev := range elems {
				e := s.Index(j)
				if e.Kind() == reflect.Struct {
					for k := 0; k < e.NumField() && k < len(ev); k++ {
						setScalar(e.Field(k), ev[k])
					}
				} else if len(ev) > 0 {
					setScalar(e, ev[0])
				}
			}
			f.Set(s)
			continue
		}
		if vi < len(vals) {
			setScalar(f, vals[vi])
		}
		vi++
	}
	return b
}

func putXRBlock(w *W, b rtcp.ReportBlock) {
	hdr, omits, vals, elems := xrParts(b)
	w.U(uint64(xrKindOf(b))).U(uint64(hdr.BlockType)).U(uint64(hdr.TypeSpecific)).U(uint64(hdr.BlockLength))
	w.U(uint64(len(omits)))
	for _, o := range omits {
		w.U(o)
	}
	w.U(uint64(len(vals)))
	for _, o := range vals {
		w.U(o)
	}
	w.U(uint64(len(elems)))
	for _, e := range elems {
		w.U(uint64(len(e)))
		for _, o := range e {
			w.U(o)
		}
	}
}

func getXRBlock(r *R) rtcp.ReportBlock {
	kind := r.N()
	hdr := rtcp.XRHeader{BlockType: rtcp.BlockTypeType(r.U()), TypeSpecific: rtcp.TypeSpecificField(r.U()), BlockLength: uint16(r.U())}
	var omits, vals []uint64
	var elems [][]uint64
	for n := r.N(); n > 0; n-- {
		omits = append(omits, r.U())
	}
	for n := r.N(); n > 0; n-- {
		vals = append(vals, r.U())
	}
	for n := r.N(); n > 0; n-- {
		var e []uint64
		for k := r.N(); k > 0; k-- {
			e = append(e, r.U())
		}
		elems = append(elems, e)
	}
	return xrBuild(kind, hdr, omits, vals, elems)
}

// ---------- packets ----------

func kindName(p rtcp.Packet) string {
	switch p.(type) {
	case *rtcp.SenderReport:
		return "SR"
	case *rtcp.ReceiverReport:
		return "RR"
	case *rtcp.SourceDescription:
		return "SDES"
	case *rtcp.Goodbye:
		return "BYE"
	case *rtcp.ApplicationDefined:
		return "APP"
	case *rtcp.TransportLayerNack:
		return "NACK"
	case *rtcp.RapidResynchronizationRequest:
		return "RRR"
	case *rtcp.TransportLayerCC:
		return "TWCC"
	case *rtcp.CCFeedbackReport:
		return "CCFB"
	case *rtcp.PictureLossIndication:
		return "PLI"
	case *rtcp.SliceLossIndication:
		return "SLI"
	case *rtcp.ReceiverEstimatedMaximumBitrate:
		return "REMB"
	case *rtcp.FullIntraRequest:
		return "FIR"
	case *rtcp.ExtendedReport:
		return "XR"
	case *rtcp.RawPacket:
		return "RAW"
	case *rtcp.CompoundPacket:
		return "COMPOUND"
	}
	return fmt.Sprintf("?%T", p)
}

var allKinds = []string{"SR", "RR", "SDES", "BYE", "APP", "NACK", "RRR", "TWCC", "CCFB", "PLI", "SLI", "REMB", "FIR", "XR", "RAW"}

func newPacket(kind string) rtcp.Packet {
	switch kind {
	case "SR":
		return new(rtcp.SenderReport)
	case "RR":
		return new(rtcp.ReceiverReport)
	case "SDES":
		return new(rtcp.SourceDescription)
	case "BYE":
		return new(rtcp.Goodbye)
	case "APP":
		return new(rtcp.ApplicationDefined)
	case "NACK":
		return new(rtcp.TransportLayerNack)
	case "RRR":
		return new(rtcp.RapidResynchronizationRequest)
	case "TWCC":
		return new(rtcp.TransportLayerCC)
	case "CCFB":
		return new(rtcp.CCFeedbackReport)
	case "PLI":
		return new(rtcp.PictureLossIndication)
	case "SLI":
		return new(rtcp.SliceLossIndication)
	case "REMB":
		return new(rtcp.ReceiverEstimatedMaximumBitrate)
	case "FIR":
		return new(rtcp.FullIntraRequest)
	case "XR":
		return new(rtcp.ExtendedReport)
	case "RAW":
		return new(rtcp.RawPacket)
	case "COMPOUND":
		return new(rtcp.CompoundPacket)
	}
	panic(parseErr{"kind " + kind})
}

// putBody writes the fields of p (without the kind tag).
func putBody(w *W, p rtcp.Packet) {
	switch v := p.(type) {
	case *rtcp.SenderReport:
		w.U(uint64(v.SSRC)).U(v.NTPTime).U(uint64(v.RTPTime)).U(uint64(v.PacketCount)).U(uint64(v.OctetCount))
		putRReps(w, v.Reports)
		w.H(v.ProfileExtensions)
	case *rtcp.ReceiverReport:
		w.U(uint64(v.SSRC))
		putRReps(w, v.Reports)
		w.H(v.ProfileExtensions)
	case *rtcp.SourceDescription:
		w.U(uint64(len(v.Chunks)))
		for _, c := range v.Chunks {
			putChunk(w, c)
		}
	case *rtcp.Goodbye:
		w.U(uint64(len(v.Sources)))
		for _, s := range v.Sources {
			w.U(uint64(s))
		}
		w.H([]byte(v.Reason))
	case *rtcp.ApplicationDefined:
		w.U(uint64(v.SubType)).U(uint64(v.SSRC)).H([]byte(v.Name)).H(v.Data)
	case *rtcp.TransportLayerNack:
		w.U(uint64(v.SenderSSRC)).U(uint64(v.MediaSSRC)).U(uint64(len(v.Nacks)))
		for _, n := range v.Nacks {
			w.U(uint64(n.PacketID)).U(uint64(n.LostPackets))
		}
	case *rtcp.RapidResynchronizationRequest:
		w.U(uint64(v.SenderSSRC)).U(uint64(v.MediaSSRC))
	case *rtcp.PictureLossIndication:
		w.U(uint64(v.SenderSSRC)).U(uint64(v.MediaSSRC))
	case *rtcp.SliceLossIndication:
		w.U(uint64(v.SenderSSRC)).U(uint64(v.MediaSSRC)).U(uint64(len(v.SLI)))
		for _, e := range v.SLI {
			w.U(uint64(e.First)).U(uint64(e.Number)).U(uint64(e.Picture))
		}
	case *rtcp.FullIntraRequest:
		w.U(uint64(v.SenderSSRC)).U(uint64(v.MediaSSRC)).U(uint64(len(v.FIR)))
		for _, e := range v.FIR {
			w.U(uint64(e.SSRC)).U(uint64(e.SequenceNumber))
		}
	case *rtcp.ReceiverEstimatedMaximumBitrate:
		w.U(uint64(v.SenderSSRC)).U(uint64(math.Float32bits(v.Bitrate))).U(uint64(len(v.SSRCs)))
		for _, s := range v.SSRCs {
			w.U(uint64(s))
		}
	case *rtcp.TransportLayerCC:
		putHeader(w, v.Header)
		w.U(uint64(v.SenderSSRC)).U(uint64(v.MediaSSRC)).U(uint64(v.BaseSequenceNumber)).U(uint64(v.PacketStatusCount)).
			U(uint64(v.ReferenceTime)).U(uint64(v.FbPktCount)).U(uint64(len(v.PacketChunks)))
		for _, c := range v.PacketChunks {
			putTwccChunk(w, c)
		}
		w.U(uint64(len(v.RecvDeltas)))
		for _, d := range v.RecvDeltas {
			w.U(uint64(d.Type)).I(d.Delta)
		}
	case *rtcp.CCFeedbackReport:
		w.U(uint64(v.SenderSSRC)).U(uint64(len(v.ReportBlocks)))
		for _, b := range v.ReportBlocks {
			putCcfbBlock(w, b)
		}
		w.U(uint64(v.ReportTimestamp))
	case *rtcp.ExtendedReport:
		w.U(uint64(v.SenderSSRC)).U(uint64(len(v.Reports)))
		for _, b := range v.Reports {
			putXRBlock(w, b)
		}
	case *rtcp.RawPacket:
		w.H([]byte(*v))
	default:
		panic(parseErr{fmt.Sprintf("putBody %T", p)})
	}
}

func getBody(r *R, kind string) rtcp.Packet {
	switch kind {
	case "SR":
		v := &rtcp.SenderReport{SSRC: uint32(r.U()), NTPTime: r.U(), RTPTime: uint32(r.U()), PacketCount: uint32(r.U()), OctetCount: uint32(r.U())}
		v.Reports = getRReps(r)
		v.ProfileExtensions = r.H()
		return v
	case "RR":
		v := &rtcp.ReceiverReport{SSRC: uint32(r.U())}
		v.Reports = getRReps(r)
		v.ProfileExtensions = r.H()
		return v
	case "SDES":
		v := &rtcp.SourceDescription{}
		for n := r.N(); n > 0; n-- {
			v.Chunks = append(v.Chunks, getChunk(r))
		}
		return v
	case "BYE":
		v := &rtcp.Goodbye{}
		for n := r.N(); n > 0; n-- {
			v.Sources = append(v.Sources, uint32(r.U()))
		}
		v.Reason = string(r.H())
		return v
	case "APP":
		return &rtcp.ApplicationDefined{SubType: uint8(r.U()), SSRC: uint32(r.U()), Name: string(r.H()), Data: r.H()}
	case "NACK":
		v := &rtcp.TransportLayerNack{SenderSSRC: uint32(r.U()), MediaSSRC: uint32(r.U())}
		for n := r.N(); n > 0; n-- {
			v.Nacks = append(v.Nacks, rtcp.NackPair{PacketID: uint16(r.U()), LostPackets: rtcp.PacketBitmap(r.U())})
		}
		return v
	case "RRR":
		return &rtcp.RapidResynchronizationRequest{SenderSSRC: uint32(r.U()), MediaSSRC: uint32(r.U())}
	case "PLI":
		return &rtcp.PictureLossIndication{SenderSSRC: uint32(r.U()), MediaSSRC: uint32(r.U())}
	case "SLI":
		v := &rtcp.SliceLossIndication{SenderSSRC: uint32(r.U()), MediaSSRC: uint32(r.U())}
		for n := r.N(); n > 0; n-- {
			v.SLI = append(v.SLI, rtcp.SLIEntry{First: uint16(r.U()), Number: uint16(r.U()), Picture: uint8(r.U())})
		}
		return v
	case "FIR":
		v := &rtcp.FullIntraRequest{SenderSSRC: uint32(r.U()), MediaSSRC: uint32(r.U())}
		for n := r.N(); n > 0; n-- {
			v.FIR = append(v.FIR, rtcp.FIREntry{SSRC: uint32(r.U()), SequenceNumber: uint8(r.U())})
		}
		return v
	case "REMB":
		v := &rtcp.ReceiverEstimatedMaximumBitrate{SenderSSRC: uint32(r.U()), Bitrate: math.Float32frombits(uint32(r.U()))}
		for n := r.N(); n > 0; n-- {
			v.SSRCs = append(v.SSRCs, uint32(r.U()))
		}
		return v
	case "TWCC":
		v := &rtcp.TransportLayerCC{Header: getHeader(r)}
		v.SenderSSRC, v.MediaSSRC = uint32(r.U()), uint32(r.U())
		v.BaseSequenceNumber, v.PacketStatusCount = uint16(r.U()), uint16(r.U())
		v.ReferenceTime, v.FbPktCount = uint32(r.U()), uint8(r.U())
		for n := r.N(); n > 0; n-- {
			v.PacketChunks = append(v.PacketChunks, getTwccChunk(r))
		}
		for n := r.N(); n > 0; n-- {
			v.RecvDeltas = append(v.RecvDeltas, &rtcp.RecvDelta{Type: uint16(r.U()), Delta: r.I()})
		}
		return v
	case "CCFB":
		v := &rtcp.CCFeedbackReport{SenderSSRC: uint32(r.U())}
		for n := r.N(); n > 0; n-- {
			v.ReportBlocks = append(v.ReportBlocks, getCcfbBlock(r))
		}
		v.ReportTimestamp = uint32(r.U())
		return v
	case "XR":
		v := &rtcp.ExtendedReport{SenderSSRC: uint32(r.U())}
		for n := r.N(); n > 0; n-- {
			v.Reports = append(v.Reports, getXRBlock(r))
		}
		return v
	case "RAW":
		v := rtcp.RawPacket(r.H())
		return &v
	}
	panic(parseErr{"getBody kind " + kind})
}

func putPacket(w *W, p rtcp.Packet) {
	w.S(kindName(p))
	putBody(w, p)
}
func getPacket(r *R) rtcp.Packet { return getBody(r, r.S()) }

func putPackets(w *W, ps []rtcp.Packet) {
	w.U(uint64(len(ps)))
	for _, p := range ps {
		putPacket(w, p)
	}
}
func getPackets(r *R) []rtcp.Packet {
	var ps []rtcp.Packet
	for n := r.N(); n > 0; n-- {
		ps = append(ps, getPacket(r))
	}
	return ps
}

func packetTokens(p rtcp.Packet) string {
	w := &W{}
	putPacket(w, p)
	return w.String()
}
func bodyTokens(p rtcp.Packet) string {
	w := &W{}
	putBody(w, p)
	return w.String()
}
func packetsTokens(ps []rtcp.Packet) string {
	w := &W{}
	putPackets(w, ps)
	return w.String()
}
