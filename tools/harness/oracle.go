package main

// Property oracles evaluated directly on the implementation (DESIGN §5.3): used to exhibit a concrete
// failing input when a proof obligation or the correspondence breaks, and to replay known findings.
// Each oracle takes an op line and its implementation result and says whether the *property* fails there.

import (
	"encoding/json"
	"fmt"
)

var oracleJSON bool

func runOracle(prop string, seed uint64, n int, maxFail int) int {
	r := NewRng(seed ^ hashString(prop))
	fails := 0
	genOps(prop, r, n, "quick", func(op string) {
		if fails >= maxFail {
			return
		}
		res := execOp(op)
		if why := propertyFails(prop, op, res); why != "" {
			fails++
			if oracleJSON {
				b, _ := json.Marshal(map[string]string{"op": op, "result": clip(res, 4000), "why": why})
				fmt.Println(string(b))
			} else {
				fmt.Printf("FAIL %s :: %s :: %s => %s\n", prop, why, clip(op, 400), clip(res, 200))
			}
		}
	})
	if fails > 0 {
		return 1
	}
	return 0
}

func clip(s string, n int) string {
	if len(s) > n {
		return s[:n] + "…"
	}
	return s
}

// propertyFails returns a non-empty reason when the implementation's result on this op violates the
// property itself (not merely differs from the model).
func propertyFails(prop, op, res string) string {
	name := op
	if i := indexByte(op, ' '); i >= 0 {
		name = op[:i]
	}
	base := name
	if i := indexByte(name, '.'); i >= 0 {
		base = name[:i]
	}
	switch prop {
	case "C01":
		switch base {
		case "dec", "udec", "udecp", "cdec", "ccfbblock", "ccfbmetric":
			if hasPrefix(res, "panic") {
				return "decoder panicked"
			}
			if hasPrefix(res, "blowup") {
				return "decoder over-allocated: " + res
			}
		}
	case "C02":
		if base == "rt" && hasPrefix(res, "ok ") {
			parts := splitSemi(res[3:])
			if len(parts) < 3 {
				return "own output not accepted / not re-marshalled: " + clip(res, 80)
			}
			if parts[0] != parts[2] {
				return "re-marshal differs from first marshal"
			}
			want := quantPacketsTokens(op[len("rt "):])
			if want != "" && want != parts[1] {
				return "decoded list differs from original (after documented quantisation)"
			}
		}
	case "C05":
		if base == "framed" && hasPrefix(res, "ok ") {
			r := NewR(res[3:])
			l, sz := r.N(), r.N()
			if l > 262144 {
				return ""
			}
			if l != sz {
				return fmt.Sprintf("len %d != MarshalSize %d", l, sz)
			}
			if l%4 != 0 {
				return fmt.Sprintf("len %d not a multiple of 4", l)
			}
			if r.S() == "err" {
				return "emitted header does not parse"
			}
			r.i--
			h := getHeader(r)
			if int(h.Length) != l/4-1 {
				return fmt.Sprintf("length field %d != %d", h.Length, l/4-1)
			}
		}
	case "C09":
		if base == "reenc" && hasPrefix(res, "ok ") {
			parts := splitSemi(res[3:])
			if len(parts) >= 2 && parts[1] == "panic" {
				return "Marshal of decoded packets panicked"
			}
			if len(parts) == 3 {
				if parts[2] == "err" {
					return "re-encoded bytes are rejected"
				}
				// compare second decode with first decode (post-marshal state is what parts[2] must equal
				// after another marshal; XR header normalisation is handled by comparing re-decodes)
				if quantReenc(parts[0]) != quantReenc(parts[2]) {
					return "decode-encode-decode is not idempotent"
				}
			}
		}
	case "C17":
		if hasPrefix(res, "panic") {
			return "String()/formatting panicked"
		}
	case "C18":
		if hasPrefix(res, "mutated") {
			return res
		}
		if hasPrefix(res, "panic") {
			return "panic during history"
		}
	}
	return ""
}

func indexByte(s string, c byte) int {
	for i := 0; i < len(s); i++ {
		if s[i] == c {
			return i
		}
	}
	return -1
}
func hasPrefix(s, p string) bool { return len(s) >= len(p) && s[:len(p)] == p }

func splitSemi(s string) []string {
	var out []string
	cur := ""
	for _, f := range fieldsOf(s) {
		if f == ";" {
			out = append(out, cur)
			cur = ""
			continue
		}
		if cur != "" {
			cur += " "
		}
		cur += f
	}
	return append(out, cur)
}

func fieldsOf(s string) []string {
	var out []string
	start := -1
	for i := 0; i <= len(s); i++ {
		if i == len(s) || s[i] == ' ' {
			if start >= 0 {
				out = append(out, s[start:i])
				start = -1
			}
		} else if start < 0 {
			start = i
		}
	}
	return out
}
