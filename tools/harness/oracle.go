package main

// Property oracles evaluated directly on the implementation (DESIGN §5.3): used to exhibit a concrete
// failing input when a proof obligation or the correspondence breaks, and to replay known findings.
// Each oracle takes an op line and its implementation result and says whether the *property* fails there.

import (
	"bytes"
	"encoding/json"
	"fmt"
	"os"
	"strings"

	"github.com/pion/rtcp"
)

var oracleJSON bool

func runOracle(prop string, seed uint64, n int, maxFail int) int {
	r := NewRng(seed ^ hashString(prop))
	fails := 0
	genOps(prop, r, n, "quick", func(op string) {
		if fails >= maxFail {
			return
		}
		res, done := execWatched(op)
		why := ""
		if done {
			why = propertyFails(prop, op, res)
		} else {
			why = "operation did not return within " + opTimeout.String() + " (loops without bound)"
		}
		if !done {
			b, _ := json.Marshal(map[string]string{"op": op, "result": res, "why": why})
			fmt.Println(string(b))
			os.Exit(3)
		}
		if why != "" {
			fails++
			if oracleJSON {
				b, _ := json.Marshal(map[string]string{"op": op, "result": clip(res, 4000), "why": why})
				fmt.Println(string(b))
			} else {
				fmt.Printf("FAIL %s :: %s :: %s => %s\n", prop, why, clip(op, 400), clip(res, 200))
			}
		}
	})
	if fails > 0 {
		return 1
	}
	return 0
}

func clip(s string, n int) string {
	if len(s) > n {
		return s[:n] + "…"
	}
	return s
}

// propertyFails returns a non-empty reason when the implementation's result on this op violates the
// property itself (not merely differs from the model).
func propertyFails(prop, op, res string) (why string) { return propertyFailsL(prop, op, res, "") }

// lean: the model's result line for the same op when known ("" otherwise); only C03 uses it, where the
// model side of `encspec` is the declarative RFC rendering, i.e. the specification itself.
// reuseFails: decoding B into a receiver that decoded A before must give what a fresh receiver gives for B
func reuseFails(base, kind, args, res string) string {
	f := fieldsOf(args)
	if len(f) != 2 {
		return ""
	}
	fresh := ""
	switch base {
	case "reuse":
		fresh = execOp("dec." + kind + " " + f[1])
	case "ccfbmetric":
		fresh = execOp("ccfbmetric.dec " + f[1])
	default:
		return ""
	}
	if fresh != res {
		return "decoding into a value used before gives " + clip(res, 40) + ", into a fresh one " + clip(fresh, 40)
	}
	return ""
}

func propertyFailsL(prop, op, res, lean string) (why string) {
	defer func() {
		if r := recover(); r != nil {
			why = ""
		}
	}()
	name, args := op, ""
	if i := indexByte(op, ' '); i >= 0 {
		name, args = op[:i], op[i+1:]
	}
	base, kind := name, ""
	if i := indexByte(name, '.'); i >= 0 {
		base, kind = name[:i], name[i+1:]
	}
	isOK := hasPrefix(res, "ok")
	if base == "reuse" || (base == "ccfbmetric" && kind == "reuse") {
		switch prop {
		case "C11", "C13", "C14", "C15", "C16", "C10", "C02":
			if w := reuseFails(base, kind, args, res); w != "" {
				return w
			}
		}
	}
	switch prop {
	case "C01":
		if base == "reuse" && (hasPrefix(res, "panic") || hasPrefix(res, "blowup")) {
			return "decoder panicked or over-allocated when the receiver had been used before: " + clip(res, 60)
		}
		if base == "decp" {
			if exact := execOp("dec." + kind + " " + args); exact != res {
				return "a decoder's result depends on memory behind the end of its input: " + clip(res, 30) + " vs " + clip(exact, 30)
			}
		}
		switch base {
		case "dec", "decp", "udec", "udecp", "cdec", "ccfbblock", "ccfbmetric":
			if hasPrefix(res, "panic") {
				return "decoder panicked"
			}
			if hasPrefix(res, "blowup") {
				return "decoder over-allocated: " + res
			}
		}
	case "C02", "C16":
		if base == "rembto" {
			return rembtoOracle(args, res)
		}
		if base == "crt" {
			return crtOracle(args, res)
		}
		if prop == "C16" {
			if w := unitOracle(base, kind, args, res); w != "" {
				return w
			}
			if base == "nackpairs" || base == "plist" || base == "range" {
				if w := nackOracle(base, args, res); w != "" {
					return w
				}
			}
			if base == "decp" && kind == "HDR" {
				if n := len(NewR(args).H()); n < 4 && isOK {
					return fmt.Sprintf("Header.Unmarshal accepted %d octets (memory behind the slice was read)", n)
				}
				if exact := execOp("dec.HDR " + args); exact != res {
					return "Header.Unmarshal depends on memory behind the end of its input: " + clip(res, 30) + " vs " + clip(exact, 30)
				}
			}
		}
		if base == "relay" {
			if hasPrefix(res, "mutated") {
				return "marshalling a list altered it: " + res
			}
			if strings.HasSuffix(res, "concat-differs") {
				return "Marshal(list) is not the concatenation of the members' encodings"
			}
		}
		if base == "rt" {
			return rtOracle(args, res, false)
		}
		if base == "rto" {
			return rtoOracle(kind, args, res)
		}
	case "C03":
		if base == "rembto" && hasPrefix(lean, "ok") && res != lean {
			// the model's MarshalTo is its Marshal, proved equal to the draft's rendering (C03.remb_wire)
			if p := getBody(NewR(args), "REMB"); wfPacket(p) {
				return "MarshalTo into a used buffer differs from the draft's layout (rendering: " + clip(lean, 80) + ")"
			}
		}
		if base == "relay" {
			if hasPrefix(res, "mutated") {
				return "marshalling a list of decoded packets wrote into memory it does not own: " + res
			}
			if strings.HasSuffix(res, "concat-differs") {
				return "Marshal(list) is not the concatenation of the members' encodings"
			}
		}
		if (base == "uenc" || base == "cenc") && hasPrefix(lean, "ok") && res != lean {
			// the model's list encoders are the concatenation of its packet encoders, proved equal to the RFC renderings
			if ps := getPackets(NewR(args)); allWF(ps) {
				return "Marshal of a list differs from the concatenation of its members' RFC layouts"
			}
		}
		if base == "encspec" && hasPrefix(lean, "ok") && res != lean {
			p := getBody(NewR(args), kind)
			if wfPacket(p) {
				why := "Marshal output differs from the RFC layout (Spec rendering: " + clip(lean, 80) + ")"
				if c, ok := p.(*rtcp.CCFeedbackReport); ok {
					for _, b := range c.ReportBlocks {
						if len(b.MetricBlocks) > 0 {
							return why + " [ccfb-num-reports]"
						}
					}
				}
				return tagged(why, p, tagSLI)
			}
		}
	case "C04":
		if (base == "dec" || base == "udec" || base == "decv") && hasPrefix(res, "panic") {
			return "decoder panicked"
		}
		if base == "cdec" {
			// CompoundPacket.Unmarshal is a decoder too: what it accepts it must read as the datagram decoder does
			b := NewR(args).H()
			qs, err := rtcp.Unmarshal(exactCap(b))
			if (err == nil && specValidCompound(qs)) != isOK {
				return "CompoundPacket.Unmarshal rejects a valid compound encoding (or accepts an invalid one)"
			}
			if isOK && err == nil && res != "ok "+packetsTokens(qs) {
				return "CompoundPacket.Unmarshal returns other field values than the datagram decoder for the same bytes"
			}
		}
		if base == "rto" && kind != "CCFB" && kind != "SLI" {
			// Marshal output is the RFC encoding (C03; not so for CCFB and SLI, whose deviations are listed and whose
			// decoders are judged on hand-built encodings instead): the type's decoder must give the value back
			if w := rtoOracle(kind, args, res); w != "" {
				return w
			}
		}
		if base == "udec" && isOK {
			b := NewR(args).H()
			if k := dispatchKind(b); (k == "SR" || k == "RR" || k == "SDES" || k == "BYE") && len(b) >= 4 {
				l := (int(b[2])<<8 | int(b[3]) + 1) * 4
				if l <= len(b) && countInflated(k, b[:l]) {
					return "header count exceeds the elements present in the first packet, yet the datagram is accepted"
				}
			}
		}
		if base == "dec" && kind == "REMB" {
			if w := rembOracle(base, kind, args, res); w != "" {
				return w
			}
		}
		if base == "dec" && kind == "CCFB" && res == "err" && ccfbValidLib(NewR(args).H()) {
			return "a CCFB report whose blocks tile the packet exactly and stay within the sequence space is rejected"
		}
		if base == "dec" && kind == "CCFB" && hasPrefix(res, "ok ") {
			if w := ccfbDecOracle(NewR(args).H(), res[3:]); w != "" {
				return w
			}
		}
		if base == "dec" && kind == "XR" && hasPrefix(res, "ok ") {
			if w := xrDecOracle(NewR(args).H(), res[3:]); w != "" {
				return w
			}
		}
		if base == "reuse" && isOK {
			if f := fieldsOf(args); len(f) == 2 {
				if fresh := execOp("dec." + kind + " " + f[1]); hasPrefix(fresh, "ok") && fresh != res {
					return "decoded fields depend on what the receiver held before"
				}
			}
		}
		if base == "decv" {
			i := strings.Index(args, " | ")
			if i < 0 {
				return ""
			}
			want := args[i+3:]
			tag := ""
			if b := unhexOr(fieldsOf(args)[0]); kind == "REMB" && len(b) >= 20 && b[17]&3 == 0 && b[18] == 0 && b[19] == 0 {
				tag = " [remb-mantissa-zero]"
			}
			if kind == "CCFB" {
				tag = " [ccfb-num-reports]" // every RFC 8888 encoding with a non-empty block is read with one metric block too many
			}
			if !isOK {
				return "valid encoding rejected" + tag
			}
			if strings.Join(strings.Fields(res[3:]), " ") != strings.Join(strings.Fields(want), " ") {
				return "decoded fields differ from the specified ones" + tag
			}
		}
		if base == "dec" && (kind == "SR" || kind == "RR" || kind == "SDES" || kind == "BYE") && isOK {
			b := NewR(args).H()
			if countInflated(kind, b) {
				return "header count exceeds the elements present, yet accepted"
			}
		}
	case "C05":
		if base == "cenc" && isOK {
			sum := 0
			for _, p := range getPackets(NewR(args)) {
				sum += p.MarshalSize()
			}
			if n := (len(res) - 3) / 2; sum <= 262144 && (n != sum || n%4 != 0) {
				return fmt.Sprintf("CompoundPacket.Marshal wrote %d octets, its members' MarshalSize sum to %d", n, sum)
			}
		}
		if base == "framed" && hasPrefix(res, "ok ") {
			p := getBody(NewR(args), kind)
			if kind == "RAW" && !wfPacket(p) {
				return ""
			}
			r := NewR(res[3:])
			l, sz := r.N(), r.N()
			if l > 262144 {
				return ""
			}
			if l != sz {
				return fmt.Sprintf("len %d != MarshalSize %d", l, sz)
			}
			if kind == "TWCC" && !twccConsistent(p.(*rtcp.TransportLayerCC)) {
				return "" // the header clauses are for a caller-supplied header consistent with the content
			}
			if l%4 != 0 {
				return tagged(fmt.Sprintf("len %d not a multiple of 4", l), p, tagXR)
			}
			if r.S() == "err" {
				return "emitted header does not parse"
			}
			r.i--
			h := getHeader(r)
			if int(h.Length) != l/4-1 {
				return fmt.Sprintf("length field %d != %d", h.Length, l/4-1)
			}
			if pt, cnt, ok := specTypeCount(p); ok && (int(h.Type) != pt || int(h.Count) != cnt) {
				return tagged(fmt.Sprintf("header carries packet type %d and count/FMT %d, the value calls for %d and %d", h.Type, h.Count, pt, cnt), p, tagSLI)
			}
			if hh, ok := p.(interface{ Header() rtcp.Header }); ok {
				if hh.Header() != h {
					return "Header() differs from the emitted header"
				}
			}
		}
		if base == "len" && isOK {
			p := getBody(NewR(args), kind)
			if kind == "TWCC" && !twccConsistent(p.(*rtcp.TransportLayerCC)) {
				return ""
			}
			if b, err := safeMarshal(p); err == nil && res != fmt.Sprintf("ok %d", len(b)) {
				return fmt.Sprintf("Len() reports %s, Marshal produces %d octets", res[3:], len(b))
			}
		}
		if base == "csize" && isOK {
			ps := getPackets(NewR(args))
			sum := 0
			for _, p := range ps {
				sum += p.MarshalSize()
			}
			if fmt.Sprintf("ok %d", sum) != res {
				return "compound size is not the sum of its members"
			}
		}
	case "C06":
		if hasPrefix(res, "panic") {
			return "datagram decoder panicked"
		}
		if base == "reuse" && kind == "COMPOUND" {
			if hasPrefix(res, "mutated") {
				return "decoding a datagram changed packets returned for an earlier one: " + res
			}
			if w := reuseFails(base, kind, args, res); w != "" {
				return w
			}
		}
		if base == "concat" && isOK {
			parts := splitSemi(res[3:])
			if len(parts) == 3 && parts[0] != "err" && parts[1] != "err" {
				if parts[2] == "err" {
					return "Unmarshal(a||b) fails although both parts decode"
				}
				a, b := getPackets(NewR(parts[0])), getPackets(NewR(parts[1]))
				if packetsTokens(append(a, b...)) != parts[2] {
					return "Unmarshal(a||b) != Unmarshal(a) ++ Unmarshal(b)"
				}
			}
			if len(parts) == 3 && parts[2] != "err" && (parts[0] == "err" || parts[1] == "err") {
				f := fieldsOf(args)
				if len(f) == 2 && framesOK(unhexOr(f[0])) && framesOK(unhexOr(f[1])) {
					return "a malformed part is accepted inside a datagram"
				}
			}
		}
		if (base == "udec" || base == "udecp") && lean != "" && hasPrefix(lean, "ok") != isOK && !hasPrefix(lean, "panic") && !hasPrefix(res, "blowup") {
			// which frames are malformed is fixed by the decoding rules the model formalises (C06.malformed_frame_fails is
			// proved about them, and the unchanged decoders follow them on every compared line)
			if isOK {
				return "a datagram with a frame that the decoding rules reject as malformed is accepted"
			}
			return "a datagram of frames that the decoding rules accept is rejected"
		}
		if (base == "udec" || base == "udecp") && res == "err" {
			// frames of unregistered packet types have no body rules: a well-framed datagram of them must decode
			b := NewR(args).H()
			if framesOK(b) {
				allRaw := true
				for off := 0; off < len(b); off += (int(b[off+2])<<8 | int(b[off+3]) + 1) * 4 {
					if dispatchKind(b[off:]) != "RAW" {
						allRaw = false
						break
					}
				}
				if allRaw {
					return "a datagram of well-framed packets (all of unregistered types) is rejected"
				}
			}
		}
		if (base == "udec" || base == "udecp") && isOK {
			b := NewR(args).H()
			if len(b) == 0 {
				return "empty datagram accepted"
			}
			if !framesOK(b) {
				return "datagram with a trailing fragment accepted"
			}
			ps := getPackets(NewR(res[3:]))
			if n := countFrames(b); n != len(ps) {
				return fmt.Sprintf("%d frames but %d packets", n, len(ps))
			}
			for off := 0; off < len(b); {
				l := (int(b[off+2])<<8 | int(b[off+3]) + 1) * 4
				if k := dispatchKind(b[off:]); k != "RAW" && k != "SLI" && execOp("dec."+k+" "+hx(b[off:off+l])) == "err" {
					return "a frame that its own type's decoder rejects is accepted inside a datagram"
				}
				off += l
			}
		}
	case "C07":
		if hasPrefix(res, "panic") && (base == "udec" || base == "dec" || base == "cdec") {
			return "decoder panicked (a header for which no packet value is allocated?)"
		}
		if base == "dec" && isOK && kind != "RAW" && kind != "COMPOUND" {
			b := NewR(args).H()
			if u := dispatchKind(b); u != "" && u != "RAW" && u != kind && framesOK(b) && countFrames(b) == 1 {
				// a well-formed packet of another registered type
				if ps, err := rtcp.Unmarshal(exactCap(b)); err == nil && len(ps) == 1 && kindName(ps[0]) == u {
					return "decoder of " + kind + " accepts a well-formed " + u + " packet"
				}
			}
		}
		if base == "rt" {
			return rtOracle(args, res, true)
		}
		if base == "rembto" && isOK {
			// MarshalTo is a Marshal too: what it wrote must come back as a REMB
			if f := fieldsOf(res); len(f) == 3 {
				if back := execOp("udec " + f[2]); !hasPrefix(back, "ok 1 REMB ") {
					return "the bytes written by ReceiverEstimatedMaximumBitrate.MarshalTo are not returned as a REMB by the datagram decoder: " + clip(back, 40)
				}
			}
		}
		if base == "udec" && isOK && len(res) > 3 {
			// a frame of an unregistered (type, FMT) comes back as a RawPacket holding exactly that frame
			b := NewR(args).H()
			if framesOK(b) {
				ps := getPackets(NewR(res[3:]))
				if n := countFrames(b); n != len(ps) {
					return fmt.Sprintf("a datagram of %d frames comes back as %d packets", n, len(ps))
				}
				i := 0
				for off := 0; off < len(b) && i < len(ps); i++ {
					l := (int(b[off+2])<<8 | int(b[off+3]) + 1) * 4
					if k := dispatchKind(b[off:]); k != "RAW" && k != kindName(ps[i]) {
						return fmt.Sprintf("frame %d carries the registered type/FMT of %s but is returned as %s", i, k, kindName(ps[i]))
					}
					if dispatchKind(b[off:]) == "RAW" {
						rp, ok := ps[i].(*rtcp.RawPacket)
						if !ok {
							return fmt.Sprintf("frame %d has an unregistered type/FMT but is returned as %s", i, kindName(ps[i]))
						}
						if !bytes.Equal([]byte(*rp), b[off:off+l]) {
							return fmt.Sprintf("RawPacket %d holds %d octets, its frame has %d: not the frame's bytes verbatim", i, len(*rp), l)
						}
					}
					off += l
				}
			}
		}
		if base == "udec" && res == "err" {
			b := NewR(args).H()
			if framesOK(b) {
				allRaw := true
				for off := 0; off < len(b); off += (int(b[off+2])<<8 | int(b[off+3]) + 1) * 4 {
					if dispatchKind(b[off:]) != "RAW" {
						allRaw = false
						break
					}
				}
				if allRaw {
					return "well-framed packets of unregistered types are not returned as RawPackets"
				}
			}
		}
		if base == "relay" && hasPrefix(res, "mutated") {
			return "re-marshalling decoded packets altered a RawPacket (it no longer holds its frame verbatim): " + res
		}
		if base == "udec" && isOK {
			b := NewR(args).H()
			if framesOK(b) && countFrames(b) == 1 {
				ps := getPackets(NewR(res[3:]))
				want := dispatchKind(b)
				if len(ps) == 1 && kindName(ps[0]) != want {
					return "frame dispatched to " + kindName(ps[0]) + ", table says " + want
				}
				if len(ps) == 1 && want == "RAW" && !bytes.Equal([]byte(*ps[0].(*rtcp.RawPacket)), b) {
					return "raw packet does not hold the frame verbatim"
				}
			}
		}
	case "C08":
		if hasPrefix(res, "err-with-bytes") {
			return "Marshal returns an error together with bytes (" + res + "): an out-of-range value must yield an error and no bytes"
		}
		if base == "rembto" {
			return rembtoOracle(args, res)
		}
		if (base == "uenc" || base == "cenc") && isOK {
			for _, p := range getPackets(NewR(args)) {
				if why := limitExceeded(kindName(p), bodyTokens(p)); why != "" {
					return "Marshal of a list accepted a member beyond a wire limit: " + why
				}
			}
		}
		if base == "enc" && isOK {
			if why := limitExceeded(kind, args); why != "" {
				return "Marshal accepted a value beyond a wire limit: " + why
			}
			// the length field represents the emitted size (TWCC and raw packets carry the caller's header)
			if isPacketKind(kind) && kind != "TWCC" && kind != "RAW" && kind != "XR" {
				if f := fieldsOf(res); len(f) >= 2 {
					if b := unhexOr(f[1]); len(b) >= 4 && len(b)%4 == 0 && len(b) <= 262144 {
						if lf := int(b[2])<<8 | int(b[3]); lf != len(b)/4-1 {
							return fmt.Sprintf("the length field says %d words, %d octets were emitted: the length does not represent the content", lf, len(b))
						}
					}
				}
			}
		}
		if base == "enc" && res == "err" {
			if atLimitOK(kind, args) {
				return "Marshal rejected a value within all wire limits"
			}
		}
	case "C09":
		if base == "relay" {
			if hasPrefix(res, "mutated") {
				return "re-serialising altered the received data: " + res
			}
			if strings.HasSuffix(res, "concat-differs") {
				return "Marshal(list) is not the concatenation of the members' encodings"
			}
		}
		if base == "reenc" && hasPrefix(res, "ok ") {
			parts := splitSemi(res[3:])
			if len(parts) >= 2 && parts[1] == "panic" {
				return "Marshal of decoded packets panicked"
			}
			if len(parts) == 3 {
				ps := getPackets(NewR(parts[0]))
				for _, p := range ps {
					if t, ok := p.(*rtcp.TransportLayerCC); ok && !twccConsistent(t) {
						return ""
					}
				}
				if parts[2] != "err" {
					if qs := getPackets(NewR(parts[2])); len(qs) != len(ps) {
						return fmt.Sprintf("the decoded list has %d packets, the re-encoded bytes hold %d (a member was dropped silently)", len(ps), len(qs))
					}
				}
				if parts[2] == "err" {
					return "re-encoded bytes are rejected"
				}
				if quantReenc(parts[0]) != quantReenc(parts[2]) {
					why := "decode-encode-decode is not idempotent"
					// a REMB frame with mantissa 0 decodes to 2^(exp+23) (listed deviation); for exp >= 58 that value saturates on re-encoding
					b := NewR(args).H()
					for off := 0; off+20 <= len(b); off += (int(b[off+2])<<8 | int(b[off+3]) + 1) * 4 {
						if b[off+1] == 206 && b[off]&31 == 15 && b[off+17]&3 == 0 && b[off+18] == 0 && b[off+19] == 0 {
							why += " [remb-mantissa-zero]"
							break
						}
					}
					return why
				}
			}
		}
	case "C10":
		if base == "dst2" && hasPrefix(res, "mutated") {
			return res
		}
		if base == "dst2" && isOK {
			// the list after decoding B into the used value is the list of B decoded alone
			if f := fieldsOf(args); len(f) == 2 {
				parts := splitSemi(res)
				fresh := execOp("dst2." + kind + " " + f[1] + " " + f[1])
				if fp := splitSemi(fresh); len(parts) == 2 && len(fp) == 2 && parts[1] != fp[1] {
					return "DestinationSSRC after decoding into a used value is " + clip(parts[1], 40) + ", after decoding the same bytes into a fresh one " + clip(fp[1], 40)
				}
			}
		}
		if base == "dst" && isOK {
			p := getBody(NewR(args), kind)
			if dstLine(specDest(p)) != res {
				return "DestinationSSRC differs from the documented list"
			}
		}
		if base == "crt" {
			if w := crtOracle(args, res); w != "" {
				return w
			}
		}
		if base == "rtdst" && res == "err" {
			if ps := getPackets(NewR(args)); len(ps) == 1 && wfPacket(ps[0]) {
				return "Marshal rejects a well-formed " + kindName(ps[0]) + ": its DestinationSSRC cannot survive a round trip"
			}
		}
		if base == "rtdst" && isOK {
			parts := splitSemi(res)
			ps := getPackets(NewR(args))
			if len(ps) == 1 && wfPacket(ps[0]) && kindName(ps[0]) != "SLI" {
				if len(parts) != 2 || parts[0] != parts[1] {
					return tagged("DestinationSSRC changes over an encode/decode round trip", ps[0], tagCCFB)
				}
			}
		}
		if base == "cdst" && isOK {
			ps := getPackets(NewR(args))
			want := "ok 0"
			if len(ps) > 0 {
				want = dstLine(specDest(ps[0]))
			}
			if want != res {
				return "compound DestinationSSRC is not the first member's"
			}
		}
	case "C11":
		if base == "crt" {
			return crtOracle(args, res)
		}
		if base == "cdst" && isOK {
			qs := getPackets(NewR(args))
			want := "ok 0"
			if len(qs) > 0 {
				want = dstLine(specDest(qs[0]))
			}
			if want != res {
				return "compound DestinationSSRC is not the first member's"
			}
		}
		if base == "csize" && isOK {
			sum := 0
			for _, p := range getPackets(NewR(args)) {
				sum += p.MarshalSize()
			}
			if fmt.Sprintf("ok %d", sum) != res {
				return "compound size is not the sum of its members"
			}
		}
		ps := []rtcp.Packet(nil)
		if base == "cval" || base == "ccname" || base == "cenc" || base == "csize" || base == "cdst" {
			ps = getPackets(NewR(args))
		}
		switch base {
		case "cval":
			if specValidCompound(ps) != isOK {
				return "Validate disagrees with the RFC 3550 grammar"
			}
		case "ccname":
			if specValidCompound(ps) {
				want := specFirstCNAME(ps)
				if !isOK || res != okHex([]byte(want)) {
					return "CNAME() does not return the first CNAME of a valid compound"
				}
			}
		case "cenc":
			var err error
			for _, p := range ps { // "every member marshals": member by member, not through the list encoder under test
				if _, e := safeMarshal(p); e != nil {
					err = e
				}
			}
			if (specValidCompound(ps) && err == nil) != isOK {
				return "CompoundPacket.Marshal succeeds iff Validate and members marshal: violated"
			}
		case "cdec":
			b := NewR(args).H()
			qs, err := rtcp.Unmarshal(exactCap(b))
			if (err == nil && specValidCompound(qs)) != isOK {
				return "CompoundPacket.Unmarshal succeeds iff datagram decodes and validates: violated"
			}
			if isOK && err == nil && res != "ok "+packetsTokens(qs) {
				return "CompoundPacket.Unmarshal returns other packets than the datagram decoder for the same bytes"
			}
		}
	case "C12":
		if base == "plist2" && isOK {
			p := splitSemi(res[3:])
			a := NewR(args)
			id, bm := a.U(), a.U()
			if len(p) == 3 && (p[0] != p[1] || p[2] != fmt.Sprintf("%d %d", id, bm)) {
				return "reading a NackPair (PacketList / Range) changes it: a second PacketList gives [" + clip(p[1], 40) + "] after [" + clip(p[0], 40) + "]"
			}
		}
		return nackOracle(base, args, res)
	case "C13":
		if base == "dec" && kind == "TWCC" && isOK {
			return twccOracle(NewR(args).H(), res[3:])
		}
		if base == "decp" && kind == "TWCC" {
			if exact := execOp("dec.TWCC " + args); exact != res {
				return "the decoder's result depends on memory behind the end of its input: " + clip(res, 30) + " vs " + clip(exact, 30)
			}
		}
		if base == "udec" && isOK && len(res) > 3 { // the same packets through the datagram decoder, each judged on its own frame
			if b := NewR(args).H(); framesOK(b) {
				ps := getPackets(NewR(res[3:]))
				i := 0
				for off := 0; off < len(b) && i < len(ps); i++ {
					l := (int(b[off+2])<<8 | int(b[off+3]) + 1) * 4
					if t, ok := ps[i].(*rtcp.TransportLayerCC); ok && dispatchKind(b[off:]) == "TWCC" {
						if w := twccOracle(b[off:off+l], bodyTokens(t)); w != "" {
							return fmt.Sprintf("frame %d: %s", i, w)
						}
					}
					off += l
				}
			}
		}
	case "C14":
		if base == "rembto" {
			return rembtoOracle(args, res)
		}
		return rembOracle(base, kind, args, res)
	case "C15":
		if base == "decalias" && res == "ok alias" {
			return "a decoded extended report shares memory with the buffer it was decoded from: its blocks change when the caller reuses the buffer"
		}
		if base == "enc" && kind == "XR" && isOK {
			return xrOracle(args, res)
		}
		if base == "dec" && kind == "XR" && lean != "" && lean == "err" && isOK {
			// what makes a block malformed (content not filling its declared length in whole elements, ...) is fixed by
			// the decoding rules the model formalises; the unchanged decoder follows them on every compared line
			return "an extended report with a block that the decoding rules reject as malformed is accepted"
		}
		if base == "dec" && kind == "XR" && hasPrefix(res, "ok ") {
			return xrDecOracle(NewR(args).H(), res[3:])
		}
		if base == "rto" && kind == "XR" {
			return rtoOracle(kind, args, res)
		}
		if base == "rt" {
			return rtOracle(args, res, false)
		}
	case "C17":
		if hasPrefix(res, "panic") {
			return "String()/formatting panicked"
		}
	case "C18":
		if hasPrefix(res, "mutated") {
			return res
		}
		if base == "decalias" && res == "ok alias" && kind != "SR" && kind != "RR" && kind != "APP" && kind != "RAW" {
			return "a decoded " + kind + " shares memory with the input buffer (only RawPacket, SR/RR profile extensions and APP data are documented sub-slices)"
		}
		if base == "reuse" {
			if f := fieldsOf(args); len(f) == 2 {
				if fresh := execOp("dec." + kind + " " + f[1]); fresh != res {
					return "Unmarshal into a receiver used before gives " + clip(res, 40) + ", into a fresh one " + clip(fresh, 40)
				}
			}
		}
		if base == "relay" && strings.HasSuffix(res, "concat-differs") {
			return "Marshal(list) is not the concatenation of the members' encodings"
		}
		if base == "enc" && kind == "XR" && isOK {
			// the block headers are outputs of Marshal: what an earlier Marshal or Unmarshal left in them must not show
			if x, ok := getBody(NewR(args), "XR").(*rtcp.ExtendedReport); ok {
				fresh := fieldsOf(execOp("enc.XR " + bodyTokens(xrFreshHeaders(x))))
				if got := fieldsOf(res); len(fresh) >= 2 && len(got) >= 2 && fresh[0] == "ok" && fresh[1] != got[1] {
					return "ExtendedReport.Marshal gives other bytes for a value whose block headers were filled in by an earlier call than for the same value built fresh"
				}
			}
		}
		if hasPrefix(res, "panic") {
			return "panic during history"
		}
	}
	return ""
}

func indexByte(s string, c byte) int {
	for i := 0; i < len(s); i++ {
		if s[i] == c {
			return i
		}
	}
	return -1
}
func hasPrefix(s, p string) bool { return len(s) >= len(p) && s[:len(p)] == p }

func splitSemi(s string) []string {
	var out []string
	cur := ""
	for _, f := range fieldsOf(s) {
		if f == ";" {
			out = append(out, cur)
			cur = ""
			continue
		}
		if cur != "" {
			cur += " "
		}
		cur += f
	}
	return append(out, cur)
}

func fieldsOf(s string) []string {
	var out []string
	start := -1
	for i := 0; i <= len(s); i++ {
		if i == len(s) || s[i] == ' ' {
			if start >= 0 {
				out = append(out, s[start:i])
				start = -1
			}
		} else if start < 0 {
			start = i
		}
	}
	return out
}

// rtoOracle: Marshal, then the type's own decoder, on a well-formed value
func rtoOracle(kind, args, res string) string {
	p := getBody(NewR(args), kind)
	if !wfPacket(p) {
		return ""
	}
	if !hasPrefix(res, "ok") {
		return tagged("own decoder or Marshal rejects a well-formed value: "+clip(res, 40), p, tagCCFB)
	}
	got := ""
	if len(res) > 3 {
		got = res[3:]
	}
	if want := canonTokens(p); want != kind+" "+got && want != got && want != kind {
		return tagged("own decoder returns a different value", p, tagCCFB, tagREMB)
	}
	return ""
}

// crtOracle: CompoundPacket.Marshal then CompoundPacket.Unmarshal on a compound that the RFC 3550 grammar accepts and
// whose members are well-formed: must succeed and give the members back (documented quantisations aside)
func crtOracle(args, res string) string {
	ps := getPackets(NewR(args))
	if !specValidCompound(ps) || !allWF(ps) {
		return ""
	}
	for _, p := range ps {
		if deviationTag(p) != "" {
			return "" // members running into a listed deviation are judged by the rt/rto lines
		}
	}
	if !hasPrefix(res, "ok ") {
		return "CompoundPacket.Marshal rejects a valid compound of well-formed packets"
	}
	parts := splitSemi(res[3:])
	if len(parts) < 2 || parts[1] == "err" {
		return "CompoundPacket.Unmarshal rejects the output of CompoundPacket.Marshal"
	}
	qs := getPackets(NewR(parts[1]))
	if len(qs) != len(ps) {
		return fmt.Sprintf("compound of %d packets comes back with %d", len(ps), len(qs))
	}
	for i := range ps {
		if canonTokens(ps[i]) != packetTokens(qs[i]) {
			return fmt.Sprintf("compound member %d (%s) decodes to a different value", i, kindName(ps[i]))
		}
	}
	return ""
}

// rembtoOracle: MarshalTo into a caller's (dirty) buffer must write exactly what Marshal returns, and nothing behind it
func rembtoOracle(args, res string) string {
	if hasPrefix(res, "mutated") {
		return res
	}
	r := NewR(args)
	p := getBody(r, "REMB").(*rtcp.ReceiverEstimatedMaximumBitrate)
	bl := r.N()
	if hasPrefix(res, "ok ") {
		if len(p.SSRCs) > 255 {
			return "Marshal accepted a value beyond a wire limit: more than 255 REMB SSRCs (MarshalTo)"
		}
		if p.Bitrate < 0 {
			return "Marshal accepted a value beyond a wire limit: negative REMB bitrate (MarshalTo)"
		}
		f := fieldsOf(res)
		want := execOp("enc.REMB " + bodyTokens(p))
		if len(f) == 3 && want != "ok "+f[2] {
			return "MarshalTo into a used buffer writes other bytes than Marshal returns"
		}
	} else if res == "err" && wfPacket(p) && bl >= p.MarshalSize() {
		return "MarshalTo rejects a well-formed value although the buffer is large enough"
	}
	return ""
}

func isPacketKind(kind string) bool {
	for _, k := range allKinds {
		if k == kind {
			return true
		}
	}
	return false
}
