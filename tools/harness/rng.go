package main

// splitmix64: every random choice in the harness derives from one stream seeded by VERIF_SEED.
type Rng struct{ s uint64 }

func NewRng(seed uint64) *Rng { return &Rng{s: seed*0x9E3779B97F4A7C15 + 0x1234567} }

func (r *Rng) U64() uint64 {
	r.s += 0x9E3779B97F4A7C15
	z := r.s
	z = (z ^ (z >> 30)) * 0xBF58476D1CE4E5B9
	z = (z ^ (z >> 27)) * 0x94D049BB133111EB
	return z ^ (z >> 31)
}

func (r *Rng) Intn(n int) int {
	if n <= 0 {
		return 0
	}
	return int(r.U64() % uint64(n))
}

func (r *Rng) Bool() bool { return r.U64()&1 == 1 }

// Chance returns true with probability num/den.
func (r *Rng) Chance(num, den int) bool { return r.Intn(den) < num }

func (r *Rng) Pick(xs ...int) int { return xs[r.Intn(len(xs))] }

// Bits returns a value biased towards the boundaries of a k-bit field inside a w-bit Go type (k<=w<=64).
func (r *Rng) Bits(k, w int) uint64 {
	maxw := ^uint64(0)
	if w < 64 {
		maxw = (uint64(1) << uint(w)) - 1
	}
	var maxk uint64 = maxw
	if k < 64 {
		maxk = (uint64(1) << uint(k)) - 1
	}
	switch r.Intn(10) {
	case 0:
		return 0
	case 1:
		return 1
	case 2:
		return maxk
	case 3:
		return maxk - 1
	case 4:
		if k < w && r.Chance(1, 3) { // out of wire range on purpose
			switch r.Intn(3) {
			case 0:
				return maxk + 1
			case 1:
				return maxw
			default:
				return (maxk + 1 + r.U64()) & maxw
			}
		}
		return r.U64() & maxk
	case 5:
		return (uint64(1) << uint(r.Intn(k))) & maxk
	default:
		return r.U64() & maxk
	}
}

func (r *Rng) Bytes(n int) []byte {
	b := make([]byte, n)
	for i := range b {
		switch r.Intn(8) {
		case 0:
			b[i] = 0
		case 1:
			b[i] = 0xff
		default:
			b[i] = byte(r.U64())
		}
	}
	return b
}

// Len returns a list length biased to the interesting boundaries given.
func (r *Rng) Len(small int, edges ...int) int {
	if len(edges) > 0 && r.Chance(1, 12) {
		return edges[r.Intn(len(edges))]
	}
	return r.Intn(small + 1)
}
