package main

// Per-property operation mixes (DESIGN §6: "Correspondence" paragraph of each property).

import (
	"encoding/binary"
	"encoding/hex"
	"fmt"
	"math"
	"strings"

	"github.com/pion/rtcp"
)

func hx(b []byte) string {
	if len(b) == 0 {
		return "-"
	}
	return hex.EncodeToString(b)
}

var decKinds = []string{"SR", "RR", "SDES", "BYE", "APP", "NACK", "RRR", "TWCC", "CCFB", "PLI", "SLI", "REMB", "FIR", "XR", "RAW"}
var subDecKinds = []string{"HDR", "RREP", "CHUNK", "ITEM", "RLC", "SVC", "DELTA"}
var hdrKinds = []string{"SR", "RR", "SDES", "BYE", "NACK", "RRR", "CCFB", "PLI", "SLI", "REMB", "FIR"}

func encOp(p rtcp.Packet) string             { return "enc." + kindName(p) + " " + bodyTokens(p) }
func opWith(op string, p rtcp.Packet) string { return op + "." + kindName(p) + " " + bodyTokens(p) }

func genPacketList(r *Rng, wild bool, max int) []rtcp.Packet {
	var ps []rtcp.Packet
	for n := 1 + r.Intn(max); n > 0; n-- {
		ps = append(ps, genValue(r, allKinds[r.Intn(len(allKinds))], wild && r.Chance(1, 4)))
	}
	return ps
}

// compound-shaped sequences over the ten kinds of C11
func genCompoundSeq(r *Rng) []rtcp.Packet {
	var ps []rtcp.Packet
	n := r.Len(5, 0, 1)
	for i := 0; i < n; i++ {
		var p rtcp.Packet
		k := r.Intn(10)
		if i == 0 && r.Chance(3, 4) {
			k = r.Intn(2)
		}
		if i > 0 && r.Chance(1, 3) {
			k = 1
		}
		if i > 0 && r.Chance(1, 3) {
			k = 2
		}
		switch k {
		case 0:
			p = genValue(r, "SR", false)
		case 1:
			p = genValue(r, "RR", false)
		case 2: // SDES with CNAME
			s := genValue(r, "SDES", false).(*rtcp.SourceDescription)
			if len(s.Chunks) == 0 {
				s.Chunks = []rtcp.SourceDescriptionChunk{{Source: 1}}
			}
			ci := r.Intn(len(s.Chunks))
			s.Chunks[ci].Items = append(s.Chunks[ci].Items, rtcp.SourceDescriptionItem{Type: rtcp.SDESCNAME, Text: string(r.Bytes(r.Len(5)))})
			if r.Bool() { // CNAME not first
				s.Chunks[ci].Items = append([]rtcp.SourceDescriptionItem{{Type: rtcp.SDESNote, Text: "x"}}, s.Chunks[ci].Items...)
			}
			if r.Bool() { // CNAME not last
				s.Chunks[ci].Items = append(s.Chunks[ci].Items, rtcp.SourceDescriptionItem{Type: rtcp.SDESType(2 + r.Intn(7)), Text: string(r.Bytes(r.Len(4)))})
			}
			if r.Chance(1, 3) && len(s.Chunks) < 31 { // a further chunk without CNAME behind it
				s.Chunks = append(s.Chunks, rtcp.SourceDescriptionChunk{Source: uint32(r.Bits(32, 32)), Items: []rtcp.SourceDescriptionItem{{Type: rtcp.SDESEmail, Text: "e"}}})
			}
			p = s
		case 3: // SDES without CNAME
			s := genValue(r, "SDES", false).(*rtcp.SourceDescription)
			for ci := range s.Chunks {
				for ii := range s.Chunks[ci].Items {
					if s.Chunks[ci].Items[ii].Type == rtcp.SDESCNAME {
						s.Chunks[ci].Items[ii].Type = rtcp.SDESName
					}
				}
			}
			p = s
		case 4:
			p = &rtcp.SourceDescription{}
		case 5:
			p = genValue(r, "BYE", false)
		case 6:
			p = genValue(r, []string{"PLI", "NACK", "REMB", "FIR", "RRR", "TWCC", "CCFB", "SLI"}[r.Intn(8)], false)
		case 7:
			p = genValue(r, "APP", false)
		case 8:
			p = genValue(r, "XR", false)
		default:
			p = genValue(r, "RAW", false)
		}
		ps = append(ps, p)
	}
	return ps
}

func rembWire(r *Rng, exp, mant int, nss int) []byte {
	b := make([]byte, 20)
	b[0], b[1] = 0x8f, 206
	binary.BigEndian.PutUint16(b[2:], uint16(4+nss))
	binary.BigEndian.PutUint32(b[4:], uint32(r.U64()))
	copy(b[12:], "REMB")
	b[16] = byte(nss)
	b[17] = byte(exp<<2) | byte(mant>>16)
	b[18] = byte(mant >> 8)
	b[19] = byte(mant)
	for i := 0; i < nss; i++ {
		b = binary.BigEndian.AppendUint32(b, uint32(r.U64()))
	}
	return b
}

// shardIdx/shardN: the exhaustive parts of the thorough tier are partitioned over the shards of one run
var shardIdx, shardN = 0, 1

var ownCtr int

// own: is the next item of an exhaustive enumeration this shard's?
func own() bool {
	ownCtr++
	return ownCtr%shardN == shardIdx
}

func genOps(prop string, r *Rng, n int, tier string, emit func(string)) {
	thorough := tier == "thorough"
	quickTier = !thorough
	switch prop {
	case "C01":
		for i := 0; i < n; i++ {
			switch r.Intn(12) {
			case 0, 1, 2, 3, 4, 5:
				k := decKinds[r.Intn(len(decKinds))]
				if r.Chance(1, 4) {
					emit("decp." + k + " " + hx(genDecodeInput(r, k)))
				} else {
					emit("dec." + k + " " + hx(genDecodeInput(r, k)))
				}
			case 6:
				k := subDecKinds[r.Intn(len(subDecKinds))]
				var b []byte
				switch k {
				case "RLC", "SVC":
					b = r.Bytes(r.Pick(0, 1, 2, 2, 2, 2, 3))
				case "DELTA":
					b = r.Bytes(r.Pick(0, 1, 1, 2, 2, 3))
				case "HDR":
					b = r.Bytes(r.Pick(0, 3, 4, 4, 5, 8))
					if len(b) > 0 && r.Chance(3, 4) {
						b[0] = b[0]&0x3f | 0x80
					}
				case "RREP":
					b = r.Bytes(r.Pick(0, 23, 24, 24, 25, 48))
				case "ITEM":
					b = r.Bytes(r.Len(8, 0, 1, 2))
					if len(b) > 1 {
						b[1] = byte(r.Pick(0, len(b)-2, len(b)-1, len(b), 255))
					}
				case "CHUNK":
					b = genSdesBytes(r)
					if len(b) >= 4 {
						b = b[4:]
					}
					if r.Chance(1, 4) {
						b = mutate(r, b)
					}
				}
				emit("dec." + k + " " + hx(b))
			case 7, 8:
				emit("udec " + hx(genDatagram(r)))
			case 9:
				emit("udecp " + hx(genDatagram(r)))
			case 10:
				emit("dec.COMPOUND " + hx(genDatagram(r)))
			case 11:
				if r.Bool() {
					b := genCcfbBytes(r)
					if len(b) > 8 {
						b = b[8:]
					}
					emit("ccfbblock.dec " + hx(b))
				} else {
					emit("ccfbmetric.dec " + hx(r.Bytes(r.Pick(0, 1, 2, 2, 2, 3))))
				}
			}
		}
		for i := 0; i < n/12; i++ {
			emit(genReuseOp(r))
		}
		{ // many small frames that each announce much: any per-frame over-allocation adds up within one datagram
			tw := []byte{0x8f, 205, 0, 8, 0, 0, 0, 1, 0, 0, 0, 2, 0, 1, 0xff, 0xf8, 0, 0, 1, 0}
			for i := 0; i < 8; i++ {
				tw = append(tw, 0x1f, 0xff) // run length 8191, not received: 65528 statuses, no deltas
			}
			for _, reps := range []int{50, 200} {
				var d []byte
				for j := 0; j < reps; j++ {
					d = append(d, tw...)
				}
				emit("udec " + hx(d))
			}
			rb := rembWire(r, 3, 5, 0)
			var d []byte
			for j := 0; j < 300; j++ {
				d = append(d, rb...)
			}
			emit("udec " + hx(d))
			// thousands of header-only frames: work or memory per frame that grows with the rest of the datagram shows
			for _, f := range [][]byte{{0x80, 192, 0, 0}, {0x80, 203, 0, 0}} {
				d = nil
				for j := 0; j < 4000; j++ {
					d = append(d, f...)
				}
				emit("udec " + hx(d))
			}
		}
		for _, f := range bigTwccFrames() {
			emit("dec.TWCC " + hx(f))
			emit("udec " + hx(f))
		}
		// every prefix of one valid frame per kind; (PT,count) rows behind tiny bodies
		for _, k := range decKinds {
			f := validFrame(r, k)
			if len(f) > 96 {
				f = f[:96]
			}
			for j := 0; j <= len(f); j++ {
				emit("dec." + k + " " + hx(f[:j]))
			}
		}
		for _, k := range decKinds {
			for _, l := range lengthEdges {
				for _, sz := range []int{8, 12, 16, 20, 24} {
					f := validFrame(r, k)
					if len(f) < sz {
						f = append(f, make([]byte, sz-len(f))...)
					}
					f = f[:sz]
					binary.BigEndian.PutUint16(f[2:], uint16(l))
					emit("dec." + k + " " + hx(f))
				}
			}
		}
		if thorough {
			for _, sz := range []int{1200, 1500, 9000, 65532, 65536, 65540, 131072, 262140} {
				for _, k := range []string{"TWCC", "CCFB", "SDES", "XR", "SR", "FIR", "NACK", "SLI", "RAW", "APP"} {
					pf := map[string][2]int{"TWCC": {205, 15}, "CCFB": {205, 11}, "SDES": {202, 1}, "XR": {207, 0}, "SR": {200, 0}, "FIR": {206, 4}, "NACK": {205, 1}, "SLI": {205, 2}, "RAW": {199, 0}, "APP": {204, 0}}[k]
					// the model's list-indexing decoders are quadratic: the entry-walking kinds stop at the 16-bit boundary
					slow := k == "TWCC" || k == "CCFB" || k == "XR" || k == "FIR" || k == "NACK" || k == "SLI"
					if (slow && sz > 65540) || !own() {
						continue
					}
					b := behindHeader(r, pf[0], pf[1], sz-4)
					binary.BigEndian.PutUint16(b[2:], uint16(sz/4-1))
					emit("dec." + k + " " + hx(b))
					emit("udec " + hx(b))
				}
			}
		}
	case "C02", "C09":
		for i := 0; i < n; i++ {
			k := allKinds[r.Intn(len(allKinds))]
			p := genValue(r, k, prop == "C02" && r.Chance(1, 7))
			switch r.Intn(9) {
			case 8: // CompoundPacket is a packet type too: its own Marshal/Unmarshal pair
				emit("crt " + packetsTokens(genCompoundSeq(r)))
				if prop == "C02" {
					emit(genReuseOp(r))
				}
				if r.Chance(1, 3) {
					q := genValue(r, "REMB", false).(*rtcp.ReceiverEstimatedMaximumBitrate)
					emit(fmt.Sprintf("rembto %s %d", bodyTokens(q), q.MarshalSize()+r.Pick(0, 0, 4)))
				}
			case 7: // a forwarder inserting a packet of its own
				emit("relay " + hx(genRelayDatagram(r)))
			case 6: // own decoder round trip
				emit(opWith("rto", p))
			case 0:
				emit(encOp(p))
				if r.Bool() {
					emit(opWith("enccap", p))
				}
			case 1: // own decoder on own output
				if b, err := safeMarshal(p); err == nil {
					emit("dec." + k + " " + hx(b))
				} else {
					emit(encOp(p))
				}
			case 2: // full chain on a list
				ps := genPacketList(r, false, 4)
				emit("rt " + packetsTokens(ps))
			case 3:
				emit("rt 1 " + packetTokens(p))
			case 4: // re-encode accepted datagrams reached by mutation
				d := genDatagram(r)
				emit("reenc " + hx(d))
			case 5:
				f := genDecodeInput(r, k)
				if r.Chance(1, 8) { // REMB with every kind of exponent/mantissa pair, normalised or not
					f = rembWire(r, r.Intn(64), r.Pick(0, 0, 1, 2, 0x3FFFF, int(r.Bits(18, 18))), r.Len(3, 0))
				}
				emit("reenc " + hx(f))
			}
		}
		{ // deterministic boundary items of this mix (not left to chance)
			// TWCC whose large (two-octet) deltas hold small values, through encode and through decode-encode-decode
			for _, d := range []int64{250, 250 * 5, 250 * 255, 250 * 256, -250, 0} {
				t := twccWithDelta(2, d)
				emit("rt 1 " + packetTokens(t))
				// the same packet written out by hand (not by the encoder under test)
				b := []byte{0x8f, 205, 0, 6, 0, 0, 0, 1, 0, 0, 0, 2, 0, 3, 0, 3, 0, 0, 4, 5, 0x40, 0x03}
				for _, q := range []int64{1, d / 250, 2} {
					b = binary.BigEndian.AppendUint16(b, uint16(int16(q)))
				}
				emit("reenc " + hx(b))
			}
			// frames of exactly 262144 octets (length field 0xFFFF) through the datagram path
			raw := behindHeader(r, 199, int(r.Bits(5, 5)), 262144-4)
			binary.BigEndian.PutUint16(raw[2:], 0xFFFF)
			rp := rtcp.RawPacket(raw)
			emit("rt 1 " + packetTokens(&rp))
			emit("reenc " + hx(raw))
			rr := &rtcp.ReceiverReport{SSRC: uint32(r.U64()), Reports: []rtcp.ReceptionReport{genRRep(r, false)}, ProfileExtensions: r.Bytes(262144 - 32)}
			emit("rt 1 " + packetTokens(rr))
		}
		if prop == "C09" { // a packet the decoder accepts and the encoder refuses, followed by one that marshals
			nk := hdrBytes(false, 1, 205, 0)
			nk = append(nk, 0, 0, 0, 1, 0, 0, 0, 2)
			for j := 0; j < 254; j++ {
				nk = append(nk, byte(j>>8), byte(j), 0, 0)
			}
			nk = finish(nk)
			emit("reenc " + hx(append(nk, validFrame(r, "PLI")...)))
			emit("reenc " + hx(append(append(validFrame(r, "BYE"), nk...), validFrame(r, "RRR")...)))
		}
		if prop == "C09" {
			// status vectors whose symbols are all alike (a run-length chunk would say the same: the decoded chunk kind must survive)
			for _, c := range [][2]int{{0xBFFF, 14}, {0xD555, 7}, {0xEAAA, 7}, {0xFFFF, 7}, {0x8000, 14}} {
				body := []byte{0, 0, 0, 1, 0, 0, 0, 2, 0, 1, 0, byte(c[1]), 0, 0, 3, 4, byte(c[0] >> 8), byte(c[0])}
				nd, w := 0, 1
				switch c[0] {
				case 0xBFFF, 0xD555:
					nd = c[1]
				case 0xEAAA:
					nd, w = c[1], 2
				}
				for j := 0; j < nd*w; j++ {
					body = append(body, byte(1+j%3))
				}
				f := append([]byte{0x8f, 205, 0, 0}, body...)
				if pad := (4 - len(f)%4) % 4; pad > 0 {
					f[0] |= 0x20
					for j := 0; j < pad-1; j++ {
						f = append(f, 0)
					}
					f = append(f, byte(pad))
				}
				binary.BigEndian.PutUint16(f[2:], uint16(len(f)/4-1))
				emit("reenc " + hx(f))
			}
			// RLE blocks that end in several terminating null chunks, and with a null chunk in the middle (RFC 3611 allows both)
			for _, ch := range [][]uint16{{0x4006, 0x8765, 0, 0}, {0x4006, 0, 0, 0}, {0x4006, 0, 0x8765, 0xC001}, {0, 0}, {0x8001, 0x8000}} {
				for _, bt := range []byte{1, 2} {
					blk := []byte{bt, 0, 0, byte(2 + len(ch)/2), 0, 0, 0, 7, 0, 1, 0, 9}
					for _, c := range ch {
						blk = append(blk, byte(c>>8), byte(c))
					}
					x := append([]byte{0x80, 207, 0, 0, 0, 0, 0, 1}, blk...)
					x = append(x, 4, 0, 0, 2, 0, 0, 0, 1, 0, 0, 0, 2) // a receiver reference time block behind it
					binary.BigEndian.PutUint16(x[2:], uint16(len(x)/4-1))
					emit("reenc " + hx(x))
				}
			}
			// received packets with the P bit set, on types whose own encoder never sets it: whatever the decoder makes of the
			// last octets, the re-encoding must decode to the same
			sr := append([]byte{0xa0, 200, 0, 8, 0, 0, 0, 1}, make([]byte, 20)...)
			sr = append(sr, 0xde, 0xad, 0xbe, 0xef, 1, 0, 0, 3)
			emit("reenc " + hx(sr))
			for i := 0; i < 40; i++ {
				k := []string{"SR", "RR", "SDES", "BYE", "NACK", "PLI", "FIR", "XR", "REMB", "RRR"}[r.Intn(10)]
				f := validFrame(r, k)
				if k == "SR" || k == "RR" {
					f = append(f, r.Bytes(4*(1+r.Intn(2)))...)
					binary.BigEndian.PutUint16(f[2:], uint16(len(f)/4-1))
				}
				f[0] |= 0x20
				f[len(f)-1] = byte(r.Pick(0, 1, 2, 3, 4, 5, 8, len(f)))
				emit("reenc " + hx(f))
			}
		}
		if prop == "C09" && thorough && own() {
			// one XR loss-RLE block of 65536 chunks (128 KiB): block lengths beyond 16 bits of octets and of chunks
			blk := []byte{1, 0, 0x80, 2, 0, 0, 0, 7, 0, 1, 0, 2}
			for j := 0; j < 65536; j++ {
				blk = append(blk, 0x40, 1)
			}
			x := append([]byte{0x80, 207, 0, 0, 0, 0, 0, 9}, blk...)
			binary.BigEndian.PutUint16(x[2:], uint16(len(x)/4-1))
			emit("reenc " + hx(x))
		}
		if prop == "C09" && !thorough {
			pf := [][2]int{{206, 4}, {205, 1}}[r.Intn(2)]
			b := behindHeader(r, pf[0], pf[1], 65540-4)
			binary.BigEndian.PutUint16(b[2:], uint16(65540/4-1))
			emit("reenc " + hx(b))
		}
		if prop == "C02" {
			for i := 0; i < 3; i++ { // status count just below 65536 with a final vector chunk running past it
				t := genTwccWrapValue(r)
				emit("rt 1 " + packetTokens(t))
				emit(opWith("rto", t))
			}
			for _, k := range bigKinds {
				// the model's CCFB/XR decoders index lists (quadratic on 100 KiB inputs): thorough tier only
				slow := k == "CCFB" || k == "XR"
				if (thorough && own()) || (!thorough && !slow && r.Chance(1, 3)) {
					p := genBig(r, k)
					emit(opWith("rto", p))
					if !slow {
						emit("rt 1 " + packetTokens(p))
					}
				}
			}
		}
		if thorough {
			for _, sz := range []int{65536, 65540, 131072, 262140} {
				for _, pf := range [][2]int{{205, 11}, {207, 0}, {202, 0}, {200, 0}, {201, 0}, {204, 0}, {199, 0}, {206, 4}, {205, 1}} {
					if ((pf[0] == 205 || pf[0] == 207 || pf[0] == 206) && sz > 65540) || !own() {
						continue
					}
					b := behindHeader(r, pf[0], pf[1], sz-4)
					binary.BigEndian.PutUint16(b[2:], uint16(sz/4-1))
					for j := 8; j < len(b)-4 && pf[0] != 204; j++ {
						b[j] = 0
					}
					emit("reenc " + hx(b))
				}
			}
		}
	case "C03":
		for i := 0; i < n; i++ {
			k := allKinds[r.Intn(len(allKinds))]
			emit(opWith("encspec", dirtyXRHeaders(r, genValue(r, k, false))))
		}
		for _, dl := range []int{65520, 65521, 65522, 65523} { // the largest application-defined packets: exactly 65536 octets on the wire
			emit(opWith("encspec", &rtcp.ApplicationDefined{SSRC: 1, Name: "name", Data: r.Bytes(dl)}))
		}
		for i := 0; i < n/40; i++ { // Marshal of a list, CompoundPacket.Marshal
			emit("cenc " + packetsTokens(genCompoundSeq(r)))
			var ps []rtcp.Packet
			for k := 1 + r.Intn(4); k > 0; k-- {
				ps = append(ps, genValue(r, allKinds[r.Intn(len(allKinds))], false))
			}
			emit("uenc " + packetsTokens(ps))
		}
		for i := 0; i < n/40; i++ { // the other exported encoders: MarshalTo into a used buffer, Marshal of a decoded list
			q := genValue(r, "REMB", false)
			emit(fmt.Sprintf("rembto %s %d", bodyTokens(q), q.MarshalSize()+r.Pick(0, 0, 4)))
			emit("relay " + hx(genRelayDatagram(r)))
		}
		for _, k := range bigKinds {
			if thorough || r.Chance(1, 3) {
				emit(opWith("encspec", genBig(r, k)))
			}
		}
	case "C04":
		{ // counted strings are not NUL-terminated: a text ending in 0x00 is a value like any other
			it := func(t rtcp.SDESType, s string) rtcp.SourceDescriptionItem {
				return rtcp.SourceDescriptionItem{Type: t, Text: s}
			}
			for _, v := range []*rtcp.SourceDescription{
				{Chunks: []rtcp.SourceDescriptionChunk{{Source: 1, Items: []rtcp.SourceDescriptionItem{it(1, "ab\x00"), it(2, "xy")}}}},
				{Chunks: []rtcp.SourceDescriptionChunk{{Source: 1, Items: []rtcp.SourceDescriptionItem{it(1, "abcde\x00")}}, {Source: 2, Items: []rtcp.SourceDescriptionItem{it(1, "c")}}}},
				{Chunks: []rtcp.SourceDescriptionChunk{{Source: 1, Items: []rtcp.SourceDescriptionItem{it(1, "\x00"), it(3, "\x00\x00")}}}},
			} {
				emit(opWith("rto", v))
				emit("rt 1 " + packetTokens(v))
			}
			emit(opWith("rto", &rtcp.Goodbye{Sources: []uint32{1}, Reason: "bye\x00"}))
		}
		for i := 0; i < n/20; i++ { // CompoundPacket.Unmarshal: canonical members, and members in other valid encodings
			if b, err := rtcp.Marshal(genCompoundSeq(r)); err == nil && r.Bool() {
				emit("cdec " + hx(b))
				continue
			}
			d := []byte{0x80, 201, 0, 1, 0, 0, 0, 9, 0x81, 202, 0, 3, 0, 0, 0, 9, 1, 2, 'a', 'b', 0, 0, 0, 0}
			for k := 1 + r.Intn(3); k > 0; k-- {
				f := strings.Fields(genVariantOp(r))
				if len(f) >= 2 && f[1] != "-" {
					if b, err := hex.DecodeString(f[1]); err == nil && countFrames(b) >= 1 {
						d = append(d, b...)
					}
				}
			}
			emit("cdec " + hx(d))
		}
		for i := 0; i < 3; i++ { // status count just below 65536 with a final vector chunk running past it
			t := genTwccWrapValue(r)
			emit(opWith("rto", t))
			emit("rt 1 " + packetTokens(t))
		}
		for i := 0; i < n/8; i++ { // the type's decoder on the type's own (RFC) encoding of any well-formed value
			k := allKinds[r.Intn(len(allKinds))]
			emit(opWith("rto", genValue(r, k, false)))
		}
		for i := 0; i < n; i++ {
			if r.Chance(1, 3) {
				emit(genDecvOp(r))
			} else {
				emit(genVariantOp(r))
			}
		}
		if thorough {
			for w := 0; w < 3; w++ {
				if own() {
					emit(genBigDecvOp(r, w))
				}
			}
		} else {
			for i := 0; i < n/20; i++ {
				emit(genReuseOp(r))
			}
			for i := 0; i < n/40; i++ { // count-inflated first frame inside a datagram
				k := []string{"SR", "RR", "SDES", "BYE"}[r.Intn(4)]
				b := validFrame(r, k)
				c := int(b[0] & 31)
				if c < 31 {
					b[0] = b[0]&0xE0 | byte(c+1)
				}
				emit("udec " + hx(append(b, validFrame(r, allKinds[r.Intn(len(allKinds))])...)))
			}
			for i := 0; i < n/80; i++ { // SR/RR whose extension is a few octets short of one more report block, count bumped
				var p rtcp.Packet
				ext := r.Bytes(r.Pick(20, 20, 21, 23, 16, 4))
				if r.Bool() {
					p = &rtcp.SenderReport{SSRC: uint32(r.U64()), ProfileExtensions: ext}
				} else {
					p = &rtcp.ReceiverReport{SSRC: uint32(r.U64()), ProfileExtensions: ext}
				}
				if b, err := safeMarshal(p); err == nil {
					b[0] = b[0]&0xE0 | 1
					k := kindName(p)
					emit("dec." + k + " " + hx(b))
					emit("udec " + hx(append(b, validFrame(r, allKinds[r.Intn(len(allKinds))])...)))
				}
			}
			for _, nss := range []int{58, 59, 64, 200, 255} {
				emit("dec.REMB " + hx(rembWire(r, r.Intn(64), 1+r.Intn(0x3FFFF), nss)))
			}
			emit(genBigDecvOp(r, 1)) // FIR: the cheapest of the three in the model's list-indexing decoder
		}
		{ // an APP packet of 262144 octets: length field 0xFFFF
			v := &rtcp.ApplicationDefined{SubType: uint8(r.Bits(5, 5)), SSRC: uint32(r.U64()), Name: string(r.Bytes(4)), Data: r.Bytes(262144 - 12)}
			b := hdrBytes(false, int(v.SubType), 204, 0)
			b = binary.BigEndian.AppendUint32(b, v.SSRC)
			b = append(b, v.Name...)
			b = append(b, v.Data...)
			emit("decv.APP " + hx(finish(b)) + " | " + bodyTokens(v))
		}
	case "C05":
		for i := 0; i < n/20; i++ {
			emit("cenc " + packetsTokens(genCompoundSeq(r)))
		}
		for i := 0; i < n; i++ {
			k := allKinds[r.Intn(len(allKinds))]
			p := dirtyXRHeaders(r, genValue(r, k, r.Chance(1, 3)))
			switch r.Intn(5) {
			case 0:
				emit(encOp(p))
			case 1:
				emit(opWith("size", p))
			case 2:
				if contains(hdrKinds, k) {
					emit(opWith("hdr", p))
				} else {
					emit(opWith("framed", p))
				}
			case 3:
				if k == "TWCC" || k == "CCFB" {
					emit(opWith("len", p))
				} else {
					emit(opWith("framed", p))
				}
			case 4:
				if r.Bool() {
					emit("csize " + packetsTokens(genPacketList(r, false, 4)))
					if r.Chance(1, 4) { // members whose own size is not a multiple of four (a caller-built RawPacket can be)
						raw := rtcp.RawPacket(r.Bytes(r.Pick(5, 6, 7, 9)))
						emit("csize " + packetsTokens(append(genPacketList(r, false, 3), &raw)))
					}
				} else {
					emit(opWith("framed", p))
				}
			}
			if r.Chance(1, 25) {
				w := &W{}
				putItem(w, genItem(r, r.Bool()))
				emit("itemlen " + w.String())
			}
		}
		for _, c := range []int{31, 32, 63, 64, 95, 96, 127, 128, 160, 192, 223, 224, 255} { // counts whose low bits look fine
			emit(fmt.Sprintf("framed.APP %d 1 4e414d45 -", c))
			t := twccWithDelta(1, 250)
			t.Header.Count = uint8(c)
			emit(opWith("framed", t))
			emit(fmt.Sprintf("enc.HDR 0 %d 200 1", c))
		}
		for _, body := range []int{0, 0, 4, 8} { // RawPacket.Header(): the accessor decodes the packet's own first octets
			b := hdrBytes(r.Bool(), int(r.Bits(5, 5)), r.Pick(192, 199, 208, 209), body/4)
			b = append(b, r.Bytes(body)...)
			raw := rtcp.RawPacket(b)
			emit(opWith("hdr", &raw))
			emit(opWith("framed", &raw))
		}
		reps := 1
		if thorough {
			reps = 4
		}
		for ; reps > 0; reps-- {
			for _, k := range bigKinds {
				p := genBig(r, k)
				emit(opWith("framed", p))
				if contains(hdrKinds, k) {
					emit(opWith("hdr", p))
				}
				if k == "TWCC" || k == "CCFB" {
					emit(opWith("len", p))
				}
			}
			for _, k := range wrapKinds {
				for j := 0; j < 4; j++ {
					p := genCountWrap(r, k)
					emit(opWith("framed", p))
					emit(opWith("hdr", p))
				}
			}
		}
	case "C06":
		{ // 16384 header-only frames (65536 octets): the concatenation law has no bound on the number of frames
			var d []byte
			for j := 0; j < 16384; j++ {
				d = append(d, 0x80, 192, 0, 0)
			}
			emit("udec " + hx(d))
		}
		for i := 0; i < n/25; i++ { // CompoundPacket.Unmarshal into a value that holds an earlier datagram's packets
			a, _ := rtcp.Marshal(genCompoundSeq(r))
			b, _ := rtcp.Marshal(genCompoundSeq(r))
			if len(a) == 0 || len(b) == 0 {
				continue
			}
			switch r.Intn(3) {
			case 0:
				emit("reuse.COMPOUND " + hx(a) + " " + hx(b))
			case 1: // the second datagram fails after its first frames
				emit("reuse.COMPOUND " + hx(a) + " " + hx(append(append([]byte{}, b...), 0x80, 200, 0, 9)))
			case 2:
				emit("reuse.COMPOUND " + hx(a) + " " + hx(b[:len(b)-r.Pick(1, 2, 4)]))
			}
		}
		for i := 0; i < n; i++ {
			d := genDatagram(r)
			if r.Bool() {
				emit("udec " + hx(d))
			} else {
				emit("udecp " + hx(d))
			}
			if r.Chance(1, 4) { // concatenation law: a, b, a||b
				a, b := genDatagram(r), genDatagram(r)
				emit("udec " + hx(a))
				emit("udec " + hx(b))
				emit("udec " + hx(append(append([]byte{}, a...), b...)))
			}
			if r.Chance(1, 3) {
				emit("concat " + hx(genDatagram(r)) + " " + hx(genDatagram(r)))
			}
			if r.Chance(1, 20) {
				emit("concat " + hx(genCcfbShort(r)) + " " + hx(validFrame(r, []string{"BYE", "PLI", "RR", "RAW"}[r.Intn(4)])))
			}
		}
	case "C07":
		// the dispatch table: every (PT,count) row; quick tier takes a seeded slice
		step := 1
		if !thorough {
			step = 13
		}
		for row := r.Intn(step); row < 8192; row += step {
			if thorough && !own() {
				continue
			}
			pt, cnt := row/32, row%32
			for v := 0; v < 3; v++ {
				b := behindHeader(r, pt, cnt, 4*r.Pick(0, 1, 2, 3, 4, 5, 6, 7))
				binary.BigEndian.PutUint16(b[2:], uint16(len(b)/4-1))
				emit("udec " + hx(b))
			}
		}
		for i := 0; i < n; i++ {
			t := decKinds[r.Intn(len(decKinds))]
			u := decKinds[r.Intn(len(decKinds))]
			emit("dec." + t + " " + hx(validFrame(r, u)))
			if r.Chance(1, 3) {
				emit("udec " + hx(validFrame(r, u)))
			}
			if r.Chance(1, 4) {
				emit("rt 1 " + packetTokens(genValue(r, allKinds[r.Intn(len(allKinds))], false)))
			}
			if r.Chance(1, 2) { // a frame shaped for decoder T but carrying another registered (packet type, FMT) pair
				f := validFrame(r, t)
				if len(f) >= 4 {
					pf := registeredPairs[r.Intn(len(registeredPairs))]
					f[1] = byte(pf[0])
					if pf[0] == 205 || pf[0] == 206 || r.Bool() {
						f[0] = f[0]&0xE0 | byte(pf[1])
					}
					emit("dec." + t + " " + hx(f))
				}
			}
			if r.Chance(1, 40) {
				b := polyglotRembTwcc(r)
				emit("dec.REMB " + hx(b))
				emit("dec.TWCC " + hx(b))
				emit("udec " + hx(b))
			}
		}
		for _, k := range []int{1, 253, 254, 65533, 65534, 65535} { // whatever Marshal accepts must come back as the same type
			v := &rtcp.TransportLayerNack{SenderSSRC: 1, MediaSSRC: 2}
			for j := 0; j < k; j++ {
				v.Nacks = append(v.Nacks, rtcp.NackPair{PacketID: uint16(j)})
			}
			emit("rt 1 " + packetTokens(v))
		}
		for i := 0; i < n/60; i++ {
			emit("relay " + hx(genRelayDatagram(r)))
		}
		for _, el := range []int{1, 2, 3, 5} { // extensions that need padding; packets of four octets
			emit("rt 1 " + packetTokens(&rtcp.SenderReport{SSRC: 1, ProfileExtensions: r.Bytes(el)}))
			emit("rt 1 " + packetTokens(&rtcp.ReceiverReport{SSRC: 1, ProfileExtensions: r.Bytes(el)}))
		}
		for _, k := range []string{"SDES", "BYE", "RR", "SR"} { // element counts whose low bits look legal
			for i := 0; i < 3; i++ {
				emit("rt 1 " + packetTokens(genCountWrap(r, k)))
			}
		}
		for _, n := range []int{256, 257, 271, 287} {
			v := &rtcp.SourceDescription{}
			for i := 0; i < n; i++ {
				v.Chunks = append(v.Chunks, rtcp.SourceDescriptionChunk{Source: uint32(i)})
			}
			emit("rt 1 " + packetTokens(v))
		}
		for _, pf := range [][2]int{{192, 0}, {199, 7}, {205, 3}, {206, 9}, {208, 0}, {255, 31}} { // unregistered frame first, in the middle, last
			raw := hdrBytes(false, pf[1], pf[0], 0)
			raw = finish(append(raw, r.Bytes(4*r.Intn(3))...))
			pli := []byte{0x81, 206, 0, 2, 0, 0, 0, 1, 0, 0, 0, 2}
			emit("udec " + hx(append(append([]byte{}, raw...), pli...)))
			emit("udec " + hx(append(append(append([]byte{}, pli...), raw...), pli...)))
			emit("udec " + hx(append(append([]byte{}, pli...), raw...)))
		}
		for i := 0; i < 12; i++ { // MarshalTo into buffers of the exact size and larger
			q := genValue(r, "REMB", false)
			emit(fmt.Sprintf("rembto %s %d", bodyTokens(q), q.MarshalSize()+r.Pick(0, 4, 64, 1480)))
		}
		for _, c := range [][2]int{{65534, 2}, {65532, 4}, {65535, 2}, {65530, 6}, {0, 16384}} { // CCFB blocks ending exactly at sequence number 65535
			blk := rtcp.CCFeedbackReportBlock{MediaSSRC: 7, BeginSequence: uint16(c[0])}
			for j := 0; j < c[1] && c[0]+j <= 65535; j++ {
				blk.MetricBlocks = append(blk.MetricBlocks, rtcp.CCFeedbackMetricBlock{Received: true, ECN: 1, ArrivalTimeOffset: uint16(j)})
			}
			emit("rt 1 " + packetTokens(&rtcp.CCFeedbackReport{SenderSSRC: 1, ReportBlocks: []rtcp.CCFeedbackReportBlock{blk}, ReportTimestamp: 9}))
		}
		{ // every registered (type, FMT) behind bodies of 0..20 octets of zeros and of ones: whatever comes back has that type
			for _, pf := range registeredPairs {
				for _, sz := range []int{0, 4, 8, 12, 16, 20} {
					for _, fill := range []byte{0, 0xff} {
						f := hdrBytes(false, pf[1], pf[0], sz/4)
						for j := 0; j < sz; j++ {
							f = append(f, fill)
						}
						emit("udec " + hx(f))
					}
				}
			}
			// a padded frame that is not the last one
			pli := []byte{0x81, 206, 0, 2, 0, 0, 0, 1, 0, 0, 0, 2}
			for _, f := range [][]byte{
				{0xa0, 204, 0, 4, 0, 0, 0, 1, 'n', 'a', 'm', 'e', 1, 2, 3, 4, 0, 0, 0, 4},
				{0xa0, 208, 0, 1, 0, 0, 0, 4},
				{0xa1, 201, 0, 1, 0, 0, 0, 1},
				{0xaf, 205, 0, 5, 0, 0, 0, 1, 0, 0, 0, 2, 0, 1, 0, 1, 0, 0, 0, 0, 0x20, 0x01, 0x04, 0x01},
			} {
				emit("udec " + hx(append(append([]byte{}, f...), pli...)))
				emit("udec " + hx(append(append(append([]byte{}, pli...), f...), pli...)))
			}
		}
		emit("rt 1 " + packetTokens(&rtcp.Goodbye{}))
		emit("rt 1 " + packetTokens(&rtcp.SourceDescription{}))
		emit("rt 2 " + packetTokens(&rtcp.Goodbye{}) + " " + packetTokens(&rtcp.SourceDescription{}))
		emit("udec 80c00000")
		emit("udec 83cd000080d00000")
		for _, pf := range registeredPairs { // 4-octet frames of every registered pair to every decoder
			f := hdrBytes(false, pf[1], pf[0], 0)
			for _, t := range decKinds {
				if thorough || r.Chance(1, 3) {
					emit("dec." + t + " " + hx(f))
				}
			}
		}
		{ // frames of unregistered types at the largest frame sizes (length field 0xFFFE, 0xFFFF)
			for _, words := range []int{0xFFFF, 0x10000} {
				b := behindHeader(r, r.Pick(192, 199, 208), int(r.Bits(5, 5)), 4*words-4)
				binary.BigEndian.PutUint16(b[2:], uint16(words-1))
				emit("udec " + hx(b))
				emit("dec.RAW " + hx(b))
			}
		}
	case "C08":
		for _, ty := range []int{0, 1, 205, 255} { // the caller's TWCC header: a count above 31 cannot be encoded whatever the other fields say
			for _, c := range []int{15, 31, 32, 40, 255} {
				for _, pad := range []bool{false, true} {
					t := twccWithDelta(1, 250)
					t.Header.Type, t.Header.Count, t.Header.Padding = rtcp.PacketType(ty), uint8(c), pad
					emit(encOp(t))
				}
			}
		}
		for i := 0; i < n; i++ {
			k := allKinds[r.Intn(len(allKinds))]
			emit(encOp(genValue(r, k, true)))
		}
		for _, op := range boundaryOps() {
			emit(op)
		}
		for _, k := range wrapKinds {
			for j := 0; j < 6; j++ {
				emit(encOp(genCountWrap(r, k)))
			}
		}
		for i := 0; i < n/40; i++ {
			q := genValue(r, "REMB", true).(*rtcp.ReceiverEstimatedMaximumBitrate)
			emit(fmt.Sprintf("rembto %s %d", bodyTokens(q), q.MarshalSize()+r.Pick(0, 4)))
		}
		for i := 0; i < n/30; i++ { // lists: a member beyond a limit anywhere in the list must fail the whole Marshal
			ps := genPacketList(r, false, 3)
			bad := genValue(r, allKinds[r.Intn(len(allKinds))], true)
			at := r.Intn(len(ps) + 1)
			ps = append(ps[:at], append([]rtcp.Packet{bad}, ps[at:]...)...)
			emit("uenc " + packetsTokens(ps))
			if r.Chance(1, 4) {
				emit("cenc " + packetsTokens(append([]rtcp.Packet{genValue(r, "RR", false), rtcp.NewCNAMESourceDescription(1, "c")}, ps...)))
			}
		}
		for _, k := range []int{253, 254, 65533, 65534, 65535} { // NACK lists around the 8-bit and the 16-bit length limits
			v := &rtcp.TransportLayerNack{SenderSSRC: 1, MediaSSRC: 2}
			for j := 0; j < k; j++ {
				v.Nacks = append(v.Nacks, rtcp.NackPair{PacketID: uint16(j)})
			}
			emit(encOp(v))
		}
		for _, t := range []string{"-", "00", "6162"} { // SDES items of type 0: alone, and inside a chunk and a packet
			emit("enc.ITEM 0 " + t)
			emit("enc.CHUNK 7 2 0 " + t + " 1 6162")
			emit("enc.SDES 1 7 2 0 " + t + " 1 6162")
		}
		for _, k := range bigKinds {
			if thorough || r.Chance(1, 2) {
				emit(encOp(genBig(r, k)))
			}
		}
	case "C10":
		{ // compounds led by several receiver reports of one sender: the first member's list stays the first member's
			rr := func(ssrc uint32, srcs ...uint32) *rtcp.ReceiverReport {
				v := &rtcp.ReceiverReport{SSRC: ssrc}
				for _, x := range srcs {
					v.Reports = append(v.Reports, rtcp.ReceptionReport{SSRC: x})
				}
				return v
			}
			sd := &rtcp.SourceDescription{Chunks: []rtcp.SourceDescriptionChunk{{Source: 1, Items: []rtcp.SourceDescriptionItem{{Type: rtcp.SDESCNAME, Text: "c"}}}}}
			for _, ps := range [][]rtcp.Packet{{rr(1, 10, 11), rr(1, 12), sd}, {rr(1), rr(1, 12, 13), sd}, {rr(1, 10), rr(2, 12), sd}, {rr(1, 10), rr(1), rr(1, 14), sd}} {
				emit("crt " + packetsTokens(ps))
				emit("cdst " + packetsTokens(ps))
			}
			sd2 := &rtcp.SourceDescription{Chunks: []rtcp.SourceDescriptionChunk{{Source: 0x902f9e2e, Items: []rtcp.SourceDescriptionItem{{Type: 1, Text: "a@b"}}}, {Source: 0, Items: []rtcp.SourceDescriptionItem{{Type: 1, Text: "ab"}}}, {Source: 0}}}
			emit("rtdst 1 " + packetTokens(sd2))
		}
		for i := 0; i < n/30; i++ {
			emit("crt " + packetsTokens(genCompoundSeq(r)))
		}
		for i := 0; i < n; i++ {
			k := allKinds[r.Intn(len(allKinds))]
			p := dirtyXRHeaders(r, genValue(r, k, false))
			emit(opWith("dst", p))
			if r.Chance(1, 3) {
				emit("rtdst 1 " + packetTokens(p))
			}
			if r.Chance(1, 8) { // the list handed out for one packet must survive decoding another into the same value
				emit("dst2." + k + " " + hx(validFrame(r, k)) + " " + hx(validFrame(r, k)))
			}
			if r.Chance(1, 6) {
				emit("cdst " + packetsTokens(genCompoundSeq(r)))
			}
		}
	case "C11":
		{ // the first CNAME is the first in wire order, whichever chunk carries the sender's SSRC; an item of type 0 is no terminator
			it := func(ty rtcp.SDESType, t string) rtcp.SourceDescriptionItem {
				return rtcp.SourceDescriptionItem{Type: ty, Text: t}
			}
			sr := &rtcp.SenderReport{SSRC: 0x22222222}
			rrr := &rtcp.ReceiverReport{SSRC: 0x22222222}
			sd := &rtcp.SourceDescription{Chunks: []rtcp.SourceDescriptionChunk{
				{Source: 0x11111111, Items: []rtcp.SourceDescriptionItem{it(rtcp.SDESCNAME, "first@a")}},
				{Source: 0x22222222, Items: []rtcp.SourceDescriptionItem{it(rtcp.SDESCNAME, "second@b")}}}}
			sd0 := &rtcp.SourceDescription{Chunks: []rtcp.SourceDescriptionChunk{{Source: 1, Items: []rtcp.SourceDescriptionItem{{}, it(rtcp.SDESCNAME, "user@host")}}}}
			sdn := &rtcp.SourceDescription{Chunks: []rtcp.SourceDescriptionChunk{{Source: 1, Items: []rtcp.SourceDescriptionItem{it(rtcp.SDESName, "n"), it(rtcp.SDESCNAME, "c"), it(rtcp.SDESTool, "t")}}}}
			for _, ps := range [][]rtcp.Packet{{sr, sd}, {rrr, sd}, {rrr, rrr, sd}, {sr, sd0}, {rrr, sdn}} {
				for _, op := range []string{"cval", "ccname", "cenc", "crt"} {
					emit(op + " " + packetsTokens(ps))
				}
				if b, err := rtcp.Marshal(ps); err == nil {
					emit("cdec " + hx(b))
				}
			}
		}
		{ // members of unaligned size (caller-built RawPackets) in the middle and at the end: Marshal is Validate plus the members
			rr := &rtcp.ReceiverReport{SSRC: 1}
			sd := &rtcp.SourceDescription{Chunks: []rtcp.SourceDescriptionChunk{{Source: 1, Items: []rtcp.SourceDescriptionItem{{Type: rtcp.SDESCNAME, Text: "c"}}}}}
			bye := &rtcp.Goodbye{Sources: []uint32{1}}
			for _, n := range []int{5, 6, 7, 9} {
				raw := rtcp.RawPacket(append([]byte{0x80, 199, 0, 1}, make([]byte, n-4)...))
				for _, ps := range [][]rtcp.Packet{{rr, sd, &raw, bye}, {rr, sd, bye, &raw}, {rr, sd, &raw, &raw}} {
					emit("cenc " + packetsTokens(ps))
					emit("cval " + packetsTokens(ps))
				}
			}
			sd2 := &rtcp.SourceDescription{Chunks: []rtcp.SourceDescriptionChunk{{Source: 1, Items: []rtcp.SourceDescriptionItem{{Type: rtcp.SDESCNAME, Text: "c"}}}, {Source: 2, Items: []rtcp.SourceDescriptionItem{{Type: rtcp.SDESName, Text: "n"}}}, {Source: 3}}}
			for _, op := range []string{"cval", "cenc", "ccname", "crt"} {
				emit(op + " " + packetsTokens([]rtcp.Packet{rr, sd2}))
			}
		}
		{ // a caller-built RawPacket whose type octet says SR/RR is still not an SR/RR
			sd := &rtcp.SourceDescription{Chunks: []rtcp.SourceDescriptionChunk{{Source: 1, Items: []rtcp.SourceDescriptionItem{{Type: rtcp.SDESCNAME, Text: "c"}}}}}
			for _, pt := range []byte{200, 201} {
				raw := rtcp.RawPacket([]byte{0x80, pt, 0, 1, 0, 0, 0, 1})
				for _, op := range []string{"cval", "cenc", "ccname"} {
					emit(op + " " + packetsTokens([]rtcp.Packet{&raw, sd}))
					emit(op + " " + packetsTokens([]rtcp.Packet{&raw, sd, &rtcp.Goodbye{Sources: []uint32{1}}}))
				}
			}
		}
		{ // a padded APP and an over-long BYE inside a valid compound
			head := []byte{0x80, 201, 0, 1, 0, 0, 0, 9, 0x81, 202, 0, 3, 0, 0, 0, 9, 1, 2, 'a', 'b', 0, 0, 0, 0}
			app := []byte{0xa0, 204, 0, 4, 0, 0, 0, 1, 'n', 'a', 'm', 'e', 1, 2, 3, 4, 0, 0, 0, 4}
			app8 := []byte{0xa0, 204, 0, 5, 0, 0, 0, 1, 'n', 'a', 'm', 'e', 1, 2, 3, 4, 0x80, 203, 0, 0, 0, 0, 0, 8}
			bye := []byte{0x81, 203, 0, 3, 0, 0, 0, 7, 0, 0, 0, 0, 0, 0, 0, 0}
			tail := []byte{0x81, 203, 0, 1, 0, 0, 0, 5}
			for _, m := range [][]byte{app, app8, bye} {
				emit("cdec " + hx(append(append([]byte{}, head...), m...)))
				emit("cdec " + hx(append(append(append([]byte{}, head...), m...), tail...)))
			}
		}
		for i := 0; i < n; i++ {
			ps := genCompoundSeq(r)
			tk := packetsTokens(ps)
			switch r.Intn(6) {
			case 0:
				emit("cval " + tk)
			case 1:
				emit("ccname " + tk)
			case 2:
				emit("cenc " + tk)
			case 3:
				if b, err := rtcp.Marshal(ps); err == nil {
					switch r.Intn(4) {
					case 0: // 1-3 stray octets behind the last packet
						b = append(b, r.Bytes(1+r.Intn(3))...)
					case 1: // a truncated further frame
						f := validFrame(r, allKinds[r.Intn(len(allKinds))])
						b = append(b, f[:r.Intn(len(f))]...)
					}
					emit("cdec " + hx(b))
					if r.Bool() {
						emit("crt " + tk)
					}
				} else {
					emit("cval " + tk)
				}
			case 4:
				emit("csize " + tk)
				if r.Chance(1, 4) { // members whose size is not a multiple of 4 (only a caller-built RawPacket can be)
					raw := rtcp.RawPacket(r.Bytes(r.Pick(5, 6, 7, 9)))
					qs := append(append([]rtcp.Packet{}, ps...), &raw)
					if r.Bool() {
						qs = append([]rtcp.Packet{&raw}, qs...)
					}
					emit("csize " + packetsTokens(qs))
				}
			case 5:
				emit("cdst " + tk)
			}
			if r.Chance(1, 20) {
				emit(fmt.Sprintf("newcname %d %s", r.Bits(32, 32), hx(r.Bytes(r.Len(6, 0, 255)))))
			}
			if r.Chance(1, 25) { // members in encodings the library's own Marshal never produces (padding, other chunkings)
				d := []byte{0x80, 201, 0, 1, 0, 0, 0, 9, 0x81, 202, 0, 3, 0, 0, 0, 9, 1, 2, 'a', 'b', 0, 0, 0, 0}
				for k := 1 + r.Intn(3); k > 0; k-- {
					f := strings.Fields(genVariantOp(r))
					if len(f) >= 2 && f[1] != "-" {
						if b, err := hex.DecodeString(f[1]); err == nil && countFrames(b) >= 1 {
							d = append(d, b...)
						}
					}
				}
				emit("cdec " + hx(d))
			}
			if r.Chance(1, 10) { // a valid compound with a member that cannot be marshalled
				qs := genCompoundSeq(r)
				bad := genValue(r, []string{"BYE", "SDES", "RR", "APP", "NACK", "REMB"}[r.Intn(6)], true)
				qs = append(qs, bad)
				emit("cenc " + packetsTokens(qs))
			}
			if r.Chance(1, 10) {
				emit("reuse.COMPOUND " + hx(genDatagram(r)) + " " + hx(genDatagram(r)))
				if b, err := rtcp.Marshal(ps); err == nil {
					if b2, err := rtcp.Marshal(genCompoundSeq(r)); err == nil {
						emit("reuse.COMPOUND " + hx(b) + " " + hx(b2))
					}
				}
			}
		}
		{ // compounds with a member of 64 KiB and more; a first frame whose length field claims 64 KiB and more
			big := &rtcp.SourceDescription{}
			for i := 0; i < 31; i++ {
				c := rtcp.SourceDescriptionChunk{Source: uint32(r.Bits(32, 32))}
				for j := 0; j < 10; j++ {
					c.Items = append(c.Items, rtcp.SourceDescriptionItem{Type: rtcp.SDESNote, Text: string(r.Bytes(250))})
				}
				big.Chunks = append(big.Chunks, c)
			}
			ps := []rtcp.Packet{genValue(r, "RR", false), rtcp.NewCNAMESourceDescription(uint32(r.Bits(32, 32)), "c"), big}
			emit("crt " + packetsTokens(ps))
			if b, err := rtcp.Marshal(ps); err == nil {
				emit("cdec " + hx(b))
			}
			for _, l := range []int{0x3fff, 0x4000, 0x4001, 0x8001, 0xffff} {
				rr := []byte{0x80, 201, byte(l >> 8), byte(l), 0, 0, 0, 1}
				if sd, err := rtcp.NewCNAMESourceDescription(2, "c").Marshal(); err == nil {
					emit("cdec " + hx(append(rr, sd...)))
					emit("udec " + hx(append(rr, sd...)))
				}
			}
		}
	case "C12":
		for i := 0; i < 40; i++ { // a number, fifteen unrelated ones, then the number plus 16 (and variations): nothing may be inferred from position
			w := &W{}
			m := uint16(r.Bits(16, 16))
			var l []uint16
			if r.Bool() {
				l = append(l, uint16(r.Bits(16, 16)))
			}
			l = append(l, m)
			for j := 0; j < 15; j++ {
				switch r.Intn(4) {
				case 0:
					l = append(l, m+uint16(1+r.Intn(15)))
				case 1:
					l = append(l, uint16(r.Bits(16, 16)))
				case 2:
					l = append(l, m+5000+uint16(j))
				default:
					l = append(l, l[len(l)-1])
				}
			}
			l = append(l, m+16, m+17)
			w.U(uint64(len(l)))
			for _, x := range l {
				w.U(uint64(x))
			}
			emit("nackpairs " + w.String())
		}
		for _, l := range [][]int{{0}, {0, 500, 501}, {500, 501, 0}, {65000, 0, 17, 18}, {65535, 0}, {65530, 65533, 65535, 0, 1, 4, 9}} {
			w := &W{}
			w.U(uint64(len(l)))
			for _, x := range l {
				w.U(uint64(x))
			}
			emit("nackpairs " + w.String())
		}
		for i := 0; i < 6; i++ { // inputs that need hundreds of pairs
			w := &W{}
			m := r.Pick(253, 254, 255, 300, 1000)
			w.U(uint64(m))
			base := uint16(r.Bits(16, 16))
			for j := 0; j < m; j++ {
				base += uint16(17 + r.Intn(3))
				w.U(uint64(base))
			}
			emit("nackpairs " + w.String())
		}
		for i := 0; i < n/10; i++ {
			emit(fmt.Sprintf("plist2 %d %d %d", r.Bits(16, 16), r.Bits(16, 16), r.Intn(19)))
		}
		for i := 0; i < n; i++ {
			switch r.Intn(3) {
			case 0:
				w := &W{}
				m := r.Len(12, 0, 1, 40)
				base := uint16(r.Bits(16, 16))
				w.U(uint64(m))
				for j := 0; j < m; j++ {
					switch r.Intn(5) {
					case 0:
						base = uint16(r.Bits(16, 16))
					case 1: // duplicate
					case 2:
						base += uint16(r.Pick(15, 16, 17, 18))
					default:
						base += uint16(1 + r.Intn(5))
					}
					if r.Chance(1, 10) {
						base -= uint16(r.Intn(20))
					}
					w.U(uint64(base))
				}
				emit("nackpairs " + w.String())
			case 1:
				emit(fmt.Sprintf("plist %d %d", r.Bits(16, 16), r.Bits(16, 16)))
			case 2:
				emit(fmt.Sprintf("range %d %d %d", r.Bits(16, 16), r.Bits(16, 16), r.Intn(19)))
			}
		}
		if thorough {
			for bm := 0; bm < 65536; bm++ {
				if !own() {
					continue
				}
				emit(fmt.Sprintf("plist %d %d", r.Pick(0, 1, 65535, 65520, 32768, int(r.Bits(16, 16))), bm))
			}
		}
	case "C13":
		for _, f := range bigTwccFrames() {
			emit("dec.TWCC " + hx(f))
			emit("udec " + hx(f))
		}
		{ // a short packet announcing tens of thousands of deltas, with a neighbour's octets behind its declared length
			for _, runs := range [][]int{{8191, 8191, 8191, 8191}, {8191, 8191, 8191, 8190}, {8191, 8191, 8191, 8191, 8191, 8191, 8191, 8191}} {
				for _, sym := range []int{1, 2} {
					count := 0
					body := make([]byte, 16)
					binary.BigEndian.PutUint32(body[0:], 1)
					binary.BigEndian.PutUint32(body[4:], 2)
					for _, n := range runs {
						count += n
						body = binary.BigEndian.AppendUint16(body, uint16(sym<<13|n))
					}
					binary.BigEndian.PutUint16(body[10:], uint16(count))
					for (len(body)+4)%4 != 0 || len(body) < 28 {
						body = append(body, 0, 4)
					}
					f := hdrBytes(false, 15, 205, (len(body)+4)/4-1)
					f = append(f, body...)
					emit("dec.TWCC " + hx(f))
					emit("decp.TWCC " + hx(f))
					nb := behindHeader(r, 199, 0, 131072-4)
					binary.BigEndian.PutUint16(nb[2:], uint16(131072/4-1))
					emit("udec " + hx(append(append([]byte{}, f...), nb...)))
				}
			}
		}
		for i := 0; i < n; i++ {
			b := genTwccBytes(r)
			if r.Chance(1, 8) {
				b = genTwccWrap(r)
			}
			if r.Chance(1, 5) {
				b = mutate(r, b)
			}
			if r.Chance(1, 25) {
				b = genTwccWrapValid(r)
			}
			emit("dec.TWCC " + hx(b))
			if r.Chance(1, 10) {
				emit("udec " + hx(b))
			}
			if r.Chance(1, 12) { // a second packet decoded into the same value, often one reporting on no packets
				b2 := genTwccBytes(r)
				if r.Bool() {
					z := &rtcp.TransportLayerCC{Header: rtcp.Header{Count: 15, Type: 205, Length: 4}, SenderSSRC: uint32(r.U64()), MediaSSRC: uint32(r.U64()), FbPktCount: uint8(r.U64())}
					if zb, err := safeMarshal(z); err == nil {
						b2 = zb
					}
				}
				emit("reuse.TWCC " + hx(b) + " " + hx(b2))
			}
			if r.Chance(1, 4) {
				if bb, err := safeMarshal(genTwcc(r, false)); err == nil {
					emit("dec.TWCC " + hx(bb))
				}
			}
		}
	case "C14":
		for _, bits := range []uint32{0xff7fffff, 0xfe7fffc0, 0xe8000000, 0xff800000, 0xbf800000, 0xfe7fff80} { // negative values of large magnitude
			q := &rtcp.ReceiverEstimatedMaximumBitrate{SenderSSRC: 1, Bitrate: math.Float32frombits(bits)}
			emit(encOp(q))
		}
		for n := 248; n <= 256; n++ { // list lengths around the one-octet boundaries of count and length
			q := &rtcp.ReceiverEstimatedMaximumBitrate{SenderSSRC: 1, Bitrate: 1e6}
			for j := 0; j < n; j++ {
				q.SSRCs = append(q.SSRCs, uint32(j+1))
			}
			emit(encOp(q))
			emit("rt 1 " + packetTokens(q))
		}
		for _, bits := range []uint32{0x80000000, 0, 1, 0x80000001, 0x3f7fffff, 0x3f800000, 0x7f7fffff, 0x7f800000} { // -0, +0, the smallest values, 1-ulp, 1, max, +Inf
			q := &rtcp.ReceiverEstimatedMaximumBitrate{SenderSSRC: 1, Bitrate: math.Float32frombits(bits), SSRCs: []uint32{7}}
			emit(encOp(q))
			emit(fmt.Sprintf("rembto %s %d", bodyTokens(q), q.MarshalSize()))
		}
		for i := 0; i < n; i++ {
			switch r.Intn(3) {
			case 0:
				exp, mant := r.Intn(64), int(r.Bits(18, 18))
				emit("dec.REMB " + hx(rembWire(r, exp, mant, r.Len(3, 0, 255))))
			case 1:
				p := genValue(r, "REMB", r.Chance(1, 5)).(*rtcp.ReceiverEstimatedMaximumBitrate)
				emit(encOp(p))
			case 2:
				p := genValue(r, "REMB", false)
				emit("rt 1 " + packetTokens(p))
			}
			if r.Chance(1, 15) { // the length field and the count octet disagree
				b := rembWire(r, r.Intn(64), 1+r.Intn(0x3FFFF), 1+r.Intn(3))
				extra := r.Pick(1, 1, 2)
				if r.Chance(1, 4) && len(b) > 24 {
					b = b[:len(b)-4]
					extra = 0
				}
				for ; extra > 0; extra-- {
					b = binary.BigEndian.AppendUint32(b, uint32(r.U64()))
				}
				binary.BigEndian.PutUint16(b[2:], uint16(len(b)/4-1))
				emit("dec.REMB " + hx(b))
			}
			if r.Chance(1, 15) {
				emit("reuse.REMB " + hx(rembWire(r, r.Intn(64), 1+r.Intn(0x3FFFF), 1+r.Intn(3))) + " " + hx(rembWire(r, r.Intn(64), 1+r.Intn(0x3FFFF), r.Pick(0, 0, 1))))
			}
			if r.Chance(1, 15) {
				for _, bits := range []uint32{0xbf000000, 0xbf7fbe77, 0xaedbe6ff, 0x80000001, 0x807fffff, 0xbf7fffff, 0xbf800000} {
					emit(fmt.Sprintf("enc.REMB %d %d 0", r.Bits(32, 32), bits))
				}
			}
		}
		if thorough {
			for exp := 0; exp < 64; exp++ {
				for mant := 0; mant < 1<<18; mant += 1 + r.Intn(3) {
					if !own() {
						continue
					}
					emit("dec.REMB " + hx(rembWire(r, exp, mant, 0)))
				}
			}
		} else {
			for exp := 0; exp < 64; exp++ {
				for _, mant := range []int{0, 1, 2, 3, 0x1FFFF, 0x20000, 0x20001, 0x3FFFE, 0x3FFFF, int(r.Bits(18, 18))} {
					emit("dec.REMB " + hx(rembWire(r, exp, mant, 0)))
				}
			}
		}
		for i := 0; i < n/10; i++ {
			p := genValue(r, "REMB", r.Chance(1, 5)).(*rtcp.ReceiverEstimatedMaximumBitrate)
			sz := p.MarshalSize()
			emit(fmt.Sprintf("rembto %s %d", bodyTokens(p), r.Pick(0, 19, sz-1, sz, sz, sz+1, sz+64)))
		}
	case "C15":
		for i := 0; i < n; i++ {
			switch r.Intn(4) {
			case 0:
				emit(encOp(dirtyXRHeaders(r, genValue(r, "XR", r.Chance(1, 4)))))
				if r.Bool() {
					emit(opWith("enccap", genValue(r, "XR", false)))
				}
			case 1:
				if r.Chance(1, 6) {
					emit("decalias.XR " + hx(genXRBytes(r)))
				} else {
					emit("dec.XR " + hx(genXRBytes(r)))
				}
			case 2:
				emit("rt 1 " + packetTokens(genValue(r, "XR", false)))
			case 3:
				emit("reenc " + hx(genXRBytes(r)))
			}
		}
		for _, nb := range []int{1024, 1025, 2000} { // more blocks than any "reasonable" cap: header-only opaque blocks
			x := []byte{0x80, 207, 0, 0, 0, 0, 0, 1}
			for j := 0; j < nb; j++ {
				x = append(x, byte(100+j%100), byte(j), 0, 0)
			}
			binary.BigEndian.PutUint16(x[2:], uint16(len(x)/4-1))
			emit("dec.XR " + hx(x))
			emit("reenc " + hx(x))
		}
		for i := 0; i < 6; i++ { // a used receiver: blocks of an earlier packet, then a report with fewer (or no) blocks
			emit("reuse.XR " + hx(genXRBytes(r)) + " " + hx([]byte{0x80, 207, 0, 1, 0, 0, 0, byte(i)}))
			emit("reuse.XR " + hx(genXRBytes(r)) + " " + hx(genXRBytes(r)))
		}
		// blocks of 64 KiB and more (block length >= 16383 words): 16-bit octet arithmetic does not hold them
		for reps := map[bool]int{false: 1, true: 4}[thorough]; reps > 0; reps-- {
			v := &rtcp.ExtendedReport{SenderSSRC: uint32(r.Bits(32, 32))}
			u := &rtcp.UnknownReportBlock{Bytes: r.Bytes(4 * r.Pick(16383, 16384, 16390))}
			u.XRHeader.BlockType = rtcp.BlockTypeType(r.Pick(0, 9, 200))
			v.Reports = append(v.Reports, genXRBlock(r, false), u, genXRBlock(r, false))
			emit(encOp(v))
			emit(opWith("rto", v))
			if b, err := safeMarshal(v); err == nil {
				emit("dec.XR " + hx(b))
			}
		}
	case "C16":
		for _, ty := range []uint16{0, 1, 2, 0xffff} { // the chunk kind is the Go type, not the Type field a caller may leave at zero
			for _, ss := range []uint16{0, 1} {
				w := &W{}
				n := 14 - 7*int(ss)
				c := &rtcp.StatusVectorChunk{Type: ty, SymbolSize: ss}
				for j := 0; j < n; j++ {
					c.SymbolList = append(c.SymbolList, uint16(r.Intn(2+int(ss))))
				}
				putTwccChunk(w, c)
				emit("enc.TCHUNK " + w.String())
				w = &W{}
				putTwccChunk(w, &rtcp.RunLengthChunk{Type: ty, PacketStatusSymbol: uint16(r.Intn(4)), RunLength: uint16(r.Bits(13, 13))})
				emit("enc.TCHUNK " + w.String())
			}
		}
		for _, id := range []int{65519, 65520, 65534, 65535, 0} { // the pair accessors across the 65535 -> 0 wrap
			for _, bm := range []int{0x7, 0x8001, 0xffff, 0x0101, 0x8000} {
				emit(fmt.Sprintf("plist %d %d", id, bm))
				emit(fmt.Sprintf("range %d %d %d", id, bm, 17))
				emit(fmt.Sprintf("range %d %d %d", id, bm, 2))
			}
		}
		for _, l := range [][][3]uint16{{{5, 7, 9}, {0, 0, 0}}, {{0, 0, 0}}, {{0, 0, 0}, {1, 2, 3}}, {{0, 0, 0}, {0, 0, 0}, {0, 0, 0}}, {{8191, 8191, 63}, {0, 0, 0}}} { // an all-zero SLI word is an entry like any other
			v := &rtcp.SliceLossIndication{SenderSSRC: 1, MediaSSRC: 2}
			for _, e := range l {
				v.SLI = append(v.SLI, rtcp.SLIEntry{First: e[0], Number: e[1], Picture: uint8(e[2])})
			}
			emit(opWith("rto", v))
		}
		for i := 0; i < 60; i++ { // a pair's packet list goes back into one pair, also across the 65535 -> 0 wrap
			id, bm := uint16(r.Pick(65530, 65535, 65520, 0, 1, int(r.Bits(16, 16)))), uint16(r.Bits(16, 16))
			l := []uint16{id}
			for b := 0; b < 16; b++ {
				if bm>>uint(b)&1 == 1 {
					l = append(l, id+uint16(b)+1)
				}
			}
			w := &W{}
			w.U(uint64(len(l)))
			for _, x := range l {
				w.U(uint64(x))
			}
			emit("nackpairs " + w.String())
		}
		for first := 0x80; first < 0xc0; first++ { // every (padding, count) with the extreme length fields and a few types
			for _, l := range []int{0, 1, 0xffff} {
				emit(fmt.Sprintf("dec.HDR %02x%02x%04x", first, []int{0, 200, 205, 255}[first&3], l))
			}
		}
		for _, w := range []int{0, 1, 0x3fff, 0x4000, 0x7fff, 0x8000, 0xc000, 0xffff} {
			emit(fmt.Sprintf("xrchunk %d", w))
		}
		for c := 0; c < 256; c++ { // every count value through the header encoder
			emit(fmt.Sprintf("enc.HDR %d %d %d %d", c&1, c, 200+c%8, c*257))
		}
		for i := 0; i < n/20; i++ { // headers on buffers whose capacity extends past their length
			emit("decp.HDR " + hx(r.Bytes(r.Pick(0, 1, 2, 3, 4, 4))))
		}
		for i := 0; i < n; i++ {
			switch r.Intn(12) {
			case 0:
				w := &W{}
				putHeader(w, genHeader(r, r.Chance(1, 4)))
				emit("enc.HDR " + w.String())
			case 1:
				b := r.Bytes(r.Pick(3, 4, 4, 4, 5))
				if r.Chance(3, 4) && len(b) > 0 {
					b[0] = b[0]&0x3f | 0x80
				}
				emit("dec.HDR " + hx(b))
			case 2:
				emit("dec." + []string{"RLC", "SVC"}[r.Intn(2)] + " " + hx(r.Bytes(2)))
			case 3:
				w := &W{}
				putTwccChunk(w, genTwccChunk(r, r.Chance(1, 4)))
				emit("enc.TCHUNK " + w.String())
				if r.Chance(1, 6) { // vectors with every symbol set (the last one is the interesting one)
					emit("enc.TCHUNK 1 1 0 14 1 1 1 1 1 1 1 1 1 1 1 1 1 1")
					emit("enc.TCHUNK 1 1 1 7 3 3 3 3 3 3 3")
					emit("enc.TCHUNK 1 1 0 14 0 0 0 0 0 0 0 0 0 0 0 0 0 1")
				}
			case 4:
				emit("dec.DELTA " + hx(r.Bytes(1+r.Intn(2))))
			case 5:
				d := genDelta(r, uint16(1+r.Intn(2)), r.Chance(1, 3))
				emit(fmt.Sprintf("enc.DELTA %d %d", d.Type, d.Delta))
			case 6:
				w := &W{}
				putRRep(w, genRRep(r, r.Chance(1, 4)))
				emit("enc.RREP " + w.String())
			case 7:
				emit("dec.RREP " + hx(r.Bytes(24)))
			case 8:
				if r.Bool() {
					emit("ccfbmetric.dec " + hx(r.Bytes(2)))
				} else {
					w := &W{}
					putMetric(w, genMetric(r, r.Chance(1, 4)))
					emit("ccfbmetric.enc " + w.String())
				}
			case 9:
				emit(fmt.Sprintf("xrchunk %d", r.Bits(16, 16)))
				if r.Bool() {
					emit("ccfbmetric.reuse " + hx(r.Bytes(2)) + " " + hx(r.Bytes(2)))
				}
			case 10:
				p := genValue(r, []string{"NACK", "SLI", "FIR"}[r.Intn(3)], false)
				if r.Bool() {
					emit("rt 1 " + packetTokens(p))
				} else {
					emit(opWith("rto", p))
				}
			case 11:
				switch r.Intn(4) {
				case 0:
					emit(fmt.Sprintf("util.getPadding %d", r.Intn(1000)))
				case 1:
					emit(fmt.Sprintf("util.setNBits %d %d %d %d", r.Bits(16, 16), r.Intn(18), r.Intn(18), r.Bits(16, 16)))
				case 2:
					emit(fmt.Sprintf("util.appendNBits %d %d %d", r.Bits(32, 32), r.Pick(0, 1, 8, 24, 31, 32), r.Bits(32, 32)))
				case 3:
					beg := r.Intn(8)
					emit(fmt.Sprintf("util.getNBits %d %d %d", r.Intn(256), beg, 1+r.Intn(8-beg)))
				}
			}
		}
		if thorough {
			for w := 0; w < 65536; w++ {
				if !own() {
					continue
				}
				b := []byte{byte(w >> 8), byte(w)}
				emit("dec.RLC " + hx(b))
				emit("dec.SVC " + hx(b))
				emit("dec.DELTA " + hx(b))
				emit("ccfbmetric.dec " + hx(b))
				emit(fmt.Sprintf("xrchunk %d", w))
			}
			for w := 0; w < 256; w++ {
				emit("dec.DELTA " + hx([]byte{byte(w)}))
			}
		}
	case "C17":
		for i := 0; i < n; i++ {
			switch r.Intn(6) {
			case 0, 1, 2:
				k := allKinds[r.Intn(len(allKinds))]
				emit(opWith("str", genValue(r, k, r.Chance(1, 3))))
			case 3:
				emit(fmt.Sprintf("rembunit %d", rembBits(r, true)))
			case 4:
				emit("strdec " + hx(genDatagram(r)))
			case 5:
				emit("cstr " + packetsTokens(genPacketList(r, false, 5)))
			}
		}
		for _, nc := range []int{64, 65, 100} { // long outages: many status chunks, few received packets
			for _, nd := range []int{0, 1, 3, 40, 63, 64} {
				t := &rtcp.TransportLayerCC{SenderSSRC: 1, MediaSSRC: 2, BaseSequenceNumber: 3, ReferenceTime: 4}
				cnt := 0
				if nd > 0 {
					t.PacketChunks = append(t.PacketChunks, &rtcp.RunLengthChunk{PacketStatusSymbol: 1, RunLength: uint16(nd)})
					cnt += nd
				}
				for len(t.PacketChunks) < nc {
					t.PacketChunks = append(t.PacketChunks, &rtcp.RunLengthChunk{PacketStatusSymbol: 0, RunLength: uint16(1 + len(t.PacketChunks)%3)})
					cnt += 1 + (len(t.PacketChunks)-1)%3
				}
				for j := 0; j < nd; j++ {
					t.RecvDeltas = append(t.RecvDeltas, &rtcp.RecvDelta{Type: 1, Delta: 250 * int64(1+j%200)})
				}
				t.PacketStatusCount = uint16(cnt)
				size := t.MarshalSize()
				t.Header = rtcp.Header{Padding: size != int(rtcp.VerifTWCCPacketLen(t)), Count: rtcp.FormatTCC, Type: rtcp.TypeTransportSpecificFeedback, Length: uint16(size/4 - 1)}
				emit(opWith("str", t))
				if b, err := safeMarshal(t); err == nil {
					emit("strdec " + hx(b))
				}
			}
		}
		for p := 3; p <= 24; p += 3 { // bitrates that print as 999.99x or 1000.00 of a unit, for every unit
			for _, f := range []float64{0.99999, 0.999994, 0.999995, 0.999996, 0.999999, 1, 1.000001} {
				q := &rtcp.ReceiverEstimatedMaximumBitrate{SenderSSRC: 1, Bitrate: float32(f * math.Pow(10, float64(p)))}
				emit(opWith("str", q))
				emit(fmt.Sprintf("rembunit %d", math.Float32bits(q.Bitrate)))
			}
		}
		for _, em := range [][2]int{{52, 222044}, {53, 111022}, {54, 55511}, {52, 222043}, {52, 222045}, {42, 227374}, {63, 262143}} {
			emit("strdec " + hx(rembWire(r, em[0], em[1], 1)))
		}
		for _, e := range []string{"PacketType", "SDESType", "BlockTypeType", "TTLorHopLimitType"} {
			for v := 0; v < 256; v++ {
				emit(fmt.Sprintf("enumstr.%s %d", e, v))
			}
		}
		for ex := 0; ex < 256; ex++ {
			for _, m := range []uint32{0, 1, 0x400000, 0x7fffff} {
				bits := uint32(ex)<<23 | m
				if ex == 255 && m != 0 {
					continue // NaN
				}
				emit(fmt.Sprintf("rembunit %d", bits))
			}
		}
		step := 257
		if thorough {
			step = 1
		}
		for c := 0; c < 65536; c += step {
			if thorough && !own() {
				continue
			}
			emit(fmt.Sprintf("enumstr.Chunk %d", c))
		}
	case "C18":
		for _, p := range []rtcp.Packet{&rtcp.Goodbye{}, &rtcp.SourceDescription{}, &rtcp.ReceiverReport{}, &rtcp.PictureLossIndication{}, &rtcp.RapidResynchronizationRequest{}, &rtcp.ExtendedReport{}, &rtcp.ReceiverEstimatedMaximumBitrate{}, &rtcp.CCFeedbackReport{}} {
			// zero values: whatever Marshal returns belongs to the caller, who may write into it
			emit("hold." + kindName(p) + " " + bodyTokens(p) + " | " + bodyTokens(p))
		}
		{ // deterministic items: XR blocks whose thinning value does not fit the four bits it is sent in
			for _, t := range []uint8{0x1C, 0xF3, 0x10, 0x0F} {
				l := &rtcp.LossRLEReportBlock{}
				l.T, l.SSRC, l.Chunks = t, uint32(r.Bits(32, 32)), []rtcp.Chunk{1, 2}
				d := &rtcp.DuplicateRLEReportBlock{}
				d.T, d.Chunks = t, []rtcp.Chunk{3, 4}
				pr := &rtcp.PacketReceiptTimesReportBlock{}
				pr.T, pr.ReceiptTime = t, []uint32{5}
				x := &rtcp.ExtendedReport{SenderSSRC: 1, Reports: []rtcp.ReportBlock{l, d, pr}}
				emit(fmt.Sprintf("hist %s 4 M S M D", packetTokens(x)))
			}
		}
		for i := 0; i < n; i++ {
			k := allKinds[r.Intn(len(allKinds))]
			p := genValue(r, k, r.Chance(1, 6))
			var ops []string
			for m := 1 + r.Intn(10); m > 0; m-- {
				switch r.Intn(6) {
				case 0, 1:
					ops = append(ops, "M")
				case 2:
					ops = append(ops, "S")
				case 3:
					ops = append(ops, "D")
				case 4:
					ops = append(ops, "T")
				case 5:
					ops = append(ops, "U"+hx(genDecodeInput(r, k)))
				}
			}
			emit(fmt.Sprintf("hist %s %d %s", packetTokens(p), len(ops), strings.Join(ops, " ")))
			if r.Chance(1, 10) { // an extended report whose block headers still hold what an earlier call put there
				emit(encOp(dirtyXRHeaders(r, genValue(r, "XR", false))))
			}
			if r.Chance(1, 5) {
				emit("relay " + hx(genRelayDatagram(r)))
			}
			if r.Chance(1, 5) {
				emit(genHoldOp(r))
			}
			if r.Chance(1, 4) {
				emit(genReuseOp(r))
			}
			if r.Chance(1, 6) {
				ak := decKinds[r.Intn(len(decKinds))]
				emit("decalias." + ak + " " + hx(validFrame(r, ak)))
			}
			if r.Chance(1, 12) {
				p := genValue(r, "REMB", false).(*rtcp.ReceiverEstimatedMaximumBitrate)
				emit(fmt.Sprintf("rembto %s %d", bodyTokens(p), p.MarshalSize()+r.Pick(0, 0, 1, 16)))
			}
		}
	default:
		panic("unknown property " + prop)
	}
}

func contains(xs []string, s string) bool {
	for _, x := range xs {
		if x == s {
			return true
		}
	}
	return false
}

// last passing / first failing value of every wire limit named in C08
func boundaryOps() []string {
	var ops []string
	add := func(p rtcp.Packet) { ops = append(ops, encOp(p)) }
	for _, tl := range []uint32{1<<24 - 2, 1<<24 - 1, 1 << 24, 1<<24 + 1, 1<<25 - 1, 1 << 25, 1<<32 - 1} {
		add(&rtcp.ReceiverReport{SSRC: 1, Reports: []rtcp.ReceptionReport{{SSRC: 2, TotalLost: tl}}})
		add(&rtcp.SenderReport{SSRC: 1, Reports: []rtcp.ReceptionReport{{SSRC: 2, TotalLost: tl}}})
		w := &W{}
		putRRep(w, rtcp.ReceptionReport{SSRC: 2, TotalLost: tl})
		ops = append(ops, "enc.RREP "+w.String())
	}
	for _, n := range []int{30, 31, 32, 33, 255, 256, 257} {
		add(&rtcp.ReceiverReport{Reports: make([]rtcp.ReceptionReport, n)})
		add(&rtcp.SenderReport{Reports: make([]rtcp.ReceptionReport, n)})
		add(&rtcp.SourceDescription{Chunks: make([]rtcp.SourceDescriptionChunk, n)})
		add(&rtcp.Goodbye{Sources: make([]uint32, n)})
	}
	for _, n := range []int{31, 32, 33, 255} {
		w := &W{}
		putHeader(w, rtcp.Header{Count: uint8(n), Type: 200, Length: 1})
		ops = append(ops, "enc.HDR "+w.String())
		add(&rtcp.ApplicationDefined{SubType: uint8(n), Name: "abcd"})
	}
	for _, n := range []int{254, 255, 256, 257} {
		txt := strings.Repeat("x", n)
		add(&rtcp.SourceDescription{Chunks: []rtcp.SourceDescriptionChunk{{Items: []rtcp.SourceDescriptionItem{{Type: 1, Text: txt}}}}})
		add(&rtcp.Goodbye{Sources: []uint32{1}, Reason: txt})
		add(&rtcp.ReceiverEstimatedMaximumBitrate{Bitrate: 1000, SSRCs: make([]uint32, n)})
	}
	for _, n := range []int{0, 3, 4, 5} {
		add(&rtcp.ApplicationDefined{Name: strings.Repeat("n", n)})
	}
	add(&rtcp.SourceDescription{Chunks: []rtcp.SourceDescriptionChunk{{Items: []rtcp.SourceDescriptionItem{{Type: 0, Text: "a"}}}}})
	for _, n := range []int{16383, 16384, 16385} {
		add(&rtcp.CCFeedbackReport{ReportBlocks: []rtcp.CCFeedbackReportBlock{{MetricBlocks: make([]rtcp.CCFeedbackMetricBlock, n)}}})
	}
	for _, bits := range []uint32{0, 0x80000000, 0xbf800000, 0x80000001, 0xff800000} {
		add(&rtcp.ReceiverEstimatedMaximumBitrate{Bitrate: math.Float32frombits(bits)})
	}
	for _, d := range []int64{0, 249, 250, 255 * 250, 255*250 + 249, 256 * 250, -1, -249, -250} {
		t := twccWithDelta(1, d)
		add(t)
	}
	for _, d := range []int64{0, -250, 32767 * 250, 32767*250 + 249, 32768 * 250, -32768 * 250, -32768*250 - 249, -32769 * 250} {
		add(twccWithDelta(2, d))
	}
	for _, n := range []int{252, 253, 254} {
		add(&rtcp.TransportLayerNack{Nacks: make([]rtcp.NackPair, n)})
		add(&rtcp.SliceLossIndication{SLI: make([]rtcp.SLIEntry, n)})
	}
	return ops
}

func twccWithDelta(typ uint16, d int64) *rtcp.TransportLayerCC {
	t := &rtcp.TransportLayerCC{
		SenderSSRC: 1, MediaSSRC: 2, BaseSequenceNumber: 3, PacketStatusCount: 3, ReferenceTime: 4, FbPktCount: 5,
		PacketChunks: []rtcp.PacketStatusChunk{&rtcp.RunLengthChunk{PacketStatusSymbol: typ, RunLength: 3}},
		RecvDeltas:   []*rtcp.RecvDelta{{Type: typ, Delta: 250}, {Type: typ, Delta: d}, {Type: typ, Delta: 500}},
	}
	size := t.MarshalSize()
	pl := int(rtcp.VerifTWCCPacketLen(t))
	t.Header = rtcp.Header{Padding: size != pl, Count: rtcp.FormatTCC, Type: rtcp.TypeTransportSpecificFeedback, Length: uint16(size/4 - 1)}
	return t
}

// a datagram as a forwarder sees it: often led by a packet of unregistered type (decoded as a RawPacket aliasing
// the receive buffer), followed by packets whose re-encoding may differ from the received bytes
func genRelayDatagram(r *Rng) []byte {
	var d []byte
	if r.Chance(2, 3) {
		b := hdrBytes(false, int(r.Bits(5, 5)), r.Pick(192, 199, 208, 211, 255), 0)
		b = append(b, r.Bytes(4*r.Len(3))...)
		d = append(d, finish(b)...)
	} else {
		d = append(d, validFrame(r, allKinds[r.Intn(len(allKinds))])...)
	}
	for n := 1 + r.Intn(3); n > 0; n-- {
		if r.Bool() {
			f := strings.Fields(genVariantOp(r))
			if len(f) >= 2 && f[1] != "-" {
				if b, err := hex.DecodeString(f[1]); err == nil && countFrames(b) >= 1 {
					d = append(d, b...)
					continue
				}
			}
		}
		d = append(d, validFrame(r, allKinds[r.Intn(len(allKinds))])...)
	}
	return d
}

var holdKinds = []string{"DELTA", "TCHUNK", "HDR", "RREP", "ITEM", "CHUNK"}

func genHoldOp(r *Rng) string {
	one := func(k string) string {
		w := &W{}
		switch k {
		case "DELTA":
			d := genDelta(r, uint16(1+r.Intn(2)), false)
			return fmt.Sprintf("%d %d", d.Type, d.Delta)
		case "TCHUNK":
			putTwccChunk(w, genTwccChunk(r, false))
		case "HDR":
			putHeader(w, genHeader(r, false))
		case "RREP":
			putRRep(w, genRRep(r, false))
		case "ITEM":
			putItem(w, genItem(r, false))
		case "CHUNK":
			putChunk(w, genChunk(r, false))
		default:
			return bodyTokens(genValue(r, k, false))
		}
		return w.String()
	}
	k := allKinds[r.Intn(len(allKinds))]
	if r.Bool() {
		k = holdKinds[r.Intn(len(holdKinds))]
	}
	return "hold." + k + " " + one(k) + " | " + one(k)
}

// decode twice into one receiver: the second result must not depend on the first input
func genReuseOp(r *Rng) string {
	kinds := append(append([]string{}, decKinds...), "CHUNK", "SVC", "RLC", "ITEM", "RREP", "HDR", "DELTA", "COMPOUND")
	k := kinds[r.Intn(len(kinds))]
	in := func() []byte {
		switch k {
		case "CHUNK":
			b := genSdesBytes(r)
			if len(b) >= 4 {
				b = b[4:]
			}
			return b
		case "SVC", "RLC":
			b := r.Bytes(2)
			if k == "SVC" {
				b[0] |= 0x80
			}
			return b
		case "ITEM":
			t := r.Bytes(r.Len(6))
			return append([]byte{byte(1 + r.Intn(8)), byte(len(t))}, t...)
		case "RREP":
			return r.Bytes(24)
		case "HDR":
			b := r.Bytes(4)
			b[0] = b[0]&0x3f | 0x80
			return b
		case "DELTA":
			return r.Bytes(1 + r.Intn(2))
		case "COMPOUND":
			return genDatagram(r)
		}
		if r.Chance(3, 4) {
			return validFrame(r, k)
		}
		return genDecodeInput(r, k)
	}
	return "reuse." + k + " " + hx(in()) + " " + hx(in())
}

var registeredPairs = [][2]int{{200, 0}, {201, 0}, {202, 1}, {203, 1}, {204, 0}, {205, 1}, {205, 5}, {205, 11}, {205, 15}, {206, 1}, {206, 2}, {206, 4}, {206, 15}, {207, 0}}

// a well-formed TWCC packet (205/15) whose octets also satisfy every check of the REMB decoder except the packet
// type: media SSRC 0, base sequence number and status count spelling "REMB", reference time high octet = SSRC count
func polyglotRembTwcc(r *Rng) []byte {
	b := []byte{0x8f, 205, 0, 6}
	b = binary.BigEndian.AppendUint32(b, uint32(r.U64()))
	b = append(b, 0, 0, 0, 0)
	b = append(b, 'R', 'E', 'M', 'B')                             // base sequence number 0x5245, packet status count 0x4d42 = 19778
	b = append(b, 2, byte(r.U64()), byte(r.U64()), byte(r.U64())) // reference time (24) | fb pkt count
	for _, run := range []int{8191, 8191, 3396, 0} {              // run-length chunks, symbol "not received": 19778 statuses, no deltas
		b = binary.BigEndian.AppendUint16(b, uint16(run))
	}
	return b
}

// bigTwccFrames: transport-cc frames of 64 KiB and more (length field >= 0x3fff), which 16-bit cursors do not span: a
// zero-filled chunk area, and a well-formed report on 65528 small deltas
func bigTwccFrames() [][]byte {
	var out [][]byte
	for _, sz := range []int{65536, 65540} {
		b := append([]byte{0x8f, 205, 0, 0, 0, 0, 0, 1, 0, 0, 0, 2, 0, 1, 0, 1, 0, 0, 0, 0}, make([]byte, sz-20)...)
		binary.BigEndian.PutUint16(b[2:], uint16(sz/4-1))
		out = append(out, b)
	}
	b := []byte{0x8f, 205, 0, 0, 0, 0, 0, 1, 0, 0, 0, 2, 0, 1, 0xff, 0xf8, 0, 0, 0, 0}
	for i := 0; i < 8; i++ {
		b = append(b, 0x3f, 0xff) // run of 8191 small deltas
	}
	for i := 0; i < 65528; i++ {
		b = append(b, byte(1+i%200))
	}
	for len(b)%4 != 0 {
		b = append(b, 0)
	}
	binary.BigEndian.PutUint16(b[2:], uint16(len(b)/4-1))
	return append(out, b)
}
