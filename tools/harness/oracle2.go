package main

// Helpers of the property oracles: small independent re-statements of what each property demands, computed
// from the documented rules (RFC layouts, limits, grammars), never by calling the codec under judgement.

import (
	"encoding/binary"
	"encoding/hex"
	"fmt"
	"math"
	"strings"

	"github.com/pion/rtcp"
)

func unhexOr(s string) []byte {
	if s == "-" {
		return nil
	}
	b, err := hex.DecodeString(s)
	if err != nil {
		return nil
	}
	return b
}

// framesOK: b is a non-empty concatenation of complete frames (version 2, length field inside the buffer)
func framesOK(b []byte) bool { return countFrames(b) > 0 }

func countFrames(b []byte) int {
	n, off := 0, 0
	for off < len(b) {
		if len(b)-off < 4 || b[off]>>6 != 2 {
			return -1
		}
		l := (int(binary.BigEndian.Uint16(b[off+2:])) + 1) * 4
		if off+l > len(b) {
			return -1
		}
		off += l
		n++
	}
	return n
}

// dispatchKind: the Go type registered for the first frame's (PT, FMT), per the table of C07
func dispatchKind(b []byte) string {
	if len(b) < 4 {
		return ""
	}
	pt, fm := int(b[1]), int(b[0]&31)
	switch pt {
	case 200:
		return "SR"
	case 201:
		return "RR"
	case 202:
		return "SDES"
	case 203:
		return "BYE"
	case 204:
		return "APP"
	case 207:
		return "XR"
	case 205:
		switch fm {
		case 1:
			return "NACK"
		case 5:
			return "RRR"
		case 11:
			return "CCFB"
		case 15:
			return "TWCC"
		}
	case 206:
		switch fm {
		case 1:
			return "PLI"
		case 2:
			return "SLI"
		case 4:
			return "FIR"
		case 15:
			return "REMB"
		}
	}
	return "RAW"
}

// deviationTag names the documented, listed deviation a packet value runs into (known_findings.json); ""
// when none. The tag is part of the oracle's reason so that a listed finding is recognised by the input
// feature that triggers it and nothing else.
func deviationTag(p rtcp.Packet) string {
	switch v := p.(type) {
	case *rtcp.SliceLossIndication:
		return "sli-packet-type"
	case *rtcp.CCFeedbackReport:
		for _, b := range v.ReportBlocks {
			if len(b.MetricBlocks) == 1 {
				return "ccfb-one-metric-block"
			}
		}
	case *rtcp.ReceiverEstimatedMaximumBitrate:
		if v.Bitrate >= 0 && v.Bitrate < 1 {
			return "remb-mantissa-zero"
		}
	case *rtcp.ExtendedReport:
		for _, b := range v.Reports {
			switch x := b.(type) {
			case *rtcp.LossRLEReportBlock:
				if len(x.Chunks)%2 != 0 {
					return "xr-unaligned-block"
				}
			case *rtcp.DuplicateRLEReportBlock:
				if len(x.Chunks)%2 != 0 {
					return "xr-unaligned-block"
				}
			case *rtcp.UnknownReportBlock:
				if len(x.Bytes)%4 != 0 {
					return "xr-unaligned-block"
				}
			}
		}
	}
	return ""
}

// tagged appends the packet's deviation tag when that deviation can explain this kind of failure
func tagged(why string, p rtcp.Packet, explains ...string) string {
	t := deviationTag(p)
	for _, e := range explains {
		if t == e {
			return why + " [" + t + "]"
		}
	}
	return why
}

const (
	tagSLI  = "sli-packet-type"
	tagCCFB = "ccfb-one-metric-block"
	tagXR   = "xr-unaligned-block"
	tagREMB = "remb-mantissa-zero"
)

// canonTokens: the value a decoder must return for p: p after the documented quantisations; XR block
// headers as Marshal fills them in.
func canonTokens(p rtcp.Packet) string {
	q := quantPacket(p)
	if x, ok := q.(*rtcp.ExtendedReport); ok {
		q = xrCanonHeaders(x)
	}
	return packetTokens(q)
}

// xrFreshHeaders: the same report as a caller builds it from scratch (block headers zero; an opaque block keeps its type
// and type-specific octet, which are its content)
func xrFreshHeaders(x *rtcp.ExtendedReport) *rtcp.ExtendedReport {
	c := &rtcp.ExtendedReport{SenderSSRC: x.SenderSSRC}
	for _, b := range x.Reports {
		hdr, omits, vals, elems := xrParts(b)
		kind := xrKindOf(b)
		if kind != 0 {
			hdr = rtcp.XRHeader{}
		} else {
			hdr.BlockLength = 0
		}
		c.Reports = append(c.Reports, xrBuild(kind, hdr, omits, vals, elems))
	}
	return c
}

// xrCanonHeaders: the block headers a decoder must return for x, computed from RFC 3611 (not by calling Marshal):
// registered block type (an opaque block keeps its own), type-specific octet from the fields, length in words - 1
func xrCanonHeaders(x *rtcp.ExtendedReport) *rtcp.ExtendedReport {
	c := &rtcp.ExtendedReport{SenderSSRC: x.SenderSSRC}
	for _, b := range x.Reports {
		hdr, omits, vals, elems := xrParts(b)
		kind := xrKindOf(b)
		if kind != 0 {
			hdr.BlockType = rtcp.BlockTypeType(kind)
		}
		switch kind {
		case 1, 2, 3:
			hdr.TypeSpecific = rtcp.TypeSpecificField(omits[0] & 0x0f)
		case 6:
			ts := uint64(0)
			if omits[0] != 0 {
				ts |= 0x80
			}
			if omits[1] != 0 {
				ts |= 0x40
			}
			if omits[2] != 0 {
				ts |= 0x20
			}
			ts |= (omits[3] & 3) << 3
			hdr.TypeSpecific = rtcp.TypeSpecificField(ts)
		case 4, 5, 7:
			hdr.TypeSpecific = 0
		}
		hdr.BlockLength = uint16(xrBlockSizeSpec(b)/4 - 1)
		c.Reports = append(c.Reports, xrBuild(kind, hdr, omits, vals, elems))
	}
	return c
}

func allWF(ps []rtcp.Packet) bool {
	for _, p := range ps {
		if !wfPacket(p) {
			return false
		}
	}
	return len(ps) > 0
}

// rtOracle: C02 on an `rt` line (Marshal list, Unmarshal, Marshal again)
func rtOracle(args, res string, kindsOnly bool) string {
	ps := getPackets(NewR(args))
	if kindsOnly {
		// C07: whatever Marshal ACCEPTS must come back as the same Go type; exceptions: a caller-built RawPacket is
		// dispatched by its own octets, a TWCC header is the caller's
		if hasPrefix(res, "panic") {
			return "Marshal/Unmarshal of the packet's own output panicked"
		}
		if !hasPrefix(res, "ok ") {
			return ""
		}
		for _, p := range ps {
			switch v := p.(type) {
			case *rtcp.RawPacket:
				if !wfPacket(p) {
					return ""
				}
			case *rtcp.TransportLayerCC:
				if !twccConsistent(v) {
					return ""
				}
			}
		}
	} else if !allWF(ps) {
		return ""
	}
	if res == "err" {
		return "Marshal rejects a list of well-formed packets"
	}
	if !hasPrefix(res, "ok ") {
		return "round trip: " + clip(res, 40)
	}
	parts := splitSemi(res[3:])
	if kindsOnly && (len(parts) < 2 || parts[1] == "err") {
		// C07 is about dispatch, not about the decoder accepting the body: the output must split into one frame per
		// packet, each carrying the (packet type, FMT) registered for the packet's Go type
		b := unhexOr(parts[0])
		off := 0
		for i, p := range ps {
			if off+4 > len(b) {
				return fmt.Sprintf("Marshal output has no frame for packet %d", i)
			}
			l := (int(b[off+2])<<8 | int(b[off+3]) + 1) * 4
			if off+l > len(b) || l != p.MarshalSize() {
				if p.MarshalSize() > 262144 {
					return fmt.Sprintf("frame %d does not span its packet (length field wraps: packet larger than 65536 words)", i)
				}
				return tagged(fmt.Sprintf("frame %d of the Marshal output does not span its packet: length field says %d octets, the packet has %d", i, l, p.MarshalSize()), p, tagXR)
			}
			if k := dispatchKind(b[off:]); k != kindName(p) && kindName(p) != "RAW" {
				return tagged(fmt.Sprintf("packet %d: %s is emitted with the header of %s", i, kindName(p), k), p, tagSLI)
			}
			off += l
		}
		// every frame is in place and carries the right header: if each type's own decoder accepts its frame, the
		// rejection is the dispatcher's
		off = 0
		all := true
		for _, p := range ps {
			l := p.MarshalSize()
			k := kindName(p)
			if k == "SLI" || execOp("dec."+k+" "+hx(b[off:off+l])) == "err" {
				all = false
			}
			off += l
		}
		if all {
			return "the datagram decoder rejects frames that their own types' decoders accept"
		}
		// a well-formed value: its encoding has to come back as a packet of its type
		if allWF(ps) {
			for _, p := range ps {
				if t := deviationTag(p); t != "" {
					return tagged("a well-formed "+kindName(p)+" is marshalled, and the datagram decoder does not return the output as that type", p, tagCCFB, tagSLI)
				}
			}
			return "a well-formed " + kindName(ps[0]) + " (or a later member) is marshalled, and the datagram decoder does not return the output as that type"
		}
		// Marshal let a value through that no encoding can hold (C08 lists the limits), and what it wrote is not
		// returned as a packet of its type
		for _, p := range ps {
			if why := limitExceeded(kindName(p), bodyTokens(p)); why != "" && p.MarshalSize() <= 262144 {
				return "Marshal accepted a " + kindName(p) + " beyond a wire limit (" + why + ") and the datagram decoder does not return its output as that type"
			}
		}
		return ""
	}
	if len(parts) < 2 || parts[1] == "err" {
		for _, p := range ps {
			if t := deviationTag(p); t == tagCCFB || (kindsOnly && t == tagXR) {
				return tagged("own output not accepted by rtcp.Unmarshal", p, tagCCFB, tagXR)
			}
			if kindsOnly && p.MarshalSize() > 262144 {
				return "own output not accepted by rtcp.Unmarshal (length field wraps: packet larger than 65536 words)"
			}
		}
		return "own output not accepted by rtcp.Unmarshal"
	}
	qs := getPackets(NewR(parts[1]))
	if len(qs) != len(ps) {
		return fmt.Sprintf("%d packets in, %d out", len(ps), len(qs))
	}
	for i := range ps {
		if kindName(ps[i]) != kindName(qs[i]) {
			return tagged(fmt.Sprintf("packet %d: %s comes back as %s", i, kindName(ps[i]), kindName(qs[i])), ps[i], tagSLI)
		}
		if kindsOnly {
			continue
		}
		if canonTokens(ps[i]) != packetTokens(qs[i]) {
			return tagged(fmt.Sprintf("packet %d (%s) decodes to a different value", i, kindName(ps[i])), ps[i], tagCCFB, tagREMB)
		}
	}
	if kindsOnly {
		return ""
	}
	if len(parts) < 3 || parts[2] == "err" {
		return "decoded packets do not marshal again"
	}
	if parts[0] != parts[2] {
		return "re-marshalling the decoded packets gives different bytes"
	}
	return ""
}

// ---------- C04
func countInflated(kind string, b []byte) bool {
	if len(b) < 4 {
		return false
	}
	c := int(b[0] & 31)
	body := len(b) - 4
	if l := (int(binary.BigEndian.Uint16(b[2:])) + 1) * 4; l < len(b) && l >= 4 {
		body = l - 4
	}
	switch kind {
	case "SR":
		return body < 24+24*c
	case "RR":
		return body < 4+24*c
	case "BYE":
		return body < 4*c
	case "SDES":
		return body < 8*c && body < 4*c+4*c // every chunk needs ≥ 8 octets (SSRC + terminator word)
	}
	return false
}

// ---------- C08
func limitExceeded(kind, args string) string {
	r := NewR(args)
	rrep := func(x rtcp.ReceptionReport) string {
		if x.TotalLost >= 1<<24 {
			return "cumulative lost >= 2^24"
		}
		return ""
	}
	item := func(i rtcp.SourceDescriptionItem) string {
		if i.Type == 0 {
			return "SDES item type 0"
		}
		if len(i.Text) > 255 {
			return "SDES text over 255 octets"
		}
		return ""
	}
	delta := func(d *rtcp.RecvDelta) string {
		q := d.Delta / 250
		if d.Type == 1 && (q < 0 || q > 255) || d.Type == 2 && (q < -32768 || q > 32767) {
			return "TWCC delta outside its range"
		}
		return ""
	}
	switch kind {
	case "TWCC":
		if t, ok := getBody(NewR(args), "TWCC").(*rtcp.TransportLayerCC); ok && t.Header.Count > 31 {
			return "header count above 31 (caller-supplied TWCC header)"
		}
	case "HDR":
		if h := getHeader(r); h.Count > 31 {
			return "header count above 31"
		}
		return ""
	case "RREP":
		return rrep(getRRep(r))
	case "ITEM":
		return item(getItem(r))
	case "CHUNK":
		for _, i := range getChunk(r).Items {
			if w := item(i); w != "" {
				return w
			}
		}
		return ""
	case "DELTA":
		return delta(&rtcp.RecvDelta{Type: uint16(r.U()), Delta: r.I()})
	case "TCHUNK":
		return ""
	}
	p := getBody(r, kind)
	if p.MarshalSize() > 262144 {
		return "length field wraps: packet larger than 65536 words"
	}
	switch v := p.(type) {
	case *rtcp.SenderReport:
		if len(v.Reports) > 31 {
			return "more than 31 reports"
		}
		for _, x := range v.Reports {
			if w := rrep(x); w != "" {
				return w
			}
		}
	case *rtcp.ReceiverReport:
		if len(v.Reports) > 31 {
			return "more than 31 reports"
		}
		for _, x := range v.Reports {
			if w := rrep(x); w != "" {
				return w
			}
		}
	case *rtcp.SourceDescription:
		if len(v.Chunks) > 31 {
			return "more than 31 chunks"
		}
		for _, c := range v.Chunks {
			for _, i := range c.Items {
				if w := item(i); w != "" {
					return w
				}
			}
		}
	case *rtcp.Goodbye:
		if len(v.Sources) > 31 {
			return "more than 31 sources"
		}
		if len(v.Reason) > 255 {
			return "BYE reason over 255 octets"
		}
	case *rtcp.ApplicationDefined:
		if v.SubType > 31 {
			return "subtype above 31"
		}
		if len(v.Name) != 4 {
			return "APP name is not 4 octets"
		}
	case *rtcp.ReceiverEstimatedMaximumBitrate:
		if len(v.SSRCs) > 255 {
			return "more than 255 REMB SSRCs"
		}
		if v.Bitrate < 0 {
			return "negative REMB bitrate"
		}
	case *rtcp.CCFeedbackReport:
		for _, b := range v.ReportBlocks {
			if len(b.MetricBlocks) > 16384 {
				return "more than 16384 metric blocks"
			}
		}
	case *rtcp.TransportLayerCC:
		if v.Header.Count > 31 {
			return "header count above 31"
		}
		for _, d := range v.RecvDeltas {
			if d == nil {
				continue
			}
			if w := delta(d); w != "" {
				return w
			}
		}
	}
	return ""
}

func atLimitOK(kind, args string) bool {
	switch kind {
	case "HDR", "RREP", "ITEM", "CHUNK", "DELTA", "TCHUNK":
		return false
	}
	return wfPacket(getBody(NewR(args), kind))
}

// ---------- C10
func xrBlockDest(b rtcp.ReportBlock) []uint32 {
	switch v := b.(type) {
	case *rtcp.LossRLEReportBlock:
		return []uint32{v.SSRC}
	case *rtcp.DuplicateRLEReportBlock:
		return []uint32{v.SSRC}
	case *rtcp.PacketReceiptTimesReportBlock:
		return []uint32{v.SSRC}
	case *rtcp.StatisticsSummaryReportBlock:
		return []uint32{v.SSRC}
	case *rtcp.VoIPMetricsReportBlock:
		return []uint32{v.SSRC}
	case *rtcp.DLRRReportBlock:
		out := []uint32{}
		for _, r := range v.Reports {
			out = append(out, r.SSRC)
		}
		return out
	}
	return nil
}

func specDest(p rtcp.Packet) []uint32 {
	out := []uint32{}
	switch v := p.(type) {
	case *rtcp.SenderReport:
		for _, r := range v.Reports {
			out = append(out, r.SSRC)
		}
		out = append(out, v.SSRC)
	case *rtcp.ReceiverReport:
		for _, r := range v.Reports {
			out = append(out, r.SSRC)
		}
	case *rtcp.SourceDescription:
		for _, c := range v.Chunks {
			out = append(out, c.Source)
		}
	case *rtcp.Goodbye:
		out = append(out, v.Sources...)
	case *rtcp.ApplicationDefined:
		out = append(out, v.SSRC)
	case *rtcp.TransportLayerNack:
		out = append(out, v.MediaSSRC)
	case *rtcp.PictureLossIndication:
		out = append(out, v.MediaSSRC)
	case *rtcp.RapidResynchronizationRequest:
		out = append(out, v.MediaSSRC)
	case *rtcp.SliceLossIndication:
		out = append(out, v.MediaSSRC)
	case *rtcp.TransportLayerCC:
		out = append(out, v.MediaSSRC)
	case *rtcp.FullIntraRequest:
		for _, e := range v.FIR {
			out = append(out, e.SSRC)
		}
	case *rtcp.ReceiverEstimatedMaximumBitrate:
		out = append(out, v.SSRCs...)
	case *rtcp.CCFeedbackReport:
		for _, b := range v.ReportBlocks {
			out = append(out, b.MediaSSRC)
		}
	case *rtcp.ExtendedReport:
		out = append(out, v.SenderSSRC)
		for _, b := range v.Reports {
			out = append(out, xrBlockDest(b)...)
		}
	case *rtcp.CompoundPacket:
		if len(*v) > 0 {
			return specDest((*v)[0])
		}
	}
	return out
}

// ---------- C11
func hasCNAME(s *rtcp.SourceDescription) (string, bool) {
	for _, c := range s.Chunks {
		for _, i := range c.Items {
			if i.Type == rtcp.SDESCNAME {
				return i.Text, true
			}
		}
	}
	return "", false
}

func specValidCompound(ps []rtcp.Packet) bool {
	if len(ps) == 0 {
		return false
	}
	switch ps[0].(type) {
	case *rtcp.SenderReport, *rtcp.ReceiverReport:
	default:
		return false
	}
	for _, p := range ps[1:] {
		switch v := p.(type) {
		case *rtcp.ReceiverReport:
			continue
		case *rtcp.SourceDescription:
			_, ok := hasCNAME(v)
			return ok
		default:
			return false
		}
	}
	return false
}

func specFirstCNAME(ps []rtcp.Packet) string {
	for _, p := range ps[1:] {
		if s, ok := p.(*rtcp.SourceDescription); ok {
			if t, ok := hasCNAME(s); ok {
				return t
			}
		}
	}
	return ""
}

// ---------- C12
func nackOracle(base, args, res string) string {
	if !hasPrefix(res, "ok") {
		if base == "nackpairs" || base == "plist" || base == "range" {
			return "helper failed: " + clip(res, 30)
		}
		return ""
	}
	a, o := NewR(args), NewR(res)
	o.S()
	pl := func(id, bm uint64) []uint16 {
		out := []uint16{uint16(id)}
		for i := uint64(0); i < 16; i++ {
			if bm>>i&1 == 1 {
				out = append(out, uint16(id+i+1))
			}
		}
		return out
	}
	readList := func() []uint16 {
		var l []uint16
		for n := o.N(); n > 0; n-- {
			l = append(l, uint16(o.U()))
		}
		return l
	}
	eq := func(x, y []uint16) bool {
		if len(x) != len(y) {
			return false
		}
		for i := range x {
			if x[i] != y[i] {
				return false
			}
		}
		return true
	}
	switch base {
	case "nackpairs":
		want := map[uint16]bool{}
		for n := a.N(); n > 0; n-- {
			want[uint16(a.U())] = true
		}
		got := map[uint16]bool{}
		for n := o.N(); n > 0; n-- {
			id, bm := o.U(), o.U()
			for _, s := range pl(id, bm) {
				got[s] = true
			}
		}
		for s := range want {
			if !got[s] {
				return fmt.Sprintf("sequence number %d is not covered", s)
			}
		}
		for s := range got {
			if !want[s] {
				return fmt.Sprintf("sequence number %d is covered but was not requested", s)
			}
		}
	case "plist":
		if !eq(pl(a.U(), a.U()), readList()) {
			return "PacketList differs from ID, ID+i+1 for set bits i ascending"
		}
	case "range":
		want := pl(a.U(), a.U())
		if k := a.N(); k > 0 && k < len(want) {
			want = want[:k]
		}
		if !eq(want, readList()) {
			return "Range visits other numbers than PacketList, or does not stop when told"
		}
	}
	return ""
}

// ---------- C13
func twccOracle(b []byte, tokens string) string {
	t := getBody(NewR(tokens), "TWCC").(*rtcp.TransportLayerCC)
	if len(b) < 20 {
		return "accepted a packet shorter than the fixed part"
	}
	end := (int(binary.BigEndian.Uint16(b[2:])) + 1) * 4
	if end > len(b) {
		end = len(b) // the type's own decoder keeps the length in 16 bits; the datagram path rejects such a frame
	}
	count := int(binary.BigEndian.Uint16(b[14:]))
	// st: the status symbols the chunks announce; a run length is clipped to what is left of the packet
	// status count, a status vector chunk always announces all its 14 or 7 symbols
	var st []int
	var wantChunks []string
	processed := 0
	off := 20
	for processed < count {
		if off+2 > end {
			return "status chunks run past the declared length"
		}
		w := int(binary.BigEndian.Uint16(b[off:]))
		off += 2
		left := count - processed
		switch {
		case w>>15 == 0:
			wantChunks = append(wantChunks, fmt.Sprintf("0 0 %d %d", w>>13&3, w&0x1fff))
		case w>>14&1 == 0:
			c := "1 1 0 14"
			for i := 13; i >= 0; i-- {
				c += fmt.Sprintf(" %d", w>>uint(i)&1)
			}
			wantChunks = append(wantChunks, c)
		default:
			c := "1 1 1 7"
			for i := 6; i >= 0; i-- {
				c += fmt.Sprintf(" %d", w>>uint(2*i)&3)
			}
			wantChunks = append(wantChunks, c)
		}
		switch {
		case w>>15 == 0:
			n := w & 0x1fff
			if n > left {
				n = left
			}
			for i := 0; i < n; i++ {
				st = append(st, w>>13&3)
			}
			processed += n
		case w>>14&1 == 0:
			for i := 13; i >= 0; i-- {
				st = append(st, w>>i&1)
			}
			processed += minInt(14, left)
		default:
			for i := 6; i >= 0; i-- {
				st = append(st, w>>(2*i)&3)
			}
			processed += minInt(7, left)
		}
	}
	var want []rtcp.RecvDelta
	for _, s := range st {
		switch s {
		case 1:
			if off+1 > end {
				return "receive deltas run past the declared length"
			}
			want = append(want, rtcp.RecvDelta{Type: 1, Delta: 250 * int64(b[off])})
			off++
		case 2:
			if off+2 > end {
				return "receive deltas run past the declared length"
			}
			want = append(want, rtcp.RecvDelta{Type: 2, Delta: 250 * int64(int16(binary.BigEndian.Uint16(b[off:])))})
			off += 2
		}
	}
	if len(wantChunks) != len(t.PacketChunks) {
		return fmt.Sprintf("%d status chunks before the status count is reached, %d decoded", len(wantChunks), len(t.PacketChunks))
	}
	for i, c := range t.PacketChunks {
		w := &W{}
		putTwccChunk(w, c)
		if w.String() != wantChunks[i] {
			return fmt.Sprintf("status chunk %d decodes to [%s], the wire word says [%s]", i, w.String(), wantChunks[i])
		}
	}
	if len(want) != len(t.RecvDeltas) {
		return fmt.Sprintf("%d packets marked received, %d deltas", len(want), len(t.RecvDeltas))
	}
	for i, d := range t.RecvDeltas {
		if d.Type != want[i].Type {
			return fmt.Sprintf("delta %d has size class %d, status symbol announces %d", i, d.Type, want[i].Type)
		}
		if d.Delta != want[i].Delta {
			return fmt.Sprintf("delta %d is %d, wire says %d", i, d.Delta, want[i].Delta)
		}
	}
	return ""
}

// ---------- C14
func rembExpect(x float64) (mant uint32, exp uint32) {
	const max = float64(0x3FFFF) * (1 << 63)
	if x >= max {
		return 0x3FFFF, 63
	}
	e := uint32(0)
	for x >= 1<<18 {
		x /= 2
		e++
	}
	return uint32(math.Floor(x)), e
}

func rembOracle(base, kind, args, res string) string {
	if kind != "REMB" {
		return ""
	}
	switch base {
	case "dec":
		b := NewR(args).H()
		if len(b) < 20 || !hasPrefix(res, "ok ") {
			if res == "err" && len(b) >= 20 && countFrames(b) == 1 && b[0] == 0x8f && b[1] == 206 && string(b[12:16]) == "REMB" &&
				len(b) == 20+4*int(b[16]) && binary.BigEndian.Uint32(b[8:]) == 0 {
				mant := uint32(b[17]&3)<<16 | uint32(b[18])<<8 | uint32(b[19])
				if mant == 0 {
					return "valid REMB rejected [remb-mantissa-zero]"
				}
				return "valid REMB rejected"
			}
			return ""
		}
		v := getBody(NewR(res[3:]), "REMB").(*rtcp.ReceiverEstimatedMaximumBitrate)
		exp := uint32(b[17] >> 2)
		mant := uint32(b[17]&3)<<16 | uint32(b[18])<<8 | uint32(b[19])
		want := float32(math.Ldexp(float64(mant), int(exp)))
		if int(b[16]) != len(v.SSRCs) {
			return "count octet differs from the number of SSRC entries"
		}
		for i, s := range v.SSRCs {
			if 24+4*i <= len(b) && s != binary.BigEndian.Uint32(b[20+4*i:]) {
				return fmt.Sprintf("SSRC entry %d differs from the wire", i)
			}
		}
		if v.Bitrate != want {
			why := fmt.Sprintf("decoded bitrate %g, wire says %d x 2^%d", v.Bitrate, mant, exp)
			if mant == 0 {
				why += " [remb-mantissa-zero]"
			}
			return why
		}
		if int(b[16]) != len(v.SSRCs) {
			return "count octet differs from the number of SSRC entries"
		}
	case "enc":
		v := getBody(NewR(args), "REMB").(*rtcp.ReceiverEstimatedMaximumBitrate)
		x := float64(v.Bitrate)
		if math.IsNaN(x) || math.IsInf(x, 0) {
			return ""
		}
		if !hasPrefix(res, "ok ") {
			if res == "err" && x >= 0 && len(v.SSRCs) <= 255 {
				return "non-negative finite bitrate rejected"
			}
			return ""
		}
		if x < 0 {
			return "negative bitrate accepted"
		}
		b := NewR(res[3:]).H()
		if len(b) < 20 {
			return "REMB shorter than 20 octets"
		}
		exp := uint32(b[17] >> 2)
		mant := uint32(b[17]&3)<<16 | uint32(b[18])<<8 | uint32(b[19])
		wm, we := rembExpect(x)
		if mant != wm || exp != we {
			return fmt.Sprintf("bitrate %g encoded as %d x 2^%d, expected %d x 2^%d", x, mant, exp, wm, we)
		}
		if int(b[16]) != len(v.SSRCs) || len(b) != 20+4*len(v.SSRCs) {
			return "count octet differs from the number of SSRC entries"
		}
		if lf := int(b[2])<<8 | int(b[3]); lf != len(b)/4-1 {
			return fmt.Sprintf("REMB with %d SSRC entries: the length field says %d words, the packet has %d", len(v.SSRCs), lf+1, len(b)/4)
		}
	}
	return ""
}

// ---------- C15
func xrOracle(args, res string) string {
	p := getBody(NewR(args), "XR").(*rtcp.ExtendedReport)
	f := strings.Fields(res)
	if len(f) < 2 {
		return ""
	}
	b := unhexOr(f[1])
	if len(b) < 8 {
		return "extended report shorter than its fixed part"
	}
	off := 8
	for i, blk := range p.Reports {
		if off+4 > len(b) {
			return tagged(fmt.Sprintf("block %d missing from the output", i), p, tagXR)
		}
		bt, ts := int(b[off]), int(b[off+1])
		size := (int(binary.BigEndian.Uint16(b[off+2:])) + 1) * 4
		if off+size > len(b) {
			return tagged(fmt.Sprintf("block %d: block length runs past the packet", i), p, tagXR)
		}
		hdr, omits, _, _ := xrParts(blk)
		kind := xrKindOf(blk)
		if kind != 0 && bt != kind {
			return fmt.Sprintf("block %d: block type %d for Go type of block type %d", i, bt, kind)
		}
		if kind == 0 && bt != int(hdr.BlockType) {
			return fmt.Sprintf("block %d: unknown block's type not preserved", i)
		}
		if want := xrBlockSizeSpec(blk); want%4 == 0 && size != want {
			return fmt.Sprintf("block %d: block length says %d octets, content has %d", i, size, want)
		} else if want%4 != 0 {
			return tagged(fmt.Sprintf("block %d: content of %d octets is not a whole number of words", i, want), p, tagXR)
		}
		wantTS := -1
		switch kind {
		case 1, 2, 3:
			if omits[0] <= 15 {
				wantTS = int(omits[0])
			}
		case 6:
			if omits[3] <= 3 {
				wantTS = int(omits[0]&1)<<7 | int(omits[1]&1)<<6 | int(omits[2]&1)<<5 | int(omits[3])<<3
			}
		case 4, 5, 7:
			wantTS = 0
		case 0:
			wantTS = int(hdr.TypeSpecific)
		}
		if wantTS >= 0 && ts != wantTS {
			return fmt.Sprintf("block %d: type-specific octet %#x, RFC 3611 positions give %#x", i, ts, wantTS)
		}
		if u, ok := blk.(*rtcp.UnknownReportBlock); ok && len(u.Bytes)%4 == 0 {
			if string(b[off+4:off+size]) != string(u.Bytes) {
				return fmt.Sprintf("block %d: unknown block's content not preserved", i)
			}
		}
		off += size
	}
	if off != len(b) {
		return tagged("blocks do not tile the packet", p, tagXR)
	}
	return ""
}

// size of a block per RFC 3611 (header word + fixed part + elements)
func xrBlockSizeSpec(b rtcp.ReportBlock) int {
	switch v := b.(type) {
	case *rtcp.LossRLEReportBlock:
		return 12 + 2*len(v.Chunks)
	case *rtcp.DuplicateRLEReportBlock:
		return 12 + 2*len(v.Chunks)
	case *rtcp.PacketReceiptTimesReportBlock:
		return 12 + 4*len(v.ReceiptTime)
	case *rtcp.ReceiverReferenceTimeReportBlock:
		return 12
	case *rtcp.DLRRReportBlock:
		return 4 + 12*len(v.Reports)
	case *rtcp.StatisticsSummaryReportBlock:
		return 40
	case *rtcp.VoIPMetricsReportBlock:
		return 36
	case *rtcp.UnknownReportBlock:
		return 4 + len(v.Bytes)
	}
	return 0
}

// ---------- C16: fixed-width wire units, each restated from its RFC diagram
func unitOracle(base, kind, args, res string) string {
	isOK := hasPrefix(res, "ok")
	switch base + "." + kind {
	case "dec.HDR":
		b := NewR(args).H()
		valid := len(b) >= 4 && b[0]>>6 == 2
		if valid != isOK {
			if isOK {
				return "header with a version other than 2 or fewer than 4 octets accepted"
			}
			return "valid header rejected"
		}
		if isOK {
			want := fmt.Sprintf("ok %d %d %d %d", b[0]>>5&1, b[0]&31, b[1], binary.BigEndian.Uint16(b[2:]))
			if res != want {
				return "decoded header fields differ from the RFC 3550 positions: want " + want
			}
		}
	case "enc.HDR":
		h := getHeader(NewR(args))
		if (h.Count <= 31) != isOK {
			if isOK {
				return "a count above 31 was encoded"
			}
			return "valid header rejected"
		}
		if isOK {
			b0 := byte(0x80) | h.Count
			if h.Padding {
				b0 |= 0x20
			}
			want := okHex([]byte{b0, byte(h.Type), byte(h.Length >> 8), byte(h.Length)})
			if res != want {
				return "encoded header differs from the RFC 3550 layout: want " + want
			}
		}
	case "dec.DELTA":
		b := NewR(args).H()
		want := "err"
		if len(b) == 1 {
			want = fmt.Sprintf("ok 1 %d", 250*int64(b[0]))
		} else if len(b) == 2 {
			want = fmt.Sprintf("ok 2 %d", 250*int64(int16(binary.BigEndian.Uint16(b))))
		}
		if res != want {
			return "receive delta decodes to " + clip(res, 30) + ", want " + want
		}
	case "enc.DELTA":
		r := NewR(args)
		typ, d := r.U(), r.I()
		q := d / 250
		want := "err"
		if typ == 1 && q >= 0 && q <= 255 {
			want = okHex([]byte{byte(q)})
		} else if typ == 2 && q >= -32768 && q <= 32767 {
			want = okHex([]byte{byte(uint16(q) >> 8), byte(q)})
		}
		if res != want {
			return "receive delta encodes to " + clip(res, 30) + ", want " + want
		}
	case "dec.RREP":
		b := NewR(args).H()
		if len(b) < 24 {
			if isOK {
				return "reception report shorter than 24 octets accepted"
			}
			return ""
		}
		be := binary.BigEndian
		want := fmt.Sprintf("ok %d %d %d %d %d %d %d", be.Uint32(b), b[4], uint32(b[5])<<16|uint32(b[6])<<8|uint32(b[7]),
			be.Uint32(b[8:]), be.Uint32(b[12:]), be.Uint32(b[16:]), be.Uint32(b[20:]))
		if res != want {
			return "reception report decodes to other fields than RFC 3550 §6.4.1 assigns"
		}
	case "enc.RREP":
		x := getRRep(NewR(args))
		if x.TotalLost < 1<<24 && !isOK {
			return "a reception report whose fields all fit their wire widths is rejected"
		}
		if x.TotalLost >= 1<<24 && isOK {
			return "cumulative lost of 2^24 or more encoded"
		}
		if isOK {
			b := make([]byte, 24)
			be := binary.BigEndian
			be.PutUint32(b, x.SSRC)
			be.PutUint32(b[4:], x.TotalLost)
			b[4] = x.FractionLost
			be.PutUint32(b[8:], x.LastSequenceNumber)
			be.PutUint32(b[12:], x.Jitter)
			be.PutUint32(b[16:], x.LastSenderReport)
			be.PutUint32(b[20:], x.Delay)
			if res != okHex(b) {
				return "reception report encodes differently from RFC 3550 §6.4.1"
			}
		}
	case "ccfbmetric.dec":
		b := NewR(args).H()
		if len(b) != 2 {
			return ""
		}
		w := binary.BigEndian.Uint16(b)
		want := "ok 0 0 0"
		if w>>15 == 1 {
			want = fmt.Sprintf("ok 1 %d %d", w>>13&3, w&0x1fff)
		}
		if res != want {
			return "metric block decodes to " + clip(res, 30) + ", RFC 8888 says " + want
		}
	case "ccfbmetric.enc":
		m := getMetric(NewR(args))
		if !isOK || m.ECN > 3 || m.ArrivalTimeOffset > 0x1fff || (!m.Received && (m.ECN != 0 || m.ArrivalTimeOffset != 0)) {
			return "" // outside the well-formed values (a block not received carries no ECN / arrival time)
		}
		w := uint16(0)
		if m.Received {
			w = 1<<15 | uint16(m.ECN)<<13 | m.ArrivalTimeOffset
		}
		if res != okHex([]byte{byte(w >> 8), byte(w)}) {
			return "metric block encodes differently from RFC 8888"
		}
	case "xrchunk.":
		c := NewR(args).U()
		want := ""
		switch {
		case c == 0:
			want = "ok 2 0 1 0" // terminating null; RunType is an error
		case c>>15 == 1:
			want = fmt.Sprintf("ok 1 0 1 %d", c&0x7fff)
		default:
			want = fmt.Sprintf("ok 0 %d 0 %d", c>>14&1, c&0x3fff)
		}
		if res != want {
			return fmt.Sprintf("XR chunk %#04x: accessors give %s, RFC 3611 §4.1.1-4.1.3 give %s", c, clip(res, 30), want)
		}
	case "enc.TCHUNK":
		c := getTwccChunk(NewR(args))
		want := ""
		switch v := c.(type) {
		case *rtcp.RunLengthChunk:
			if v.PacketStatusSymbol < 4 && v.RunLength < 8192 { // the chunk kind is the Go type: the Type field is not consulted
				w := v.PacketStatusSymbol<<13 | v.RunLength
				want = okHex([]byte{byte(w >> 8), byte(w)})
			}
		case *rtcp.StatusVectorChunk:
			if v.SymbolSize == 0 && len(v.SymbolList) == 14 {
				w := uint16(0x8000)
				ok := true
				for i, s := range v.SymbolList {
					ok = ok && s < 2
					w |= s & 1 << uint(13-i)
				}
				if ok {
					want = okHex([]byte{byte(w >> 8), byte(w)})
				}
			}
			if v.SymbolSize == 1 && len(v.SymbolList) == 7 {
				w := uint16(0xC000)
				ok := true
				for i, s := range v.SymbolList {
					ok = ok && s < 4
					w |= s & 3 << uint(2*(6-i))
				}
				if ok {
					want = okHex([]byte{byte(w >> 8), byte(w)})
				}
			}
		}
		if want != "" && res != want {
			return "status chunk encodes to " + clip(res, 20) + ", the draft's bit positions give " + want
		}
	case "dec.RLC":
		b := NewR(args).H()
		if len(b) != 2 || b[0]>>7 != 0 || !isOK {
			return ""
		}
		w := binary.BigEndian.Uint16(b)
		if want := fmt.Sprintf("ok 0 0 %d %d", w>>13&3, w&0x1fff); res != want {
			return "run-length chunk decodes to " + clip(res, 30) + ", want " + want
		}
	case "dec.SVC":
		b := NewR(args).H()
		if len(b) != 2 || b[0]>>7 != 1 || !isOK {
			return ""
		}
		w := binary.BigEndian.Uint16(b)
		want := ""
		if w>>14&1 == 0 {
			want = "ok 1 1 0 14"
			for i := 13; i >= 0; i-- {
				want += fmt.Sprintf(" %d", w>>uint(i)&1)
			}
		} else {
			want = "ok 1 1 1 7"
			for i := 6; i >= 0; i-- {
				want += fmt.Sprintf(" %d", w>>uint(2*i)&3)
			}
		}
		if res != want {
			return "status vector chunk decodes to " + clip(res, 40) + ", want " + want
		}
	}
	return ""
}

// ---------- C15 on the decode side: blocks are delimited by their own length fields, each decodes to the Go type
// of its block type, in order
func xrDecOracle(b []byte, tokens string) string {
	if len(b) < 8 {
		return "extended report shorter than its fixed part accepted"
	}
	end := (int(binary.BigEndian.Uint16(b[2:])) + 1) * 4
	if end > len(b) || end < 8 {
		end = len(b)
	}
	var kinds []int
	for off := 8; off < end; {
		if off+4 > end {
			return "" // not a tiling of whole blocks: the decoder is lenient here and C15 speaks of marshalled reports
		}
		bt := int(b[off])
		size := (int(binary.BigEndian.Uint16(b[off+2:])) + 1) * 4
		if off+size > end {
			return ""
		}
		if bt >= 1 && bt <= 7 {
			kinds = append(kinds, bt)
		} else {
			kinds = append(kinds, 0)
		}
		off += size
	}
	p := getBody(NewR(tokens), "XR").(*rtcp.ExtendedReport)
	if len(p.Reports) != len(kinds) {
		return fmt.Sprintf("%d blocks on the wire, %d decoded", len(kinds), len(p.Reports))
	}
	off := 8
	for i, blk := range p.Reports {
		if xrKindOf(blk) != kinds[i] {
			return fmt.Sprintf("block %d of wire type %d decodes to the Go type of block type %d", i, kinds[i], xrKindOf(blk))
		}
		ts := int(b[off+1])
		_, omits, _, _ := xrParts(blk)
		switch kinds[i] {
		case 1, 2, 3:
			if len(omits) == 1 && int(omits[0]) != ts&0x0f {
				return fmt.Sprintf("block %d: thinning T decodes as %d, the low four bits of the type-specific octet %#x are %d", i, omits[0], ts, ts&0x0f)
			}
		case 6:
			if len(omits) == 4 && (int(omits[0]) != ts>>7&1 || int(omits[1]) != ts>>6&1 || int(omits[2]) != ts>>5&1 || int(omits[3]) != ts>>3&3) {
				return fmt.Sprintf("block %d: L/D/J/ToH decode as %v from type-specific octet %#x", i, omits, ts)
			}
		}
		off += (int(binary.BigEndian.Uint16(b[off+2:])) + 1) * 4
	}
	return ""
}

// expected (packet type, count/FMT) of a packet value, per the RFCs (C05, C03)
func specTypeCount(p rtcp.Packet) (pt, count int, ok bool) {
	switch v := p.(type) {
	case *rtcp.SenderReport:
		return 200, len(v.Reports), true
	case *rtcp.ReceiverReport:
		return 201, len(v.Reports), true
	case *rtcp.SourceDescription:
		return 202, len(v.Chunks), true
	case *rtcp.Goodbye:
		return 203, len(v.Sources), true
	case *rtcp.ApplicationDefined:
		return 204, int(v.SubType), true
	case *rtcp.TransportLayerNack:
		return 205, 1, true
	case *rtcp.RapidResynchronizationRequest:
		return 205, 5, true
	case *rtcp.CCFeedbackReport:
		return 205, 11, true
	case *rtcp.PictureLossIndication:
		return 206, 1, true
	case *rtcp.SliceLossIndication:
		return 206, 2, true
	case *rtcp.FullIntraRequest:
		return 206, 4, true
	case *rtcp.ReceiverEstimatedMaximumBitrate:
		return 206, 15, true
	case *rtcp.ExtendedReport:
		return 207, 0, true
	}
	return 0, 0, false
}

// ccfbDecOracle: the metric blocks of every report block as the library's own wire convention defines them
// (num_reports field k > 0 stands for k+1 metric blocks, 0 for none): each block decodes on its own
// ccfbValidLib: b is one CCFB frame whose report blocks tile the packet exactly up to the timestamp, in the library's
// reading of num_reports (k > 0 stands for k+1 metric blocks), with no block running past sequence number 65535 and
// none over the 16384-block limit
func ccfbValidLib(b []byte) bool {
	if len(b) < 12 || b[0] != 0x8b || b[1] != 205 || countFrames(b) != 1 {
		return false
	}
	off := 8
	for off < len(b)-4 {
		if off+8 > len(b)-4 {
			return false
		}
		begin := int(binary.BigEndian.Uint16(b[off+4:]))
		k := int(binary.BigEndian.Uint16(b[off+6:]))
		n := 0
		if k > 0 {
			n = k + 1
		}
		if n > 16384 || (n > 0 && begin+n-1 > 65535) {
			return false
		}
		off += 8 + 2*(n+n%2)
	}
	return off == len(b)-4
}

func ccfbDecOracle(b []byte, tokens string) string {
	p := getBody(NewR(tokens), "CCFB").(*rtcp.CCFeedbackReport)
	end := (int(binary.BigEndian.Uint16(b[2:])) + 1) * 4
	if end > len(b) || end < 12 {
		return ""
	}
	off := 8
	for i, blk := range p.ReportBlocks {
		if off+8 > end-4 {
			return "" // blocks and timestamp overlap: not a valid encoding, the decoder is lenient; C04 speaks of valid ones
		}
		k := int(binary.BigEndian.Uint16(b[off+6:]))
		n := 0
		if k > 0 {
			n = k + 1
		}
		if len(blk.MetricBlocks) != n {
			return fmt.Sprintf("report block %d decodes with %d metric blocks, its num_reports field stands for %d", i, len(blk.MetricBlocks), n)
		}
		off += 8 + 2*(n+n%2)
	}
	return ""
}
