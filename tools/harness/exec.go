package main

// Executes one operation line against the real package (in-process, under recover) and returns the
// canonical result line. Only the outcome class of an error is reported (DESIGN §3).

import (
	"bytes"
	"encoding/hex"
	"fmt"
	"os"
	"reflect"
	"runtime"
	"runtime/debug"
	"strings"

	"github.com/pion/rtcp"
)

// allocation budget for one decode call: fixed slack + bytes per input octet (DESIGN §6 C01)
const allocFixed = 4 << 20
const allocPerOctet = 512

func exactCap(b []byte) []byte {
	c := make([]byte, len(b))
	copy(c, b)
	return c[:len(b):len(b)]
}

// poisoned returns b inside a larger array whose surplus capacity is filled with 0xA5 and a copy of
// the plain content for comparison.
func poisoned(b []byte) []byte {
	big := make([]byte, len(b)+64)
	copy(big, b)
	for i := len(b); i < len(big); i++ {
		big[i] = 0xA5
	}
	return big[:len(b)]
}

func guarded(f func() string) (out string) {
	defer func() {
		if r := recover(); r != nil {
			if pe, ok := r.(parseErr); ok {
				out = "bad-op " + pe.msg
				return
			}
			if os.Getenv("VERIF_PANIC_TRACE") != "" {
				fmt.Fprintf(os.Stderr, "panic: %v\n%s\n", r, debug.Stack())
			}
			out = "panic"
		}
	}()
	return f()
}

// measured runs a decode under an allocation budget
func measured(inputLen int, f func() string) string {
	var m0, m1 runtime.MemStats
	runtime.ReadMemStats(&m0)
	out := guarded(f)
	runtime.ReadMemStats(&m1)
	alloc := m1.TotalAlloc - m0.TotalAlloc
	if alloc > uint64(allocFixed+allocPerOctet*inputLen) {
		return fmt.Sprintf("blowup alloc=%d len=%d", alloc, inputLen)
	}
	return out
}

func okHex(b []byte) string {
	if len(b) == 0 {
		return "ok -"
	}
	return "ok " + hex.EncodeToString(b)
}

func unitIndex(s string) int {
	units := []string{"b", "Kb", "Mb", "Gb", "Tb", "Pb", "Eb"}
	f := strings.Fields(s)
	if len(f) == 0 {
		return -1
	}
	last := strings.TrimSuffix(f[len(f)-1], "/s")
	for i, u := range units {
		if u == last {
			return i
		}
	}
	return -1
}

func execOp(line string) string {
	sp := strings.IndexByte(line, ' ')
	op, args := line, ""
	if sp >= 0 {
		op, args = line[:sp], line[sp+1:]
	}
	dot := strings.IndexByte(op, '.')
	base, kind := op, ""
	if dot >= 0 {
		base, kind = op[:dot], op[dot+1:]
	}
	switch base {
	case "dec":
		r := NewR(args)
		b := exactCap(r.H())
		return measured(len(b), func() string { return execDec(kind, b) })
	case "decp":
		// a type's own decoder on a buffer whose capacity extends past its length into foreign (poisoned) memory
		plain := NewR(args).H()
		b := poisoned(plain)
		return measured(len(b), func() string { return execDec(kind, b) })
	case "enc":
		return guarded(func() string { return execEnc(kind, NewR(args)) })
	case "enccap":
		// Marshal of a value whose slices have spare capacity behind their length (as append and decoders leave them):
		// the encoding depends on lengths only
		return guarded(func() string {
			p := getBody(NewR(args), kind)
			if kind != "RAW" {
				plantCanaries(p)
			}
			b, err := p.Marshal()
			if err != nil {
				return "err"
			}
			return okHex(b)
		})
	case "size":
		return guarded(func() string {
			p := getBody(NewR(args), kind)
			return fmt.Sprintf("ok %d", p.MarshalSize())
		})
	case "hdr":
		return guarded(func() string {
			p := getBody(NewR(args), kind)
			h, ok := p.(interface{ Header() rtcp.Header })
			if !ok {
				return "bad-op no Header()"
			}
			w := &W{}
			w.S("ok")
			putHeader(w, h.Header())
			return w.String()
		})
	case "len":
		return guarded(func() string {
			p := getBody(NewR(args), kind)
			switch v := p.(type) {
			case *rtcp.TransportLayerCC:
				return fmt.Sprintf("ok %d", v.Len())
			case *rtcp.CCFeedbackReport:
				return fmt.Sprintf("ok %d", v.Len())
			}
			return "bad-op no Len()"
		})
	case "dst":
		return guarded(func() string {
			p := getBody(NewR(args), kind)
			return dstLine(p.DestinationSSRC())
		})
	case "str":
		return guarded(func() string {
			p := getBody(NewR(args), kind)
			if s, ok := p.(fmt.Stringer); ok {
				_ = s.String()
			}
			_ = fmt.Sprintf("%v", p)
			_ = fmt.Sprintf("%+v", p)
			return "ok"
		})
	case "udec":
		b := exactCap(NewR(args).H())
		return measured(len(b), func() string {
			ps, err := rtcp.Unmarshal(b)
			if err != nil {
				return "err"
			}
			return "ok " + packetsTokens(ps)
		})
	case "udecp":
		plain := NewR(args).H()
		b := poisoned(plain)
		return measured(len(b), func() string {
			ps, err := rtcp.Unmarshal(b)
			if err != nil {
				return "err"
			}
			return "ok " + packetsTokens(ps)
		})
	case "uenc":
		return guarded(func() string {
			ps := getPackets(NewR(args))
			b, err := rtcp.Marshal(ps)
			if err != nil {
				if len(b) != 0 {
					return fmt.Sprintf("err-with-bytes %d", len(b))
				}
				return "err"
			}
			return okHex(b)
		})
	case "cval":
		return guarded(func() string {
			c := rtcp.CompoundPacket(getPackets(NewR(args)))
			if err := c.Validate(); err != nil {
				return "err"
			}
			return "ok"
		})
	case "ccname":
		return guarded(func() string {
			c := rtcp.CompoundPacket(getPackets(NewR(args)))
			s, err := c.CNAME()
			if err != nil {
				return "err"
			}
			return okHex([]byte(s))
		})
	case "cenc":
		return guarded(func() string {
			c := rtcp.CompoundPacket(getPackets(NewR(args)))
			b, err := c.Marshal()
			if err != nil {
				if len(b) != 0 {
					return fmt.Sprintf("err-with-bytes %d", len(b))
				}
				return "err"
			}
			return okHex(b)
		})
	case "cdec":
		b := exactCap(NewR(args).H())
		return measured(len(b), func() string {
			var c rtcp.CompoundPacket
			if err := c.Unmarshal(b); err != nil {
				return "err"
			}
			return "ok " + packetsTokens([]rtcp.Packet(c))
		})
	case "csize":
		return guarded(func() string {
			c := rtcp.CompoundPacket(getPackets(NewR(args)))
			return fmt.Sprintf("ok %d", c.MarshalSize())
		})
	case "cdst":
		return guarded(func() string {
			c := rtcp.CompoundPacket(getPackets(NewR(args)))
			return dstLine(c.DestinationSSRC())
		})
	case "nackpairs":
		return guarded(func() string {
			r := NewR(args)
			var seqs []uint16
			for n := r.N(); n > 0; n-- {
				seqs = append(seqs, uint16(r.U()))
			}
			pairs := rtcp.NackPairsFromSequenceNumbers(seqs)
			w := &W{}
			w.S("ok").U(uint64(len(pairs)))
			for _, p := range pairs {
				w.U(uint64(p.PacketID)).U(uint64(p.LostPackets))
			}
			return w.String()
		})
	case "plist":
		return guarded(func() string {
			r := NewR(args)
			p := rtcp.NackPair{PacketID: uint16(r.U()), LostPackets: rtcp.PacketBitmap(r.U())}
			l := p.PacketList()
			w := &W{}
			w.S("ok").U(uint64(len(l)))
			for _, s := range l {
				w.U(uint64(s))
			}
			return w.String()
		})
	case "range":
		return guarded(func() string {
			r := NewR(args)
			p := rtcp.NackPair{PacketID: uint16(r.U()), LostPackets: rtcp.PacketBitmap(r.U())}
			k := r.N() // the callback returns false on its k-th call (k>=1); k=0: never
			var seen []uint16
			p.Range(func(s uint16) bool {
				seen = append(seen, s)
				return !(k > 0 && len(seen) >= k)
			})
			w := &W{}
			w.S("ok").U(uint64(len(seen)))
			for _, s := range seen {
				w.U(uint64(s))
			}
			return w.String()
		})
	case "rembunit":
		return guarded(func() string {
			p := getBody(NewR("0 "+args+" 0"), "REMB").(*rtcp.ReceiverEstimatedMaximumBitrate)
			return fmt.Sprintf("ok %d", unitIndex(p.String()))
		})
	case "enumstr":
		return guarded(func() string {
			r := NewR(args)
			n := r.U()
			var s string
			switch kind {
			case "PacketType":
				s = rtcp.PacketType(n).String()
			case "SDESType":
				s = rtcp.SDESType(n).String()
			case "BlockTypeType":
				s = rtcp.BlockTypeType(n).String()
			case "TTLorHopLimitType":
				s = rtcp.TTLorHopLimitType(n).String()
			case "Chunk":
				s = rtcp.Chunk(n).String()
			default:
				return "bad-op enum"
			}
			return okHex([]byte(s))
		})
	case "xrchunk":
		return guarded(func() string {
			c := rtcp.Chunk(NewR(args).U())
			rt, err := c.RunType()
			e := 0
			if err != nil {
				e = 1
			}
			return fmt.Sprintf("ok %d %d %d %d", c.Type(), rt, e, c.Value())
		})
	case "util":
		return guarded(func() string { return execUtil(kind, NewR(args)) })
	case "ccfbblock":
		return guarded(func() string { return execCcfbBlock(kind, NewR(args)) })
	case "ccfbmetric":
		return guarded(func() string { return execCcfbMetric(kind, NewR(args)) })
	case "rt":
		return guarded(func() string {
			ps := getPackets(NewR(args))
			b, err := rtcp.Marshal(ps)
			if err != nil {
				return "err"
			}
			ps2, err := rtcp.Unmarshal(exactCap(b))
			if err != nil {
				return "ok " + hexOrDash(b) + " ; err"
			}
			t2 := packetsTokens(ps2)
			b2, err := rtcp.Marshal(ps2)
			if err != nil {
				return "ok " + hexOrDash(b) + " ; " + t2 + " ; err"
			}
			return "ok " + hexOrDash(b) + " ; " + t2 + " ; " + hexOrDash(b2)
		})
	case "rto":
		return guarded(func() string {
			p := getBody(NewR(args), kind)
			b, err := p.Marshal()
			if err != nil {
				return "err"
			}
			q := newPacket(kind)
			if err := q.Unmarshal(exactCap(b)); err != nil {
				return "deerr"
			}
			return "ok " + bodyTokens(q)
		})
	case "decv":
		f := strings.Fields(args)
		if len(f) == 0 {
			return "bad-op decv"
		}
		b := exactCap(unhexOr(f[0]))
		return measured(len(b), func() string { return execDec(kind, b) })
	case "concat":
		f := strings.Fields(args)
		if len(f) != 2 {
			return "bad-op concat"
		}
		a, b := unhexOr(f[0]), unhexOr(f[1])
		one := func(x []byte) string {
			return guarded(func() string {
				ps, err := rtcp.Unmarshal(exactCap(x))
				if err != nil {
					return "err"
				}
				return packetsTokens(ps)
			})
		}
		ra, rb, rab := one(a), one(b), one(append(append([]byte{}, a...), b...))
		if ra == "panic" || rb == "panic" || rab == "panic" {
			return "panic"
		}
		return "ok " + ra + " ; " + rb + " ; " + rab
	case "rembto":
		// ReceiverEstimatedMaximumBitrate.MarshalTo into a caller's buffer of the given length: `rembto <body> <buflen>`
		return guarded(func() string {
			r := NewR(args)
			p := getBody(r, "REMB").(*rtcp.ReceiverEstimatedMaximumBitrate)
			bl := r.N()
			buf := make([]byte, bl)
			for i := range buf {
				buf[i] = 0xAA
			}
			n, err := p.MarshalTo(buf)
			if err != nil {
				return "err"
			}
			if n < 0 || n > bl {
				return fmt.Sprintf("mutated MarshalTo reports %d octets for a buffer of %d", n, bl)
			}
			for _, x := range buf[n:] {
				if x != 0xAA {
					return "mutated caller-buffer-behind-the-packet"
				}
			}
			return fmt.Sprintf("ok %d %s", n, hexOrDash(buf[:n]))
		})
	case "newcname":
		return guarded(func() string {
			r := NewR(args)
			ssrc := uint32(r.U())
			return "ok " + bodyTokens(rtcp.NewCNAMESourceDescription(ssrc, string(r.H())))
		})
	case "itemlen":
		return guarded(func() string { return fmt.Sprintf("ok %d", getItem(NewR(args)).Len()) })
	case "dst2":
		// decode A, take DestinationSSRC, decode B into the same value, take it again: the first list must not change
		f := strings.Fields(args)
		if len(f) != 2 {
			return "bad-op dst2"
		}
		a, b := exactCap(unhexOr(f[0])), exactCap(unhexOr(f[1]))
		return guarded(func() string {
			p := newPacket(kind)
			if err := p.Unmarshal(a); err != nil {
				return "err"
			}
			d1 := p.DestinationSSRC()
			snap := append([]uint32{}, d1...)
			if err := p.Unmarshal(b); err != nil {
				return dstLine(snap) + " ; err"
			}
			d2 := p.DestinationSSRC()
			if kind != "REMB" && !eqU32(d1, snap) {
				return "mutated list-returned-by-an-earlier-DestinationSSRC"
			}
			return dstLine(snap) + " ; " + dstLine(d2)
		})
	case "plist2":
		// the same NackPair value read twice: PacketList, a Range stopped at its k-th call, PacketList again
		return guarded(func() string {
			r := NewR(args)
			p := &rtcp.NackPair{PacketID: uint16(r.U()), LostPackets: rtcp.PacketBitmap(r.U())}
			k := r.N()
			l1 := p.PacketList()
			calls := 0
			p.Range(func(uint16) bool { calls++; return !(k > 0 && calls >= k) })
			l2 := p.PacketList()
			w := &W{}
			w.S("ok").U(uint64(len(l1)))
			for _, x := range l1 {
				w.U(uint64(x))
			}
			w.S(";").U(uint64(len(l2)))
			for _, x := range l2 {
				w.U(uint64(x))
			}
			w.S(";").U(uint64(p.PacketID)).U(uint64(p.LostPackets))
			return w.String()
		})
	case "decalias":
		// does the decoded value share memory with the buffer it was decoded from? decode, scribble over the
		// buffer, compare the value with what it was
		raw := NewR(args).H()
		buf := exactCap(raw)
		return measured(len(buf), func() string {
			p := newPacket(kind)
			if err := p.Unmarshal(buf); err != nil {
				return "err"
			}
			before := bodyTokens(p)
			for i := range buf {
				buf[i] ^= 0x5A
			}
			if bodyTokens(p) != before {
				return "ok alias"
			}
			return "ok copy"
		})
	case "crt":
		// CompoundPacket.Marshal, then CompoundPacket.Unmarshal of the result
		return guarded(func() string {
			c := rtcp.CompoundPacket(getPackets(NewR(args)))
			b, err := c.Marshal()
			if err != nil {
				return "err"
			}
			var d rtcp.CompoundPacket
			if err := d.Unmarshal(exactCap(b)); err != nil {
				return "ok " + hexOrDash(b) + " ; err"
			}
			return "ok " + hexOrDash(b) + " ; " + packetsTokens([]rtcp.Packet(d))
		})
	case "reuse":
		// reuse.K <hex A> <hex B>: decode A, then decode B into the SAME receiver; the result must be what a fresh
		// receiver gives for B (err when B is rejected, whatever A left behind)
		f := strings.Fields(args)
		if len(f) != 2 {
			return "bad-op reuse"
		}
		a, b := exactCap(unhexOr(f[0])), exactCap(unhexOr(f[1]))
		return measured(len(a)+len(b), func() string {
			switch kind {
			case "HDR", "RREP", "CHUNK", "ITEM", "RLC", "SVC", "DELTA", "COMPOUND":
				return reuseSub(kind, a, b)
			}
			p := newPacket(kind)
			_ = p.Unmarshal(a)
			// a copy of the value taken now (sharing its slices, as `held := *p` does) must not change when p is decoded into again
			held, t0 := shallowCopy(p), ""
			if held != nil {
				t0 = packetTokens(held)
			}
			err := p.Unmarshal(b)
			if held != nil && packetTokens(held) != t0 {
				return "mutated value-copied-from-the-receiver-before-the-second-Unmarshal"
			}
			if err != nil {
				return "err"
			}
			return "ok " + bodyTokens(p)
		})
	case "hold":
		// hold.K <value 1> | <value 2>: the bytes returned for value 1 must not change when value 2 is marshalled
		parts := strings.SplitN(args, " | ", 2)
		if len(parts) != 2 {
			return "bad-op hold"
		}
		return guarded(func() string {
			b1, e1 := marshalAny(kind, NewR(parts[0]))
			snap := append([]byte{}, b1...)
			b2, e2 := marshalAny(kind, NewR(parts[1]))
			if e1 == nil && kind != "RAW" && !bytes.Equal(b1, snap) {
				return "mutated bytes-returned-by-an-earlier-Marshal"
			}
			if kind != "RAW" { // the caller owns what Marshal returned: writing into it must not show in a later result
				snap2 := append([]byte{}, b2...)
				for i := range b1 {
					b1[i] ^= 0xff
				}
				if len(b2) > 0 && (len(b1) == 0 || &b2[0] != &b1[0]) {
					for i := range b2 {
						b2[i] ^= 0xff
					}
				}
				b3, e3 := marshalAny(kind, NewR(parts[0]))
				b4, e4 := marshalAny(kind, NewR(parts[1]))
				if (e1 == nil && e3 == nil && !bytes.Equal(b3, snap)) || (e2 == nil && e4 == nil && !bytes.Equal(b4, snap2)) {
					return "mutated result-of-Marshal-after-the-caller-wrote-into-an-earlier-result"
				}
				b2 = snap2
			}
			f := func(b []byte, e error) string {
				if e != nil {
					return "err"
				}
				return hexOrDash(b)
			}
			return "ok " + f(snap, e1) + " ; " + f(b2, e2)
		})
	case "relay":
		// a forwarder: decode a datagram, insert a packet of its own behind the first one, marshal the list
		raw := NewR(args).H()
		buf := exactCap(raw)
		return guarded(func() string {
			ps, err := rtcp.Unmarshal(buf)
			if err != nil {
				return "err"
			}
			t0 := packetsTokens(ps)
			stable := func() string { // tokens of the packets, XR left out (its Marshal fills in block headers, as documented)
				var qs []rtcp.Packet
				for _, p := range ps {
					if _, ok := p.(*rtcp.ExtendedReport); !ok {
						qs = append(qs, p)
					}
				}
				return packetsTokens(qs)
			}
			s0 := stable()
			var want []byte
			pli := &rtcp.PictureLossIndication{SenderSSRC: 1, MediaSSRC: 2}
			for i, p := range ps {
				e, err := p.Marshal()
				if err != nil {
					return "ok " + t0 + " ; err"
				}
				want = append(want, e...)
				if i == 0 {
					e, _ := pli.Marshal()
					want = append(want, e...)
				}
			}
			list := append([]rtcp.Packet{ps[0], pli}, ps[1:]...)
			out, err := rtcp.Marshal(list)
			if err != nil {
				return "ok " + t0 + " ; err"
			}
			if stable() != s0 {
				return "mutated packets-given-to-Marshal"
			}
			if !bytes.Equal(buf, raw) {
				return "mutated input-buffer-of-Unmarshal"
			}
			c := "concat-ok"
			if !bytes.Equal(out, want) {
				c = "concat-differs"
			}
			return "ok " + t0 + " ; " + hexOrDash(out) + " ; " + c
		})
	case "reenc":
		b := exactCap(NewR(args).H())
		return guarded(func() string {
			ps, err := rtcp.Unmarshal(b)
			if err != nil {
				return "err"
			}
			t1 := packetsTokens(ps)
			var b2 []byte
			r2 := guarded(func() string {
				var e error
				b2, e = rtcp.Marshal(ps)
				if e != nil {
					return "err"
				}
				return "ok"
			})
			if r2 != "ok" {
				return "ok " + t1 + " ; " + r2
			}
			ps3, err := rtcp.Unmarshal(exactCap(b2))
			if err != nil {
				return "ok " + t1 + " ; " + hexOrDash(b2) + " ; err"
			}
			return "ok " + t1 + " ; " + hexOrDash(b2) + " ; " + packetsTokens(ps3)
		})
	case "encspec":
		return guarded(func() string {
			out := execEnc(kind, NewR(args))
			if kind == "XR" && strings.HasPrefix(out, "ok ") {
				if f := strings.Fields(out); len(f) >= 2 {
					return "ok " + f[1]
				}
			}
			return out
		})
	case "framed":
		return guarded(func() string {
			p := getBody(NewR(args), kind)
			size := p.MarshalSize() // what a caller sizing a buffer sees: taken before Marshal
			b, err := p.Marshal()
			if err != nil {
				return "err"
			}
			var h rtcp.Header
			hs := "err"
			if e := h.Unmarshal(b); e == nil {
				w := &W{}
				putHeader(w, h)
				hs = w.String()
			}
			if after := p.MarshalSize(); after != size {
				return fmt.Sprintf("ok %d %d %s size-after-Marshal=%d", len(b), size, hs, after)
			}
			return fmt.Sprintf("ok %d %d %s", len(b), size, hs)
		})
	case "rtdst":
		return guarded(func() string {
			ps := getPackets(NewR(args))
			if len(ps) != 1 {
				return "bad-op rtdst"
			}
			d1 := dstLine(ps[0].DestinationSSRC())
			b, err := rtcp.Marshal(ps)
			if err != nil {
				return "err"
			}
			ps2, err := rtcp.Unmarshal(exactCap(b))
			if err != nil || len(ps2) != 1 {
				return d1 + " ; err"
			}
			return d1 + " ; " + dstLine(ps2[0].DestinationSSRC())
		})
	case "strdec":
		b := exactCap(NewR(args).H())
		return guarded(func() string {
			ps, err := rtcp.Unmarshal(b)
			if err != nil {
				return "err"
			}
			for _, p := range ps {
				if s, ok := p.(fmt.Stringer); ok {
					_ = s.String()
				}
				_ = fmt.Sprintf("%v %+v", p, p)
			}
			_ = rtcp.CompoundPacket(ps).String()
			return "ok"
		})
	case "cstr":
		return guarded(func() string {
			c := rtcp.CompoundPacket(getPackets(NewR(args)))
			_ = c.String()
			_ = fmt.Sprintf("%v %+v", c, c)
			return "ok"
		})
	case "hist":
		return guarded(func() string { return execHist(NewR(args)) })
	}
	return "bad-op " + op
}

func dstLine(d []uint32) string {
	w := &W{}
	w.S("ok").U(uint64(len(d)))
	for _, s := range d {
		w.U(uint64(s))
	}
	return w.String()
}

func execDec(kind string, b []byte) string {
	switch kind {
	case "HDR":
		var h rtcp.Header
		if err := h.Unmarshal(b); err != nil {
			return "err"
		}
		w := &W{}
		w.S("ok")
		putHeader(w, h)
		return w.String()
	case "RREP":
		var x rtcp.ReceptionReport
		if err := x.Unmarshal(b); err != nil {
			return "err"
		}
		w := &W{}
		w.S("ok")
		putRRep(w, x)
		return w.String()
	case "CHUNK":
		var x rtcp.SourceDescriptionChunk
		if err := x.Unmarshal(b); err != nil {
			return "err"
		}
		w := &W{}
		w.S("ok")
		putChunk(w, x)
		return w.String()
	case "ITEM":
		var x rtcp.SourceDescriptionItem
		if err := x.Unmarshal(b); err != nil {
			return "err"
		}
		w := &W{}
		w.S("ok")
		putItem(w, x)
		return w.String()
	case "RLC":
		x := &rtcp.RunLengthChunk{}
		if err := x.Unmarshal(b); err != nil {
			return "err"
		}
		w := &W{}
		w.S("ok")
		putTwccChunk(w, x)
		return w.String()
	case "SVC":
		x := &rtcp.StatusVectorChunk{}
		if err := x.Unmarshal(b); err != nil {
			return "err"
		}
		w := &W{}
		w.S("ok")
		putTwccChunk(w, x)
		return w.String()
	case "DELTA":
		var x rtcp.RecvDelta
		if err := x.Unmarshal(b); err != nil {
			return "err"
		}
		return fmt.Sprintf("ok %d %d", x.Type, x.Delta)
	case "COMPOUND":
		var c rtcp.CompoundPacket
		if err := c.Unmarshal(b); err != nil {
			return "err"
		}
		return "ok " + packetsTokens([]rtcp.Packet(c))
	}
	p := newPacket(kind)
	if err := p.Unmarshal(b); err != nil {
		return "err"
	}
	return "ok " + bodyTokens(p)
}

// marshalAny: Marshal of a packet or sub-structure value read from tokens
func marshalAny(kind string, r *R) ([]byte, error) {
	switch kind {
	case "HDR":
		return getHeader(r).Marshal()
	case "RREP":
		return getRRep(r).Marshal()
	case "CHUNK":
		return getChunk(r).Marshal()
	case "ITEM":
		return getItem(r).Marshal()
	case "TCHUNK":
		return getTwccChunk(r).Marshal()
	case "DELTA":
		d := rtcp.RecvDelta{Type: uint16(r.U()), Delta: r.I()}
		return d.Marshal()
	}
	return getBody(r, kind).Marshal()
}

func execEnc(kind string, r *R) string {
	if kind == "XR" {
		p := getBody(r, kind)
		b, err := p.Marshal()
		if err != nil {
			if len(b) != 0 {
				return fmt.Sprintf("err-with-bytes %d", len(b))
			}
			return "err"
		}
		// Marshal fills in the blocks' header fields through the pointers: report the value afterwards
		return okHex(b) + " " + bodyTokens(p)
	}
	b, err := marshalAny(kind, r)
	if err != nil {
		if len(b) != 0 {
			return fmt.Sprintf("err-with-bytes %d", len(b))
		}
		return "err"
	}
	return okHex(b)
}

func execUtil(kind string, r *R) string {
	switch kind {
	case "getPadding":
		return fmt.Sprintf("ok %d", rtcp.VerifGetPadding(r.N()))
	case "setNBits":
		v, err := rtcp.VerifSetNBitsOfUint16(uint16(r.U()), uint16(r.U()), uint16(r.U()), uint16(r.U()))
		if err != nil {
			return "err"
		}
		return fmt.Sprintf("ok %d", v)
	case "appendNBits":
		return fmt.Sprintf("ok %d", rtcp.VerifAppendNBitsToUint32(uint32(r.U()), uint32(r.U()), uint32(r.U())))
	case "getNBits":
		return fmt.Sprintf("ok %d", rtcp.VerifGetNBitsFromByte(byte(r.U()), uint16(r.U()), uint16(r.U())))
	case "get24":
		return fmt.Sprintf("ok %d", rtcp.VerifGet24BitsFromBytes(r.H()))
	case "localMin":
		return fmt.Sprintf("ok %d", rtcp.VerifLocalMin(uint16(r.U()), uint16(r.U())))
	}
	return "bad-op util"
}

func execCcfbBlock(kind string, r *R) string {
	switch kind {
	case "enc":
		b, err := rtcp.VerifCCFBBlockMarshal(getCcfbBlock(r))
		if err != nil {
			return "err"
		}
		return okHex(b)
	case "dec":
		var blk rtcp.CCFeedbackReportBlock
		if err := rtcp.VerifCCFBBlockUnmarshal(&blk, exactCap(r.H())); err != nil {
			return "err"
		}
		w := &W{}
		w.S("ok")
		putCcfbBlock(w, blk)
		return w.String()
	case "len":
		blk := getCcfbBlock(r)
		return fmt.Sprintf("ok %d", rtcp.VerifCCFBBlockLen(&blk))
	}
	return "bad-op ccfbblock"
}

func execCcfbMetric(kind string, r *R) string {
	switch kind {
	case "reuse":
		var m rtcp.CCFeedbackMetricBlock
		_ = rtcp.VerifCCFBMetricUnmarshal(&m, exactCap(r.H()))
		if err := rtcp.VerifCCFBMetricUnmarshal(&m, exactCap(r.H())); err != nil {
			return "err"
		}
		w := &W{}
		w.S("ok")
		putMetric(w, m)
		return w.String()
	case "enc":
		b, err := rtcp.VerifCCFBMetricMarshal(getMetric(r))
		if err != nil {
			return "err"
		}
		return okHex(b)
	case "dec":
		var m rtcp.CCFeedbackMetricBlock
		if err := rtcp.VerifCCFBMetricUnmarshal(&m, exactCap(r.H())); err != nil {
			return "err"
		}
		w := &W{}
		w.S("ok")
		putMetric(w, m)
		return w.String()
	}
	return "bad-op ccfbmetric"
}

func reuseSub(kind string, a, b []byte) string {
	w := &W{}
	w.S("ok")
	switch kind {
	case "HDR":
		var x rtcp.Header
		_ = x.Unmarshal(a)
		if x.Unmarshal(b) != nil {
			return "err"
		}
		putHeader(w, x)
	case "RREP":
		var x rtcp.ReceptionReport
		_ = x.Unmarshal(a)
		if x.Unmarshal(b) != nil {
			return "err"
		}
		putRRep(w, x)
	case "CHUNK":
		var x rtcp.SourceDescriptionChunk
		_ = x.Unmarshal(a)
		if x.Unmarshal(b) != nil {
			return "err"
		}
		putChunk(w, x)
	case "ITEM":
		var x rtcp.SourceDescriptionItem
		_ = x.Unmarshal(a)
		if x.Unmarshal(b) != nil {
			return "err"
		}
		putItem(w, x)
	case "RLC":
		x := &rtcp.RunLengthChunk{}
		_ = x.Unmarshal(a)
		if x.Unmarshal(b) != nil {
			return "err"
		}
		putTwccChunk(w, x)
	case "SVC":
		x := &rtcp.StatusVectorChunk{}
		_ = x.Unmarshal(a)
		if x.Unmarshal(b) != nil {
			return "err"
		}
		putTwccChunk(w, x)
	case "DELTA":
		var x rtcp.RecvDelta
		_ = x.Unmarshal(a)
		if x.Unmarshal(b) != nil {
			return "err"
		}
		return fmt.Sprintf("ok %d %d", x.Type, x.Delta)
	case "COMPOUND":
		var c rtcp.CompoundPacket
		_ = c.Unmarshal(a)
		held := c // shares the backing array, as any copy of the value a caller keeps does
		t0 := packetsTokens([]rtcp.Packet(held))
		err := c.Unmarshal(b)
		if packetsTokens([]rtcp.Packet(held)) != t0 {
			return "mutated value-copied-from-the-receiver-before-the-second-Unmarshal"
		}
		if err != nil {
			return "err"
		}
		return "ok " + packetsTokens([]rtcp.Packet(c))
	}
	return w.String()
}

// shallowCopy: what `held := *p` gives a caller (struct copied, slices and pointers shared); nil for kinds it does not cover
func shallowCopy(p rtcp.Packet) rtcp.Packet {
	v := reflect.ValueOf(p)
	if v.Kind() != reflect.Ptr || v.IsNil() {
		return nil
	}
	c := reflect.New(v.Elem().Type())
	c.Elem().Set(v.Elem())
	q, ok := c.Interface().(rtcp.Packet)
	if !ok {
		return nil
	}
	return q
}
