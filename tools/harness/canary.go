package main

// Spare-capacity canaries (C18): every slice reachable from a packet value is re-allocated with a few
// elements of hidden capacity filled with a non-zero pattern. A callee that appends to, or re-slices, one
// of the caller's slices writes into that hidden region; comparing the full-capacity views before and
// after each call exposes it.

import (
	"reflect"
)

func fillCanary(v reflect.Value, seed *uint64) {
	*seed = *seed*6364136223846793005 + 1442695040888963407
	x := *seed >> 33
	switch v.Kind() {
	case reflect.Bool:
		v.SetBool(true)
	case reflect.Uint8, reflect.Uint16, reflect.Uint32, reflect.Uint64, reflect.Uint:
		v.SetUint((x | 1) & (1<<uint(v.Type().Bits()) - 1))
	case reflect.Int8, reflect.Int16, reflect.Int32, reflect.Int64, reflect.Int:
		v.SetInt(int64(x|1) & (1<<uint(v.Type().Bits()-1) - 1))
	case reflect.Float32, reflect.Float64:
		v.SetFloat(float64(x%1000) + 1)
	case reflect.Struct:
		for i := 0; i < v.NumField(); i++ {
			if v.Field(i).CanSet() {
				fillCanary(v.Field(i), seed)
			}
		}
	case reflect.String:
		v.SetString("canary")
	}
}

const canaryExtra = 3

// withCanaries rewrites v (addressable) in place and returns the list of slices it re-allocated
func withCanaries(v reflect.Value, out *[]reflect.Value, seed *uint64) {
	switch v.Kind() {
	case reflect.Ptr, reflect.Interface:
		if !v.IsNil() {
			e := v.Elem()
			if e.Kind() == reflect.Ptr && !e.IsNil() {
				withCanaries(e.Elem(), out, seed)
			} else if v.Kind() == reflect.Ptr {
				withCanaries(e, out, seed)
			}
		}
	case reflect.Struct:
		for i := 0; i < v.NumField(); i++ {
			if v.Field(i).CanSet() {
				withCanaries(v.Field(i), out, seed)
			}
		}
	case reflect.Slice:
		if v.IsNil() || !v.CanSet() {
			return
		}
		n := v.Len()
		s := reflect.MakeSlice(v.Type(), n+canaryExtra, n+canaryExtra)
		reflect.Copy(s, v)
		for i := n; i < n+canaryExtra; i++ {
			fillCanary(s.Index(i), seed)
		}
		v.Set(s.Slice3(0, n, n+canaryExtra))
		for i := 0; i < n; i++ {
			withCanaries(v.Index(i), out, seed)
		}
		*out = append(*out, v.Slice3(0, n, n+canaryExtra))
	}
}

type canarySet struct {
	live []reflect.Value // len n, cap n+extra
	snap []interface{}   // deep copies of the full-capacity views
}

func deepCopy(v reflect.Value) reflect.Value {
	switch v.Kind() {
	case reflect.Slice:
		if v.IsNil() {
			return v
		}
		c := reflect.MakeSlice(v.Type(), v.Len(), v.Len())
		for i := 0; i < v.Len(); i++ {
			c.Index(i).Set(deepCopy(v.Index(i)))
		}
		return c
	case reflect.Struct:
		c := reflect.New(v.Type()).Elem()
		c.Set(v)
		for i := 0; i < v.NumField(); i++ {
			if c.Field(i).CanSet() {
				c.Field(i).Set(deepCopy(v.Field(i)))
			}
		}
		return c
	case reflect.Ptr:
		if v.IsNil() {
			return v
		}
		c := reflect.New(v.Type().Elem())
		c.Elem().Set(deepCopy(v.Elem()))
		return c
	case reflect.Interface:
		if v.IsNil() {
			return v
		}
		c := reflect.New(v.Type()).Elem()
		c.Set(deepCopy(v.Elem()))
		return c
	}
	return v
}

func plantCanaries(p interface{}) *canarySet {
	cs := &canarySet{}
	seed := uint64(0x9E3779B97F4A7C15)
	withCanaries(reflect.ValueOf(p), &cs.live, &seed)
	for _, l := range cs.live {
		full := l.Slice3(0, l.Cap(), l.Cap())
		cs.snap = append(cs.snap, deepCopy(full).Interface())
	}
	return cs
}

// intact: no hidden element and no visible element of any planted slice has changed
func (cs *canarySet) intact() bool {
	for i, l := range cs.live {
		full := l.Slice3(0, l.Cap(), l.Cap())
		if !reflect.DeepEqual(full.Interface(), cs.snap[i]) {
			return false
		}
	}
	return true
}

func (cs *canarySet) resnap() {
	cs.snap = cs.snap[:0]
	for _, l := range cs.live {
		full := l.Slice3(0, l.Cap(), l.Cap())
		cs.snap = append(cs.snap, deepCopy(full).Interface())
	}
}
