package main

// C18, the part a theorem cannot exhibit: real goroutines under Go's race detector.
// `harness race -seed S -n N` (binary built with -race): (1) distinct packets, any mix of Marshal, MarshalSize,
// DestinationSSRC, String and Unmarshal, one packet per goroutine; (2) one shared packet, the read-only operations
// from many goroutines. Every result is compared with the result of the same operation run sequentially before.
// A data race makes the detector print a report and (GORACE=halt_on_error=1) exit with status 66.

import (
	"fmt"
	"os"
	"sync"

	"github.com/pion/rtcp"
)

type raceOp struct {
	name string
	run  func(p rtcp.Packet) string
}

func raceOps(kind string, r *Rng) []raceOp {
	ops := []raceOp{
		{"M", func(p rtcp.Packet) string {
			b, err := p.Marshal()
			if err != nil {
				return "err"
			}
			return hexOrDash(b)
		}},
		{"S", func(p rtcp.Packet) string { return fmt.Sprint(p.MarshalSize()) }},
		{"D", func(p rtcp.Packet) string { return fmt.Sprint(p.DestinationSSRC()) }},
		{"T", func(p rtcp.Packet) string {
			s := ""
			if st, ok := p.(fmt.Stringer); ok {
				s = st.String()
			}
			return fmt.Sprint(len(s), len(fmt.Sprintf("%+v", p)))
		}},
	}
	return ops
}

func runRace(seed uint64, n int) int {
	r := NewRng(seed ^ hashString("race"))
	bad := 0
	report := func(f string, a ...interface{}) {
		bad++
		if bad <= 5 {
			fmt.Printf("RACE-MISMATCH "+f+"\n", a...)
		}
	}
	const G = 8
	for round := 0; round < n; round++ {
		// (1) distinct packets of the same and of different kinds, full operation mix incl. Unmarshal
		type job struct {
			kind  string
			toks  string
			input []byte
			seq   []int
			want  []string
		}
		jobs := make([]*job, G)
		for g := range jobs {
			k := allKinds[r.Intn(len(allKinds))]
			if g%2 == 1 { // pairs of the same kind: shared static state of a codec would be hit
				k = jobs[g-1].kind
			}
			j := &job{kind: k, toks: bodyTokens(genValue(r, k, false)), input: genDecodeInput(r, k)}
			for m := 3 + r.Intn(6); m > 0; m-- {
				j.seq = append(j.seq, r.Intn(5))
			}
			jobs[g] = j
		}
		exec := func(j *job) (out []string) {
			defer func() {
				if e := recover(); e != nil {
					out = append(out, "panic")
				}
			}()
			p := getBody(NewR(j.toks), j.kind)
			ops := raceOps(j.kind, nil)
			for _, o := range j.seq {
				if o == 4 {
					q := newPacket(j.kind)
					if err := q.Unmarshal(exactCap(j.input)); err != nil {
						out = append(out, "U=err")
					} else {
						out = append(out, "U="+bodyTokens(q))
					}
					continue
				}
				out = append(out, ops[o].name+"="+ops[o].run(p))
			}
			return out
		}
		for _, j := range jobs {
			j.want = exec(j)
		}
		var wg sync.WaitGroup
		got := make([][]string, G)
		for g, j := range jobs {
			wg.Add(1)
			go func(g int, j *job) {
				defer wg.Done()
				got[g] = exec(j)
			}(g, j)
		}
		wg.Wait()
		for g, j := range jobs {
			if fmt.Sprint(got[g]) != fmt.Sprint(j.want) {
				report("distinct packets: kind=%s seq=%v concurrent result differs from sequential (seed=%d round=%d)", j.kind, j.seq, seed, round)
			}
		}
		// (2) one shared packet, read-only operations (Marshal is read-only except for ExtendedReport, whose Marshal
		// fills in block headers as documented: left out there)
		k := allKinds[r.Intn(len(allKinds))]
		p := genValue(r, k, false)
		ops := raceOps(k, nil)
		if k == "XR" {
			_, _ = p.Marshal() // headers filled in once, before sharing
			ops = ops[1:]
		}
		want := make([]string, len(ops))
		for i, o := range ops {
			want[i] = guarded(func() string { return o.run(p) })
		}
		res := make([][]string, G)
		for g := 0; g < G; g++ {
			wg.Add(1)
			go func(g int) {
				defer wg.Done()
				for i := range ops {
					o := ops[(i+g)%len(ops)]
					res[g] = append(res[g], o.name+"="+guarded(func() string { return o.run(p) }))
				}
			}(g)
		}
		wg.Wait()
		for g := 0; g < G; g++ {
			for i := range ops {
				idx := (i + g) % len(ops)
				if res[g][i] != ops[idx].name+"="+want[idx] {
					report("shared packet: kind=%s op=%s concurrent result differs from sequential (seed=%d round=%d)", k, ops[idx].name, seed, round)
				}
			}
		}
	}
	fmt.Printf("race rounds=%d goroutines=%d mismatches=%d\n", n, G, bad)
	if bad > 0 {
		return 1
	}
	return 0
}

var _ = os.Exit
