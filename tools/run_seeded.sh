#!/bin/bash
# run_seeded.sh [ids...] : apply each seeded change to /repo, run the target property's quick check, undo it.
cd /verif
export VERIF_EVIDENCE_DIR=/tmp/verif_seeded_evidence
ids="$@"
[ -z "$ids" ] && ids=$(ls seeded)
for id in $ids; do
  prop=${id:0:3}
  git -C /repo apply /verif/seeded/$id/patch.diff || { echo "$id APPLY-FAILED"; continue; }
  out=$(./check $prop 2>&1)
  rc=$?
  git -C /repo checkout -- .
  v=$(echo "$out" | grep '^VIOLATION' | head -1)
  b=$(echo "$out" | grep '^BROKEN' | head -2 | tr '\n' ' ' | cut -c1-160)
  echo "$id rc=$rc | $v | $b"
done
# leave the tree and the generated files consistent with the unchanged source again
./build/extract /repo lean/Rtcp/Gen >/dev/null
