def main : IO Unit := pure ()
