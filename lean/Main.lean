/-
  rtcpmodel — line-protocol driver of the model (one operation per line in, one result line out).
  Mirrors tools/harness/exec.go op for op. Core Lean only.
-/
import Rtcp.Tok
import Rtcp.Model.Nack
import Rtcp.Model.Enum
import Rtcp.Spec.Select
open Rtcp

def run {α} (p : P α) (toks : List String) : Option α :=
  match p.run toks with
  | some (a, _) => some a
  | none => none

def outStr {α} (o : Out α) (f : α → String) : String :=
  match o with
  | .ok a => let s := f a; if s.isEmpty then "ok" else "ok " ++ s
  | .err => "err"
  | .panic => "panic"
  | .diverge => "diverge"

def okHex (o : Out Bytes) : String := outStr o hexOf

def dstLine (l : List Nat) : String := "ok " ++ join (wList wNat l)

def subDec (kind : String) (b : Bytes) : Option String :=
  match kind with
  | "HDR" => some (outStr (Header.dec b) (join ∘ wHeader))
  | "RREP" => some (outStr (ReceptionReport.dec b) (join ∘ wRRep))
  | "CHUNK" => some (outStr (SDESChunk.dec b) (join ∘ wChunk))
  | "ITEM" => some (outStr (SDESItem.dec b) (join ∘ wItem))
  | "RLC" => some (outStr (rlChunkDec b) (join ∘ wTwccChunk))
  | "SVC" => some (outStr (svChunkDec b) (join ∘ wTwccChunk))
  | "DELTA" => some (outStr (RecvDelta.dec b) (join ∘ wDelta))
  | "COMPOUND" => some (outStr (cdec b) (join ∘ wPackets))
  | _ => none

def subEnc (kind : String) (toks : List String) : Option String :=
  match kind with
  | "HDR" => (run pHeader toks).map fun h => okHex h.enc
  | "RREP" => (run pRRep toks).map fun h => okHex h.enc
  | "CHUNK" => (run pChunk toks).map fun h => okHex h.enc
  | "ITEM" => (run pItem toks).map fun h => okHex h.enc
  | "TCHUNK" => (run pTwccChunk toks).map fun h => okHex h.enc
  | "DELTA" => (run pDelta toks).map fun h => okHex h.enc
  | _ => none

def packetsStr (ps : List Packet) : String := join (wPackets ps)

/-- Marshal of a packet or sub-structure value given as tokens -/
def encAny (kind : String) (toks : List String) : Option (Out Bytes) :=
  match kind with
  | "HDR" => (run pHeader toks).map (·.enc)
  | "RREP" => (run pRRep toks).map (·.enc)
  | "CHUNK" => (run pChunk toks).map (·.enc)
  | "ITEM" => (run pItem toks).map (·.enc)
  | "TCHUNK" => (run pTwccChunk toks).map (·.enc)
  | "DELTA" => (run pDelta toks).map (·.enc)
  | _ => match kindOfName kind with
    | some k => (run (pBody k) toks).map (·.enc)
    | none => none

def relayLine (b : Bytes) : String :=
  match udec b with
  | .ok ps =>
    let t0 := packetsStr ps
    let list := match ps with
      | [] => []
      | p :: rest => p :: Packet.pli { sender := 1, media := 2 } :: rest
    match uenc list with
    | .ok out => s!"ok {t0} ; {hexOf out} ; concat-ok"
    | .err => s!"ok {t0} ; err"
    | .panic => "panic"
    | .diverge => "diverge"
  | .err => "err"
  | .panic => "panic"
  | .diverge => "diverge"

/-- the documented quantisations of C02 are applied by the *harness oracle*; the model just runs the chain -/
def rtLine (ps : List Packet) : String :=
  match uenc ps with
  | .ok b =>
    match udec b with
    | .ok ps2 =>
      let t2 := packetsStr ps2
      match uenc ps2 with
      | .ok b2 => s!"ok {hexOf b} ; {t2} ; {hexOf b2}"
      | .err => s!"ok {hexOf b} ; {t2} ; err"
      | .panic => "panic"
      | .diverge => "diverge"
    | .err => s!"ok {hexOf b} ; err"
    | .panic => "panic"
    | .diverge => "diverge"
  | .err => "err"
  | .panic => "panic"
  | .diverge => "diverge"

def reencLine (b : Bytes) : String :=
  match udec b with
  | .ok ps =>
    let t1 := packetsStr ps
    match uenc ps with
    | .ok b2 =>
      match udec b2 with
      | .ok ps3 => s!"ok {t1} ; {hexOf b2} ; {packetsStr ps3}"
      | .err => s!"ok {t1} ; {hexOf b2} ; err"
      | .panic => "panic"
      | .diverge => "diverge"
    | .err => s!"ok {t1} ; err"
    | .panic => s!"ok {t1} ; panic"
    | .diverge => "diverge"
  | .err => "err"
  | .panic => "panic"
  | .diverge => "diverge"

def histLine (toks : List String) : Option String := do
  let ((p, ops), _) ← (do let p ← pPacket; let n ← pNat; let rest ← get; pure (p, rest.take n) : P _).run toks
  let kind := p.kind
  let rec go (p : Packet) (ops : List String) (acc : List String) : Option (Packet × List String) :=
    match ops with
    | [] => some (p, acc.reverse)
    | op :: rest =>
      if op = "M" then
        match p.encP with
        | .ok (b, p') => go p' rest (("M=" ++ hexOf b) :: acc)
        | .err => go p rest ("M=err" :: acc)
        | _ => none
      else if op = "S" then go p rest (s!"S={p.marshalSize}" :: acc)
      else if op = "D" then go p rest (("D=" ++ ",".intercalate (wList wNat p.dest)) :: acc)
      else if op = "T" then go p rest ("T" :: acc)
      else if op.startsWith "U" then
        match unhex (op.drop 1).toString with
        | some b =>
          match decKind kind b with
          | .ok q => go q rest ("U=ok" :: acc)
          | .err => go p rest ("U=err" :: acc)
          | _ => none
        | none => none
      else none
  match go p ops [] with
  | some (p', res) => some ("ok " ++ join res ++ " ; " ++ join (wBody p'))
  | none => some "panic"

def execOp (line : String) : String :=
  let toks := (line.splitOn " ").filter (· ≠ "")
  match toks with
  | [] => "bad-op"
  | op :: args =>
    let (base, kind) := match op.splitOn "." with
      | [b, k] => (b, k)
      | _ => (op, "")
    let bad := "bad-op " ++ op
    let withPkt (f : Packet → String) : String :=
      match kindOfName kind with
      | some k => match run (pBody k) args with
        | some p => f p
        | none => bad
      | none => bad
    let withPkts (f : List Packet → String) : String :=
      match run pPackets args with
      | some ps => f ps
      | none => bad
    let withHex (f : Bytes → String) : String :=
      match args with
      | [h] => match unhex h with
        | some b => f b
        | none => bad
      | _ => bad
    match base with
    | "dec" | "decp" => withHex fun b =>
        match subDec kind b with
        | some s => s
        | none => match kindOfName kind with
          | some k => outStr (decKind k b) (join ∘ wBody)
          | none => bad
    | "enc" =>
        match subEnc kind args with
        | some s => s
        | none =>
          if kind = "XR" then withPkt fun p =>
            outStr p.encP fun (b, p') => hexOf b ++ " " ++ join (wBody p')
          else if kindOfName kind = none then bad
          else withPkt fun p => okHex p.enc
    | "encspec" => withPkt fun p => okHex (Spec.encOrWireAll p)
    | "enccap" => if kindOfName kind = none then bad else withPkt fun p => okHex p.enc
    | "size" => withPkt fun p => s!"ok {p.marshalSize}"
    | "hdr" => withPkt fun p => match p.header? with
        | some h => "ok " ++ join (wHeader h)
        | none => "bad-op no Header()"
    | "len" => withPkt fun p => match p with
        | .twcc v => s!"ok {v.len}"
        | .ccfb v => s!"ok {v.marshalSize}"
        | _ => "bad-op no Len()"
    | "dst" => withPkt fun p => dstLine p.dest
    | "str" => withPkt fun _ => "ok"
    | "udec" | "udecp" => withHex fun b => outStr (udec b) packetsStr
    | "uenc" => withPkts fun ps => okHex (uenc ps)
    | "cval" => withPkts fun ps => outStr (cval ps) fun _ => ""
    | "ccname" => withPkts fun ps => okHex (ccname ps)
    | "cenc" => withPkts fun ps => okHex (cenc ps)
    | "cdec" => withHex fun b => outStr (cdec b) packetsStr
    | "csize" => withPkts fun ps => s!"ok {csize ps}"
    | "cdst" => withPkts fun ps => dstLine (cdst ps)
    | "rt" => withPkts rtLine
    | "reenc" => withHex reencLine
    | "relay" => withHex relayLine
    | "dst2" => match args with
        | [ha, hb] => match unhex ha, unhex hb, kindOfName kind with
          | some a, some b, some k =>
            match decKind k a with
            | .ok p1 => match decKind k b with
              | .ok p2 => dstLine p1.dest ++ " ; " ++ dstLine p2.dest
              | .err => dstLine p1.dest ++ " ; err"
              | _ => "panic"
            | .err => "err"
            | _ => "panic"
          | _, _, _ => bad
        | _ => "bad-op dst2"
    | "plist2" => match args.map String.toNat? with
        | [some id, some bm, some _] =>
          let l := NackPair.packetList { packetID := id, lost := bm }
          "ok " ++ join (wList wNat l) ++ " ; " ++ join (wList wNat l) ++ s!" ; {id} {bm}"
        | _ => bad
    | "decalias" => withHex fun b =>
        match kindOfName kind with
        | some k => match decKind k b with
          | .ok p =>
            -- which decoded fields are sub-slices of the input buffer in the Go code (everything else is copied)
            let aliases := match p with
              | .sr v => !v.ext.isEmpty
              | .rr v => !v.ext.isEmpty
              | .app v => !v.data.isEmpty
              | .raw r => !r.isEmpty
              | _ => false
            if aliases then "ok alias" else "ok copy"
          | .err => "err"
          | .panic => "panic"
          | .diverge => "diverge"
        | none => bad
    | "rembto" =>
        match args.reverse with
        | bl :: restRev =>
          match bl.toNat?, run (pBody .remb) restRev.reverse with
          | some n, some (.remb p) =>
            if p.ssrcs.length > 255 then "err"
            else if n < p.marshalSize then "err"
            else match p.enc with
              | .ok b => s!"ok {b.length} {hexOf b}"
              | .err => "err"
              | .panic => "panic"
              | .diverge => "diverge"
          | _, _ => bad
        | _ => bad
    | "newcname" => match args with
        | [ssrc, h] => match ssrc.toNat?, unhex h with
          | some s, some t =>
            "ok " ++ join (wBody (.sdes { chunks := [{ source := s, items := [{ type := 1, text := t }] }] }))
          | _, _ => bad
        | _ => bad
    | "itemlen" => match run pItem args with
        | some i => s!"ok {2 + i.text.length}"
        | none => bad
    | "crt" => withPkts fun ps =>
        match cenc ps with
        | .ok b => match cdec b with
          | .ok qs => s!"ok {hexOf b} ; {packetsStr qs}"
          | .err => s!"ok {hexOf b} ; err"
          | .panic => "panic"
          | .diverge => "diverge"
        | .err => "err"
        | .panic => "panic"
        | .diverge => "diverge"
    | "reuse" => match args with
        | [_, hb] => match unhex hb with
          | some b =>
            match subDec kind b with
            | some s => s
            | none => match kindOfName kind with
              | some k => outStr (decKind k b) (join ∘ wBody)
              | none => bad
          | none => bad
        | _ => "bad-op reuse"
    | "hold" =>
        let a := args.takeWhile (· ≠ "|")
        let b := (args.dropWhile (· ≠ "|")).drop 1
        let f (o : Out Bytes) : Option String := match o with
          | .ok x => some (hexOf x)
          | .err => some "err"
          | _ => none
        match encAny kind a, encAny kind b with
        | some x, some y => match f x, f y with
          | some sx, some sy => s!"ok {sx} ; {sy}"
          | _, _ => "panic"
        | _, _ => bad
    | "rto" => withPkt fun p =>
        match p.enc with
        | .ok b =>
          match kindOfName kind with
          | some k => match decKind k b with
            | .ok q => let t := join (wBody q); if t.isEmpty then "ok" else "ok " ++ t
            | .err => "deerr"
            | .panic => "panic"
            | .diverge => "diverge"
          | none => bad
        | .err => "err"
        | .panic => "panic"
        | .diverge => "diverge"
    | "decv" => match args with
        | h :: _ => match unhex h with
          | some b => match kindOfName kind with
            | some k => outStr (decKind k b) (join ∘ wBody)
            | none => bad
          | none => bad
        | _ => "bad-op decv"
    | "concat" => match args with
        | [ha, hb] => match unhex ha, unhex hb with
          | some a, some b =>
            let one (x : Bytes) : Option String := match udec x with
              | .ok ps => some (packetsStr ps)
              | .err => some "err"
              | _ => none
            match one a, one b, one (a ++ b) with
            | some x, some y, some z => s!"ok {x} ; {y} ; {z}"
            | _, _, _ => "panic"
          | _, _ => bad
        | _ => "bad-op concat"
    | "framed" => withPkt fun p =>
        match p.enc with
        | .ok b =>
          let hs := match Header.dec b with
            | .ok h => join (wHeader h)
            | _ => "err"
          s!"ok {b.length} {p.marshalSize} {hs}"
        | .err => "err"
        | .panic => "panic"
        | .diverge => "diverge"
    | "rtdst" => withPkts fun ps =>
        match ps with
        | [p] =>
          let d1 := dstLine p.dest
          match uenc ps with
          | .ok b => match udec b with
            | .ok [p2] => d1 ++ " ; " ++ dstLine p2.dest
            | _ => d1 ++ " ; err"
          | .err => "err"
          | .panic => "panic"
          | .diverge => "diverge"
        | _ => "bad-op rtdst"
    | "strdec" => withHex fun b => outStr (udec b) fun _ => ""
    | "cstr" => withPkts fun _ => "ok"
    | "nackpairs" => match run (pList pNat) args with
        | some l => "ok " ++ join (wList (fun (n : NackPair) => wNat n.packetID ++ wNat n.lost) (nackPairs l))
        | none => bad
    | "plist" => match args.map String.toNat? with
        | [some id, some bm] => "ok " ++ join (wList wNat (NackPair.packetList { packetID := id, lost := bm }))
        | _ => bad
    | "range" => match args.map String.toNat? with
        | [some id, some bm, some k] =>
          let p : NackPair := { packetID := id, lost := bm }
          let seen := p.range (fun (acc : List Nat) s => (acc ++ [s], !(k > 0 && acc.length + 1 ≥ k))) []
          "ok " ++ join (wList wNat seen)
        | _ => bad
    | "rembunit" => match args.map String.toNat? with
        | [some bits] => s!"ok {rembUnitIndex bits}"
        | _ => bad
    | "enumstr" => match args.map String.toNat? with
        | [some n] =>
          let s := match kind with
            | "PacketType" => some (packetTypeString n)
            | "SDESType" => some (sdesTypeString n)
            | "BlockTypeType" => some (blockTypeString n)
            | "TTLorHopLimitType" => some (tohString n)
            | "Chunk" => some (xrChunkString n)
            | _ => none
          match s with
          | some s => "ok " ++ hexOf s.toUTF8.toList
          | none => bad
        | _ => bad
    | "xrchunk" => match args.map String.toNat? with
        | [some c] =>
          let (rt, e) := xrChunkRunType c
          s!"ok {xrChunkType c} {rt} {if e then 1 else 0} {xrChunkValue c}"
        | _ => bad
    | "util" => match kind, args.map String.toNat? with
        | "getPadding", [some n] => s!"ok {getPadding n}"
        | "setNBits", [some a, some b, some c, some d] => outStr (setNBitsOfUint16 a b c d) toString
        | "appendNBits", [some a, some b, some c] => s!"ok {appendNBitsToUint32 a b c}"
        | "getNBits", [some a, some b, some c] => s!"ok {getNBitsFromByte a b c}"
        | "localMin", [some a, some b] => s!"ok {localMin a b}"
        | _, _ => bad
    | "ccfbblock" => match kind with
        | "enc" => match run pCcfbBlock args with
          | some b => okHex b.enc
          | none => bad
        | "dec" => withHex fun b => outStr (CcfbBlock.dec b) (join ∘ wCcfbBlock)
        | "len" => match run pCcfbBlock args with
          | some b => s!"ok {b.len}"
          | none => bad
        | _ => bad
    | "ccfbmetric" => match kind with
        | "enc" => match run pMetric args with
          | some b => okHex b.enc
          | none => bad
        | "dec" => withHex fun b => outStr (CcfbMetric.dec b) (join ∘ wMetric)
        | "reuse" => match args with
          | [_, hb] => match unhex hb with
            | some b => outStr (CcfbMetric.dec b) (join ∘ wMetric)
            | none => bad
          | _ => bad
        | _ => bad
    | "hist" => match histLine args with
        | some s => s
        | none => bad
    | _ => bad

partial def loop (hin hout : IO.FS.Stream) : IO Unit := do
  let line ← hin.getLine
  if line.isEmpty then return ()
  let l := line.trimAscii.toString
  if l.isEmpty || l.startsWith "#" then loop hin hout
  else
    hout.putStrLn (execOp l)
    loop hin hout

def main : IO Unit := do
  let hin ← IO.getStdin
  let hout ← IO.getStdout
  loop hin hout
  hout.flush
