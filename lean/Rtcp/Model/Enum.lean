/-
  Model of the enum `String` methods (header.go, source_description.go, extended_report.go).
-/
import Rtcp.Types
import Rtcp.Gen.Consts
namespace Rtcp
open Gen

/-- Go `string(x)` for an integer x < 256: the UTF-8 encoding of that code point -/
def runeString (n : Nat) : String := String.singleton (Char.ofNat n)

def packetTypeString (p : Nat) : String :=
  if p = TypeSenderReport then "SR"
  else if p = TypeReceiverReport then "RR"
  else if p = TypeSourceDescription then "SDES"
  else if p = TypeGoodbye then "BYE"
  else if p = TypeApplicationDefined then "APP"
  else if p = TypeTransportSpecificFeedback then "TSFB"
  else if p = TypePayloadSpecificFeedback then "PSFB"
  else if p = TypeExtendedReport then "XR"
  else runeString p

def sdesTypeString (s : Nat) : String :=
  if s = SDESEnd then "END"
  else if s = SDESCNAME then "CNAME"
  else if s = SDESName then "NAME"
  else if s = SDESEmail then "EMAIL"
  else if s = SDESPhone then "PHONE"
  else if s = SDESLocation then "LOC"
  else if s = SDESTool then "TOOL"
  else if s = SDESNote then "NOTE"
  else if s = SDESPrivate then "PRIV"
  else runeString s

def blockTypeString (t : Nat) : String :=
  if t = LossRLEReportBlockType then "LossRLEReportBlockType"
  else if t = DuplicateRLEReportBlockType then "DuplicateRLEReportBlockType"
  else if t = PacketReceiptTimesReportBlockType then "PacketReceiptTimesReportBlockType"
  else if t = ReceiverReferenceTimeReportBlockType then "ReceiverReferenceTimeReportBlockType"
  else if t = DLRRReportBlockType then "DLRRReportBlockType"
  else if t = StatisticsSummaryReportBlockType then "StatisticsSummaryReportBlockType"
  else if t = VoIPMetricsReportBlockType then "VoIPMetricsReportBlockType"
  else s!"invalid value {t}"

def tohString (t : Nat) : String :=
  if t = ToHMissing then "[ToH Missing]"
  else if t = ToHIPv4 then "[ToH = IPv4]"
  else if t = ToHIPv6 then "[ToH = IPv6]"
  else "[ToH Flag is Invalid]"

/-! XR RLE chunk accessors -/

def xrChunkType (c : Nat) : Nat := if c = 0 then TerminatingNullChunkType else c / 32768

/-- `RunType`: value and whether an error is returned -/
def xrChunkRunType (c : Nat) : Nat × Bool :=
  if xrChunkType c ≠ RunLengthChunkType then (0, true) else (c / 16384 % 2, false)

def xrChunkValue (c : Nat) : Nat :=
  let t := xrChunkType c
  if t = RunLengthChunkType then c % 16384
  else if t = BitVectorChunkType then c % 32768
  else if t = TerminatingNullChunkType then 0
  else c

def binDigits : Nat → Nat → List Char
  | 0, _ => []
  | w + 1, n => binDigits w (n / 2) ++ [if n % 2 = 1 then '1' else '0']

def xrChunkString (c : Nat) : String :=
  let t := xrChunkType c
  if t = RunLengthChunkType then s!"[RunLength type={(xrChunkRunType c).1}, length={xrChunkValue c}]"
  else if t = BitVectorChunkType then "[BitVector 0b" ++ String.ofList (binDigits 15 (xrChunkValue c)) ++ "]"
  else if t = TerminatingNullChunkType then "[TerminatingNull]"
  else "[0x?]"

end Rtcp
