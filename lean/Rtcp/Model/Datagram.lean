/-
  Model of raw_packet.go, packet.go (Unmarshal / Marshal / unmarshal) and compound_packet.go.
-/
import Rtcp.Model.Reports
import Rtcp.Model.Sdes
import Rtcp.Model.Feedback
import Rtcp.Model.Remb
import Rtcp.Model.Twcc
import Rtcp.Model.Ccfb
import Rtcp.Model.XR
namespace Rtcp
open Gen

/-! ### RawPacket -/

def rawDec (b : Bytes) : Out Bytes :=
  if b.length < headerLength then .err
  else do
    let _ ← Header.dec b
    pure b

/-- `RawPacket.Header()`: zero header when the bytes do not parse -/
def rawHeader (b : Bytes) : Header :=
  match Header.dec b with
  | .ok h => h
  | _ => {}

/-! ### per-packet operations, by dynamic type -/

/-- `p.Marshal()`; for XR also the packet after the call (block headers filled in) -/
def Packet.encP : Packet → Out (Bytes × Packet)
  | .sr v => do let b ← v.enc; pure (b, .sr v)
  | .rr v => do let b ← v.enc; pure (b, .rr v)
  | .sdes v => do let b ← v.enc; pure (b, .sdes v)
  | .bye v => do let b ← v.enc; pure (b, .bye v)
  | .app v => do let b ← v.enc; pure (b, .app v)
  | .nack v => do let b ← v.enc; pure (b, .nack v)
  | .rrr v => do let b ← v.enc; pure (b, .rrr v)
  | .twcc v => do let b ← v.enc; pure (b, .twcc v)
  | .ccfb v => do let b ← v.enc; pure (b, .ccfb v)
  | .pli v => do let b ← v.enc; pure (b, .pli v)
  | .sli v => do let b ← v.enc; pure (b, .sli v)
  | .remb v => do let b ← v.enc; pure (b, .remb v)
  | .fir v => do let b ← v.enc; pure (b, .fir v)
  | .xr v => do let (b, v') ← v.enc; pure (b, .xr v')
  | .raw b => .ok (b, .raw b)

def Packet.enc (p : Packet) : Out Bytes := do
  let (b, _) ← p.encP
  pure b

def Packet.marshalSize : Packet → Nat
  | .sr v => v.marshalSize | .rr v => v.marshalSize | .sdes v => v.marshalSize | .bye v => v.marshalSize
  | .app v => v.marshalSize | .nack v => v.marshalSize | .rrr v => v.marshalSize | .twcc v => v.marshalSize
  | .ccfb v => v.marshalSize | .pli v => v.marshalSize | .sli v => v.marshalSize | .remb v => v.marshalSize
  | .fir v => v.marshalSize | .xr v => v.marshalSize | .raw b => b.length

def Packet.dest : Packet → List Nat
  | .sr v => v.dest | .rr v => v.dest | .sdes v => v.dest | .bye v => v.dest
  | .app v => v.dest | .nack v => v.dest | .rrr v => v.dest | .twcc v => v.dest
  | .ccfb v => v.dest | .pli v => v.dest | .sli v => v.dest | .remb v => v.dest
  | .fir v => v.dest | .xr v => v.dest | .raw _ => []

/-- `Header()` where the Go type offers it -/
def Packet.header? : Packet → Option Header
  | .sr v => some v.header | .rr v => some v.header | .sdes v => some v.header | .bye v => some v.header
  | .nack v => some v.header | .rrr v => some v.header | .ccfb v => some v.header | .pli v => some v.header
  | .sli v => some v.header | .remb v => some v.header | .fir v => some v.header | .raw b => some (rawHeader b)
  | _ => none

/-- the type's own `Unmarshal` on a fresh receiver -/
def decKind : Kind → Bytes → Out Packet
  | .sr, b => .sr <$> SenderReport.dec b
  | .rr, b => .rr <$> ReceiverReport.dec b
  | .sdes, b => .sdes <$> SourceDescription.dec b
  | .bye, b => .bye <$> Goodbye.dec b
  | .app, b => .app <$> ApplicationDefined.dec b
  | .nack, b => .nack <$> TransportLayerNack.dec b
  | .rrr, b => .rrr <$> RapidResync.dec b
  | .twcc, b => .twcc <$> Twcc.dec b
  | .ccfb, b => .ccfb <$> Ccfb.dec b
  | .pli, b => .pli <$> PictureLossIndication.dec b
  | .sli, b => .sli <$> SliceLossIndication.dec b
  | .remb, b => .remb <$> Remb.dec b
  | .fir, b => .fir <$> FullIntraRequest.dec b
  | .xr, b => .xr <$> XR.dec b
  | .raw, b => .raw <$> rawDec b

/-- the dispatch `switch` of `unmarshal` -/
def dispatch (pt count : Nat) : Kind :=
  if pt = TypeSenderReport then .sr
  else if pt = TypeReceiverReport then .rr
  else if pt = TypeSourceDescription then .sdes
  else if pt = TypeGoodbye then .bye
  else if pt = TypeTransportSpecificFeedback then
    if count = FormatTLN then .nack
    else if count = FormatRRR then .rrr
    else if count = FormatTCC then .twcc
    else if count = FormatCCFB then .ccfb
    else .raw
  else if pt = TypePayloadSpecificFeedback then
    if count = FormatPLI then .pli
    else if count = FormatSLI then .sli
    else if count = FormatREMB then .remb
    else if count = FormatFIR then .fir
    else .raw
  else if pt = TypeExtendedReport then .xr
  else if pt = TypeApplicationDefined then .app
  else .raw

/-- `unmarshal`: one frame from the front of the datagram; returns the packet and the octets consumed -/
def unmarshalOne (b : Bytes) : Out (Packet × Nat) := do
  let h ← Header.dec b
  let processed := (h.length + 1) * 4                   -- (int(h.Length)+1)*4
  if processed > b.length then .err
  else do
    let inPacket ← slice b 0 processed
    let p ← decKind (dispatch h.type h.count) inPacket
    pure (p, processed)

/-- `for len(rawData) != 0 { unmarshal; append; rawData = rawData[processed:] }` -/
def unmarshalLoop : Nat → Bytes → Out (List Packet)
  | 0, _ => .diverge
  | gas + 1, b =>
    if b.length = 0 then .ok []
    else do
      let (p, n) ← unmarshalOne b
      let rest ← sliceFrom b n
      let ps ← unmarshalLoop gas rest
      pure (p :: ps)

/-- `rtcp.Unmarshal` -/
def udec (b : Bytes) : Out (List Packet) := do
  let ps ← unmarshalLoop (b.length + 1) b
  if ps.length = 0 then .err else pure ps

/-- `rtcp.Marshal`, also returning the packets after the call -/
def uencP : List Packet → Out (Bytes × List Packet)
  | [] => .ok ([], [])
  | p :: ps => do
    let (a, p') ← p.encP
    let (rest, ps') ← uencP ps
    pure (a ++ rest, p' :: ps')

def uenc (ps : List Packet) : Out Bytes := do
  let (b, _) ← uencP ps
  pure b

/-! ### CompoundPacket -/

def sdesHasCNAME (s : SourceDescription) : Bool :=
  s.chunks.any fun c => c.items.any fun it => it.type = SDESCNAME

/-- the loop of `Validate` over `c[1:]` -/
def validateRest : List Packet → Out Unit
  | [] => .err                                   -- errMissingCNAME
  | .rr _ :: ps => validateRest ps
  | .sdes s :: _ => if sdesHasCNAME s then .ok () else .err
  | _ :: _ => .err                               -- errPacketBeforeCNAME

def cval : List Packet → Out Unit
  | [] => .err
  | .sr _ :: ps => validateRest ps
  | .rr _ :: ps => validateRest ps
  | _ :: _ => .err

def sdesFirstCNAME (s : SourceDescription) : Option Bytes :=
  (s.chunks.flatMap (·.items)).find? (·.type = SDESCNAME) |>.map (·.text)

/-- the loop of `CNAME()` over `c[1:]`; `bad` records that a non-RR, non-SDES packet was seen -/
def cnameRest : List Packet → Bool → Out Bytes
  | [], _ => .err
  | .sdes s :: ps, bad =>
    match sdesFirstCNAME s with
    | some t => if bad then .err else .ok t
    | none => cnameRest ps bad
  | .rr _ :: ps, bad => cnameRest ps bad
  | _ :: ps, _ => cnameRest ps true

def ccname : List Packet → Out Bytes
  | [] => .err
  | _ :: ps => cnameRest ps false

def cenc (ps : List Packet) : Out Bytes := do
  cval ps
  uenc ps

def csize (ps : List Packet) : Nat := (ps.map Packet.marshalSize).sum

def cdec (b : Bytes) : Out (List Packet) := do
  let ps ← unmarshalLoop (b.length + 1) b
  cval ps
  pure ps

def cdst : List Packet → List Nat
  | [] => []
  | p :: _ => p.dest

end Rtcp
