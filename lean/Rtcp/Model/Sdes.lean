/-
  Model of source_description.go, goodbye.go, application_defined.go (tree after the `fix:` commits).
  Loops whose step depends on the input run on gas (one unit per iteration) and keep the partially
  built receiver next to the status (DESIGN §3), so that allocation on rejected inputs is visible.
-/
import Rtcp.Model.Header
namespace Rtcp
open Gen

/-! ### SDES item -/

def SDESItem.len (s : SDESItem) : Nat := sdesTypeLen + sdesOctetCountLen + s.text.length

def SDESItem.enc (s : SDESItem) : Out Bytes :=
  if s.type = SDESEnd then .err
  else if s.text.length > sdesMaxOctetCount then .err
  else .ok ([byte s.type, byte s.text.length] ++ s.text)

def SDESItem.dec (b : Bytes) : Out SDESItem :=
  if b.length < sdesTypeLen + sdesOctetCountLen then .err
  else do
    let t ← u8At b sdesTypeOffset
    let n ← u8At b sdesOctetCountOffset
    if sdesTextOffset + n > b.length then .err
    else do
      let txt ← slice b sdesTextOffset (sdesTextOffset + n)
      pure { type := t, text := txt }

/-! ### SDES chunk -/

def encItems : List SDESItem → Out Bytes
  | [] => .ok []
  | i :: is => do
    let a ← i.enc
    let rest ← encItems is
    pure (a ++ rest)

def itemsLen (is : List SDESItem) : Nat := (is.map SDESItem.len).sum

/-- `SourceDescriptionChunk.len` -/
def SDESChunk.len (c : SDESChunk) : Nat :=
  let l := sdesSourceLen + itemsLen c.items + sdesTypeLen
  l + getPadding l

def SDESChunk.enc (c : SDESChunk) : Out Bytes := do
  let its ← encItems c.items
  let raw := be32 c.source ++ its ++ [0]
  pure (raw ++ zeros (getPadding raw.length))

/-- the item loop of `SourceDescriptionChunk.Unmarshal` on the suffix `raw[i:]`;
returns the items collected so far together with the status. -/
def decItemsP : Nat → Bytes → List SDESItem × Status
  | 0, _ => ([], .diverge)
  | gas + 1, rest =>
    if rest.length = 0 then ([], .err)                       -- ran off the end: errPacketTooShort
    else if get8 rest 0 = SDESEnd then ([], .ok)
    else
      match SDESItem.dec rest with
      | .ok it =>
        let (its, st) := decItemsP gas (rest.drop it.len)
        (it :: its, st)
      | .err => ([], .err)
      | .panic => ([], .panic)
      | .diverge => ([], .diverge)

def SDESChunk.decP (b : Bytes) : SDESChunk × Status :=
  if b.length < sdesSourceLen + sdesTypeLen then ({}, .err)
  else
    match u32At b 0 with
    | .ok src =>
      let (its, st) := decItemsP (b.length + 1) (b.drop 4)
      ({ source := src, items := its }, st)
    | _ => ({}, .panic)

def SDESChunk.dec (b : Bytes) : Out SDESChunk := (SDESChunk.decP b).2.toOut (SDESChunk.decP b).1

/-! ### SourceDescription -/

def encChunks : List SDESChunk → Out Bytes
  | [] => .ok []
  | c :: cs => do
    let a ← c.enc
    let rest ← encChunks cs
    pure (a ++ rest)

def chunksLen (cs : List SDESChunk) : Nat := (cs.map SDESChunk.len).sum

def SourceDescription.marshalSize (s : SourceDescription) : Nat := headerLength + chunksLen s.chunks

def SourceDescription.header (s : SourceDescription) : Header :=
  { count := s.chunks.length % 256, type := TypeSourceDescription, length := (s.marshalSize / 4 - 1) % 65536 }

def SourceDescription.enc (s : SourceDescription) : Out Bytes := do
  let cs ← encChunks s.chunks
  if s.chunks.length > countMax then .err
  else do
    let h ← s.header.enc
    pure (h ++ cs)

/-- `for i := 4; i < len(raw); { chunk.Unmarshal(raw[i:]); i += chunk.len() }` on the suffix -/
def decChunksP : Nat → Bytes → List SDESChunk × Status
  | 0, _ => ([], .diverge)
  | gas + 1, rest =>
    if rest.length = 0 then ([], .ok)
    else
      match SDESChunk.decP rest with
      | (c, .ok) =>
        let (cs, st) := decChunksP gas (rest.drop c.len)
        (c :: cs, st)
      | (_, st) => ([], st)

def SourceDescription.decP (b : Bytes) : SourceDescription × Status :=
  match Header.dec b with
  | .ok h =>
    if h.type ≠ TypeSourceDescription then ({}, .err)
    else
      let (cs, st) := decChunksP (b.length + 1) (b.drop headerLength)
      match st with
      | .ok => if cs.length ≠ h.count then ({ chunks := cs }, .err) else ({ chunks := cs }, .ok)
      | st => ({ chunks := cs }, st)
  | o => ({}, o.status)

def SourceDescription.dec (b : Bytes) : Out SourceDescription := (SourceDescription.decP b).2.toOut (SourceDescription.decP b).1

def SourceDescription.dest (s : SourceDescription) : List Nat := s.chunks.map (·.source)

/-! ### Goodbye -/

def Goodbye.marshalSize (g : Goodbye) : Nat :=
  let l := headerLength + g.sources.length * ssrcLength + (if g.reason.length > 0 then g.reason.length + 1 else 0)
  l + getPadding l

def Goodbye.header (g : Goodbye) : Header :=
  { padding := false, count := g.sources.length % 256, type := TypeGoodbye, length := (g.marshalSize / 4 - 1) % 65536 }

def encSSRCs (l : List Nat) : Bytes := (l.map be32).flatten

def Goodbye.enc (g : Goodbye) : Out Bytes :=
  if g.sources.length > countMax then .err
  else if g.reason.length > 0 ∧ g.reason.length > sdesMaxOctetCount then .err
  else do
    let h ← g.header.enc
    let body := encSSRCs g.sources ++ (if g.reason.length > 0 then [byte g.reason.length] ++ g.reason else [])
    pure (h ++ body ++ zeros (g.marshalSize - headerLength - body.length))

def decSSRCs : Nat → Bytes → Nat → Out (List Nat)
  | 0, _, _ => .ok []
  | n + 1, b, off => do
    let s ← u32At b off
    let rest ← decSSRCs n b (off + ssrcLength)
    pure (s :: rest)

def Goodbye.dec (b : Bytes) : Out Goodbye := do
  let h ← Header.dec b
  if h.type ≠ TypeGoodbye then .err
  else if getPadding b.length ≠ 0 then .err
  else
    let reasonOffset := (headerLength + h.count * ssrcLength) % 256     -- computed in uint8
    if reasonOffset > b.length then .err
    else do
      let srcs ← decSSRCs h.count b headerLength
      if reasonOffset < b.length then do
        let rl ← u8At b reasonOffset
        let reasonEnd := reasonOffset + 1 + rl
        if reasonEnd > b.length then .err
        else do
          let r ← slice b (reasonOffset + 1) reasonEnd
          pure { sources := srcs, reason := r }
      else pure { sources := srcs, reason := [] }

def Goodbye.dest (g : Goodbye) : List Nat := g.sources

/-! ### ApplicationDefined -/

def appPadding (n : Nat) : Nat := if 4 - n % 4 = 4 then 0 else 4 - n % 4

def ApplicationDefined.marshalSize (a : ApplicationDefined) : Nat := 12 + a.data.length + appPadding a.data.length

def ApplicationDefined.enc (a : ApplicationDefined) : Out Bytes :=
  if a.data.length > 65535 - 12 then .err
  else if a.name.length ≠ 4 then .err
  else do
    let pad := appPadding a.data.length
    let h ← Header.enc { type := TypeApplicationDefined, length := (a.marshalSize / 4 - 1) % 65536,
                         padding := pad ≠ 0, count := a.subType }
    pure (h ++ be32 a.ssrc ++ a.name ++ a.data ++ List.replicate pad (byte pad))

def ApplicationDefined.dec (b : Bytes) : Out ApplicationDefined := do
  let h ← Header.dec b
  if h.type ≠ TypeApplicationDefined then .err
  else if b.length < 12 then .err
  else if (h.length + 1) * 4 ≠ b.length then .err
  else do
    let ssrc ← u32At b 4
    let name ← slice b 8 12
    let pad ← (if h.padding then u8At b (b.length - 1) else pure 0)
    if h.padding ∧ pad > b.length - 12 then .err
    else do
      let data ← slice b 12 (b.length - pad)
      pure { subType := h.count, ssrc := ssrc, name := name, data := data }

def ApplicationDefined.dest (a : ApplicationDefined) : List Nat := [a.ssrc]

end Rtcp
