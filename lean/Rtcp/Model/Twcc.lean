/-
  Model of transport_layer_cc.go (tree after the `fix:` commits).
  `packetStatusPos`, `processedPacketNum`, `totalLength`, `recvDeltasPos` are uint16 in the Go code:
  every sum that Go computes in uint16 carries an explicit `% 65536`.
-/
import Rtcp.Model.Header
namespace Rtcp
open Gen

/-! ### chunks -/

/-- `RunLengthChunk.Marshal` / `StatusVectorChunk.Marshal` -/
def svSetSymbols (numOfBits : Nat) : Nat → List Nat → Nat → Out Nat
  | _, [], dst => .ok dst
  | i, s :: ss, dst => do
    let index := ((numOfBits * (i % 65536)) % 65536 + 2) % 65536
    let d ← setNBitsOfUint16 dst numOfBits index s
    svSetSymbols numOfBits (i + 1) ss d

def TwccChunk.enc : TwccChunk → Out Bytes
  | .rl _ sym run => do
    let d0 ← setNBitsOfUint16 0 1 0 0
    let d1 ← setNBitsOfUint16 d0 2 1 sym
    let d2 ← setNBitsOfUint16 d1 13 3 run
    pure (be16 d2)
  | .sv _ symSize syms => do
    let d0 ← setNBitsOfUint16 0 1 0 1
    let d1 ← setNBitsOfUint16 d0 1 1 symSize
    let numOfBits := if symSize = TypeTCCSymbolSizeOneBit then 1 else if symSize = TypeTCCSymbolSizeTwoBit then 2 else 0
    let d ← svSetSymbols numOfBits 0 syms d1
    pure (be16 d)

/-- `RunLengthChunk.Unmarshal` -/
def rlChunkDec (b : Bytes) : Out TwccChunk :=
  if b.length ≠ packetStatusChunkLength then .err
  else do
    let b0 ← u8At b 0
    let b1 ← u8At b 1
    pure (.rl TypeTCCRunLengthChunk (getNBitsFromByte b0 1 2) ((getNBitsFromByte b0 3 5 * 256 + b1) % 65536))

/-- `StatusVectorChunk.Unmarshal` -/
def svChunkDec (b : Bytes) : Out TwccChunk :=
  if b.length ≠ packetStatusChunkLength then .err
  else do
    let b0 ← u8At b 0
    let b1 ← u8At b 1
    let ss := getNBitsFromByte b0 1 1
    if ss = TypeTCCSymbolSizeOneBit then
      pure (.sv TypeTCCStatusVectorChunk ss
        ((List.range 6).map (fun i => getNBitsFromByte b0 (2 + i) 1) ++ (List.range 8).map (fun i => getNBitsFromByte b1 i 1)))
    else if ss = TypeTCCSymbolSizeTwoBit then
      pure (.sv TypeTCCStatusVectorChunk ss
        ((List.range 3).map (fun i => getNBitsFromByte b0 (2 + i * 2) 2) ++ (List.range 4).map (fun i => getNBitsFromByte b1 (i * 2) 2)))
    else
      pure (.sv TypeTCCStatusVectorChunk ((getNBitsFromByte b0 2 6 * 256 + b1) % 65536) [])

/-! ### receive deltas -/

/-- Go's truncating `int64` division by the positive scale factor -/
def tdiv (a : Int) (n : Nat) : Int := Int.tdiv a n

def RecvDelta.enc (r : RecvDelta) : Out Bytes :=
  let d := tdiv r.delta TypeTCCDeltaScaleFactor
  if r.type = TypeTCCPacketReceivedSmallDelta ∧ 0 ≤ d ∧ d ≤ 255 then .ok [byte d.toNat]
  else if r.type = TypeTCCPacketReceivedLargeDelta ∧ -32768 ≤ d ∧ d ≤ 32767 then
    .ok (be16 ((d + 65536) % 65536).toNat)
  else .err

def int16 (n : Nat) : Int := if n ≥ 32768 then (n : Int) - 65536 else n

def RecvDelta.dec (b : Bytes) : Out RecvDelta :=
  if b.length ≠ 1 ∧ b.length ≠ 2 then .err
  else if b.length = 1 then do
    let v ← u8At b 0
    pure { type := TypeTCCPacketReceivedSmallDelta, delta := (TypeTCCDeltaScaleFactor : Int) * v }
  else do
    let v ← u16At b 0
    pure { type := TypeTCCPacketReceivedLargeDelta, delta := (TypeTCCDeltaScaleFactor : Int) * int16 v }

/-! ### TransportLayerCC -/

def deltaSize (d : RecvDelta) : Nat := if d.type = TypeTCCPacketReceivedSmallDelta then 1 else 2

/-- `packetLen` (uint16) -/
def Twcc.packetLen (t : Twcc) : Nat :=
  ((headerLength + packetChunkOffset + t.chunks.length * 2) % 65536 + (t.deltas.map deltaSize).sum) % 65536

def Twcc.marshalSize (t : Twcc) : Nat :=
  let n := t.packetLen
  if n % 4 ≠ 0 then ((n / 4 + 1) * 4) % 65536 else n

def Twcc.len (t : Twcc) : Nat := t.marshalSize % 65536

def encTwccChunks : List TwccChunk → Out Bytes
  | [] => .ok []
  | c :: cs => do
    let a ← c.enc
    let rest ← encTwccChunks cs
    pure (a ++ rest)

def encDeltas : List RecvDelta → Out Bytes
  | [] => .ok []
  | d :: ds => do
    let a ← d.enc
    let rest ← encDeltas ds
    pure (a ++ rest)

/-- Position advance of the delta writer: 1, or 2 for a large delta (by *type*, independent of the bytes written). -/
def deltaAdvance (d : RecvDelta) : Nat := if d.type = TypeTCCPacketReceivedLargeDelta then 2 else 1

/-- the delta loop of `Marshal`: `copy(payload[off+i:], b); i++; if large {i++}` into the zeroed payload -/
def writeDeltas : List RecvDelta → Bytes → Nat → Out Bytes
  | [], payload, _ => .ok payload
  | d :: ds, payload, pos => do
    let b ← d.enc
    let p ← copyInto payload pos b
    writeDeltas ds p (pos + deltaAdvance d)

def Twcc.enc (t : Twcc) : Out Bytes := do
  let h ← t.header.enc
  let size := t.marshalSize
  if size < headerLength then .panic              -- make([]byte, negative)
  else do
    let n := size - headerLength
    let refAndCount := appendNBitsToUint32 (appendNBitsToUint32 0 24 t.refTime) 8 t.fbCount
    let fixed := be32 t.sender ++ be32 t.media ++ be16 t.baseSeq ++ be16 t.statusCount ++ be32 refAndCount
    if n < 16 then .panic                           -- the fixed fields are written by index into payload
    else do
      let cs ← encTwccChunks t.chunks
      -- chunks are copied at 16+2i; copy truncates silently, payload[off:] panics beyond the end
      let p0 := fixed ++ zeros (n - 16)
      let p1 ← (if 16 + (t.chunks.length - 1) * 2 > n ∧ t.chunks.length > 0 then .panic else copyInto p0 16 cs)
      let off := 16 + t.chunks.length * 2
      let p2 ← writeDeltas t.deltas p1 off
      let p3 ← (if t.header.padding then
                  (if n = 0 then .panic
                   else pure (p2.take (n - 1) ++ [byte ((size + 65536 - t.packetLen) % 256)]))
                else pure p2)
      pure (h ++ p3)

/-- the deltas a chunk announces -/
def chunkDeltas (count processed : Nat) : TwccChunk → List RecvDelta × Nat
  | .rl _ sym run =>
    let n := localMin ((count + 65536 - processed) % 65536) run
    let ds := if sym = TypeTCCPacketReceivedSmallDelta ∨ sym = TypeTCCPacketReceivedLargeDelta
              then List.replicate n { type := sym, delta := 0 } else []
    (ds, (processed + n) % 65536)
  | .sv _ symSize syms =>
    let ds := if symSize = TypeTCCSymbolSizeOneBit then
                (syms.filter (· = TypeTCCPacketReceivedSmallDelta)).map (fun s => { type := s, delta := 0 })
              else if symSize = TypeTCCSymbolSizeTwoBit then
                (syms.filter (fun s => s = TypeTCCPacketReceivedSmallDelta ∨ s = TypeTCCPacketReceivedLargeDelta)).map
                  (fun s => { type := s, delta := 0 })
              else []
    (ds, (processed + localMin ((count + 65536 - processed) % 65536) (syms.length % 65536)) % 65536)

/-- the status chunk loop; returns chunks, announced deltas, final position, status -/
def twccChunkLoop : Nat → Bytes → Nat → Nat → Nat → Nat → List TwccChunk × List RecvDelta × Nat × Status
  | 0, _, _, _, pos, _ => ([], [], pos, .diverge)
  | gas + 1, b, total, count, pos, processed =>
    if processed < count then
      if (pos + packetStatusChunkLength) % 65536 > total then ([], [], pos, .err)
      else
        match u8At b pos, slice b pos (pos + 2) with
        | .ok b0, .ok cb =>
          let typ := getNBitsFromByte b0 0 1
          let r := if typ = TypeTCCRunLengthChunk then rlChunkDec cb else svChunkDec cb
          match r with
          | .ok c =>
            let (ds, processed') := chunkDeltas count processed c
            let (cs, ds', pos', st) := twccChunkLoop gas b total count ((pos + packetStatusChunkLength) % 65536) processed'
            (c :: cs, ds ++ ds', pos', st)
          | o => ([], [], pos, o.status)
        | _, _ => ([], [], pos, .panic)
    else ([], [], pos, .ok)

/-- the delta loop: fills in the values; on error the deltas read so far are kept -/
def twccDeltaLoop : List RecvDelta → Bytes → Nat → Nat → List RecvDelta × Status
  | [], _, _, _ => ([], .ok)
  | d :: ds, b, total, pos =>
    if d.type = TypeTCCPacketReceivedSmallDelta then
      if (pos + 1) % 65536 > total then (d :: ds, .err)
      else
        match slice b pos (pos + 1) >>= RecvDelta.dec with
        | .ok d' =>
          let (rest, st) := twccDeltaLoop ds b total ((pos + 1) % 65536)
          (d' :: rest, st)
        | o => (d :: ds, o.status)
    else if d.type = TypeTCCPacketReceivedLargeDelta then
      if (pos + 2) % 65536 > total then (d :: ds, .err)
      else
        match slice b pos (pos + 2) >>= RecvDelta.dec with
        | .ok d' =>
          let (rest, st) := twccDeltaLoop ds b total ((pos + 2) % 65536)
          (d' :: rest, st)
        | o => (d :: ds, o.status)
    else
      let (rest, st) := twccDeltaLoop ds b total pos
      (d :: rest, st)

def Twcc.decP (b : Bytes) : Twcc × Status :=
  if b.length < headerLength + ssrcLength then ({}, .err)
  else
    match Header.dec b with
    | .ok h =>
      let total := (4 * ((h.length + 1) % 65536)) % 65536
      if total < headerLength + packetChunkOffset then ({ header := h }, .err)
      else if b.length < total then ({ header := h }, .err)
      else if h.type ≠ TypeTransportSpecificFeedback ∨ h.count ≠ FormatTCC then ({ header := h }, .err)
      else
        match u32At b headerLength, u32At b (headerLength + ssrcLength), u16At b (headerLength + baseSequenceNumberOffset),
              u16At b (headerLength + packetStatusCountOffset), u24At b (headerLength + referenceTimeOffset),
              u8At b (headerLength + fbPktCountOffset) with
        | .ok s, .ok m, .ok base, .ok count, .ok ref, .ok fb =>
          let t0 : Twcc := { header := h, sender := s, media := m, baseSeq := base, statusCount := count, refTime := ref, fbCount := fb }
          let (cs, ds, pos, st) := twccChunkLoop (b.length + 1) b total count (headerLength + packetChunkOffset) 0
          match st with
          | .ok =>
            let (ds', st') := twccDeltaLoop ds b total pos
            ({ t0 with chunks := cs, deltas := ds' }, st')
          | st => ({ t0 with chunks := cs, deltas := ds }, st)
        | _, _, _, _, _, _ => ({ header := h }, .panic)
    | o => ({}, o.status)

def Twcc.dec (b : Bytes) : Out Twcc := (Twcc.decP b).2.toOut (Twcc.decP b).1

def Twcc.dest (t : Twcc) : List Nat := [t.media]

end Rtcp
