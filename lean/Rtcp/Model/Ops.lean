/-
  Operation histories on one packet (C18): the API calls as a state machine over the packet value.
-/
import Rtcp.Model.Datagram
namespace Rtcp

inductive Op where
  | marshal | size | dest | string
  | unmarshal (b : Bytes)          -- into a fresh receiver of the same type, which then replaces the packet
  deriving Repr, DecidableEq

inductive Res where
  | bytes (o : Out Bytes)
  | nat (n : Nat)
  | list (l : List Nat)
  | unit
  | decoded (ok : Bool)
  deriving Repr, DecidableEq

def step (p : Packet) : Op → Packet × Res
  | .marshal =>
    match p.encP with
    | .ok (b, p') => (p', .bytes (.ok b))
    | .err => (p, .bytes .err)
    | .panic => (p, .bytes .panic)
    | .diverge => (p, .bytes .diverge)
  | .size => (p, .nat p.marshalSize)
  | .dest => (p, .list p.dest)
  | .string => (p, .unit)
  | .unmarshal b =>
    match decKind p.kind b with
    | .ok q => (q, .decoded true)
    | _ => (p, .decoded false)

def runOps (p : Packet) : List Op → Packet
  | [] => p
  | o :: os => runOps (step p o).1 os

/-- the documented exception: `ExtendedReport.Marshal` fills in its blocks' header fields -/
def normalise : Packet → Packet
  | .xr v => .xr { v with blocks := v.blocks.map XRBlock.setup }
  | p => p

end Rtcp
