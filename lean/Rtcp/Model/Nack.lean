/-
  Model of the NACK pair helpers of transport_layer_nack.go. Sequence numbers and bitmaps are uint16.
-/
import Rtcp.Types
namespace Rtcp

def bitSet (bm i : Nat) : Bool := bm / 2 ^ i % 2 = 1

/-- `1 << k` as a `PacketBitmap` (uint16): zero once the shift count reaches 16 -/
def bit16 (k : Nat) : Nat := if k < 16 then 2 ^ k else 0

/-- the loop of `NackPairsFromSequenceNumbers` with the current pair -/
def nackLoop : List Nat → NackPair → List NackPair
  | [], cur => [cur]
  | m :: ms, cur =>
    let d := (m + 65536 - cur.packetID) % 65536           -- m - nackPair.PacketID in uint16
    if d > 16 then cur :: nackLoop ms { packetID := m, lost := 0 }
    else nackLoop ms { cur with lost := cur.lost ||| bit16 ((d + 65535) % 65536) }

def nackPairs : List Nat → List NackPair
  | [] => []
  | s :: ss => nackLoop ss { packetID := s, lost := 0 }

/-- the `for i := uint16(0); b != 0; i++` loop of `Range` with a stateful callback
`f : state → seqno → (state, continue?)`. -/
def rangeLoop {σ : Type} (f : σ → Nat → σ × Bool) (id : Nat) : Nat → Nat → Nat → σ → σ
  | 0, _, _, s => s
  | gas + 1, b, i, s =>
    if b = 0 then s
    else if bitSet b i then
      let (s', more) := f s ((id + i + 1) % 65536)
      if more then rangeLoop f id gas (b - 2 ^ i) (i + 1) s' else s'
    else rangeLoop f id gas b (i + 1) s

def NackPair.range {σ : Type} (p : NackPair) (f : σ → Nat → σ × Bool) (s0 : σ) : σ :=
  let (s1, more) := f s0 p.packetID
  if more then rangeLoop f p.packetID 17 p.lost 0 s1 else s1

/-- `PacketList` = `Range` with a callback that appends and always continues -/
def NackPair.packetList (p : NackPair) : List Nat :=
  p.range (fun acc s => (acc ++ [s], true)) []

end Rtcp
