/-
  Model of extended_report.go over the regenerated struct layouts (Gen/Layouts.lean) and the generic
  reflective codec (XRLayout.lean).
-/
import Rtcp.Model.Header
import Rtcp.XRLayout
import Rtcp.Gen.Layouts
namespace Rtcp
open Gen

/-- scalars of a block as the codec sees them: the embedded XRHeader first, then the block's own -/
def XRBlock.scalars (b : XRBlock) : List Nat := [b.bt, b.ts, b.bl] ++ b.vals

def XRBlock.wireSize (b : XRBlock) : Nat := sizeItems (layoutOf b.kind).items b.elems

/-- `setupBlockHeader`, by dynamic type: block type, type-specific octet, block length -/
def XRBlock.setupBt (b : XRBlock) : Nat := if 1 ≤ b.kind ∧ b.kind ≤ 7 then b.kind else b.bt

def XRBlock.setupTs (b : XRBlock) : Nat :=
  match b.kind with
  | 1 | 2 | 3 => b.omits.headD 0 % 16                 -- T & 0x0F
  | 4 | 5 | 7 => 0
  | 6 =>
    let g (i : Nat) := b.omits.getD i 0
    (if g 0 ≠ 0 then 128 else 0) + (if g 1 ≠ 0 then 64 else 0) + (if g 2 ≠ 0 then 32 else 0) + (g 3 % 4) * 8
  | _ => b.ts                                          -- UnknownReportBlock keeps its octet

def XRBlock.setup (b : XRBlock) : XRBlock :=
  { b with bt := b.setupBt, ts := b.setupTs, bl := (b.wireSize / 4 + 65535) % 65536 }   -- uint16(wireSize/4 - 1)

/-- `unpackBlockHeader`, by dynamic type -/
def XRBlock.unpack (b : XRBlock) : XRBlock :=
  match b.kind with
  | 1 | 2 | 3 => { b with omits := [b.ts % 16] }
  | 6 => { b with omits := [b.ts / 128 % 2, b.ts / 64 % 2, b.ts / 32 % 2, b.ts / 8 % 4] }
  | _ => b

def XRBlock.enc (b : XRBlock) : Out Bytes := writeItems (layoutOf b.kind).items b.scalars b.elems

def encXRBlocks : List XRBlock → Out Bytes
  | [] => .ok []
  | b :: bs => do
    let a ← b.enc
    let rest ← encXRBlocks bs
    pure (a ++ rest)

def XR.wireSize (x : XR) : Nat := 4 + ((x.blocks.map XRBlock.wireSize).sum)

def XR.marshalSize (x : XR) : Nat := headerLength + x.wireSize

/-- `ExtendedReport.Marshal`: returns the bytes and the packet with its blocks' headers filled in -/
def XR.enc (x : XR) : Out (Bytes × XR) := do
  let x' : XR := { x with blocks := x.blocks.map XRBlock.setup }
  let length := x'.wireSize
  let h ← Header.enc { type := TypeExtendedReport, length := (length / 4) % 65536 }
  let bs ← encXRBlocks x'.blocks
  pure (h ++ be32 x'.sender ++ bs, x')

def xrKindOfType (bt : Nat) : Nat := if 1 ≤ bt ∧ bt ≤ 7 then bt else 0

/-- default `omit` fields of a fresh block struct of the given kind -/
def xrFreshOmits (kind : Nat) : List Nat :=
  match kind with
  | 1 | 2 | 3 => [0]
  | 6 => [0, 0, 0, 0]
  | _ => []

/-- one block: peek the header, cut `4·(BL+1)` octets (or what is left), read the struct, unpack -/
def xrDecBlock (buf : Bytes) : Out (XRBlock × Bytes) := do
  let (hv, _, _) ← readItems layoutXRHeader.items buf
  match hv with
  | [bt, _, bl] =>
    let kind := xrKindOfType bt
    let blockLength := (bl + 1) * 4
    let size := if blockLength > buf.length then buf.length else blockLength
    let (vs, es, _) ← readItems (layoutOf kind).items (buf.take size)
    match vs with
    | bt' :: ts' :: bl' :: vals =>
      let blk : XRBlock := { kind := kind, bt := bt', ts := ts', bl := bl', omits := xrFreshOmits kind, vals := vals, elems := es }
      pure (blk.unpack, buf.drop size)
    | _ => .err
  | _ => .err

def xrDecBlocksP : Nat → Bytes → List XRBlock × Status
  | 0, _ => ([], .diverge)
  | gas + 1, buf =>
    if buf.length = 0 then ([], .ok)
    else
      match xrDecBlock buf with
      | .ok (blk, rest) =>
        let (bs, st) := xrDecBlocksP gas rest
        (blk :: bs, st)
      | o => ([], o.status)

def XR.decP (b : Bytes) : XR × Status :=
  match Header.dec b with
  | .ok h =>
    if h.type ≠ TypeExtendedReport then ({}, .err)
    else
      let body := b.drop headerLength
      if body.length < 4 then ({}, .err)
      else
        let (bs, st) := xrDecBlocksP (b.length + 1) (body.drop 4)
        ({ sender := get32 body 0, blocks := bs }, st)
  | o => ({}, o.status)

def XR.dec (b : Bytes) : Out XR := (XR.decP b).2.toOut (XR.decP b).1

/-- `DestinationSSRC` of a block, by dynamic type -/
def XRBlock.dest (b : XRBlock) : List Nat :=
  match b.kind with
  | 1 | 2 | 3 | 6 | 7 => [b.vals.headD 0]
  | 5 => b.elems.map (·.headD 0)
  | _ => []

def XR.dest (x : XR) : List Nat := x.sender :: (x.blocks.map XRBlock.dest).flatten

end Rtcp
