/-
  Model of transport_layer_nack.go, rapid_resynchronization_request.go, picture_loss_indication.go,
  slice_loss_indication.go, full_intra_request.go (tree after the `fix:` commits).
  `length := 4 * int(h.Length)` (after the fix: commits 2796f0c, 8e7eece, 4d26312): no 16-bit wrap.
-/
import Rtcp.Model.Header
namespace Rtcp
open Gen

/-! ### PLI / RRR -/

def PictureLossIndication.marshalSize (_ : PictureLossIndication) : Nat := headerLength + ssrcLength * 2
def PictureLossIndication.header (_ : PictureLossIndication) : Header :=
  { count := FormatPLI, type := TypePayloadSpecificFeedback, length := pliLength }
def PictureLossIndication.enc (p : PictureLossIndication) : Out Bytes := do
  let h ← p.header.enc
  pure (h ++ be32 p.sender ++ be32 p.media)
def PictureLossIndication.dec (b : Bytes) : Out PictureLossIndication :=
  if b.length < headerLength + ssrcLength * 2 then .err
  else do
    let h ← Header.dec b
    if h.type ≠ TypePayloadSpecificFeedback ∨ h.count ≠ FormatPLI then .err
    else do
      let s ← u32At b headerLength
      let m ← u32At b (headerLength + ssrcLength)
      pure { sender := s, media := m }
def PictureLossIndication.dest (p : PictureLossIndication) : List Nat := [p.media]

def RapidResync.marshalSize (_ : RapidResync) : Nat := headerLength + rrrHeaderLength
def RapidResync.header (_ : RapidResync) : Header :=
  { count := FormatRRR, type := TypeTransportSpecificFeedback, length := rrrLength }
def RapidResync.enc (p : RapidResync) : Out Bytes := do
  let h ← p.header.enc
  pure (h ++ be32 p.sender ++ be32 p.media)
def RapidResync.dec (b : Bytes) : Out RapidResync :=
  if b.length < headerLength + ssrcLength * 2 then .err
  else do
    let h ← Header.dec b
    if h.type ≠ TypeTransportSpecificFeedback ∨ h.count ≠ FormatRRR then .err
    else do
      let s ← u32At b headerLength
      let m ← u32At b (headerLength + ssrcLength)
      pure { sender := s, media := m }
def RapidResync.dest (p : RapidResync) : List Nat := [p.media]

/-! ### NACK -/

def TransportLayerNack.marshalSize (p : TransportLayerNack) : Nat := headerLength + nackOffset + p.nacks.length * 4
def TransportLayerNack.header (p : TransportLayerNack) : Header :=
  { count := FormatTLN, type := TypeTransportSpecificFeedback, length := (p.marshalSize / 4 - 1) % 65536 }
def encNacks (l : List NackPair) : Bytes := (l.map fun n => be16 n.packetID ++ be16 n.lost).flatten
def TransportLayerNack.enc (p : TransportLayerNack) : Out Bytes :=
  if p.nacks.length + tlnLength > 255 then .err
  else do
    let h ← p.header.enc
    pure (h ++ be32 p.sender ++ be32 p.media ++ encNacks p.nacks)

/-- `for i := start; i < stop; i += 4 { read pair at i }` -/
def decNacks : Nat → Bytes → Nat → Nat → Out (List NackPair)
  | 0, _, _, _ => .diverge
  | gas + 1, b, i, stop =>
    if i < stop then do
      let id ← u16At b i
      let bm ← u16At b (i + 2)
      let rest ← decNacks gas b (i + 4) stop
      pure ({ packetID := id, lost := bm } :: rest)
    else .ok []

def TransportLayerNack.dec (b : Bytes) : Out TransportLayerNack :=
  if b.length < headerLength + ssrcLength then .err
  else do
    let h ← Header.dec b
    let l4 := 4 * h.length
    if b.length < headerLength + l4 then .err
    else if h.type ≠ TypeTransportSpecificFeedback ∨ h.count ≠ FormatTLN then .err
    else if l4 ≤ nackOffset then .err
    else do
      let s ← u32At b headerLength
      let m ← u32At b (headerLength + ssrcLength)
      let ns ← decNacks (b.length + 1) b (headerLength + nackOffset) (headerLength + l4)
      pure { sender := s, media := m, nacks := ns }
def TransportLayerNack.dest (p : TransportLayerNack) : List Nat := [p.media]

/-! ### SLI -/

def SliceLossIndication.marshalSize (p : SliceLossIndication) : Nat := headerLength + sliOffset + p.sli.length * 4
def SliceLossIndication.header (p : SliceLossIndication) : Header :=
  { count := FormatSLI, type := TypeTransportSpecificFeedback, length := (p.marshalSize / 4 - 1) % 65536 }
def SLIEntry.word (s : SLIEntry) : Nat := (s.first % 8192) * 524288 + (s.number % 8192) * 64 + s.picture % 64
def encSLIs (l : List SLIEntry) : Bytes := (l.map fun s => be32 s.word).flatten
def SliceLossIndication.enc (p : SliceLossIndication) : Out Bytes :=
  if p.sli.length + sliLength > 255 then .err
  else do
    let h ← p.header.enc
    pure (h ++ be32 p.sender ++ be32 p.media ++ encSLIs p.sli)

def SLIEntry.ofWord (w : Nat) : SLIEntry :=
  { first := w / 524288 % 8192, number := w / 64 % 8192, picture := w % 64 }

def decSLIs : Nat → Bytes → Nat → Nat → Out (List SLIEntry)
  | 0, _, _, _ => .diverge
  | gas + 1, b, i, stop =>
    if i < stop then do
      let w ← u32At b i
      let rest ← decSLIs gas b (i + 4) stop
      pure (SLIEntry.ofWord w :: rest)
    else .ok []

def SliceLossIndication.dec (b : Bytes) : Out SliceLossIndication :=
  if b.length < headerLength + sliOffset then .err
  else do
    let h ← Header.dec b
    let l4 := 4 * h.length
    if b.length < headerLength + l4 then .err
    else if h.type ≠ TypeTransportSpecificFeedback ∨ h.count ≠ FormatSLI then .err
    else do
      let s ← u32At b headerLength
      let m ← u32At b (headerLength + ssrcLength)
      let es ← decSLIs (b.length + 1) b (headerLength + sliOffset) (headerLength + l4)
      pure { sender := s, media := m, sli := es }
def SliceLossIndication.dest (p : SliceLossIndication) : List Nat := [p.media]

/-! ### FIR -/

def FullIntraRequest.marshalSize (p : FullIntraRequest) : Nat := headerLength + firOffset + p.fir.length * 8
def FullIntraRequest.header (p : FullIntraRequest) : Header :=
  { count := FormatFIR, type := TypePayloadSpecificFeedback, length := (p.marshalSize / 4 - 1) % 65536 }
def encFIRs (l : List FIREntry) : Bytes := (l.map fun e => be32 e.ssrc ++ [byte e.seq, 0, 0, 0]).flatten
def FullIntraRequest.enc (p : FullIntraRequest) : Out Bytes := do
  let h ← p.header.enc
  pure (h ++ be32 p.sender ++ be32 p.media ++ encFIRs p.fir)

def decFIRs : Nat → Bytes → Nat → Nat → Out (List FIREntry)
  | 0, _, _, _ => .diverge
  | gas + 1, b, i, stop =>
    if i < stop then do
      let ssrc ← u32At b i
      let sq ← u8At b (i + 4)
      let rest ← decFIRs gas b (i + 8) stop
      pure ({ ssrc := ssrc, seq := sq } :: rest)
    else .ok []

def FullIntraRequest.dec (b : Bytes) : Out FullIntraRequest :=
  if b.length < headerLength + firOffset then .err
  else do
    let h ← Header.dec b
    let l4 := 4 * h.length
    if b.length < headerLength + l4 then .err
    else if h.type ≠ TypePayloadSpecificFeedback ∨ h.count ≠ FormatFIR then .err
    else if l4 ≤ firOffset ∨ l4 % 8 ≠ 0 then .err
    else do
      let s ← u32At b headerLength
      let m ← u32At b (headerLength + ssrcLength)
      let es ← decFIRs (b.length + 1) b (headerLength + firOffset) (headerLength + l4)
      pure { sender := s, media := m, fir := es }
def FullIntraRequest.dest (p : FullIntraRequest) : List Nat := p.fir.map (·.ssrc)

end Rtcp
