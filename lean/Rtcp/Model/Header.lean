/-
  Model of header.go: the 4-octet common header.
  Bit extraction `x >> k & m` is written as `x / 2^k % (m+1)` (same function on ℕ).
-/
import Rtcp.Types
import Rtcp.Gen.Consts
namespace Rtcp
open Gen

/-- `Header.Marshal` -/
def Header.enc (h : Header) : Out Bytes :=
  if h.count > 31 then .err
  else .ok ([byte (rtpVersion * 64 + (if h.padding then 32 else 0) + h.count), byte h.type] ++ be16 h.length)

/-- `Header.Unmarshal` on a fresh receiver -/
def Header.dec (b : Bytes) : Out Header :=
  if b.length < headerLength then .err
  else do
    let b0 ← u8At b 0
    if b0 / 64 % 4 ≠ rtpVersion then .err
    else do
      let b1 ← u8At b 1
      let l ← u16At b 2
      pure { padding := b0 / 32 % 2 > 0, count := b0 % 32, type := b1, length := l }

end Rtcp
