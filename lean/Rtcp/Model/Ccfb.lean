/-
  Model of rfc8888.go (tree after the `fix:` commits).
-/
import Rtcp.Model.Header
namespace Rtcp
open Gen

def CcfbMetric.enc (m : CcfbMetric) : Out Bytes := do
  let d0 ← setNBitsOfUint16 0 1 0 (if m.received then 1 else 0)
  let d1 ← setNBitsOfUint16 d0 2 1 m.ecn
  let d2 ← setNBitsOfUint16 d1 13 3 m.ato
  pure (be16 d2)

def CcfbMetric.dec (b : Bytes) : Out CcfbMetric :=
  if b.length ≠ metricBlockLength then .err
  else do
    let b0 ← u8At b 0
    if b0 / 128 = 0 then pure { received := false, ecn := 0, ato := 0 }
    else do
      let w ← u16At b 0
      pure { received := true, ecn := b0 / 32 % 4, ato := w % 8192 }

def CcfbBlock.len (b : CcfbBlock) : Nat :=
  let n := b.metrics.length
  reportsOffset + 2 * (if n % 2 ≠ 0 then n + 1 else n)

def encMetrics : List CcfbMetric → Out Bytes
  | [] => .ok []
  | m :: ms => do
    let a ← m.enc
    let rest ← encMetrics ms
    pure (a ++ rest)

def CcfbBlock.enc (b : CcfbBlock) : Out Bytes :=
  if b.metrics.length > maxMetricBlocks then .err
  else do
    let n := b.metrics.length % 65536
    let field := if n > 0 then n - 1 else 0
    let ms ← encMetrics b.metrics
    pure (be32 b.media ++ be16 b.beginSeq ++ be16 field ++ ms ++ zeros (b.len - reportsOffset - ms.length))

def decMetrics : Nat → Bytes → Nat → Out (List CcfbMetric)
  | 0, _, _ => .ok []
  | n + 1, b, off => do
    let mb ← slice b off (off + 2)
    let m ← CcfbMetric.dec mb
    let rest ← decMetrics n b (off + 2)
    pure (m :: rest)

def CcfbBlock.dec (b : Bytes) : Out CcfbBlock :=
  if b.length < reportsOffset then .err
  else do
    let media ← u32At b 0
    let bs ← u16At b beginSequenceOffset
    let field ← u16At b numReportsOffset
    if field = 0 then pure { media := media, beginSeq := bs, metrics := [] }
    else if bs + field > 65535 then .err
    else
      let endSeq := (bs + field) % 65536
      let num := (endSeq + 65536 - bs + 1) % 65536
      if b.length < reportsOffset + num * 2 then .err
      else do
        let ms ← decMetrics num b reportsOffset
        pure { media := media, beginSeq := bs, metrics := ms }

def blocksLen (bs : List CcfbBlock) : Nat := (bs.map CcfbBlock.len).sum

def Ccfb.marshalSize (c : Ccfb) : Nat := reportBlockOffset + blocksLen c.blocks + reportTimestampLength

def Ccfb.header (c : Ccfb) : Header :=
  { padding := false, count := FormatCCFB, type := TypeTransportSpecificFeedback, length := (c.marshalSize / 4 - 1) % 65536 }

def encBlocks : List CcfbBlock → Out Bytes
  | [] => .ok []
  | b :: bs => do
    let a ← b.enc
    let rest ← encBlocks bs
    pure (a ++ rest)

def Ccfb.enc (c : Ccfb) : Out Bytes := do
  let h ← c.header.enc
  let bs ← encBlocks c.blocks
  pure (h ++ be32 c.sender ++ bs ++ be32 c.timestamp)

/-- `for offset < reportTimestampOffset { block.unmarshal(raw[offset:]); offset += block.len() }` on the suffix;
`room` = number of octets before the timestamp that are still unread. -/
def decBlocksP : Nat → Bytes → Nat → List CcfbBlock × Status
  | 0, _, _ => ([], .diverge)
  | gas + 1, rest, tsOff =>
    -- `rest` = raw[offset:], `tsOff` = reportTimestampOffset - offset (the loop runs while it is positive)
    if tsOff = 0 then ([], .ok)
    else
      match CcfbBlock.dec rest with
      | .ok blk =>
        let (bs, st) := decBlocksP gas (rest.drop blk.len) (tsOff - blk.len)
        (blk :: bs, st)
      | o => ([], o.status)

def Ccfb.decP (b : Bytes) : Ccfb × Status :=
  if b.length < headerLength + ssrcLength + reportTimestampLength then ({}, .err)
  else
    match Header.dec b with
    | .ok h =>
      if h.type ≠ TypeTransportSpecificFeedback then ({}, .err)
      else
        match u32At b headerLength, u32At b (b.length - reportTimestampLength) with
        | .ok s, .ok ts =>
          let (bs, st) := decBlocksP (b.length + 1) (b.drop reportBlockOffset) (b.length - reportTimestampLength - reportBlockOffset)
          ({ sender := s, blocks := bs, timestamp := ts }, st)
        | _, _ => ({}, .panic)
    | o => ({}, o.status)

def Ccfb.dec (b : Bytes) : Out Ccfb := (Ccfb.decP b).2.toOut (Ccfb.decP b).1

def Ccfb.dest (c : Ccfb) : List Nat := c.blocks.map (·.media)

end Rtcp
