/-
  Model of reception_report.go, sender_report.go, receiver_report.go (tree after the `fix:` commits).
-/
import Rtcp.Model.Header
namespace Rtcp
open Gen

/-- `ReceptionReport.Marshal` -/
def ReceptionReport.enc (r : ReceptionReport) : Out Bytes :=
  if r.totalLost ≥ 16777216 then .err
  else .ok (be32 r.ssrc ++ [byte r.fractionLost] ++ be24 r.totalLost ++ be32 r.lastSeq ++ be32 r.jitter
            ++ be32 r.lastSR ++ be32 r.delay)

/-- `ReceptionReport.Unmarshal` -/
def ReceptionReport.dec (b : Bytes) : Out ReceptionReport :=
  if b.length < receptionReportLength then .err
  else do
    let ssrc ← u32At b 0
    let fl ← u8At b fractionLostOffset
    let tl ← u24At b totalLostOffset
    let ls ← u32At b lastSeqOffset
    let j ← u32At b jitterOffset
    let lsr ← u32At b lastSROffset
    let d ← u32At b delayOffset
    pure { ssrc := ssrc, fractionLost := fl, totalLost := tl, lastSeq := ls, jitter := j, lastSR := lsr, delay := d }

/-- the report loop of the encoders: each report is marshalled in order, the first error aborts -/
def encReports : List ReceptionReport → Out Bytes
  | [] => .ok []
  | r :: rs => do
    let a ← r.enc
    let rest ← encReports rs
    pure (a ++ rest)

/-! ### SenderReport -/

def SenderReport.marshalSize (r : SenderReport) : Nat :=
  headerLength + srHeaderLength + r.reports.length * receptionReportLength + r.ext.length + getPadding r.ext.length

def SenderReport.header (r : SenderReport) : Header :=
  { count := r.reports.length % 256, type := TypeSenderReport, length := (r.marshalSize / 4 - 1) % 65536 }

/-- `SenderReport.Marshal`: the buffer has exactly `MarshalSize` octets, so all copies fit. -/
def SenderReport.enc (r : SenderReport) : Out Bytes := do
  let reps ← encReports r.reports
  if r.reports.length > countMax then .err
  else do
    let h ← r.header.enc
    pure (h ++ be32 r.ssrc ++ be64 r.ntpTime ++ be32 r.rtpTime ++ be32 r.packetCount ++ be32 r.octetCount
          ++ reps ++ r.ext ++ zeros (getPadding r.ext.length))

/-- the report loop of `SenderReport.Unmarshal`: `n` iterations over `body` from `off` -/
def srDecReports : Nat → Bytes → Nat → Out (List ReceptionReport × Nat)
  | 0, _, off => .ok ([], off)
  | n + 1, body, off =>
    if off + receptionReportLength > body.length then .err
    else do
      let rrBody ← slice body off (off + receptionReportLength)
      let rr ← ReceptionReport.dec rrBody
      let (rs, off') ← srDecReports n body (off + receptionReportLength)
      pure (rr :: rs, off')

def SenderReport.dec (b : Bytes) : Out SenderReport :=
  if b.length < headerLength + srHeaderLength then .err
  else do
    let h ← Header.dec b
    if h.type ≠ TypeSenderReport then .err
    else do
      let body ← sliceFrom b headerLength
      let ssrc ← u32At body srSSRCOffset
      let ntp ← u64At body srNTPOffset
      let rtp ← u32At body srRTPOffset
      let pc ← u32At body srPacketCountOffset
      let oc ← u32At body srOctetCountOffset
      let (reps, off) ← srDecReports h.count body srReportOffset
      let ext ← (if off < body.length then sliceFrom body off else pure [])
      if reps.length % 256 ≠ h.count then .err
      else pure { ssrc := ssrc, ntpTime := ntp, rtpTime := rtp, packetCount := pc, octetCount := oc,
                  reports := reps, ext := ext }

def SenderReport.dest (r : SenderReport) : List Nat := r.reports.map (·.ssrc) ++ [r.ssrc]

/-! ### ReceiverReport -/

def ReceiverReport.marshalSize (r : ReceiverReport) : Nat :=
  headerLength + ssrcLength + r.reports.length * receptionReportLength + r.ext.length + getPadding r.ext.length

def ReceiverReport.header (r : ReceiverReport) : Header :=
  { count := r.reports.length % 256, type := TypeReceiverReport, length := (r.marshalSize / 4 - 1) % 65536 }

def ReceiverReport.enc (r : ReceiverReport) : Out Bytes := do
  let reps ← encReports r.reports
  if r.reports.length > countMax then .err
  else do
    let h ← r.header.enc
    pure (h ++ be32 r.ssrc ++ reps ++ r.ext ++ zeros (getPadding r.ext.length))

/-- `for i := 8; i < len(raw) && len(reports) < count; i += 24`, on the remaining suffix -/
def rrDecReports : Nat → Bytes → Out (List ReceptionReport × Bytes)
  | 0, rest => .ok ([], rest)
  | n + 1, rest =>
    if rest.length = 0 then .ok ([], rest)
    else do
      let rr ← ReceptionReport.dec rest
      let (rs, rest') ← rrDecReports n (rest.drop receptionReportLength)
      pure (rr :: rs, rest')

def ReceiverReport.dec (b : Bytes) : Out ReceiverReport :=
  if b.length < headerLength + ssrcLength then .err
  else do
    let h ← Header.dec b
    if h.type ≠ TypeReceiverReport then .err
    else do
      let ssrc ← u32At b rrSSRCOffset
      let (reps, _) ← rrDecReports h.count (b.drop rrReportOffset)
      let ext ← sliceFrom b (rrReportOffset + reps.length * receptionReportLength)
      if reps.length % 256 ≠ h.count then .err
      else pure { ssrc := ssrc, reports := reps, ext := ext }

def ReceiverReport.dest (r : ReceiverReport) : List Nat := r.reports.map (·.ssrc)

end Rtcp
