/-
  Model of receiver_estimated_maximum_bitrate.go (tree after the `fix:` commits).
  A float32 is its IEEE-754 bit pattern. Finite non-negative values are `m · 2^k`; every float32
  operation the code performs on the reachable range (compare with 2^18 and 0x3FFFF·2^63, halve a
  normal number, `math.Floor`, assemble bits) is exact and is modelled on ⌊value⌋ : ℕ (DESIGN §3).
-/
import Rtcp.Model.Header
namespace Rtcp
open Gen

def f32Sign (bits : Nat) : Nat := bits / 2147483648 % 2
def f32Exp (bits : Nat) : Nat := bits / 8388608 % 256
def f32Frac (bits : Nat) : Nat := bits % 8388608
def f32IsNaN (bits : Nat) : Bool := f32Exp bits = 255 ∧ f32Frac bits ≠ 0
def f32IsInf (bits : Nat) : Bool := f32Exp bits = 255 ∧ f32Frac bits = 0

/-- `⌊|x|⌋` for a finite float32 -/
def f32Floor (bits : Nat) : Nat :=
  let e := f32Exp bits
  let f := f32Frac bits
  if e = 0 then 0                                   -- subnormal: below 1
  else if e ≥ 150 then (8388608 + f) * 2 ^ (e - 150)
  else (8388608 + f) / 2 ^ (150 - e)

/-- is the float (not NaN) strictly negative: `bitrate < 0` -/
def f32Neg (bits : Nat) : Bool := f32Sign bits = 1 ∧ ¬ (f32Exp bits = 0 ∧ f32Frac bits = 0)

def rembBitrateMax : Nat := 262143 * 9223372036854775808      -- 0x3FFFF · 2^63

/-- `for bitrate >= (1 << 18) { bitrate /= 2.0; exp++ }` on ⌊bitrate⌋ -/
def rembEncLoop : Nat → Nat → Nat → Out (Nat × Nat)
  | 0, _, _ => .diverge
  | gas + 1, v, exp => if v ≥ 262144 then rembEncLoop gas (v / 2) (exp + 1) else .ok (v, exp)

/-- mantissa and exponent chosen by `MarshalTo`; `err` for negative bitrates -/
def rembEncBitrate (bits : Nat) : Out (Nat × Nat) :=
  let v0 := if f32IsInf bits ∧ f32Sign bits = 0 then rembBitrateMax else f32Floor bits
  let v := if v0 ≥ rembBitrateMax ∧ f32Sign bits = 0 then rembBitrateMax else v0
  if f32Neg bits then .err
  else do
    let (m, exp) ← rembEncLoop 200 (if f32Sign bits = 1 then 0 else v) 0
    if exp ≥ 64 then .err else pure (m, exp)

def Remb.marshalSize (p : Remb) : Nat := 20 + 4 * p.ssrcs.length

def Remb.header (p : Remb) : Header :=
  { count := FormatREMB, type := TypePayloadSpecificFeedback, length := (p.marshalSize / 4 - 1) % 65536 }

def encSSRCList (l : List Nat) : Bytes := (l.map be32).flatten

def Remb.enc (p : Remb) : Out Bytes :=
  if p.ssrcs.length > 255 then .err
  else do
    let (m, exp) ← rembEncBitrate p.bitrate
    pure ([143, 206] ++ be16 ((p.marshalSize / 4 - 1) % 65536) ++ be32 p.sender ++ be32 0
          ++ [82, 69, 77, 66] ++ [byte p.ssrcs.length]
          ++ [byte ((exp * 4) % 256 + (m / 65536) % 256), byte (m / 256), byte m]
          ++ encSSRCList p.ssrcs)

/-- `for (mantissa & 0x800000) == 0 { exp--; mantissa *= 2 }` (exp in uint8, mantissa in uint32) -/
def rembNormLoop : Nat → Nat → Nat → Out (Nat × Nat)
  | 0, _, _ => .diverge
  | gas + 1, exp, m =>
    if m / 8388608 % 2 = 0 then rembNormLoop gas ((exp + 255) % 256) ((m * 2) % 4294967296)
    else .ok (exp, m)

/-- bit pattern of the decoded bitrate from the 6-bit exponent and 18-bit mantissa -/
def rembDecBits (e m : Nat) : Out Nat := do
  let exp0 := (e + 127 + 23) % 256
  let (exp, mant) ← (if m ≠ 0 then rembNormLoop 40 exp0 m else pure (exp0, m))
  pure ((exp * 8388608) % 4294967296 + mant % 8388608)

def decSSRCList : Nat → Bytes → Nat → Nat → Out (List Nat)
  | 0, _, _, _ => .diverge
  | gas + 1, b, n, size =>
    if n < size then do
      let s ← u32At b n
      let rest ← decSSRCList gas b (n + 4) size
      pure (s :: rest)
    else .ok []

def Remb.dec (b : Bytes) : Out Remb :=
  if b.length < 20 then .err
  else do
    let b0 ← u8At b 0
    if b0 / 64 ≠ 2 then .err
    else if b0 / 32 % 2 ≠ 0 then .err
    else if b0 % 32 ≠ 15 then .err
    else do
      let b1 ← u8At b 1
      if b1 ≠ 206 then .err
      else do
        let length ← u16At b 2
        let size := ((length + 1) * 4) % 65536
        if size < 20 then .err
        else if b.length < size then .err
        else do
          let sender ← u32At b 4
          let media ← u32At b 8
          if media ≠ 0 then .err
          else do
            let id ← slice b 12 16
            if id ≠ [82, 69, 77, 66] then .err
            else do
              let num ← u8At b 16
              if size ≠ 20 + 4 * num then .err
              else do
                let b17 ← u8At b 17
                let b18 ← u8At b 18
                let b19 ← u8At b 19
                let bits ← rembDecBits (b17 / 4) ((b17 % 4) * 65536 + b18 * 256 + b19)
                let ssrcs ← decSSRCList (b.length + 1) b 20 size
                pure { sender := sender, bitrate := bits, ssrcs := ssrcs }

def Remb.dest (p : Remb) : List Nat := p.ssrcs

/-! ### `String()`: which unit is selected (the only indexing in a hand-written String method) -/

/-- float32 division of a normal positive `m·2^k` (2^23 ≤ m < 2^24) by 1000, round to nearest even -/
def f32Div1000 (m : Nat) (k : Int) : Nat × Int :=
  let n := m * 1099511627776          -- m · 2^40
  let q := n / 1000
  let r := n % 1000
  let l := Nat.log2 q + 1
  let sh := l - 24
  let m' := q / 2 ^ sh
  let low := q % 2 ^ sh
  let half := 2 ^ (sh - 1)
  let up := low > half ∨ (low = half ∧ r > 0) ∨ (low = half ∧ r = 0 ∧ m' % 2 = 1)
  let m'' := if up then m' + 1 else m'
  if m'' = 16777216 then (8388608, k - 40 + sh + 1) else (m'', k - 40 + sh)

/-- `m·2^k ≥ 1000` -/
def f32Ge1000 (m : Nat) (k : Int) : Bool :=
  if k ≥ 0 then m * 2 ^ k.toNat ≥ 1000 else m ≥ 1000 * 2 ^ (-k).toNat

/-- the unit-selection loop of `String()` over an abstract float type:
`for bitrate >= 1000.0 && powers < len(bitUnits)-1 { bitrate /= 1000.0; powers++ }` -/
def unitLoop {F : Type} (ge1000 : F → Bool) (div1000 : F → F) (nUnits : Nat) : Nat → F → Nat → Nat
  | 0, _, p => p
  | gas + 1, x, p => if ge1000 x ∧ p < nUnits - 1 then unitLoop ge1000 div1000 nUnits gas (div1000 x) (p + 1) else p

/-- instantiated with float32 as normalised `(m, k)` pairs -/
def rembUnitLoop (gas m : Nat) (k : Int) (p : Nat) : Nat :=
  unitLoop (fun (x : Nat × Int) => f32Ge1000 x.1 x.2) (fun x => f32Div1000 x.1 x.2) 7 gas (m, k) p

/-- index into `bitUnits` chosen by `String()` (7 entries) -/
def rembUnitIndex (bits : Nat) : Nat :=
  if f32IsNaN bits then 0
  else if f32Sign bits = 1 then 0
  else if f32IsInf bits then 6
  else if f32Exp bits = 0 then 0
  else rembUnitLoop 10 (8388608 + f32Frac bits) ((f32Exp bits : Int) - 150) 0

end Rtcp
