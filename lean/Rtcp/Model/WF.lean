/-
  `Typed`: every numeric field fits its Go type (true of any Go value; assumed of encoder inputs, proved of decoder outputs).
  `WF`: the property's well-formed domain (fields within their *wire* widths, RFC structural constraints) — DESIGN §6 C02.
  All predicates are decidable.
-/
import Rtcp.Model.Datagram
namespace Rtcp

def u8 (n : Nat) : Prop := n < 256
def u16 (n : Nat) : Prop := n < 65536
def u32 (n : Nat) : Prop := n < 4294967296
def u64 (n : Nat) : Prop := n < 18446744073709551616
instance (n : Nat) : Decidable (u8 n) := by unfold u8; infer_instance
instance (n : Nat) : Decidable (u16 n) := by unfold u16; infer_instance
instance (n : Nat) : Decidable (u32 n) := by unfold u32; infer_instance
instance (n : Nat) : Decidable (u64 n) := by unfold u64; infer_instance

def ReceptionReport.WF (r : ReceptionReport) : Prop :=
  u32 r.ssrc ∧ u8 r.fractionLost ∧ r.totalLost < 16777216 ∧ u32 r.lastSeq ∧ u32 r.jitter ∧ u32 r.lastSR ∧ u32 r.delay
instance (r : ReceptionReport) : Decidable r.WF := by unfold ReceptionReport.WF; infer_instance

def SenderReport.WF (v : SenderReport) : Prop :=
  u32 v.ssrc ∧ u64 v.ntpTime ∧ u32 v.rtpTime ∧ u32 v.packetCount ∧ u32 v.octetCount ∧
  v.reports.length ≤ 31 ∧ (∀ r ∈ v.reports, r.WF) ∧ v.ext.length % 4 = 0 ∧ v.marshalSize ≤ 262144
instance (v : SenderReport) : Decidable v.WF := by unfold SenderReport.WF; infer_instance

def ReceiverReport.WF (v : ReceiverReport) : Prop :=
  u32 v.ssrc ∧ v.reports.length ≤ 31 ∧ (∀ r ∈ v.reports, r.WF) ∧ v.marshalSize ≤ 262144
instance (v : ReceiverReport) : Decidable v.WF := by unfold ReceiverReport.WF; infer_instance

def SDESItem.WF (i : SDESItem) : Prop := 0 < i.type ∧ u8 i.type ∧ i.text.length ≤ 255
instance (i : SDESItem) : Decidable i.WF := by unfold SDESItem.WF; infer_instance
def SDESChunk.WF (c : SDESChunk) : Prop := u32 c.source ∧ ∀ i ∈ c.items, i.WF
instance (c : SDESChunk) : Decidable c.WF := by unfold SDESChunk.WF; infer_instance
def SourceDescription.WF (s : SourceDescription) : Prop :=
  s.chunks.length ≤ 31 ∧ (∀ c ∈ s.chunks, c.WF) ∧ s.marshalSize ≤ 262144
instance (s : SourceDescription) : Decidable s.WF := by unfold SourceDescription.WF; infer_instance

def Goodbye.WF (g : Goodbye) : Prop := g.sources.length ≤ 31 ∧ (∀ s ∈ g.sources, u32 s) ∧ g.reason.length ≤ 255
instance (g : Goodbye) : Decidable g.WF := by unfold Goodbye.WF; infer_instance

def ApplicationDefined.WF (a : ApplicationDefined) : Prop :=
  a.subType ≤ 31 ∧ u32 a.ssrc ∧ a.name.length = 4 ∧ a.data.length ≤ 65535 - 12 ∧ a.data.length % 4 = 0
instance (a : ApplicationDefined) : Decidable a.WF := by unfold ApplicationDefined.WF; infer_instance

def NackPair.WF (n : NackPair) : Prop := u16 n.packetID ∧ u16 n.lost
instance (n : NackPair) : Decidable n.WF := by unfold NackPair.WF; infer_instance
def TransportLayerNack.WF (p : TransportLayerNack) : Prop :=
  u32 p.sender ∧ u32 p.media ∧ 1 ≤ p.nacks.length ∧ p.nacks.length ≤ 253 ∧ ∀ n ∈ p.nacks, n.WF
instance (p : TransportLayerNack) : Decidable p.WF := by unfold TransportLayerNack.WF; infer_instance

def RapidResync.WF (p : RapidResync) : Prop := u32 p.sender ∧ u32 p.media
instance (p : RapidResync) : Decidable p.WF := by unfold RapidResync.WF; infer_instance
def PictureLossIndication.WF (p : PictureLossIndication) : Prop := u32 p.sender ∧ u32 p.media
instance (p : PictureLossIndication) : Decidable p.WF := by unfold PictureLossIndication.WF; infer_instance

def SLIEntry.WF (e : SLIEntry) : Prop := e.first < 8192 ∧ e.number < 8192 ∧ e.picture < 64
instance (e : SLIEntry) : Decidable e.WF := by unfold SLIEntry.WF; infer_instance
def SliceLossIndication.WF (p : SliceLossIndication) : Prop :=
  u32 p.sender ∧ u32 p.media ∧ p.sli.length ≤ 253 ∧ ∀ e ∈ p.sli, e.WF
instance (p : SliceLossIndication) : Decidable p.WF := by unfold SliceLossIndication.WF; infer_instance

def FIREntry.WF (e : FIREntry) : Prop := u32 e.ssrc ∧ u8 e.seq
instance (e : FIREntry) : Decidable e.WF := by unfold FIREntry.WF; infer_instance
def FullIntraRequest.WF (p : FullIntraRequest) : Prop :=
  u32 p.sender ∧ u32 p.media ∧ 1 ≤ p.fir.length ∧ p.fir.length ≤ 32766 ∧ ∀ e ∈ p.fir, e.WF
instance (p : FullIntraRequest) : Decidable p.WF := by unfold FullIntraRequest.WF; infer_instance

end Rtcp
