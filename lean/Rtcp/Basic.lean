/-
  Rtcp.Basic — the vocabulary every model file uses.

  * `Bytes`            Go `[]byte` / `string` (capacity = length; see DESIGN §3)
  * `Out α`            result of a Go call: value, returned error, run-time panic, gas exhausted
  * `uNAt`             `b[i]` and `binary.BigEndian.UintN(b[i:])`: panic exactly when fewer than N octets remain
  * `beN`              `binary.BigEndian.PutUintN`
  Core Lean only (no Mathlib) so that the driver links as an executable.
-/
namespace Rtcp

abbrev Bytes := List UInt8

/-- Outcome of running a piece of Go code. `panic` is a Go run-time panic (index / slice bound),
`diverge` means a loop's gas ran out (shown unreachable in `Proofs/C01`). -/
inductive Out (α : Type) where
  | ok (a : α)
  | err
  | panic
  | diverge
  deriving Repr, DecidableEq, Inhabited

namespace Out

@[inline] def bind {α β : Type} : Out α → (α → Out β) → Out β
  | ok a, f => f a
  | err, _ => err
  | panic, _ => panic
  | diverge, _ => diverge

instance : Monad Out where
  pure := ok
  bind := bind

@[simp] theorem pure_eq {α} (a : α) : (pure a : Out α) = ok a := rfl
@[simp] theorem bind_ok {α β} (a : α) (f : α → Out β) : (ok a >>= f) = f a := rfl
@[simp] theorem bind_err {α β} (f : α → Out β) : ((err : Out α) >>= f) = err := rfl
@[simp] theorem bind_panic {α β} (f : α → Out β) : ((panic : Out α) >>= f) = panic := rfl
@[simp] theorem bind_diverge {α β} (f : α → Out β) : ((diverge : Out α) >>= f) = diverge := rfl
@[simp] theorem map_ok {α β} (a : α) (f : α → β) : (f <$> (ok a : Out α)) = ok (f a) := rfl
@[simp] theorem map_err {α β} (f : α → β) : (f <$> (err : Out α)) = err := rfl
@[simp] theorem map_panic {α β} (f : α → β) : (f <$> (panic : Out α)) = panic := rfl
@[simp] theorem map_diverge {α β} (f : α → β) : (f <$> (diverge : Out α)) = diverge := rfl

def isOk {α} : Out α → Bool
  | ok _ => true
  | _ => false

/-- a Go call that neither panics nor hangs -/
def Safe {α} (o : Out α) : Prop := o ≠ panic ∧ o ≠ diverge

theorem safe_ok {α} (a : α) : Safe (ok a) := ⟨by simp, by simp⟩
theorem safe_err {α} : Safe (err : Out α) := ⟨by simp, by simp⟩

theorem safe_bind {α β} {o : Out α} {f : α → Out β} (ho : Safe o) (hf : ∀ a, o = ok a → Safe (f a)) :
    Safe (o >>= f) := by
  cases o with
  | ok a => exact hf a rfl
  | err => exact safe_err
  | panic => exact absurd rfl ho.1
  | diverge => exact absurd rfl ho.2

end Out

/-- Status of a call that leaves a partially filled receiver behind (DESIGN §3). -/
inductive Status where
  | ok | err | panic | diverge
  deriving Repr, DecidableEq, Inhabited

def Status.toOut {α} (s : Status) (a : α) : Out α :=
  match s with
  | .ok => .ok a
  | .err => .err
  | .panic => .panic
  | .diverge => .diverge

def Out.status {α} : Out α → Status
  | .ok _ => .ok
  | .err => .err
  | .panic => .panic
  | .diverge => .diverge

/-! ## octets -/

@[inline] def byte (n : Nat) : UInt8 := UInt8.ofNat n

/-- `b[i]` as a number, 0 outside (only ever used under a bounds guard; the guarded reads are `uNAt`). -/
@[inline] def get8 (b : Bytes) (i : Nat) : Nat := (b.getD i 0).toNat

def get16 (b : Bytes) (i : Nat) : Nat := get8 b i * 256 + get8 b (i + 1)
def get24 (b : Bytes) (i : Nat) : Nat := get8 b i * 65536 + get8 b (i + 1) * 256 + get8 b (i + 2)
def get32 (b : Bytes) (i : Nat) : Nat :=
  get8 b i * 16777216 + get8 b (i + 1) * 65536 + get8 b (i + 2) * 256 + get8 b (i + 3)
def get64 (b : Bytes) (i : Nat) : Nat := get32 b i * 4294967296 + get32 b (i + 4)

/-- Go `b[i]` -/
def u8At (b : Bytes) (i : Nat) : Out Nat := if i + 1 ≤ b.length then .ok (get8 b i) else .panic
/-- Go `binary.BigEndian.Uint16(b[i:])` -/
def u16At (b : Bytes) (i : Nat) : Out Nat := if i + 2 ≤ b.length then .ok (get16 b i) else .panic
def u24At (b : Bytes) (i : Nat) : Out Nat := if i + 3 ≤ b.length then .ok (get24 b i) else .panic
def u32At (b : Bytes) (i : Nat) : Out Nat := if i + 4 ≤ b.length then .ok (get32 b i) else .panic
def u64At (b : Bytes) (i : Nat) : Out Nat := if i + 8 ≤ b.length then .ok (get64 b i) else .panic

/-- Go `b[i:j]` with cap = len -/
def slice (b : Bytes) (i j : Nat) : Out Bytes :=
  if i ≤ j ∧ j ≤ b.length then .ok ((b.take j).drop i) else .panic

/-- Go `b[i:]` -/
def sliceFrom (b : Bytes) (i : Nat) : Out Bytes :=
  if i ≤ b.length then .ok (b.drop i) else .panic

def be16 (n : Nat) : Bytes := [byte (n / 256), byte n]
def be24 (n : Nat) : Bytes := [byte (n / 65536), byte (n / 256), byte n]
def be32 (n : Nat) : Bytes := [byte (n / 16777216), byte (n / 65536), byte (n / 256), byte n]
def be64 (n : Nat) : Bytes := be32 (n / 4294967296) ++ be32 n

def zeros (n : Nat) : Bytes := List.replicate n 0

/-- Go `copy(buf[off:], data)` into a buffer: overwrites, truncates silently, never grows.
Panics (like `buf[off:]`) when `off > len(buf)`. -/
def copyInto (buf : Bytes) (off : Nat) (data : Bytes) : Out Bytes :=
  if off ≤ buf.length then
    let n := min data.length (buf.length - off)
    .ok (buf.take off ++ data.take n ++ buf.drop (off + n))
  else .panic

/-- Go `getPadding` on a non-negative `int` -/
def getPadding (n : Nat) : Nat := if n % 4 = 0 then 0 else 4 - n % 4

/-! ## util.go bit helpers, modelled with the Go widths explicit -/

/-- `setNBitsOfUint16(src, size, startIndex, val)`; all arguments are `uint16` values. -/
def setNBitsOfUint16 (src size startIndex val : Nat) : Out Nat :=
  if (startIndex + size) % 65536 > 16 then .err
  else
    let v := val &&& (((1 <<< size) % 65536 + 65535) % 65536)     -- (1<<size)-1 in uint16
    .ok (src ||| ((v <<< ((16 + 65536 - size + 65536 - startIndex) % 65536)) % 65536))

/-- `appendNBitsToUint32(src, n, val)` in `uint32` -/
def appendNBitsToUint32 (src n val : Nat) : Nat :=
  ((src <<< n) % 4294967296) ||| (val &&& (4294967295 >>> ((32 + 4294967296 - n) % 4294967296)))

/-- `getNBitsFromByte(b, begin, n)`: `begin`, `n` are `uint16`, mask arithmetic in `uint8`. -/
def getNBitsFromByte (b begin_ n : Nat) : Nat :=
  let endShift := (8 + 65536 - (begin_ + n) % 65536) % 65536
  let mask := (255 >>> begin_) &&& ((255 <<< endShift) % 256)
  (b &&& mask) >>> endShift

def localMin (x y : Nat) : Nat := if x < y then x else y

end Rtcp
