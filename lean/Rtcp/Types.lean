/-
  Rtcp.Types — one structure per Go struct. Numeric fields are `Nat`; `Typed` (Model/Typed.lean) says
  each is below 2^w for its Go type. Strings are octet lists. `nil` and empty are identified.
-/
import Rtcp.Basic
namespace Rtcp

structure Header where
  padding : Bool := false
  count : Nat := 0      -- uint8
  type : Nat := 0       -- PacketType uint8
  length : Nat := 0     -- uint16
  deriving Repr, DecidableEq, Inhabited

structure ReceptionReport where
  ssrc : Nat := 0            -- uint32
  fractionLost : Nat := 0    -- uint8
  totalLost : Nat := 0       -- uint32 (24 on the wire)
  lastSeq : Nat := 0         -- uint32
  jitter : Nat := 0
  lastSR : Nat := 0
  delay : Nat := 0
  deriving Repr, DecidableEq, Inhabited

structure SenderReport where
  ssrc : Nat := 0
  ntpTime : Nat := 0         -- uint64
  rtpTime : Nat := 0
  packetCount : Nat := 0
  octetCount : Nat := 0
  reports : List ReceptionReport := []
  ext : Bytes := []
  deriving Repr, DecidableEq, Inhabited

structure ReceiverReport where
  ssrc : Nat := 0
  reports : List ReceptionReport := []
  ext : Bytes := []
  deriving Repr, DecidableEq, Inhabited

structure SDESItem where
  type : Nat := 0           -- SDESType uint8
  text : Bytes := []
  deriving Repr, DecidableEq, Inhabited

structure SDESChunk where
  source : Nat := 0
  items : List SDESItem := []
  deriving Repr, DecidableEq, Inhabited

structure SourceDescription where
  chunks : List SDESChunk := []
  deriving Repr, DecidableEq, Inhabited

structure Goodbye where
  sources : List Nat := []
  reason : Bytes := []
  deriving Repr, DecidableEq, Inhabited

structure ApplicationDefined where
  subType : Nat := 0        -- uint8
  ssrc : Nat := 0
  name : Bytes := []
  data : Bytes := []
  deriving Repr, DecidableEq, Inhabited

structure NackPair where
  packetID : Nat := 0       -- uint16
  lost : Nat := 0           -- PacketBitmap uint16
  deriving Repr, DecidableEq, Inhabited

structure TransportLayerNack where
  sender : Nat := 0
  media : Nat := 0
  nacks : List NackPair := []
  deriving Repr, DecidableEq, Inhabited

structure RapidResync where
  sender : Nat := 0
  media : Nat := 0
  deriving Repr, DecidableEq, Inhabited

structure PictureLossIndication where
  sender : Nat := 0
  media : Nat := 0
  deriving Repr, DecidableEq, Inhabited

structure SLIEntry where
  first : Nat := 0          -- uint16 (13 on the wire)
  number : Nat := 0         -- uint16 (13)
  picture : Nat := 0        -- uint8 (6)
  deriving Repr, DecidableEq, Inhabited

structure SliceLossIndication where
  sender : Nat := 0
  media : Nat := 0
  sli : List SLIEntry := []
  deriving Repr, DecidableEq, Inhabited

structure FIREntry where
  ssrc : Nat := 0
  seq : Nat := 0            -- uint8
  deriving Repr, DecidableEq, Inhabited

structure FullIntraRequest where
  sender : Nat := 0
  media : Nat := 0
  fir : List FIREntry := []
  deriving Repr, DecidableEq, Inhabited

/-- `Bitrate` is the IEEE-754 bit pattern of the Go `float32`. -/
structure Remb where
  sender : Nat := 0
  bitrate : Nat := 0        -- math.Float32bits
  ssrcs : List Nat := []
  deriving Repr, DecidableEq, Inhabited

/-- `PacketStatusChunk`: `*RunLengthChunk` or `*StatusVectorChunk` -/
inductive TwccChunk where
  | rl (type sym run : Nat)
  | sv (type symSize : Nat) (syms : List Nat)
  deriving Repr, DecidableEq, Inhabited

structure RecvDelta where
  type : Nat := 0           -- uint16
  delta : Int := 0          -- int64, microseconds
  deriving Repr, DecidableEq, Inhabited

structure Twcc where
  header : Header := {}
  sender : Nat := 0
  media : Nat := 0
  baseSeq : Nat := 0        -- uint16
  statusCount : Nat := 0    -- uint16
  refTime : Nat := 0        -- uint32 (24)
  fbCount : Nat := 0        -- uint8
  chunks : List TwccChunk := []
  deltas : List RecvDelta := []
  deriving Repr, DecidableEq, Inhabited

structure CcfbMetric where
  received : Bool := false
  ecn : Nat := 0            -- uint8
  ato : Nat := 0            -- uint16
  deriving Repr, DecidableEq, Inhabited

structure CcfbBlock where
  media : Nat := 0
  beginSeq : Nat := 0       -- uint16
  metrics : List CcfbMetric := []
  deriving Repr, DecidableEq, Inhabited

structure Ccfb where
  sender : Nat := 0
  blocks : List CcfbBlock := []
  timestamp : Nat := 0
  deriving Repr, DecidableEq, Inhabited

/-- An XR report block in layout-generic form (DESIGN §6 C15):
`kind` is the dynamic Go type (1..7 = the defined block structs, 0 = `UnknownReportBlock`);
`bt/ts/bl` the embedded `XRHeader`; `omits` the `encoding:"omit"` fields in declaration order
(bools as 0/1); `vals` the exported scalar fields that go on the wire, in order;
`elems` the trailing slice, one scalar list per element. -/
structure XRBlock where
  kind : Nat := 0
  bt : Nat := 0
  ts : Nat := 0
  bl : Nat := 0
  omits : List Nat := []
  vals : List Nat := []
  elems : List (List Nat) := []
  deriving Repr, DecidableEq, Inhabited

structure XR where
  sender : Nat := 0
  blocks : List XRBlock := []
  deriving Repr, DecidableEq, Inhabited

inductive Packet where
  | sr (v : SenderReport)
  | rr (v : ReceiverReport)
  | sdes (v : SourceDescription)
  | bye (v : Goodbye)
  | app (v : ApplicationDefined)
  | nack (v : TransportLayerNack)
  | rrr (v : RapidResync)
  | twcc (v : Twcc)
  | ccfb (v : Ccfb)
  | pli (v : PictureLossIndication)
  | sli (v : SliceLossIndication)
  | remb (v : Remb)
  | fir (v : FullIntraRequest)
  | xr (v : XR)
  | raw (b : Bytes)
  deriving Repr, DecidableEq, Inhabited

inductive Kind where
  | sr | rr | sdes | bye | app | nack | rrr | twcc | ccfb | pli | sli | remb | fir | xr | raw
  deriving Repr, DecidableEq, Inhabited

def Packet.kind : Packet → Kind
  | .sr _ => .sr | .rr _ => .rr | .sdes _ => .sdes | .bye _ => .bye | .app _ => .app
  | .nack _ => .nack | .rrr _ => .rrr | .twcc _ => .twcc | .ccfb _ => .ccfb | .pli _ => .pli
  | .sli _ => .sli | .remb _ => .remb | .fir _ => .fir | .xr _ => .xr | .raw _ => .raw

end Rtcp
