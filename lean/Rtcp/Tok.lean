/-
  Canonical token form shared with the Go harness (DESIGN Appendix B): printing and parsing of
  every model value. Not part of any theorem; covered by the correspondence itself.
-/
import Rtcp.Model.Datagram
namespace Rtcp

def hexDigit (n : Nat) : Char := if n < 10 then Char.ofNat (48 + n) else Char.ofNat (87 + n)

def hexOf (b : Bytes) : String :=
  if b.isEmpty then "-"
  else String.ofList (b.flatMap fun x => [hexDigit (x.toNat / 16), hexDigit (x.toNat % 16)])

def hexVal (c : Char) : Option Nat :=
  if '0' ≤ c ∧ c ≤ '9' then some (c.toNat - 48)
  else if 'a' ≤ c ∧ c ≤ 'f' then some (c.toNat - 87)
  else if 'A' ≤ c ∧ c ≤ 'F' then some (c.toNat - 55)
  else none

partial def unhexAux : List Char → Array UInt8 → Option (Array UInt8)
  | [], acc => some acc
  | [_], _ => none
  | a :: b :: rest, acc =>
    match hexVal a, hexVal b with
    | some x, some y => unhexAux rest (acc.push (UInt8.ofNat (x * 16 + y)))
    | _, _ => none

def unhex (s : String) : Option Bytes :=
  if s = "-" then some [] else (unhexAux s.toList #[]).map (·.toList)

/-- token reader -/
abbrev P := StateT (List String) Option

def tk : P String := do
  match (← get) with
  | [] => failure
  | t :: ts => set ts; pure t

def pNat : P Nat := do
  let t ← tk
  match t.toNat? with
  | some n => pure n
  | none => failure

def pInt : P Int := do
  let t ← tk
  match t.toInt? with
  | some n => pure n
  | none => failure

def pBool : P Bool := do return (← pNat) ≠ 0

def pHex : P Bytes := do
  let t ← tk
  match unhex t with
  | some b => pure b
  | none => failure

partial def pList {α} (p : P α) : P (List α) := do
  let n ← pNat
  let rec go (k : Nat) (acc : Array α) : P (List α) :=
    if k = 0 then pure acc.toList else do
      let a ← p
      go (k - 1) (acc.push a)
  go n #[]

/-- token writer: reversed accumulation for speed -/
def wNat (n : Nat) : List String := [toString n]
def wBool (b : Bool) : List String := [if b then "1" else "0"]
def wHex (b : Bytes) : List String := [hexOf b]
def wList {α} (f : α → List String) (l : List α) : List String := toString l.length :: l.flatMap f

def wHeader (h : Header) : List String := wBool h.padding ++ wNat h.count ++ wNat h.type ++ wNat h.length
def pHeader : P Header := do
  let p ← pBool; let c ← pNat; let t ← pNat; let l ← pNat
  pure { padding := p, count := c, type := t, length := l }

def wRRep (r : ReceptionReport) : List String :=
  [toString r.ssrc, toString r.fractionLost, toString r.totalLost, toString r.lastSeq, toString r.jitter, toString r.lastSR, toString r.delay]
def pRRep : P ReceptionReport := do
  let a ← pNat; let b ← pNat; let c ← pNat; let d ← pNat; let e ← pNat; let f ← pNat; let g ← pNat
  pure { ssrc := a, fractionLost := b, totalLost := c, lastSeq := d, jitter := e, lastSR := f, delay := g }

def wItem (i : SDESItem) : List String := wNat i.type ++ wHex i.text
def pItem : P SDESItem := do let t ← pNat; let x ← pHex; pure { type := t, text := x }
def wChunk (c : SDESChunk) : List String := wNat c.source ++ wList wItem c.items
def pChunk : P SDESChunk := do let s ← pNat; let i ← pList pItem; pure { source := s, items := i }

def wTwccChunk : TwccChunk → List String
  | .rl t s r => ["0", toString t, toString s, toString r]
  | .sv t ss l => ["1", toString t, toString ss] ++ wList wNat l
def pTwccChunk : P TwccChunk := do
  let tag ← pNat
  if tag = 0 then do
    let t ← pNat; let s ← pNat; let r ← pNat
    pure (.rl t s r)
  else do
    let t ← pNat; let ss ← pNat; let l ← pList pNat
    pure (.sv t ss l)

def wDelta (d : RecvDelta) : List String := [toString d.type, toString d.delta]
def pDelta : P RecvDelta := do let t ← pNat; let d ← pInt; pure { type := t, delta := d }

def wMetric (m : CcfbMetric) : List String := wBool m.received ++ wNat m.ecn ++ wNat m.ato
def pMetric : P CcfbMetric := do let r ← pBool; let e ← pNat; let a ← pNat; pure { received := r, ecn := e, ato := a }
def wCcfbBlock (b : CcfbBlock) : List String := wNat b.media ++ wNat b.beginSeq ++ wList wMetric b.metrics
def pCcfbBlock : P CcfbBlock := do
  let m ← pNat; let b ← pNat; let ms ← pList pMetric
  pure { media := m, beginSeq := b, metrics := ms }

def wXRBlock (b : XRBlock) : List String :=
  [toString b.kind, toString b.bt, toString b.ts, toString b.bl] ++ wList wNat b.omits ++ wList wNat b.vals ++ wList (wList wNat) b.elems
def pXRBlock : P XRBlock := do
  let k ← pNat; let bt ← pNat; let ts ← pNat; let bl ← pNat
  let o ← pList pNat; let v ← pList pNat; let e ← pList (pList pNat)
  pure { kind := k, bt := bt, ts := ts, bl := bl, omits := o, vals := v, elems := e }

def kindName : Kind → String
  | .sr => "SR" | .rr => "RR" | .sdes => "SDES" | .bye => "BYE" | .app => "APP" | .nack => "NACK"
  | .rrr => "RRR" | .twcc => "TWCC" | .ccfb => "CCFB" | .pli => "PLI" | .sli => "SLI" | .remb => "REMB"
  | .fir => "FIR" | .xr => "XR" | .raw => "RAW"

def kindOfName : String → Option Kind
  | "SR" => some .sr | "RR" => some .rr | "SDES" => some .sdes | "BYE" => some .bye | "APP" => some .app
  | "NACK" => some .nack | "RRR" => some .rrr | "TWCC" => some .twcc | "CCFB" => some .ccfb | "PLI" => some .pli
  | "SLI" => some .sli | "REMB" => some .remb | "FIR" => some .fir | "XR" => some .xr | "RAW" => some .raw
  | _ => none

def wBody : Packet → List String
  | .sr v => [toString v.ssrc, toString v.ntpTime, toString v.rtpTime, toString v.packetCount, toString v.octetCount]
              ++ wList wRRep v.reports ++ wHex v.ext
  | .rr v => wNat v.ssrc ++ wList wRRep v.reports ++ wHex v.ext
  | .sdes v => wList wChunk v.chunks
  | .bye v => wList wNat v.sources ++ wHex v.reason
  | .app v => wNat v.subType ++ wNat v.ssrc ++ wHex v.name ++ wHex v.data
  | .nack v => wNat v.sender ++ wNat v.media ++ wList (fun n => wNat n.packetID ++ wNat n.lost) v.nacks
  | .rrr v => wNat v.sender ++ wNat v.media
  | .pli v => wNat v.sender ++ wNat v.media
  | .sli v => wNat v.sender ++ wNat v.media ++ wList (fun e => [toString e.first, toString e.number, toString e.picture]) v.sli
  | .fir v => wNat v.sender ++ wNat v.media ++ wList (fun e => [toString e.ssrc, toString e.seq]) v.fir
  | .remb v => wNat v.sender ++ wNat v.bitrate ++ wList wNat v.ssrcs
  | .twcc v => wHeader v.header ++ [toString v.sender, toString v.media, toString v.baseSeq, toString v.statusCount,
                 toString v.refTime, toString v.fbCount] ++ wList wTwccChunk v.chunks ++ wList wDelta v.deltas
  | .ccfb v => wNat v.sender ++ wList wCcfbBlock v.blocks ++ wNat v.timestamp
  | .xr v => wNat v.sender ++ wList wXRBlock v.blocks
  | .raw b => wHex b

def pBody : Kind → P Packet
  | .sr => do
    let a ← pNat; let b ← pNat; let c ← pNat; let d ← pNat; let e ← pNat
    let r ← pList pRRep; let x ← pHex
    pure (.sr { ssrc := a, ntpTime := b, rtpTime := c, packetCount := d, octetCount := e, reports := r, ext := x })
  | .rr => do
    let a ← pNat; let r ← pList pRRep; let x ← pHex
    pure (.rr { ssrc := a, reports := r, ext := x })
  | .sdes => do let c ← pList pChunk; pure (.sdes { chunks := c })
  | .bye => do let s ← pList pNat; let r ← pHex; pure (.bye { sources := s, reason := r })
  | .app => do
    let a ← pNat; let b ← pNat; let n ← pHex; let d ← pHex
    pure (.app { subType := a, ssrc := b, name := n, data := d })
  | .nack => do
    let s ← pNat; let m ← pNat
    let l ← pList (do let i ← pNat; let b ← pNat; pure ({ packetID := i, lost := b } : NackPair))
    pure (.nack { sender := s, media := m, nacks := l })
  | .rrr => do let s ← pNat; let m ← pNat; pure (.rrr { sender := s, media := m })
  | .pli => do let s ← pNat; let m ← pNat; pure (.pli { sender := s, media := m })
  | .sli => do
    let s ← pNat; let m ← pNat
    let l ← pList (do let a ← pNat; let b ← pNat; let c ← pNat; pure ({ first := a, number := b, picture := c } : SLIEntry))
    pure (.sli { sender := s, media := m, sli := l })
  | .fir => do
    let s ← pNat; let m ← pNat
    let l ← pList (do let a ← pNat; let b ← pNat; pure ({ ssrc := a, seq := b } : FIREntry))
    pure (.fir { sender := s, media := m, fir := l })
  | .remb => do
    let s ← pNat; let b ← pNat; let l ← pList pNat
    pure (.remb { sender := s, bitrate := b, ssrcs := l })
  | .twcc => do
    let h ← pHeader
    let s ← pNat; let m ← pNat; let b ← pNat; let c ← pNat; let r ← pNat; let f ← pNat
    let cs ← pList pTwccChunk; let ds ← pList pDelta
    pure (.twcc { header := h, sender := s, media := m, baseSeq := b, statusCount := c, refTime := r, fbCount := f, chunks := cs, deltas := ds })
  | .ccfb => do
    let s ← pNat; let bs ← pList pCcfbBlock; let t ← pNat
    pure (.ccfb { sender := s, blocks := bs, timestamp := t })
  | .xr => do let s ← pNat; let bs ← pList pXRBlock; pure (.xr { sender := s, blocks := bs })
  | .raw => do let b ← pHex; pure (.raw b)

def wPacket (p : Packet) : List String := kindName p.kind :: wBody p
def pPacket : P Packet := do
  let k ← tk
  match kindOfName k with
  | some kd => pBody kd
  | none => failure

def wPackets (ps : List Packet) : List String := wList wPacket ps
def pPackets : P (List Packet) := pList pPacket

def join (l : List String) : String := " ".intercalate l

end Rtcp
