/-
  Rtcp.Spec.Twcc — the transport-wide congestion control feedback packet
  (draft-holmer-rmcat-transport-wide-cc-extensions-01 §3.1), written declaratively and independently of the Go code:
  the well-formed domain (`TwccChunk.WF`, `RecvDelta.WF`, `Twcc.Consistent`, `Twcc.WF`) and the wire layout
  (`Spec.twcc`) as a list of MSB-first bit-field groups. Definitions only, computable, core Lean.

  The header of a TransportLayerCC value is supplied by the caller and written verbatim; `Twcc.Consistent` says
  that it is the header the content calls for. Sizes are 16-bit in the Go code (`packetLen` is a uint16), hence the
  bound on the true size.
-/
import Rtcp.Spec.Wire
namespace Rtcp
open Gen

/-! ### packet status chunks (§3.1.3, §3.1.4) -/

/-- run length chunk: T = 0, 2-bit status symbol, 13-bit run length;
status vector chunk: T = 1, S = 0 with fourteen 1-bit symbols or S = 1 with seven 2-bit symbols -/
def TwccChunk.WF : TwccChunk → Prop
  | .rl t sym run => t = 0 ∧ sym < 4 ∧ run < 8192
  | .sv t ss syms =>
    t = 1 ∧ ((ss = 0 ∧ syms.length = 14 ∧ ∀ s ∈ syms, s < 2) ∨ (ss = 1 ∧ syms.length = 7 ∧ ∀ s ∈ syms, s < 4))

instance twccDec1 (c : TwccChunk) : Decidable c.WF := by
  cases c <;> (unfold TwccChunk.WF; infer_instance)

/-- how many packets a chunk reports on -/
def TwccChunk.span : TwccChunk → Nat
  | .rl _ _ run => run
  | .sv _ _ syms => syms.length

/-- the receive deltas a chunk announces, in order: symbol 1 = received, small delta; 2 = received, large (or negative)
delta; 0 = not received and 3 (reserved / "received without delta") carry no delta. A one-bit vector only knows 0 and 1. -/
def TwccChunk.deltaTypes : TwccChunk → List Nat
  | .rl _ sym run => if sym = 1 ∨ sym = 2 then List.replicate run sym else []
  | .sv _ ss syms => if ss = 0 then syms.filter (fun s => s = 1) else syms.filter (fun s => s = 1 ∨ s = 2)

/-- the chunks report on exactly `rem` packets: every chunk is needed (some packet is still unreported when it starts),
run lengths are not clipped, and only the last chunk — a status vector — may have more symbols than packets remain,
provided its unused symbols are 0. -/
def chunksCover : Nat → List TwccChunk → Bool
  | rem, [] => rem = 0
  | rem, c :: cs =>
    0 < rem &&
      (if c.span ≤ rem then chunksCover (rem - c.span) cs
       else cs.isEmpty &&
         (match c with
          | .sv _ _ syms => (syms.drop rem).all (fun s => s = 0)
          | .rl _ _ _ => false))

/-! ### receive deltas (§3.1.5): multiples of 250 µs -/

/-- the delta in 250 µs ticks, rounded toward zero (Go's `int64` division) -/
def RecvDelta.ticks (d : RecvDelta) : Int := Int.tdiv d.delta 250

/-- a delta that fits its size class: small = one unsigned octet, large = 16 bits two's complement -/
def RecvDelta.Fits (d : RecvDelta) : Prop :=
  (d.type = 1 ∧ 0 ≤ d.ticks ∧ d.ticks ≤ 255) ∨ (d.type = 2 ∧ -32768 ≤ d.ticks ∧ d.ticks ≤ 32767)
instance twccDec2 (d : RecvDelta) : Decidable d.Fits := by unfold RecvDelta.Fits; infer_instance

/-- the documented quantisation: round toward zero to a multiple of 250 µs -/
def RecvDelta.quant (d : RecvDelta) : RecvDelta := { d with delta := 250 * d.ticks }

/-- a delta that fits its size class and is already a whole number of ticks -/
def RecvDelta.WF (d : RecvDelta) : Prop := d.Fits ∧ d.delta = 250 * d.ticks
instance twccDec3 (d : RecvDelta) : Decidable d.WF := by unfold RecvDelta.WF; infer_instance

/-! ### the packet -/

/-- octets before padding: common header 4, fixed part 16, chunks 2 each, deltas 1 or 2 each (no 16-bit wrap) -/
def Twcc.trueLen (p : Twcc) : Nat :=
  20 + 2 * p.chunks.length + (p.deltas.map fun d => if d.type = 1 then 1 else 2).sum

/-- the caller-supplied header is the one the content calls for, and the packet fits the 16-bit size arithmetic -/
def Twcc.Consistent (p : Twcc) : Prop :=
  p.header.type = 205 ∧ p.header.count = 15 ∧ p.header.length = p.marshalSize / 4 - 1 ∧
  (p.header.padding = true ↔ p.marshalSize ≠ p.packetLen) ∧ p.trueLen ≤ 65532
instance twccDec4 (p : Twcc) : Decidable p.Consistent := by unfold Twcc.Consistent; infer_instance

/-- everything but the deltas' being whole ticks -/
def Twcc.WFq (p : Twcc) : Prop :=
  p.Consistent ∧
  p.sender < 4294967296 ∧ p.media < 4294967296 ∧ p.baseSeq < 65536 ∧ p.statusCount < 65536 ∧
  p.refTime < 16777216 ∧ p.fbCount < 256 ∧
  (∀ c ∈ p.chunks, c.WF) ∧
  chunksCover p.statusCount p.chunks = true ∧
  p.deltas.map (·.type) = p.chunks.flatMap TwccChunk.deltaTypes ∧
  (∀ d ∈ p.deltas, d.Fits)
instance twccDec5 (p : Twcc) : Decidable p.WFq := by unfold Twcc.WFq; infer_instance

/-- the well-formed domain of C02/C03/C05 for TransportLayerCC -/
def Twcc.WF (p : Twcc) : Prop := p.WFq ∧ ∀ d ∈ p.deltas, d.WF
instance twccDec6 (p : Twcc) : Decidable p.WF := by unfold Twcc.WF; infer_instance

/-- the packet with every delta rounded toward zero to a multiple of 250 µs -/
def Twcc.quant (p : Twcc) : Twcc := { p with deltas := p.deltas.map RecvDelta.quant }

namespace Spec

/-- one 16-bit packet status chunk -/
def twccChunk : TwccChunk → El
  | .rl _ sym run => .bits [(1, 0), (2, sym), (13, run)]
  | .sv _ ss syms => .bits ([(1, 1), (1, ss)] ++ syms.map fun s => (if ss = 0 then 1 else 2, s))

/-- one receive delta: 8 bits unsigned, or 16 bits two's complement -/
def twccDelta (d : RecvDelta) : El :=
  if d.type = 1 then .bits [(8, d.ticks.toNat)]
  else .bits [(16, if d.ticks < 0 then (d.ticks + 65536).toNat else d.ticks.toNat)]

/-- RFC 3550 padding: zero octets up to the word boundary, the last one holding their number -/
def rtpPadding (n : Nat) : List El :=
  if pad4 n = 0 then [] else [.zeros (pad4 n - 1), .bits [(8, pad4 n)]]

/-- §3.1: header (as supplied), SSRC of packet sender, SSRC of media source, base sequence number, packet status count,
reference time (24 bits), feedback packet count (8 bits), the chunks, the deltas, padding -/
def twcc (p : Twcc) : List El :=
  [header p.header.padding p.header.count p.header.type p.header.length,
   .bits [(32, p.sender), (32, p.media), (16, p.baseSeq), (16, p.statusCount), (24, p.refTime), (8, p.fbCount)]] ++
  p.chunks.map twccChunk ++ p.deltas.map twccDelta ++ rtpPadding p.trueLen

end Spec
end Rtcp
