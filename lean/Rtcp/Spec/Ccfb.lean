/-
  Rtcp.Spec.Ccfb — RFC 8888 §3.1 congestion control feedback packet: the well-formed domain and the wire layout,
  written declaratively (MSB-first bit-field groups, see Spec/Wire.lean) and independently of the Go code.
  Definitions only (computable, core Lean): imported by the executable driver.

      0                   1                   2                   3
      0 1 2 3 4 5 6 7 8 9 0 1 2 3 4 5 6 7 8 9 0 1 2 3 4 5 6 7 8 9 0 1
     |V=2|P| FMT=11  |   PT = 205    |          length               |
     |                 SSRC of RTCP packet sender                    |
     |                   SSRC of 1st RTP Stream                      |
     |          begin_seq            |          num_reports          |
     |R|ECN|  Arrival time offset    | ...                           .
     |                 Report Timestamp (32 bits)                    |

  `num_reports` is a parameter of the layout: RFC 8888 says it is the number of metric blocks (`ccfbRFC`);
  the library writes that number minus one (`ccfbLib`) — recorded finding, see Proofs/Ccfb.lean.
-/
import Rtcp.Spec.Wire
namespace Rtcp

/-- a metric block within its wire widths; a not-received entry carries no ECN / arrival time (RFC 8888: "MUST be set to 0") -/
def CcfbMetric.WF (m : CcfbMetric) : Prop :=
  m.ecn < 4 ∧ m.ato < 8192 ∧ (m.received = false → m.ecn = 0 ∧ m.ato = 0)
instance ccfbDec1 (m : CcfbMetric) : Decidable m.WF := by unfold CcfbMetric.WF; infer_instance

/-- a report block: fields within their widths, at most 16384 metric blocks, and the sequence numbers of one block
do not wrap (the library's decoder demands it) -/
def CcfbBlock.WF (b : CcfbBlock) : Prop :=
  u32 b.media ∧ u16 b.beginSeq ∧ b.metrics.length ≤ 16384 ∧
  (0 < b.metrics.length → b.beginSeq + b.metrics.length - 1 ≤ 65535) ∧ ∀ m ∈ b.metrics, m.WF
instance ccfbDec2 (b : CcfbBlock) : Decidable b.WF := by unfold CcfbBlock.WF; infer_instance

def Ccfb.WF (p : Ccfb) : Prop :=
  u32 p.sender ∧ u32 p.timestamp ∧ (∀ b ∈ p.blocks, b.WF) ∧ p.marshalSize ≤ 262144
instance ccfbDec3 (p : Ccfb) : Decidable p.WF := by unfold Ccfb.WF; infer_instance

namespace Spec

/-- one 16-bit metric block: R (1), ECN (2), arrival time offset (13) -/
def ccfbMetric (m : CcfbMetric) : El := .bits [(1, if m.received then 1 else 0), (2, m.ecn), (13, m.ato)]

/-- one report block: SSRC, begin_seq, num_reports, the metric blocks, zero padding to a 32-bit boundary -/
def ccfbBlock (numField : CcfbBlock → Nat) (b : CcfbBlock) : List El :=
  [.bits [(32, b.media), (16, b.beginSeq), (16, numField b)]] ++ b.metrics.map ccfbMetric ++
  (if b.metrics.length % 2 = 1 then [.zeros 2] else [])

/-- size of the packet in 32-bit words: header, sender SSRC, per block two words and one word per pair of metric
blocks (rounded up), report timestamp -/
def ccfbWords (p : Ccfb) : Nat := 2 + (p.blocks.map fun b => 2 + (b.metrics.length + 1) / 2).sum + 1

def ccfb (numField : CcfbBlock → Nat) (p : Ccfb) : List El :=
  [header false 11 205 (ccfbWords p - 1), .bits [(32, p.sender)]] ++ p.blocks.flatMap (ccfbBlock numField) ++
  [.bits [(32, p.timestamp)]]

/-- what RFC 8888 §3.1 prescribes: num_reports = number of metric blocks -/
def ccfbRFC : Ccfb → List El := ccfb fun b => b.metrics.length
/-- what the library emits: num_reports = number of metric blocks − 1 (0 for an empty block) -/
def ccfbLib : Ccfb → List El := ccfb fun b => b.metrics.length - 1

end Spec
end Rtcp
