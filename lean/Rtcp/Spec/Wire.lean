/-
  Rtcp.Spec.Wire — the wire layouts prescribed by the RFCs, written declaratively and independently of the Go code:
  a packet is a list of *groups* of MSB-first bit fields `(width, value)`, each group a whole number of octets,
  followed (for variable parts) by raw octets. Transcribed from the RFC diagrams (3550 §6.4–6.7, 4585 §6.2–6.3,
  5104 §4.3.1, 6051 §7); reserved and padding bits are zero.
  XR (RFC 3611) is specified through its field tables in Proofs/C15 (`rfcLayout`).
-/
import Rtcp.Model.Datagram
import Rtcp.Model.WF
namespace Rtcp.Spec
open Rtcp

/-- one wire element -/
inductive El where
  | bits (fields : List (Nat × Nat))   -- MSB-first bit fields; total width a multiple of 8
  | raw (b : Bytes)                    -- octets copied verbatim (text, extensions, application data)
  | zeros (n : Nat)                    -- n zero octets (padding, reserved)
  deriving Repr

def totalBits (fs : List (Nat × Nat)) : Nat := (fs.map (·.1)).sum

/-- positional value of MSB-first fields -/
def groupVal : List (Nat × Nat) → Nat
  | [] => 0
  | (w, v) :: fs => v * 2 ^ totalBits fs + groupVal fs

/-- n octets, big endian -/
def beBytes : Nat → Nat → Bytes
  | 0, _ => []
  | n + 1, x => byte (x / 256 ^ n) :: beBytes n x

def El.render : El → Bytes
  | .bits fs => beBytes (totalBits fs / 8) (groupVal fs)
  | .raw b => b
  | .zeros n => List.replicate n 0

def render (els : List El) : Bytes := (els.map El.render).flatten

/-! ### RFC 3550 §6.1 common header -/
def header (p : Bool) (count pt words : Nat) : El :=
  .bits [(2, 2), (1, if p then 1 else 0), (5, count), (8, pt), (16, words)]

/-! ### RFC 3550 §6.4.1 report block -/
def reportBlock (r : ReceptionReport) : El :=
  .bits [(32, r.ssrc), (8, r.fractionLost), (24, r.totalLost), (32, r.lastSeq), (32, r.jitter), (32, r.lastSR), (32, r.delay)]

def pad4 (n : Nat) : Nat := (4 - n % 4) % 4

/-- SR: header, sender info, report blocks, profile-specific extensions (a whole number of words) -/
def sr (v : SenderReport) : List El :=
  let size := 28 + 24 * v.reports.length + v.ext.length
  [header false v.reports.length 200 (size / 4 - 1),
   .bits [(32, v.ssrc), (64, v.ntpTime), (32, v.rtpTime), (32, v.packetCount), (32, v.octetCount)]] ++
  v.reports.map reportBlock ++ [.raw v.ext]

/-- RR: header, sender SSRC, report blocks, extensions zero-padded to a word -/
def rr (v : ReceiverReport) : List El :=
  let size := 8 + 24 * v.reports.length + v.ext.length + pad4 v.ext.length
  [header false v.reports.length 201 (size / 4 - 1), .bits [(32, v.ssrc)]] ++
  v.reports.map reportBlock ++ [.raw v.ext, .zeros (pad4 v.ext.length)]

/-- SDES §6.5: per chunk SSRC, items (type, length, text), a null octet, then nulls to the next word -/
def sdesItem (i : SDESItem) : List El := [.bits [(8, i.type), (8, i.text.length)], .raw i.text]
def sdesChunkLen (c : SDESChunk) : Nat := 4 + (c.items.map fun i => 2 + i.text.length).sum + 1
def sdesChunk (c : SDESChunk) : List El :=
  [.bits [(32, c.source)]] ++ c.items.flatMap sdesItem ++ [.zeros 1, .zeros (pad4 (sdesChunkLen c))]
def sdes (v : SourceDescription) : List El :=
  let size := 4 + (v.chunks.map fun c => sdesChunkLen c + pad4 (sdesChunkLen c)).sum
  [header false v.chunks.length 202 (size / 4 - 1)] ++ v.chunks.flatMap sdesChunk

/-- BYE §6.6: sources, optional length-prefixed reason, zero padded -/
def bye (v : Goodbye) : List El :=
  let body := 4 * v.sources.length + (if v.reason.length > 0 then 1 + v.reason.length else 0)
  [header false v.sources.length 203 ((4 + body + pad4 body) / 4 - 1)] ++ v.sources.map (fun s => .bits [(32, s)]) ++
  (if v.reason.length > 0 then [.bits [(8, v.reason.length)], .raw v.reason] else []) ++ [.zeros (pad4 body)]

/-- APP §6.7 (data a whole number of words) -/
def app (v : ApplicationDefined) : List El :=
  [header false v.subType 204 ((12 + v.data.length) / 4 - 1), .bits [(32, v.ssrc)], .raw v.name, .raw v.data]

/-- RFC 4585 §6.1 feedback header + §6.2.1 generic NACK FCI -/
def fb (fmt pt words sender media : Nat) : List El :=
  [header false fmt pt words, .bits [(32, sender), (32, media)]]
def nack (v : TransportLayerNack) : List El :=
  fb 1 205 (2 + v.nacks.length) v.sender v.media ++ v.nacks.map fun n => .bits [(16, n.packetID), (16, n.lost)]
/-- RFC 6051 §7 rapid resynchronisation request, RFC 4585 §6.3.1 PLI: no FCI -/
def rrr (v : RapidResync) : List El := fb 5 205 2 v.sender v.media
def pli (v : PictureLossIndication) : List El := fb 1 206 2 v.sender v.media
/-- RFC 5104 §4.3.1 FIR: SSRC, sequence number, 24 reserved bits -/
def fir (v : FullIntraRequest) : List El :=
  fb 4 206 (2 + 2 * v.fir.length) v.sender v.media ++ v.fir.map fun e => .bits [(32, e.ssrc), (8, e.seq), (24, 0)]
/-- RFC 4585 §6.3.2 SLI: payload-specific feedback (PT 206), FMT 2; First 13, Number 13, PictureID 6 -/
def sli (v : SliceLossIndication) : List El :=
  fb 2 206 (2 + v.sli.length) v.sender v.media ++ v.sli.map fun e => .bits [(13, e.first), (13, e.number), (6, e.picture)]

end Rtcp.Spec

namespace Rtcp.Spec
open Rtcp
/-- what the C03 correspondence compares the implementation against: the RFC layout where one is specified here
(and the value is well-formed), the model encoder otherwise -/
def encOrWire (p : Packet) : Out Bytes :=
  match p with
  | .sr v => if v.WF then .ok (render (sr v)) else p.enc
  | .rr v => if v.WF then .ok (render (rr v)) else p.enc
  | .sdes v => if v.WF then .ok (render (sdes v)) else p.enc
  | .bye v => if v.WF then .ok (render (bye v)) else p.enc
  | .app v => if v.WF then .ok (render (app v)) else p.enc
  | .nack v => if v.WF then .ok (render (nack v)) else p.enc
  | .rrr v => if v.WF then .ok (render (rrr v)) else p.enc
  | .pli v => if v.WF then .ok (render (pli v)) else p.enc
  | .fir v => if v.WF then .ok (render (fir v)) else p.enc
  | .sli v => if v.WF then .ok (render (sli v)) else p.enc   -- differs from the library (PT 205): known finding sli-packet-type
  | _ => p.enc      -- REMB/TWCC/CCFB/XR: model encoder
end Rtcp.Spec
