import Rtcp.Model.Datagram
namespace Rtcp.Spec
open Rtcp
/-- placeholder until the RFC wire spec lands: the model encoder -/
def encOrWire (p : Packet) : Out Bytes := p.enc
end Rtcp.Spec
