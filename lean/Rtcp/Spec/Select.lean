/-
  Rtcp.Spec.Select — which rendering the C03 correspondence (`encspec.K`) compares the implementation against:
  the RFC layout for every value inside the domain of the corresponding wire theorem (C03.*_wire), the model
  encoder otherwise. Decidable (Bool) versions of the hypotheses of the XR wire theorem, with their soundness.
  CCFB is compared against the RFC 8888 rendering (`ccfbRFC`), from which the library deviates in the num_reports
  field (known finding ccfb-num-reports; `C03.ccfb_wire_partial`, `C03.KF_ccfb_num_reports`).
-/
import Rtcp.Spec.Wire
import Rtcp.Spec.Remb
import Rtcp.Spec.Ccfb
import Rtcp.Spec.Twcc
import Rtcp.Spec.XR
import Rtcp.Proofs.C15
namespace Rtcp.Spec
open Rtcp Gen

def elemOKb : List Nat → List Nat → Bool
  | [], [] => true
  | w :: ws, v :: vs => decide (widthOK w) && decide (fits w v) && elemOKb ws vs
  | _, _ => false

def itemsOKb : List Item → List Nat → List (List Nat) → Bool
  | [], [], [] => true
  | .scalar _ w :: is, v :: vs, es => decide (widthOK w) && decide (fits w v) && itemsOKb is vs es
  | .skip _ :: is, vs, es => itemsOKb is vs es
  | .omitted _ :: is, vs, es => itemsOKb is vs es
  | [.sliceOf _ ws], [], es => decide (0 < ws.sum) && es.all (elemOKb ws)
  | _, _, _ => false

def omitsOKb (b : XRBlock) : Bool :=
  match b.kind, b.omits with
  | 1, [t] | 2, [t] | 3, [t] => decide (t < 16)
  | 6, [l, d, j, toh] => decide (l ≤ 1 ∧ d ≤ 1 ∧ j ≤ 1 ∧ toh < 4)
  | 1, _ | 2, _ | 3, _ | 6, _ => false
  | _, [] => true
  | _, _ => false

def blockWFb (b : XRBlock) : Bool :=
  decide (b.kind ≤ 7) && itemsOKb (layoutOf b.kind).items b.setup.scalars b.elems && omitsOKb b &&
  decide (b.wireSize % 4 = 0) && decide (b.wireSize ≤ 262144) && decide (b.kind = 0 → ¬ (1 ≤ b.bt ∧ b.bt ≤ 7))

def xrWFb (x : XR) : Bool :=
  decide (x.sender < 4294967296) && x.blocks.all blockWFb && decide (x.marshalSize ≤ 262144)

theorem elemOKb_sound (ws vs : List Nat) (h : elemOKb ws vs = true) : elemOK ws vs := by
  induction ws generalizing vs with
  | nil => cases vs <;> simp_all [elemOKb, elemOK]
  | cons w ws ih =>
    cases vs with
    | nil => simp [elemOKb] at h
    | cons v vs =>
      simp only [elemOKb, Bool.and_eq_true, decide_eq_true_eq] at h
      exact ⟨h.1.1, h.1.2, ih vs h.2⟩

theorem itemsOKb_sound (is : List Item) (vs : List Nat) (es : List (List Nat)) (h : itemsOKb is vs es = true) :
    itemsOK is vs es := by
  fun_induction itemsOKb is vs es with
  | case1 => simp [itemsOK]
  | case2 n w is v vs es ih =>
    simp only [Bool.and_eq_true, decide_eq_true_eq] at h
    simp only [itemsOK]
    exact ⟨h.1.1, h.1.2, ih h.2⟩
  | case3 n is vs es ih => simp only [itemsOK]; exact ih h
  | case4 n is vs es ih => simp only [itemsOK]; exact ih h
  | case5 n ws es =>
    simp only [Bool.and_eq_true, decide_eq_true_eq, List.all_eq_true] at h
    simp only [itemsOK]
    exact ⟨h.1, fun e he => elemOKb_sound ws e (h.2 e he)⟩
  | case6 => simp at h


theorem omitsOKb_sound (b : XRBlock) (h : omitsOKb b = true) : C15.omitsOK b := by
  unfold omitsOKb at h
  unfold C15.omitsOK
  split at h <;> simp_all
  exact ⟨_, _, _, _, ⟨rfl, rfl, rfl, rfl⟩, h⟩

theorem blockWFb_sound (b : XRBlock) (h : blockWFb b = true) : C15.BlockWF b := by
  simp only [blockWFb, Bool.and_eq_true, decide_eq_true_eq] at h
  obtain ⟨⟨⟨⟨⟨h1, h2⟩, h3⟩, h4⟩, h5⟩, h6⟩ := h
  exact ⟨h1, itemsOKb_sound _ _ _ h2, omitsOKb_sound b h3, h4, h5, h6⟩

/-- the selector's XR test implies the hypotheses of `C03.xr_wire` -/
theorem xrWFb_sound (x : XR) (h : xrWFb x = true) :
    x.sender < 4294967296 ∧ (∀ b ∈ x.blocks, C15.BlockWF b) ∧ x.marshalSize ≤ 262144 := by
  simp only [xrWFb, Bool.and_eq_true, decide_eq_true_eq, List.all_eq_true] at h
  exact ⟨h.1.1, fun b hb => blockWFb_sound b (h.1.2 b hb), h.2⟩

/-- what the driver compares an `encspec` line against -/
def encOrWireAll (p : Packet) : Out Bytes :=
  match p with
  | .remb v => if v.WF then .ok (render (remb v)) else p.enc
  | .ccfb v => if v.WF then .ok (render (ccfbRFC v)) else p.enc
  | .twcc v => if v.WF then .ok (render (twcc v)) else p.enc
  | .xr v => if xrWFb v then .ok (render (xr v)) else p.enc
  | p => encOrWire p

end Rtcp.Spec
