/-
  Rtcp.Spec.XR — RFC 3611 extended reports in the declarative vocabulary of Spec/Wire.lean (`El.bits/raw/zeros`,
  `render`, `header`), transcribed from the RFC diagrams (§2 packet, §3 block framing, §4.1–§4.7 block types),
  independently of the Go struct declarations and of the reflective codec.

  A block value (`XRBlock`, Types.lean) carries its Go type as `kind` (1..7 the defined blocks, 0 opaque), the
  `encoding:"omit"` fields in `omits` (T; L, D, J, ToH), the on-the-wire scalar fields in declaration order in
  `vals`, and the trailing slice in `elems`. The layouts below name those fields as the RFC does.
-/
import Rtcp.Spec.Wire
namespace Rtcp.Spec
open Rtcp

/-- octets occupied by one wire element -/
def El.octets : El → Nat
  | .bits fs => totalBits fs / 8
  | .raw b => b.length
  | .zeros n => n

def octets (els : List El) : Nat := (els.map El.octets).sum

/-- RFC 3611 §3: BT — the registered block type of the defined blocks (§4.1–§4.7: 1..7); an opaque block keeps its own -/
def xrBlockType (b : XRBlock) : Nat :=
  match b.kind with
  | 1 => 1 | 2 => 2 | 3 => 3 | 4 => 4 | 5 => 5 | 6 => 6 | 7 => 7
  | _ => b.bt

/-- RFC 3611 §3: the type-specific octet, as MSB-first bit fields.
§4.1–4.3: `rsvd.(4) | T(4)`; §4.6: `L | D | J | ToH(2) | rsvd.(3)`; §4.4, §4.5, §4.7: reserved, zero;
unknown block types: the stored octet. -/
def xrTypeSpecific (b : XRBlock) : List (Nat × Nat) :=
  match b.kind with
  | 1 | 2 | 3 => [(4, 0), (4, b.omits.headD 0)]
  | 6 => [(1, b.omits.getD 0 0), (1, b.omits.getD 1 0), (1, b.omits.getD 2 0), (2, b.omits.getD 3 0), (3, 0)]
  | 4 | 5 | 7 => [(8, 0)]
  | _ => [(8, b.ts)]

/-- what follows the 4-octet block header, by block type -/
def xrBody (b : XRBlock) : List El :=
  match b.kind, b.vals with
  -- §4.1 Loss RLE, §4.2 Duplicate RLE: SSRC of source, begin_seq, end_seq, then 16-bit chunks
  | 1, [ssrc, beginSeq, endSeq] | 2, [ssrc, beginSeq, endSeq] =>
    .bits [(32, ssrc), (16, beginSeq), (16, endSeq)] :: b.elems.map fun c => .bits [(16, c.headD 0)]
  -- §4.3 Packet Receipt Times: SSRC of source, begin_seq, end_seq, then 32-bit receipt times
  | 3, [ssrc, beginSeq, endSeq] =>
    .bits [(32, ssrc), (16, beginSeq), (16, endSeq)] :: b.elems.map fun t => .bits [(32, t.headD 0)]
  -- §4.4 Receiver Reference Time: 64-bit NTP timestamp
  | 4, [ntp] => [.bits [(64, ntp)]]
  -- §4.5 DLRR: sub-blocks SSRC_n, LRR, DLRR
  | 5, [] => b.elems.map fun r => .bits [(32, r.getD 0 0), (32, r.getD 1 0), (32, r.getD 2 0)]
  -- §4.6 Statistics Summary
  | 6, [ssrc, beginSeq, endSeq, lostPackets, dupPackets, minJitter, maxJitter, meanJitter, devJitter,
        minTTL, maxTTL, meanTTL, devTTL] =>
    [.bits [(32, ssrc), (16, beginSeq), (16, endSeq), (32, lostPackets), (32, dupPackets),
            (32, minJitter), (32, maxJitter), (32, meanJitter), (32, devJitter),
            (8, minTTL), (8, maxTTL), (8, meanTTL), (8, devTTL)]]
  -- §4.7 VoIP Metrics (the octet after RX config is reserved: zero)
  | 7, [ssrc, lossRate, discardRate, burstDensity, gapDensity, burstDuration, gapDuration, roundTripDelay,
        endSystemDelay, signalLevel, noiseLevel, rerl, gmin, rFactor, extRFactor, mosLQ, mosCQ, rxConfig,
        jbNominal, jbMaximum, jbAbsMax] =>
    [.bits [(32, ssrc), (8, lossRate), (8, discardRate), (8, burstDensity), (8, gapDensity),
            (16, burstDuration), (16, gapDuration), (16, roundTripDelay), (16, endSystemDelay),
            (8, signalLevel), (8, noiseLevel), (8, rerl), (8, gmin),
            (8, rFactor), (8, extRFactor), (8, mosLQ), (8, mosCQ),
            (8, rxConfig), (8, 0), (16, jbNominal),
            (16, jbMaximum), (16, jbAbsMax)]]
  -- unknown block type: type-specific block contents, opaque octets
  | 0, [] => [.raw (b.elems.map fun o => byte (o.headD 0))]
  | _, _ => []

/-- octets of a whole block: the 4-octet header and the contents -/
def xrBlockOctets (b : XRBlock) : Nat := 4 + octets (xrBody b)

/-- RFC 3611 §3: `BT(8) | type-specific(8) | block length(16)` — the length of the block in 32-bit words minus
one, header included — then the type-specific block contents -/
def xrBlock (b : XRBlock) : List El :=
  .bits ([(8, xrBlockType b)] ++ xrTypeSpecific b ++ [(16, xrBlockOctets b / 4 - 1)]) :: xrBody b

/-- RFC 3611 §2: `V=2 | P | reserved(5) | PT=XR=207 | length`, SSRC of the originator, report blocks in order -/
def xr (x : XR) : List El :=
  let size := 8 + (x.blocks.map xrBlockOctets).sum
  [header false 0 207 (size / 4 - 1), .bits [(32, x.sender)]] ++ x.blocks.flatMap xrBlock

end Rtcp.Spec

namespace Rtcp
open Gen

/-- The common header an `ExtendedReport` carries on the wire. (The Go type has no `Header()` accessor; this is the
value `Marshal` builds internally: type 207, count 0, no padding, length = `wireSize / 4` as a uint16.) -/
def XR.header (x : XR) : Header := { padding := false, count := 0, type := TypeExtendedReport, length := (x.wireSize / 4) % 65536 }

/-- the packet after `Marshal`: block headers filled in -/
def XR.marshalled (x : XR) : XR := { x with blocks := x.blocks.map XRBlock.setup }

end Rtcp
