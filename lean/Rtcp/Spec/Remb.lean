/-
  Rtcp.Spec.Remb — the wire layout of the REMB message (draft-alvestrand-rmcat-remb-03 §2.2), written
  declaratively and independently of the Go code's offsets, shifts and loops, plus the well-formed domain of
  `ReceiverEstimatedMaximumBitrate` values. Definitions only (core Lean, computable: also linked into the driver).

      0                   1                   2                   3
      0 1 2 3 4 5 6 7 8 9 0 1 2 3 4 5 6 7 8 9 0 1 2 3 4 5 6 7 8 9 0 1
     |V=2|P| FMT=15  |   PT=206      |             length            |
     |                  SSRC of packet sender                        |
     |                  SSRC of media source  (= 0)                  |
     |  Unique identifier 'R' 'E' 'M' 'B'                            |
     |  Num SSRC     | BR Exp    |  BR Mantissa                      |
     |   SSRC feedback  ...                                          |

  A float32 is its IEEE-754 bit pattern (Model/Remb.lean: `f32Sign`, `f32IsNaN`, `f32IsInf`, `f32Floor`).
-/
import Rtcp.Spec.Wire
namespace Rtcp

/-- well-formed REMB value: SSRCs within 32 bits, at most 255 feedback SSRCs (8-bit count), and a bitrate that is
a float32 bit pattern, not negative (sign bit clear) and not NaN -/
def Remb.WF (p : Remb) : Prop :=
  u32 p.sender ∧ p.ssrcs.length ≤ 255 ∧ (∀ s ∈ p.ssrcs, u32 s) ∧
  p.bitrate < 4294967296 ∧ f32Sign p.bitrate = 0 ∧ f32IsNaN p.bitrate = false
instance rembDec1 (p : Remb) : Decidable p.WF := by unfold Remb.WF; infer_instance

namespace Spec

/-- the largest value the 6-bit exponent / 18-bit mantissa pair can carry: 0x3FFFF · 2^63 -/
def rembMax : Nat := 262143 * 2 ^ 63

/-- the number of bits per second a (non-negative, non-NaN) float32 stands for on the wire: its integer part,
everything from `rembMax` upwards (including +∞) saturating at `rembMax` -/
def rembValue (bits : Nat) : Nat :=
  if f32IsInf bits then rembMax else min (f32Floor bits) rembMax

/-- BR Exp prescribed for the value `v`: the least `e` with `v / 2^e < 2^18` (closed form, no loop);
values above `rembMax` saturate -/
def rembExp (v : Nat) : Nat :=
  let w := min v rembMax
  if w < 262144 then 0 else Nat.log2 w - 17

/-- BR Mantissa prescribed for the value `v`: `v` shifted right by the exponent (rounded down to 18 significant bits);
values above `rembMax` saturate at 0x3FFFF -/
def rembMant (v : Nat) : Nat := min v rembMax / 2 ^ rembExp v

/-- the float32 bit pattern of the integer `m·2^e`, for a non-zero mantissa below 2^24 (closed form: sign 0, biased
exponent `127 + e + ⌊log2 m⌋`, fraction = `m` shifted left until its leading bit is the hidden bit) -/
def rembFloat (e m : Nat) : Nat :=
  (e + Nat.log2 m + 127) * 8388608 + (m * 2 ^ (23 - Nat.log2 m) - 8388608)

/-- REMB with an arbitrary exponent / mantissa pair (normalised or not): header (V=2, P=0, FMT=15, PT=206,
length = 4 + n words), sender SSRC, media SSRC 0, 'R' 'E' 'M' 'B', then Num SSRC (8) | BR Exp (6) | BR Mantissa (18),
then the SSRCs -/
def rembRaw (sender e m : Nat) (ssrcs : List Nat) : List El :=
  [header false 15 206 (4 + ssrcs.length),
   .bits [(32, sender), (32, 0)],
   .bits [(8, 82), (8, 69), (8, 77), (8, 66)],
   .bits [(8, ssrcs.length), (6, e), (18, m)]] ++
  ssrcs.map fun s => .bits [(32, s)]

/-- the REMB message of a packet value: the pair is the one the draft prescribes for the bitrate -/
def remb (p : Remb) : List El :=
  rembRaw p.sender (rembExp (rembValue p.bitrate)) (rembMant (rembValue p.bitrate)) p.ssrcs

end Spec

/-- the documented quantisation of C02: the bitrate rounded down to 18 significant bits (saturating at 0x3FFFF·2^63),
as the float32 that carries exactly that value; sender and SSRCs unchanged -/
def Remb.quant (p : Remb) : Remb :=
  { p with bitrate := Spec.rembFloat (Spec.rembExp (Spec.rembValue p.bitrate)) (Spec.rembMant (Spec.rembValue p.bitrate)) }

end Rtcp
