/-
  Rtcp.XRLayout — the reflective struct codec of packet_buffer.go (`write`, `read`, `wireSize`) as a
  generic interpreter over a *layout* (the struct declaration as reflection sees it). The layouts
  themselves are regenerated from /repo on every run (Gen/Layouts.lean).
-/
import Rtcp.Basic
namespace Rtcp

inductive Item where
  | scalar (name : String) (w : Nat)        -- exported uint8/16/32/64 field, w octets
  | skip (w : Nat)                          -- unexported field: advanced over, never written or read
  | omitted (name : String)                 -- `encoding:"omit"`: not on the wire
  | sliceOf (name : String) (ws : List Nat) -- trailing slice; each element is scalars of these widths
  | blocks (name : String)                  -- []ReportBlock (only in ExtendedReport)
  | bad (name : String)                     -- a member type the codec rejects (errBadStructMemberType)
  deriving Repr, DecidableEq, Inhabited

structure Layout where
  items : List Item
  untied : Bool := false
  deriving Repr, DecidableEq, Inhabited

def writeScalar (w v : Nat) : Bytes :=
  match w with
  | 1 => [byte v]
  | 2 => be16 v
  | 4 => be32 v
  | 8 => be64 v
  | _ => []

def getScalar (w : Nat) (b : Bytes) : Nat :=
  match w with
  | 1 => get8 b 0
  | 2 => get16 b 0
  | 4 => get32 b 0
  | 8 => get64 b 0
  | _ => 0

/-- one element of a slice: its scalars, in order -/
def writeElem : List Nat → List Nat → Out Bytes
  | [], _ => .ok []
  | _ :: _, [] => .panic                    -- shape mismatch: cannot be built in Go
  | w :: ws, v :: vs => do
    let rest ← writeElem ws vs
    pure (writeScalar w v ++ rest)

def writeElems (ws : List Nat) : List (List Nat) → Out Bytes
  | [] => .ok []
  | e :: es => do
    let a ← writeElem ws e
    let rest ← writeElems ws es
    pure (a ++ rest)

/-- `packetBuffer.write` of a struct value with the given layout into a buffer of exactly `wireSize` octets
(which is how `ExtendedReport.Marshal` sizes it). `vals` are the exported scalar fields in order. -/
def writeItems : List Item → List Nat → List (List Nat) → Out Bytes
  | [], _, _ => .ok []
  | .scalar _ w :: is, v :: vs, es => do
    let rest ← writeItems is vs es
    pure (writeScalar w v ++ rest)
  | .scalar _ _ :: _, [], _ => .panic
  | .skip w :: is, vs, es => do
    let rest ← writeItems is vs es
    pure (zeros w ++ rest)
  | .omitted _ :: is, vs, es => writeItems is vs es
  | .sliceOf _ ws :: is, vs, es => do
    let a ← writeElems ws es
    let rest ← writeItems is vs es
    pure (a ++ rest)
  | .blocks _ :: _, _, _ => .err
  | .bad _ :: _, _, _ => .err

def elemSize (ws : List Nat) : Nat := ws.sum

/-- `wireSize` of a struct value with the given layout -/
def sizeItems : List Item → List (List Nat) → Nat
  | [], _ => 0
  | .scalar _ w :: is, es => w + sizeItems is es
  | .skip w :: is, es => w + sizeItems is es
  | .omitted _ :: is, es => sizeItems is es
  | .sliceOf _ ws :: is, es => es.length * elemSize ws + sizeItems is es
  | .blocks _ :: is, es => sizeItems is es
  | .bad _ :: is, es => sizeItems is es

def readElem : List Nat → Bytes → Out (List Nat × Bytes)
  | [], b => .ok ([], b)
  | w :: ws, b =>
    if b.length < w then .err
    else do
      let (vs, rest) ← readElem ws (b.drop w)
      pure (getScalar w b :: vs, rest)

/-- `for len(b.bytes) > 0 { read one element }` -/
def readElems : Nat → List Nat → Bytes → Out (List (List Nat))
  | 0, _, _ => .diverge
  | gas + 1, ws, b =>
    if b.length = 0 then .ok []
    else do
      let (e, rest) ← readElem ws b
      let es ← readElems gas ws rest
      pure (e :: es)

/-- `packetBuffer.read` into a fresh struct with the given layout.
Returns the exported scalars, the slice elements and the unread remainder. -/
def readItems : List Item → Bytes → Out (List Nat × List (List Nat) × Bytes)
  | [], b => .ok ([], [], b)
  | .scalar _ w :: is, b =>
    if b.length < w then .err
    else do
      let (vs, es, rest) ← readItems is (b.drop w)
      pure (getScalar w b :: vs, es, rest)
  | .skip w :: is, b =>
    if b.length < w then .err else readItems is (b.drop w)
  | .omitted _ :: is, b => readItems is b
  | .sliceOf _ ws :: is, b => do
    let es ← readElems (b.length + 1) ws b
    let (vs, es', rest) ← readItems is []
    pure (vs, es ++ es', rest)
  | .blocks _ :: _, _ => .err
  | .bad _ :: _, _ => .err

end Rtcp
