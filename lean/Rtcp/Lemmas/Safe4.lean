/-
  C01 helper lemmas, part 4: REMB, CCFB, TWCC.
-/
import Rtcp.Lemmas.Safe3
namespace Rtcp
open Gen Out

theorem rembDecBits_safe (e m : Nat) (hm : m < 262144) : (rembDecBits e m).Safe := by
  unfold rembDecBits
  apply safe_bind
  · apply safe_ite
    · intro hne
      apply rembNormLoop_safe
      · omega
      · omega
      · have h40 : (2 : Nat) ^ 40 = 1099511627776 := by simp
        rw [h40]; omega
    · intro _; exact safe_ok _
  · intro r _
    exact safe_ok _
theorem decSSRCList_safe (gas : Nat) (b : Bytes) (n size : Nat) (hs : size ≤ b.length) (h4 : (size + 4 - n) % 4 = 0 ∨ size ≤ n)
    (hg : (size - n) / 4 < gas) : (decSSRCList gas b n size).Safe := by
  induction gas generalizing n with
  | zero => omega
  | succ g ih =>
    unfold decSSRCList
    split
    · rw [u32At_of_le (by omega)]
      simp only [bind_ok]
      apply safe_bind (ih (n + 4) (by omega) (by omega))
      intro r _
      exact safe_ok _
    · exact safe_ok _
theorem Remb.dec_safe (b : Bytes) : (Remb.dec b).Safe := by
  unfold Remb.dec
  apply safe_err_ite; intro h
  apply safe_u8At (by lomega); intro _
  apply safe_err_ite; intro h1
  apply safe_err_ite; intro h2
  apply safe_err_ite; intro h3
  apply safe_u8At (by lomega); intro _
  apply safe_err_ite; intro h4
  apply safe_u16At (by lomega); intro hl
  apply safe_err_ite; intro h5
  apply safe_err_ite; intro h6
  apply safe_u32At (by lomega)
  apply safe_u32At (by lomega)
  apply safe_err_ite; intro h7
  apply safe_slice (by lomega) (by lomega)
  apply safe_err_ite; intro h8
  apply safe_u8At (by lomega); intro h16
  apply safe_err_ite; intro h9
  apply safe_u8At (by lomega); intro h17
  apply safe_u8At (by lomega); intro h18
  apply safe_u8At (by lomega); intro h19
  apply safe_bind (rembDecBits_safe _ _ (by omega))
  intro bits _
  apply safe_bind
  · apply decSSRCList_safe
    · lomega
    · left; lomega
    · lomega
  · intro r _
    exact safe_ok _

/-! ### CCFB -/

theorem CcfbMetric.dec_safe (b : Bytes) : (CcfbMetric.dec b).Safe := by
  unfold CcfbMetric.dec
  split
  · exact safe_err
  · rename_i h
    simp at h
    rw [u8At_of_lt (by lomega)]
    simp only [bind_ok]
    split
    · exact safe_ok _
    · rw [u16At_of_le (by lomega)]
      exact safe_ok _

theorem decMetrics_safe (n : Nat) (b : Bytes) (off : Nat) (h : off + 2 * n ≤ b.length) : (decMetrics n b off).Safe := by
  induction n generalizing off with
  | zero => exact safe_ok _
  | succ n ih =>
    unfold decMetrics
    rw [slice_of_le (by omega) (by omega)]
    simp only [bind_ok]
    apply safe_bind (CcfbMetric.dec_safe _)
    intro m _
    apply safe_bind (ih _ (by omega))
    intro r _
    exact safe_ok _

theorem CcfbBlock.dec_safe (b : Bytes) : (CcfbBlock.dec b).Safe := by
  unfold CcfbBlock.dec
  split
  · exact safe_err
  · rename_i h
    rw [u32At_of_le (by lomega), u16At_of_le (by lomega), u16At_of_le (by lomega)]
    simp only [bind_ok]
    split
    · exact safe_ok _
    · split
      · exact safe_err
      · try dsimp only
        split
        · exact safe_err
        · rename_i h1 h2 h3
          apply safe_bind (decMetrics_safe _ _ _ (by lomega))
          intro r _
          exact safe_ok _

theorem CcfbBlock.len_pos (c : CcfbBlock) : 8 ≤ c.len := by
  unfold CcfbBlock.len; simp

theorem decBlocksP_safe (gas : Nat) (rest : Bytes) (tsOff : Nat) (hg : tsOff < gas) :
    (decBlocksP gas rest tsOff).2 ≠ .panic ∧ (decBlocksP gas rest tsOff).2 ≠ .diverge := by
  induction gas generalizing rest tsOff with
  | zero => omega
  | succ g ih =>
    unfold decBlocksP
    split
    · simp
    · have hs := CcfbBlock.dec_safe rest
      split
      · rename_i blk heq
        have := CcfbBlock.len_pos blk
        exact ih _ _ (by omega)
      · rename_i o hne
        exact status_ne_of_safe hs

theorem Ccfb.decP_safe (b : Bytes) : (Ccfb.decP b).2 ≠ .panic ∧ (Ccfb.decP b).2 ≠ .diverge := by
  unfold Ccfb.decP
  split
  · simp
  · rename_i h
    have hh := Header.dec_safe b
    split
    · split
      · simp
      · rw [u32At_of_le (by lomega), u32At_of_le (by lomega)]
        dsimp only
        exact decBlocksP_safe _ _ _ (by lomega)
    · rename_i o hne
      exact status_ne_of_safe hh

theorem Ccfb.dec_safe (b : Bytes) : (Ccfb.dec b).Safe := by
  unfold Ccfb.dec
  have := Ccfb.decP_safe b
  exact Status.toOut_safe this.1 this.2

end Rtcp
