/-
  Datagram-level lemmas: a frame that starts with a header whose length field matches the frame is cut off
  exactly, dispatched by its header, and the rest of the datagram is decoded independently (C02, C06).
-/
import Rtcp.Lemmas.RT5
namespace Rtcp
open Gen Out
set_option linter.unusedSimpArgs false
set_option linter.unusedVariables false

/-- `f` is a well-framed packet with header `h` -/
structure Framed (f : Bytes) (h : Header) : Prop where
  starts : ∃ body, f = h.bytes ++ body
  count : h.count ≤ 31
  type : h.type < 256
  length : h.length < 65535
  size : f.length = (h.length + 1) * 4

theorem unmarshalOne_framed (f rest : Bytes) (h : Header) (hf : Framed f h) :
    unmarshalOne (f ++ rest) = (decKind (dispatch h.type h.count) f >>= fun p => .ok (p, f.length)) := by
  obtain ⟨⟨body, hb⟩, hc, ht, hl, hs⟩ := hf
  unfold unmarshalOne
  have hd : Header.dec (f ++ rest) = .ok h := by
    rw [hb, List.append_assoc]; exact Header.dec_bytes h _ hc ht (by omega)
  rw [hd, bind_ok]
  dsimp only
  rw [if_neg (by simp; omega), slice_of_le (by omega) (by simp; omega), bind_ok]
  have : ((f ++ rest).take ((h.length + 1) * 4)).drop 0 = f := by
    rw [List.drop_zero, ← hs, List.take_left]
  rw [this, hs]
  cases decKind (dispatch h.type h.count) f <;> rfl

theorem unmarshalLoop_cons (f rest : Bytes) (h : Header) (hf : Framed f h) (gas : Nat) :
    unmarshalLoop (gas + 1) (f ++ rest) =
      (decKind (dispatch h.type h.count) f >>= fun p => unmarshalLoop gas rest >>= fun ps => .ok (p :: ps)) := by
  have hpos : 4 ≤ f.length := by have := hf.size; omega
  rw [unmarshalLoop, if_neg (by rw [List.length_append]; omega), unmarshalOne_framed f rest h hf]
  cases hd : decKind (dispatch h.type h.count) f with
  | ok p =>
    simp only [bind_ok]
    rw [sliceFrom_of_le (by simp), bind_ok, List.drop_left]
    rfl
  | err => rfl
  | panic => rfl
  | diverge => rfl

/-- more gas never changes a result that was reached -/
theorem unmarshalLoop_gas_mono (gas : Nat) (b : Bytes) (ps : List Packet) (h : unmarshalLoop gas b = .ok ps) (k : Nat) :
    unmarshalLoop (gas + k) b = .ok ps := by
  induction gas generalizing b ps with
  | zero => simp [unmarshalLoop] at h
  | succ g ih =>
    have : g + 1 + k = (g + k) + 1 := by omega
    rw [this]
    rw [unmarshalLoop] at h ⊢
    split
    · rename_i hz; rw [if_pos hz] at h; exact h
    · rename_i hz
      rw [if_neg hz] at h
      obtain ⟨⟨p, n⟩, hp, h⟩ := bind_eq_ok.mp h
      rw [hp, bind_ok]
      dsimp only at h ⊢
      obtain ⟨rest, hr, h⟩ := bind_eq_ok.mp h
      rw [hr, bind_ok]
      obtain ⟨qs, hq, h⟩ := bind_eq_ok.mp h
      rw [ih rest qs hq, bind_ok]
      exact h

end Rtcp
