/-
  RFC 8888 congestion control feedback (rfc8888.go): closed form of what Marshal emits, its size and framing,
  its rendering against Spec/Ccfb.lean, and the decode-after-encode lemmas (C02, C03, C05 helper lemmas).
  `bytesF fld` is parametric in the value written into `num_reports`, so that the same lemmas serve the RFC layout
  (`fld b = n`) and the library's output (`fld b = n - 1`).
-/
import Rtcp.Spec.Ccfb
import Rtcp.Lemmas.SpecBits
import Rtcp.Lemmas.Frame
import Rtcp.Proofs.C16
namespace Rtcp
open Gen Out
set_option linter.unusedSimpArgs false
set_option linter.unusedVariables false

/-! ### the encoder in closed form -/

/-- the 16-bit word of a metric block -/
def CcfbMetric.word (m : CcfbMetric) : Nat := (if m.received then 1 else 0) * 32768 + (m.ecn % 4) * 8192 + m.ato % 8192

def CcfbMetric.bytes (m : CcfbMetric) : Bytes := be16 m.word

theorem CcfbMetric.enc_ok (m : CcfbMetric) : m.enc = .ok m.bytes := C16.metric_enc m

@[simp] theorem CcfbMetric.bytes_length (m : CcfbMetric) : m.bytes.length = 2 := rfl

theorem CcfbMetric.word_lt (m : CcfbMetric) : m.word < 65536 := by
  unfold CcfbMetric.word; cases m.received <;> simp <;> omega

def metricsBytes (ms : List CcfbMetric) : Bytes := (ms.map CcfbMetric.bytes).flatten

@[simp] theorem metricsBytes_nil : metricsBytes [] = [] := rfl
theorem metricsBytes_cons (m : CcfbMetric) (ms : List CcfbMetric) : metricsBytes (m :: ms) = m.bytes ++ metricsBytes ms := by
  simp [metricsBytes]

@[simp] theorem metricsBytes_length (ms : List CcfbMetric) : (metricsBytes ms).length = 2 * ms.length := by
  induction ms with
  | nil => rfl
  | cons m ms ih => rw [metricsBytes_cons, List.length_append, ih]; simp; omega

theorem encMetrics_ok (ms : List CcfbMetric) : encMetrics ms = .ok (metricsBytes ms) := by
  induction ms with
  | nil => rfl
  | cons m ms ih => simp only [encMetrics, CcfbMetric.enc_ok, bind_ok, ih, pure_eq, metricsBytes_cons]

/-- zero octets after an odd number of metric blocks -/
def ccfbPad (n : Nat) : Nat := if n % 2 = 1 then 2 else 0

/-- a report block with `field` in the num_reports position -/
def CcfbBlock.bytesF (field : Nat) (b : CcfbBlock) : Bytes :=
  be32 b.media ++ (be16 b.beginSeq ++ (be16 field ++ (metricsBytes b.metrics ++ zeros (ccfbPad b.metrics.length))))

theorem CcfbBlock.len_eq (b : CcfbBlock) : b.len = 8 + 2 * b.metrics.length + ccfbPad b.metrics.length := by
  unfold CcfbBlock.len ccfbPad
  simp only [reportsOffset]
  split <;> split <;> omega

@[simp] theorem CcfbBlock.bytesF_length (k : Nat) (b : CcfbBlock) : (b.bytesF k).length = b.len := by
  rw [CcfbBlock.len_eq]; simp [CcfbBlock.bytesF]; omega

theorem CcfbBlock.len_mod4 (b : CcfbBlock) : b.len % 4 = 0 := by
  rw [CcfbBlock.len_eq]; unfold ccfbPad; split <;> omega

/-- `CCFeedbackReportBlock.marshal`: num_reports carries `len(MetricBlocks) - 1` -/
theorem CcfbBlock.enc_ok (b : CcfbBlock) (h : b.metrics.length ≤ 16384) : b.enc = .ok (b.bytesF (b.metrics.length - 1)) := by
  unfold CcfbBlock.enc
  rw [if_neg (by simp only [maxMetricBlocks]; omega), encMetrics_ok]
  simp only [bind_ok, pure_eq, CcfbBlock.bytesF, List.append_assoc]
  have h1 : (if b.metrics.length % 65536 > 0 then b.metrics.length % 65536 - 1 else 0) = b.metrics.length - 1 := by
    split <;> omega
  have h2 : b.len - reportsOffset - (metricsBytes b.metrics).length = ccfbPad b.metrics.length := by
    rw [CcfbBlock.len_eq, metricsBytes_length]; simp only [reportsOffset]; omega
  rw [h1, h2]

def blocksBytesF (fld : CcfbBlock → Nat) (bs : List CcfbBlock) : Bytes := (bs.map fun b => b.bytesF (fld b)).flatten

@[simp] theorem blocksBytesF_nil (fld : CcfbBlock → Nat) : blocksBytesF fld [] = [] := rfl
theorem blocksBytesF_cons (fld : CcfbBlock → Nat) (b : CcfbBlock) (bs : List CcfbBlock) :
    blocksBytesF fld (b :: bs) = b.bytesF (fld b) ++ blocksBytesF fld bs := by simp [blocksBytesF]

theorem blocksLen_cons (b : CcfbBlock) (bs : List CcfbBlock) : blocksLen (b :: bs) = b.len + blocksLen bs := by simp [blocksLen]

@[simp] theorem blocksBytesF_length (fld : CcfbBlock → Nat) (bs : List CcfbBlock) : (blocksBytesF fld bs).length = blocksLen bs := by
  induction bs with
  | nil => rfl
  | cons b bs ih => rw [blocksBytesF_cons, List.length_append, ih, blocksLen_cons, CcfbBlock.bytesF_length]

theorem blocksLen_mod4 (bs : List CcfbBlock) : blocksLen bs % 4 = 0 := by
  induction bs with
  | nil => rfl
  | cons b bs ih => have := CcfbBlock.len_mod4 b; rw [blocksLen_cons]; omega

theorem blocksLen_ge (bs : List CcfbBlock) : 8 * bs.length ≤ blocksLen bs := by
  induction bs with
  | nil => simp [blocksLen]
  | cons b bs ih => have := CcfbBlock.len_eq b; rw [blocksLen_cons, List.length_cons]; omega

/-- what the library writes into num_reports -/
def libField (b : CcfbBlock) : Nat := b.metrics.length - 1

theorem encBlocks_ok (bs : List CcfbBlock) (h : ∀ b ∈ bs, b.metrics.length ≤ 16384) :
    encBlocks bs = .ok (blocksBytesF libField bs) := by
  induction bs with
  | nil => rfl
  | cons b bs ih =>
    simp only [encBlocks, CcfbBlock.enc_ok b (h b (by simp)), bind_ok, ih (fun x hx => h x (by simp [hx])), pure_eq,
      blocksBytesF_cons, libField]

/-- the whole packet with `fld b` in each block's num_reports position -/
def Ccfb.bytesF (fld : CcfbBlock → Nat) (p : Ccfb) : Bytes :=
  p.header.bytes ++ (be32 p.sender ++ (blocksBytesF fld p.blocks ++ be32 p.timestamp))

theorem Ccfb.size_eq (p : Ccfb) : p.marshalSize = 12 + blocksLen p.blocks := by
  simp only [Ccfb.marshalSize, reportBlockOffset, reportTimestampLength]; omega

theorem Ccfb.size_mod4 (p : Ccfb) : p.marshalSize % 4 = 0 := by
  have := blocksLen_mod4 p.blocks; rw [Ccfb.size_eq]; omega

@[simp] theorem Ccfb.bytesF_length (fld : CcfbBlock → Nat) (p : Ccfb) : (p.bytesF fld).length = p.marshalSize := by
  rw [Ccfb.size_eq]; simp [Ccfb.bytesF]; omega

theorem Ccfb.header_count (p : Ccfb) : p.header.count = 11 := rfl
theorem Ccfb.header_type (p : Ccfb) : p.header.type = 205 := rfl
theorem Ccfb.header_padding (p : Ccfb) : p.header.padding = false := rfl
theorem Ccfb.header_length (p : Ccfb) : p.header.length = (p.marshalSize / 4 - 1) % 65536 := rfl

/-- `CCFeedbackReport.Marshal` succeeds as soon as no block has more than 16384 metric blocks -/
theorem Ccfb.enc_ok (p : Ccfb) (h : ∀ b ∈ p.blocks, b.metrics.length ≤ 16384) : p.enc = .ok (p.bytesF libField) := by
  unfold Ccfb.enc
  rw [Header.enc_ok _ (by rw [Ccfb.header_count]; omega), bind_ok, encBlocks_ok _ h, bind_ok]
  simp [Ccfb.bytesF]

theorem Ccfb.WF.blocks_le {p : Ccfb} (h : p.WF) : ∀ b ∈ p.blocks, b.metrics.length ≤ 16384 :=
  fun b hb => (h.2.2.1 b hb).2.2.1

/-! ### rendering of the RFC 8888 layout -/

namespace Spec

theorem render_cons' (e : El) (es : List El) : render (e :: es) = e.render ++ render es := by simp [render]
theorem render_append' (a b : List El) : render (a ++ b) = render a ++ render b := by simp [render]

/-- R(1) ECN(2) ATO(13), MSB first, is the metric word -/
theorem ccfbMetric_render (m : CcfbMetric) (h1 : m.ecn < 4) (h2 : m.ato < 8192) : (ccfbMetric m).render = m.bytes := by
  simp only [ccfbMetric, El.render, totalBits, groupVal, List.map_cons, List.map_nil, List.sum_cons, List.sum_nil]
  show beBytes 2 _ = _
  rw [beBytes2, CcfbMetric.bytes, CcfbMetric.word]
  apply congrArg be16
  cases m.received <;> simp <;> omega

theorem ccfbMetrics_render (ms : List CcfbMetric) (h : ∀ m ∈ ms, m.ecn < 4 ∧ m.ato < 8192) :
    render (ms.map ccfbMetric) = metricsBytes ms := by
  induction ms with
  | nil => rfl
  | cons m ms ih =>
    have hm := h m (by simp)
    rw [List.map_cons, render_cons', ccfbMetric_render m hm.1 hm.2, ih (fun x hx => h x (by simp [hx])), metricsBytes_cons]

theorem ccfbBlock_render (fld : CcfbBlock → Nat) (b : CcfbBlock) (h1 : b.media < 4294967296) (h2 : b.beginSeq < 65536)
    (h3 : fld b < 65536) (h4 : ∀ m ∈ b.metrics, m.ecn < 4 ∧ m.ato < 8192) :
    render (ccfbBlock fld b) = b.bytesF (fld b) := by
  unfold ccfbBlock
  rw [render_append', render_append', render_cons', ccfbMetrics_render _ h4]
  rw [bits_aligned _ (by
    intro f hf'; simp at hf'
    rcases hf' with h | h | h <;> subst h
    · exact ⟨by simp, by simpa using h1⟩
    · exact ⟨by simp, by simpa using h2⟩
    · exact ⟨by simp, by simpa using h3⟩)]
  have hpad : render (if b.metrics.length % 2 = 1 then [El.zeros 2] else []) = zeros (ccfbPad b.metrics.length) := by
    unfold ccfbPad; split <;> simp [render, El.render, zeros]
  rw [hpad]
  simp [renderAligned, beBytes4, beBytes2, render, CcfbBlock.bytesF]

theorem ccfbBlocks_render (fld : CcfbBlock → Nat) (bs : List CcfbBlock)
    (h : ∀ b ∈ bs, b.media < 4294967296 ∧ b.beginSeq < 65536 ∧ fld b < 65536 ∧ ∀ m ∈ b.metrics, m.ecn < 4 ∧ m.ato < 8192) :
    render (bs.flatMap (ccfbBlock fld)) = blocksBytesF fld bs := by
  induction bs with
  | nil => rfl
  | cons b bs ih =>
    obtain ⟨h1, h2, h3, h4⟩ := h b (by simp)
    rw [List.flatMap_cons, render_append', ccfbBlock_render fld b h1 h2 h3 h4, ih (fun x hx => h x (by simp [hx])), blocksBytesF_cons]

/-- the word count of the layout is the library's MarshalSize -/
theorem ccfbWords_eq (p : Ccfb) : 4 * ccfbWords p = p.marshalSize := by
  rw [Ccfb.size_eq, ccfbWords]
  have : ∀ bs : List CcfbBlock, 4 * (bs.map fun b => 2 + (b.metrics.length + 1) / 2).sum = blocksLen bs := by
    intro bs
    induction bs with
    | nil => rfl
    | cons b bs ih =>
      rw [blocksLen_cons, List.map_cons, List.sum_cons, ← ih, CcfbBlock.len_eq]; unfold ccfbPad; split <;> omega
  have := this p.blocks
  omega

/-- **the layout of Spec/Ccfb.lean renders to `bytesF`** for every well-formed report, whatever goes into num_reports -/
theorem ccfb_render (fld : CcfbBlock → Nat) (p : Ccfb) (h : p.WF) (hf : ∀ b ∈ p.blocks, fld b < 65536) :
    render (ccfb fld p) = p.bytesF fld := by
  obtain ⟨h1, h2, h3, h4⟩ := h
  simp only [u32] at h1 h2
  have hw := ccfbWords_eq p
  have hm := Ccfb.size_mod4 p
  have hs := Ccfb.size_eq p
  unfold ccfb
  rw [render_append', render_append', render_cons', render_cons']
  rw [header_render false 11 205 _ (by decide) (by decide) (by omega)]
  rw [ccfbBlocks_render fld p.blocks (fun b hb => by
    obtain ⟨a1, a2, a3, a4, a5⟩ := h3 b hb
    exact ⟨a1, a2, hf b hb, fun m hm => ⟨(a5 m hm).1, (a5 m hm).2.1⟩⟩)]
  rw [bits_aligned _ (by intro f hf'; simp at hf'; subst hf'; exact ⟨by simp, by simpa using h1⟩)]
  rw [render_cons', bits_aligned _ (by intro f hf'; simp at hf'; subst hf'; exact ⟨by simp, by simpa using h2⟩)]
  have hh : p.header = Header.mk false 11 205 (ccfbWords p - 1) := by
    show Header.mk false 11 205 ((p.marshalSize / 4 - 1) % 65536) = _
    congr 1; omega
  rw [Ccfb.bytesF, hh]
  simp [renderAligned, beBytes4, render]

end Spec

/-! ### decoding what was encoded -/

theorem CcfbMetric.dec_bytes (m : CcfbMetric) (h : m.WF) : CcfbMetric.dec m.bytes = .ok m := by
  obtain ⟨r, ecn, ato⟩ := m
  obtain ⟨h1, h2, h3⟩ := h
  simp only at h1 h2 h3
  cases r with
  | true =>
    have := C16.metric_enc_dec ecn ato h1 h2
    rwa [CcfbMetric.enc_ok, bind_ok] at this
  | false =>
    obtain ⟨e1, e2⟩ := h3 rfl
    subst e1; subst e2
    have := C16.metric_not_received_canonical
    rwa [CcfbMetric.enc_ok, bind_ok] at this

/-- the metric loop reads back exactly the metric blocks written at `off = |pre|` -/
theorem decMetrics_bytes (ms : List CcfbMetric) (pre post : Bytes) (h : ∀ m ∈ ms, m.WF) :
    decMetrics ms.length (pre ++ (metricsBytes ms ++ post)) pre.length = .ok ms := by
  induction ms generalizing pre with
  | nil => rfl
  | cons m ms ih =>
    rw [List.length_cons, decMetrics]
    have hre : pre ++ (metricsBytes (m :: ms) ++ post) = pre ++ (m.bytes ++ (metricsBytes ms ++ post)) := by
      rw [metricsBytes_cons, List.append_assoc]
    rw [hre, slice_of_le (by omega) (by simp), bind_ok]
    have hsl : ((pre ++ (m.bytes ++ (metricsBytes ms ++ post))).take (pre.length + 2)).drop pre.length = m.bytes :=
      take_drop_mid pre m.bytes (metricsBytes ms ++ post)
    rw [hsl, CcfbMetric.dec_bytes m (h m (by simp)), bind_ok]
    have hre2 : pre ++ (m.bytes ++ (metricsBytes ms ++ post)) = (pre ++ m.bytes) ++ (metricsBytes ms ++ post) := by
      rw [List.append_assoc]
    have hl : pre.length + 2 = (pre ++ m.bytes).length := by simp
    rw [hre2, hl, ih (pre ++ m.bytes) (fun x hx => h x (by simp [hx])), bind_ok]
    rfl

theorem get32_end (pre : Bytes) (n i : Nat) (hi : i = pre.length) (hn : n < 4294967296) : get32 (pre ++ be32 n) i = n := by
  have := get32_at pre [] n i hi hn
  rwa [List.append_nil] at this

/-- `CCFeedbackReportBlock.unmarshal` on what `marshal` wrote, unless the block has exactly one metric block -/
theorem CcfbBlock.dec_bytes (b : CcfbBlock) (post : Bytes) (h : b.WF) (hne : b.metrics.length ≠ 1) :
    CcfbBlock.dec (b.bytesF (libField b) ++ post) = .ok b := by
  obtain ⟨media, bs, ms⟩ := b
  obtain ⟨h1, h2, h3, h4, h5⟩ := h
  simp only [u32, u16] at h1 h2 h3 h4 h5 hne
  simp only [libField, CcfbBlock.bytesF, List.append_assoc]
  generalize hk : ms.length - 1 = k
  generalize htail : zeros (ccfbPad ms.length) ++ post = tail
  have e1 := get32_at [] (be16 bs ++ (be16 k ++ (metricsBytes ms ++ tail))) media 0 rfl h1
  have e2 := get16_at (be32 media) (be16 k ++ (metricsBytes ms ++ tail)) bs 4 rfl h2
  have e3 := get16_at (be32 media ++ be16 bs) (metricsBytes ms ++ tail) k 6 rfl (by omega)
  simp only [List.nil_append, List.append_assoc] at e1 e2 e3
  unfold CcfbBlock.dec
  rw [if_neg (by simp <;> omega), u32At_of_le (by simp <;> omega), u16At_of_le (by simp <;> omega), u16At_of_le (by simp <;> omega)]
  repeat rw [bind_ok]
  simp only [beginSequenceOffset, numReportsOffset]
  rw [e1, e2, e3]
  by_cases h0 : ms.length = 0
  · have : ms = [] := List.eq_nil_of_length_eq_zero h0
    subst this
    rw [if_pos (by simp at hk; omega)]
    rfl
  · have h4' := h4 (by omega)
    rw [if_neg (by omega), if_neg (by omega)]
    have hnum : ((bs + k) % 65536 + 65536 - bs + 1) % 65536 = ms.length := by omega
    rw [hnum, if_neg (by simp; omega)]
    have hB : be32 media ++ (be16 bs ++ (be16 k ++ (metricsBytes ms ++ tail)))
        = (be32 media ++ be16 bs ++ be16 k) ++ (metricsBytes ms ++ tail) := by simp
    have hoff : reportsOffset = (be32 media ++ be16 bs ++ be16 k).length := by simp
    rw [hB, hoff, decMetrics_bytes ms _ tail h5, bind_ok]
    rfl

/-- the block loop reads back the blocks that were written, when none of them has exactly one metric block -/
theorem decBlocksP_bytes (bs : List CcfbBlock) (post : Bytes) (gas : Nat)
    (h : ∀ b ∈ bs, b.WF ∧ b.metrics.length ≠ 1) (hg : bs.length < gas) :
    decBlocksP gas (blocksBytesF libField bs ++ post) (blocksLen bs) = (bs, .ok) := by
  induction bs generalizing gas with
  | nil =>
    cases gas with
    | zero => simp at hg
    | succ g => simp [decBlocksP, blocksLen]
  | cons b bs ih =>
    cases gas with
    | zero => simp at hg
    | succ g =>
      have hb := h b (by simp)
      have hpos := CcfbBlock.len_pos b
      rw [decBlocksP, blocksLen_cons, if_neg (by omega), blocksBytesF_cons, List.append_assoc,
        CcfbBlock.dec_bytes b _ hb.1 hb.2]
      dsimp only
      have hd : (b.bytesF (libField b) ++ (blocksBytesF libField bs ++ post)).drop b.len = blocksBytesF libField bs ++ post := by
        have : b.len = (b.bytesF (libField b)).length := by simp
        rw [this, List.drop_left]
      rw [hd, Nat.add_sub_cancel_left, ih g (fun x hx => h x (by simp [hx])) (by simp at hg; omega)]

/-- `CCFeedbackReport.Unmarshal` on what Marshal wrote, down to the block loop -/
theorem Ccfb.decP_bytes_loop (p : Ccfb) (h : p.WF) :
    Ccfb.decP (p.bytesF libField) =
      ({ sender := p.sender, timestamp := p.timestamp,
         blocks := (decBlocksP (12 + blocksLen p.blocks + 1) (blocksBytesF libField p.blocks ++ be32 p.timestamp) (blocksLen p.blocks)).1 },
       (decBlocksP (12 + blocksLen p.blocks + 1) (blocksBytesF libField p.blocks ++ be32 p.timestamp) (blocksLen p.blocks)).2) := by
  obtain ⟨h1, h2, h3, h4⟩ := h
  simp only [u32] at h1 h2
  have hs := Ccfb.size_eq p
  have hm := Ccfb.size_mod4 p
  have hlen : (p.bytesF libField).length = 12 + blocksLen p.blocks := by rw [Ccfb.bytesF_length, hs]
  have hhd : Header.dec (p.bytesF libField) = .ok p.header :=
    Header.dec_bytes p.header _ (by rw [Ccfb.header_count]; omega) (by rw [Ccfb.header_type]; omega)
      (by rw [Ccfb.header_length]; omega)
  have e1 : get32 (p.bytesF libField) 4 = p.sender := get32_at p.header.bytes _ p.sender 4 (by simp) h1
  have e2 : get32 (p.bytesF libField) (12 + blocksLen p.blocks - 4) = p.timestamp := by
    have hB : p.bytesF libField = (p.header.bytes ++ be32 p.sender ++ blocksBytesF libField p.blocks) ++ be32 p.timestamp := by
      simp [Ccfb.bytesF]
    rw [hB]
    exact get32_end _ p.timestamp _ (by simp; omega) h2
  have hdrop : (p.bytesF libField).drop 8 = blocksBytesF libField p.blocks ++ be32 p.timestamp := by
    have hB : p.bytesF libField = (p.header.bytes ++ be32 p.sender) ++ (blocksBytesF libField p.blocks ++ be32 p.timestamp) := by
      simp [Ccfb.bytesF]
    have h8 : 8 = (p.header.bytes ++ be32 p.sender).length := by simp
    rw [hB, h8, List.drop_left]
  generalize p.bytesF libField = B at hlen hhd e1 e2 hdrop
  unfold Ccfb.decP
  rw [if_neg (by rw [hlen]; simp <;> omega), hhd]
  dsimp only
  rw [if_neg (by rw [Ccfb.header_type]; simp), u32At_of_le (by rw [hlen]; simp <;> omega), u32At_of_le (by rw [hlen]; simp <;> omega)]
  dsimp only
  simp only [headerLength, reportTimestampLength, reportBlockOffset]
  rw [hlen, e1, e2, hdrop]
  have h12 : 12 + blocksLen p.blocks - 4 - 8 = blocksLen p.blocks := by omega
  rw [h12]

theorem Ccfb.decP_bytes (p : Ccfb) (h : p.WF) (hne : ∀ b ∈ p.blocks, b.metrics.length ≠ 1) :
    Ccfb.decP (p.bytesF libField) = (p, .ok) := by
  have hge := blocksLen_ge p.blocks
  rw [Ccfb.decP_bytes_loop p h, decBlocksP_bytes p.blocks _ _ (fun b hb => ⟨h.2.2.1 b hb, hne b hb⟩) (by omega)]

/-- **own decoder**: `Unmarshal(Marshal(p)) = p` when no block has exactly one metric block -/
theorem Ccfb.dec_bytes (p : Ccfb) (h : p.WF) (hne : ∀ b ∈ p.blocks, b.metrics.length ≠ 1) :
    Ccfb.dec (p.bytesF libField) = .ok p := by
  unfold Ccfb.dec
  rw [Ccfb.decP_bytes p h hne]
  rfl

/-! ### the finding: a block with exactly one metric block -/

/-- a one-metric block is written with num_reports = 0 and read back as a block without metric blocks -/
theorem CcfbBlock.dec_bytes_one (b : CcfbBlock) (post : Bytes) (h : b.WF) (h1 : b.metrics.length = 1) :
    CcfbBlock.dec (b.bytesF (libField b) ++ post) = .ok { b with metrics := [] } := by
  obtain ⟨media, bs, ms⟩ := b
  obtain ⟨a1, a2, a3, a4, a5⟩ := h
  simp only [u32, u16] at a1 a2 a3 a4 a5 h1
  simp only [CcfbBlock.bytesF, List.append_assoc, libField, h1]
  generalize metricsBytes ms ++ (zeros (ccfbPad 1) ++ post) = tail
  have e1 := get32_at [] (be16 bs ++ (be16 0 ++ tail)) media 0 rfl a1
  have e2 := get16_at (be32 media) (be16 0 ++ tail) bs 4 rfl a2
  have e3 := get16_at (be32 media ++ be16 bs) tail 0 6 rfl (by omega)
  simp only [List.nil_append, List.append_assoc] at e1 e2 e3
  unfold CcfbBlock.dec
  rw [if_neg (by simp <;> omega), u32At_of_le (by simp <;> omega), u16At_of_le (by simp <;> omega), u16At_of_le (by simp <;> omega)]
  repeat rw [bind_ok]
  simp only [beginSequenceOffset, numReportsOffset]
  rw [e1, e2, e3, if_pos rfl]
  rfl

/-- the block loop over a prefix of blocks none of which has exactly one metric block -/
theorem decBlocksP_prefix (pre : List CcfbBlock) (rest : Bytes) (x gas : Nat)
    (h : ∀ b ∈ pre, b.WF ∧ b.metrics.length ≠ 1) (hx : 0 < x) :
    (decBlocksP (pre.length + gas) (blocksBytesF libField pre ++ rest) (blocksLen pre + x)).1
      = pre ++ (decBlocksP gas rest x).1 := by
  induction pre with
  | nil => simp [blocksLen]
  | cons b bs ih =>
    have hb := h b (by simp)
    have e : (b :: bs).length + gas = (bs.length + gas) + 1 := by simp; omega
    rw [e, decBlocksP, blocksLen_cons, if_neg (by omega), blocksBytesF_cons, List.append_assoc,
      CcfbBlock.dec_bytes b _ hb.1 hb.2]
    dsimp only
    have hd : (b.bytesF (libField b) ++ (blocksBytesF libField bs ++ rest)).drop b.len = blocksBytesF libField bs ++ rest := by
      have : b.len = (b.bytesF (libField b)).length := by simp
      rw [this, List.drop_left]
    have hsub : b.len + blocksLen bs + x - b.len = blocksLen bs + x := by omega
    rw [hd, hsub, ih (fun y hy => h y (by simp [hy]))]
    rfl

/-- … and then a one-metric block: the decoded list continues with that block stripped of its metric block -/
theorem decBlocksP_one (b : CcfbBlock) (rest : Bytes) (x gas : Nat) (h : b.WF) (h1 : b.metrics.length = 1) :
    ∃ t, (decBlocksP (gas + 1) (b.bytesF (libField b) ++ rest) (b.len + x)).1 = { b with metrics := [] } :: t := by
  have hpos := CcfbBlock.len_pos b
  rw [decBlocksP, if_neg (by omega), CcfbBlock.dec_bytes_one b _ h h1]
  exact ⟨_, rfl⟩

theorem exists_first {α : Type} (P : α → Prop) [DecidablePred P] (l : List α) (h : ∃ a ∈ l, P a) :
    ∃ pre a suf, l = pre ++ a :: suf ∧ (∀ x ∈ pre, ¬ P x) ∧ P a := by
  induction l with
  | nil => obtain ⟨a, ha, _⟩ := h; cases ha
  | cons c cs ih =>
    by_cases hc : P c
    · exact ⟨[], c, cs, rfl, by simp, hc⟩
    · obtain ⟨a, ha, hp⟩ := h
      rcases List.mem_cons.mp ha with e | e
      · subst e; exact absurd hp hc
      · obtain ⟨pre, a', suf, h1, h2, h3⟩ := ih ⟨a, e, hp⟩
        refine ⟨c :: pre, a', suf, by rw [h1]; rfl, ?_, h3⟩
        intro x hx
        rcases List.mem_cons.mp hx with e | e
        · subst e; exact hc
        · exact h2 x e

/-- whatever the decoder answers on the encoding of a report with a one-metric block, its block list is not the original -/
theorem Ccfb.decP_bytes_one (p : Ccfb) (h : p.WF) (h1 : ∃ b ∈ p.blocks, b.metrics.length = 1) :
    (Ccfb.decP (p.bytesF libField)).1 ≠ p := by
  obtain ⟨pre, b, suf, hsplit, hpre, hb⟩ := exists_first (fun b : CcfbBlock => b.metrics.length = 1) p.blocks h1
  have hwf : ∀ c ∈ p.blocks, c.WF := h.2.2.1
  have hbwf : b.WF := hwf b (by rw [hsplit]; simp)
  have hpos := CcfbBlock.len_pos b
  have hge := blocksLen_ge pre
  rw [Ccfb.decP_bytes_loop p h]
  intro heq
  have hblocks := congrArg Ccfb.blocks heq
  simp only at hblocks
  have hbytes : blocksBytesF libField p.blocks ++ be32 p.timestamp
      = blocksBytesF libField pre ++ (b.bytesF (libField b) ++ (blocksBytesF libField suf ++ be32 p.timestamp)) := by
    rw [hsplit]; simp [blocksBytesF]
  have hlen : blocksLen p.blocks = blocksLen pre + (b.len + blocksLen suf) := by
    rw [hsplit]; simp [blocksLen]
  obtain ⟨g, hg⟩ : ∃ g, 12 + blocksLen p.blocks + 1 = pre.length + (g + 1) := ⟨12 + blocksLen p.blocks - pre.length, by omega⟩
  rw [hbytes, hlen, ← hlen, hg] at hblocks
  rw [hlen] at hblocks
  rw [decBlocksP_prefix pre _ _ _ (fun c hc => ⟨hwf c (by rw [hsplit]; simp [hc]), hpre c hc⟩) (by omega)] at hblocks
  obtain ⟨t, ht⟩ := decBlocksP_one b (blocksBytesF libField suf ++ be32 p.timestamp) (blocksLen suf) g hbwf hb
  rw [ht, hsplit] at hblocks
  have := List.append_cancel_left hblocks
  have hm := congrArg CcfbBlock.metrics (List.cons.inj this).1
  simp only at hm
  rw [← hm] at hb
  simp at hb

/-! ### the datagram decoder on a single frame (length field up to 0xFFFF) -/

theorem unmarshalOne_frame (f : Bytes) (h : Header) (body : Bytes) (hb : f = h.bytes ++ body) (hc : h.count ≤ 31)
    (ht : h.type < 256) (hl : h.length < 65536) (hs : f.length = (h.length + 1) * 4) :
    unmarshalOne f = (decKind (dispatch h.type h.count) f >>= fun p => .ok (p, f.length)) := by
  unfold unmarshalOne
  have hd : Header.dec f = .ok h := by rw [hb]; exact Header.dec_bytes h _ hc ht hl
  rw [hd, bind_ok]
  dsimp only
  rw [if_neg (by omega), slice_of_le (by omega) (by omega), bind_ok]
  have : (f.take ((h.length + 1) * 4)).drop 0 = f := by rw [List.drop_zero, ← hs, List.take_length]
  rw [this, hs]
  cases decKind (dispatch h.type h.count) f <;> rfl

/-- `rtcp.Unmarshal` on a datagram that is exactly one frame -/
theorem udec_frame (f : Bytes) (h : Header) (body : Bytes) (hb : f = h.bytes ++ body) (hc : h.count ≤ 31)
    (ht : h.type < 256) (hl : h.length < 65536) (hs : f.length = (h.length + 1) * 4)
    (p : Packet) (hp : decKind (dispatch h.type h.count) f = .ok p) : udec f = .ok [p] := by
  unfold udec
  obtain ⟨g, hg⟩ : ∃ g, f.length = g + 1 := ⟨f.length - 1, by omega⟩
  rw [unmarshalLoop, if_neg (by omega), unmarshalOne_frame f h body hb hc ht hl hs, hp]
  repeat rw [bind_ok]
  dsimp only
  rw [sliceFrom_of_le (by omega), bind_ok, List.drop_length, hg, unmarshalLoop, if_pos List.length_nil]
  rfl

/-- when the dispatched decoder returns an error, so does `rtcp.Unmarshal` -/
theorem udec_frame_ne (f : Bytes) (h : Header) (body : Bytes) (hb : f = h.bytes ++ body) (hc : h.count ≤ 31)
    (ht : h.type < 256) (hl : h.length < 65536) (hs : f.length = (h.length + 1) * 4)
    (hp : decKind (dispatch h.type h.count) f = .err) (ps : List Packet) : udec f ≠ .ok ps := by
  unfold udec
  rw [unmarshalLoop, if_neg (by omega), unmarshalOne_frame f h body hb hc ht hl hs, hp]
  intro hx
  cases hx

end Rtcp
