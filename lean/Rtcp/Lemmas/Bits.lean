/-
  util.go bit helpers as arithmetic (used by C16, C13, C02/C03 for TWCC and CCFB).
-/
import Rtcp.Lemmas.Bytes
namespace Rtcp
set_option linter.unusedSimpArgs false

theorem two_pow_le_65536 {k : Nat} (h : k ≤ 16) : 2 ^ k ≤ 65536 := by
  have : (65536 : Nat) = 2 ^ 16 := by decide
  rw [this]; exact Nat.pow_le_pow_right (by decide) h

/-- `setNBitsOfUint16` writes `val mod 2^size` at bit offset `start` (MSB first) when the lower part of `src` is still clear -/
theorem setNBits_eq (src size start val : Nat) (hs : start + size ≤ 16) (hsrc : src % 2 ^ (16 - start) = 0) :
    setNBitsOfUint16 src size start val = .ok (src + (val % 2 ^ size) * 2 ^ (16 - size - start)) := by
  unfold setNBitsOfUint16
  have h1 : ¬ (start + size) % 65536 > 16 := by omega
  rw [if_neg h1]
  have hp : 2 ^ size ≤ 65536 := two_pow_le_65536 (by omega)
  have hpos : 0 < 2 ^ size := Nat.pow_pos (by decide)
  have hmask : ((1 <<< size) % 65536 + 65535) % 65536 = 2 ^ size - 1 := by
    rw [Nat.shiftLeft_eq, Nat.one_mul]
    by_cases h : 2 ^ size = 65536
    · rw [h]
    · have : 2 ^ size < 65536 := by omega
      omega
  have hsh : (16 + 65536 - size + 65536 - start) % 65536 = 16 - size - start := by omega
  rw [hmask, hsh, Nat.and_two_pow_sub_one_eq_mod]
  dsimp only
  rw [Nat.shiftLeft_eq]
  have hv : val % 2 ^ size < 2 ^ size := Nat.mod_lt _ hpos
  have hk : 2 ^ size * 2 ^ (16 - size - start) = 2 ^ (16 - start) := by
    have e : size + (16 - size - start) = 16 - start := by omega
    rw [← e, Nat.pow_add]
  have hlt : val % 2 ^ size * 2 ^ (16 - size - start) < 2 ^ (16 - start) := by
    rw [← hk]; exact Nat.mul_lt_mul_of_pos_right hv (Nat.pow_pos (by decide))
  have hle : 2 ^ (16 - start) ≤ 65536 := two_pow_le_65536 (by omega)
  rw [Nat.mod_eq_of_lt (by omega)]
  obtain ⟨a, ha⟩ : ∃ a, src = 2 ^ (16 - start) * a := ⟨src / 2 ^ (16 - start), by
    have := Nat.div_add_mod src (2 ^ (16 - start)); omega⟩
  rw [ha, ← Nat.two_pow_add_eq_or_of_lt hlt]

/-- `getNBitsFromByte b begin n` = bits `[begin, begin+n)` of the octet, MSB first -/
theorem getNBits_eq (b begin_ n : Nat) (hb : b < 256) (h : begin_ + n ≤ 8) :
    getNBitsFromByte b begin_ n = b / 2 ^ (8 - begin_ - n) % 2 ^ n := by
  -- 256 octets × 45 (begin,n) pairs: a finite table, checked by evaluation
  have key : ∀ b < 256, ∀ bg < 9, ∀ n < 9, bg + n ≤ 8 →
      getNBitsFromByte b bg n = b / 2 ^ (8 - bg - n) % 2 ^ n := by decide +kernel
  exact key b hb begin_ (by omega) n (by omega) h

theorem appendNBits_24_8 (t f : Nat) (hf : f < 256) :
    appendNBitsToUint32 (appendNBitsToUint32 0 24 t) 8 f = (t % 16777216) * 256 + f := by
  unfold appendNBitsToUint32
  have h24 : (4294967295 : Nat) >>> ((32 + 4294967296 - 24) % 4294967296) = 2 ^ 24 - 1 := by decide
  have h8 : (4294967295 : Nat) >>> ((32 + 4294967296 - 8) % 4294967296) = 2 ^ 8 - 1 := by decide
  rw [h24, h8, Nat.and_two_pow_sub_one_eq_mod, Nat.and_two_pow_sub_one_eq_mod]
  simp only [Nat.zero_shiftLeft, Nat.zero_mod, Nat.zero_or]
  have ht : t % 2 ^ 24 < 2 ^ 24 := Nat.mod_lt _ (by decide)
  rw [Nat.shiftLeft_eq, Nat.mod_eq_of_lt (by omega)]
  have hf' : f % 2 ^ 8 = f := Nat.mod_eq_of_lt (by omega)
  rw [hf']
  have : f < 2 ^ 8 := by omega
  rw [Nat.mul_comm, ← Nat.two_pow_add_eq_or_of_lt this]

end Rtcp
