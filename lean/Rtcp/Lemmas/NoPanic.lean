/-
  C09 helper lemmas: Marshal of the simple packet types can never panic (for any value), and Marshal of what the
  TWCC and XR decoders return does not panic either.
-/
import Rtcp.Proofs.C13
import Rtcp.Lemmas.XRCodec
namespace Rtcp
open Gen Out
set_option linter.unusedSimpArgs false
set_option linter.unusedVariables false

/-- never a Go run-time panic and never out of gas -/
theorem safe_ok' {α} (a : α) : (Out.ok a).Safe := safe_ok a

theorem Header.enc_safe (h : Header) : h.enc.Safe := by
  unfold Header.enc; split; exact safe_err; exact safe_ok _

theorem ReceptionReport.enc_safe (r : ReceptionReport) : r.enc.Safe := by
  unfold ReceptionReport.enc; split; exact safe_err; exact safe_ok _

theorem encReports_safe (rs : List ReceptionReport) : (encReports rs).Safe := by
  induction rs with
  | nil => exact safe_ok _
  | cons r rs ih =>
    unfold encReports
    apply safe_bind (ReceptionReport.enc_safe r); intro _ _
    apply safe_bind ih; intro _ _
    exact safe_ok _

theorem SenderReport.enc_safe (v : SenderReport) : v.enc.Safe := by
  unfold SenderReport.enc
  apply safe_bind (encReports_safe _); intro _ _
  apply safe_err_ite; intro _
  apply safe_bind (Header.enc_safe _); intro _ _
  exact safe_ok _

theorem ReceiverReport.enc_safe (v : ReceiverReport) : v.enc.Safe := by
  unfold ReceiverReport.enc
  apply safe_bind (encReports_safe _); intro _ _
  apply safe_err_ite; intro _
  apply safe_bind (Header.enc_safe _); intro _ _
  exact safe_ok _

theorem SDESItem.enc_safe (i : SDESItem) : i.enc.Safe := by
  unfold SDESItem.enc
  apply safe_err_ite; intro _
  apply safe_err_ite; intro _
  exact safe_ok _

theorem encItems_safe (is : List SDESItem) : (encItems is).Safe := by
  induction is with
  | nil => exact safe_ok _
  | cons i is ih =>
    unfold encItems
    apply safe_bind (SDESItem.enc_safe i); intro _ _
    apply safe_bind ih; intro _ _
    exact safe_ok _

theorem SDESChunk.enc_safe (c : SDESChunk) : c.enc.Safe := by
  unfold SDESChunk.enc
  apply safe_bind (encItems_safe _); intro _ _
  exact safe_ok _

theorem encChunks_safe (cs : List SDESChunk) : (encChunks cs).Safe := by
  induction cs with
  | nil => exact safe_ok _
  | cons c cs ih =>
    unfold encChunks
    apply safe_bind (SDESChunk.enc_safe c); intro _ _
    apply safe_bind ih; intro _ _
    exact safe_ok _

theorem SourceDescription.enc_safe (v : SourceDescription) : v.enc.Safe := by
  unfold SourceDescription.enc
  apply safe_bind (encChunks_safe _); intro _ _
  apply safe_err_ite; intro _
  apply safe_bind (Header.enc_safe _); intro _ _
  exact safe_ok _

theorem Goodbye.enc_safe (v : Goodbye) : v.enc.Safe := by
  unfold Goodbye.enc
  apply safe_err_ite; intro _
  apply safe_err_ite; intro _
  apply safe_bind (Header.enc_safe _); intro _ _
  exact safe_ok _

theorem ApplicationDefined.enc_safe (v : ApplicationDefined) : v.enc.Safe := by
  unfold ApplicationDefined.enc
  apply safe_err_ite; intro _
  apply safe_err_ite; intro _
  apply safe_bind (Header.enc_safe _); intro _ _
  exact safe_ok _

theorem TransportLayerNack.enc_safe (v : TransportLayerNack) : v.enc.Safe := by
  unfold TransportLayerNack.enc
  apply safe_err_ite; intro _
  apply safe_bind (Header.enc_safe _); intro _ _
  exact safe_ok _

theorem SliceLossIndication.enc_safe (v : SliceLossIndication) : v.enc.Safe := by
  unfold SliceLossIndication.enc
  apply safe_err_ite; intro _
  apply safe_bind (Header.enc_safe _); intro _ _
  exact safe_ok _

theorem FullIntraRequest.enc_safe (v : FullIntraRequest) : v.enc.Safe := by
  unfold FullIntraRequest.enc
  apply safe_bind (Header.enc_safe _); intro _ _
  exact safe_ok _

theorem PictureLossIndication.enc_safe (v : PictureLossIndication) : v.enc.Safe := by
  unfold PictureLossIndication.enc
  apply safe_bind (Header.enc_safe _); intro _ _
  exact safe_ok _

theorem RapidResync.enc_safe (v : RapidResync) : v.enc.Safe := by
  unfold RapidResync.enc
  apply safe_bind (Header.enc_safe _); intro _ _
  exact safe_ok _

theorem setNBits_safe (a b c d : Nat) : (setNBitsOfUint16 a b c d).Safe := by
  unfold setNBitsOfUint16; split; exact safe_err; exact safe_ok _

theorem CcfbMetric.enc_safe (m : CcfbMetric) : m.enc.Safe := by
  unfold CcfbMetric.enc
  apply safe_bind (setNBits_safe _ _ _ _); intro _ _
  apply safe_bind (setNBits_safe _ _ _ _); intro _ _
  apply safe_bind (setNBits_safe _ _ _ _); intro _ _
  exact safe_ok _

theorem encMetrics_safe (ms : List CcfbMetric) : (encMetrics ms).Safe := by
  induction ms with
  | nil => exact safe_ok _
  | cons m ms ih =>
    unfold encMetrics
    apply safe_bind (CcfbMetric.enc_safe m); intro _ _
    apply safe_bind ih; intro _ _
    exact safe_ok _

theorem CcfbBlock.enc_safe (b : CcfbBlock) : b.enc.Safe := by
  unfold CcfbBlock.enc
  apply safe_err_ite; intro _
  apply safe_bind (encMetrics_safe _); intro _ _
  exact safe_ok _

theorem encBlocks_safe (bs : List CcfbBlock) : (encBlocks bs).Safe := by
  induction bs with
  | nil => exact safe_ok _
  | cons b bs ih =>
    unfold encBlocks
    apply safe_bind (CcfbBlock.enc_safe b); intro _ _
    apply safe_bind ih; intro _ _
    exact safe_ok _

/-- after the `fix:` commit CCFeedbackReport.Marshal sizes its buffer with MarshalSize: no value can make it panic -/
theorem Ccfb.enc_safe (c : Ccfb) : c.enc.Safe := by
  unfold Ccfb.enc
  apply safe_bind (Header.enc_safe _); intro _ _
  apply safe_bind (encBlocks_safe _); intro _ _
  exact safe_ok _

theorem rembEncLoop_safe (gas v e : Nat) (hg : v < 262144 * 2 ^ gas) : (rembEncLoop (gas + 1) v e).Safe := by
  induction gas generalizing v e with
  | zero => rw [rembEncLoop]; simp at hg; rw [if_neg (by omega)]; exact safe_ok _
  | succ g ih =>
    rw [rembEncLoop]
    apply safe_ite
    · intro h; exact ih _ _ (by rw [Nat.pow_succ] at hg; omega)
    · intro _; exact safe_ok _

/-- every float32 bit pattern (< 2^32), including NaN and the infinities -/
theorem f32Floor_lt (bits : Nat) (h : bits < 4294967296) : f32Floor bits < 2 ^ 130 := by
  unfold f32Floor
  dsimp only
  have he : f32Exp bits < 256 := by unfold f32Exp; omega
  have hf : f32Frac bits < 8388608 := by unfold f32Frac; omega
  split
  · exact Nat.pow_pos (by decide)
  · split
    · have h1 : 2 ^ (f32Exp bits - 150) ≤ 2 ^ 105 := Nat.pow_le_pow_right (by decide) (by omega)
      have h2 : (8388608 + f32Frac bits) * 2 ^ (f32Exp bits - 150) ≤ 16777216 * 2 ^ 105 := Nat.mul_le_mul (by omega) h1
      have h3 : (16777216 : Nat) * 2 ^ 105 < 2 ^ 130 := by decide
      omega
    · have : (8388608 + f32Frac bits) / 2 ^ (150 - f32Exp bits) ≤ 8388608 + f32Frac bits := Nat.div_le_self _ _
      have h3 : (16777216 : Nat) < 2 ^ 130 := by decide
      omega

theorem rembEncBitrate_safe (bits : Nat) (h : bits < 4294967296) : (rembEncBitrate bits).Safe := by
  unfold rembEncBitrate
  dsimp only
  apply safe_err_ite; intro _
  apply safe_bind
  · have hmax : rembBitrateMax < 262144 * 2 ^ 199 := by decide
    have hfl := f32Floor_lt bits h
    have h129 : (2 : Nat) ^ 130 < 262144 * 2 ^ 199 := by decide
    have hpos : (0 : Nat) < 262144 * 2 ^ 199 := by decide
    apply rembEncLoop_safe 199
    repeat' split
    all_goals first | exact hmax | exact hpos | omega
  · intro ⟨m, e⟩ _
    apply safe_err_ite; intro _
    exact safe_ok _

theorem Remb.enc_safe (p : Remb) (h : p.bitrate < 4294967296) : p.enc.Safe := by
  unfold Remb.enc
  apply safe_err_ite; intro _
  apply safe_bind (rembEncBitrate_safe _ h); intro _ _
  exact safe_ok _

end Rtcp
