/-
  C02 helper lemmas, part 5: SourceDescription round trip.
-/
import Rtcp.Lemmas.RT4
namespace Rtcp
open Gen Out
set_option linter.unusedSimpArgs false
set_option linter.unusedVariables false

def SDESItem.bytes (i : SDESItem) : Bytes := [byte i.type, byte i.text.length] ++ i.text
def itemsBytes (is : List SDESItem) : Bytes := (is.map SDESItem.bytes).flatten

theorem SDESItem.bytes_length (i : SDESItem) : i.bytes.length = i.len := by simp [SDESItem.bytes, SDESItem.len]; omega

theorem itemsBytes_length (is : List SDESItem) : (itemsBytes is).length = itemsLen is := by
  induction is with
  | nil => rfl
  | cons i is ih => simp [itemsBytes, itemsLen, SDESItem.bytes_length] at ih ⊢; omega

theorem SDESItem.enc_ok (i : SDESItem) (h : i.WF) : i.enc = .ok i.bytes := by
  obtain ⟨h1, h2, h3⟩ := h
  simp [SDESItem.enc, SDESItem.bytes]
  rw [if_neg (by omega), if_neg (by omega)]

theorem encItems_ok (is : List SDESItem) (h : ∀ i ∈ is, i.WF) : encItems is = .ok (itemsBytes is) := by
  induction is with
  | nil => rfl
  | cons i is ih =>
    simp only [encItems, SDESItem.enc_ok i (h i (by simp)), bind_ok, ih (fun x hx => h x (by simp [hx]))]
    simp [itemsBytes]

theorem SDESItem.dec_bytes (i : SDESItem) (post : Bytes) (h : i.WF) : SDESItem.dec (i.bytes ++ post) = .ok i := by
  obtain ⟨t, txt⟩ := i
  obtain ⟨h1, h2, h3⟩ := h
  simp only [u8] at h1 h2 h3
  unfold SDESItem.dec
  rw [if_neg (by first | (simp [SDESItem.bytes]; done) | (simp [SDESItem.bytes]; omega))]
  rw [u8At_of_lt (by simp [SDESItem.bytes]), u8At_of_lt (by simp [SDESItem.bytes]), bind_ok, bind_ok]
  have e0 : get8 (SDESItem.bytes ⟨t, txt⟩ ++ post) sdesTypeOffset = t := by simp [SDESItem.bytes, get8, byte]; omega
  have e1 : get8 (SDESItem.bytes ⟨t, txt⟩ ++ post) sdesOctetCountOffset = txt.length := by simp [SDESItem.bytes, get8, byte]; omega
  rw [e0, e1]
  rw [if_neg (by simp [SDESItem.bytes]; omega), slice_of_le (by simp) (by simp [SDESItem.bytes]; omega), bind_ok]
  have : ((SDESItem.bytes ⟨t, txt⟩ ++ post).take (sdesTextOffset + txt.length)).drop sdesTextOffset = txt := by
    have e : SDESItem.bytes ⟨t, txt⟩ ++ post = [byte t, byte txt.length] ++ (txt ++ post) := by simp [SDESItem.bytes]
    rw [e]
    have := take_drop_mid [byte t, byte txt.length] txt post
    simpa using this
  rw [this]; rfl

/-- the item loop reads the items back and stops at the END octet -/
theorem decItemsP_bytes (is : List SDESItem) (post : Bytes) (gas : Nat) (hg : is.length < gas) (h : ∀ i ∈ is, i.WF) :
    decItemsP gas (itemsBytes is ++ (0 :: post)) = (is, .ok) := by
  induction is generalizing gas with
  | nil =>
    cases gas with
    | zero => omega
    | succ g => simp [decItemsP, itemsBytes, get8]
  | cons i is ih =>
    cases gas with
    | zero => omega
    | succ g =>
      rw [decItemsP]
      have hb : itemsBytes (i :: is) ++ (0 :: post) = i.bytes ++ (itemsBytes is ++ (0 :: post)) := by simp [itemsBytes]
      have hi := h i (by simp)
      rw [hb, if_neg (by simp [SDESItem.bytes])]
      have ht : get8 (i.bytes ++ (itemsBytes is ++ (0 :: post))) 0 = i.type := by
        have := hi.2.1; simp only [u8] at this
        simp [SDESItem.bytes, get8, byte]; omega
      rw [ht, if_neg (by have := hi.1; simp only [SDESEnd]; omega)]
      rw [SDESItem.dec_bytes i _ hi]
      dsimp only
      have hd : (i.bytes ++ (itemsBytes is ++ (0 :: post))).drop i.len = itemsBytes is ++ (0 :: post) := by
        rw [← SDESItem.bytes_length, List.drop_left]
      rw [hd, ih g (by simp at hg; omega) (fun x hx => h x (by simp [hx]))]

theorem items_len_ge (is : List SDESItem) : is.length * 2 ≤ itemsLen is := by
  induction is with
  | nil => simp [itemsLen]
  | cons i is ih => simp [itemsLen, SDESItem.len] at ih ⊢; omega

def SDESChunk.bytes (c : SDESChunk) : Bytes :=
  be32 c.source ++ itemsBytes c.items ++ [0] ++ zeros (getPadding (4 + itemsLen c.items + 1))

theorem SDESChunk.bytes_length (c : SDESChunk) : c.bytes.length = c.len := by
  simp [SDESChunk.bytes, SDESChunk.len, itemsBytes_length]; omega

theorem SDESChunk.enc_ok (c : SDESChunk) (h : c.WF) : c.enc = .ok c.bytes := by
  unfold SDESChunk.enc
  rw [encItems_ok _ h.2, bind_ok]
  simp [SDESChunk.bytes, itemsBytes_length]
  try (rw [Nat.add_assoc])

theorem SDESChunk.decP_bytes (c : SDESChunk) (post : Bytes) (h : c.WF) : SDESChunk.decP (c.bytes ++ post) = (c, .ok) := by
  obtain ⟨src, items⟩ := c
  obtain ⟨h1, h2⟩ := h
  simp only [u32] at h1
  unfold SDESChunk.decP
  rw [if_neg (by simp [SDESChunk.bytes]; omega)]
  rw [u32At_of_le (by first | (simp [SDESChunk.bytes]; done) | (simp [SDESChunk.bytes]; omega))]
  dsimp only
  have e1 : get32 (SDESChunk.bytes ⟨src, items⟩ ++ post) 0 = src := by
    have := get32_at [] (itemsBytes items ++ ([0] ++ (zeros (getPadding (4 + itemsLen items + 1)) ++ post))) src 0 rfl h1
    simpa [SDESChunk.bytes] using this
  have hd : (SDESChunk.bytes ⟨src, items⟩ ++ post).drop 4 = itemsBytes items ++ (0 :: (zeros (getPadding (4 + itemsLen items + 1)) ++ post)) := by
    have e : SDESChunk.bytes ⟨src, items⟩ ++ post = be32 src ++ (itemsBytes items ++ (0 :: (zeros (getPadding (4 + itemsLen items + 1)) ++ post))) := by
      simp [SDESChunk.bytes]
    rw [e]
    have : 4 = (be32 src).length := rfl
    rw [this, List.drop_left]
  have hgas : items.length < (SDESChunk.bytes ⟨src, items⟩ ++ post).length + 1 := by
    rw [List.length_append, SDESChunk.bytes_length]
    have := items_len_ge items
    simp only [SDESChunk.len, sdesSourceLen, sdesTypeLen]
    omega
  rw [e1, hd, decItemsP_bytes items _ _ hgas h2]

def chunksBytes (cs : List SDESChunk) : Bytes := (cs.map SDESChunk.bytes).flatten

theorem chunksBytes_length (cs : List SDESChunk) : (chunksBytes cs).length = chunksLen cs := by
  induction cs with
  | nil => rfl
  | cons c cs ih => simp [chunksBytes, chunksLen, SDESChunk.bytes_length] at ih ⊢; omega

theorem encChunks_ok (cs : List SDESChunk) (h : ∀ c ∈ cs, c.WF) : encChunks cs = .ok (chunksBytes cs) := by
  induction cs with
  | nil => rfl
  | cons c cs ih =>
    simp only [encChunks, SDESChunk.enc_ok c (h c (by simp)), bind_ok, ih (fun x hx => h x (by simp [hx]))]
    simp [chunksBytes]

theorem decChunksP_bytes (cs : List SDESChunk) (gas : Nat) (hg : cs.length < gas) (h : ∀ c ∈ cs, c.WF) :
    decChunksP gas (chunksBytes cs) = (cs, .ok) := by
  induction cs generalizing gas with
  | nil =>
    cases gas with
    | zero => omega
    | succ g => simp [decChunksP, chunksBytes]
  | cons c cs ih =>
    cases gas with
    | zero => omega
    | succ g =>
      rw [decChunksP]
      have hb : chunksBytes (c :: cs) = c.bytes ++ chunksBytes cs := by simp [chunksBytes]
      have hpos := SDESChunk.len_pos c
      rw [hb, if_neg (by simp [SDESChunk.bytes_length]; omega)]
      rw [SDESChunk.decP_bytes c _ (h c (by simp))]
      dsimp only
      have hd : (c.bytes ++ chunksBytes cs).drop c.len = chunksBytes cs := by
        rw [← SDESChunk.bytes_length, List.drop_left]
      rw [hd, ih g (by simp at hg; omega) (fun x hx => h x (by simp [hx]))]

theorem SDESChunk.len_mod4 (c : SDESChunk) : c.len % 4 = 0 := by
  unfold SDESChunk.len
  exact add_getPadding_mod _

theorem chunksLen_mod4 (cs : List SDESChunk) : chunksLen cs % 4 = 0 := by
  induction cs with
  | nil => rfl
  | cons c cs ih => have := SDESChunk.len_mod4 c; simp [chunksLen] at ih ⊢; omega

theorem chunksLen_ge (cs : List SDESChunk) : cs.length * 4 ≤ chunksLen cs := by
  induction cs with
  | nil => simp [chunksLen]
  | cons c cs ih => have := SDESChunk.len_pos c; simp [chunksLen] at ih ⊢; omega

theorem SourceDescription.roundtrip (s : SourceDescription) (h : s.WF) : (s.enc >>= SourceDescription.dec) = .ok s := by
  obtain ⟨cs⟩ := s
  obtain ⟨h1, h2, h3⟩ := h
  simp only at h1 h2 h3
  have hsz : (SourceDescription.mk cs).marshalSize = 4 + chunksLen cs := by simp [SourceDescription.marshalSize]
  have hm := chunksLen_mod4 cs
  have hge := chunksLen_ge cs
  have hht : (SourceDescription.mk cs).header.type = TypeSourceDescription := rfl
  have hhc : (SourceDescription.mk cs).header.count = cs.length := by simp [SourceDescription.header]; omega
  have hhl : (SourceDescription.mk cs).header.length < 65536 := by simp [SourceDescription.header]; omega
  unfold SourceDescription.enc
  rw [encChunks_ok _ h2, bind_ok, if_neg (by simp; omega), Header.enc_ok _ (by omega), bind_ok]
  simp only [pure_eq, bind_ok]
  unfold SourceDescription.dec
  have hP : SourceDescription.decP ((SourceDescription.mk cs).header.bytes ++ chunksBytes cs) = (SourceDescription.mk cs, .ok) := by
    unfold SourceDescription.decP
    rw [Header.dec_bytes _ _ (by omega) (by rw [hht]; decide) hhl]
    dsimp only
    rw [if_neg (fun hne => hne hht)]
    have hd : ((SourceDescription.mk cs).header.bytes ++ chunksBytes cs).drop headerLength = chunksBytes cs := by
      have : headerLength = (SourceDescription.mk cs).header.bytes.length := by simp
      rw [this, List.drop_left]
    rw [hd, decChunksP_bytes cs _ (by simp [chunksBytes_length]; omega) h2]
    dsimp only
    rw [if_neg (by omega)]
  rw [hP]
  rfl

end Rtcp
