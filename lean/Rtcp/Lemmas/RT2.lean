/-
  C02 helper lemmas, part 2: SenderReport and ReceiverReport round trips.
-/
import Rtcp.Lemmas.RT1
namespace Rtcp
open Gen Out
set_option linter.unusedSimpArgs false
set_option linter.unusedVariables false

theorem SenderReport.enc_ok (v : SenderReport) (h : v.WF) :
    v.enc = .ok (v.header.bytes ++ be32 v.ssrc ++ be64 v.ntpTime ++ be32 v.rtpTime ++ be32 v.packetCount ++ be32 v.octetCount
                 ++ reportsBytes v.reports ++ v.ext ++ zeros (getPadding v.ext.length)) := by
  obtain ⟨h1, h2, h3, h4, h5, h6, h7, h8, h9⟩ := h
  unfold SenderReport.enc
  rw [encReports_ok _ h7]
  simp only [bind_ok]
  rw [if_neg (by simp; omega)]
  rw [Header.enc_ok _ (by simp [SenderReport.header]; omega)]
  simp

theorem SenderReport.size_mod4 (v : SenderReport) : v.marshalSize % 4 = 0 := by
  have := add_getPadding_mod v.ext.length
  simp [SenderReport.marshalSize]; omega

theorem SenderReport.roundtrip (v : SenderReport) (h : v.WF) : (v.enc >>= SenderReport.dec) = .ok v := by
  rw [SenderReport.enc_ok v h]
  repeat rw [bind_ok]
  obtain ⟨h1, h2, h3, h4, h5, h6, h7, h8, h9⟩ := h
  simp only [u32, u64] at h1 h2 h3 h4 h5
  have hpad : getPadding v.ext.length = 0 := getPadding_eq_zero h8
  have hsz : v.marshalSize = 28 + v.reports.length * 24 + v.ext.length := by simp [SenderReport.marshalSize, hpad]
  have hhl : v.header.length < 65536 := by simp [SenderReport.header]; omega
  have hhc : v.header.count = v.reports.length := by simp [SenderReport.header]; omega
  unfold SenderReport.dec
  rw [if_neg (by simp [hpad]; omega)]
  simp only [List.append_assoc]
  have hht : v.header.type = TypeSenderReport := rfl
  rw [Header.dec_bytes v.header _ (by omega) (by rw [hht]; decide) hhl]
  repeat rw [bind_ok]
  rw [if_neg (fun hne => hne hht)]
  rw [sliceFrom_of_le (by slen)]
  repeat rw [bind_ok]
  have hdrop : (v.header.bytes ++ (be32 v.ssrc ++ (be64 v.ntpTime ++ (be32 v.rtpTime ++ (be32 v.packetCount ++ (be32 v.octetCount ++
      (reportsBytes v.reports ++ (v.ext ++ zeros (getPadding v.ext.length))))))))).drop headerLength
      = be32 v.ssrc ++ (be64 v.ntpTime ++ (be32 v.rtpTime ++ (be32 v.packetCount ++ (be32 v.octetCount ++
      (reportsBytes v.reports ++ (v.ext ++ zeros (getPadding v.ext.length))))))) := by
    have : headerLength = v.header.bytes.length := by simp
    rw [this, List.drop_left]
  rw [hdrop, hpad]
  simp only [zeros, List.replicate_zero, List.append_nil]
  -- the fixed fields
  rw [u32At_of_le (by slen), u64At_of_le (by slen), u32At_of_le (by slen), u32At_of_le (by slen), u32At_of_le (by slen)]
  repeat rw [bind_ok]
  have e1 := get32_at [] (be64 v.ntpTime ++ (be32 v.rtpTime ++ (be32 v.packetCount ++ (be32 v.octetCount ++ (reportsBytes v.reports ++ v.ext))))) v.ssrc 0 rfl h1
  have e2 := get64_at (be32 v.ssrc) (be32 v.rtpTime ++ (be32 v.packetCount ++ (be32 v.octetCount ++ (reportsBytes v.reports ++ v.ext)))) v.ntpTime 4 rfl h2
  have e3 := get32_at (be32 v.ssrc ++ be64 v.ntpTime) (be32 v.packetCount ++ (be32 v.octetCount ++ (reportsBytes v.reports ++ v.ext))) v.rtpTime 12 (by slen) h3
  have e4 := get32_at (be32 v.ssrc ++ be64 v.ntpTime ++ be32 v.rtpTime) (be32 v.octetCount ++ (reportsBytes v.reports ++ v.ext)) v.packetCount 16 (by slen) h4
  have e5 := get32_at (be32 v.ssrc ++ be64 v.ntpTime ++ be32 v.rtpTime ++ be32 v.packetCount) (reportsBytes v.reports ++ v.ext) v.octetCount 20 (by slen) h5
  simp only [List.nil_append, List.append_assoc] at e1 e2 e3 e4 e5
  simp only [srSSRCOffset, srNTPOffset, srRTPOffset, srPacketCountOffset, srOctetCountOffset, srReportOffset]
  rw [e1, e2, e3, e4, e5, hhc]
  have hloop := srDecReports_bytes v.reports (be32 v.ssrc ++ be64 v.ntpTime ++ be32 v.rtpTime ++ be32 v.packetCount ++ be32 v.octetCount) v.ext h7
  simp only [List.append_assoc] at hloop
  have h24 : (be32 v.ssrc ++ (be64 v.ntpTime ++ (be32 v.rtpTime ++ (be32 v.packetCount ++ be32 v.octetCount)))).length = 24 := by simp
  rw [h24] at hloop
  rw [hloop]
  repeat rw [bind_ok]
  have hext : (if 24 + v.reports.length * 24 < (be32 v.ssrc ++ (be64 v.ntpTime ++ (be32 v.rtpTime ++ (be32 v.packetCount ++ (be32 v.octetCount ++
      (reportsBytes v.reports ++ v.ext)))))).length
      then sliceFrom (be32 v.ssrc ++ (be64 v.ntpTime ++ (be32 v.rtpTime ++ (be32 v.packetCount ++ (be32 v.octetCount ++
      (reportsBytes v.reports ++ v.ext)))))) (24 + v.reports.length * 24) else pure []) = .ok v.ext := by
    have hd : (be32 v.ssrc ++ (be64 v.ntpTime ++ (be32 v.rtpTime ++ (be32 v.packetCount ++ (be32 v.octetCount ++
        (reportsBytes v.reports ++ v.ext)))))).drop (24 + v.reports.length * 24) = v.ext := by
      have : be32 v.ssrc ++ (be64 v.ntpTime ++ (be32 v.rtpTime ++ (be32 v.packetCount ++ (be32 v.octetCount ++ (reportsBytes v.reports ++ v.ext)))))
          = (be32 v.ssrc ++ be64 v.ntpTime ++ be32 v.rtpTime ++ be32 v.packetCount ++ be32 v.octetCount ++ reportsBytes v.reports) ++ v.ext := by
        simp
      rw [this]
      have hl : (be32 v.ssrc ++ be64 v.ntpTime ++ be32 v.rtpTime ++ be32 v.packetCount ++ be32 v.octetCount ++ reportsBytes v.reports).length
          = 24 + v.reports.length * 24 := by slen
      rw [← hl, List.drop_left]
    split
    · rw [sliceFrom_of_le (by slen), hd]
    · rename_i hn
      simp at hn
      have : v.ext = [] := List.eq_nil_of_length_eq_zero (by omega)
      simp [this]
  rw [hext]
  repeat rw [bind_ok]
  rw [if_neg (by slen)]
  simp

theorem ReceiverReport.enc_ok (v : ReceiverReport) (h : v.WF) :
    v.enc = .ok (v.header.bytes ++ be32 v.ssrc ++ reportsBytes v.reports ++ v.ext ++ zeros (getPadding v.ext.length)) := by
  obtain ⟨h1, h2, h3, h4⟩ := h
  unfold ReceiverReport.enc
  rw [encReports_ok _ h3]
  repeat rw [bind_ok]
  rw [if_neg (by slen)]
  rw [Header.enc_ok _ (by simp [ReceiverReport.header]; omega)]
  simp

/-- the RR report loop on the suffix -/
theorem rrDecReports_bytes (rs : List ReceptionReport) (post : Bytes) (n : Nat) (hn : n = rs.length) (h : ∀ r ∈ rs, r.WF) :
    rrDecReports n (reportsBytes rs ++ post) = .ok (rs, post) := by
  subst hn
  induction rs with
  | nil => simp [rrDecReports, reportsBytes]
  | cons r rs ih =>
    simp only [List.length_cons]
    rw [rrDecReports]
    rw [if_neg (by simp [reportsBytes_length])]
    have hb : reportsBytes (r :: rs) ++ post = r.bytes ++ (reportsBytes rs ++ post) := by simp [reportsBytes]
    rw [hb, ReceptionReport.dec_bytes r _ (h r (by slen))]
    repeat rw [bind_ok]
    have : (r.bytes ++ (reportsBytes rs ++ post)).drop receptionReportLength = reportsBytes rs ++ post := by
      have : receptionReportLength = r.bytes.length := by simp
      rw [this, List.drop_left]
    rw [this, ih (fun x hx => h x (by simp [hx]))]
    simp

/-- the documented quantisation of receiver-report profile extensions: zero padded to 32 bits -/
def ReceiverReport.quant (v : ReceiverReport) : ReceiverReport := { v with ext := v.ext ++ zeros (getPadding v.ext.length) }

theorem ReceiverReport.roundtrip (v : ReceiverReport) (h : v.WF) : (v.enc >>= ReceiverReport.dec) = .ok v.quant := by
  rw [ReceiverReport.enc_ok v h]
  repeat rw [bind_ok]
  obtain ⟨h1, h2, h3, h4⟩ := h
  simp only [u32] at h1
  have hp := getPadding_lt v.ext.length
  have hm := add_getPadding_mod v.ext.length
  have hhl : v.header.length < 65536 := by simp [ReceiverReport.header]; omega
  have hhc : v.header.count = v.reports.length := by simp [ReceiverReport.header]; omega
  unfold ReceiverReport.dec
  rw [if_neg (by slen)]
  simp only [List.append_assoc]
  have hht : v.header.type = TypeReceiverReport := rfl
  rw [Header.dec_bytes v.header _ (by omega) (by rw [hht]; decide) hhl]
  repeat rw [bind_ok]
  rw [if_neg (fun hne => hne hht)]
  rw [u32At_of_le (by slen)]
  repeat rw [bind_ok]
  have e1 := get32_at v.header.bytes (reportsBytes v.reports ++ (v.ext ++ zeros (getPadding v.ext.length))) v.ssrc 4 (by slen) h1
  simp only [rrSSRCOffset]
  rw [e1, hhc]
  have hdrop : (v.header.bytes ++ (be32 v.ssrc ++ (reportsBytes v.reports ++ (v.ext ++ zeros (getPadding v.ext.length))))).drop rrReportOffset
      = reportsBytes v.reports ++ (v.ext ++ zeros (getPadding v.ext.length)) := by
    have : v.header.bytes ++ (be32 v.ssrc ++ (reportsBytes v.reports ++ (v.ext ++ zeros (getPadding v.ext.length))))
        = (v.header.bytes ++ be32 v.ssrc) ++ (reportsBytes v.reports ++ (v.ext ++ zeros (getPadding v.ext.length))) := by simp
    rw [this]
    have hl : rrReportOffset = (v.header.bytes ++ be32 v.ssrc).length := by simp
    rw [hl, List.drop_left]
  rw [hdrop, rrDecReports_bytes v.reports _ _ rfl h3]
  repeat rw [bind_ok]
  rw [sliceFrom_of_le (by slen)]
  repeat rw [bind_ok]
  rw [if_neg (by slen)]
  have hdrop2 : (v.header.bytes ++ (be32 v.ssrc ++ (reportsBytes v.reports ++ (v.ext ++ zeros (getPadding v.ext.length))))).drop
      (rrReportOffset + v.reports.length * receptionReportLength) = v.ext ++ zeros (getPadding v.ext.length) := by
    have : v.header.bytes ++ (be32 v.ssrc ++ (reportsBytes v.reports ++ (v.ext ++ zeros (getPadding v.ext.length))))
        = (v.header.bytes ++ be32 v.ssrc ++ reportsBytes v.reports) ++ (v.ext ++ zeros (getPadding v.ext.length)) := by simp
    rw [this]
    have hl : rrReportOffset + v.reports.length * receptionReportLength = (v.header.bytes ++ be32 v.ssrc ++ reportsBytes v.reports).length := by
      slen
    rw [hl, List.drop_left]
  rw [hdrop2]
  simp [ReceiverReport.quant]

end Rtcp
