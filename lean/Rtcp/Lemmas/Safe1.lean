/-
  C01 helper lemmas, part 1: straight-line decoders and counted loops never panic or diverge.
-/
import Rtcp.Lemmas.Bytes
import Rtcp.Model.Datagram
namespace Rtcp
open Gen Out

theorem Header.dec_safe (b : Bytes) : (Header.dec b).Safe := by
  unfold Header.dec
  split
  · exact safe_err
  · rename_i h
    simp at h
    rw [u8At_of_lt (by omega), u8At_of_lt (by omega), u16At_of_le (by omega)]
    simp only [bind_ok]
    split
    · exact safe_err
    · exact safe_ok _

/-- a successful header decode implies at least 4 octets -/
theorem Header.dec_ok_length {b : Bytes} {h : Header} (e : Header.dec b = .ok h) : 4 ≤ b.length := by
  unfold Header.dec at e
  split at e
  · cases e
  · rename_i hh; simp at hh; exact hh

theorem Header.dec_ok_fields {b : Bytes} {h : Header} (e : Header.dec b = .ok h) :
    h.count < 32 ∧ h.type < 256 ∧ h.length < 65536 ∧ h.length = get16 b 2 ∧ h.type = get8 b 1 ∧ h.count = get8 b 0 % 32 := by
  have hl := Header.dec_ok_length e
  unfold Header.dec at e
  split at e
  · cases e
  · rw [u8At_of_lt (by omega), u8At_of_lt (by omega), u16At_of_le (by omega)] at e
    simp only [bind_ok] at e
    split at e
    · cases e
    · simp at e
      subst e
      have := get8_lt b 1; have := get16_lt b 2
      simp; omega

theorem ReceptionReport.dec_safe (b : Bytes) : (ReceptionReport.dec b).Safe := by
  unfold ReceptionReport.dec
  split
  · exact safe_err
  · rename_i h
    simp at h
    rw [u32At_of_le (by omega), u8At_of_lt (by simp; omega), u24At_of_le (by simp; omega), u32At_of_le (by simp; omega),
      u32At_of_le (by simp; omega), u32At_of_le (by simp; omega), u32At_of_le (by simp; omega)]
    exact safe_ok _

theorem PictureLossIndication.dec_safe (b : Bytes) : (PictureLossIndication.dec b).Safe := by
  unfold PictureLossIndication.dec
  split
  · exact safe_err
  · rename_i h
    simp at h
    apply safe_bind (Header.dec_safe b)
    intro hd _
    split
    · exact safe_err
    · rw [u32At_of_le (by simp; omega), u32At_of_le (by simp; omega)]
      exact safe_ok _

theorem RapidResync.dec_safe (b : Bytes) : (RapidResync.dec b).Safe := by
  unfold RapidResync.dec
  split
  · exact safe_err
  · rename_i h
    simp at h
    apply safe_bind (Header.dec_safe b)
    intro hd _
    split
    · exact safe_err
    · rw [u32At_of_le (by simp; omega), u32At_of_le (by simp; omega)]
      exact safe_ok _

/-! ### SenderReport -/

theorem srDecReports_safe (n : Nat) (body : Bytes) (off : Nat) : (srDecReports n body off).Safe := by
  induction n generalizing off with
  | zero => exact safe_ok _
  | succ n ih =>
    unfold srDecReports
    split
    · exact safe_err
    · rename_i h
      simp at h
      rw [slice_of_le (by omega) (by simp; omega)]
      simp only [bind_ok]
      apply safe_bind (ReceptionReport.dec_safe _)
      intro rr _
      apply safe_bind (ih _)
      intro r _
      exact safe_ok _

theorem srDecReports_off {n : Nat} {body : Bytes} {off : Nat} {rs : List ReceptionReport} {off' : Nat}
    (e : srDecReports n body off = .ok (rs, off')) (h0 : off ≤ body.length) : off' ≤ body.length := by
  induction n generalizing off rs off' with
  | zero => simp [srDecReports] at e; omega
  | succ n ih =>
    unfold srDecReports at e
    split at e
    · cases e
    · rename_i h
      simp at h
      rw [slice_of_le (by omega) (by simp; omega)] at e
      simp only [bind_ok] at e
      obtain ⟨rr, _, e⟩ := bind_eq_ok.mp e
      obtain ⟨⟨rs', o'⟩, hs, e⟩ := bind_eq_ok.mp e
      simp at e
      have := ih hs (by simp; omega)
      omega

theorem SenderReport.dec_safe (b : Bytes) : (SenderReport.dec b).Safe := by
  unfold SenderReport.dec
  split
  · exact safe_err
  · rename_i h
    simp at h
    apply safe_bind (Header.dec_safe b)
    intro hd _
    split
    · exact safe_err
    · rw [sliceFrom_of_le (by simp; omega)]
      simp only [bind_ok]
      have hl : (b.drop headerLength).length = b.length - 4 := by simp
      rw [u32At_of_le (by simp; omega), u64At_of_le (by simp; omega), u32At_of_le (by simp; omega),
        u32At_of_le (by simp; omega), u32At_of_le (by simp; omega)]
      simp only [bind_ok]
      apply safe_bind (srDecReports_safe _ _ _)
      intro p hp
      obtain ⟨reps, off⟩ := p
      have hoff := srDecReports_off hp (by simp; omega)
      apply safe_bind
      · split
        · rw [sliceFrom_of_le hoff]; exact safe_ok _
        · exact safe_ok _
      · intro ext _
        split
        · exact safe_err
        · exact safe_ok _

/-! ### ReceiverReport -/

theorem rrDecReports_safe (n : Nat) (rest : Bytes) : (rrDecReports n rest).Safe := by
  induction n generalizing rest with
  | zero => exact safe_ok _
  | succ n ih =>
    unfold rrDecReports
    split
    · exact safe_ok _
    · apply safe_bind (ReceptionReport.dec_safe _)
      intro rr _
      apply safe_bind (ih _)
      intro r _
      exact safe_ok _

theorem ReceptionReport.dec_ok_length {b : Bytes} {r : ReceptionReport} (e : ReceptionReport.dec b = .ok r) : 24 ≤ b.length := by
  unfold ReceptionReport.dec at e
  split at e
  · cases e
  · rename_i h; simp at h; exact h

/-- every report decoded by the RR loop consumed 24 octets of the suffix -/
theorem rrDecReports_len {n : Nat} {rest : Bytes} {rs : List ReceptionReport} {rest' : Bytes}
    (e : rrDecReports n rest = .ok (rs, rest')) : rs.length * 24 ≤ rest.length := by
  induction n generalizing rest rs rest' with
  | zero => simp [rrDecReports] at e; simp [e.1]
  | succ n ih =>
    unfold rrDecReports at e
    split at e
    · simp at e; simp [e.1]
    · obtain ⟨rr, hr, e⟩ := bind_eq_ok.mp e
      obtain ⟨⟨rs', o'⟩, hs, e⟩ := bind_eq_ok.mp e
      have hl := ReceptionReport.dec_ok_length hr
      simp at e
      have := ih hs
      simp at this
      rw [← e.1]; simp; omega

theorem ReceiverReport.dec_safe (b : Bytes) : (ReceiverReport.dec b).Safe := by
  unfold ReceiverReport.dec
  split
  · exact safe_err
  · rename_i h
    simp at h
    apply safe_bind (Header.dec_safe b)
    intro hd _
    split
    · exact safe_err
    · rw [u32At_of_le (by simp; omega)]
      simp only [bind_ok]
      apply safe_bind (rrDecReports_safe _ _)
      intro p hp
      obtain ⟨reps, rest⟩ := p
      have hlen := rrDecReports_len hp
      simp at hlen
      rw [sliceFrom_of_le (by simp; omega)]
      simp only [bind_ok]
      split
      · exact safe_err
      · exact safe_ok _

end Rtcp
