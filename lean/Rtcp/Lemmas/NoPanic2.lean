/-
  C09 helper lemmas, part 2: Marshal of what the TWCC and XR decoders return never panics.
-/
import Rtcp.Lemmas.NoPanic
namespace Rtcp
open Gen Out
set_option linter.unusedSimpArgs false
set_option linter.unusedVariables false

theorem svSetSymbols_safe (nb i : Nat) (ss : List Nat) (d : Nat) : (svSetSymbols nb i ss d).Safe := by
  induction ss generalizing i d with
  | nil => exact safe_ok _
  | cons s ss ih =>
    unfold svSetSymbols
    apply safe_bind (setNBits_safe _ _ _ _); intro _ _
    exact ih _ _

theorem TwccChunk.enc_safe (c : TwccChunk) : c.enc.Safe := by
  cases c with
  | rl t s r =>
    unfold TwccChunk.enc
    apply safe_bind (setNBits_safe _ _ _ _); intro _ _
    apply safe_bind (setNBits_safe _ _ _ _); intro _ _
    apply safe_bind (setNBits_safe _ _ _ _); intro _ _
    exact safe_ok _
  | sv t ss syms =>
    unfold TwccChunk.enc
    apply safe_bind (setNBits_safe _ _ _ _); intro _ _
    apply safe_bind (setNBits_safe _ _ _ _); intro _ _
    apply safe_bind (svSetSymbols_safe _ _ _ _); intro _ _
    exact safe_ok _

theorem encTwccChunks_safe (cs : List TwccChunk) : (encTwccChunks cs).Safe := by
  induction cs with
  | nil => exact safe_ok _
  | cons c cs ih =>
    unfold encTwccChunks
    apply safe_bind (TwccChunk.enc_safe c); intro _ _
    apply safe_bind ih; intro _ _
    exact safe_ok _

theorem RecvDelta.enc_safe (d : RecvDelta) : d.enc.Safe := by
  unfold RecvDelta.enc
  dsimp only
  apply safe_ite
  · intro _; exact safe_ok _
  · intro _
    apply safe_ite
    · intro _; exact safe_ok _
    · intro _; exact safe_err

theorem copyInto_safe (buf : Bytes) (off : Nat) (data : Bytes) (h : off ≤ buf.length) :
    ∃ r, copyInto buf off data = .ok r ∧ r.length = buf.length := by
  unfold copyInto
  rw [if_pos h]
  refine ⟨_, rfl, ?_⟩
  simp
  omega

theorem writeDeltas_safe (ds : List RecvDelta) (payload : Bytes) (pos : Nat)
    (h : pos + (ds.map deltaAdvance).sum ≤ payload.length) : (writeDeltas ds payload pos).Safe := by
  induction ds generalizing payload pos with
  | nil => exact safe_ok _
  | cons d ds ih =>
    unfold writeDeltas
    apply safe_bind (RecvDelta.enc_safe d); intro b _
    simp only [List.map_cons, List.sum_cons] at h
    obtain ⟨r, hr, hl⟩ := copyInto_safe payload pos b (by omega)
    rw [hr, bind_ok]
    apply ih
    rw [hl]; omega

theorem specDeltas_types (ts : List Nat) (b : Bytes) (p : Nat) : ∀ d ∈ C13.specDeltas ts b p, d.type = 1 ∨ d.type = 2 := by
  induction ts generalizing p with
  | nil => simp [C13.specDeltas]
  | cons t ts ih =>
    intro d hd
    simp only [C13.specDeltas] at hd
    split at hd
    · rcases List.mem_cons.mp hd with h | h
      · rw [h]; left; rfl
      · exact ih _ d h
    · rcases List.mem_cons.mp hd with h | h
      · rw [h]; right; rfl
      · exact ih _ d h

theorem specDeltas_sizes (ts : List Nat) (b : Bytes) (p : Nat) :
    ((C13.specDeltas ts b p).map deltaSize).sum = C13.deltasSize ts ∧
    ((C13.specDeltas ts b p).map deltaAdvance).sum = C13.deltasSize ts := by
  induction ts generalizing p with
  | nil => simp [C13.specDeltas, C13.deltasSize]
  | cons t ts ih =>
    simp only [C13.specDeltas, C13.deltasSize, List.map_cons, List.sum_cons]
    split
    · rename_i h
      have := ih (p + 1)
      simp only [C13.deltasSize] at this
      simp [deltaSize, deltaAdvance, h, this.1, this.2]
    · rename_i h
      have := ih (p + 2)
      simp only [C13.deltasSize] at this
      simp [deltaSize, deltaAdvance, h, this.1, this.2]

/-- **re-encoding a decoded TWCC packet never panics** -/
theorem Twcc.enc_of_decoded_safe (b : Bytes) (t : Twcc) (h : Twcc.dec b = .ok t) : t.enc.Safe := by
  have hc := C13.accepted_consistent b t h
  dsimp only at hc
  obtain ⟨_, hds, hin, htot⟩ := hc
  have htl : 4 * ((t.header.length + 1) % 65536) % 65536 ≤ 65532 := by omega
  generalize 4 * ((t.header.length + 1) % 65536) % 65536 = total at hin htot htl
  have hsz := specDeltas_sizes (C13.announced t.statusCount 0 t.chunks) b (20 + 2 * t.chunks.length)
  rw [← hds] at hsz
  generalize C13.deltasSize (C13.announced t.statusCount 0 t.chunks) = D at hin hsz
  have hpl : t.packetLen = 20 + 2 * t.chunks.length + D := by
    unfold Twcc.packetLen
    rw [hsz.1]
    simp only [headerLength, packetChunkOffset]
    omega
  have hms : t.packetLen ≤ t.marshalSize ∧ t.marshalSize ≤ t.packetLen + 3 := by
    unfold Twcc.marshalSize
    dsimp only
    split <;> omega
  unfold Twcc.enc
  apply safe_bind (Header.enc_safe _); intro hb _
  dsimp only
  rw [if_neg (by simp only [headerLength]; omega), if_neg (by simp only [headerLength]; omega)]
  apply safe_bind (encTwccChunks_safe _); intro cs _
  have hp0 : (be32 t.sender ++ be32 t.media ++ be16 t.baseSeq ++ be16 t.statusCount ++
      be32 (appendNBitsToUint32 (appendNBitsToUint32 0 24 t.refTime) 8 t.fbCount) ++ zeros (t.marshalSize - headerLength - 16)).length
      = t.marshalSize - headerLength := by
    simp only [List.length_append, be32_length, be16_length, zeros_length, headerLength]; omega
  apply safe_bind
  · apply safe_ite
    · intro hbad; exfalso; simp only [headerLength] at hbad; omega
    · intro _
      obtain ⟨r, hr, _⟩ := copyInto_safe _ 16 cs (by rw [hp0]; simp only [headerLength]; omega)
      rw [hr]; exact safe_ok _
  · intro p1 hp1
    have hp1l : p1.length = t.marshalSize - headerLength := by
      split at hp1
      · cases hp1
      · obtain ⟨r, hr, hl⟩ := copyInto_safe (be32 t.sender ++ be32 t.media ++ be16 t.baseSeq ++ be16 t.statusCount ++
          be32 (appendNBitsToUint32 (appendNBitsToUint32 0 24 t.refTime) 8 t.fbCount) ++ zeros (t.marshalSize - headerLength - 16)) 16 cs
          (by rw [hp0]; simp only [headerLength]; omega)
        rw [hr] at hp1
        simp at hp1
        rw [← hp1, hl, hp0]
    apply safe_bind (writeDeltas_safe _ _ _ (by rw [hp1l, hsz.2]; simp only [headerLength]; omega)); intro p2 _
    apply safe_bind
    · apply safe_ite
      · intro _
        apply safe_ite
        · intro hz; exfalso; simp only [headerLength] at hz; omega
        · intro _; exact safe_ok _
      · intro _; exact safe_ok _
    · intro _ _; exact safe_ok _

/-! ### XR: what the reader returns has the shape the writer expects -/

theorem writeElem_safe_of_len (ws vs : List Nat) (h : vs.length = ws.length) : (writeElem ws vs).Safe := by
  induction ws generalizing vs with
  | nil => cases vs <;> simp at h; exact safe_ok _
  | cons w ws ih =>
    cases vs with
    | nil => simp at h
    | cons v vs =>
      unfold writeElem
      apply safe_bind (ih vs (by simpa using h)); intro _ _
      exact safe_ok _

theorem readElem_len {ws : List Nat} {b : Bytes} {vs : List Nat} {rest : Bytes} (e : readElem ws b = .ok (vs, rest)) :
    vs.length = ws.length := by
  induction ws generalizing b vs rest with
  | nil => simp [readElem] at e; simp [e.1]
  | cons w ws ih =>
    unfold readElem at e
    split at e
    · cases e
    · obtain ⟨⟨vs', r'⟩, hr, e⟩ := bind_eq_ok.mp e
      simp at e
      rw [← e.1]; simp [ih hr]

theorem readElems_len {gas : Nat} {ws : List Nat} {b : Bytes} {es : List (List Nat)} (e : readElems gas ws b = .ok es) :
    ∀ x ∈ es, x.length = ws.length := by
  induction gas generalizing b es with
  | zero => simp [readElems] at e
  | succ g ih =>
    unfold readElems at e
    split at e
    · simp at e; rw [e]; simp
    · obtain ⟨⟨x, rest⟩, hx, e⟩ := bind_eq_ok.mp e
      obtain ⟨es', hes, e⟩ := bind_eq_ok.mp e
      simp at e
      rw [← e]
      intro y hy
      rcases List.mem_cons.mp hy with h | h
      · rw [h]; exact readElem_len hx
      · exact ih hes y h

theorem writeElems_safe_of_len (ws : List Nat) (es : List (List Nat)) (h : ∀ x ∈ es, x.length = ws.length) : (writeElems ws es).Safe := by
  induction es with
  | nil => exact safe_ok _
  | cons e es ih =>
    unfold writeElems
    apply safe_bind (writeElem_safe_of_len ws e (h e (by simp))); intro _ _
    apply safe_bind (ih (fun x hx => h x (by simp [hx]))); intro _ _
    exact safe_ok _

/-- a trailing slice, if any, is the last item -/
def sliceLast : List Item → Bool
  | [] => true
  | [.sliceOf _ _] => true
  | .sliceOf _ _ :: _ :: _ => false
  | _ :: is => sliceLast is

theorem gen_layouts_sliceLast : ∀ k, sliceLast (layoutOf k).items = true := by
  intro k; unfold layoutOf; split <;> decide

/-- values read with a layout can be written with it, whatever the scalar *values* are (e.g. after `setup`) -/
theorem writeItems_safe_of_read (items : List Item) (b : Bytes) (vs : List Nat) (es : List (List Nat)) (r : Bytes)
    (hsl : sliceLast items = true)
    (h : readItems items b = .ok (vs, es, r)) (vs' : List Nat) (hl : vs'.length = vs.length) :
    (writeItems items vs' es).Safe := by
  induction items generalizing b vs es r vs' with
  | nil => unfold writeItems; exact safe_ok _
  | cons it items ih =>
    cases it with
    | scalar n w =>
      unfold readItems at h
      split at h
      · cases h
      · obtain ⟨⟨vs1, es1, r1⟩, hr, h⟩ := bind_eq_ok.mp h
        simp at h
        obtain ⟨h1, h2, h3⟩ := h
        cases vs' with
        | nil => rw [← h1] at hl; simp at hl
        | cons v' vs'' =>
          unfold writeItems
          rw [← h2]
          apply safe_bind (ih _ _ _ _ (by simpa [sliceLast] using hsl) hr vs'' (by rw [← h1] at hl; simpa using hl)); intro _ _
          exact safe_ok _
    | skip w =>
      unfold readItems at h
      split at h
      · cases h
      · unfold writeItems
        apply safe_bind (ih _ _ _ _ (by simpa [sliceLast] using hsl) h vs' hl); intro _ _
        exact safe_ok _
    | omitted n =>
      unfold readItems at h
      unfold writeItems
      exact ih _ _ _ _ (by simpa [sliceLast] using hsl) h vs' hl
    | sliceOf n ws =>
      unfold readItems at h
      obtain ⟨es1, he1, h⟩ := bind_eq_ok.mp h
      obtain ⟨⟨vs2, es2, r2⟩, hr2, h⟩ := bind_eq_ok.mp h
      simp at h
      obtain ⟨h1, h2, h3⟩ := h
      cases items with
      | nil =>
        simp [readItems] at hr2
        obtain ⟨e1, e2, e3⟩ := hr2
        subst e1; subst e2
        simp at h1 h2
        unfold writeItems
        rw [← h2]
        apply safe_bind (writeElems_safe_of_len ws es1 (readElems_len he1)); intro _ _
        unfold writeItems
        exact safe_ok _
      | cons i2 is2 => simp [sliceLast] at hsl
    | blocks n => unfold readItems at h; cases h
    | bad n => unfold readItems at h; cases h

end Rtcp
