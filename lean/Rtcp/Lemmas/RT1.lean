/-
  C02 helper lemmas, part 1: header, PLI, RRR, reception reports, SR, RR round trips.
-/
import Rtcp.Lemmas.Safe6
import Rtcp.Model.WF
namespace Rtcp
open Gen Out
set_option linter.unusedSimpArgs false
set_option linter.unusedVariables false

/-- the four header octets -/
def Header.bytes (h : Header) : Bytes := [byte (128 + (if h.padding then 32 else 0) + h.count), byte h.type] ++ be16 h.length

theorem Header.enc_ok (h : Header) (hc : h.count ≤ 31) : h.enc = .ok h.bytes := by
  simp [Header.enc, Header.bytes, show ¬ h.count > 31 by omega]

@[simp] theorem Header.bytes_length (h : Header) : h.bytes.length = 4 := by simp [Header.bytes]

/-- decoding any buffer that starts with the octets of a header with in-range fields gives that header back -/
theorem Header.dec_bytes (h : Header) (post : Bytes) (hc : h.count ≤ 31) (ht : h.type < 256) (hl : h.length < 65536) :
    Header.dec (h.bytes ++ post) = .ok h := by
  obtain ⟨p, c, t, l⟩ := h
  simp only at hc ht hl
  unfold Header.dec
  simp [Header.bytes, u8At, u16At, get8, get16, be16, byte]
  cases p <;> simp <;> (rw [if_neg (by omega), if_pos (by omega)]; simp; omega)

/-- close `if`s whose conditions are linear arithmetic, then finish -/
macro "ifs_omega" : tactic => `(tactic| ((repeat (first | rw [if_pos (by omega)] | rw [if_neg (by omega)])); (try simp); (try omega)))

/-- side conditions about list lengths -/
macro "slen" : tactic => `(tactic| first | (simp; done) | (simp; omega) | omega | (simp at *; omega))

theorem get8_hdr0 (h : Header) (post : Bytes) : get8 (h.bytes ++ post) 0 = (128 + (if h.padding then 32 else 0) + h.count) % 256 := by
  simp [Header.bytes, get8, byte]
theorem get8_hdr1 (h : Header) (post : Bytes) : get8 (h.bytes ++ post) 1 = h.type % 256 := by
  simp [Header.bytes, get8, byte]

/-! ### reading a big-endian field back from `pre ++ beN n ++ post` at offset `|pre|` -/

theorem get32_at (pre post : Bytes) (n i : Nat) (hi : i = pre.length) (hn : n < 4294967296) :
    get32 (pre ++ (be32 n ++ post)) i = n := by
  subst hi
  have := get32_shift pre (be32 n ++ post) 0
  simp only [Nat.add_zero] at this
  rw [this, get32_be32 n post hn]

theorem get16_at (pre post : Bytes) (n i : Nat) (hi : i = pre.length) (hn : n < 65536) :
    get16 (pre ++ (be16 n ++ post)) i = n := by
  subst hi
  have := get16_shift pre (be16 n ++ post) 0
  simp only [Nat.add_zero] at this
  rw [this, get16_be16 n post hn]

theorem get64_at (pre post : Bytes) (n i : Nat) (hi : i = pre.length) (hn : n < 18446744073709551616) :
    get64 (pre ++ (be64 n ++ post)) i = n := by
  subst hi
  have := get64_shift pre (be64 n ++ post) 0
  simp only [Nat.add_zero] at this
  rw [this, get64_be64 n post hn]

theorem get8_at (pre post : Bytes) (x : UInt8) (i : Nat) (hi : i = pre.length) :
    get8 (pre ++ (x :: post)) i = x.toNat := by
  subst hi
  have := get8_shift pre (x :: post) 0
  simp only [Nat.add_zero] at this
  rw [this]; simp

/-! ### PLI / RRR -/

theorem PictureLossIndication.roundtrip (p : PictureLossIndication) (h : p.WF) :
    (p.enc >>= PictureLossIndication.dec) = .ok p := by
  obtain ⟨s, m⟩ := p
  obtain ⟨h1, h2⟩ := h
  simp only [u32] at h1 h2
  simp [PictureLossIndication.enc, PictureLossIndication.header, Header.enc, PictureLossIndication.dec, Header.dec,
    u8At, u16At, u32At, get8, get16, get32, be16, be32, byte]
  omega

theorem RapidResync.roundtrip (p : RapidResync) (h : p.WF) : (p.enc >>= RapidResync.dec) = .ok p := by
  obtain ⟨s, m⟩ := p
  obtain ⟨h1, h2⟩ := h
  simp only [u32] at h1 h2
  simp [RapidResync.enc, RapidResync.header, Header.enc, RapidResync.dec, Header.dec,
    u8At, u16At, u32At, get8, get16, get32, be16, be32, byte]
  omega

/-! ### reception reports -/

def ReceptionReport.bytes (r : ReceptionReport) : Bytes :=
  be32 r.ssrc ++ [byte r.fractionLost] ++ be24 r.totalLost ++ be32 r.lastSeq ++ be32 r.jitter ++ be32 r.lastSR ++ be32 r.delay

@[simp] theorem ReceptionReport.bytes_length (r : ReceptionReport) : r.bytes.length = 24 := by simp [ReceptionReport.bytes]

theorem ReceptionReport.enc_ok (r : ReceptionReport) (h : r.WF) : r.enc = .ok r.bytes := by
  simp [ReceptionReport.enc, ReceptionReport.bytes, show ¬ r.totalLost ≥ 16777216 from by have := h.2.2.1; omega]

theorem ReceptionReport.dec_bytes (r : ReceptionReport) (post : Bytes) (h : r.WF) :
    ReceptionReport.dec (r.bytes ++ post) = .ok r := by
  obtain ⟨a, b, c, d, e, f, g⟩ := r
  obtain ⟨h1, h2, h3, h4, h5, h6, h7⟩ := h
  simp only [u32, u8] at h1 h2 h3 h4 h5 h6 h7
  simp [ReceptionReport.dec, ReceptionReport.bytes, u32At, u8At, u24At, get32, get24, get8, be32, be24, byte]
  ifs_omega

def reportsBytes (rs : List ReceptionReport) : Bytes := (rs.map ReceptionReport.bytes).flatten

@[simp] theorem reportsBytes_length (rs : List ReceptionReport) : (reportsBytes rs).length = rs.length * 24 := by
  induction rs with
  | nil => rfl
  | cons r rs ih => simp [reportsBytes] at ih ⊢; omega

theorem encReports_ok (rs : List ReceptionReport) (h : ∀ r ∈ rs, r.WF) : encReports rs = .ok (reportsBytes rs) := by
  induction rs with
  | nil => rfl
  | cons r rs ih =>
    simp only [encReports, ReceptionReport.enc_ok r (h r (by simp)), bind_ok, ih (fun x hx => h x (by simp [hx]))]
    simp [reportsBytes]

theorem take_drop_mid (pre mid post : Bytes) : ((pre ++ (mid ++ post)).take (pre.length + mid.length)).drop pre.length = mid := by
  rw [← List.append_assoc, List.take_append_of_le_length (by simp), List.take_of_length_le (by simp), List.drop_left]

/-- the SR report loop reads back exactly the reports that were written at `off = |pre|` -/
theorem srDecReports_bytes (rs : List ReceptionReport) (pre post : Bytes) (h : ∀ r ∈ rs, r.WF) :
    srDecReports rs.length (pre ++ (reportsBytes rs ++ post)) pre.length = .ok (rs, pre.length + rs.length * 24) := by
  induction rs generalizing pre with
  | nil => simp [srDecReports]
  | cons r rs ih =>
    simp only [List.length_cons]
    rw [srDecReports]
    have hlen : ¬ pre.length + receptionReportLength > (pre ++ (reportsBytes (r :: rs) ++ post)).length := by
      simp [reportsBytes_length]; omega
    rw [if_neg hlen]
    rw [slice_of_le (by omega) (by simp [reportsBytes_length]; omega)]
    simp only [bind_ok]
    have hsl : ((pre ++ (reportsBytes (r :: rs) ++ post)).take (pre.length + receptionReportLength)).drop pre.length = r.bytes := by
      have : reportsBytes (r :: rs) ++ post = r.bytes ++ (reportsBytes rs ++ post) := by simp [reportsBytes]
      rw [this]
      have := take_drop_mid pre r.bytes (reportsBytes rs ++ post)
      simpa using this
    rw [hsl]
    have hd := ReceptionReport.dec_bytes r [] (h r (by simp))
    simp only [List.append_nil] at hd
    rw [hd]
    simp only [bind_ok]
    have hre : pre ++ (reportsBytes (r :: rs) ++ post) = (pre ++ r.bytes) ++ (reportsBytes rs ++ post) := by
      simp [reportsBytes]
    have ih' := ih (pre ++ r.bytes) (fun x hx => h x (by simp [hx]))
    rw [hre]
    have hl : pre.length + receptionReportLength = (pre ++ r.bytes).length := by simp
    rw [hl, ih']
    simp; omega

end Rtcp
