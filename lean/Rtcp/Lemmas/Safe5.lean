/-
  C01 helper lemmas, part 5: TWCC, XR, RawPacket, the datagram loop, CompoundPacket.
-/
import Rtcp.Lemmas.Safe4
namespace Rtcp
open Gen Out

/-! ### TWCC -/

theorem rlChunkDec_safe (b : Bytes) : (rlChunkDec b).Safe := by
  unfold rlChunkDec
  apply safe_err_ite; intro h
  apply safe_u8At (by lomega); intro _
  apply safe_u8At (by lomega); intro _
  exact safe_ok _

theorem svChunkDec_safe (b : Bytes) : (svChunkDec b).Safe := by
  unfold svChunkDec
  apply safe_err_ite; intro h
  apply safe_u8At (by lomega); intro _
  apply safe_u8At (by lomega); intro _
  apply safe_ite
  · intro _; exact safe_ok _
  · intro _
    apply safe_ite
    · intro _; exact safe_ok _
    · intro _; exact safe_ok _

theorem RecvDelta.dec_safe (b : Bytes) : (RecvDelta.dec b).Safe := by
  unfold RecvDelta.dec
  apply safe_err_ite; intro h
  apply safe_ite
  · intro h1
    apply safe_u8At (by lomega); intro _
    exact safe_ok _
  · intro h1
    apply safe_u16At (by lomega); intro _
    exact safe_ok _

/-- the status-chunk loop neither panics nor runs out of gas, and leaves `pos ≤ total` -/
theorem twccChunkLoop_safe (gas : Nat) (b : Bytes) (total count pos processed : Nat)
    (ht : total ≤ b.length) (ht2 : total ≤ 65532) (hp : pos ≤ total) (hg : (total - pos) / 2 < gas) :
    (twccChunkLoop gas b total count pos processed).2.2.2 ≠ .panic ∧
    (twccChunkLoop gas b total count pos processed).2.2.2 ≠ .diverge ∧
    (twccChunkLoop gas b total count pos processed).2.2.1 ≤ total := by
  induction gas generalizing pos processed with
  | zero => omega
  | succ g ih =>
    unfold twccChunkLoop
    split
    · split
      · simp; exact hp
      · rename_i h1 h2
        have hmod : (pos + packetStatusChunkLength) % 65536 = pos + 2 := by unfold_consts; omega
        rw [hmod] at h2
        rw [u8At_of_lt (by omega), slice_of_le (by omega) (by omega)]
        dsimp only
        have hr : ∀ c, (if getNBitsFromByte (get8 b pos) 0 1 = TypeTCCRunLengthChunk then rlChunkDec c else svChunkDec c).Safe := by
          intro c; split
          · exact rlChunkDec_safe c
          · exact svChunkDec_safe c
        generalize hgen : (if getNBitsFromByte (get8 b pos) 0 1 = TypeTCCRunLengthChunk
            then rlChunkDec (List.drop pos (List.take (pos + 2) b)) else svChunkDec (List.drop pos (List.take (pos + 2) b))) = r
        have hrs := hr (List.drop pos (List.take (pos + 2) b))
        rw [hgen] at hrs
        cases r with
        | ok c =>
          dsimp only
          rw [hmod]
          have := ih (pos + 2) (chunkDeltas count processed c).2 (by omega) (by omega)
          exact this
        | err => simp [Out.status]; exact hp
        | panic => exact absurd rfl hrs.1
        | diverge => exact absurd rfl hrs.2
    · simp; exact hp

theorem twccDeltaLoop_safe (ds : List RecvDelta) (b : Bytes) (total pos : Nat)
    (ht : total ≤ b.length) (ht2 : total ≤ 65532) (hp : pos ≤ total) :
    (twccDeltaLoop ds b total pos).2 ≠ .panic ∧ (twccDeltaLoop ds b total pos).2 ≠ .diverge := by
  induction ds generalizing pos with
  | nil => simp [twccDeltaLoop]
  | cons d ds ih =>
    unfold twccDeltaLoop
    split
    · split
      · simp
      · rename_i h1 h2
        have hmod : (pos + 1) % 65536 = pos + 1 := by omega
        rw [hmod] at h2
        rw [slice_of_le (by omega) (by omega)]
        simp only [bind_ok]
        have hs := RecvDelta.dec_safe (List.drop pos (List.take (pos + 1) b))
        cases hd : RecvDelta.dec (List.drop pos (List.take (pos + 1) b)) with
        | ok d' => dsimp only; rw [hmod]; exact ih _ (by omega)
        | err => simp [Out.status]
        | panic => exact absurd hd hs.1
        | diverge => exact absurd hd hs.2
    · split
      · split
        · simp
        · rename_i h0 h1 h2
          have hmod : (pos + 2) % 65536 = pos + 2 := by omega
          rw [hmod] at h2
          rw [slice_of_le (by omega) (by omega)]
          simp only [bind_ok]
          have hs := RecvDelta.dec_safe (List.drop pos (List.take (pos + 2) b))
          cases hd : RecvDelta.dec (List.drop pos (List.take (pos + 2) b)) with
          | ok d' => dsimp only; rw [hmod]; exact ih _ (by omega)
          | err => simp [Out.status]
          | panic => exact absurd hd hs.1
          | diverge => exact absurd hd hs.2
      · dsimp only
        exact ih _ hp

theorem Twcc.decP_safe (b : Bytes) : (Twcc.decP b).2 ≠ .panic ∧ (Twcc.decP b).2 ≠ .diverge := by
  unfold Twcc.decP
  split
  · simp
  · rename_i hlen
    have hh := Header.dec_safe b
    split
    · rename_i h heq
      dsimp only
      split
      · simp
      · split
        · simp
        · split
          · simp
          · rename_i h1 h2 h3
            rw [u32At_of_le (by lomega), u32At_of_le (by lomega), u16At_of_le (by lomega), u16At_of_le (by lomega),
              u24At_of_le (by lomega), u8At_of_lt (by lomega)]
            dsimp only
            have hl := twccChunkLoop_safe (b.length + 1) b (4 * ((h.length + 1) % 65536) % 65536) (get16 b (headerLength + packetStatusCountOffset))
              (headerLength + packetChunkOffset) 0 (by lomega) (by lomega) (by lomega) (by lomega)
            generalize twccChunkLoop (b.length + 1) b (4 * ((h.length + 1) % 65536) % 65536) (get16 b (headerLength + packetStatusCountOffset))
              (headerLength + packetChunkOffset) 0 = r at hl
            obtain ⟨cs, ds, pos, st⟩ := r
            dsimp only at hl ⊢
            cases st with
            | ok =>
              dsimp only
              exact twccDeltaLoop_safe ds b _ pos (by lomega) (by lomega) hl.2.2
            | err => simp
            | panic => exact absurd rfl hl.1
            | diverge => exact absurd rfl hl.2.1
    · rename_i o hne
      exact status_ne_of_safe hh

theorem Twcc.dec_safe (b : Bytes) : (Twcc.dec b).Safe := by
  unfold Twcc.dec
  have := Twcc.decP_safe b
  exact Status.toOut_safe this.1 this.2

end Rtcp
