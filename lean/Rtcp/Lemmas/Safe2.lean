/-
  C01 helper lemmas, part 2: SDES, BYE, APP, NACK, SLI, FIR.
-/
import Rtcp.Lemmas.Safe1
namespace Rtcp
open Gen Out

/-! ### SDES -/

theorem SDESItem.dec_safe (b : Bytes) : (SDESItem.dec b).Safe := by
  unfold SDESItem.dec
  split
  · exact safe_err
  · rename_i h
    simp at h
    rw [u8At_of_lt (by lomega), u8At_of_lt (by lomega)]
    simp only [bind_ok]
    split
    · exact safe_err
    · rename_i h2
      simp at h2
      rw [slice_of_le (by simp) (by lomega)]
      exact safe_ok _

theorem SDESItem.dec_ok_len {b : Bytes} {it : SDESItem} (e : SDESItem.dec b = .ok it) : 2 ≤ it.len ∧ it.len ≤ b.length := by
  unfold SDESItem.dec at e
  split at e
  · cases e
  · rename_i h
    simp at h
    rw [u8At_of_lt (by lomega), u8At_of_lt (by lomega)] at e
    simp only [bind_ok] at e
    split at e
    · cases e
    · rename_i h2
      simp at h2
      rw [slice_of_le (by simp) (by lomega)] at e
      simp at e
      subst e
      simp [SDESItem.len]
      omega

/-- the item loop: with gas above the suffix length it neither panics nor runs out of gas -/
theorem decItemsP_safe (gas : Nat) (rest : Bytes) (hg : rest.length < gas) :
    (decItemsP gas rest).2 ≠ .panic ∧ (decItemsP gas rest).2 ≠ .diverge := by
  induction gas generalizing rest with
  | zero => omega
  | succ g ih =>
    unfold decItemsP
    split
    · simp
    · split
      · simp
      · rename_i h1 h2
        have hs := SDESItem.dec_safe rest
        cases hd : SDESItem.dec rest with
        | ok it =>
          simp only
          have hl := SDESItem.dec_ok_len hd
          have := ih (rest.drop it.len) (by lomega)
          exact this
        | err => simp
        | panic => exact absurd hd hs.1
        | diverge => exact absurd hd hs.2

theorem SDESChunk.decP_safe (b : Bytes) : (SDESChunk.decP b).2 ≠ .panic ∧ (SDESChunk.decP b).2 ≠ .diverge := by
  unfold SDESChunk.decP
  split
  · simp
  · rename_i h
    simp at h
    rw [u32At_of_le (by lomega)]
    simp only
    exact decItemsP_safe _ _ (by lomega)

theorem SDESChunk.dec_safe (b : Bytes) : (SDESChunk.dec b).Safe := by
  unfold SDESChunk.dec
  have := SDESChunk.decP_safe b
  exact Status.toOut_safe this.1 this.2

theorem SDESChunk.len_pos (c : SDESChunk) : 4 ≤ c.len := by
  unfold SDESChunk.len; simp; omega

theorem decChunksP_safe (gas : Nat) (rest : Bytes) (hg : rest.length < gas) :
    (decChunksP gas rest).2 ≠ .panic ∧ (decChunksP gas rest).2 ≠ .diverge := by
  induction gas generalizing rest with
  | zero => omega
  | succ g ih =>
    unfold decChunksP
    split
    · simp
    · rename_i h1
      have hs := SDESChunk.decP_safe rest
      split
      · rename_i c heq
        have hl := SDESChunk.len_pos c
        exact ih (rest.drop c.len) (by lomega)
      · rename_i x st hne heq
        rw [heq] at hs
        exact hs

theorem SourceDescription.decP_safe (b : Bytes) :
    (SourceDescription.decP b).2 ≠ .panic ∧ (SourceDescription.decP b).2 ≠ .diverge := by
  unfold SourceDescription.decP
  have hh := Header.dec_safe b
  split
  · rename_i h heq
    split
    · simp
    · have := decChunksP_safe (b.length + 1) (b.drop headerLength) (by lomega)
      generalize decChunksP (b.length + 1) (b.drop headerLength) = r at this
      obtain ⟨cs, st⟩ := r
      simp only at this ⊢
      cases st <;> simp_all
      split <;> simp
  · rename_i o hne
    exact status_ne_of_safe hh

theorem SourceDescription.dec_safe (b : Bytes) : (SourceDescription.dec b).Safe := by
  unfold SourceDescription.dec
  have := SourceDescription.decP_safe b
  exact Status.toOut_safe this.1 this.2

/-! ### BYE -/

theorem decSSRCs_safe (n : Nat) (b : Bytes) (off : Nat) (h : off + 4 * n ≤ b.length) : (decSSRCs n b off).Safe := by
  induction n generalizing off with
  | zero => exact safe_ok _
  | succ n ih =>
    unfold decSSRCs
    rw [u32At_of_le (by lomega)]
    simp only [bind_ok]
    apply safe_bind (ih _ (by lomega))
    intro r _
    exact safe_ok _

theorem Goodbye.dec_safe (b : Bytes) : (Goodbye.dec b).Safe := by
  unfold Goodbye.dec
  apply safe_bind (Header.dec_safe b)
  intro hd hhd
  have hf := Header.dec_ok_fields hhd
  have hl := Header.dec_ok_length hhd
  split
  · exact safe_err
  · split
    · exact safe_err
    · dsimp only
      split
      · exact safe_err
      · rename_i h1 h2 h3
        have hro : (4 + hd.count * 4) % 256 = 4 + hd.count * 4 := by omega
        apply safe_bind (decSSRCs_safe _ _ _ (by lomega))
        intro srcs _
        split
        · rename_i h4
          simp at h4
          rw [u8At_of_lt (by lomega)]
          simp only [bind_ok]
          split
          · exact safe_err
          · rename_i h5
            simp at h5
            rw [slice_of_le (by lomega) (by lomega)]
            exact safe_ok _
        · exact safe_ok _

/-! ### APP -/

theorem ApplicationDefined.dec_safe (b : Bytes) : (ApplicationDefined.dec b).Safe := by
  unfold ApplicationDefined.dec
  apply safe_bind (Header.dec_safe b)
  intro hd hhd
  split
  · exact safe_err
  · split
    · exact safe_err
    · split
      · exact safe_err
      · rename_i h1 h2 h3
        simp at h2
        rw [u32At_of_le (by lomega), slice_of_le (by lomega) (by lomega)]
        simp only [bind_ok]
        by_cases hp : hd.padding = true
        · simp only [hp, if_true]
          rw [u8At_of_lt (by lomega)]
          simp only [bind_ok]
          split
          · exact safe_err
          · rename_i h4
            simp at h4
            rw [slice_of_le (by lomega) (by lomega)]
            exact safe_ok _
        · simp only [hp]
          simp only [Bool.false_eq_true, if_false, pure_eq, bind_ok, false_and]
          rw [slice_of_le (by lomega) (by lomega)]
          exact safe_ok _

end Rtcp
