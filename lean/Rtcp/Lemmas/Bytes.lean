/-
  Read-after-write and bounds lemmas for Basic.lean.
-/
import Rtcp.Basic
import Rtcp.Gen.Consts
namespace Rtcp

theorem Out.bind_eq_ok {α β : Type} {o : Out α} {f : α → Out β} {b : β} :
    (o >>= f) = .ok b ↔ ∃ a, o = .ok a ∧ f a = .ok b := by
  cases o <;> simp

theorem Out.map_eq_ok {α β : Type} {o : Out α} {f : α → β} {b : β} :
    (f <$> o) = .ok b ↔ ∃ a, o = .ok a ∧ f a = b := by
  cases o <;> simp

theorem Out.safe_map {α β : Type} {o : Out α} {f : α → β} (h : o.Safe) : (f <$> o).Safe := by
  cases o
  · exact Out.safe_ok _
  · exact Out.safe_err
  · exact absurd rfl h.1
  · exact absurd rfl h.2

theorem Status.toOut_safe {α} {s : Status} {a : α} (h1 : s ≠ .panic) (h2 : s ≠ .diverge) : (s.toOut a).Safe := by
  cases s
  · exact Out.safe_ok _
  · exact Out.safe_err
  · exact absurd rfl h1
  · exact absurd rfl h2

theorem Out.status_ne_of_safe {α} {o : Out α} (h : o.Safe) : o.status ≠ .panic ∧ o.status ≠ .diverge := by
  cases o
  · simp [Out.status]
  · simp [Out.status]
  · exact absurd rfl h.1
  · exact absurd rfl h.2

@[simp] theorem byte_toNat (n : Nat) : (byte n).toNat = n % 256 := by
  simp [byte]

theorem byte_eq_iff {n : Nat} {x : UInt8} : byte n = x ↔ n % 256 = x.toNat := by
  constructor
  · intro h; rw [← h]; simp
  · intro h; apply UInt8.toNat_inj.mp; simp [h]

theorem byte_toNat_self (x : UInt8) : byte x.toNat = x := by
  apply UInt8.toNat_inj.mp; simp

theorem get8_lt (b : Bytes) (i : Nat) : get8 b i < 256 := by
  unfold get8; exact UInt8.toNat_lt _

@[simp] theorem get8_cons_zero (x : UInt8) (b : Bytes) : get8 (x :: b) 0 = x.toNat := by
  simp [get8]

@[simp] theorem get8_cons_succ (x : UInt8) (b : Bytes) (i : Nat) : get8 (x :: b) (i + 1) = get8 b i := by
  simp [get8]

theorem get8_append_left (a b : Bytes) (i : Nat) (h : i < a.length) : get8 (a ++ b) i = get8 a i := by
  simp [get8, List.getD_eq_getElem?_getD, List.getElem?_append_left h]

theorem get8_append_right (a b : Bytes) (i : Nat) (h : a.length ≤ i) : get8 (a ++ b) i = get8 b (i - a.length) := by
  simp [get8, List.getD_eq_getElem?_getD, List.getElem?_append_right h]

theorem get8_drop (b : Bytes) (i j : Nat) : get8 (b.drop i) j = get8 b (i + j) := by
  simp [get8, List.getD_eq_getElem?_getD, List.getElem?_drop]

theorem get16_lt (b : Bytes) (i : Nat) : get16 b i < 65536 := by
  have h1 := get8_lt b i; have h2 := get8_lt b (i+1); unfold get16; omega
theorem get24_lt (b : Bytes) (i : Nat) : get24 b i < 16777216 := by
  have h1 := get8_lt b i; have h2 := get8_lt b (i+1); have h3 := get8_lt b (i+2); unfold get24; omega
theorem get32_lt (b : Bytes) (i : Nat) : get32 b i < 4294967296 := by
  have h1 := get8_lt b i; have h2 := get8_lt b (i+1); have h3 := get8_lt b (i+2); have h4 := get8_lt b (i+3)
  unfold get32; omega
theorem get64_lt (b : Bytes) (i : Nat) : get64 b i < 18446744073709551616 := by
  have h1 := get32_lt b i; have h2 := get32_lt b (i+4); unfold get64; omega

/-! ### the guarded reads never panic under their bound -/

theorem u8At_of_lt {b : Bytes} {i : Nat} (h : i + 1 ≤ b.length) : u8At b i = .ok (get8 b i) := by simp [u8At, h]
theorem u16At_of_le {b : Bytes} {i : Nat} (h : i + 2 ≤ b.length) : u16At b i = .ok (get16 b i) := by simp [u16At, h]
theorem u24At_of_le {b : Bytes} {i : Nat} (h : i + 3 ≤ b.length) : u24At b i = .ok (get24 b i) := by simp [u24At, h]
theorem u32At_of_le {b : Bytes} {i : Nat} (h : i + 4 ≤ b.length) : u32At b i = .ok (get32 b i) := by simp [u32At, h]
theorem u64At_of_le {b : Bytes} {i : Nat} (h : i + 8 ≤ b.length) : u64At b i = .ok (get64 b i) := by simp [u64At, h]
theorem slice_of_le {b : Bytes} {i j : Nat} (h1 : i ≤ j) (h2 : j ≤ b.length) : slice b i j = .ok ((b.take j).drop i) := by
  simp [slice, h1, h2]
theorem sliceFrom_of_le {b : Bytes} {i : Nat} (h : i ≤ b.length) : sliceFrom b i = .ok (b.drop i) := by
  simp [sliceFrom, h]

theorem slice_length {b : Bytes} {i j : Nat} (h1 : i ≤ j) (h2 : j ≤ b.length) : ((b.take j).drop i).length = j - i := by
  simp; omega

/-! ### lengths of writes -/

@[simp] theorem be16_length (n : Nat) : (be16 n).length = 2 := rfl
@[simp] theorem be24_length (n : Nat) : (be24 n).length = 3 := rfl
@[simp] theorem be32_length (n : Nat) : (be32 n).length = 4 := rfl
@[simp] theorem be64_length (n : Nat) : (be64 n).length = 8 := rfl
@[simp] theorem zeros_length (n : Nat) : (zeros n).length = n := by simp [zeros]

/-! ### read-after-write -/

theorem get16_be16 (n : Nat) (post : Bytes) (h : n < 65536) : get16 (be16 n ++ post) 0 = n := by
  simp [get16, be16]; omega
theorem get24_be24 (n : Nat) (post : Bytes) (h : n < 16777216) : get24 (be24 n ++ post) 0 = n := by
  simp [get24, be24]; omega
theorem get32_be32 (n : Nat) (post : Bytes) (h : n < 4294967296) : get32 (be32 n ++ post) 0 = n := by
  simp [get32, be32]; omega
theorem get64_be64 (n : Nat) (post : Bytes) (h : n < 18446744073709551616) : get64 (be64 n ++ post) 0 = n := by
  simp [get64, get32, be64, be32]; omega

theorem get8_shift (pre b : Bytes) (i : Nat) : get8 (pre ++ b) (pre.length + i) = get8 b i := by
  rw [get8_append_right _ _ _ (by omega)]; congr 1; omega

theorem get16_shift (pre b : Bytes) (i : Nat) : get16 (pre ++ b) (pre.length + i) = get16 b i := by
  simp only [get16, Nat.add_assoc, get8_shift]
theorem get24_shift (pre b : Bytes) (i : Nat) : get24 (pre ++ b) (pre.length + i) = get24 b i := by
  simp only [get24, Nat.add_assoc, get8_shift]
theorem get32_shift (pre b : Bytes) (i : Nat) : get32 (pre ++ b) (pre.length + i) = get32 b i := by
  simp only [get32, Nat.add_assoc, get8_shift]
theorem get64_shift (pre b : Bytes) (i : Nat) : get64 (pre ++ b) (pre.length + i) = get64 b i := by
  simp only [get64, Nat.add_assoc, get32_shift]

/-! ### padding -/

theorem getPadding_lt (n : Nat) : getPadding n < 4 := by unfold getPadding; split <;> omega
theorem add_getPadding_mod (n : Nat) : (n + getPadding n) % 4 = 0 := by unfold getPadding; split <;> omega
theorem getPadding_eq_zero {n : Nat} (h : n % 4 = 0) : getPadding n = 0 := by simp [getPadding, h]

end Rtcp

/-- list-length normalisation, generated constants, then `omega` -/
macro "lomega" : tactic => `(tactic| ((try simp only [List.length_drop, List.length_take, List.length_append, List.length_cons, List.length_nil, List.length_replicate, List.length_map, Rtcp.be16_length, Rtcp.be24_length, Rtcp.be32_length, Rtcp.be64_length, Rtcp.zeros_length] at *); comega))

namespace Rtcp
open Out

/-! ### `Safe` combinators: proofs about decoders are sequences of `apply` (cheap), not `split` -/

theorem safe_ite {α} {c : Prop} [Decidable c] {a b : Out α} (ha : c → a.Safe) (hb : ¬c → b.Safe) :
    (if c then a else b).Safe := by
  by_cases h : c
  · simp only [h, if_true]; exact ha h
  · simp only [h, if_false]; exact hb h

theorem safe_err_ite {α} {c : Prop} [Decidable c] {b : Out α} (hb : ¬c → b.Safe) :
    (if c then .err else b).Safe := safe_ite (fun _ => safe_err) hb

theorem safe_u8At {β} {b : Bytes} {i : Nat} {f : Nat → Out β} (h : i + 1 ≤ b.length) (hf : get8 b i < 256 → (f (get8 b i)).Safe) :
    (u8At b i >>= f).Safe := by rw [u8At_of_lt h]; exact hf (get8_lt _ _)
theorem safe_u16At {β} {b : Bytes} {i : Nat} {f : Nat → Out β} (h : i + 2 ≤ b.length) (hf : get16 b i < 65536 → (f (get16 b i)).Safe) :
    (u16At b i >>= f).Safe := by rw [u16At_of_le h]; exact hf (get16_lt _ _)
theorem safe_u24At {β} {b : Bytes} {i : Nat} {f : Nat → Out β} (h : i + 3 ≤ b.length) (hf : (f (get24 b i)).Safe) :
    (u24At b i >>= f).Safe := by rw [u24At_of_le h]; exact hf
theorem safe_u32At {β} {b : Bytes} {i : Nat} {f : Nat → Out β} (h : i + 4 ≤ b.length) (hf : (f (get32 b i)).Safe) :
    (u32At b i >>= f).Safe := by rw [u32At_of_le h]; exact hf
theorem safe_u64At {β} {b : Bytes} {i : Nat} {f : Nat → Out β} (h : i + 8 ≤ b.length) (hf : (f (get64 b i)).Safe) :
    (u64At b i >>= f).Safe := by rw [u64At_of_le h]; exact hf
theorem safe_slice {β} {b : Bytes} {i j : Nat} {f : Bytes → Out β} (h1 : i ≤ j) (h2 : j ≤ b.length)
    (hf : (f ((b.take j).drop i)).Safe) : (slice b i j >>= f).Safe := by rw [slice_of_le h1 h2]; exact hf
theorem safe_sliceFrom {β} {b : Bytes} {i : Nat} {f : Bytes → Out β} (h : i ≤ b.length)
    (hf : (f (b.drop i)).Safe) : (sliceFrom b i >>= f).Safe := by rw [sliceFrom_of_le h]; exact hf
theorem safe_pure {α} (a : α) : (pure a : Out α).Safe := safe_ok a

end Rtcp

namespace Rtcp
theorem Status.toOut_eq_ok {α} {s : Status} {a v : α} (h : s.toOut a = .ok v) : s = .ok ∧ a = v := by
  cases s <;> simp [Status.toOut] at h
  exact ⟨rfl, h⟩
end Rtcp
