/-
  Bridge between the reflective XR block codec run over the RFC 3611 field tables (C15.rfcLayout = the regenerated
  struct layouts) and the declarative RFC 3611 wire layouts of Spec/XR.lean: `render (Spec.xrBlock b) = C15.blockBytes b`.
  Done kind by kind; the type-specific octet is the only group that is not byte aligned.
-/
import Rtcp.Spec.XR
import Rtcp.Lemmas.SpecBits
import Rtcp.Proofs.C15
namespace Rtcp.XRW
open Rtcp Gen Out Spec C15
set_option linter.unusedSimpArgs false
set_option linter.unusedVariables false

/-! ### rendering, generally -/

theorem render_cons (e : El) (es : List El) : render (e :: es) = e.render ++ render es := by simp [render]
theorem render_append (a b : List El) : render (a ++ b) = render a ++ render b := by simp [render]
theorem render_nil : render [] = [] := rfl

theorem El.render_length (e : El) : e.render.length = e.octets := by
  cases e <;> simp [El.render, El.octets, beBytes_length]

theorem render_length (els : List El) : (render els).length = octets els := by
  induction els with
  | nil => rfl
  | cons e es ih => rw [render_cons, List.length_append, ih, El.render_length]; simp [octets]

theorem render_flatMap {α} (f : α → List El) (xs : List α) : render (xs.flatMap f) = (xs.map fun x => render (f x)).flatten := by
  induction xs with
  | nil => rfl
  | cons x xs ih => simp only [List.flatMap_cons, render_append, ih, List.map_cons, List.flatten_cons]

theorem byte_congr {a b : Nat} (h : a % 256 = b % 256) : byte a = byte b := by
  apply UInt8.toNat_inj.mp; simpa using h

theorem totalBits_append (a b : List (Nat × Nat)) : totalBits (a ++ b) = totalBits a + totalBits b := by
  simp [totalBits]

theorem groupVal_append (a b : List (Nat × Nat)) : groupVal (a ++ b) = groupVal a * 2 ^ totalBits b + groupVal b := by
  induction a with
  | nil => simp [groupVal]
  | cons f a ih =>
    obtain ⟨w, v⟩ := f
    simp only [List.cons_append, groupVal, ih, totalBits_append, Nat.pow_add, Nat.add_mul]
    rw [Nat.mul_assoc, Nat.add_assoc]

/-- the 32-bit XR block header group `BT(8) | type-specific fields (8 bits in all) | block length(16)` renders as
the block type octet, the packed type-specific octet and the big-endian length -/
theorem blockHdr_render (bt ts bl : Nat) (tsf : List (Nat × Nat)) (htb : totalBits tsf = 8) (hgv : groupVal tsf = ts)
    (hbt : bt < 256) (hts : ts < 256) (hbl : bl < 65536) :
    El.render (.bits ([(8, bt)] ++ tsf ++ [(16, bl)])) = [byte bt, byte ts] ++ be16 bl := by
  have htot : totalBits ([(8, bt)] ++ tsf ++ [(16, bl)]) = 32 := by
    rw [totalBits_append, totalBits_append, htb]; rfl
  have hval : groupVal ([(8, bt)] ++ tsf ++ [(16, bl)]) = bt * 16777216 + ts * 65536 + bl := by
    rw [groupVal_append, groupVal_append, hgv, htb]
    simp [groupVal, totalBits]
    rw [Nat.add_mul, Nat.mul_assoc]
  simp only [El.render, htot, hval]
  show beBytes 4 _ = _
  simp only [beBytes, be16, List.cons_append, List.nil_append]
  simp only [List.cons.injEq, and_true]
  refine ⟨byte_congr (by omega), byte_congr (by omega), byte_congr (by omega), byte_congr (by omega)⟩

/-! ### inversion of the shape predicates -/

theorem fits1 {v : Nat} (h : fits 1 v) : v < 2 ^ 8 := by unfold fits at h; simpa using h
theorem fits2 {v : Nat} (h : fits 2 v) : v < 2 ^ 16 := by unfold fits at h; simpa using h
theorem fits4 {v : Nat} (h : fits 4 v) : v < 2 ^ 32 := by unfold fits at h; simpa using h
theorem fits8 {v : Nat} (h : fits 8 v) : v < 2 ^ 64 := by unfold fits at h; simpa using h

theorem itemsOK_scalar {n : String} {w : Nat} {is : List Item} {vs : List Nat} {es : List (List Nat)}
    (h : itemsOK (.scalar n w :: is) vs es) : ∃ v vs', vs = v :: vs' ∧ fits w v ∧ itemsOK is vs' es := by
  cases vs with
  | nil => simp [itemsOK] at h
  | cons v vs' => exact ⟨v, vs', rfl, h.2.1, h.2.2⟩

theorem itemsOK_omitted {n : String} {is : List Item} {vs : List Nat} {es : List (List Nat)}
    (h : itemsOK (.omitted n :: is) vs es) : itemsOK is vs es := by
  simpa only [itemsOK] using h

theorem itemsOK_skip {w : Nat} {is : List Item} {vs : List Nat} {es : List (List Nat)}
    (h : itemsOK (.skip w :: is) vs es) : itemsOK is vs es := by
  simpa only [itemsOK] using h

theorem itemsOK_nil {vs : List Nat} {es : List (List Nat)} (h : itemsOK [] vs es) : vs = [] ∧ es = [] := by
  cases vs <;> cases es <;> simp [itemsOK] at h ⊢

theorem itemsOK_slice {n : String} {ws : List Nat} {vs : List Nat} {es : List (List Nat)}
    (h : itemsOK [.sliceOf n ws] vs es) : vs = [] ∧ ∀ e ∈ es, elemOK ws e := by
  cases vs with
  | nil => exact ⟨rfl, h.2⟩
  | cons v vs => simp [itemsOK] at h

theorem elemOK_cons {w : Nat} {ws e : List Nat} (h : elemOK (w :: ws) e) : ∃ v vs, e = v :: vs ∧ fits w v ∧ elemOK ws vs := by
  cases e with
  | nil => simp [elemOK] at h
  | cons v vs => exact ⟨v, vs, rfl, h.2.1, h.2.2⟩

theorem elemOK_nil {e : List Nat} (h : elemOK [] e) : e = [] := by
  cases e with
  | nil => rfl
  | cons v vs => simp [elemOK] at h

/-! ### the trailing slices -/

theorem slice_render (ws : List Nat) (f : List Nat → El) (hf : ∀ e, elemOK ws e → (f e).render = elemBytes ws e)
    (es : List (List Nat)) (h : ∀ e ∈ es, elemOK ws e) : render (es.map f) = elemsBytes ws es := by
  induction es with
  | nil => rfl
  | cons e es ih =>
    simp only [List.map_cons, render_cons, ih (fun x hx => h x (by simp [hx])), hf e (h e (by simp))]
    simp [elemsBytes]

theorem al {w v : Nat} (hw : w % 8 = 0) (hv : v < 2 ^ w) : (w, v).1 % 8 = 0 ∧ (w, v).2 < 2 ^ (w, v).1 := ⟨hw, hv⟩

/-- a single aligned field -/
theorem bits1_render (w v : Nat) (hw : w % 8 = 0) (hv : v < 2 ^ w) : El.render (.bits [(w, v)]) = beBytes (w / 8) v := by
  rw [bits_aligned _ (by intro f hf; simp at hf; subst hf; exact ⟨hw, hv⟩)]
  simp [renderAligned]

theorem chunk_render (e : List Nat) (h : elemOK [2] e) : (El.bits [(16, e.headD 0)]).render = elemBytes [2] e := by
  obtain ⟨v, vs, rfl, f, h'⟩ := elemOK_cons h
  have := elemOK_nil h'; subst this
  show (El.bits [(16, v)]).render = _
  rw [bits1_render 16 _ (by decide) (fits2 f)]
  simp [elemBytes, writeScalar, beBytes2]

theorem receipt_render (e : List Nat) (h : elemOK [4] e) : (El.bits [(32, e.headD 0)]).render = elemBytes [4] e := by
  obtain ⟨v, vs, rfl, f, h'⟩ := elemOK_cons h
  have := elemOK_nil h'; subst this
  show (El.bits [(32, v)]).render = _
  rw [bits1_render 32 _ (by decide) (fits4 f)]
  simp [elemBytes, writeScalar, beBytes4]

theorem dlrr_render (e : List Nat) (h : elemOK [4, 4, 4] e) :
    (El.bits [(32, e.getD 0 0), (32, e.getD 1 0), (32, e.getD 2 0)]).render = elemBytes [4, 4, 4] e := by
  obtain ⟨a, vs, rfl, fa, h1⟩ := elemOK_cons h
  obtain ⟨b, vs, rfl, fb, h2⟩ := elemOK_cons h1
  obtain ⟨c, vs, rfl, fc, h3⟩ := elemOK_cons h2
  have := elemOK_nil h3; subst this
  show (El.bits [(32, a), (32, b), (32, c)]).render = _
  rw [bits_aligned _ (by
    intro f hf; simp at hf
    rcases hf with rfl | rfl | rfl
    · exact al (by decide) (fits4 fa)
    · exact al (by decide) (fits4 fb)
    · exact al (by decide) (fits4 fc))]
  simp [renderAligned, elemBytes, writeScalar, beBytes4]

theorem opaque_render (es : List (List Nat)) (h : ∀ e ∈ es, elemOK [1] e) :
    (es.map fun o => byte (o.headD 0)) = elemsBytes [1] es := by
  induction es with
  | nil => rfl
  | cons e es ih =>
    obtain ⟨v, vs, rfl, f, h'⟩ := elemOK_cons (h e (by simp))
    have := elemOK_nil h'; subst this
    simp only [List.map_cons, ih (fun x hx => h x (by simp [hx]))]
    simp [elemsBytes, elemBytes, writeScalar]

/-! ### block contents, kind by kind -/

/-- discharges the side condition of `bits_aligned` for an explicit field list, from `fits` hypotheses in context -/
theorem al_nil : ∀ f ∈ ([] : List (Nat × Nat)), f.1 % 8 = 0 ∧ f.2 < 2 ^ f.1 := fun _ h => nomatch h
theorem al_cons {w v : Nat} {fs : List (Nat × Nat)} (hw : w % 8 = 0) (hv : v < 2 ^ w) (h : ∀ f ∈ fs, f.1 % 8 = 0 ∧ f.2 < 2 ^ f.1) :
    ∀ f ∈ (w, v) :: fs, f.1 % 8 = 0 ∧ f.2 < 2 ^ f.1 := by
  intro f hf
  rcases List.mem_cons.mp hf with rfl | hf
  · exact ⟨hw, hv⟩
  · exact h f hf
macro "alfields" : tactic => `(tactic| repeat (first | exact al_nil | refine al_cons (by decide) (by first | exact fits1 (by assumption) | exact fits2 (by assumption) | exact fits4 (by assumption) | exact fits8 (by assumption) | decide) ?_))

theorem body1 (b : XRBlock) (hk : b.kind = 1 ∨ b.kind = 2)
    (hsh : itemsOK [.omitted "T", .scalar "SSRC" 4, .scalar "BeginSeq" 2, .scalar "EndSeq" 2, .sliceOf "Chunks" [2]] b.vals b.elems) :
    render (xrBody b) = itemsBytesL [.omitted "T", .scalar "SSRC" 4, .scalar "BeginSeq" 2, .scalar "EndSeq" 2, .sliceOf "Chunks" [2]] b.vals b.elems := by
  obtain ⟨kind, bt, ts, bl, omits, vals, elems⟩ := b
  dsimp only at hk hsh ⊢
  obtain ⟨ssrc, vs, rfl, f1, h2⟩ := itemsOK_scalar (itemsOK_omitted hsh)
  obtain ⟨bs, vs, rfl, f2, h3⟩ := itemsOK_scalar h2
  obtain ⟨es, vs, rfl, f3, h4⟩ := itemsOK_scalar h3
  obtain ⟨rfl, hel⟩ := itemsOK_slice h4
  have hb : xrBody { kind := kind, bt := bt, ts := ts, bl := bl, omits := omits, vals := [ssrc, bs, es], elems := elems } =
      .bits [(32, ssrc), (16, bs), (16, es)] :: elems.map fun c => .bits [(16, c.headD 0)] := by
    rcases hk with rfl | rfl <;> rfl
  rw [hb, render_cons, slice_render [2] _ chunk_render elems hel]
  rw [bits_aligned _ (by alfields)]
  simp [renderAligned, itemsBytesL, writeScalar, beBytes4, beBytes2]

theorem body3 (b : XRBlock) (hk : b.kind = 3)
    (hsh : itemsOK [.omitted "T", .scalar "SSRC" 4, .scalar "BeginSeq" 2, .scalar "EndSeq" 2, .sliceOf "ReceiptTime" [4]] b.vals b.elems) :
    render (xrBody b) = itemsBytesL [.omitted "T", .scalar "SSRC" 4, .scalar "BeginSeq" 2, .scalar "EndSeq" 2, .sliceOf "ReceiptTime" [4]] b.vals b.elems := by
  obtain ⟨kind, bt, ts, bl, omits, vals, elems⟩ := b
  dsimp only at hk hsh ⊢
  subst hk
  obtain ⟨ssrc, vs, rfl, f1, h2⟩ := itemsOK_scalar (itemsOK_omitted hsh)
  obtain ⟨bs, vs, rfl, f2, h3⟩ := itemsOK_scalar h2
  obtain ⟨es, vs, rfl, f3, h4⟩ := itemsOK_scalar h3
  obtain ⟨rfl, hel⟩ := itemsOK_slice h4
  show render (.bits [(32, ssrc), (16, bs), (16, es)] :: elems.map fun t => .bits [(32, t.headD 0)]) = _
  rw [render_cons, slice_render [4] _ receipt_render elems hel]
  rw [bits_aligned _ (by alfields)]
  simp [renderAligned, itemsBytesL, writeScalar, beBytes4, beBytes2]

theorem body4 (b : XRBlock) (hk : b.kind = 4) (hsh : itemsOK [.scalar "NTPTimestamp" 8] b.vals b.elems) :
    render (xrBody b) = itemsBytesL [.scalar "NTPTimestamp" 8] b.vals b.elems := by
  obtain ⟨kind, bt, ts, bl, omits, vals, elems⟩ := b
  dsimp only at hk hsh ⊢
  subst hk
  obtain ⟨ntp, vs, rfl, f1, h2⟩ := itemsOK_scalar hsh
  obtain ⟨rfl, rfl⟩ := itemsOK_nil h2
  show render [.bits [(64, ntp)]] = _
  rw [render_cons, render_nil, bits_aligned _ (by alfields)]
  simp [renderAligned, itemsBytesL, writeScalar, beBytes8]

theorem body5 (b : XRBlock) (hk : b.kind = 5) (hsh : itemsOK [.sliceOf "Reports" [4, 4, 4]] b.vals b.elems) :
    render (xrBody b) = itemsBytesL [.sliceOf "Reports" [4, 4, 4]] b.vals b.elems := by
  obtain ⟨kind, bt, ts, bl, omits, vals, elems⟩ := b
  dsimp only at hk hsh ⊢
  subst hk
  obtain ⟨rfl, hel⟩ := itemsOK_slice hsh
  show render (elems.map fun r => .bits [(32, r.getD 0 0), (32, r.getD 1 0), (32, r.getD 2 0)]) = _
  rw [slice_render [4, 4, 4] _ dlrr_render elems hel]
  rfl

theorem body0 (b : XRBlock) (hk : b.kind = 0) (hsh : itemsOK [.sliceOf "Bytes" [1]] b.vals b.elems) :
    render (xrBody b) = itemsBytesL [.sliceOf "Bytes" [1]] b.vals b.elems := by
  obtain ⟨kind, bt, ts, bl, omits, vals, elems⟩ := b
  dsimp only at hk hsh ⊢
  subst hk
  obtain ⟨rfl, hel⟩ := itemsOK_slice hsh
  show render [.raw (elems.map fun o => byte (o.headD 0))] = _
  rw [render_cons, render_nil, List.append_nil]
  show (elems.map fun o => byte (o.headD 0)) = elemsBytes [1] elems
  exact opaque_render elems hel

theorem body6 (b : XRBlock) (hk : b.kind = 6)
    (hsh : itemsOK [.omitted "LossReports", .omitted "DuplicateReports", .omitted "JitterReports", .omitted "TTLorHopLimit",
          .scalar "SSRC" 4, .scalar "BeginSeq" 2, .scalar "EndSeq" 2, .scalar "LostPackets" 4, .scalar "DupPackets" 4,
          .scalar "MinJitter" 4, .scalar "MaxJitter" 4, .scalar "MeanJitter" 4, .scalar "DevJitter" 4,
          .scalar "MinTTLOrHL" 1, .scalar "MaxTTLOrHL" 1, .scalar "MeanTTLOrHL" 1, .scalar "DevTTLOrHL" 1] b.vals b.elems) :
    render (xrBody b) = itemsBytesL [.omitted "LossReports", .omitted "DuplicateReports", .omitted "JitterReports", .omitted "TTLorHopLimit",
          .scalar "SSRC" 4, .scalar "BeginSeq" 2, .scalar "EndSeq" 2, .scalar "LostPackets" 4, .scalar "DupPackets" 4,
          .scalar "MinJitter" 4, .scalar "MaxJitter" 4, .scalar "MeanJitter" 4, .scalar "DevJitter" 4,
          .scalar "MinTTLOrHL" 1, .scalar "MaxTTLOrHL" 1, .scalar "MeanTTLOrHL" 1, .scalar "DevTTLOrHL" 1] b.vals b.elems := by
  obtain ⟨kind, bt, ts, bl, omits, vals, elems⟩ := b
  dsimp only at hk hsh ⊢
  subst hk
  obtain ⟨a1, vs, rfl, f1, h⟩ := itemsOK_scalar (itemsOK_omitted (itemsOK_omitted (itemsOK_omitted (itemsOK_omitted hsh))))
  obtain ⟨a2, vs, rfl, f2, h⟩ := itemsOK_scalar h
  obtain ⟨a3, vs, rfl, f3, h⟩ := itemsOK_scalar h
  obtain ⟨a4, vs, rfl, f4, h⟩ := itemsOK_scalar h
  obtain ⟨a5, vs, rfl, f5, h⟩ := itemsOK_scalar h
  obtain ⟨a6, vs, rfl, f6, h⟩ := itemsOK_scalar h
  obtain ⟨a7, vs, rfl, f7, h⟩ := itemsOK_scalar h
  obtain ⟨a8, vs, rfl, f8, h⟩ := itemsOK_scalar h
  obtain ⟨a9, vs, rfl, f9, h⟩ := itemsOK_scalar h
  obtain ⟨a10, vs, rfl, f10, h⟩ := itemsOK_scalar h
  obtain ⟨a11, vs, rfl, f11, h⟩ := itemsOK_scalar h
  obtain ⟨a12, vs, rfl, f12, h⟩ := itemsOK_scalar h
  obtain ⟨a13, vs, rfl, f13, h⟩ := itemsOK_scalar h
  obtain ⟨rfl, rfl⟩ := itemsOK_nil h
  show render [.bits [(32, a1), (16, a2), (16, a3), (32, a4), (32, a5), (32, a6), (32, a7), (32, a8), (32, a9),
            (8, a10), (8, a11), (8, a12), (8, a13)]] = _
  rw [render_cons, render_nil, bits_aligned _ (by alfields)]
  simp [renderAligned, itemsBytesL, writeScalar, beBytes4, beBytes2, beBytes1]

theorem body7 (b : XRBlock) (hk : b.kind = 7)
    (hsh : itemsOK [.scalar "SSRC" 4,
          .scalar "LossRate" 1, .scalar "DiscardRate" 1, .scalar "BurstDensity" 1, .scalar "GapDensity" 1,
          .scalar "BurstDuration" 2, .scalar "GapDuration" 2, .scalar "RoundTripDelay" 2, .scalar "EndSystemDelay" 2,
          .scalar "SignalLevel" 1, .scalar "NoiseLevel" 1, .scalar "RERL" 1, .scalar "Gmin" 1, .scalar "RFactor" 1,
          .scalar "ExtRFactor" 1, .scalar "MOSLQ" 1, .scalar "MOSCQ" 1, .scalar "RXConfig" 1, .skip 1,
          .scalar "JBNominal" 2, .scalar "JBMaximum" 2, .scalar "JBAbsMax" 2] b.vals b.elems) :
    render (xrBody b) = itemsBytesL [.scalar "SSRC" 4,
          .scalar "LossRate" 1, .scalar "DiscardRate" 1, .scalar "BurstDensity" 1, .scalar "GapDensity" 1,
          .scalar "BurstDuration" 2, .scalar "GapDuration" 2, .scalar "RoundTripDelay" 2, .scalar "EndSystemDelay" 2,
          .scalar "SignalLevel" 1, .scalar "NoiseLevel" 1, .scalar "RERL" 1, .scalar "Gmin" 1, .scalar "RFactor" 1,
          .scalar "ExtRFactor" 1, .scalar "MOSLQ" 1, .scalar "MOSCQ" 1, .scalar "RXConfig" 1, .skip 1,
          .scalar "JBNominal" 2, .scalar "JBMaximum" 2, .scalar "JBAbsMax" 2] b.vals b.elems := by
  obtain ⟨kind, bt, ts, bl, omits, vals, elems⟩ := b
  dsimp only at hk hsh ⊢
  subst hk
  obtain ⟨a1, vs, rfl, f1, h⟩ := itemsOK_scalar hsh
  obtain ⟨a2, vs, rfl, f2, h⟩ := itemsOK_scalar h
  obtain ⟨a3, vs, rfl, f3, h⟩ := itemsOK_scalar h
  obtain ⟨a4, vs, rfl, f4, h⟩ := itemsOK_scalar h
  obtain ⟨a5, vs, rfl, f5, h⟩ := itemsOK_scalar h
  obtain ⟨a6, vs, rfl, f6, h⟩ := itemsOK_scalar h
  obtain ⟨a7, vs, rfl, f7, h⟩ := itemsOK_scalar h
  obtain ⟨a8, vs, rfl, f8, h⟩ := itemsOK_scalar h
  obtain ⟨a9, vs, rfl, f9, h⟩ := itemsOK_scalar h
  obtain ⟨a10, vs, rfl, f10, h⟩ := itemsOK_scalar h
  obtain ⟨a11, vs, rfl, f11, h⟩ := itemsOK_scalar h
  obtain ⟨a12, vs, rfl, f12, h⟩ := itemsOK_scalar h
  obtain ⟨a13, vs, rfl, f13, h⟩ := itemsOK_scalar h
  obtain ⟨a14, vs, rfl, f14, h⟩ := itemsOK_scalar h
  obtain ⟨a15, vs, rfl, f15, h⟩ := itemsOK_scalar h
  obtain ⟨a16, vs, rfl, f16, h⟩ := itemsOK_scalar h
  obtain ⟨a17, vs, rfl, f17, h⟩ := itemsOK_scalar h
  obtain ⟨a18, vs, rfl, f18, h⟩ := itemsOK_scalar h
  obtain ⟨a19, vs, rfl, f19, h⟩ := itemsOK_scalar (itemsOK_skip h)
  obtain ⟨a20, vs, rfl, f20, h⟩ := itemsOK_scalar h
  obtain ⟨a21, vs, rfl, f21, h⟩ := itemsOK_scalar h
  obtain ⟨rfl, rfl⟩ := itemsOK_nil h
  show render [.bits [(32, a1), (8, a2), (8, a3), (8, a4), (8, a5), (16, a6), (16, a7), (16, a8), (16, a9),
            (8, a10), (8, a11), (8, a12), (8, a13), (8, a14), (8, a15), (8, a16), (8, a17),
            (8, a18), (8, 0), (16, a19), (16, a20), (16, a21)]] = _
  rw [render_cons, render_nil, bits_aligned _ (by alfields)]
  simp [renderAligned, itemsBytesL, writeScalar, beBytes4, beBytes2, beBytes1, zeros]
  rfl

/-! ### whole blocks -/

theorem shape_tail (b : XRBlock) (h : BlockWF b) :
    itemsOK ((layoutOf b.kind).items.drop 3) b.vals b.elems ∧ b.setupBt < 256 ∧ b.setupTs < 256 := by
  have hsh := h.shape
  obtain ⟨n1, n2, n3, rest, hl⟩ := layout_hdr b.kind
  rw [hl] at hsh ⊢
  simp only [XRBlock.scalars, XRBlock.setup, List.cons_append, List.nil_append, itemsOK, fits] at hsh
  exact ⟨hsh.2.2.2.2.2.2, by omega, by omega⟩

theorem blockBytes_split (b : XRBlock) (h : BlockWF b) :
    blockBytes b = [byte b.setupBt, byte b.setupTs] ++ be16 (b.wireSize / 4 - 1) ++
      itemsBytesL ((layoutOf b.kind).items.drop 3) b.vals b.elems := by
  obtain ⟨n1, n2, n3, rest, hl⟩ := layout_hdr b.kind
  have h4 := wireSize_ge4 b
  have hbl : (b.wireSize / 4 + 65535) % 65536 = b.wireSize / 4 - 1 := by have := h.fits; omega
  simp [blockBytes, hl, XRBlock.scalars, XRBlock.setup, itemsBytesL, writeScalar, hbl]

theorem body_render (b : XRBlock) (h : BlockWF b) :
    render (xrBody b) = itemsBytesL ((layoutOf b.kind).items.drop 3) b.vals b.elems := by
  have hsh := (shape_tail b h).1
  have hkind := h.kind
  have hcases : b.kind = 0 ∨ b.kind = 1 ∨ b.kind = 2 ∨ b.kind = 3 ∨ b.kind = 4 ∨ b.kind = 5 ∨ b.kind = 6 ∨ b.kind = 7 := by omega
  rcases hcases with hk | hk | hk | hk | hk | hk | hk | hk <;> rw [hk] at hsh ⊢
  · exact body0 b hk hsh
  · exact body1 b (Or.inl hk) hsh
  · exact body1 b (Or.inr hk) hsh
  · exact body3 b hk hsh
  · exact body4 b hk hsh
  · exact body5 b hk hsh
  · exact body6 b hk hsh
  · exact body7 b hk hsh

/-- the declarative size of a block is the codec's `wireSize` -/
theorem blockOctets (b : XRBlock) (h : BlockWF b) : xrBlockOctets b = b.wireSize := by
  have h1 := render_length (xrBody b)
  rw [body_render b h] at h1
  have h2 := (block_enc b h).2
  rw [blockBytes_split b h] at h2
  simp at h2
  unfold xrBlockOctets
  omega

theorem blockType (b : XRBlock) (h : BlockWF b) : xrBlockType b = b.setupBt := by
  have hkind := h.kind
  have hcases : b.kind = 0 ∨ b.kind = 1 ∨ b.kind = 2 ∨ b.kind = 3 ∨ b.kind = 4 ∨ b.kind = 5 ∨ b.kind = 6 ∨ b.kind = 7 := by omega
  rcases hcases with hk | hk | hk | hk | hk | hk | hk | hk <;> simp [xrBlockType, XRBlock.setupBt, hk]

theorem typeSpecific (b : XRBlock) (h : BlockWF b) :
    totalBits (xrTypeSpecific b) = 8 ∧ groupVal (xrTypeSpecific b) = b.setupTs := by
  have hkind := h.kind
  have hom := h.omits
  unfold omitsOK at hom
  have hcases : b.kind = 0 ∨ b.kind = 1 ∨ b.kind = 2 ∨ b.kind = 3 ∨ b.kind = 4 ∨ b.kind = 5 ∨ b.kind = 6 ∨ b.kind = 7 := by omega
  rcases hcases with hk | hk | hk | hk | hk | hk | hk | hk <;> simp only [hk] at hom
  · simp [xrTypeSpecific, XRBlock.setupTs, hk, totalBits, groupVal]
  · obtain ⟨t, ht, htl⟩ := hom; simp [xrTypeSpecific, XRBlock.setupTs, hk, totalBits, groupVal, ht]; omega
  · obtain ⟨t, ht, htl⟩ := hom; simp [xrTypeSpecific, XRBlock.setupTs, hk, totalBits, groupVal, ht]; omega
  · obtain ⟨t, ht, htl⟩ := hom; simp [xrTypeSpecific, XRBlock.setupTs, hk, totalBits, groupVal, ht]; omega
  · simp [xrTypeSpecific, XRBlock.setupTs, hk, totalBits, groupVal]
  · simp [xrTypeSpecific, XRBlock.setupTs, hk, totalBits, groupVal]
  · obtain ⟨l, d, j, toh, ho, h1, h2, h3, h4⟩ := hom
    simp [xrTypeSpecific, XRBlock.setupTs, hk, totalBits, groupVal, ho]
    have hl : l = 0 ∨ l = 1 := by omega
    have hd : d = 0 ∨ d = 1 := by omega
    have hj : j = 0 ∨ j = 1 := by omega
    rcases hl with rfl | rfl <;> rcases hd with rfl | rfl <;> rcases hj with rfl | rfl <;> simp <;> omega
  · simp [xrTypeSpecific, XRBlock.setupTs, hk, totalBits, groupVal]

/-- **one block**: the RFC 3611 layout of a well-formed block renders to exactly the octets the codec writes -/
theorem block_render (b : XRBlock) (h : BlockWF b) : render (xrBlock b) = blockBytes b := by
  obtain ⟨hsh, hbt, hts⟩ := shape_tail b h
  obtain ⟨htb, hgv⟩ := typeSpecific b h
  have h4 := wireSize_ge4 b
  have hfits := h.fits
  unfold xrBlock
  rw [render_cons, blockOctets b h, blockType b h,
    blockHdr_render b.setupBt b.setupTs (b.wireSize / 4 - 1) (xrTypeSpecific b) htb hgv hbt hts (by omega),
    body_render b h, blockBytes_split b h]

theorem blocks_render (bs : List XRBlock) (h : ∀ b ∈ bs, BlockWF b) : render (bs.flatMap xrBlock) = blocksBytes bs := by
  induction bs with
  | nil => rfl
  | cons b bs ih =>
    simp only [List.flatMap_cons, render_append, block_render b (h b (by simp)), ih (fun x hx => h x (by simp [hx]))]
    simp [blocksBytes]

theorem blocksOctets (bs : List XRBlock) (h : ∀ b ∈ bs, BlockWF b) : (bs.map xrBlockOctets).sum = (bs.map XRBlock.wireSize).sum := by
  induction bs with
  | nil => rfl
  | cons b bs ih =>
    simp only [List.map_cons, List.sum_cons, blockOctets b (h b (by simp)), ih (fun x hx => h x (by simp [hx]))]


end Rtcp.XRW
