/-
  C01: bound on what the TWCC decoder appends (the loop where a wrapped counter used to restart the scan).
-/
import Rtcp.Lemmas.Safe6
namespace Rtcp
open Gen Out

theorem chunkDeltas_bound (count processed : Nat) (c : TwccChunk) (hc : count ≤ 65535) (hp : processed ≤ count)
    (hsv : ∀ t ss syms, c = .sv t ss syms → syms.length ≤ 14) :
    (chunkDeltas count processed c).2 ≤ count ∧
    (chunkDeltas count processed c).1.length + processed ≤ (chunkDeltas count processed c).2 + 14 ∧
    ((chunkDeltas count processed c).2 < count → (chunkDeltas count processed c).1.length + processed ≤ (chunkDeltas count processed c).2) := by
  cases c with
  | rl t sym run =>
    simp only [chunkDeltas, localMin]
    have h1 : (count + 65536 - processed) % 65536 = count - processed := by omega
    rw [h1]
    split <;> split <;> simp <;> omega
  | sv t ss syms =>
    have hl := hsv t ss syms rfl
    have hds : (chunkDeltas count processed (.sv t ss syms)).1.length ≤ syms.length := by
      simp only [chunkDeltas]
      split
      · simp; exact List.length_filter_le _ _
      · split
        · simp; exact List.length_filter_le _ _
        · simp
    have h2 : (chunkDeltas count processed (.sv t ss syms)).2
        = (processed + localMin ((count + 65536 - processed) % 65536) (syms.length % 65536)) % 65536 := rfl
    rw [h2]
    generalize (chunkDeltas count processed (.sv t ss syms)).1.length = n at hds
    have h1 : (count + 65536 - processed) % 65536 = count - processed := by omega
    have h3 : syms.length % 65536 = syms.length := by omega
    rw [h1, h3]
    unfold localMin
    refine ⟨?_, ?_, ?_⟩ <;> split <;> omega

theorem twccChunkLoop_done (gas : Nat) (b : Bytes) (total count pos processed : Nat) (h : ¬ processed < count) :
    (twccChunkLoop gas b total count pos processed).2.1 = [] ∧ (twccChunkLoop gas b total count pos processed).1 = [] := by
  cases gas with
  | zero => simp [twccChunkLoop]
  | succ g => unfold twccChunkLoop; simp [h]

theorem rlChunkDec_not_sv {b : Bytes} {c : TwccChunk} (e : rlChunkDec b = .ok c) : ∀ t ss syms, c = .sv t ss syms → syms.length ≤ 14 := by
  intro t ss syms hc
  unfold rlChunkDec at e
  split at e
  · cases e
  · obtain ⟨_, _, e⟩ := bind_eq_ok.mp e
    obtain ⟨_, _, e⟩ := bind_eq_ok.mp e
    simp at e; rw [← e] at hc; cases hc

theorem svChunkDec_len {b : Bytes} {c : TwccChunk} (e : svChunkDec b = .ok c) : ∀ t ss syms, c = .sv t ss syms → syms.length ≤ 14 := by
  intro t ss syms hc
  unfold svChunkDec at e
  split at e
  · cases e
  · obtain ⟨_, _, e⟩ := bind_eq_ok.mp e
    obtain ⟨_, _, e⟩ := bind_eq_ok.mp e
    dsimp only at e
    split at e
    · simp at e; rw [← e] at hc; cases hc; simp
    · split at e
      · simp at e; rw [← e] at hc; cases hc; simp
      · simp at e; rw [← e] at hc; cases hc; simp

/-- invariant of the chunk loop: deltas appended ≤ (final processed − initial processed) + 14·(#vector overshoots ≤ 1)…
stated simply: with `processed ≤ count ≤ 65535`, the deltas appended from here on are at most `count − processed + 14`. -/
theorem twccChunkLoop_bound (gas : Nat) (b : Bytes) (total count pos processed : Nat)
    (hc : count ≤ 65535) (hp : processed ≤ count) (hpos : pos ≤ total) (ht : total ≤ 65532) :
    (twccChunkLoop gas b total count pos processed).2.1.length + processed ≤ count + 14 ∧
    (twccChunkLoop gas b total count pos processed).1.length * 2 + pos ≤ total := by
  induction gas generalizing pos processed with
  | zero => simp [twccChunkLoop]; omega
  | succ g ih =>
    unfold twccChunkLoop
    split
    · split
      · simp; omega
      · rename_i h1 h2
        have hmod : (pos + packetStatusChunkLength) % 65536 = pos + 2 := by unfold_consts; omega
        rw [hmod] at h2
        split
        · rename_i b0 cb hb0 hcb
          dsimp only
          split
          · rename_i c hr
            dsimp only
            have hsv : ∀ t ss syms, c = .sv t ss syms → syms.length ≤ 14 := by
              split at hr
              · exact rlChunkDec_not_sv hr
              · exact svChunkDec_len hr
            have hb := chunkDeltas_bound count processed c hc hp hsv
            rw [hmod]
            have := ih (pos + 2) (chunkDeltas count processed c).2 hb.1 (by omega)
            have hd := twccChunkLoop_done g b total count (pos + 2) (chunkDeltas count processed c).2
            generalize twccChunkLoop g b total count (pos + 2) (chunkDeltas count processed c).2 = r at this hd ⊢
            obtain ⟨cs, ds', pos', st⟩ := r
            simp only [List.length_append, List.length_cons] at this hd ⊢
            by_cases hfin : (chunkDeltas count processed c).2 < count
            · have := hb.2.2 hfin
              omega
            · have hd' := hd hfin
              rw [hd'.1, hd'.2]
              simp only [List.length_nil]
              omega
          · simp; omega
        · simp; omega
    · simp; omega

theorem twccDeltaLoop_length (ds : List RecvDelta) (b : Bytes) (total pos : Nat) :
    (twccDeltaLoop ds b total pos).1.length = ds.length := by
  induction ds generalizing pos with
  | nil => simp [twccDeltaLoop]
  | cons d ds ih =>
    unfold twccDeltaLoop
    split
    · split
      · simp
      · split
        · simp [ih]
        · simp
    · split
      · split
        · simp
        · split
          · simp [ih]
          · simp
      · simp [ih]

theorem twcc_alloc_bound (b : Bytes) :
    (Twcc.decP b).1.deltas.length ≤ 65535 + 14 ∧ (Twcc.decP b).1.chunks.length * 2 ≤ b.length := by
  unfold Twcc.decP
  split
  · simp
  · rename_i hlen
    split
    · rename_i h heq
      dsimp only
      split
      · simp
      · split
        · simp
        · split
          · simp
          · rename_i h1 h2 h3
            rw [u32At_of_le (by lomega), u32At_of_le (by lomega), u16At_of_le (by lomega), u16At_of_le (by lomega),
              u24At_of_le (by lomega), u8At_of_lt (by lomega)]
            dsimp only
            have hcount := get16_lt b (headerLength + packetStatusCountOffset)
            have hl := twccChunkLoop_bound (b.length + 1) b (4 * ((h.length + 1) % 65536) % 65536) (get16 b (headerLength + packetStatusCountOffset))
              (headerLength + packetChunkOffset) 0 (by omega) (by omega) (by lomega) (by lomega)
            generalize twccChunkLoop (b.length + 1) b (4 * ((h.length + 1) % 65536) % 65536) (get16 b (headerLength + packetStatusCountOffset))
              (headerLength + packetChunkOffset) 0 = r at hl
            obtain ⟨cs, ds, pos, st⟩ := r
            dsimp only at hl ⊢
            cases st with
            | ok =>
              dsimp only
              rw [twccDeltaLoop_length]
              constructor
              · omega
              · lomega
            | err => dsimp only; constructor; omega; lomega
            | panic => dsimp only; constructor; omega; lomega
            | diverge => dsimp only; constructor; omega; lomega
    · simp

end Rtcp
