/-
  C01, memory half at value level: the SIZE of what a decoder builds.

  `X.cells` counts the scalar fields of a decoded value plus the total length of every list and octet string inside
  it, recursively (one cell per scalar, per octet, per list element's scalar). The lemmas of this file bound the
  cells of the value each decoder returns — and, for the decoders that fill their receiver incrementally (`decP`),
  of the partially filled receiver left behind on a rejected input — by a small multiple of the input length.
  Statements are collected in Proofs/C01b.lean.
-/
import Rtcp.Lemmas.Image
import Rtcp.Lemmas.Alloc
namespace Rtcp
open Gen Out
set_option linter.unusedSimpArgs false
set_option linter.unusedVariables false

/-! ## cells -/

def Header.cells (_ : Header) : Nat := 4
def ReceptionReport.cells (_ : ReceptionReport) : Nat := 7
def SenderReport.cells (r : SenderReport) : Nat := 5 + (r.reports.map ReceptionReport.cells).sum + r.ext.length
def ReceiverReport.cells (r : ReceiverReport) : Nat := 1 + (r.reports.map ReceptionReport.cells).sum + r.ext.length
def SDESItem.cells (i : SDESItem) : Nat := 1 + i.text.length
def SDESChunk.cells (c : SDESChunk) : Nat := 1 + (c.items.map SDESItem.cells).sum
def SourceDescription.cells (s : SourceDescription) : Nat := (s.chunks.map SDESChunk.cells).sum
def Goodbye.cells (g : Goodbye) : Nat := g.sources.length + g.reason.length
def ApplicationDefined.cells (a : ApplicationDefined) : Nat := 2 + a.name.length + a.data.length
def NackPair.cells (_ : NackPair) : Nat := 2
def TransportLayerNack.cells (p : TransportLayerNack) : Nat := 2 + (p.nacks.map NackPair.cells).sum
def RapidResync.cells (_ : RapidResync) : Nat := 2
def PictureLossIndication.cells (_ : PictureLossIndication) : Nat := 2
def SLIEntry.cells (_ : SLIEntry) : Nat := 3
def SliceLossIndication.cells (p : SliceLossIndication) : Nat := 2 + (p.sli.map SLIEntry.cells).sum
def FIREntry.cells (_ : FIREntry) : Nat := 2
def FullIntraRequest.cells (p : FullIntraRequest) : Nat := 2 + (p.fir.map FIREntry.cells).sum
def Remb.cells (p : Remb) : Nat := 2 + p.ssrcs.length
def TwccChunk.cells : TwccChunk → Nat
  | .rl _ _ _ => 3
  | .sv _ _ syms => 2 + syms.length
def RecvDelta.cells (_ : RecvDelta) : Nat := 2
def Twcc.cells (t : Twcc) : Nat :=
  t.header.cells + 6 + (t.chunks.map TwccChunk.cells).sum + (t.deltas.map RecvDelta.cells).sum
def CcfbMetric.cells (_ : CcfbMetric) : Nat := 3
def CcfbBlock.cells (b : CcfbBlock) : Nat := 2 + (b.metrics.map CcfbMetric.cells).sum
def Ccfb.cells (c : Ccfb) : Nat := 2 + (c.blocks.map CcfbBlock.cells).sum
def XRBlock.cells (b : XRBlock) : Nat := 4 + b.omits.length + b.vals.length + (b.elems.map List.length).sum
def XR.cells (x : XR) : Nat := 1 + (x.blocks.map XRBlock.cells).sum

def Packet.cells : Packet → Nat
  | .sr v => v.cells | .rr v => v.cells | .sdes v => v.cells | .bye v => v.cells | .app v => v.cells
  | .nack v => v.cells | .rrr v => v.cells | .twcc v => v.cells | .ccfb v => v.cells | .pli v => v.cells
  | .sli v => v.cells | .remb v => v.cells | .fir v => v.cells | .xr v => v.cells | .raw b => b.length

/-- cells of a list of packets (what `rtcp.Unmarshal` returns) -/
def cellsOf (ps : List Packet) : Nat := (ps.map Packet.cells).sum

theorem sum_map_const {α} (f : α → Nat) (c : Nat) (hf : ∀ a, f a = c) (l : List α) : (l.map f).sum = c * l.length := by
  induction l with
  | nil => simp
  | cons a l ih => simp only [List.map_cons, List.sum_cons, List.length_cons, ih, hf a]; rw [Nat.mul_succ]; omega

theorem sum_map_le {α} (f : α → Nat) (c : Nat) (l : List α) (hf : ∀ a ∈ l, f a ≤ c) : (l.map f).sum ≤ c * l.length := by
  induction l with
  | nil => simp
  | cons a l ih =>
    simp only [List.map_cons, List.sum_cons, List.length_cons]
    have h1 := hf a (by simp)
    have h2 := ih (fun x hx => hf x (by simp [hx]))
    rw [Nat.mul_succ]; omega

/-! ## header, reception report -/

theorem Header.dec_cells {b : Bytes} {h : Header} (e : Header.dec b = .ok h) : h.cells ≤ b.length :=
  Header.dec_ok_length e

theorem ReceptionReport.dec_len {b : Bytes} {r : ReceptionReport} (e : ReceptionReport.dec b = .ok r) : 24 ≤ b.length := by
  unfold ReceptionReport.dec at e
  split at e
  · cases e
  · rename_i h; simp only [receptionReportLength] at h; omega

theorem ReceptionReport.dec_cells {b : Bytes} {r : ReceptionReport} (e : ReceptionReport.dec b = .ok r) : r.cells ≤ b.length := by
  have := ReceptionReport.dec_len e
  simp only [ReceptionReport.cells]; omega

theorem reports_cells (l : List ReceptionReport) : (l.map ReceptionReport.cells).sum = 7 * l.length :=
  sum_map_const _ 7 (fun _ => rfl) l

/-! ## SenderReport, ReceiverReport -/

theorem SenderReport.dec_cells {b : Bytes} {v : SenderReport} (h : SenderReport.dec b = .ok v) : v.cells ≤ b.length := by
  unfold SenderReport.dec at h
  split at h
  · cases h
  · rename_i hlen
    simp only [headerLength, srHeaderLength, Nat.not_lt] at hlen
    obtain ⟨hd, hhd, h⟩ := bind_eq_ok.mp h
    split at h
    · cases h
    · obtain ⟨body, hbody, h⟩ := bind_eq_ok.mp h
      obtain ⟨ssrc, h1, h⟩ := bind_eq_ok.mp h
      obtain ⟨ntp, h2, h⟩ := bind_eq_ok.mp h
      obtain ⟨rtp, h3, h⟩ := bind_eq_ok.mp h
      obtain ⟨pc, h5, h⟩ := bind_eq_ok.mp h
      obtain ⟨oc, h6, h⟩ := bind_eq_ok.mp h
      obtain ⟨⟨reps, off⟩, hreps, h⟩ := bind_eq_ok.mp h
      dsimp only at h
      obtain ⟨ext, hext, h⟩ := bind_eq_ok.mp h
      split at h
      · cases h
      · simp at h
        subst h
        obtain ⟨_, hbe, hbl⟩ := sliceFrom_eq_ok hbody
        simp only [headerLength] at hbl
        obtain ⟨i1, i2, i3⟩ := srDecReports_image hreps
        have hoff := srDecReports_off hreps (by simp only [srReportOffset]; omega)
        simp only [srReportOffset] at i2
        have hel : ext.length = body.length - off := by
          split at hext
          · exact (sliceFrom_eq_ok hext).2.2
          · rename_i hn; simp at hext; subst hext; simp; omega
        simp only [SenderReport.cells, reports_cells]
        omega

theorem ReceiverReport.dec_cells {b : Bytes} {v : ReceiverReport} (h : ReceiverReport.dec b = .ok v) : v.cells ≤ b.length := by
  unfold ReceiverReport.dec at h
  split at h
  · cases h
  · rename_i hlen
    simp only [headerLength, ssrcLength, Nat.not_lt] at hlen
    obtain ⟨hd, hhd, h⟩ := bind_eq_ok.mp h
    split at h
    · cases h
    · obtain ⟨ssrc, h1, h⟩ := bind_eq_ok.mp h
      obtain ⟨⟨reps, rest⟩, hreps, h⟩ := bind_eq_ok.mp h
      dsimp only at h
      obtain ⟨ext, hext, h⟩ := bind_eq_ok.mp h
      split at h
      · cases h
      · simp at h
        subst h
        have hl := rrDecReports_len hreps
        simp only [rrReportOffset, List.length_drop] at hl
        obtain ⟨_, _, hel⟩ := sliceFrom_eq_ok hext
        simp only [rrReportOffset, receptionReportLength] at hel
        simp only [ReceiverReport.cells, reports_cells]
        omega

/-! ## SourceDescription (partial receivers included) -/

theorem SDESItem.dec_cells {b : Bytes} {it : SDESItem} (e : SDESItem.dec b = .ok it) : it.cells + 1 ≤ b.length := by
  have hl := (SDESItem.dec_ok_len e).2
  simp only [SDESItem.len, sdesTypeLen, sdesOctetCountLen] at hl
  simp only [SDESItem.cells]; omega

/-- the item loop, whatever its status: the items collected so far fit into the suffix they were read from -/
theorem decItemsP_cells (gas : Nat) (rest : Bytes) : ((decItemsP gas rest).1.map SDESItem.cells).sum ≤ rest.length := by
  induction gas generalizing rest with
  | zero => simp [decItemsP]
  | succ g ih =>
    unfold decItemsP
    split
    · simp
    · split
      · simp
      · cases hd : SDESItem.dec rest with
        | ok it =>
          dsimp only
          have hl := SDESItem.dec_ok_len hd
          have hc := SDESItem.dec_cells hd
          have := ih (rest.drop it.len)
          simp only [List.length_drop] at this
          simp only [SDESItem.len, sdesTypeLen, sdesOctetCountLen, SDESItem.cells] at hl hc
          simp only [List.map_cons, List.sum_cons, SDESItem.cells, SDESItem.len, sdesTypeLen, sdesOctetCountLen] at this ⊢
          omega
        | err => simp
        | panic => simp
        | diverge => simp

theorem SDESChunk.decP_cells (b : Bytes) : (SDESChunk.decP b).1.cells + 3 ≤ b.length ∨ (SDESChunk.decP b).1.cells = 1 := by
  unfold SDESChunk.decP
  split
  · right; rfl
  · rename_i hlen
    simp only [sdesSourceLen, sdesTypeLen, Nat.not_lt] at hlen
    cases hs : u32At b 0 with
    | ok src =>
      dsimp only
      have := decItemsP_cells (b.length + 1) (b.drop 4)
      simp only [List.length_drop] at this
      left
      simp only [SDESChunk.cells]
      omega
    | err => right; rfl
    | panic => right; rfl
    | diverge => right; rfl

theorem SDESChunk.decP_cells_le (b : Bytes) : (SDESChunk.decP b).1.cells ≤ b.length + 1 := by
  rcases SDESChunk.decP_cells b with h | h <;> omega

theorem SDESChunk.decP_ok_len {b : Bytes} {c : SDESChunk} (h : SDESChunk.decP b = (c, .ok)) : 5 ≤ b.length := by
  unfold SDESChunk.decP at h
  split at h
  · simp at h
  · rename_i hlen; simp only [sdesSourceLen, sdesTypeLen, Nat.not_lt] at hlen; exact hlen

theorem SDESChunk.dec_cells {b : Bytes} {c : SDESChunk} (e : SDESChunk.dec b = .ok c) : c.cells ≤ b.length := by
  have ⟨hst, hv⟩ := Status.toOut_eq_ok e
  have hl : 5 ≤ b.length := SDESChunk.decP_ok_len (c := (SDESChunk.decP b).1) (by rw [← hst])
  rw [← hv]
  rcases SDESChunk.decP_cells b with h | h <;> omega

theorem SDESChunk.cells_le_len (c : SDESChunk) : c.cells ≤ c.len := by
  have : (c.items.map SDESItem.cells).sum ≤ itemsLen c.items := by
    unfold itemsLen
    induction c.items with
    | nil => simp
    | cons i is ih => simp only [List.map_cons, List.sum_cons, SDESItem.cells, SDESItem.len, sdesTypeLen, sdesOctetCountLen]; omega
  simp only [SDESChunk.cells, SDESChunk.len, sdesSourceLen, sdesTypeLen]
  omega

/-- the chunk loop, whatever its status -/
theorem decChunksP_cells (gas : Nat) (rest : Bytes) : ((decChunksP gas rest).1.map SDESChunk.cells).sum ≤ rest.length := by
  induction gas generalizing rest with
  | zero => simp [decChunksP]
  | succ g ih =>
    unfold decChunksP
    split
    · simp
    · split
      · rename_i c heq
        dsimp only
        have h5 := SDESChunk.decP_ok_len heq
        have hc : c.cells ≤ rest.length := by
          have := SDESChunk.decP_cells rest
          rw [heq] at this
          dsimp only at this
          rcases this with h | h <;> omega
        have hcl := SDESChunk.cells_le_len c
        have := ih (rest.drop c.len)
        simp only [List.length_drop] at this
        simp only [List.map_cons, List.sum_cons]
        omega
      · simp

/-- `SourceDescription.Unmarshal`: receiver after the call, accepted or not -/
theorem SourceDescription.decP_cells (b : Bytes) : (SourceDescription.decP b).1.cells ≤ b.length := by
  unfold SourceDescription.decP
  cases hh : Header.dec b with
  | ok hd =>
    dsimp only
    split
    · simp [SourceDescription.cells]
    · have := decChunksP_cells (b.length + 1) (b.drop headerLength)
      simp only [List.length_drop] at this
      generalize decChunksP (b.length + 1) (b.drop headerLength) = r at this
      obtain ⟨cs, st⟩ := r
      dsimp only at this ⊢
      cases st with
      | ok => dsimp only; split <;> (simp only [SourceDescription.cells]; omega)
      | err => simp only [SourceDescription.cells]; omega
      | panic => simp only [SourceDescription.cells]; omega
      | diverge => simp only [SourceDescription.cells]; omega
  | err => simp [SourceDescription.cells]
  | panic => simp [SourceDescription.cells]
  | diverge => simp [SourceDescription.cells]

theorem SourceDescription.dec_cells {b : Bytes} {v : SourceDescription} (h : SourceDescription.dec b = .ok v) : v.cells ≤ b.length := by
  have ⟨_, hv⟩ := Status.toOut_eq_ok h
  rw [← hv]; exact SourceDescription.decP_cells b

/-! ## Goodbye, ApplicationDefined -/

theorem decSSRCs_len {n : Nat} {b : Bytes} {off : Nat} {l : List Nat} (h : decSSRCs n b off = .ok l) :
    l.length = n ∧ l.length * 4 ≤ b.length - off := by
  induction n generalizing off l with
  | zero => simp [decSSRCs] at h; subst h; simp
  | succ n ih =>
    unfold decSSRCs at h
    obtain ⟨s, hs, h⟩ := bind_eq_ok.mp h
    obtain ⟨rest, hr, h⟩ := bind_eq_ok.mp h
    simp at h
    subst h
    obtain ⟨i1, i2⟩ := ih hr
    have := (u32At_eq_ok hs).1
    simp only [ssrcLength] at i2
    simp only [List.length_cons]
    omega

theorem Goodbye.dec_cells {b : Bytes} {v : Goodbye} (h : Goodbye.dec b = .ok v) : v.cells ≤ b.length := by
  unfold Goodbye.dec at h
  obtain ⟨hd, hhd, h⟩ := bind_eq_ok.mp h
  have hc := (Header.dec_ok_fields hhd).1
  have h4 := Header.dec_ok_length hhd
  split at h
  · cases h
  · split at h
    · cases h
    · dsimp only at h
      split at h
      · cases h
      · obtain ⟨srcs, hsrcs, h⟩ := bind_eq_ok.mp h
        obtain ⟨i1, i2⟩ := decSSRCs_len hsrcs
        simp only [headerLength, ssrcLength] at i2 h
        have hmod : (4 + hd.count * 4) % 256 = 4 + hd.count * 4 := by omega
        rw [hmod] at h
        split at h
        · obtain ⟨rl, hrl, h⟩ := bind_eq_ok.mp h
          split at h
          · cases h
          · obtain ⟨r, hr, h⟩ := bind_eq_ok.mp h
            simp at h
            subst h
            obtain ⟨_, hle, _, hlen⟩ := slice_eq_ok hr
            simp only [Goodbye.cells]
            omega
        · simp at h
          subst h
          simp only [Goodbye.cells, List.length_nil]
          omega

theorem ApplicationDefined.dec_cells {b : Bytes} {v : ApplicationDefined} (h : ApplicationDefined.dec b = .ok v) : v.cells ≤ b.length := by
  unfold ApplicationDefined.dec at h
  obtain ⟨hd, hhd, h⟩ := bind_eq_ok.mp h
  split at h
  · cases h
  · split at h
    · cases h
    · split at h
      · cases h
      · obtain ⟨ssrc, hs, h⟩ := bind_eq_ok.mp h
        obtain ⟨name, hn, h⟩ := bind_eq_ok.mp h
        obtain ⟨pad, hp, h⟩ := bind_eq_ok.mp h
        split at h
        · cases h
        · obtain ⟨data, hdt, h⟩ := bind_eq_ok.mp h
          simp at h; subst h
          obtain ⟨_, _, _, hnl⟩ := slice_eq_ok hn
          obtain ⟨_, _, _, hdl⟩ := slice_eq_ok hdt
          simp only [ApplicationDefined.cells]
          omega

/-! ## feedback packets -/

theorem PictureLossIndication.dec_cells {b : Bytes} {v : PictureLossIndication} (h : PictureLossIndication.dec b = .ok v) : v.cells ≤ b.length := by
  unfold PictureLossIndication.dec at h
  split at h
  · cases h
  · rename_i hl; simp only [headerLength, ssrcLength] at hl; simp only [PictureLossIndication.cells]; omega

theorem RapidResync.dec_cells {b : Bytes} {v : RapidResync} (h : RapidResync.dec b = .ok v) : v.cells ≤ b.length := by
  unfold RapidResync.dec at h
  split at h
  · cases h
  · rename_i hl; simp only [headerLength, ssrcLength] at hl; simp only [RapidResync.cells]; omega

theorem decNacks_len (gas : Nat) (b : Bytes) (i stop : Nat) (l : List NackPair) (h : decNacks gas b i stop = .ok l) :
    l.length * 4 ≤ b.length - i := by
  induction gas generalizing i l with
  | zero => simp [decNacks] at h
  | succ g ih =>
    unfold decNacks at h
    split at h
    · obtain ⟨id, hid, h⟩ := bind_eq_ok.mp h
      obtain ⟨bm, hbm, h⟩ := bind_eq_ok.mp h
      obtain ⟨rest, hr, h⟩ := bind_eq_ok.mp h
      simp at h; subst h
      have := ih _ _ hr
      have := (u16At_eq_ok hbm).1
      simp only [List.length_cons]
      omega
    · simp at h; subst h; simp

theorem TransportLayerNack.dec_cells {b : Bytes} {v : TransportLayerNack} (h : TransportLayerNack.dec b = .ok v) : v.cells ≤ b.length := by
  unfold TransportLayerNack.dec at h
  split at h
  · cases h
  · rename_i hlen
    simp only [headerLength, ssrcLength] at hlen
    obtain ⟨hd, hhd, h⟩ := bind_eq_ok.mp h
    dsimp only at h
    split at h
    · cases h
    · split at h
      · cases h
      · split at h
        · cases h
        · obtain ⟨s, hs, h⟩ := bind_eq_ok.mp h
          obtain ⟨m, hm, h⟩ := bind_eq_ok.mp h
          obtain ⟨ns, hns, h⟩ := bind_eq_ok.mp h
          simp at h; subst h
          have := decNacks_len _ _ _ _ _ hns
          simp only [headerLength, nackOffset] at this
          simp only [TransportLayerNack.cells, sum_map_const NackPair.cells 2 (fun _ => rfl)]
          omega

theorem decSLIs_len (gas : Nat) (b : Bytes) (i stop : Nat) (l : List SLIEntry) (h : decSLIs gas b i stop = .ok l) :
    l.length * 4 ≤ b.length - i := by
  induction gas generalizing i l with
  | zero => simp [decSLIs] at h
  | succ g ih =>
    unfold decSLIs at h
    split at h
    · obtain ⟨w, hw, h⟩ := bind_eq_ok.mp h
      obtain ⟨rest, hr, h⟩ := bind_eq_ok.mp h
      simp at h; subst h
      have := ih _ _ hr
      have := (u32At_eq_ok hw).1
      simp only [List.length_cons]
      omega
    · simp at h; subst h; simp

theorem SliceLossIndication.dec_cells {b : Bytes} {v : SliceLossIndication} (h : SliceLossIndication.dec b = .ok v) : v.cells ≤ b.length := by
  unfold SliceLossIndication.dec at h
  split at h
  · cases h
  · rename_i hlen
    simp only [headerLength, sliOffset] at hlen
    obtain ⟨hd, hhd, h⟩ := bind_eq_ok.mp h
    dsimp only at h
    split at h
    · cases h
    · split at h
      · cases h
      · obtain ⟨s, hs, h⟩ := bind_eq_ok.mp h
        obtain ⟨m, hm, h⟩ := bind_eq_ok.mp h
        obtain ⟨es, hes, h⟩ := bind_eq_ok.mp h
        simp at h; subst h
        have := decSLIs_len _ _ _ _ _ hes
        simp only [headerLength, sliOffset] at this
        simp only [SliceLossIndication.cells, sum_map_const SLIEntry.cells 3 (fun _ => rfl)]
        omega

theorem decFIRs_len (gas : Nat) (b : Bytes) (i stop : Nat) (l : List FIREntry) (h : decFIRs gas b i stop = .ok l) :
    l.length * 8 ≤ b.length - i + 3 := by
  induction gas generalizing i l with
  | zero => simp [decFIRs] at h
  | succ g ih =>
    unfold decFIRs at h
    split at h
    · obtain ⟨ssrc, hid, h⟩ := bind_eq_ok.mp h
      obtain ⟨sq, hsq, h⟩ := bind_eq_ok.mp h
      obtain ⟨rest, hr, h⟩ := bind_eq_ok.mp h
      simp at h; subst h
      have := ih _ _ hr
      have := (u8At_eq_ok hsq).1
      simp only [List.length_cons]
      omega
    · simp at h; subst h; simp

theorem FullIntraRequest.dec_cells {b : Bytes} {v : FullIntraRequest} (h : FullIntraRequest.dec b = .ok v) : v.cells ≤ b.length := by
  unfold FullIntraRequest.dec at h
  split at h
  · cases h
  · rename_i hlen
    simp only [headerLength, firOffset] at hlen
    obtain ⟨hd, hhd, h⟩ := bind_eq_ok.mp h
    dsimp only at h
    split at h
    · cases h
    · split at h
      · cases h
      · split at h
        · cases h
        · obtain ⟨s, hs, h⟩ := bind_eq_ok.mp h
          obtain ⟨m, hm, h⟩ := bind_eq_ok.mp h
          obtain ⟨es, hes, h⟩ := bind_eq_ok.mp h
          simp at h; subst h
          have := decFIRs_len _ _ _ _ _ hes
          simp only [headerLength, firOffset] at this
          simp only [FullIntraRequest.cells, sum_map_const FIREntry.cells 2 (fun _ => rfl)]
          omega

/-! ## REMB -/

theorem decSSRCList_len (gas : Nat) (b : Bytes) (n size : Nat) (l : List Nat) (h : decSSRCList gas b n size = .ok l) :
    l.length * 4 ≤ b.length - n := by
  induction gas generalizing n l with
  | zero => simp [decSSRCList] at h
  | succ g ih =>
    unfold decSSRCList at h
    split at h
    · obtain ⟨s, hs, h⟩ := bind_eq_ok.mp h
      obtain ⟨rest, hr, h⟩ := bind_eq_ok.mp h
      simp at h; subst h
      have := ih _ _ hr
      have := (u32At_eq_ok hs).1
      simp only [List.length_cons]
      omega
    · simp at h; subst h; simp

theorem Remb.dec_cells {b : Bytes} {v : Remb} (h : Remb.dec b = .ok v) : v.cells ≤ b.length := by
  unfold Remb.dec at h
  split at h
  · cases h
  · rename_i hlen
    obtain ⟨b0, hb0, h⟩ := bind_eq_ok.mp h
    split at h
    · cases h
    · split at h
      · cases h
      · split at h
        · cases h
        · obtain ⟨b1, hb1, h⟩ := bind_eq_ok.mp h
          split at h
          · cases h
          · obtain ⟨len, hl, h⟩ := bind_eq_ok.mp h
            dsimp only at h
            split at h
            · cases h
            · split at h
              · cases h
              · obtain ⟨sender, hs, h⟩ := bind_eq_ok.mp h
                obtain ⟨media, hm, h⟩ := bind_eq_ok.mp h
                split at h
                · cases h
                · obtain ⟨id, hid, h⟩ := bind_eq_ok.mp h
                  split at h
                  · cases h
                  · obtain ⟨num, hnum, h⟩ := bind_eq_ok.mp h
                    split at h
                    · cases h
                    · obtain ⟨b17, h17, h⟩ := bind_eq_ok.mp h
                      obtain ⟨b18, h18, h⟩ := bind_eq_ok.mp h
                      obtain ⟨b19, h19, h⟩ := bind_eq_ok.mp h
                      obtain ⟨bits, hbits, h⟩ := bind_eq_ok.mp h
                      obtain ⟨ssrcs, hss, h⟩ := bind_eq_ok.mp h
                      simp at h; subst h
                      have := decSSRCList_len _ _ _ _ _ hss
                      simp only [Remb.cells]
                      omega

/-! ## CCFB (RFC 8888) -/

theorem CcfbMetric.dec_len {b : Bytes} {m : CcfbMetric} (e : CcfbMetric.dec b = .ok m) : b.length = 2 := by
  unfold CcfbMetric.dec at e
  split at e
  · cases e
  · rename_i h; simp only [metricBlockLength] at h; omega

theorem CcfbMetric.dec_cells {b : Bytes} {m : CcfbMetric} (e : CcfbMetric.dec b = .ok m) : m.cells ≤ 2 * b.length := by
  have := CcfbMetric.dec_len e
  simp only [CcfbMetric.cells]; omega

theorem decMetrics_len {n : Nat} {b : Bytes} {off : Nat} {ms : List CcfbMetric} (h : decMetrics n b off = .ok ms) :
    ms.length = n ∧ ms.length * 2 ≤ b.length - off := by
  induction n generalizing off ms with
  | zero => simp [decMetrics] at h; subst h; simp
  | succ n ih =>
    unfold decMetrics at h
    obtain ⟨mb, hmb, h⟩ := bind_eq_ok.mp h
    obtain ⟨m, hm, h⟩ := bind_eq_ok.mp h
    obtain ⟨rest, hr, h⟩ := bind_eq_ok.mp h
    simp at h; subst h
    obtain ⟨i1, i2⟩ := ih hr
    obtain ⟨_, hle, _, _⟩ := slice_eq_ok hmb
    simp only [List.length_cons]
    omega

theorem CcfbBlock.dec_len {b : Bytes} {blk : CcfbBlock} (e : CcfbBlock.dec b = .ok blk) : 8 + 2 * blk.metrics.length ≤ b.length := by
  unfold CcfbBlock.dec at e
  split at e
  · cases e
  · rename_i hlen
    simp only [reportsOffset, Nat.not_lt] at hlen
    obtain ⟨media, h1, e⟩ := bind_eq_ok.mp e
    obtain ⟨bs, h2, e⟩ := bind_eq_ok.mp e
    obtain ⟨field, h3, e⟩ := bind_eq_ok.mp e
    split at e
    · simp at e; subst e; simp; omega
    · split at e
      · cases e
      · dsimp only at e
        split at e
        · cases e
        · obtain ⟨ms, hms, e⟩ := bind_eq_ok.mp e
          simp at e; subst e
          obtain ⟨_, i2⟩ := decMetrics_len hms
          simp only [reportsOffset] at i2
          simp only
          omega

theorem metrics_cells (l : List CcfbMetric) : (l.map CcfbMetric.cells).sum = 3 * l.length :=
  sum_map_const _ 3 (fun _ => rfl) l

theorem CcfbBlock.dec_cells {b : Bytes} {blk : CcfbBlock} (e : CcfbBlock.dec b = .ok blk) : blk.cells ≤ 2 * b.length := by
  have := CcfbBlock.dec_len e
  simp only [CcfbBlock.cells, metrics_cells]; omega

theorem CcfbBlock.len_ge (blk : CcfbBlock) : 8 + 2 * blk.metrics.length ≤ blk.len := by
  simp only [CcfbBlock.len, reportsOffset]; split <;> omega

/-- the block loop, whatever its status -/
theorem decBlocksP_cells (gas : Nat) (rest : Bytes) (tsOff : Nat) :
    ((decBlocksP gas rest tsOff).1.map CcfbBlock.cells).sum ≤ 2 * rest.length := by
  induction gas generalizing rest tsOff with
  | zero => simp [decBlocksP]
  | succ g ih =>
    unfold decBlocksP
    split
    · simp
    · cases hd : CcfbBlock.dec rest with
      | ok blk =>
        dsimp only
        have h1 := CcfbBlock.dec_len hd
        have h2 := CcfbBlock.len_ge blk
        have := ih (rest.drop blk.len) (tsOff - blk.len)
        simp only [List.length_drop] at this
        simp only [List.map_cons, List.sum_cons, CcfbBlock.cells, metrics_cells]
        omega
      | err => simp [Out.status]
      | panic => simp [Out.status]
      | diverge => simp [Out.status]

/-- `CCFeedbackReport.Unmarshal`: the receiver after the call, accepted or not -/
theorem Ccfb.decP_cells (b : Bytes) : (Ccfb.decP b).1.cells ≤ 2 * b.length + 2 := by
  unfold Ccfb.decP
  split
  · simp [Ccfb.cells]
  · rename_i hlen
    simp only [headerLength, ssrcLength, reportTimestampLength, Nat.not_lt] at hlen
    cases hh : Header.dec b with
    | ok hd =>
      dsimp only
      split
      · simp [Ccfb.cells]
      · split
        · have := decBlocksP_cells (b.length + 1) (b.drop reportBlockOffset) (b.length - reportTimestampLength - reportBlockOffset)
          simp only [List.length_drop, reportBlockOffset] at this
          generalize decBlocksP (b.length + 1) (b.drop reportBlockOffset) (b.length - reportTimestampLength - reportBlockOffset) = r at this
          obtain ⟨bs, st⟩ := r
          dsimp only at this ⊢
          simp only [Ccfb.cells]
          omega
        · simp [Ccfb.cells]
    | err => simp [Ccfb.cells]
    | panic => simp [Ccfb.cells]
    | diverge => simp [Ccfb.cells]

theorem Ccfb.decP_ok_len {b : Bytes} (h : (Ccfb.decP b).2 = .ok) : 12 ≤ b.length := by
  unfold Ccfb.decP at h
  split at h
  · simp at h
  · rename_i hlen; simp only [headerLength, ssrcLength, reportTimestampLength, Nat.not_lt] at hlen; exact hlen

theorem Ccfb.dec_cells {b : Bytes} {v : Ccfb} (h : Ccfb.dec b = .ok v) : v.cells ≤ 2 * b.length := by
  have ⟨hst, hv⟩ := Status.toOut_eq_ok h
  have := Ccfb.decP_ok_len hst
  rw [← hv]
  -- tighter than `decP_cells`: redo with the length known
  have hc := Ccfb.decP_cells b
  unfold Ccfb.decP at hc ⊢
  rw [if_neg (by simp only [headerLength, ssrcLength, reportTimestampLength]; omega)] at hc ⊢
  cases hh : Header.dec b with
  | ok hd =>
    rw [hh] at hc; dsimp only at hc ⊢
    split
    · simp [Ccfb.cells]; omega
    · split
      · have := decBlocksP_cells (b.length + 1) (b.drop reportBlockOffset) (b.length - reportTimestampLength - reportBlockOffset)
        simp only [List.length_drop, reportBlockOffset] at this
        generalize decBlocksP (b.length + 1) (b.drop reportBlockOffset) (b.length - reportTimestampLength - reportBlockOffset) = r at this
        obtain ⟨bs, st⟩ := r
        dsimp only at this ⊢
        simp only [Ccfb.cells]
        omega
      · simp [Ccfb.cells]; omega
  | err => simp [Ccfb.cells]; omega
  | panic => simp [Ccfb.cells]; omega
  | diverge => simp [Ccfb.cells]; omega

/-! ## TWCC -/

theorem TwccChunk.cells_le (c : TwccChunk) (hsv : ∀ t ss syms, c = .sv t ss syms → syms.length ≤ 14) : c.cells ≤ 16 := by
  cases c with
  | rl t s r => simp [TwccChunk.cells]
  | sv t ss syms => have := hsv t ss syms rfl; simp only [TwccChunk.cells]; omega

theorem rlChunkDec_len {b : Bytes} {c : TwccChunk} (e : rlChunkDec b = .ok c) : b.length = 2 := by
  unfold rlChunkDec at e
  split at e
  · cases e
  · rename_i h; simp only [packetStatusChunkLength] at h; omega

theorem svChunkDec_len2 {b : Bytes} {c : TwccChunk} (e : svChunkDec b = .ok c) : b.length = 2 := by
  unfold svChunkDec at e
  split at e
  · cases e
  · rename_i h; simp only [packetStatusChunkLength] at h; omega

theorem rlChunkDec_cells {b : Bytes} {c : TwccChunk} (e : rlChunkDec b = .ok c) : c.cells ≤ 8 * b.length := by
  have := TwccChunk.cells_le c (rlChunkDec_not_sv e)
  have := rlChunkDec_len e
  omega

theorem svChunkDec_cells {b : Bytes} {c : TwccChunk} (e : svChunkDec b = .ok c) : c.cells ≤ 8 * b.length := by
  have := TwccChunk.cells_le c (svChunkDec_len e)
  have := svChunkDec_len2 e
  omega

theorem RecvDelta.dec_cells {b : Bytes} {d : RecvDelta} (e : RecvDelta.dec b = .ok d) : d.cells ≤ 2 * b.length := by
  unfold RecvDelta.dec at e
  split at e
  · cases e
  · simp only [RecvDelta.cells]; omega

/-- every delta a chunk announces is a small or a large one -/
theorem chunkDeltas_types (count processed : Nat) (c : TwccChunk) :
    ∀ d ∈ (chunkDeltas count processed c).1, d.type = 1 ∨ d.type = 2 := by
  intro d hd
  cases c with
  | rl t sym run =>
    simp only [chunkDeltas] at hd
    split at hd
    · rename_i hs
      have := List.eq_of_mem_replicate hd
      subst this
      simpa using hs
    · simp at hd
  | sv t ss syms =>
    simp only [chunkDeltas] at hd
    split at hd
    · obtain ⟨s, hs, rfl⟩ := List.mem_map.mp hd
      have := (List.mem_filter.mp hs).2
      left; simpa using this
    · split at hd
      · obtain ⟨s, hs, rfl⟩ := List.mem_map.mp hd
        have := (List.mem_filter.mp hs).2
        simpa using this
      · simp at hd

/-- invariants of the status chunk loop: every chunk has at most 16 cells, every announced delta is small or large,
and when the loop ends normally it stands exactly behind the chunks it read -/
theorem twccChunkLoop_inv (gas : Nat) (b : Bytes) (total count pos processed : Nat) (hpos : pos ≤ total) (ht : total ≤ 65532) :
    (∀ c ∈ (twccChunkLoop gas b total count pos processed).1, c.cells ≤ 16) ∧
    (∀ d ∈ (twccChunkLoop gas b total count pos processed).2.1, d.type = 1 ∨ d.type = 2) ∧
    ((twccChunkLoop gas b total count pos processed).2.2.2 = .ok →
      (twccChunkLoop gas b total count pos processed).2.2.1 = pos + 2 * (twccChunkLoop gas b total count pos processed).1.length ∧
      (twccChunkLoop gas b total count pos processed).2.2.1 ≤ total) := by
  induction gas generalizing pos processed with
  | zero => simp [twccChunkLoop]
  | succ g ih =>
    unfold twccChunkLoop
    split
    · split
      · simp
      · rename_i h1 h2
        have hmod : (pos + packetStatusChunkLength) % 65536 = pos + 2 := by unfold_consts; omega
        rw [hmod] at h2
        split
        · rename_i b0 cb hb0 hcb
          dsimp only
          split
          · rename_i c hr
            dsimp only
            have hsv : ∀ t ss syms, c = .sv t ss syms → syms.length ≤ 14 := by
              split at hr
              · exact rlChunkDec_not_sv hr
              · exact svChunkDec_len hr
            have hcc := TwccChunk.cells_le c hsv
            have hty := chunkDeltas_types count processed c
            rw [hmod]
            have := ih (pos + 2) (chunkDeltas count processed c).2 (by omega)
            generalize twccChunkLoop g b total count (pos + 2) (chunkDeltas count processed c).2 = r at this ⊢
            obtain ⟨cs, ds', pos', st⟩ := r
            obtain ⟨i1, i2, i3⟩ := this
            dsimp only at i1 i2 i3 ⊢
            refine ⟨?_, ?_, ?_⟩
            · intro x hx
              rcases List.mem_cons.mp hx with hx | hx
              · rw [hx]; exact hcc
              · exact i1 x hx
            · intro d hd
              rcases List.mem_append.mp hd with hd | hd
              · exact hty d hd
              · exact i2 d hd
            · intro hst
              have := i3 hst
              simp only [List.length_cons]
              omega
          · rename_i o hne
            dsimp only
            refine ⟨by simp, by simp, ?_⟩
            intro hs
            generalize (if getNBitsFromByte b0 0 1 = TypeTCCRunLengthChunk then rlChunkDec cb else svChunkDec cb) = o' at hne hs
            cases o' <;> simp [Out.status] at hs
            exact (hne _ rfl).elim
        · simp
    · simp; omega

/-- the delta loop ends normally only if every announced delta found its octets before `total` -/
theorem twccDeltaLoop_ok (ds : List RecvDelta) (b : Bytes) (total pos : Nat) (hty : ∀ d ∈ ds, d.type = 1 ∨ d.type = 2)
    (hpos : pos ≤ total) (ht : total ≤ 65532) (hok : (twccDeltaLoop ds b total pos).2 = .ok) : ds.length + pos ≤ total := by
  induction ds generalizing pos with
  | nil => simpa using hpos
  | cons d ds ih =>
    have hty' : ∀ x ∈ ds, x.type = 1 ∨ x.type = 2 := fun x hx => hty x (by simp [hx])
    unfold twccDeltaLoop at hok
    split at hok
    · split at hok
      · simp at hok
      · rename_i h1 h2
        have hm : (pos + 1) % 65536 = pos + 1 := by omega
        rw [hm] at h2 hok
        split at hok
        · have := ih (pos + 1) hty' (by omega) hok
          simp only [List.length_cons]; omega
        · rename_i o hne
          unfold Out.status at hok
          split at hok
          · rename_i a heq; exact (hne a heq).elim
          all_goals cases hok
    · split at hok
      · split at hok
        · simp at hok
        · rename_i h1 h2 h3
          have hm : (pos + 2) % 65536 = pos + 2 := by omega
          rw [hm] at h3 hok
          split at hok
          · have := ih (pos + 2) hty' (by omega) hok
            simp only [List.length_cons]; omega
          · rename_i o hne
            unfold Out.status at hok
            split at hok
            · rename_i a heq; exact (hne a heq).elim
            all_goals cases hok
      · rename_i h1 h2
        have := hty d (by simp)
        simp only [TypeTCCPacketReceivedSmallDelta, TypeTCCPacketReceivedLargeDelta] at h1 h2
        omega

theorem deltas_cells (l : List RecvDelta) : (l.map RecvDelta.cells).sum = 2 * l.length :=
  sum_map_const _ 2 (fun _ => rfl) l

/-- `TransportLayerCC.Unmarshal`: the receiver after the call.
Whatever the status: at most `8·|b|` cells plus the deltas a rejected packet may have announced (at most 65549, two cells each).
When the packet is accepted: at most `8·|b|` cells. -/
theorem Twcc.decP_cells (b : Bytes) :
    (Twcc.decP b).1.cells ≤ 8 * b.length + 131108 ∧ ((Twcc.decP b).2 = .ok → (Twcc.decP b).1.cells ≤ 8 * b.length) := by
  unfold Twcc.decP
  split
  · exact ⟨by simp [Twcc.cells, Header.cells], by intro h; cases h⟩
  · rename_i hlen
    split
    · rename_i h heq
      dsimp only
      generalize htot : (4 * ((h.length + 1) % 65536)) % 65536 = total
      have ht : total ≤ 65532 := by omega
      split
      · exact ⟨by simp [Twcc.cells, Header.cells], by intro h; cases h⟩
      · split
        · exact ⟨by simp [Twcc.cells, Header.cells], by intro h; cases h⟩
        · split
          · exact ⟨by simp [Twcc.cells, Header.cells], by intro h; cases h⟩
          · rename_i h1 h2 h3
            simp only [headerLength, packetChunkOffset, Nat.not_lt] at h1 h2
            rw [u32At_of_le (by lomega), u32At_of_le (by lomega), u16At_of_le (by lomega), u16At_of_le (by lomega),
              u24At_of_le (by lomega), u8At_of_lt (by lomega)]
            dsimp only
            have hcount := get16_lt b (headerLength + packetStatusCountOffset)
            have hl := twccChunkLoop_bound (b.length + 1) b total (get16 b (headerLength + packetStatusCountOffset))
              (headerLength + packetChunkOffset) 0 (by omega) (by omega) (by lomega) ht
            have hi := twccChunkLoop_inv (b.length + 1) b total (get16 b (headerLength + packetStatusCountOffset))
              (headerLength + packetChunkOffset) 0 (by lomega) ht
            generalize twccChunkLoop (b.length + 1) b total (get16 b (headerLength + packetStatusCountOffset))
              (headerLength + packetChunkOffset) 0 = r at hl hi
            obtain ⟨cs, ds, pos, st⟩ := r
            obtain ⟨i1, i2, i3⟩ := hi
            simp only [headerLength, packetChunkOffset] at hl i1 i2 i3 hcount ⊢
            have hcs := sum_map_le TwccChunk.cells 16 cs i1
            cases st with
            | ok =>
              dsimp only
              obtain ⟨p1, p2⟩ := i3 rfl
              have hlen2 := twccDeltaLoop_length ds b total pos
              have hok := twccDeltaLoop_ok ds b total pos i2 p2 ht
              generalize twccDeltaLoop ds b total pos = r2 at hlen2 hok
              obtain ⟨ds', st'⟩ := r2
              dsimp only at hlen2 hok ⊢
              simp only [Twcc.cells, Header.cells, deltas_cells]
              refine ⟨by omega, ?_⟩
              intro hst
              have := hok hst
              omega
            | err => exact ⟨by simp only [Twcc.cells, Header.cells, deltas_cells]; omega, by intro h; cases h⟩
            | panic => exact ⟨by simp only [Twcc.cells, Header.cells, deltas_cells]; omega, by intro h; cases h⟩
            | diverge => exact ⟨by simp only [Twcc.cells, Header.cells, deltas_cells]; omega, by intro h; cases h⟩
    · rename_i o hne
      refine ⟨by simp [Twcc.cells, Header.cells], ?_⟩
      intro hs
      dsimp only at hs
      unfold Out.status at hs
      split at hs
      · rename_i a heq; exact (hne a heq).elim
      all_goals cases hs

theorem Twcc.dec_cells {b : Bytes} {v : Twcc} (h : Twcc.dec b = .ok v) : v.cells ≤ 8 * b.length := by
  have ⟨hst, hv⟩ := Status.toOut_eq_ok h
  rw [← hv]; exact (Twcc.decP_cells b).2 hst

/-! ## XR: the reflective reader over a layout -/

/-- every wire width of the layout is at least one octet (true of the eight generated layouts: `layouts_pos`) -/
def itemsPos : List Item → Bool
  | [] => true
  | .scalar _ w :: is => decide (1 ≤ w) && itemsPos is
  | .sliceOf _ ws :: is => ws.all (fun w => decide (1 ≤ w)) && itemsPos is
  | .skip _ :: is => itemsPos is
  | .omitted _ :: is => itemsPos is
  | .blocks _ :: is => itemsPos is
  | .bad _ :: is => itemsPos is

/-- octets of the fixed part that do not become a cell of their own: `w - 1` per scalar, `w` per skipped field -/
def itemsSlack : List Item → Nat
  | [] => 0
  | .scalar _ w :: is => (w - 1) + itemsSlack is
  | .skip w :: is => w + itemsSlack is
  | .sliceOf _ _ :: is => itemsSlack is
  | .omitted _ :: is => itemsSlack is
  | .blocks _ :: is => itemsSlack is
  | .bad _ :: is => itemsSlack is

theorem readElem_len_sz (ws : List Nat) (b : Bytes) (vs : List Nat) (rest : Bytes) (h : readElem ws b = .ok (vs, rest))
    (hp : ∀ w ∈ ws, 1 ≤ w) : vs.length + rest.length ≤ b.length := by
  induction ws generalizing b vs rest with
  | nil => simp [readElem] at h; obtain ⟨h1, h2⟩ := h; subst h1; subst h2; simp
  | cons w ws ih =>
    unfold readElem at h
    split at h
    · cases h
    · rename_i hl
      obtain ⟨⟨vs', r'⟩, h1, h⟩ := bind_eq_ok.mp h
      simp at h
      obtain ⟨e1, e2⟩ := h
      subst e1; subst e2
      have := ih (b.drop w) vs' r' h1 (fun x hx => hp x (by simp [hx]))
      have := hp w (by simp)
      simp only [List.length_drop] at *
      simp only [List.length_cons]
      omega

theorem readElems_cells_len (gas : Nat) (ws : List Nat) (b : Bytes) (es : List (List Nat)) (h : readElems gas ws b = .ok es)
    (hp : ∀ w ∈ ws, 1 ≤ w) : (es.map List.length).sum ≤ b.length := by
  induction gas generalizing b es with
  | zero => simp [readElems] at h
  | succ g ih =>
    unfold readElems at h
    split at h
    · simp at h; subst h; simp
    · obtain ⟨⟨e, rest⟩, h1, h⟩ := bind_eq_ok.mp h
      dsimp only at h
      obtain ⟨es', h2, h⟩ := bind_eq_ok.mp h
      simp at h; subst h
      have := readElem_len_sz ws b e rest h1 hp
      have := ih rest es' h2
      simp only [List.map_cons, List.sum_cons]
      omega

theorem readItems_len (items : List Item) (b : Bytes) (vs : List Nat) (es : List (List Nat)) (rest : Bytes)
    (h : readItems items b = .ok (vs, es, rest)) (hp : itemsPos items = true) :
    vs.length + itemsSlack items + (es.map List.length).sum + rest.length ≤ b.length := by
  induction items generalizing b vs es rest with
  | nil => simp [readItems] at h; obtain ⟨h1, h2, h3⟩ := h; subst h1; subst h2; subst h3; simp [itemsSlack]
  | cons it is ih =>
    cases it with
    | scalar n w =>
      simp only [itemsPos, Bool.and_eq_true, decide_eq_true_eq] at hp
      simp only [readItems] at h
      split at h
      · cases h
      · obtain ⟨⟨vs', es', r'⟩, h1, h⟩ := bind_eq_ok.mp h
        simp at h
        obtain ⟨e1, e2, e3⟩ := h
        subst e1; subst e2; subst e3
        have := ih (b.drop w) vs' es' r' h1 hp.2
        simp only [List.length_drop] at this
        simp only [List.length_cons, itemsSlack]
        omega
    | skip w =>
      simp only [itemsPos] at hp
      simp only [readItems] at h
      split at h
      · cases h
      · have := ih (b.drop w) vs es rest h hp
        simp only [List.length_drop] at this
        simp only [itemsSlack]
        omega
    | omitted n =>
      simp only [itemsPos] at hp
      simp only [readItems] at h
      have := ih b vs es rest h hp
      simp only [itemsSlack]
      omega
    | sliceOf n ws =>
      simp only [itemsPos, Bool.and_eq_true, List.all_eq_true, decide_eq_true_eq] at hp
      simp only [readItems] at h
      obtain ⟨es1, h1, h⟩ := bind_eq_ok.mp h
      obtain ⟨⟨vs', es', r'⟩, h2, h⟩ := bind_eq_ok.mp h
      simp at h
      obtain ⟨e1, e2, e3⟩ := h
      subst e1; subst e2; subst e3
      have a1 := readElems_cells_len _ ws b es1 h1 hp.1
      have a2 := ih [] vs' es' r' h2 hp.2
      simp only [List.length_nil] at a2
      simp only [itemsSlack, List.map_append, List.sum_append]
      omega
    | blocks n => simp [readItems] at h
    | bad n => simp [readItems] at h

/-- the eight generated layouts have positive widths -/
theorem layouts_pos : ∀ k, itemsPos (layoutOf k).items = true := by
  intro k
  unfold layoutOf
  split <;> decide

theorem xrKindOfType_le (bt : Nat) : xrKindOfType bt ≤ 7 := by
  unfold xrKindOfType; split <;> omega

/-- after `unpackBlockHeader` the `omit` fields plus the block's kind tag are paid for by the slack of the fixed part -/
theorem unpack_omits (kind bt ts bl : Nat) (vals : List Nat) (elems : List (List Nat)) (hk : kind ≤ 7) :
    (XRBlock.unpack { kind := kind, bt := bt, ts := ts, bl := bl, omits := xrFreshOmits kind, vals := vals, elems := elems }).cells
      ≤ 3 + vals.length + itemsSlack (layoutOf kind).items + (elems.map List.length).sum := by
  have : kind = 0 ∨ kind = 1 ∨ kind = 2 ∨ kind = 3 ∨ kind = 4 ∨ kind = 5 ∨ kind = 6 ∨ kind = 7 := by omega
  rcases this with h | h | h | h | h | h | h | h <;> subst h <;>
    simp only [XRBlock.unpack, XRBlock.cells, xrFreshOmits, layoutOf, layout0, layout1, layout2, layout3, layout4, layout5, layout6, layout7,
      itemsSlack, List.length_cons, List.length_nil] <;> omega

theorem layoutXRHeader_facts : itemsPos layoutXRHeader.items = true ∧ itemsSlack layoutXRHeader.items = 1 := by decide

/-- one XR report block costs no more cells than the octets it consumes -/
theorem xrDecBlock_cells {buf : Bytes} {blk : XRBlock} {rest : Bytes} (h : xrDecBlock buf = .ok (blk, rest)) :
    blk.cells + rest.length ≤ buf.length ∧ rest.length + 4 ≤ buf.length := by
  unfold xrDecBlock at h
  obtain ⟨⟨hv, es0, r0⟩, h1, h⟩ := bind_eq_ok.mp h
  have a1 := readItems_len _ _ _ _ _ h1 layoutXRHeader_facts.1
  rw [layoutXRHeader_facts.2] at a1
  dsimp only at h
  split at h
  · rename_i bt ts0 bl
    obtain ⟨⟨vs, es, r1⟩, h2, h⟩ := bind_eq_ok.mp h
    have a2 := readItems_len _ _ _ _ _ h2 (layouts_pos _)
    dsimp only at h
    split at h
    · rename_i bt' ts' bl' vals
      simp at h
      obtain ⟨e1, e2⟩ := h
      have hu := unpack_omits (xrKindOfType bt) bt' ts' bl' vals es (xrKindOfType_le bt)
      rw [e1] at hu
      simp only [List.length_cons, List.length_nil, List.length_take] at a1 a2
      rw [← e2]
      simp only [List.length_drop]
      constructor
      · split at a2 <;> split <;> omega
      · split <;> omega
    · cases h
  · cases h

theorem xrDecBlocksP_cells (gas : Nat) (buf : Bytes) : ((xrDecBlocksP gas buf).1.map XRBlock.cells).sum ≤ buf.length := by
  induction gas generalizing buf with
  | zero => simp [xrDecBlocksP]
  | succ g ih =>
    unfold xrDecBlocksP
    split
    · simp
    · cases hd : xrDecBlock buf with
      | ok r =>
        obtain ⟨blk, rest⟩ := r
        dsimp only
        have := (xrDecBlock_cells hd).1
        have := ih rest
        simp only [List.map_cons, List.sum_cons]
        omega
      | err => simp [Out.status]
      | panic => simp [Out.status]
      | diverge => simp [Out.status]

/-- `ExtendedReport.Unmarshal`: the receiver after the call, accepted or not -/
theorem XR.decP_cells (b : Bytes) : (XR.decP b).1.cells ≤ b.length + 1 ∧ ((XR.decP b).2 = .ok → (XR.decP b).1.cells ≤ b.length) := by
  unfold XR.decP
  cases hh : Header.dec b with
  | ok hd =>
    dsimp only
    split
    · exact ⟨by simp [XR.cells], by intro h; cases h⟩
    · split
      · exact ⟨by simp [XR.cells], by intro h; cases h⟩
      · rename_i hl
        simp only [List.length_drop, headerLength] at hl
        have := xrDecBlocksP_cells (b.length + 1) ((b.drop headerLength).drop 4)
        simp only [List.length_drop, headerLength] at this
        generalize xrDecBlocksP (b.length + 1) ((b.drop headerLength).drop 4) = r at this
        obtain ⟨bs, st⟩ := r
        dsimp only at this ⊢
        simp only [XR.cells]
        constructor
        · omega
        · intro _; omega
  | err => exact ⟨by simp [XR.cells], by intro h; cases h⟩
  | panic => exact ⟨by simp [XR.cells], by intro h; cases h⟩
  | diverge => exact ⟨by simp [XR.cells], by intro h; cases h⟩

theorem XR.dec_cells {b : Bytes} {v : XR} (h : XR.dec b = .ok v) : v.cells ≤ b.length := by
  have ⟨hst, hv⟩ := Status.toOut_eq_ok h
  rw [← hv]; exact (XR.decP_cells b).2 hst

/-! ## dispatch and the datagram loop -/

theorem rawDec_cells {f b : Bytes} (h : rawDec f = .ok b) : b.length ≤ f.length := by
  unfold rawDec at h
  split at h
  · cases h
  · obtain ⟨_, _, h⟩ := bind_eq_ok.mp h
    simp at h; subst h; exact Nat.le_refl _

/-- every packet type's own `Unmarshal`: the value built has at most `8·|f|` cells
(the factor is TWCC's: a two-octet status vector chunk holds 14 one-bit symbols, 16 cells) -/
theorem decKind_cells (k : Kind) (f : Bytes) (p : Packet) (h : decKind k f = .ok p) : p.cells ≤ 8 * f.length + 0 := by
  cases k <;> unfold decKind at h <;> obtain ⟨v, hv, rfl⟩ := map_eq_ok.mp h <;> simp only [Packet.cells]
  · have := SenderReport.dec_cells hv; omega
  · have := ReceiverReport.dec_cells hv; omega
  · have := SourceDescription.dec_cells hv; omega
  · have := Goodbye.dec_cells hv; omega
  · have := ApplicationDefined.dec_cells hv; omega
  · have := TransportLayerNack.dec_cells hv; omega
  · have := RapidResync.dec_cells hv; omega
  · have := Twcc.dec_cells hv; omega
  · have := Ccfb.dec_cells hv; omega
  · have := PictureLossIndication.dec_cells hv; omega
  · have := SliceLossIndication.dec_cells hv; omega
  · have := Remb.dec_cells hv; omega
  · have := FullIntraRequest.dec_cells hv; omega
  · have := XR.dec_cells hv; omega
  · have := rawDec_cells hv; omega

theorem unmarshalOne_cells {b : Bytes} {p : Packet} {n : Nat} (h : unmarshalOne b = .ok (p, n)) :
    p.cells ≤ 8 * n ∧ 4 ≤ n ∧ n ≤ b.length := by
  have hp := unmarshalOne_progress h
  unfold unmarshalOne at h
  obtain ⟨hd, hhd, h⟩ := bind_eq_ok.mp h
  dsimp only at h
  split at h
  · cases h
  · obtain ⟨inp, hinp, h⟩ := bind_eq_ok.mp h
    obtain ⟨q, hq, h⟩ := bind_eq_ok.mp h
    simp at h
    obtain ⟨e1, e2⟩ := h
    subst e1; subst e2
    obtain ⟨_, _, _, hil⟩ := slice_eq_ok hinp
    have := decKind_cells _ _ _ hq
    refine ⟨by omega, hp.1, hp.2⟩

/-- the frames partition the datagram, so the bounds add up; and there are at most `|b|/4` packets -/
theorem unmarshalLoop_cells (gas : Nat) (b : Bytes) (ps : List Packet) (h : unmarshalLoop gas b = .ok ps) :
    cellsOf ps ≤ 8 * b.length ∧ ps.length * 4 ≤ b.length := by
  induction gas generalizing b ps with
  | zero => simp [unmarshalLoop] at h
  | succ g ih =>
    unfold unmarshalLoop at h
    split at h
    · simp at h; subst h; simp [cellsOf]
    · obtain ⟨⟨p, n⟩, hp, h⟩ := bind_eq_ok.mp h
      dsimp only at h
      obtain ⟨rest, hr, h⟩ := bind_eq_ok.mp h
      obtain ⟨qs, hq, h⟩ := bind_eq_ok.mp h
      simp at h; subst h
      obtain ⟨c1, c2, c3⟩ := unmarshalOne_cells hp
      obtain ⟨_, _, hrl⟩ := sliceFrom_eq_ok hr
      obtain ⟨i1, i2⟩ := ih rest qs hq
      simp only [cellsOf, List.map_cons, List.sum_cons, List.length_cons] at i1 ⊢
      omega

theorem udec_cells (b : Bytes) (ps : List Packet) (h : udec b = .ok ps) :
    cellsOf ps ≤ 8 * b.length ∧ ps.length * 4 ≤ b.length := by
  unfold udec at h
  obtain ⟨qs, hq, h⟩ := bind_eq_ok.mp h
  split at h
  · cases h
  · simp at h; subst h; exact unmarshalLoop_cells _ _ _ hq

theorem cdec_cells (b : Bytes) (ps : List Packet) (h : cdec b = .ok ps) :
    cellsOf ps ≤ 8 * b.length ∧ ps.length * 4 ≤ b.length := by
  unfold cdec at h
  obtain ⟨qs, hq, h⟩ := bind_eq_ok.mp h
  obtain ⟨_, _, h⟩ := bind_eq_ok.mp h
  simp at h; subst h; exact unmarshalLoop_cells _ _ _ hq

end Rtcp
