/-
  C02 helper lemmas, part 3: Goodbye, ApplicationDefined, NACK, SLI, FIR round trips.
-/
import Rtcp.Lemmas.RT2
namespace Rtcp
open Gen Out
set_option linter.unusedSimpArgs false
set_option linter.unusedVariables false

/-! ### generic: reading a list of 32-bit words back -/

theorem encSSRCs_length (l : List Nat) : (encSSRCs l).length = l.length * 4 := by
  induction l with
  | nil => rfl
  | cons x xs ih => simp [encSSRCs] at ih ⊢; omega

theorem decSSRCs_bytes (l : List Nat) (pre post : Bytes) (h : ∀ s ∈ l, s < 4294967296) :
    decSSRCs l.length (pre ++ (encSSRCs l ++ post)) pre.length = .ok l := by
  induction l generalizing pre with
  | nil => simp [decSSRCs]
  | cons x xs ih =>
    simp only [List.length_cons]
    rw [decSSRCs]
    have hb : encSSRCs (x :: xs) ++ post = be32 x ++ (encSSRCs xs ++ post) := by simp [encSSRCs]
    rw [hb, u32At_of_le (by slen), get32_at pre _ x _ rfl (h x (by simp))]
    rw [bind_ok]
    have hre : pre ++ (be32 x ++ (encSSRCs xs ++ post)) = (pre ++ be32 x) ++ (encSSRCs xs ++ post) := by simp
    have hl : pre.length + ssrcLength = (pre ++ be32 x).length := by simp
    rw [hre, hl, ih (pre ++ be32 x) (fun s hs => h s (by simp [hs]))]
    simp

/-! ### Goodbye -/

theorem Goodbye.size_noreason (srcs : List Nat) : (Goodbye.mk srcs []).marshalSize = 4 + srcs.length * 4 := by
  simp [Goodbye.marshalSize]
  exact getPadding_eq_zero (by omega)

theorem Goodbye.roundtrip_noreason (srcs : List Nat) (h1 : srcs.length ≤ 31) (h2 : ∀ s ∈ srcs, s < 4294967296) :
    ((Goodbye.mk srcs []).enc >>= Goodbye.dec) = .ok (Goodbye.mk srcs []) := by
  have hsz := Goodbye.size_noreason srcs
  have hht : (Goodbye.mk srcs []).header.type = TypeGoodbye := rfl
  have hhl : (Goodbye.mk srcs []).header.length < 65536 := by simp [Goodbye.header, hsz]; omega
  have hhc : (Goodbye.mk srcs []).header.count = srcs.length := by simp [Goodbye.header]; omega
  unfold Goodbye.enc
  rw [if_neg (by simp; omega), if_neg (by simp), Header.enc_ok _ (by omega)]
  rw [bind_ok]
  simp only [List.length_nil, Nat.lt_irrefl, if_false, pure_eq, List.append_nil, hsz, encSSRCs_length]
  have hz : 4 + srcs.length * 4 - headerLength - srcs.length * 4 = 0 := by simp only [headerLength]; omega
  rw [hz]
  simp only [zeros, List.replicate_zero, List.append_nil, bind_ok]
  unfold Goodbye.dec
  have hd := Header.dec_bytes (Goodbye.mk srcs []).header (encSSRCs srcs) (by omega) (by rw [hht]; decide) hhl
  rw [hd, bind_ok]
  rw [if_neg (fun hne => hne hht)]
  have hlen : ((Goodbye.mk srcs []).header.bytes ++ encSSRCs srcs).length = 4 + srcs.length * 4 := by simp [encSSRCs_length]
  rw [hlen, if_neg (by rw [getPadding_eq_zero (by omega)]; simp)]
  rw [hhc]
  have hro : (headerLength + srcs.length * ssrcLength) % 256 = 4 + srcs.length * 4 := by simp only [headerLength, ssrcLength]; omega
  simp only [hro]
  rw [if_neg (by omega)]
  have hsrc := decSSRCs_bytes srcs (Goodbye.mk srcs []).header.bytes [] h2
  simp only [Header.bytes_length, List.append_nil] at hsrc
  rw [hsrc, bind_ok, if_neg (by omega)]
  rfl

theorem Goodbye.size_reason (srcs : List Nat) (reason : Bytes) (hr : 0 < reason.length) :
    (Goodbye.mk srcs reason).marshalSize = 4 + srcs.length * 4 + (reason.length + 1) + getPadding (4 + srcs.length * 4 + (reason.length + 1)) := by
  simp [Goodbye.marshalSize, hr]

theorem Goodbye.roundtrip_reason (srcs : List Nat) (reason : Bytes) (h1 : srcs.length ≤ 31) (h2 : ∀ s ∈ srcs, s < 4294967296)
    (hr : 0 < reason.length) (h3 : reason.length ≤ 255) :
    ((Goodbye.mk srcs reason).enc >>= Goodbye.dec) = .ok (Goodbye.mk srcs reason) := by
  have hsz := Goodbye.size_reason srcs reason hr
  have hp := getPadding_lt (4 + srcs.length * 4 + (reason.length + 1))
  have hm := add_getPadding_mod (4 + srcs.length * 4 + (reason.length + 1))
  generalize hpd : getPadding (4 + srcs.length * 4 + (reason.length + 1)) = pad at hsz hp hm
  have hht : (Goodbye.mk srcs reason).header.type = TypeGoodbye := rfl
  have hhl : (Goodbye.mk srcs reason).header.length < 65536 := by simp [Goodbye.header, hsz]; omega
  have hhc : (Goodbye.mk srcs reason).header.count = srcs.length := by simp [Goodbye.header]; omega
  unfold Goodbye.enc
  rw [if_neg (by simp; omega), if_neg (by simp; omega), Header.enc_ok _ (by omega)]
  rw [bind_ok]
  simp only [hr, if_true, pure_eq, hsz, List.length_append, encSSRCs_length, List.length_cons, List.length_nil]
  have hz : 4 + srcs.length * 4 + (reason.length + 1) + pad - headerLength - (srcs.length * 4 + (0 + 1 + reason.length)) = pad := by
    simp only [headerLength]; omega
  rw [hz, bind_ok]
  unfold Goodbye.dec
  simp only [List.append_assoc]
  have hd := Header.dec_bytes (Goodbye.mk srcs reason).header (encSSRCs srcs ++ ([byte reason.length] ++ (reason ++ zeros pad))) (by omega) (by rw [hht]; decide) hhl
  rw [hd, bind_ok]
  rw [if_neg (fun hne => hne hht)]
  have hlen : ((Goodbye.mk srcs reason).header.bytes ++ (encSSRCs srcs ++ ([byte reason.length] ++ (reason ++ zeros pad)))).length
      = 4 + srcs.length * 4 + (reason.length + 1) + pad := by simp [encSSRCs_length]; omega
  rw [hlen, if_neg (by rw [getPadding_eq_zero hm]; simp)]
  rw [hhc]
  have hro : (headerLength + srcs.length * ssrcLength) % 256 = 4 + srcs.length * 4 := by simp only [headerLength, ssrcLength]; omega
  simp only [hro]
  rw [if_neg (by omega)]
  have hsrc := decSSRCs_bytes srcs (Goodbye.mk srcs reason).header.bytes ([byte reason.length] ++ (reason ++ zeros pad)) h2
  simp only [Header.bytes_length] at hsrc
  rw [hsrc, bind_ok, if_pos (by omega)]
  have hpre : 4 + srcs.length * 4 = ((Goodbye.mk srcs reason).header.bytes ++ encSSRCs srcs).length := by simp [encSSRCs_length]
  have hre : (Goodbye.mk srcs reason).header.bytes ++ (encSSRCs srcs ++ ([byte reason.length] ++ (reason ++ zeros pad)))
      = ((Goodbye.mk srcs reason).header.bytes ++ encSSRCs srcs) ++ (byte reason.length :: (reason ++ zeros pad)) := by simp
  rw [hre, u8At_of_lt (by simp [encSSRCs_length]; omega), bind_ok, get8_at _ _ _ _ hpre]
  simp only [byte_toNat]
  have hrl : reason.length % 256 = reason.length := by omega
  rw [hrl, if_neg (by simp [encSSRCs_length]; omega)]
  rw [slice_of_le (by omega) (by simp [encSSRCs_length]; omega), bind_ok]
  have e : ((Goodbye.mk srcs reason).header.bytes ++ encSSRCs srcs) ++ (byte reason.length :: (reason ++ zeros pad))
      = (((Goodbye.mk srcs reason).header.bytes ++ encSSRCs srcs) ++ [byte reason.length]) ++ (reason ++ zeros pad) := by simp
  have hl1 : 4 + srcs.length * 4 + 1 = (((Goodbye.mk srcs reason).header.bytes ++ encSSRCs srcs) ++ [byte reason.length]).length := by
    simp [encSSRCs_length]; omega
  have htd := take_drop_mid (((Goodbye.mk srcs reason).header.bytes ++ encSSRCs srcs) ++ [byte reason.length]) reason (zeros pad)
  rw [← hl1] at htd
  rw [e, htd]
  rfl

theorem Goodbye.roundtrip (g : Goodbye) (h : g.WF) : (g.enc >>= Goodbye.dec) = .ok g := by
  obtain ⟨srcs, reason⟩ := g
  obtain ⟨h1, h2, h3⟩ := h
  simp only [u32] at h1 h2 h3
  by_cases hr : 0 < reason.length
  · exact Goodbye.roundtrip_reason srcs reason h1 h2 hr h3
  · have : reason = [] := List.eq_nil_of_length_eq_zero (by omega)
    subst this
    exact Goodbye.roundtrip_noreason srcs h1 h2

/-! ### ApplicationDefined -/

theorem ApplicationDefined.roundtrip (a : ApplicationDefined) (h : a.WF) : (a.enc >>= ApplicationDefined.dec) = .ok a := by
  obtain ⟨st, ssrc, name, data⟩ := a
  obtain ⟨h1, h2, h3, h4, h5⟩ := h
  simp only [u32] at h1 h2 h3 h4 h5
  have hpad : appPadding data.length = 0 := by simp [appPadding]; omega
  have hsz : (ApplicationDefined.mk st ssrc name data).marshalSize = 12 + data.length := by simp [ApplicationDefined.marshalSize, hpad]
  match name, h3 with
  | [n0, n1, n2, n3], _ =>
    unfold ApplicationDefined.enc
    rw [if_neg (by simp; omega), if_neg (by simp)]
    simp only [hpad, hsz]
    rw [Header.enc_ok _ (by simpa using h1), bind_ok]
    simp only [pure_eq, bind_ok, List.replicate_zero, List.append_nil, List.append_assoc]
    have hl : ((12 + data.length) / 4 - 1) % 65536 = (12 + data.length) / 4 - 1 := by omega
    unfold ApplicationDefined.dec
    rw [Header.dec_bytes _ _ (by simpa using h1) (by simp) (by simp; omega), bind_ok]
    rw [if_neg (by simp), if_neg (by simp; omega), if_neg (by simp; omega)]
    simp [Header.bytes, u32At, get32, get8, be32, be16, byte, slice]
    omega

end Rtcp
