/-
  A small shared-memory semantics (C18): operations with read/write footprints; independent operations commute;
  a thread's results are the same under every interleaving with threads it is independent of.
-/
namespace Rtcp.Interleave

abbrev Loc := Nat
abbrev Mem := Loc → Nat

structure AOp where
  reads : List Loc
  writes : List Loc
  run : Mem → Mem × Nat          -- new memory, result

def agree (ls : List Loc) (m m' : Mem) : Prop := ∀ l, l ∈ ls → m l = m' l

/-- the operation respects its declared footprint -/
structure AOp.WF (o : AOp) : Prop where
  frame : ∀ m l, l ∉ o.writes → (o.run m).1 l = m l
  res : ∀ m m', agree (o.reads ++ o.writes) m m' → (o.run m).2 = (o.run m').2
  wr : ∀ m m', agree (o.reads ++ o.writes) m m' → ∀ l, l ∈ o.writes → (o.run m).1 l = (o.run m').1 l

/-- `b` writes nothing that `a` reads or writes -/
def noInterf (b a : AOp) : Prop := ∀ l, l ∈ b.writes → l ∉ a.reads ++ a.writes

def results : List AOp → Mem → List Nat
  | [], _ => []
  | o :: os, m => (o.run m).2 :: results os (o.run m).1

def finalMem : List AOp → Mem → Mem
  | [], m => m
  | o :: os, m => finalMem os (o.run m).1

theorem agree_after_foreign {a b : AOp} (hb : b.WF) (h : noInterf b a) (m : Mem) :
    agree (a.reads ++ a.writes) (b.run m).1 m := by
  intro l hl
  apply hb.frame
  intro hw
  exact h l hw hl

/-- an operation's result does not change when a non-interfering operation runs first -/
theorem result_stable {a b : AOp} (ha : a.WF) (hb : b.WF) (h : noInterf b a) (m : Mem) :
    (a.run (b.run m).1).2 = (a.run m).2 :=
  ha.res _ _ (agree_after_foreign hb h m)

/-- **independent operations commute**: same results, same final memory -/
theorem commute {a b : AOp} (ha : a.WF) (hb : b.WF) (hab : noInterf a b) (hba : noInterf b a) (m : Mem) :
    (a.run (b.run m).1).2 = (a.run m).2 ∧ (b.run (a.run m).1).2 = (b.run m).2 ∧
    (a.run (b.run m).1).1 = (b.run (a.run m).1).1 := by
  refine ⟨result_stable ha hb hba m, result_stable hb ha hab m, ?_⟩
  funext l
  by_cases hla : l ∈ a.writes
  · have hnb : l ∉ b.writes := by
      intro hlb
      exact hba l hlb (List.mem_append.mpr (Or.inr hla))
    rw [hb.frame _ l hnb]
    exact ha.wr _ _ (agree_after_foreign hb hba m) l hla
  · rw [ha.frame _ l hla]
    by_cases hlb : l ∈ b.writes
    · exact (hb.wr _ _ (agree_after_foreign ha hab m) l hlb).symm
    · rw [hb.frame _ l hlb, hb.frame _ l hlb, ha.frame _ l hla]

/-- a thread's whole result sequence depends only on the memory inside its own footprints -/
theorem results_stable (xs : List AOp) (hxs : ∀ a ∈ xs, a.WF) (m m' : Mem)
    (hagree : ∀ a ∈ xs, agree (a.reads ++ a.writes) m m') :
    results xs m = results xs m' := by
  induction xs generalizing m m' with
  | nil => rfl
  | cons a xs ih =>
    simp only [results]
    have haWF := hxs a (by simp)
    have h1 : (a.run m).2 = (a.run m').2 := haWF.res _ _ (hagree a (by simp))
    rw [h1]
    congr 1
    apply ih (fun x hx => hxs x (by simp [hx]))
    intro x hx l hl
    by_cases hla : l ∈ a.writes
    · exact haWF.wr _ _ (hagree a (by simp)) l hla
    · rw [haWF.frame _ l hla, haWF.frame _ l hla]
      exact hagree x (by simp [hx]) l hl

/-- interleavings of two threads -/
inductive Interleaving : List AOp → List AOp → List (Bool × AOp) → Prop
  | nil : Interleaving [] [] []
  | left (a xs ys zs) : Interleaving xs ys zs → Interleaving (a :: xs) ys ((true, a) :: zs)
  | right (b xs ys zs) : Interleaving xs ys zs → Interleaving xs (b :: ys) ((false, b) :: zs)

/-- results observed by one thread in an interleaved run -/
def resultsOf (tag : Bool) : List (Bool × AOp) → Mem → List Nat
  | [], _ => []
  | (t, o) :: zs, m => if t = tag then (o.run m).2 :: resultsOf tag zs (o.run m).1 else resultsOf tag zs (o.run m).1

/-- **every interleaving gives thread A the results of running A alone** (and symmetrically for B) -/
theorem interleaving_results_left (xs ys : List AOp) (zs : List (Bool × AOp)) (h : Interleaving xs ys zs)
    (hxs : ∀ a ∈ xs, a.WF) (hys : ∀ b ∈ ys, b.WF)
    (hindep : ∀ a ∈ xs, ∀ b ∈ ys, noInterf b a) (m : Mem) :
    resultsOf true zs m = results xs m := by
  induction h generalizing m with
  | nil => rfl
  | left a xs ys zs _ ih =>
    simp only [resultsOf, results, if_true]
    congr 1
    exact ih (fun x hx => hxs x (by simp [hx])) hys (fun x hx b hb => hindep x (by simp [hx]) b hb) _
  | right b xs ys zs _ ih =>
    simp only [resultsOf]
    rw [if_neg (by decide)]
    rw [ih hxs (fun y hy => hys y (by simp [hy])) (fun x hx y hy => hindep x hx y (by simp [hy])) _]
    have hbWF := hys b (by simp)
    apply results_stable xs hxs
    intro a ha
    exact agree_after_foreign hbWF (hindep a ha b (by simp)) m

end Rtcp.Interleave
