/-
  Per-type framing: what `Marshal` emits starts with the type's header, whose length field matches the size (C05, C02).
-/
import Rtcp.Lemmas.Dgram
namespace Rtcp
open Gen Out
set_option linter.unusedSimpArgs false
set_option linter.unusedVariables false

macro "hdrfact" : tactic => `(tactic| first | decide | (simp [PictureLossIndication.header, RapidResync.header, SenderReport.header, ReceiverReport.header, TransportLayerNack.header, SliceLossIndication.header, FullIntraRequest.header, SourceDescription.header, Goodbye.header]; done) | (simp [PictureLossIndication.header, RapidResync.header, SenderReport.header, ReceiverReport.header, TransportLayerNack.header, SliceLossIndication.header, FullIntraRequest.header, SourceDescription.header, Goodbye.header]; omega))

theorem PictureLossIndication.framed (p : PictureLossIndication) :
    ∃ f, p.enc = .ok f ∧ Framed f p.header ∧ f.length = p.marshalSize := by
  refine ⟨p.header.bytes ++ (be32 p.sender ++ be32 p.media), ?_, ⟨⟨be32 p.sender ++ be32 p.media, rfl⟩, by hdrfact, by hdrfact, by hdrfact, by simp [PictureLossIndication.header]⟩, by simp [PictureLossIndication.marshalSize]⟩
  unfold PictureLossIndication.enc
  rw [Header.enc_ok _ (by hdrfact)]; simp

theorem RapidResync.framed (p : RapidResync) :
    ∃ f, p.enc = .ok f ∧ Framed f p.header ∧ f.length = p.marshalSize := by
  refine ⟨p.header.bytes ++ (be32 p.sender ++ be32 p.media), ?_, ⟨⟨be32 p.sender ++ be32 p.media, rfl⟩, by hdrfact, by hdrfact, by hdrfact, by simp [RapidResync.header]⟩, by simp [RapidResync.marshalSize]⟩
  unfold RapidResync.enc
  rw [Header.enc_ok _ (by hdrfact)]; simp

theorem SenderReport.framed (v : SenderReport) (h : v.WF) (hs : v.marshalSize ≤ 262140) :
    ∃ f, v.enc = .ok f ∧ Framed f v.header ∧ f.length = v.marshalSize := by
  have hm := SenderReport.size_mod4 v
  have hsz : v.marshalSize = 28 + v.reports.length * 24 + v.ext.length + getPadding v.ext.length := by simp [SenderReport.marshalSize]
  refine ⟨v.header.bytes ++ (be32 v.ssrc ++ (be64 v.ntpTime ++ (be32 v.rtpTime ++ (be32 v.packetCount ++ (be32 v.octetCount ++ (reportsBytes v.reports ++ (v.ext ++ zeros (getPadding v.ext.length)))))))),
    by rw [SenderReport.enc_ok v h]; (try simp), ⟨⟨_, rfl⟩, ?_, by hdrfact, ?_, ?_⟩, ?_⟩
  · have := h.2.2.2.2.2.1; simp [SenderReport.header]; omega
  · simp [SenderReport.header]; omega
  · simp [SenderReport.header]; omega
  · simp; omega

theorem ReceiverReport.size_mod4 (v : ReceiverReport) : v.marshalSize % 4 = 0 := by
  have := add_getPadding_mod v.ext.length
  simp [ReceiverReport.marshalSize]; omega

theorem ReceiverReport.framed (v : ReceiverReport) (h : v.WF) (hs : v.marshalSize ≤ 262140) :
    ∃ f, v.enc = .ok f ∧ Framed f v.header ∧ f.length = v.marshalSize := by
  have hm := ReceiverReport.size_mod4 v
  have hsz : v.marshalSize = 8 + v.reports.length * 24 + v.ext.length + getPadding v.ext.length := by simp [ReceiverReport.marshalSize]
  refine ⟨v.header.bytes ++ (be32 v.ssrc ++ (reportsBytes v.reports ++ (v.ext ++ zeros (getPadding v.ext.length)))),
    by rw [ReceiverReport.enc_ok v h]; (try simp), ⟨⟨_, rfl⟩, ?_, by hdrfact, ?_, ?_⟩, ?_⟩
  · have := h.2.1; simp [ReceiverReport.header]; omega
  · simp [ReceiverReport.header]; omega
  · simp [ReceiverReport.header]; omega
  · simp; omega

theorem TransportLayerNack.framed (p : TransportLayerNack) (h : p.WF) :
    ∃ f, p.enc = .ok f ∧ Framed f p.header ∧ f.length = p.marshalSize := by
  obtain ⟨h1, h2, h3, h4, h5⟩ := h
  have hsz : p.marshalSize = 12 + p.nacks.length * 4 := by simp [TransportLayerNack.marshalSize]
  refine ⟨p.header.bytes ++ (be32 p.sender ++ (be32 p.media ++ encNacks p.nacks)), ?_, ⟨⟨_, rfl⟩, by hdrfact, by hdrfact, ?_, ?_⟩, ?_⟩
  · unfold TransportLayerNack.enc
    rw [if_neg (by simp; omega), Header.enc_ok _ (by hdrfact)]; simp
  · simp [TransportLayerNack.header]; omega
  · simp [TransportLayerNack.header, encNacks_length]; omega
  · simp [encNacks_length]; omega

theorem SliceLossIndication.framed (p : SliceLossIndication) (h : p.WF) :
    ∃ f, p.enc = .ok f ∧ Framed f p.header ∧ f.length = p.marshalSize := by
  obtain ⟨h1, h2, h4, h5⟩ := h
  have hsz : p.marshalSize = 12 + p.sli.length * 4 := by simp [SliceLossIndication.marshalSize]
  refine ⟨p.header.bytes ++ (be32 p.sender ++ (be32 p.media ++ encSLIs p.sli)), ?_, ⟨⟨_, rfl⟩, by hdrfact, by hdrfact, ?_, ?_⟩, ?_⟩
  · unfold SliceLossIndication.enc
    rw [if_neg (by simp; omega), Header.enc_ok _ (by hdrfact)]; simp
  · simp [SliceLossIndication.header]; omega
  · simp [SliceLossIndication.header, encSLIs_length]; omega
  · simp [encSLIs_length]; omega

theorem FullIntraRequest.framed (p : FullIntraRequest) (h : p.WF) :
    ∃ f, p.enc = .ok f ∧ Framed f p.header ∧ f.length = p.marshalSize := by
  obtain ⟨h1, h2, h3, h4, h5⟩ := h
  have hsz : p.marshalSize = 12 + p.fir.length * 8 := by simp [FullIntraRequest.marshalSize]
  refine ⟨p.header.bytes ++ (be32 p.sender ++ (be32 p.media ++ encFIRs p.fir)), ?_, ⟨⟨_, rfl⟩, by hdrfact, by hdrfact, ?_, ?_⟩, ?_⟩
  · unfold FullIntraRequest.enc
    rw [Header.enc_ok _ (by hdrfact)]; simp
  · simp [FullIntraRequest.header]; omega
  · simp [FullIntraRequest.header, encFIRs_length]; omega
  · simp [encFIRs_length]; omega

theorem SourceDescription.framed (s : SourceDescription) (h : s.WF) (hs : s.marshalSize ≤ 262140) :
    ∃ f, s.enc = .ok f ∧ Framed f s.header ∧ f.length = s.marshalSize := by
  obtain ⟨h1, h2, h3⟩ := h
  have hsz : s.marshalSize = 4 + chunksLen s.chunks := by simp [SourceDescription.marshalSize]
  have hm := chunksLen_mod4 s.chunks
  refine ⟨s.header.bytes ++ chunksBytes s.chunks, ?_, ⟨⟨_, rfl⟩, ?_, by hdrfact, ?_, ?_⟩, ?_⟩
  · unfold SourceDescription.enc
    rw [encChunks_ok _ h2, bind_ok, if_neg (by simp; omega), Header.enc_ok _ (by simp [SourceDescription.header]; omega)]; simp
  · simp [SourceDescription.header]; omega
  · simp [SourceDescription.header]; omega
  · simp [SourceDescription.header, chunksBytes_length]; omega
  · simp [chunksBytes_length]; omega

theorem Goodbye.size_mod4 (g : Goodbye) : g.marshalSize % 4 = 0 := by
  unfold Goodbye.marshalSize; exact add_getPadding_mod _

theorem Goodbye.framed (g : Goodbye) (h : g.WF) :
    ∃ f, g.enc = .ok f ∧ Framed f g.header ∧ f.length = g.marshalSize := by
  obtain ⟨srcs, reason⟩ := g
  obtain ⟨h1, h2, h3⟩ := h
  simp only at h1 h2 h3
  have hm := Goodbye.size_mod4 (Goodbye.mk srcs reason)
  by_cases hr : 0 < reason.length
  · have hsz := Goodbye.size_reason srcs reason hr
    have hp := getPadding_lt (4 + srcs.length * 4 + (reason.length + 1))
    generalize getPadding (4 + srcs.length * 4 + (reason.length + 1)) = pad at hsz hp
    refine ⟨(Goodbye.mk srcs reason).header.bytes ++ ((encSSRCs srcs ++ ([byte reason.length] ++ reason)) ++ zeros pad), ?_,
      ⟨⟨_, rfl⟩, ?_, by hdrfact, ?_, ?_⟩, ?_⟩
    · unfold Goodbye.enc
      rw [if_neg (by simp; omega), if_neg (by simp; omega), Header.enc_ok _ (by simp [Goodbye.header]; omega), bind_ok]
      simp only [hr, if_true, pure_eq, hsz, List.length_append, encSSRCs_length, List.length_cons, List.length_nil]
      have hz : 4 + srcs.length * 4 + (reason.length + 1) + pad - headerLength - (srcs.length * 4 + (0 + 1 + reason.length)) = pad := by
        simp only [headerLength]; omega
      rw [hz]; simp
    · simp [Goodbye.header]; omega
    · simp [Goodbye.header, hsz]; omega
    · simp [Goodbye.header, hsz, encSSRCs_length]; omega
    · simp [hsz, encSSRCs_length]; omega
  · have hr0 : reason = [] := List.eq_nil_of_length_eq_zero (by omega)
    subst hr0
    have hsz := Goodbye.size_noreason srcs
    refine ⟨(Goodbye.mk srcs []).header.bytes ++ encSSRCs srcs, ?_, ⟨⟨_, rfl⟩, ?_, by hdrfact, ?_, ?_⟩, ?_⟩
    · unfold Goodbye.enc
      rw [if_neg (by simp; omega), if_neg (by simp), Header.enc_ok _ (by simp [Goodbye.header]; omega), bind_ok]
      simp only [List.length_nil, Nat.lt_irrefl, if_false, pure_eq, List.append_nil, hsz, encSSRCs_length]
      have hz : 4 + srcs.length * 4 - headerLength - srcs.length * 4 = 0 := by simp only [headerLength]; omega
      rw [hz]; (try simp [zeros])
    · simp [Goodbye.header]; omega
    · simp [Goodbye.header, hsz]; omega
    · simp [Goodbye.header, hsz, encSSRCs_length]; omega
    · simp [hsz, encSSRCs_length]

theorem ApplicationDefined.framed (a : ApplicationDefined) (h : a.WF) :
    ∃ f hd, a.enc = .ok f ∧ Framed f hd ∧ hd.type = TypeApplicationDefined ∧ f.length = a.marshalSize := by
  obtain ⟨h1, h2, h3, h4, h5⟩ := h
  have hpad : appPadding a.data.length = 0 := by simp [appPadding]; omega
  have hsz : a.marshalSize = 12 + a.data.length := by simp [ApplicationDefined.marshalSize, hpad]
  refine ⟨({ type := TypeApplicationDefined, length := (a.marshalSize / 4 - 1) % 65536, padding := false, count := a.subType } : Header).bytes ++
      (be32 a.ssrc ++ (a.name ++ a.data)),
    { type := TypeApplicationDefined, length := (a.marshalSize / 4 - 1) % 65536, padding := false, count := a.subType }, ?_,
    ⟨⟨_, rfl⟩, h1, by hdrfact, ?_, ?_⟩, rfl, ?_⟩
  · unfold ApplicationDefined.enc
    rw [if_neg (by omega), if_neg (by omega)]
    simp only [hpad]
    rw [Header.enc_ok _ (by simpa using h1)]
    simp
  · simp; omega
  · simp [h3]; omega
  · simp [h3]; omega

end Rtcp
