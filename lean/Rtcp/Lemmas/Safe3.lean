/-
  C01 helper lemmas, part 3: NACK, SLI, FIR, REMB.
-/
import Rtcp.Lemmas.Safe2
namespace Rtcp
open Gen Out

theorem decNacks_safe (gas : Nat) (b : Bytes) (i stop : Nat) (hs : stop ≤ b.length) (h4 : (stop + 4 - i) % 4 = 0 ∨ stop ≤ i)
    (hg : (stop - i) / 4 < gas) : (decNacks gas b i stop).Safe := by
  induction gas generalizing i with
  | zero => unfold decNacks; exfalso; omega
  | succ g ih =>
    unfold decNacks
    split
    · rename_i hlt
      rw [u16At_of_le (by omega), u16At_of_le (by omega)]
      simp only [bind_ok]
      apply safe_bind (ih (i + 4) (by omega) (by omega))
      intro r _
      exact safe_ok _
    · exact safe_ok _

theorem TransportLayerNack.dec_safe (b : Bytes) : (TransportLayerNack.dec b).Safe := by
  unfold TransportLayerNack.dec
  split
  · exact safe_err
  · rename_i h
    apply safe_bind (Header.dec_safe b)
    intro hd hhd
    dsimp only
    split
    · exact safe_err
    · split
      · exact safe_err
      · split
        · exact safe_err
        · rename_i h1 h2 h3
          rw [u32At_of_le (by lomega), u32At_of_le (by lomega)]
          simp only [bind_ok]
          apply safe_bind
          · apply decNacks_safe
            · lomega
            · left; lomega
            · lomega
          · intro r _
            exact safe_ok _

theorem decSLIs_safe (gas : Nat) (b : Bytes) (i stop : Nat) (hs : stop ≤ b.length) (h4 : (stop + 4 - i) % 4 = 0 ∨ stop ≤ i)
    (hg : (stop - i) / 4 < gas) : (decSLIs gas b i stop).Safe := by
  induction gas generalizing i with
  | zero => unfold decSLIs; exfalso; omega
  | succ g ih =>
    unfold decSLIs
    split
    · rename_i hlt
      rw [u32At_of_le (by omega)]
      simp only [bind_ok]
      apply safe_bind (ih (i + 4) (by omega) (by omega))
      intro r _
      exact safe_ok _
    · exact safe_ok _

theorem SliceLossIndication.dec_safe (b : Bytes) : (SliceLossIndication.dec b).Safe := by
  unfold SliceLossIndication.dec
  split
  · exact safe_err
  · rename_i h
    apply safe_bind (Header.dec_safe b)
    intro hd hhd
    dsimp only
    split
    · exact safe_err
    · split
      · exact safe_err
      · rename_i h1 h2
        rw [u32At_of_le (by lomega), u32At_of_le (by lomega)]
        simp only [bind_ok]
        apply safe_bind
        · apply decSLIs_safe
          · lomega
          · by_cases hc : 4 * hd.length ≥ 8
            · left; lomega
            · right; lomega
          · lomega
        · intro r _
          exact safe_ok _

theorem decFIRs_safe (gas : Nat) (b : Bytes) (i stop : Nat) (hs : stop ≤ b.length) (h8 : (stop + 8 - i) % 8 = 0 ∨ stop ≤ i)
    (hg : (stop - i) / 8 < gas) : (decFIRs gas b i stop).Safe := by
  induction gas generalizing i with
  | zero => unfold decFIRs; exfalso; omega
  | succ g ih =>
    unfold decFIRs
    split
    · rename_i hlt
      rw [u32At_of_le (by omega), u8At_of_lt (by omega)]
      simp only [bind_ok]
      apply safe_bind (ih (i + 8) (by omega) (by omega))
      intro r _
      exact safe_ok _
    · exact safe_ok _

theorem FullIntraRequest.dec_safe (b : Bytes) : (FullIntraRequest.dec b).Safe := by
  unfold FullIntraRequest.dec
  split
  · exact safe_err
  · rename_i h
    apply safe_bind (Header.dec_safe b)
    intro hd hhd
    dsimp only
    split
    · exact safe_err
    · split
      · exact safe_err
      · split
        · exact safe_err
        · rename_i h1 h2 h3
          rw [u32At_of_le (by lomega), u32At_of_le (by lomega)]
          simp only [bind_ok]
          apply safe_bind
          · apply decFIRs_safe
            · lomega
            · by_cases hc : 4 * hd.length ≥ 8
              · left; lomega
              · right; lomega
            · lomega
          · intro r _
            exact safe_ok _

/-! ### REMB -/

theorem rembNormLoop_safe (gas exp m : Nat) (hm : 0 < m) (hlt : m < 16777216) (hg : 16777216 ≤ m * 2 ^ gas) :
    (rembNormLoop gas exp m).Safe := by
  induction gas generalizing exp m with
  | zero => simp at hg; omega
  | succ g ih =>
    unfold rembNormLoop
    split
    · rename_i hz
      have hm2 : m < 8388608 := by omega
      have : (m * 2) % 4294967296 = m * 2 := by omega
      rw [this]
      apply ih
      · omega
      · omega
      · rw [Nat.pow_succ] at hg
        rw [Nat.mul_comm (2 ^ g) 2, ← Nat.mul_assoc] at hg
        exact hg
    · exact safe_ok _

end Rtcp
