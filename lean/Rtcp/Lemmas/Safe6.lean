/-
  C01 helper lemmas, part 6: the reflective XR codec, RawPacket, the datagram loop, CompoundPacket.
-/
import Rtcp.Lemmas.Safe5
namespace Rtcp
open Gen Out

/-! ### generic layout reader -/

/-- a layout the reflective reader terminates on: slice elements have positive size, no rejected members -/
def Item.ok : Item → Bool
  | .sliceOf _ ws => ws.all (0 < ·) && !ws.isEmpty
  | .blocks _ => false
  | .bad _ => false
  | _ => true

def Layout.ok (l : Layout) : Bool := l.items.all Item.ok

theorem readElem_safe (ws : List Nat) (b : Bytes) : (readElem ws b).Safe := by
  induction ws generalizing b with
  | nil => exact safe_ok _
  | cons w ws ih =>
    unfold readElem
    apply safe_err_ite; intro h
    apply safe_bind (ih _)
    intro r _
    exact safe_ok _

theorem readElem_ok_len {ws : List Nat} {b : Bytes} {vs : List Nat} {rest : Bytes}
    (e : readElem ws b = .ok (vs, rest)) : rest.length + ws.sum = b.length := by
  induction ws generalizing b vs rest with
  | nil => simp [readElem] at e; simp [e.2]
  | cons w ws ih =>
    unfold readElem at e
    split at e
    · cases e
    · rename_i h
      obtain ⟨⟨vs', r'⟩, hr, e⟩ := bind_eq_ok.mp e
      simp at e
      have := ih hr
      simp at this
      rw [← e.2]; simp; omega

theorem readElems_safe (gas : Nat) (ws : List Nat) (b : Bytes) (hws : 0 < ws.sum) (hg : b.length < gas) :
    (readElems gas ws b).Safe := by
  induction gas generalizing b with
  | zero => omega
  | succ g ih =>
    unfold readElems
    apply safe_ite
    · intro _; exact safe_ok _
    · intro hne
      apply safe_bind (readElem_safe _ _)
      intro ⟨e, rest⟩ he
      have := readElem_ok_len he
      apply safe_bind (ih rest (by omega))
      intro r _
      exact safe_ok _

theorem sum_pos_of_all_pos {ws : List Nat} (h1 : ws.all (0 < ·) = true) (h2 : ws.isEmpty = false) : 0 < ws.sum := by
  cases ws with
  | nil => simp at h2
  | cons w ws => simp at h1; simp; omega

theorem readItems_safe (items : List Item) (b : Bytes) (hok : items.all Item.ok = true) : (readItems items b).Safe := by
  induction items generalizing b with
  | nil => exact safe_ok _
  | cons it items ih =>
    simp only [List.all_cons, Bool.and_eq_true] at hok
    cases it with
    | scalar n w =>
      unfold readItems
      apply safe_err_ite; intro _
      apply safe_bind (ih _ hok.2); intro r _; exact safe_ok _
    | skip w =>
      unfold readItems
      apply safe_err_ite; intro _
      exact ih _ hok.2
    | omitted n => unfold readItems; exact ih _ hok.2
    | sliceOf n ws =>
      unfold readItems
      have h := hok.1
      simp only [Item.ok, Bool.and_eq_true, Bool.not_eq_true'] at h
      apply safe_bind (readElems_safe _ _ _ (sum_pos_of_all_pos h.1 h.2) (by omega))
      intro es _
      apply safe_bind (ih _ hok.2); intro r _; exact safe_ok _
    | blocks n => simp [Item.ok] at hok
    | bad n => simp [Item.ok] at hok

/-- the regenerated layouts are all readable (re-proved against Gen/Layouts.lean on every run) -/
theorem gen_layouts_ok : ∀ k, (layoutOf k).ok = true := by
  intro k
  unfold layoutOf
  split <;> decide

theorem gen_header_layout_ok : layoutXRHeader.ok = true := by decide

/-! ### XR -/

theorem xrDecBlock_safe (buf : Bytes) : (xrDecBlock buf).Safe := by
  unfold xrDecBlock
  apply safe_bind (readItems_safe _ _ gen_header_layout_ok)
  intro ⟨hv, _, _⟩ _
  dsimp only
  split
  · try dsimp only
    apply safe_bind (readItems_safe _ _ (gen_layouts_ok _))
    intro ⟨vs, es, _⟩ _
    dsimp only
    split
    · exact safe_ok _
    · exact safe_err
  · exact safe_err

/-- a decoded block consumed at least 4 octets -/
theorem xrDecBlock_progress {buf : Bytes} {blk : XRBlock} {rest : Bytes} (e : xrDecBlock buf = .ok (blk, rest)) :
    rest.length + 4 ≤ buf.length := by
  unfold xrDecBlock at e
  obtain ⟨⟨hv, es0, r0⟩, hr, e⟩ := bind_eq_ok.mp e
  -- the header layout has three scalars of 1+1+2 octets: reading it needs 4 octets
  have h4 : 4 ≤ buf.length := by
    simp only [layoutXRHeader, readItems] at hr
    split at hr
    · cases hr
    · rename_i h1
      obtain ⟨_, hr2, _⟩ := bind_eq_ok.mp hr
      split at hr2
      · cases hr2
      · rename_i h2
        obtain ⟨_, hr3, _⟩ := bind_eq_ok.mp hr2
        split at hr3
        · cases hr3
        · rename_i h3
          simp at h1 h2 h3
          omega
  dsimp only at e
  split at e
  · rename_i bt x bl
    try dsimp only at e
    obtain ⟨⟨vs, es, r1⟩, hr1, e⟩ := bind_eq_ok.mp e
    dsimp only at e
    split at e
    · simp at e
      rw [← e.2]
      simp
      split <;> omega
    · cases e
  · cases e

theorem xrDecBlocksP_safe (gas : Nat) (buf : Bytes) (hg : buf.length < gas) :
    (xrDecBlocksP gas buf).2 ≠ .panic ∧ (xrDecBlocksP gas buf).2 ≠ .diverge := by
  induction gas generalizing buf with
  | zero => omega
  | succ g ih =>
    unfold xrDecBlocksP
    split
    · simp
    · have hs := xrDecBlock_safe buf
      split
      · rename_i blk rest heq
        have := xrDecBlock_progress heq
        exact ih rest (by omega)
      · rename_i o hne
        exact status_ne_of_safe hs

theorem XR.decP_safe (b : Bytes) : (XR.decP b).2 ≠ .panic ∧ (XR.decP b).2 ≠ .diverge := by
  unfold XR.decP
  have hh := Header.dec_safe b
  split
  · split
    · simp
    · dsimp only
      split
      · simp
      · exact xrDecBlocksP_safe _ _ (by lomega)
  · rename_i o hne
    exact status_ne_of_safe hh

theorem XR.dec_safe (b : Bytes) : (XR.dec b).Safe := by
  unfold XR.dec
  have := XR.decP_safe b
  exact Status.toOut_safe this.1 this.2

/-! ### RawPacket, dispatch, datagram -/

theorem rawDec_safe (b : Bytes) : (rawDec b).Safe := by
  unfold rawDec
  apply safe_err_ite; intro _
  apply safe_bind (Header.dec_safe b); intro _ _
  exact safe_ok _

theorem decKind_safe (k : Kind) (b : Bytes) : (decKind k b).Safe := by
  cases k <;> unfold decKind <;> apply safe_map
  · exact SenderReport.dec_safe b
  · exact ReceiverReport.dec_safe b
  · exact SourceDescription.dec_safe b
  · exact Goodbye.dec_safe b
  · exact ApplicationDefined.dec_safe b
  · exact TransportLayerNack.dec_safe b
  · exact RapidResync.dec_safe b
  · exact Twcc.dec_safe b
  · exact Ccfb.dec_safe b
  · exact PictureLossIndication.dec_safe b
  · exact SliceLossIndication.dec_safe b
  · exact Remb.dec_safe b
  · exact FullIntraRequest.dec_safe b
  · exact XR.dec_safe b
  · exact rawDec_safe b

theorem unmarshalOne_safe (b : Bytes) : (unmarshalOne b).Safe := by
  unfold unmarshalOne
  apply safe_bind (Header.dec_safe b); intro h _
  dsimp only
  apply safe_err_ite; intro hp
  apply safe_slice (by omega) (by omega)
  apply safe_bind (decKind_safe _ _); intro p _
  exact safe_ok _

/-- every accepted frame has at least 4 octets, and never more than the datagram holds:
this is the progress argument of the datagram loop -/
theorem unmarshalOne_progress {b : Bytes} {p : Packet} {n : Nat} (e : unmarshalOne b = .ok (p, n)) :
    4 ≤ n ∧ n ≤ b.length := by
  unfold unmarshalOne at e
  obtain ⟨h, hh, e⟩ := bind_eq_ok.mp e
  dsimp only at e
  split at e
  · cases e
  · rename_i hle
    rw [slice_of_le (by omega) (by omega)] at e
    simp only [bind_ok] at e
    obtain ⟨q, hq, e⟩ := bind_eq_ok.mp e
    simp at e
    omega

theorem unmarshalLoop_safe (gas : Nat) (b : Bytes) (hg : b.length < gas) : (unmarshalLoop gas b).Safe := by
  induction gas generalizing b with
  | zero => omega
  | succ g ih =>
    unfold unmarshalLoop
    apply safe_ite
    · intro _; exact safe_ok _
    · intro hne
      apply safe_bind (unmarshalOne_safe b)
      intro ⟨p, n⟩ hp
      have hpr := unmarshalOne_progress hp
      dsimp only
      apply safe_sliceFrom hpr.2
      apply safe_bind (ih _ (by lomega)); intro ps _
      exact safe_ok _

theorem udec_safe (b : Bytes) : (udec b).Safe := by
  unfold udec
  apply safe_bind (unmarshalLoop_safe _ _ (by omega)); intro ps _
  apply safe_err_ite; intro _
  exact safe_ok _

theorem cval_safe (ps : List Packet) : (cval ps).Safe := by
  have hv : ∀ ps, (validateRest ps).Safe := by
    intro ps
    induction ps with
    | nil => exact safe_err
    | cons p ps ih =>
      cases p <;> simp only [validateRest] <;> first | exact ih | exact safe_err | skip
      split
      · exact safe_ok _
      · exact safe_err
  cases ps with
  | nil => exact safe_err
  | cons p ps => cases p <;> simp only [cval] <;> first | exact hv ps | exact safe_err

theorem cdec_safe (b : Bytes) : (cdec b).Safe := by
  unfold cdec
  apply safe_bind (unmarshalLoop_safe _ _ (by omega)); intro ps _
  apply safe_bind (cval_safe ps); intro _ _
  exact safe_ok _

end Rtcp
