/-
  The IMAGE of the decoders (C09): whatever a decoder returns is (almost) well-formed, because every field was read
  from a fixed-width wire field and counts come from 5-bit header fields.

  Per kind `K`:   `K.dec f = .ok v → (frame facts) → v.WF`            (SR, RR, SDES, BYE, RRR, PLI, FIR)
                  `K.dec f = .ok v → v.WF ∨ v.enc = .err`             (NACK: more than 253 pairs are rejected by Marshal)
                  `K.dec f = .ok v → v.DecodedOK ∨ v.enc = .err`      (APP: stripped padding leaves unaligned data, which
                                                                       Marshal pads again; `WF` is too strong, `DecodedOK` suffices)
  FIR: plainly `v.WF` since the repair of the 16-bit length arithmetic (before it, the image contained the request
  without entries, which Marshal accepts and Unmarshal then rejects — a C09 violation found by this analysis).
  Frame facts used: `f.length % 4 = 0` and `f.length ≤ 262144`, both true of every frame cut by `rtcp.Unmarshal`.
-/
import Rtcp.Lemmas.Frame
namespace Rtcp
open Gen Out
set_option linter.unusedSimpArgs false
set_option linter.unusedVariables false

/-! ### successful reads -/

theorem u8At_eq_ok {b : Bytes} {i x : Nat} (h : u8At b i = .ok x) : i + 1 ≤ b.length ∧ x = get8 b i := by
  unfold u8At at h; split at h
  · rename_i hh; simp at h; exact ⟨hh, h.symm⟩
  · cases h
theorem u16At_eq_ok {b : Bytes} {i x : Nat} (h : u16At b i = .ok x) : i + 2 ≤ b.length ∧ x = get16 b i := by
  unfold u16At at h; split at h
  · rename_i hh; simp at h; exact ⟨hh, h.symm⟩
  · cases h
theorem u24At_eq_ok {b : Bytes} {i x : Nat} (h : u24At b i = .ok x) : i + 3 ≤ b.length ∧ x = get24 b i := by
  unfold u24At at h; split at h
  · rename_i hh; simp at h; exact ⟨hh, h.symm⟩
  · cases h
theorem u32At_eq_ok {b : Bytes} {i x : Nat} (h : u32At b i = .ok x) : i + 4 ≤ b.length ∧ x = get32 b i := by
  unfold u32At at h; split at h
  · rename_i hh; simp at h; exact ⟨hh, h.symm⟩
  · cases h
theorem u64At_eq_ok {b : Bytes} {i x : Nat} (h : u64At b i = .ok x) : i + 8 ≤ b.length ∧ x = get64 b i := by
  unfold u64At at h; split at h
  · rename_i hh; simp at h; exact ⟨hh, h.symm⟩
  · cases h
theorem slice_eq_ok {b : Bytes} {i j : Nat} {x : Bytes} (h : slice b i j = .ok x) :
    i ≤ j ∧ j ≤ b.length ∧ x = (b.take j).drop i ∧ x.length = j - i := by
  unfold slice at h; split at h
  · rename_i hh; simp at h; subst h; exact ⟨hh.1, hh.2, rfl, by simp; omega⟩
  · cases h
theorem sliceFrom_eq_ok {b : Bytes} {i : Nat} {x : Bytes} (h : sliceFrom b i = .ok x) :
    i ≤ b.length ∧ x = b.drop i ∧ x.length = b.length - i := by
  unfold sliceFrom at h; split at h
  · rename_i hh; simp at h; subst h; exact ⟨hh, rfl, by simp⟩
  · cases h

theorem u8At_lt {b : Bytes} {i x : Nat} (h : u8At b i = .ok x) : x < 256 := by
  rw [(u8At_eq_ok h).2]; exact get8_lt _ _
theorem u16At_lt {b : Bytes} {i x : Nat} (h : u16At b i = .ok x) : x < 65536 := by
  rw [(u16At_eq_ok h).2]; exact get16_lt _ _
theorem u24At_lt {b : Bytes} {i x : Nat} (h : u24At b i = .ok x) : x < 16777216 := by
  rw [(u24At_eq_ok h).2]; exact get24_lt _ _
theorem u32At_lt {b : Bytes} {i x : Nat} (h : u32At b i = .ok x) : x < 4294967296 := by
  rw [(u32At_eq_ok h).2]; exact get32_lt _ _
theorem u64At_lt {b : Bytes} {i x : Nat} (h : u64At b i = .ok x) : x < 18446744073709551616 := by
  rw [(u64At_eq_ok h).2]; exact get64_lt _ _

/-! ### reception reports -/

theorem ReceptionReport.dec_WF {b : Bytes} {r : ReceptionReport} (h : ReceptionReport.dec b = .ok r) : r.WF := by
  unfold ReceptionReport.dec at h
  split at h
  · cases h
  · obtain ⟨a1, h1, h⟩ := bind_eq_ok.mp h
    obtain ⟨a2, h2, h⟩ := bind_eq_ok.mp h
    obtain ⟨a3, h3, h⟩ := bind_eq_ok.mp h
    obtain ⟨a4, h4, h⟩ := bind_eq_ok.mp h
    obtain ⟨a5, h5, h⟩ := bind_eq_ok.mp h
    obtain ⟨a6, h6, h⟩ := bind_eq_ok.mp h
    obtain ⟨a7, h7, h⟩ := bind_eq_ok.mp h
    simp at h
    subst h
    exact ⟨u32At_lt h1, u8At_lt h2, u24At_lt h3, u32At_lt h4, u32At_lt h5, u32At_lt h6, u32At_lt h7⟩

/-- the SR report loop: exactly `n` reports, each well-formed, `24 n` octets consumed -/
theorem srDecReports_image {n : Nat} {body : Bytes} {off : Nat} {rs : List ReceptionReport} {off' : Nat}
    (e : srDecReports n body off = .ok (rs, off')) :
    rs.length = n ∧ off' = off + n * 24 ∧ ∀ r ∈ rs, r.WF := by
  induction n generalizing off rs off' with
  | zero => simp [srDecReports] at e; obtain ⟨e1, e2⟩ := e; subst e1; subst e2; simp
  | succ n ih =>
    unfold srDecReports at e
    split at e
    · cases e
    · obtain ⟨sl, hsl, e⟩ := bind_eq_ok.mp e
      obtain ⟨rr, hr, e⟩ := bind_eq_ok.mp e
      obtain ⟨⟨rs', o'⟩, hs, e⟩ := bind_eq_ok.mp e
      simp at e
      obtain ⟨e1, e2⟩ := e
      subst e1; subst e2
      obtain ⟨i1, i2, i3⟩ := ih hs
      refine ⟨by simp [i1], by rw [i2]; simp only [receptionReportLength]; omega, ?_⟩
      intro r hr'
      rcases List.mem_cons.mp hr' with hr' | hr'
      · rw [hr']; exact ReceptionReport.dec_WF hr
      · exact i3 r hr'

/-- **image of `SenderReport.Unmarshal`** on a 32-bit aligned frame of at most 65536 words: a well-formed report whose
size is the frame's. Alignment is needed: the profile extensions are "the rest of the frame". -/
theorem SenderReport.dec_image {f : Bytes} {v : SenderReport} (h : SenderReport.dec f = .ok v)
    (h4 : f.length % 4 = 0) (hmax : f.length ≤ 262144) : v.WF ∧ v.marshalSize = f.length := by
  unfold SenderReport.dec at h
  split at h
  · cases h
  · rename_i hlen
    simp only [headerLength, srHeaderLength, Nat.not_lt] at hlen
    obtain ⟨hd, hhd, h⟩ := bind_eq_ok.mp h
    split at h
    · cases h
    · obtain ⟨body, hbody, h⟩ := bind_eq_ok.mp h
      obtain ⟨ssrc, h1, h⟩ := bind_eq_ok.mp h
      obtain ⟨ntp, h2, h⟩ := bind_eq_ok.mp h
      obtain ⟨rtp, h3, h⟩ := bind_eq_ok.mp h
      obtain ⟨pc, h5, h⟩ := bind_eq_ok.mp h
      obtain ⟨oc, h6, h⟩ := bind_eq_ok.mp h
      obtain ⟨⟨reps, off⟩, hreps, h⟩ := bind_eq_ok.mp h
      dsimp only at h
      obtain ⟨ext, hext, h⟩ := bind_eq_ok.mp h
      split at h
      · cases h
      · simp at h
        subst h
        obtain ⟨_, hbe, hbl⟩ := sliceFrom_eq_ok hbody
        simp only [headerLength] at hbl
        obtain ⟨i1, i2, i3⟩ := srDecReports_image hreps
        have hoff := srDecReports_off hreps (by simp only [srReportOffset]; omega)
        have hc := (Header.dec_ok_fields hhd).1
        simp only [srReportOffset] at i2
        have hel : ext.length = body.length - off := by
          split at hext
          · exact (sliceFrom_eq_ok hext).2.2
          · rename_i hn; simp at hext; subst hext; simp; omega
        have hp : getPadding ext.length = 0 := getPadding_eq_zero (by omega)
        refine ⟨⟨u32At_lt h1, u64At_lt h2, u32At_lt h3, u32At_lt h5, u32At_lt h6, by simp only; omega, i3, by simp only; omega, ?_⟩, ?_⟩
        · simp only [SenderReport.marshalSize, headerLength, srHeaderLength, receptionReportLength, hp]; omega
        · simp only [SenderReport.marshalSize, headerLength, srHeaderLength, receptionReportLength, hp]; omega

/-! ### ReceiverReport -/

theorem rrDecReports_image {n : Nat} {rest : Bytes} {rs : List ReceptionReport} {rest' : Bytes}
    (e : rrDecReports n rest = .ok (rs, rest')) : rs.length ≤ n ∧ ∀ r ∈ rs, r.WF := by
  induction n generalizing rest rs rest' with
  | zero => simp [rrDecReports] at e; simp [e.1]
  | succ n ih =>
    unfold rrDecReports at e
    split at e
    · simp at e; obtain ⟨e1, _⟩ := e; subst e1; simp
    · obtain ⟨rr, hr, e⟩ := bind_eq_ok.mp e
      obtain ⟨⟨rs', o'⟩, hs, e⟩ := bind_eq_ok.mp e
      simp at e
      obtain ⟨i1, i3⟩ := ih hs
      rw [← e.1]
      refine ⟨by simp; omega, ?_⟩
      intro r hr'
      rcases List.mem_cons.mp hr' with hr' | hr'
      · rw [hr']; exact ReceptionReport.dec_WF hr
      · exact i3 r hr'

/-- **image of `ReceiverReport.Unmarshal`** on an aligned frame: well-formed, the extensions are already a multiple of
four octets (so the documented quantisation is the identity on decoded values) -/
theorem ReceiverReport.dec_image {f : Bytes} {v : ReceiverReport} (h : ReceiverReport.dec f = .ok v)
    (h4 : f.length % 4 = 0) (hmax : f.length ≤ 262144) : v.WF ∧ v.ext.length % 4 = 0 ∧ v.marshalSize = f.length := by
  unfold ReceiverReport.dec at h
  split at h
  · cases h
  · rename_i hlen
    simp only [headerLength, ssrcLength, Nat.not_lt] at hlen
    obtain ⟨hd, hhd, h⟩ := bind_eq_ok.mp h
    split at h
    · cases h
    · obtain ⟨ssrc, h1, h⟩ := bind_eq_ok.mp h
      obtain ⟨⟨reps, rest⟩, hreps, h⟩ := bind_eq_ok.mp h
      dsimp only at h
      obtain ⟨ext, hext, h⟩ := bind_eq_ok.mp h
      split at h
      · cases h
      · rename_i hcnt
        simp at h
        subst h
        obtain ⟨i1, i3⟩ := rrDecReports_image hreps
        have hl := rrDecReports_len hreps
        simp only [rrReportOffset, List.length_drop] at hl
        have hc := (Header.dec_ok_fields hhd).1
        have hcnt' : reps.length ≤ 31 := by omega
        obtain ⟨_, _, hel⟩ := sliceFrom_eq_ok hext
        simp only [rrReportOffset, receptionReportLength] at hel
        have hp : getPadding ext.length = 0 := getPadding_eq_zero (by omega)
        refine ⟨⟨u32At_lt h1, hcnt', i3, ?_⟩, by simp only; omega, ?_⟩
        · simp only [ReceiverReport.marshalSize, headerLength, ssrcLength, receptionReportLength, hp]; omega
        · simp only [ReceiverReport.marshalSize, headerLength, ssrcLength, receptionReportLength, hp]; omega

theorem ReceiverReport.quant_of_aligned (v : ReceiverReport) (h : v.ext.length % 4 = 0) : v.quant = v := by
  simp [ReceiverReport.quant, getPadding_eq_zero h, zeros]

/-! ### SourceDescription -/

theorem SDESItem.dec_image {b : Bytes} {it : SDESItem} (e : SDESItem.dec b = .ok it) :
    it.type = get8 b 0 ∧ u8 it.type ∧ it.text.length ≤ 255 ∧ it.len ≤ b.length := by
  have hl := (SDESItem.dec_ok_len e).2
  unfold SDESItem.dec at e
  split at e
  · cases e
  · obtain ⟨t, ht, e⟩ := bind_eq_ok.mp e
    obtain ⟨n, hn, e⟩ := bind_eq_ok.mp e
    split at e
    · cases e
    · obtain ⟨txt, htxt, e⟩ := bind_eq_ok.mp e
      simp at e
      subst e
      have := u8At_lt hn
      obtain ⟨_, _, _, hlen⟩ := slice_eq_ok htxt
      refine ⟨(u8At_eq_ok ht).2, u8At_lt ht, by simp only; omega, hl⟩

/-- the item loop: every item is well-formed (type ≠ END, text ≤ 255 octets), and the items plus the END octet lie
inside the suffix -/
theorem decItemsP_image (gas : Nat) (rest : Bytes) (its : List SDESItem) (h : decItemsP gas rest = (its, .ok)) :
    (∀ i ∈ its, i.WF) ∧ itemsLen its + 1 ≤ rest.length := by
  induction gas generalizing rest its with
  | zero => simp [decItemsP] at h
  | succ g ih =>
    unfold decItemsP at h
    split at h
    · simp at h
    · rename_i hne
      split at h
      · simp at h; subst h; simp [itemsLen]; omega
      · rename_i hend
        cases hd : SDESItem.dec rest with
        | ok it =>
          rw [hd] at h
          dsimp only at h
          cases hrec : decItemsP g (rest.drop it.len) with
          | mk its' st =>
            rw [hrec] at h
            simp at h
            obtain ⟨h1, h2⟩ := h
            subst h2; subst h1
            obtain ⟨i1, i2⟩ := ih _ _ hrec
            obtain ⟨d1, d2, d3, d4⟩ := SDESItem.dec_image hd
            simp only [List.length_drop] at i2
            refine ⟨?_, by simp [itemsLen] at i2 ⊢; omega⟩
            intro i hi
            rcases List.mem_cons.mp hi with hi | hi
            · rw [hi]; exact ⟨by rw [d1]; simp only [SDESEnd] at hend; omega, d2, d3⟩
            · exact i1 i hi
        | err => rw [hd] at h; simp at h
        | panic => rw [hd] at h; simp at h
        | diverge => rw [hd] at h; simp at h

theorem SDESChunk.decP_image (b : Bytes) (c : SDESChunk) (h : SDESChunk.decP b = (c, .ok)) :
    c.WF ∧ 4 + itemsLen c.items + 1 ≤ b.length := by
  unfold SDESChunk.decP at h
  split at h
  · simp at h
  · rename_i hlen
    cases hs : u32At b 0 with
    | ok src =>
      rw [hs] at h
      dsimp only at h
      cases hrec : decItemsP (b.length + 1) (b.drop 4) with
      | mk its st =>
        rw [hrec] at h
        simp at h
        obtain ⟨h1, h2⟩ := h
        subst h2; subst h1
        obtain ⟨i1, i2⟩ := decItemsP_image _ _ _ hrec
        simp only [List.length_drop] at i2
        exact ⟨⟨u32At_lt hs, i1⟩, by simp only; omega⟩
    | err => rw [hs] at h; simp at h
    | panic => rw [hs] at h; simp at h
    | diverge => rw [hs] at h; simp at h

theorem SDESChunk.len_le_of_aligned (c : SDESChunk) (n : Nat) (h4 : n % 4 = 0) (h : 4 + itemsLen c.items + 1 ≤ n) : c.len ≤ n := by
  simp only [SDESChunk.len, sdesSourceLen, sdesTypeLen]
  have := add_getPadding_mod (4 + itemsLen c.items + 1)
  have := getPadding_lt (4 + itemsLen c.items + 1)
  omega

/-- the chunk loop on an aligned suffix: well-formed chunks whose padded lengths fit -/
theorem decChunksP_image (gas : Nat) (rest : Bytes) (cs : List SDESChunk) (h : decChunksP gas rest = (cs, .ok))
    (h4 : rest.length % 4 = 0) : (∀ c ∈ cs, c.WF) ∧ chunksLen cs ≤ rest.length := by
  induction gas generalizing rest cs with
  | zero => simp [decChunksP] at h
  | succ g ih =>
    unfold decChunksP at h
    split at h
    · simp at h; subst h; simp [chunksLen]
    · split at h
      · rename_i c heq
        cases hrec : decChunksP g (rest.drop c.len) with
        | mk cs' st =>
          rw [hrec] at h
          simp at h
          obtain ⟨h1, h2⟩ := h
          subst h2; subst h1
          obtain ⟨c1, c2⟩ := SDESChunk.decP_image rest c heq
          have hcl := SDESChunk.len_le_of_aligned c rest.length h4 c2
          have hm := SDESChunk.len_mod4 c
          obtain ⟨i1, i2⟩ := ih _ _ hrec (by simp only [List.length_drop]; omega)
          simp only [List.length_drop] at i2
          refine ⟨?_, by simp [chunksLen] at i2 ⊢; omega⟩
          intro x hx
          rcases List.mem_cons.mp hx with hx | hx
          · rw [hx]; exact c1
          · exact i1 x hx
      · rename_i x st hne heq
        simp at h
        exact absurd h.2 hne

/-- **image of `SourceDescription.Unmarshal`** on an aligned frame of at most 65536 words -/
theorem SourceDescription.dec_image {f : Bytes} {v : SourceDescription} (h : SourceDescription.dec f = .ok v)
    (h4 : f.length % 4 = 0) (hmax : f.length ≤ 262144) : v.WF := by
  have ⟨hst, hv⟩ := Status.toOut_eq_ok h
  unfold SourceDescription.decP at hst hv
  cases hh : Header.dec f with
  | ok hd =>
    have hfl := Header.dec_ok_length hh
    have hc := (Header.dec_ok_fields hh).1
    simp only [hh] at hst hv
    split at hst
    · simp at hst
    · rename_i ht
      rw [if_neg ht] at hv
      cases hrec : decChunksP (f.length + 1) (f.drop headerLength) with
      | mk cs st =>
        rw [hrec] at hst hv
        dsimp only at hst hv
        cases st with
        | ok =>
          dsimp only at hst hv
          split at hst
          · simp at hst
          · rename_i hcnt
            rw [if_neg hcnt] at hv
            simp at hcnt hv
            subst hv
            obtain ⟨i1, i2⟩ := decChunksP_image _ _ _ hrec (by simp only [List.length_drop, headerLength]; omega)
            simp only [List.length_drop, headerLength] at i2
            exact ⟨by simp only; omega, i1, by simp only [SourceDescription.marshalSize, headerLength]; omega⟩
        | err => simp at hst
        | panic => simp at hst
        | diverge => simp at hst
  | err => simp [hh, Out.status] at hst
  | panic => simp [hh, Out.status] at hst
  | diverge => simp [hh, Out.status] at hst

/-! ### Goodbye -/

theorem decSSRCs_image {n : Nat} {b : Bytes} {off : Nat} {l : List Nat} (h : decSSRCs n b off = .ok l) :
    l.length = n ∧ ∀ s ∈ l, u32 s := by
  induction n generalizing off l with
  | zero => simp [decSSRCs] at h; subst h; simp
  | succ n ih =>
    unfold decSSRCs at h
    obtain ⟨s, hs, h⟩ := bind_eq_ok.mp h
    obtain ⟨rest, hr, h⟩ := bind_eq_ok.mp h
    simp at h
    subst h
    obtain ⟨i1, i2⟩ := ih hr
    refine ⟨by simp [i1], ?_⟩
    intro x hx
    rcases List.mem_cons.mp hx with hx | hx
    · rw [hx]; exact u32At_lt hs
    · exact i2 x hx

/-- **image of `Goodbye.Unmarshal`**: always well-formed (at most 31 sources, reason at most 255 octets) -/
theorem Goodbye.dec_image {f : Bytes} {v : Goodbye} (h : Goodbye.dec f = .ok v) : v.WF := by
  unfold Goodbye.dec at h
  obtain ⟨hd, hhd, h⟩ := bind_eq_ok.mp h
  have hc := (Header.dec_ok_fields hhd).1
  split at h
  · cases h
  · split at h
    · cases h
    · dsimp only at h
      split at h
      · cases h
      · obtain ⟨srcs, hsrcs, h⟩ := bind_eq_ok.mp h
        obtain ⟨i1, i2⟩ := decSSRCs_image hsrcs
        split at h
        · obtain ⟨rl, hrl, h⟩ := bind_eq_ok.mp h
          split at h
          · cases h
          · obtain ⟨r, hr, h⟩ := bind_eq_ok.mp h
            simp at h
            subst h
            have := u8At_lt hrl
            obtain ⟨_, _, _, hlen⟩ := slice_eq_ok hr
            exact ⟨by simp only; omega, i2, by simp only; omega⟩
        · simp at h
          subst h
          exact ⟨by simp only; omega, i2, by simp⟩

/-! ### feedback packets with fixed fields -/

theorem PictureLossIndication.dec_image {f : Bytes} {v : PictureLossIndication} (h : PictureLossIndication.dec f = .ok v) : v.WF := by
  unfold PictureLossIndication.dec at h
  split at h
  · cases h
  · obtain ⟨hd, hhd, h⟩ := bind_eq_ok.mp h
    split at h
    · cases h
    · obtain ⟨s, hs, h⟩ := bind_eq_ok.mp h
      obtain ⟨m, hm, h⟩ := bind_eq_ok.mp h
      simp at h; subst h
      exact ⟨u32At_lt hs, u32At_lt hm⟩

theorem RapidResync.dec_image {f : Bytes} {v : RapidResync} (h : RapidResync.dec f = .ok v) : v.WF := by
  unfold RapidResync.dec at h
  split at h
  · cases h
  · obtain ⟨hd, hhd, h⟩ := bind_eq_ok.mp h
    split at h
    · cases h
    · obtain ⟨s, hs, h⟩ := bind_eq_ok.mp h
      obtain ⟨m, hm, h⟩ := bind_eq_ok.mp h
      simp at h; subst h
      exact ⟨u32At_lt hs, u32At_lt hm⟩

/-! ### NACK -/

theorem decNacks_image (gas : Nat) (b : Bytes) (i stop : Nat) (l : List NackPair) (h : decNacks gas b i stop = .ok l) :
    (∀ n ∈ l, n.WF) ∧ (i < stop → 1 ≤ l.length) := by
  induction gas generalizing i l with
  | zero => simp [decNacks] at h
  | succ g ih =>
    unfold decNacks at h
    split at h
    · obtain ⟨id, hid, h⟩ := bind_eq_ok.mp h
      obtain ⟨bm, hbm, h⟩ := bind_eq_ok.mp h
      obtain ⟨rest, hr, h⟩ := bind_eq_ok.mp h
      simp at h; subst h
      obtain ⟨i1, _⟩ := ih _ _ hr
      refine ⟨?_, by simp⟩
      intro x hx
      rcases List.mem_cons.mp hx with hx | hx
      · rw [hx]; exact ⟨u16At_lt hid, u16At_lt hbm⟩
      · exact i1 x hx
    · rename_i hn
      simp at h; subst h
      exact ⟨by simp, fun hh => absurd hh hn⟩

/-- **image of `TransportLayerNack.Unmarshal`**: well-formed unless it holds more than 253 pairs (a length field above 255
words), and those Marshal rejects -/
theorem TransportLayerNack.dec_image {f : Bytes} {v : TransportLayerNack} (h : TransportLayerNack.dec f = .ok v) :
    v.WF ∨ v.enc = .err := by
  by_cases hbig : v.nacks.length + tlnLength > 255
  · right; unfold TransportLayerNack.enc; rw [if_pos hbig]
  · left
    unfold TransportLayerNack.dec at h
    split at h
    · cases h
    · obtain ⟨hd, hhd, h⟩ := bind_eq_ok.mp h
      dsimp only at h
      split at h
      · cases h
      · split at h
        · cases h
        · split at h
          · cases h
          · rename_i hl4
            obtain ⟨s, hs, h⟩ := bind_eq_ok.mp h
            obtain ⟨m, hm, h⟩ := bind_eq_ok.mp h
            obtain ⟨ns, hns, h⟩ := bind_eq_ok.mp h
            simp at h; subst h
            obtain ⟨i1, i2⟩ := decNacks_image _ _ _ _ _ hns
            simp only [tlnLength] at hbig
            simp only [nackOffset, headerLength] at hl4 i2
            exact ⟨u32At_lt hs, u32At_lt hm, i2 (by omega), by simp only at hbig ⊢; omega, i1⟩

/-! ### FIR -/

theorem decFIRs_image (gas : Nat) (b : Bytes) (i stop : Nat) (l : List FIREntry) (h : decFIRs gas b i stop = .ok l) :
    (∀ e ∈ l, e.WF) ∧ l.length * 8 ≤ (stop - i) + 7 ∧ (i < stop → 1 ≤ l.length) := by
  induction gas generalizing i l with
  | zero => simp [decFIRs] at h
  | succ g ih =>
    unfold decFIRs at h
    split at h
    · obtain ⟨ssrc, hid, h⟩ := bind_eq_ok.mp h
      obtain ⟨sq, hbm, h⟩ := bind_eq_ok.mp h
      obtain ⟨rest, hr, h⟩ := bind_eq_ok.mp h
      simp at h; subst h
      obtain ⟨i1, i2, _⟩ := ih _ _ hr
      refine ⟨?_, by simp only [List.length_cons]; omega, by simp⟩
      intro x hx
      rcases List.mem_cons.mp hx with hx | hx
      · rw [hx]; exact ⟨u32At_lt hid, u8At_lt hbm⟩
      · exact i1 x hx
    · rename_i hn
      simp at h; subst h
      exact ⟨by simp, by simp, fun hh => absurd hh hn⟩

/-- **image of `FullIntraRequest.Unmarshal`**: well-formed — between 1 and 32766 entries (the length field is even and at
most 65534), every field read from a fixed-width wire field. (Before the repair of the 16-bit length arithmetic
(commit 2796f0c) the image also contained the request without entries, which Marshal accepted and Unmarshal then
rejected: a C09 violation found by this analysis.) -/
theorem FullIntraRequest.dec_image {f : Bytes} {v : FullIntraRequest} (h : FullIntraRequest.dec f = .ok v) : v.WF := by
  unfold FullIntraRequest.dec at h
  split at h
  · cases h
  · obtain ⟨hd, hhd, h⟩ := bind_eq_ok.mp h
    have hlen := (Header.dec_ok_fields hhd).2.2.1
    dsimp only at h
    split at h
    · cases h
    · split at h
      · cases h
      · split at h
        · cases h
        · rename_i hl4
          obtain ⟨s, hs, h⟩ := bind_eq_ok.mp h
          obtain ⟨m, hm, h⟩ := bind_eq_ok.mp h
          obtain ⟨es, hes, h⟩ := bind_eq_ok.mp h
          simp at h; subst h
          obtain ⟨i1, i2, i3⟩ := decFIRs_image _ _ _ _ _ hes
          simp only [firOffset, headerLength] at hl4 i2 i3
          exact ⟨u32At_lt hs, u32At_lt hm, i3 (by omega), by simp only; omega, i1⟩

/-! ### ApplicationDefined -/

/-- what Marshal needs of an APP packet for the round trip: `WF` without the alignment of `data`
(decoded data had its padding stripped, so it may be unaligned; Marshal pads it again) -/
def ApplicationDefined.DecodedOK (a : ApplicationDefined) : Prop :=
  a.subType ≤ 31 ∧ u32 a.ssrc ∧ a.name.length = 4 ∧ a.data.length ≤ 65535 - 12
instance (a : ApplicationDefined) : Decidable a.DecodedOK := by unfold ApplicationDefined.DecodedOK; infer_instance

theorem ApplicationDefined.DecodedOK_of_WF (a : ApplicationDefined) (h : a.WF) : a.DecodedOK := ⟨h.1, h.2.1, h.2.2.1, h.2.2.2.1⟩

/-- **image of `ApplicationDefined.Unmarshal`** -/
theorem ApplicationDefined.dec_image {f : Bytes} {v : ApplicationDefined} (h : ApplicationDefined.dec f = .ok v) :
    v.DecodedOK ∨ v.enc = .err := by
  by_cases hbig : v.data.length > 65535 - 12
  · right; unfold ApplicationDefined.enc; rw [if_pos hbig]
  · left
    unfold ApplicationDefined.dec at h
    obtain ⟨hd, hhd, h⟩ := bind_eq_ok.mp h
    have hc := (Header.dec_ok_fields hhd).1
    split at h
    · cases h
    · split at h
      · cases h
      · split at h
        · cases h
        · obtain ⟨ssrc, hs, h⟩ := bind_eq_ok.mp h
          obtain ⟨name, hn, h⟩ := bind_eq_ok.mp h
          obtain ⟨pad, hp, h⟩ := bind_eq_ok.mp h
          split at h
          · cases h
          · obtain ⟨data, hdt, h⟩ := bind_eq_ok.mp h
            simp at h; subst h
            obtain ⟨_, _, _, hnl⟩ := slice_eq_ok hn
            exact ⟨by simp only; omega, u32At_lt hs, by simp only; omega, by simp only at hbig ⊢; omega⟩

/-! ### frames as `rtcp.Unmarshal` cuts them (length field up to 0xFFFF included) -/

/-- `f` parses as header `h` and is exactly `h.length + 1` words long -/
def Framed2 (f : Bytes) (h : Header) : Prop := Header.dec f = .ok h ∧ f.length = (h.length + 1) * 4

theorem Header.dec_append (f rest : Bytes) (hl : 4 ≤ f.length) : Header.dec (f ++ rest) = Header.dec f := by
  unfold Header.dec
  rw [if_neg (by simp only [headerLength, List.length_append]; omega), if_neg (by simp only [headerLength]; omega)]
  rw [u8At_of_lt (b := f ++ rest) (i := 0) (by simp only [List.length_append]; omega),
    u8At_of_lt (b := f ++ rest) (i := 1) (by simp only [List.length_append]; omega),
    u16At_of_le (b := f ++ rest) (i := 2) (by simp only [List.length_append]; omega),
    u8At_of_lt (b := f) (i := 0) (by omega), u8At_of_lt (b := f) (i := 1) (by omega), u16At_of_le (b := f) (i := 2) (by omega)]
  have e0 : get8 (f ++ rest) 0 = get8 f 0 := get8_append_left _ _ _ (by omega)
  have e1 : get8 (f ++ rest) 1 = get8 f 1 := get8_append_left _ _ _ (by omega)
  have e2 : get16 (f ++ rest) 2 = get16 f 2 := by
    simp only [get16]; rw [get8_append_left _ _ _ (by omega), get8_append_left _ _ _ (by omega)]
  rw [e0, e1, e2]

theorem Header.dec_take (b : Bytes) (n : Nat) (h4 : 4 ≤ n) (hn : n ≤ b.length) : Header.dec (b.take n) = Header.dec b := by
  have := Header.dec_append (b.take n) (b.drop n) (by simp only [List.length_take]; omega)
  rw [List.take_append_drop] at this
  exact this.symm

theorem Framed.framed2 {f : Bytes} {h : Header} (hf : Framed f h) : Framed2 f h := by
  obtain ⟨⟨body, hb⟩, hc, ht, hl, hs⟩ := hf
  exact ⟨by rw [hb]; exact Header.dec_bytes h _ hc ht (by omega), hs⟩

theorem Framed2.facts {f : Bytes} {h : Header} (hf : Framed2 f h) : 4 ≤ f.length ∧ f.length % 4 = 0 ∧ f.length ≤ 262144 := by
  have := (Header.dec_ok_fields hf.1).2.2.1
  have := hf.2
  omega

theorem unmarshalOne_framed2 (f rest : Bytes) (h : Header) (hf : Framed2 f h) :
    unmarshalOne (f ++ rest) = (decKind (dispatch h.type h.count) f >>= fun p => .ok (p, f.length)) := by
  have h4 := hf.facts.1
  obtain ⟨hd, hs⟩ := hf
  unfold unmarshalOne
  rw [Header.dec_append f rest h4, hd, bind_ok]
  dsimp only
  rw [if_neg (by simp only [List.length_append]; omega), slice_of_le (by omega) (by simp only [List.length_append]; omega), bind_ok]
  have : ((f ++ rest).take ((h.length + 1) * 4)).drop 0 = f := by
    rw [List.drop_zero, ← hs, List.take_left]
  rw [this, hs]
  cases decKind (dispatch h.type h.count) f <;> rfl

theorem unmarshalLoop_cons2 (f rest : Bytes) (h : Header) (hf : Framed2 f h) (gas : Nat) :
    unmarshalLoop (gas + 1) (f ++ rest) =
      (decKind (dispatch h.type h.count) f >>= fun p => unmarshalLoop gas rest >>= fun ps => .ok (p :: ps)) := by
  have hpos := hf.facts.1
  rw [unmarshalLoop, if_neg (by rw [List.length_append]; omega), unmarshalOne_framed2 f rest h hf]
  cases hd : decKind (dispatch h.type h.count) f with
  | ok p =>
    simp only [bind_ok]
    rw [sliceFrom_of_le (by simp), bind_ok, List.drop_left]
    rfl
  | err => rfl
  | panic => rfl
  | diverge => rfl

/-! ### re-encoding well-formed reports of up to 65536 words (`framed` of Lemmas/Frame stops at 65535) -/

theorem SenderReport.reenc (v : SenderReport) (h : v.WF) :
    ∃ f, v.enc = .ok f ∧ Framed2 f v.header ∧ SenderReport.dec f = .ok v := by
  have hrt := SenderReport.roundtrip v h
  have henc := SenderReport.enc_ok v h
  rw [henc, bind_ok] at hrt
  refine ⟨_, henc, ⟨?_, ?_⟩, hrt⟩
  · obtain ⟨h1, h2, h3, h4, h5, h6, h7, h8, h9⟩ := h
    have hm := SenderReport.size_mod4 v
    have hsz : v.marshalSize = 28 + v.reports.length * 24 + v.ext.length + getPadding v.ext.length := by simp [SenderReport.marshalSize]
    simp only [List.append_assoc]
    exact Header.dec_bytes v.header _ (by simp [SenderReport.header]; omega) (by simp [SenderReport.header])
      (by simp [SenderReport.header]; omega)
  · obtain ⟨h1, h2, h3, h4, h5, h6, h7, h8, h9⟩ := h
    have hm := SenderReport.size_mod4 v
    have hsz : v.marshalSize = 28 + v.reports.length * 24 + v.ext.length + getPadding v.ext.length := by simp [SenderReport.marshalSize]
    simp [SenderReport.header]; omega

theorem ReceiverReport.reenc (v : ReceiverReport) (h : v.WF) :
    ∃ f, v.enc = .ok f ∧ Framed2 f v.header ∧ ReceiverReport.dec f = .ok v.quant := by
  have hrt := ReceiverReport.roundtrip v h
  have henc := ReceiverReport.enc_ok v h
  rw [henc, bind_ok] at hrt
  refine ⟨_, henc, ⟨?_, ?_⟩, hrt⟩
  · obtain ⟨h1, h2, h3, h4⟩ := h
    have hm := ReceiverReport.size_mod4 v
    have hsz : v.marshalSize = 8 + v.reports.length * 24 + v.ext.length + getPadding v.ext.length := by simp [ReceiverReport.marshalSize]
    simp only [List.append_assoc]
    exact Header.dec_bytes v.header _ (by simp [ReceiverReport.header]; omega) (by simp [ReceiverReport.header])
      (by simp [ReceiverReport.header]; omega)
  · obtain ⟨h1, h2, h3, h4⟩ := h
    have hm := ReceiverReport.size_mod4 v
    have hsz : v.marshalSize = 8 + v.reports.length * 24 + v.ext.length + getPadding v.ext.length := by simp [ReceiverReport.marshalSize]
    simp [ReceiverReport.header]; omega

theorem SourceDescription.reenc (v : SourceDescription) (h : v.WF) :
    ∃ f, v.enc = .ok f ∧ Framed2 f v.header ∧ SourceDescription.dec f = .ok v := by
  have hrt := SourceDescription.roundtrip v h
  obtain ⟨h1, h2, h3⟩ := h
  have hsz : v.marshalSize = 4 + chunksLen v.chunks := by simp [SourceDescription.marshalSize]
  have hm := chunksLen_mod4 v.chunks
  have henc : v.enc = .ok (v.header.bytes ++ chunksBytes v.chunks) := by
    unfold SourceDescription.enc
    rw [encChunks_ok _ h2, bind_ok, if_neg (by simp; omega), Header.enc_ok _ (by simp [SourceDescription.header]; omega)]; simp
  rw [henc, bind_ok] at hrt
  refine ⟨_, henc, ⟨?_, ?_⟩, hrt⟩
  · exact Header.dec_bytes v.header _ (by simp [SourceDescription.header]; omega) (by simp [SourceDescription.header])
      (by simp [SourceDescription.header]; omega)
  · simp [SourceDescription.header, chunksBytes_length]; omega

/-! ### ApplicationDefined: round trip without the alignment hypothesis -/

def ApplicationDefined.hdr (a : ApplicationDefined) : Header :=
  { type := TypeApplicationDefined, length := (a.marshalSize / 4 - 1) % 65536, padding := appPadding a.data.length ≠ 0, count := a.subType }

theorem appPadding_facts (n : Nat) : appPadding n < 4 ∧ (n + appPadding n) % 4 = 0 := by
  unfold appPadding; split <;> omega

theorem ApplicationDefined.enc_ok' (a : ApplicationDefined) (h : a.DecodedOK) :
    a.enc = .ok (a.hdr.bytes ++ (be32 a.ssrc ++ (a.name ++ (a.data ++ List.replicate (appPadding a.data.length) (byte (appPadding a.data.length)))))) := by
  obtain ⟨h1, h2, h3, h4⟩ := h
  unfold ApplicationDefined.enc
  rw [if_neg (by omega), if_neg (by omega)]
  dsimp only
  have : Header.enc { type := TypeApplicationDefined, length := (a.marshalSize / 4 - 1) % 65536, padding := appPadding a.data.length ≠ 0, count := a.subType }
      = .ok a.hdr.bytes := Header.enc_ok a.hdr (by simpa [ApplicationDefined.hdr] using h1)
  rw [this, bind_ok]
  simp

/-- **APP round trip and framing on `DecodedOK`** (covers unaligned data: Marshal pads, Unmarshal strips) -/
theorem ApplicationDefined.reenc (a : ApplicationDefined) (h : a.DecodedOK) :
    ∃ f, a.enc = .ok f ∧ Framed2 f a.hdr ∧ ApplicationDefined.dec f = .ok a := by
  have henc := ApplicationDefined.enc_ok' a h
  obtain ⟨h1, h2, h3, h4⟩ := h
  simp only [u32] at h2
  obtain ⟨hp1, hp2⟩ := appPadding_facts a.data.length
  have hsz : a.marshalSize = 12 + a.data.length + appPadding a.data.length := rfl
  generalize hpd : appPadding a.data.length = pad at *
  have hlen : (a.hdr.bytes ++ (be32 a.ssrc ++ (a.name ++ (a.data ++ List.replicate pad (byte pad))))).length = 12 + a.data.length + pad := by
    simp [h3]; omega
  have hhl : a.hdr.length = (12 + a.data.length + pad) / 4 - 1 := by simp [ApplicationDefined.hdr, hsz]; omega
  have hdec : Header.dec (a.hdr.bytes ++ (be32 a.ssrc ++ (a.name ++ (a.data ++ List.replicate pad (byte pad))))) = .ok a.hdr :=
    Header.dec_bytes a.hdr _ (by simpa [ApplicationDefined.hdr] using h1) (by simp [ApplicationDefined.hdr]) (by rw [hhl]; omega)
  refine ⟨_, henc, ⟨hdec, by rw [hlen, hhl]; omega⟩, ?_⟩
  unfold ApplicationDefined.dec
  rw [hdec, bind_ok]
  rw [if_neg (by simp [ApplicationDefined.hdr]), if_neg (by rw [hlen]; omega), if_neg (by rw [hlen, hhl]; omega)]
  rw [u32At_of_le (by rw [hlen]; omega), bind_ok, get32_at a.hdr.bytes _ a.ssrc 4 (by simp) h2]
  rw [slice_of_le (by omega) (by rw [hlen]; omega), bind_ok]
  have hname : ((a.hdr.bytes ++ (be32 a.ssrc ++ (a.name ++ (a.data ++ List.replicate pad (byte pad))))).take 12).drop 8 = a.name := by
    have := take_drop_mid (a.hdr.bytes ++ be32 a.ssrc) a.name (a.data ++ List.replicate pad (byte pad))
    simp only [List.length_append, Header.bytes_length, be32_length, h3, List.append_assoc] at this
    exact this
  rw [hname]
  have hpadv : (if a.hdr.padding = true then u8At (a.hdr.bytes ++ (be32 a.ssrc ++ (a.name ++ (a.data ++ List.replicate pad (byte pad)))))
      ((a.hdr.bytes ++ (be32 a.ssrc ++ (a.name ++ (a.data ++ List.replicate pad (byte pad))))).length - 1) else pure 0) = .ok pad := by
    by_cases hz : pad = 0
    · have : a.hdr.padding = false := by simp [ApplicationDefined.hdr, hpd, hz]
      rw [this, hz]; rfl
    · have : a.hdr.padding = true := by simp [ApplicationDefined.hdr, hpd, hz]
      rw [this, if_pos rfl, u8At_of_lt (by rw [hlen]; omega), hlen]
      obtain ⟨k, hk⟩ : ∃ k, pad = k + 1 := ⟨pad - 1, by omega⟩
      have e : a.hdr.bytes ++ (be32 a.ssrc ++ (a.name ++ (a.data ++ List.replicate pad (byte pad))))
          = (a.hdr.bytes ++ be32 a.ssrc ++ a.name ++ a.data ++ List.replicate k (byte pad)) ++ (byte pad :: []) := by
        rw [hk, List.replicate_succ']; simp
      rw [e, get8_at _ _ _ _ (by simp [h3]; omega)]
      simp; omega
  rw [hpadv, bind_ok]
  rw [if_neg (by rw [hlen]; omega), hlen]
  rw [slice_of_le (by omega) (by rw [hlen]; omega), bind_ok]
  have hdata : ((a.hdr.bytes ++ (be32 a.ssrc ++ (a.name ++ (a.data ++ List.replicate pad (byte pad))))).take (12 + a.data.length + pad - pad)).drop 12 = a.data := by
    have := take_drop_mid (a.hdr.bytes ++ be32 a.ssrc ++ a.name) a.data (List.replicate pad (byte pad))
    simp only [List.length_append, Header.bytes_length, be32_length, h3, List.append_assoc] at this
    have e : 12 + a.data.length + pad - pad = 4 + 4 + 4 + a.data.length := by omega
    rw [e]; exact this
  rw [hdata]
  rfl

/-! ### non-vacuity: each decoder accepts a concrete frame that meets the hypotheses of its image lemma -/

example : SenderReport.dec [128, 200, 0, 7, 0, 0, 0, 1, 0, 0, 0, 0, 0, 0, 0, 2, 0, 0, 0, 3, 0, 0, 0, 4, 0, 0, 0, 5, 9, 9, 9, 9]
    = .ok { ssrc := 1, ntpTime := 2, rtpTime := 3, packetCount := 4, octetCount := 5, ext := [9, 9, 9, 9] } := by decide
example : Goodbye.dec [129, 203, 0, 2, 0, 0, 0, 1, 2, 104, 105, 0] = .ok { sources := [1], reason := [104, 105] } := by decide
example : TransportLayerNack.dec [129, 205, 0, 3, 0, 0, 0, 1, 0, 0, 0, 2, 0, 5, 0, 1]
    = .ok { sender := 1, media := 2, nacks := [{ packetID := 5, lost := 1 }] } := by decide
example : FullIntraRequest.dec [132, 206, 0, 4, 0, 0, 0, 1, 0, 0, 0, 2, 0, 0, 0, 3, 7, 0, 0, 0]
    = .ok { sender := 1, media := 2, fir := [{ ssrc := 3, seq := 7 }] } := by decide
example : PictureLossIndication.dec [129, 206, 0, 2, 0, 0, 0, 1, 0, 0, 0, 2] = .ok { sender := 1, media := 2 } := by decide
example : RapidResync.dec [133, 205, 0, 2, 0, 0, 0, 1, 0, 0, 0, 2] = .ok { sender := 1, media := 2 } := by decide
/-- a decoded APP outside `WF` (three data octets after one padding octet was stripped) but inside `DecodedOK` -/
example : ApplicationDefined.dec [163, 204, 0, 3, 0, 0, 0, 9, 110, 97, 109, 101, 120, 121, 122, 1]
      = .ok { subType := 3, ssrc := 9, name := [110, 97, 109, 101], data := [120, 121, 122] } ∧
    ApplicationDefined.DecodedOK { subType := 3, ssrc := 9, name := [110, 97, 109, 101], data := [120, 121, 122] } ∧
    ¬ ApplicationDefined.WF { subType := 3, ssrc := 9, name := [110, 97, 109, 101], data := [120, 121, 122] } := by decide

end Rtcp
