/-
  The reflective struct codec is its own inverse on well-shaped values, for *any* layout of the supported form
  (scalars of 1/2/4/8 octets, skipped unexported fields, omitted fields, one trailing slice). C15, C02.
-/
import Rtcp.Lemmas.Safe6
namespace Rtcp
open Gen Out
set_option linter.unusedSimpArgs false
set_option linter.unusedVariables false

def widthOK (w : Nat) : Prop := w = 1 ∨ w = 2 ∨ w = 4 ∨ w = 8
instance (w : Nat) : Decidable (widthOK w) := by unfold widthOK; infer_instance

def fits (w v : Nat) : Prop := v < 256 ^ w
instance (w v : Nat) : Decidable (fits w v) := by unfold fits; infer_instance

theorem writeScalar_length (w v : Nat) (hw : widthOK w) : (writeScalar w v).length = w := by
  rcases hw with h | h | h | h <;> subst h <;> simp [writeScalar]

theorem getScalar_writeScalar (w v : Nat) (post : Bytes) (hw : widthOK w) (hv : fits w v) :
    getScalar w (writeScalar w v ++ post) = v := by
  unfold fits at hv
  rcases hw with h | h | h | h <;> subst h
  · simp [writeScalar, getScalar, get8, byte]; omega
  · simp [writeScalar, getScalar]; exact get16_be16 v post (by simpa using hv)
  · simp [writeScalar, getScalar]; exact get32_be32 v post (by simpa using hv)
  · simp [writeScalar, getScalar]; exact get64_be64 v post (by simpa using hv)

theorem drop_of_length_eq {a b : Bytes} {n : Nat} (h : a.length = n) : (a ++ b).drop n = b := by
  subst h; exact List.drop_left

/-- an element is well shaped for widths `ws` -/
def elemOK : List Nat → List Nat → Prop
  | [], [] => True
  | w :: ws, v :: vs => widthOK w ∧ fits w v ∧ elemOK ws vs
  | _, _ => False

def elemBytes : List Nat → List Nat → Bytes
  | w :: ws, v :: vs => writeScalar w v ++ elemBytes ws vs
  | _, _ => []

theorem writeElem_ok (ws vs : List Nat) (h : elemOK ws vs) : writeElem ws vs = .ok (elemBytes ws vs) := by
  induction ws generalizing vs with
  | nil => cases vs <;> simp [elemOK] at h; rfl
  | cons w ws ih =>
    cases vs with
    | nil => simp [elemOK] at h
    | cons v vs =>
      obtain ⟨h1, h2, h3⟩ := h
      simp [writeElem, ih vs h3, elemBytes]

theorem elemBytes_length (ws vs : List Nat) (h : elemOK ws vs) : (elemBytes ws vs).length = ws.sum := by
  induction ws generalizing vs with
  | nil => cases vs <;> simp [elemOK] at h; rfl
  | cons w ws ih =>
    cases vs with
    | nil => simp [elemOK] at h
    | cons v vs =>
      obtain ⟨h1, h2, h3⟩ := h
      simp [elemBytes, writeScalar_length w v h1, ih vs h3]

theorem readElem_bytes (ws vs : List Nat) (post : Bytes) (h : elemOK ws vs) :
    readElem ws (elemBytes ws vs ++ post) = .ok (vs, post) := by
  induction ws generalizing vs with
  | nil => cases vs <;> simp [elemOK] at h; simp [readElem, elemBytes]
  | cons w ws ih =>
    cases vs with
    | nil => simp [elemOK] at h
    | cons v vs =>
      obtain ⟨h1, h2, h3⟩ := h
      have hl := writeScalar_length w v h1
      simp only [readElem, elemBytes, List.append_assoc]
      rw [if_neg (by simp [hl])]
      have hd : (writeScalar w v ++ (elemBytes ws vs ++ post)).drop w = elemBytes ws vs ++ post := drop_of_length_eq hl
      rw [hd, ih vs h3, bind_ok, getScalar_writeScalar w v _ h1 h2]
      rfl

def elemsBytes (ws : List Nat) (es : List (List Nat)) : Bytes := (es.map (elemBytes ws)).flatten

theorem writeElems_ok (ws : List Nat) (es : List (List Nat)) (h : ∀ e ∈ es, elemOK ws e) :
    writeElems ws es = .ok (elemsBytes ws es) := by
  induction es with
  | nil => rfl
  | cons e es ih =>
    simp [writeElems, writeElem_ok ws e (h e (by simp)), ih (fun x hx => h x (by simp [hx])), elemsBytes]

theorem elemsBytes_length (ws : List Nat) (es : List (List Nat)) (h : ∀ e ∈ es, elemOK ws e) :
    (elemsBytes ws es).length = es.length * ws.sum := by
  induction es with
  | nil => simp [elemsBytes]
  | cons e es ih =>
    have := ih (fun x hx => h x (by simp [hx]))
    simp [elemsBytes] at this ⊢
    rw [elemBytes_length ws e (h e (by simp)), this]
    rw [Nat.add_mul, Nat.one_mul, Nat.add_comm]

theorem readElems_bytes (ws : List Nat) (es : List (List Nat)) (gas : Nat) (hws : 0 < ws.sum)
    (h : ∀ e ∈ es, elemOK ws e) (hg : es.length < gas) : readElems gas ws (elemsBytes ws es) = .ok es := by
  induction es generalizing gas with
  | nil =>
    cases gas with
    | zero => omega
    | succ g => simp [readElems, elemsBytes]
  | cons e es ih =>
    cases gas with
    | zero => omega
    | succ g =>
      rw [readElems]
      have hb : elemsBytes ws (e :: es) = elemBytes ws e ++ elemsBytes ws es := by simp [elemsBytes]
      have hl := elemBytes_length ws e (h e (by simp))
      rw [hb, if_neg (by rw [List.length_append, hl]; omega), readElem_bytes ws e _ (h e (by simp)), bind_ok]
      dsimp only
      rw [ih g (fun x hx => h x (by simp [hx])) (by simp at hg; omega)]
      rfl

/-- values well shaped for a list of layout items (slice last) -/
def itemsOK : List Item → List Nat → List (List Nat) → Prop
  | [], [], [] => True
  | .scalar _ w :: is, v :: vs, es => widthOK w ∧ fits w v ∧ itemsOK is vs es
  | .skip _ :: is, vs, es => itemsOK is vs es
  | .omitted _ :: is, vs, es => itemsOK is vs es
  | [.sliceOf _ ws], [], es => 0 < ws.sum ∧ ∀ e ∈ es, elemOK ws e
  | _, _, _ => False

def itemsBytesL : List Item → List Nat → List (List Nat) → Bytes
  | .scalar _ w :: is, v :: vs, es => writeScalar w v ++ itemsBytesL is vs es
  | .skip w :: is, vs, es => zeros w ++ itemsBytesL is vs es
  | .omitted _ :: is, vs, es => itemsBytesL is vs es
  | [.sliceOf _ ws], _, es => elemsBytes ws es
  | _, _, _ => []

theorem writeItems_ok (items : List Item) (vs : List Nat) (es : List (List Nat)) (h : itemsOK items vs es) :
    writeItems items vs es = .ok (itemsBytesL items vs es) := by
  induction items generalizing vs with
  | nil => cases vs <;> cases es <;> simp [itemsOK] at h; rfl
  | cons it items ih =>
    cases it with
    | scalar n w =>
      cases vs with
      | nil => simp [itemsOK] at h
      | cons v vs =>
        obtain ⟨h1, h2, h3⟩ := h
        simp [writeItems, ih vs h3, itemsBytesL]
    | skip w => simp only [itemsOK] at h; simp [writeItems, ih vs h, itemsBytesL]
    | omitted n => simp only [itemsOK] at h; simp [writeItems, ih vs h, itemsBytesL]
    | sliceOf n ws =>
      cases items with
      | nil =>
        cases vs with
        | nil =>
          obtain ⟨h1, h2⟩ := h
          simp [writeItems, writeElems_ok ws es h2, itemsBytesL]
        | cons v vs => simp [itemsOK] at h
      | cons i2 is2 => cases vs <;> simp [itemsOK] at h
    | blocks n => cases vs <;> cases es <;> simp [itemsOK] at h
    | bad n => cases vs <;> cases es <;> simp [itemsOK] at h

theorem itemsBytesL_length (items : List Item) (vs : List Nat) (es : List (List Nat)) (h : itemsOK items vs es) :
    (itemsBytesL items vs es).length = sizeItems items es := by
  induction items generalizing vs with
  | nil => cases vs <;> cases es <;> simp [itemsOK] at h; rfl
  | cons it items ih =>
    cases it with
    | scalar n w =>
      cases vs with
      | nil => simp [itemsOK] at h
      | cons v vs =>
        obtain ⟨h1, h2, h3⟩ := h
        simp [itemsBytesL, sizeItems, writeScalar_length w v h1, ih vs h3]
    | skip w => simp only [itemsOK] at h; simp [itemsBytesL, sizeItems, ih vs h]
    | omitted n => simp only [itemsOK] at h; simp [itemsBytesL, sizeItems, ih vs h]
    | sliceOf n ws =>
      cases items with
      | nil =>
        cases vs with
        | nil =>
          obtain ⟨h1, h2⟩ := h
          simp [itemsBytesL, sizeItems, elemsBytes_length ws es h2, elemSize]
        | cons v vs => simp [itemsOK] at h
      | cons i2 is2 => cases vs <;> simp [itemsOK] at h
    | blocks n => cases vs <;> cases es <;> simp [itemsOK] at h
    | bad n => cases vs <;> cases es <;> simp [itemsOK] at h

/-- **the reader inverts the writer** on the exact bytes of a well-shaped struct value -/
theorem readItems_bytes (items : List Item) (vs : List Nat) (es : List (List Nat)) (h : itemsOK items vs es) :
    readItems items (itemsBytesL items vs es) = .ok (vs, es, []) := by
  induction items generalizing vs with
  | nil => cases vs <;> cases es <;> simp [itemsOK] at h; simp [readItems, itemsBytesL]
  | cons it items ih =>
    cases it with
    | scalar n w =>
      cases vs with
      | nil => simp [itemsOK] at h
      | cons v vs =>
        obtain ⟨h1, h2, h3⟩ := h
        have hl := writeScalar_length w v h1
        have e : itemsBytesL (.scalar n w :: items) (v :: vs) es = writeScalar w v ++ itemsBytesL items vs es := rfl
        rw [e, readItems]
        rw [if_neg (by simp [hl])]
        have hd : (writeScalar w v ++ itemsBytesL items vs es).drop w = itemsBytesL items vs es := drop_of_length_eq hl
        rw [hd, ih vs h3, bind_ok, getScalar_writeScalar w v _ h1 h2]
        rfl
    | skip w =>
      simp only [itemsOK] at h
      have e : itemsBytesL (.skip w :: items) vs es = zeros w ++ itemsBytesL items vs es := rfl
      rw [e, readItems]
      rw [if_neg (by simp)]
      have hd : (zeros w ++ itemsBytesL items vs es).drop w = itemsBytesL items vs es := drop_of_length_eq (by simp)
      rw [hd, ih vs h]
    | omitted n =>
      simp only [itemsOK] at h
      have e : itemsBytesL (.omitted n :: items) vs es = itemsBytesL items vs es := rfl
      rw [e, readItems]
      exact ih vs h
    | sliceOf n ws =>
      cases items with
      | nil =>
        cases vs with
        | nil =>
          obtain ⟨h1, h2⟩ := h
          have e : itemsBytesL [.sliceOf n ws] [] es = elemsBytes ws es := rfl
          rw [e, readItems]
          rw [readElems_bytes ws es _ h1 h2 (by rw [elemsBytes_length ws es h2]; have : es.length ≤ es.length * ws.sum := Nat.le_mul_of_pos_right _ h1; omega)]
          simp [readItems]
        | cons v vs => simp [itemsOK] at h
      | cons i2 is2 => cases vs <;> simp [itemsOK] at h
    | blocks n => cases vs <;> cases es <;> simp [itemsOK] at h
    | bad n => cases vs <;> cases es <;> simp [itemsOK] at h

end Rtcp
