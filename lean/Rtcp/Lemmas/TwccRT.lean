/-
  Helper lemmas for the encode-side TWCC theorems (Proofs/Twcc.lean):
  1. status-vector chunk arithmetic, closed forms of the chunk encoder / decoders (`TwccChunk.enc_ok`, `TwccChunk.dec_word`);
  2. receive deltas, the encoder's buffer writes, the closed form of `Twcc.enc` (`Twcc.enc_ok`: `Twcc.wire`), framing;
  3. the decoder's loops run on the encoder's output (`chunkLoop_enc`, `deltaLoop_enc`, `Twcc.dec_wire`);
  4. the draft's layout (Spec/Twcc.lean) renders to the encoder's output (`twcc_render`);
  5. quantisation is idempotent and invisible to Marshal.
-/
import Rtcp.Spec.Twcc
import Rtcp.Lemmas.Bits
import Rtcp.Lemmas.SpecBits
import Rtcp.Lemmas.Frame
import Rtcp.Proofs.C16
namespace Rtcp
open Gen Out Spec
set_option linter.unusedSimpArgs false
set_option linter.unusedVariables false

/-! ### status vector chunk: the symbol loop -/

/-- value the symbol loop adds: symbol number `i + j` (of `nb` bits) sits `nb·(i+j+1)` bits below bit 14 -/
def symSum (nb : Nat) : Nat → List Nat → Nat
  | _, [] => 0
  | i, s :: ss => (s % 2 ^ nb) * 2 ^ (14 - nb * (i + 1)) + symSum nb (i + 1) ss

theorem pow_dvd_of_le {a b : Nat} (h : a ≤ b) : 2 ^ a ∣ 2 ^ b := Nat.pow_dvd_pow 2 h

theorem svSetSymbols_eq (nb : Nat) (hnb : 1 ≤ nb) (ss : List Nat) (i dst : Nat) (hi : nb * (i + ss.length) ≤ 14)
    (hdst : dst % 2 ^ (14 - nb * i) = 0) :
    svSetSymbols nb i ss dst = .ok (dst + symSum nb i ss) := by
  induction ss generalizing i dst with
  | nil => simp [svSetSymbols, symSum]
  | cons s ss ih =>
    have hmul : nb * (i + (s :: ss).length) = nb * i + nb + nb * ss.length := by
      simp only [List.length_cons]; rw [← Nat.add_assoc, Nat.mul_add, Nat.mul_add, Nat.mul_one]; omega
    have hmul1 : nb * (i + 1) = nb * i + nb := by rw [Nat.mul_add, Nat.mul_one]
    have hile : i ≤ nb * i := Nat.le_mul_of_pos_left i hnb
    have hidx : ((nb * (i % 65536)) % 65536 + 2) % 65536 = nb * i + 2 := by
      have : i % 65536 = i := by omega
      rw [this]; omega
    rw [svSetSymbols]
    rw [hidx, setNBits_eq dst nb (nb * i + 2) s (by omega) (by
      have : 16 - (nb * i + 2) = 14 - nb * i := by omega
      rw [this]; exact hdst), bind_ok]
    have hexp : 16 - nb - (nb * i + 2) = 14 - nb * (i + 1) := by rw [hmul1]; omega
    rw [hexp]
    have hnext : (dst + s % 2 ^ nb * 2 ^ (14 - nb * (i + 1))) % 2 ^ (14 - nb * (i + 1)) = 0 := by
      have h1 : 2 ^ (14 - nb * (i + 1)) ∣ dst :=
        Nat.dvd_trans (pow_dvd_of_le (by rw [hmul1]; omega)) (Nat.dvd_of_mod_eq_zero hdst)
      have h2 : 2 ^ (14 - nb * (i + 1)) ∣ s % 2 ^ nb * 2 ^ (14 - nb * (i + 1)) := Nat.dvd_mul_left _ _
      exact Nat.mod_eq_zero_of_dvd (Nat.dvd_add h1 h2)
    rw [ih (i + 1) _ (by
      have : nb * (i + 1 + ss.length) = nb * i + nb + nb * ss.length := by
        rw [Nat.mul_add, hmul1]
      omega) hnext]
    simp only [symSum, Nat.add_assoc]

/-- the 16-bit word of a chunk, as the draft draws it -/
def chunkWord : TwccChunk → Nat
  | .rl _ sym run => sym * 8192 + run
  | .sv _ ss syms => 32768 + ss * 16384 + symSum (ss + 1) 0 syms

theorem sv_enc (t ss : Nat) (syms : List Nat) (hss : ss < 2) (hlen : (ss + 1) * syms.length ≤ 14) :
    TwccChunk.enc (.sv t ss syms) = .ok (be16 (32768 + ss * 16384 + symSum (ss + 1) 0 syms)) := by
  rw [TwccChunk.enc]
  rw [setNBits_eq 0 1 0 1 (by omega) (by simp), bind_ok]
  rw [setNBits_eq _ 1 1 ss (by omega) (by simp), bind_ok]
  have hnb : (if ss = TypeTCCSymbolSizeOneBit then 1 else if ss = TypeTCCSymbolSizeTwoBit then 2 else 0) = ss + 1 := by
    simp only [TypeTCCSymbolSizeOneBit, TypeTCCSymbolSizeTwoBit]
    split
    · omega
    · rw [if_pos (by omega)]; omega
  simp only [hnb]
  have hss' : ss % 2 ^ 1 = ss := by simp; omega
  rw [hss']
  rw [svSetSymbols_eq (ss + 1) (by omega) syms 0 _ (by simpa using hlen) (by
    have : ss = 0 ∨ ss = 1 := by omega
    rcases this with h | h <;> subst h <;> simp), bind_ok]
  simp

theorem cons_of_length_succ {α} (l : List α) (n : Nat) (h : l.length = n + 1) : ∃ a t, l = a :: t ∧ t.length = n := by
  cases l with
  | nil => simp at h
  | cons a t => exact ⟨a, t, rfl, by simpa using h⟩

theorem list_len14 (l : List Nat) (h : l.length = 14) :
    ∃ a0 a1 a2 a3 a4 a5 a6 a7 a8 a9 a10 a11 a12 a13, l = [a0, a1, a2, a3, a4, a5, a6, a7, a8, a9, a10, a11, a12, a13] := by
  obtain ⟨a0, l0, e0, h0⟩ := cons_of_length_succ l _ h
  obtain ⟨a1, l1, e1, h1⟩ := cons_of_length_succ l0 _ h0
  obtain ⟨a2, l2, e2, h2⟩ := cons_of_length_succ l1 _ h1
  obtain ⟨a3, l3, e3, h3⟩ := cons_of_length_succ l2 _ h2
  obtain ⟨a4, l4, e4, h4⟩ := cons_of_length_succ l3 _ h3
  obtain ⟨a5, l5, e5, h5⟩ := cons_of_length_succ l4 _ h4
  obtain ⟨a6, l6, e6, h6⟩ := cons_of_length_succ l5 _ h5
  obtain ⟨a7, l7, e7, h7⟩ := cons_of_length_succ l6 _ h6
  obtain ⟨a8, l8, e8, h8⟩ := cons_of_length_succ l7 _ h7
  obtain ⟨a9, l9, e9, h9⟩ := cons_of_length_succ l8 _ h8
  obtain ⟨a10, l10, e10, h10⟩ := cons_of_length_succ l9 _ h9
  obtain ⟨a11, l11, e11, h11⟩ := cons_of_length_succ l10 _ h10
  obtain ⟨a12, l12, e12, h12⟩ := cons_of_length_succ l11 _ h11
  obtain ⟨a13, l13, e13, h13⟩ := cons_of_length_succ l12 _ h12
  have e : l13 = [] := List.eq_nil_of_length_eq_zero h13
  subst e e13 e12 e11 e10 e9 e8 e7 e6 e5 e4 e3 e2 e1 e0
  exact ⟨_, _, _, _, _, _, _, _, _, _, _, _, _, _, rfl⟩

theorem list_len7 (l : List Nat) (h : l.length = 7) :
    ∃ a0 a1 a2 a3 a4 a5 a6, l = [a0, a1, a2, a3, a4, a5, a6] := by
  obtain ⟨a0, l0, e0, h0⟩ := cons_of_length_succ l _ h
  obtain ⟨a1, l1, e1, h1⟩ := cons_of_length_succ l0 _ h0
  obtain ⟨a2, l2, e2, h2⟩ := cons_of_length_succ l1 _ h1
  obtain ⟨a3, l3, e3, h3⟩ := cons_of_length_succ l2 _ h2
  obtain ⟨a4, l4, e4, h4⟩ := cons_of_length_succ l3 _ h3
  obtain ⟨a5, l5, e5, h5⟩ := cons_of_length_succ l4 _ h4
  obtain ⟨a6, l6, e6, h6⟩ := cons_of_length_succ l5 _ h5
  have e : l6 = [] := List.eq_nil_of_length_eq_zero h6
  subst e e6 e5 e4 e3 e2 e1 e0
  exact ⟨_, _, _, _, _, _, _, rfl⟩

/-- decoding a word whose top two bits are `10`: fourteen one-bit symbols -/
theorem sv_dec_one (hi lo : Nat) (h1 : 128 ≤ hi) (h2 : hi < 192) (hl : lo < 256) :
    svChunkDec [byte hi, byte lo] = .ok (.sv 1 0
      [hi / 32 % 2, hi / 16 % 2, hi / 8 % 2, hi / 4 % 2, hi / 2 % 2, hi % 2,
       lo / 128 % 2, lo / 64 % 2, lo / 32 % 2, lo / 16 % 2, lo / 8 % 2, lo / 4 % 2, lo / 2 % 2, lo % 2]) := by
  have hh : hi < 256 := by omega
  unfold svChunkDec
  simp [u8At, get8, byte, List.range, List.range.loop]
  rw [Nat.mod_eq_of_lt hh, Nat.mod_eq_of_lt hl]
  simp [getNBits_eq hi _ _ hh, getNBits_eq lo _ _ hl]
  have h64 : hi / 64 % 2 = 0 := by omega
  rw [if_pos h64, h64]

/-- decoding a word whose top two bits are `11`: seven two-bit symbols -/
theorem sv_dec_two (hi lo : Nat) (h1 : 192 ≤ hi) (h2 : hi < 256) (hl : lo < 256) :
    svChunkDec [byte hi, byte lo] = .ok (.sv 1 1
      [hi / 16 % 4, hi / 4 % 4, hi % 4, lo / 64 % 4, lo / 16 % 4, lo / 4 % 4, lo % 4]) := by
  have hh : hi < 256 := by omega
  unfold svChunkDec
  simp [u8At, get8, byte, List.range, List.range.loop]
  rw [Nat.mod_eq_of_lt hh, Nat.mod_eq_of_lt hl]
  simp [getNBits_eq hi _ _ hh, getNBits_eq lo _ _ hl]
  have h64 : hi / 64 % 2 = 1 := by omega
  rw [if_neg (by omega), if_pos h64, h64]

theorem be16_eq (w : Nat) : be16 w = [byte (w / 256), byte (w % 256)] := by
  simp only [be16, List.cons.injEq, and_true, true_and]
  apply UInt8.toNat_inj.mp; simp

theorem sv_word_dec_one (a0 a1 a2 a3 a4 a5 a6 a7 a8 a9 a10 a11 a12 a13 : Nat)
    (h : ∀ s ∈ [a0, a1, a2, a3, a4, a5, a6, a7, a8, a9, a10, a11, a12, a13], s < 2) :
    svChunkDec (be16 (32768 + 0 * 16384 + symSum (0 + 1) 0 [a0, a1, a2, a3, a4, a5, a6, a7, a8, a9, a10, a11, a12, a13]))
      = .ok (.sv 1 0 [a0, a1, a2, a3, a4, a5, a6, a7, a8, a9, a10, a11, a12, a13]) := by
  simp only [List.mem_cons, List.not_mem_nil, or_false, forall_eq_or_imp, forall_eq] at h
  simp only [symSum]
  simp only [Nat.zero_add, Nat.reduceMul, Nat.reduceAdd, Nat.reduceSub, Nat.reducePow, Nat.add_zero]
  rw [be16_eq, sv_dec_one _ _ (by omega) (by omega) (by omega)]
  simp only [Out.ok.injEq, TwccChunk.sv.injEq, List.cons.injEq, and_true, true_and]
  omega

theorem sv_word_dec_two (a0 a1 a2 a3 a4 a5 a6 : Nat) (h : ∀ s ∈ [a0, a1, a2, a3, a4, a5, a6], s < 4) :
    svChunkDec (be16 (32768 + 1 * 16384 + symSum (1 + 1) 0 [a0, a1, a2, a3, a4, a5, a6]))
      = .ok (.sv 1 1 [a0, a1, a2, a3, a4, a5, a6]) := by
  simp only [List.mem_cons, List.not_mem_nil, or_false, forall_eq_or_imp, forall_eq] at h
  simp only [symSum]
  simp only [Nat.zero_add, Nat.reduceMul, Nat.reduceAdd, Nat.reduceSub, Nat.reducePow, Nat.add_zero]
  rw [be16_eq, sv_dec_two _ _ (by omega) (by omega) (by omega)]
  simp only [Out.ok.injEq, TwccChunk.sv.injEq, List.cons.injEq, and_true, true_and]
  omega

/-- a well-formed chunk encodes to its word -/
theorem TwccChunk.enc_ok (c : TwccChunk) (h : c.WF) : c.enc = .ok (be16 (chunkWord c)) := by
  cases c with
  | rl t sym run =>
    obtain ⟨h1, h2, h3⟩ := h
    rw [C16.rl_enc, Nat.mod_eq_of_lt h2, Nat.mod_eq_of_lt h3]; rfl
  | sv t ss syms =>
    obtain ⟨h1, h2⟩ := h
    rcases h2 with ⟨h2, h3, h4⟩ | ⟨h2, h3, h4⟩
    · exact sv_enc t ss syms (by omega) (by rw [h2, h3]; decide)
    · exact sv_enc t ss syms (by omega) (by rw [h2, h3]; decide)

theorem chunkWord_lt (c : TwccChunk) (h : c.WF) :
    chunkWord c < 65536 ∧ (chunkWord c < 32768 ↔ ∃ t s r, c = .rl t s r) := by
  cases c with
  | rl t sym run =>
    obtain ⟨h1, h2, h3⟩ := h
    simp only [chunkWord]
    exact ⟨by omega, by simp; omega⟩
  | sv t ss syms =>
    obtain ⟨h1, h2⟩ := h
    rcases h2 with ⟨h2, h3, h4⟩ | ⟨h2, h3, h4⟩
    · obtain ⟨a0, a1, a2, a3, a4, a5, a6, a7, a8, a9, a10, a11, a12, a13, rfl⟩ := list_len14 syms h3
      subst h2
      simp only [List.mem_cons, List.not_mem_nil, or_false, forall_eq_or_imp, forall_eq] at h4
      simp only [chunkWord, symSum]
      simp only [Nat.zero_add, Nat.reduceMul, Nat.reduceAdd, Nat.reduceSub, Nat.reducePow, Nat.add_zero]
      exact ⟨by omega, by simp⟩
    · obtain ⟨a0, a1, a2, a3, a4, a5, a6, rfl⟩ := list_len7 syms h3
      subst h2
      simp only [List.mem_cons, List.not_mem_nil, or_false, forall_eq_or_imp, forall_eq] at h4
      simp only [chunkWord, symSum]
      simp only [Nat.zero_add, Nat.reduceMul, Nat.reduceAdd, Nat.reduceSub, Nat.reducePow, Nat.add_zero]
      exact ⟨by omega, by simp; omega⟩

/-- the decoder's dispatch on the first bit, then the chunk decoder, give the chunk back -/
theorem TwccChunk.dec_word (c : TwccChunk) (h : c.WF) :
    (if getNBitsFromByte (chunkWord c / 256) 0 1 = TypeTCCRunLengthChunk then rlChunkDec (be16 (chunkWord c))
     else svChunkDec (be16 (chunkWord c))) = .ok c := by
  have hw := chunkWord_lt c h
  rw [getNBits_eq _ 0 1 (by omega) (by omega)]
  cases c with
  | rl t sym run =>
    have hlt : chunkWord (.rl t sym run) < 32768 := hw.2.mpr ⟨_, _, _, rfl⟩
    rw [if_pos (by simp; omega)]
    obtain ⟨h1, h2, h3⟩ := h
    subst h1
    have := C16.rl_enc_dec sym run h2 h3
    rw [C16.rl_enc, bind_ok, Nat.mod_eq_of_lt h2, Nat.mod_eq_of_lt h3] at this
    exact this
  | sv t ss syms =>
    have hge : ¬ chunkWord (.sv t ss syms) < 32768 := fun hlt => by
      obtain ⟨_, _, _, e⟩ := hw.2.mp hlt; cases e
    rw [if_neg (by simp; omega)]
    obtain ⟨h1, h2⟩ := h
    subst h1
    rcases h2 with ⟨h2, h3, h4⟩ | ⟨h2, h3, h4⟩
    · obtain ⟨a0, a1, a2, a3, a4, a5, a6, a7, a8, a9, a10, a11, a12, a13, rfl⟩ := list_len14 syms h3
      subst h2
      exact sv_word_dec_one _ _ _ _ _ _ _ _ _ _ _ _ _ _ h4
    · obtain ⟨a0, a1, a2, a3, a4, a5, a6, rfl⟩ := list_len7 syms h3
      subst h2
      exact sv_word_dec_two _ _ _ _ _ _ _ h4

/-! ### receive deltas -/

/-- the octets of a delta -/
def deltaBytes (d : RecvDelta) : Bytes :=
  if d.type = 1 then [byte d.ticks.toNat] else be16 ((d.ticks + 65536) % 65536).toNat

theorem RecvDelta.enc_ok (d : RecvDelta) (h : d.Fits) : d.enc = .ok (deltaBytes d) := by
  unfold RecvDelta.enc deltaBytes
  have ht : tdiv d.delta TypeTCCDeltaScaleFactor = d.ticks := rfl
  simp only [ht, TypeTCCPacketReceivedSmallDelta, TypeTCCPacketReceivedLargeDelta]
  rcases h with ⟨h1, h2, h3⟩ | ⟨h1, h2, h3⟩
  · rw [if_pos ⟨h1, h2, h3⟩, if_pos h1]
  · rw [if_neg (by omega), if_pos ⟨h1, h2, h3⟩, if_neg (by omega)]

theorem deltaBytes_length (d : RecvDelta) (h : d.Fits) :
    (deltaBytes d).length = deltaSize d ∧ (deltaBytes d).length = deltaAdvance d ∧
    (deltaBytes d).length = (if d.type = 1 then 1 else 2) := by
  unfold deltaBytes deltaSize deltaAdvance
  simp only [TypeTCCPacketReceivedSmallDelta, TypeTCCPacketReceivedLargeDelta]
  rcases h with ⟨h1, h2, h3⟩ | ⟨h1, h2, h3⟩
  · rw [if_pos h1, if_pos h1, if_neg (by omega)]; simp
  · rw [if_neg (by omega), if_neg (by omega), if_pos h1]; simp

theorem RecvDelta.dec_bytes (d : RecvDelta) (h : d.Fits) : RecvDelta.dec (deltaBytes d) = .ok d.quant := by
  obtain ⟨ty, dl⟩ := d
  unfold deltaBytes RecvDelta.quant
  generalize hq : RecvDelta.ticks ⟨ty, dl⟩ = q at h ⊢
  simp only [RecvDelta.Fits, hq] at h
  simp only
  rcases h with ⟨h1, h2, h3⟩ | ⟨h1, h2, h3⟩
  · subst h1
    rw [if_pos rfl]
    simp [RecvDelta.dec, u8At, get8, byte]
    omega
  · subst h1
    rw [if_neg (by omega)]
    have hw : ((q + 65536) % 65536).toNat < 65536 := by omega
    simp [RecvDelta.dec, u16At, get16, get8, be16, byte, int16]
    split <;> omega

theorem quant_of_WF (d : RecvDelta) (h : d.WF) : d.quant = d := by
  obtain ⟨ty, dl⟩ := d
  have := h.2
  simp only [RecvDelta.quant] at this ⊢
  rw [← this]

/-! ### chunk and delta lists -/

def twccChunksBytes (cs : List TwccChunk) : Bytes := cs.flatMap fun c => be16 (chunkWord c)
def twccDeltasBytes (ds : List RecvDelta) : Bytes := ds.flatMap deltaBytes

@[simp] theorem twccChunksBytes_length (cs : List TwccChunk) : (twccChunksBytes cs).length = 2 * cs.length := by
  induction cs with
  | nil => rfl
  | cons c cs ih => simp [twccChunksBytes] at ih ⊢; omega

theorem twccDeltasBytes_length (ds : List RecvDelta) (h : ∀ d ∈ ds, d.Fits) :
    (twccDeltasBytes ds).length = (ds.map fun d => if d.type = 1 then 1 else 2).sum ∧
    (twccDeltasBytes ds).length = (ds.map deltaSize).sum := by
  induction ds with
  | nil => exact ⟨rfl, rfl⟩
  | cons d ds ih =>
    have hd := deltaBytes_length d (h d (by simp))
    have := ih (fun x hx => h x (by simp [hx]))
    simp only [twccDeltasBytes, List.flatMap_cons, List.length_append, List.map_cons, List.sum_cons] at this ⊢
    omega

theorem encTwccChunks_ok (cs : List TwccChunk) (h : ∀ c ∈ cs, c.WF) : encTwccChunks cs = .ok (twccChunksBytes cs) := by
  induction cs with
  | nil => rfl
  | cons c cs ih =>
    simp only [encTwccChunks, TwccChunk.enc_ok c (h c (by simp)), bind_ok, ih (fun x hx => h x (by simp [hx]))]
    simp [twccChunksBytes]

/-! ### the encoder's buffer writes -/

theorem copyInto_zeros (pre data : Bytes) (m off : Nat) (hoff : off = pre.length) (h : data.length ≤ m) :
    copyInto (pre ++ zeros m) off data = .ok (pre ++ (data ++ zeros (m - data.length))) := by
  subst hoff
  unfold copyInto
  rw [if_pos (by simp)]
  simp only [List.length_append, zeros_length, Nat.add_sub_cancel_left, Nat.min_eq_left h, List.take_left',
    List.take_length, List.append_assoc, Out.ok.injEq, List.append_cancel_left_eq]
  rw [List.drop_append]
  simp [zeros, List.drop_replicate]

theorem writeDeltas_zeros (ds : List RecvDelta) (h : ∀ d ∈ ds, d.Fits) (pre : Bytes) (m off : Nat) (hoff : off = pre.length)
    (hm : (twccDeltasBytes ds).length ≤ m) :
    writeDeltas ds (pre ++ zeros m) off = .ok (pre ++ (twccDeltasBytes ds ++ zeros (m - (twccDeltasBytes ds).length))) := by
  subst hoff
  induction ds generalizing pre m with
  | nil => simp [writeDeltas, twccDeltasBytes]
  | cons d ds ih =>
    have hd := h d (by simp)
    have hl := deltaBytes_length d hd
    have hcons : twccDeltasBytes (d :: ds) = deltaBytes d ++ twccDeltasBytes ds := by simp [twccDeltasBytes]
    rw [hcons, List.length_append] at hm
    rw [writeDeltas, RecvDelta.enc_ok d hd, bind_ok, copyInto_zeros pre _ m _ rfl (by omega), bind_ok]
    have := ih (fun x hx => h x (by simp [hx])) (pre ++ deltaBytes d) (m - (deltaBytes d).length) (by omega)
    rw [List.length_append] at this
    rw [← hl.2.1, ← List.append_assoc, this, hcons]
    simp only [List.append_assoc, List.length_append, Nat.sub_sub]

/-! ### sizes -/

theorem deltaSize_sum (ds : List RecvDelta) : (ds.map deltaSize).sum = (ds.map fun d => if d.type = 1 then 1 else 2).sum := rfl

theorem Twcc.packetLen_eq (p : Twcc) (h : p.trueLen ≤ 65532) : p.packetLen = p.trueLen := by
  unfold Twcc.packetLen Twcc.trueLen at *
  rw [deltaSize_sum] at *
  simp only [headerLength, packetChunkOffset]
  omega

theorem Twcc.marshalSize_eq (p : Twcc) (h : p.trueLen ≤ 65532) : p.marshalSize = p.trueLen + Spec.pad4 p.trueLen := by
  unfold Twcc.marshalSize
  rw [Twcc.packetLen_eq p h]
  simp only [Spec.pad4]
  split <;> omega

/-- RFC 3550 padding octets after `n` octets of content -/
def twccPad (n : Nat) : Bytes := if Spec.pad4 n = 0 then [] else zeros (Spec.pad4 n - 1) ++ [byte (Spec.pad4 n)]

theorem twccPad_length (n : Nat) : (twccPad n).length = Spec.pad4 n := by
  unfold twccPad; split <;> simp <;> omega

/-- what Marshal emits for a well-formed value -/
def Twcc.wire (p : Twcc) : Bytes :=
  p.header.bytes ++ (be32 p.sender ++ (be32 p.media ++ (be16 p.baseSeq ++ (be16 p.statusCount ++
    (be32 (p.refTime * 256 + p.fbCount) ++ (twccChunksBytes p.chunks ++ (twccDeltasBytes p.deltas ++ twccPad p.trueLen)))))))

theorem Twcc.enc_ok (p : Twcc) (h : p.WFq) : p.enc = .ok p.wire := by
  obtain ⟨⟨c1, c2, c3, c4, c5⟩, w1, w2, w3, w4, w5, w6, hch, hcov, hty, hfit⟩ := h
  have hpl := Twcc.packetLen_eq p c5
  have hms := Twcc.marshalSize_eq p c5
  have hdl := (twccDeltasBytes_length p.deltas hfit).1
  have htl : p.trueLen = 20 + 2 * p.chunks.length + (twccDeltasBytes p.deltas).length := by rw [hdl]; rfl
  unfold Twcc.enc
  rw [Header.enc_ok _ (by omega), bind_ok]
  dsimp only
  rw [hms, hpl, appendNBits_24_8 _ _ w6, Nat.mod_eq_of_lt w5]
  have hp4 : Spec.pad4 p.trueLen < 4 ∧ (p.trueLen + Spec.pad4 p.trueLen) % 4 = 0 := by simp only [Spec.pad4]; omega
  have hpadb : twccPad p.trueLen = if Spec.pad4 p.trueLen = 0 then [] else zeros (Spec.pad4 p.trueLen - 1) ++ [byte (Spec.pad4 p.trueLen)] := rfl
  have hc4 : p.header.padding = true ↔ Spec.pad4 p.trueLen ≠ 0 := by rw [c4, hms, hpl]; omega
  generalize Spec.pad4 p.trueLen = pad at hp4 hpadb hc4 ⊢
  generalize htw : twccPad p.trueLen = padb at hpadb
  have hwire : p.wire = p.header.bytes ++ (be32 p.sender ++ (be32 p.media ++ (be16 p.baseSeq ++ (be16 p.statusCount ++
    (be32 (p.refTime * 256 + p.fbCount) ++ (twccChunksBytes p.chunks ++ (twccDeltasBytes p.deltas ++ padb))))))) := by
    rw [← htw]; rfl
  rw [hwire]
  generalize hT : p.trueLen = T at htl c5 hp4 ⊢
  rw [if_neg (by simp only [headerLength]; omega), if_neg (by simp only [headerLength]; omega)]
  rw [encTwccChunks_ok _ hch, bind_ok]
  rw [if_neg (by simp only [headerLength]; omega)]
  rw [copyInto_zeros _ _ _ 16 (by simp) (by simp only [twccChunksBytes_length, headerLength]; omega), bind_ok]
  rw [← List.append_assoc]
  rw [writeDeltas_zeros _ hfit _ _ _ (by simp; omega) (by simp only [twccChunksBytes_length, headerLength]; omega), bind_ok]
  have hz : T + pad - headerLength - 16 - (twccChunksBytes p.chunks).length - (twccDeltasBytes p.deltas).length = pad := by
    simp only [twccChunksBytes_length, headerLength]; omega
  rw [hz]
  cases hpb : p.header.padding with
  | false =>
    have hp0 : pad = 0 := by
      false_or_by_contra
      rename_i hne
      have := hc4.mpr hne
      rw [hpb] at this; cases this
    subst hp0
    rw [if_neg (by simp)]
    simp only [pure_eq, bind_ok, if_true] at hpadb ⊢
    rw [hpadb]
    simp [zeros]
  | true =>
    have hp0 : pad ≠ 0 := hc4.mp hpb
    rw [if_pos rfl, if_neg (by simp only [headerLength]; omega)]
    simp only [pure_eq, bind_ok]
    rw [if_neg hp0] at hpadb
    rw [hpadb]
    have htake : (be32 p.sender ++ be32 p.media ++ be16 p.baseSeq ++ be16 p.statusCount ++ be32 (p.refTime * 256 + p.fbCount) ++
        twccChunksBytes p.chunks ++ (twccDeltasBytes p.deltas ++ zeros pad)).take (T + pad - headerLength - 1)
        = be32 p.sender ++ be32 p.media ++ be16 p.baseSeq ++ be16 p.statusCount ++ be32 (p.refTime * 256 + p.fbCount) ++
        twccChunksBytes p.chunks ++ (twccDeltasBytes p.deltas ++ zeros (pad - 1)) := by
      rw [← List.append_assoc, ← List.append_assoc, List.take_append]
      have hl : (be32 p.sender ++ be32 p.media ++ be16 p.baseSeq ++ be16 p.statusCount ++ be32 (p.refTime * 256 + p.fbCount) ++
        twccChunksBytes p.chunks ++ twccDeltasBytes p.deltas).length = T + pad - headerLength - 1 - (pad - 1) := by
        simp only [List.length_append, be32_length, be16_length, twccChunksBytes_length, headerLength]; omega
      rw [List.take_of_length_le (by omega), hl]
      have : T + pad - headerLength - 1 - (T + pad - headerLength - 1 - (pad - 1)) = pad - 1 := by
        simp only [headerLength]; omega
      rw [this]
      simp [zeros, List.take_replicate]
    rw [htake]
    have hb : (T + pad + 65536 - T) % 256 = pad := by omega
    rw [hb]
    simp


/-! ### framing -/

theorem Twcc.wire_length (p : Twcc) (h : p.WFq) : p.wire.length = p.marshalSize := by
  obtain ⟨⟨c1, c2, c3, c4, c5⟩, w1, w2, w3, w4, w5, w6, hch, hcov, hty, hfit⟩ := h
  have hdl := (twccDeltasBytes_length p.deltas hfit).1
  have htl : p.trueLen = 20 + 2 * p.chunks.length + (twccDeltasBytes p.deltas).length := by rw [hdl]; rfl
  rw [Twcc.marshalSize_eq p c5]
  simp only [Twcc.wire, List.length_append, Header.bytes_length, be32_length, be16_length, twccChunksBytes_length, twccPad_length]
  omega

theorem Twcc.size_facts (p : Twcc) (h : p.WFq) :
    p.marshalSize % 4 = 0 ∧ 20 ≤ p.marshalSize ∧ p.marshalSize ≤ 65532 ∧ p.trueLen ≤ p.marshalSize ∧ 20 ≤ p.trueLen := by
  have c5 := h.1.2.2.2.2
  rw [Twcc.marshalSize_eq p c5]
  have : 20 ≤ p.trueLen := by unfold Twcc.trueLen; omega
  simp only [Spec.pad4]; omega

theorem Twcc.framed (p : Twcc) (h : p.WFq) : Framed p.wire p.header := by
  have hs := Twcc.size_facts p h
  have hl := Twcc.wire_length p h
  obtain ⟨⟨c1, c2, c3, c4, c5⟩, _⟩ := h
  exact ⟨⟨_, rfl⟩, by omega, by omega, by omega, by rw [hl, c3]; omega⟩

theorem chunksCover_cons {rem : Nat} {c : TwccChunk} {cs : List TwccChunk} (h : chunksCover rem (c :: cs) = true) :
    0 < rem ∧ (c.span ≤ rem ∨ ∃ t ss syms, c = .sv t ss syms) ∧ chunksCover (rem - min rem c.span) cs = true := by
  simp only [chunksCover, Bool.and_eq_true, decide_eq_true_eq] at h
  obtain ⟨h0, h⟩ := h
  refine ⟨h0, ?_⟩
  by_cases hs : c.span ≤ rem
  · rw [if_pos hs] at h
    exact ⟨.inl hs, by rw [Nat.min_eq_right hs]; exact h⟩
  · rw [if_neg hs] at h
    simp only [Bool.and_eq_true, List.isEmpty_iff] at h
    obtain ⟨he, hm⟩ := h
    subst he
    have : min rem c.span = rem := Nat.min_eq_left (by omega)
    rw [this, Nat.sub_self]
    refine ⟨.inr ?_, by simp [chunksCover]⟩
    cases c with
    | rl t s r => simp at hm
    | sv t ss syms => exact ⟨_, _, _, rfl⟩

theorem chunkDeltas_enc (count processed : Nat) (c : TwccChunk) (hc : count ≤ 65535) (hp : processed ≤ count) (hwf : c.WF)
    (hsp : c.span ≤ count - processed ∨ ∃ t ss syms, c = .sv t ss syms) :
    (chunkDeltas count processed c).1.map (·.type) = c.deltaTypes ∧
    (chunkDeltas count processed c).2 = processed + min (count - processed) c.span := by
  have h1 : (count + 65536 - processed) % 65536 = count - processed := by omega
  cases c with
  | rl t sym run =>
    have hr : run ≤ count - processed := by
      rcases hsp with h | ⟨_, _, _, h⟩
      · exact h
      · cases h
    simp only [chunkDeltas, localMin, h1, TwccChunk.deltaTypes, TwccChunk.span]
    have hmin : (if count - processed < run then count - processed else run) = run := by rw [if_neg (by omega)]
    rw [hmin, Nat.min_eq_right hr]
    refine ⟨?_, by omega⟩
    simp only [TypeTCCPacketReceivedSmallDelta, TypeTCCPacketReceivedLargeDelta]
    split <;> simp
  | sv t ss syms =>
    obtain ⟨_, hss⟩ := hwf
    have hl : syms.length ≤ 14 := by rcases hss with ⟨_, h, _⟩ | ⟨_, h, _⟩ <;> omega
    have h2 : syms.length % 65536 = syms.length := by omega
    simp only [chunkDeltas, localMin, h1, h2, TwccChunk.deltaTypes, TwccChunk.span]
    refine ⟨?_, ?_⟩
    · simp only [TypeTCCSymbolSizeOneBit, TypeTCCSymbolSizeTwoBit, TypeTCCPacketReceivedSmallDelta, TypeTCCPacketReceivedLargeDelta]
      rcases hss with ⟨h, _, _⟩ | ⟨h, _, _⟩
      · subst h; simp [List.map_map, Function.comp_def]
      · subst h; simp [List.map_map, Function.comp_def]
    · simp only [Nat.min_def]; split <;> split <;> omega

theorem be16_get8_at (pre rest : Bytes) (w : Nat) (hw : w < 65536) : get8 (pre ++ (be16 w ++ rest)) pre.length = w / 256 := by
  simp only [be16, List.cons_append, List.nil_append]
  rw [get8_at _ _ _ _ rfl]
  simp; omega

/-- the status chunk loop reads back exactly the chunks that were written at `|pre|` -/
theorem chunkLoop_enc (cs : List TwccChunk) (hwf : ∀ c ∈ cs, c.WF) (count : Nat) (hc : count ≤ 65535)
    (total : Nat) (ht : total ≤ 65532) (post : Bytes) :
    ∀ (gas processed : Nat) (pre : Bytes), processed ≤ count → chunksCover (count - processed) cs = true → cs.length < gas →
      pre.length + 2 * cs.length ≤ total →
      ∃ ds, twccChunkLoop gas (pre ++ (twccChunksBytes cs ++ post)) total count pre.length processed
          = (cs, ds, pre.length + 2 * cs.length, .ok) ∧ ds.map (·.type) = cs.flatMap TwccChunk.deltaTypes := by
  induction cs with
  | nil =>
    intro gas processed pre hp hcov hg htot
    simp [chunksCover] at hcov
    cases gas with
    | zero => simp at hg
    | succ g =>
      rw [twccChunkLoop, if_neg (by omega)]
      exact ⟨[], by simp, rfl⟩
  | cons c cs ih =>
    intro gas processed pre hp hcov hg htot
    obtain ⟨hrem, hsp, hcov'⟩ := chunksCover_cons hcov
    have hcw := hwf c (by simp)
    have hw := chunkWord_lt c hcw
    have hcd := chunkDeltas_enc count processed c hc hp hcw hsp
    cases gas with
    | zero => simp at hg
    | succ g =>
      simp only [List.length_cons] at hg htot
      have hb : pre ++ (twccChunksBytes (c :: cs) ++ post) = pre ++ (be16 (chunkWord c) ++ (twccChunksBytes cs ++ post)) := by
        simp [twccChunksBytes]
      have hmod : (pre.length + packetStatusChunkLength) % 65536 = pre.length + 2 := by simp only [packetStatusChunkLength]; omega
      rw [twccChunkLoop, if_pos (by omega), hmod, if_neg (by omega), hb]
      rw [u8At_of_lt (by simp; omega), slice_of_le (by omega) (by simp)]
      dsimp only
      have htd := take_drop_mid pre (be16 (chunkWord c)) (twccChunksBytes cs ++ post)
      simp only [be16_length] at htd
      rw [htd, be16_get8_at _ _ _ hw.1, TwccChunk.dec_word c hcw]
      dsimp only
      have hih := ih (fun x hx => hwf x (by simp [hx])) g (chunkDeltas count processed c).2 (pre ++ be16 (chunkWord c))
        (by rw [hcd.2]; have := Nat.min_le_left (count - processed) c.span; omega)
        (by rw [hcd.2]
            have : count - (processed + min (count - processed) c.span) = count - processed - min (count - processed) c.span := by omega
            rw [this]; exact hcov')
        (by omega) (by simp; omega)
      obtain ⟨ds2, hloop, hty2⟩ := hih
      have hpos : pre.length + 2 = (pre ++ be16 (chunkWord c)).length := by simp
      rw [← List.append_assoc, hpos, hloop]
      refine ⟨(chunkDeltas count processed c).1 ++ ds2, ?_, ?_⟩
      · simp; omega
      · rw [List.map_append, hcd.1, hty2]; simp


theorem quant_type (d : RecvDelta) : d.quant.type = d.type := rfl

/-- the delta loop reads back the (quantised) deltas that were written at `|pre|` -/
theorem deltaLoop_enc (ds : List RecvDelta) (hfit : ∀ d ∈ ds, d.Fits) (total : Nat) (ht : total ≤ 65532) (post : Bytes) :
    ∀ (ds0 : List RecvDelta) (pre : Bytes), ds0.map (·.type) = ds.map (·.type) →
      pre.length + (twccDeltasBytes ds).length ≤ total →
      twccDeltaLoop ds0 (pre ++ (twccDeltasBytes ds ++ post)) total pre.length = (ds.map RecvDelta.quant, .ok) := by
  induction ds with
  | nil =>
    intro ds0 pre h0 _
    have : ds0 = [] := by simpa using h0
    subst this
    simp [twccDeltaLoop]
  | cons d ds ih =>
    intro ds0 pre h0 htot
    cases ds0 with
    | nil => simp at h0
    | cons d0 ds0 =>
      simp only [List.map_cons, List.cons.injEq] at h0
      obtain ⟨ht0, h0⟩ := h0
      have hd := hfit d (by simp)
      have hl := (deltaBytes_length d hd).2.2
      have hcons : twccDeltasBytes (d :: ds) = deltaBytes d ++ twccDeltasBytes ds := by simp [twccDeltasBytes]
      rw [hcons, List.length_append] at htot
      rw [hcons, List.append_assoc]
      have htd := take_drop_mid pre (deltaBytes d) (twccDeltasBytes ds ++ post)
      have hih := ih (fun x hx => hfit x (by simp [hx])) ds0 (pre ++ deltaBytes d) h0 (by simp; omega)
      rw [List.append_assoc, List.length_append] at hih
      have hty : d.type = 1 ∨ d.type = 2 := by rcases hd with ⟨h, _⟩ | ⟨h, _⟩ <;> simp [h]
      rcases hty with h1 | h2
      · rw [if_pos h1] at hl
        rw [hl] at htd hih htot
        have hmod : (pre.length + 1) % 65536 = pre.length + 1 := by omega
        rw [twccDeltaLoop, if_pos (by rw [ht0]; exact h1), hmod, if_neg (by omega),
          slice_of_le (by omega) (by simp; omega), bind_ok, htd, RecvDelta.dec_bytes d hd]
        dsimp only
        rw [hih]
        simp
      · rw [if_neg (by omega)] at hl
        rw [hl] at htd hih htot
        have hmod : (pre.length + 2) % 65536 = pre.length + 2 := by omega
        rw [twccDeltaLoop, if_neg (by rw [ht0, h2]; decide), if_pos (by rw [ht0]; exact h2), hmod, if_neg (by omega),
          slice_of_le (by omega) (by simp; omega), bind_ok, htd, RecvDelta.dec_bytes d hd]
        dsimp only
        rw [hih]
        simp


/-! ### the whole decoder on the encoder's output -/

theorem be32_split (t f : Nat) (hf : f < 256) : be32 (t * 256 + f) = be24 t ++ [byte f] := by
  simp only [be32, be24, List.cons_append, List.nil_append, List.cons.injEq, and_true]
  refine ⟨?_, ?_, ?_, ?_⟩ <;> (apply UInt8.toNat_inj.mp; simp <;> omega)

theorem get24_at (pre post : Bytes) (n i : Nat) (hi : i = pre.length) (hn : n < 16777216) :
    get24 (pre ++ (be24 n ++ post)) i = n := by
  subst hi
  have := get24_shift pre (be24 n ++ post) 0
  simp only [Nat.add_zero] at this
  rw [this, get24_be24 n post hn]

/-- the 20 octets before the chunks -/
def Twcc.pre20 (p : Twcc) : Bytes :=
  p.header.bytes ++ (be32 p.sender ++ (be32 p.media ++ (be16 p.baseSeq ++ (be16 p.statusCount ++ (be24 p.refTime ++ [byte p.fbCount])))))

theorem Twcc.pre20_length (p : Twcc) : p.pre20.length = 20 := by simp [Twcc.pre20]

theorem Twcc.wire_eq (p : Twcc) (hf : p.fbCount < 256) :
    p.wire = p.pre20 ++ (twccChunksBytes p.chunks ++ (twccDeltasBytes p.deltas ++ twccPad p.trueLen)) := by
  unfold Twcc.wire Twcc.pre20
  rw [be32_split _ _ hf]
  simp only [List.append_assoc]

theorem Twcc.wire_fields (p : Twcc) (h : p.WFq) :
    get32 p.wire 4 = p.sender ∧ get32 p.wire 8 = p.media ∧ get16 p.wire 12 = p.baseSeq ∧ get16 p.wire 14 = p.statusCount ∧
    get24 p.wire 16 = p.refTime ∧ get8 p.wire 19 = p.fbCount := by
  obtain ⟨_, w1, w2, w3, w4, w5, w6, _⟩ := h
  rw [Twcc.wire_eq p w6]
  generalize twccChunksBytes p.chunks ++ (twccDeltasBytes p.deltas ++ twccPad p.trueLen) = R
  unfold Twcc.pre20
  have e1 := get32_at p.header.bytes (be32 p.media ++ (be16 p.baseSeq ++ (be16 p.statusCount ++ (be24 p.refTime ++ ([byte p.fbCount] ++ R))))) p.sender 4 (by simp) w1
  have e2 := get32_at (p.header.bytes ++ be32 p.sender) (be16 p.baseSeq ++ (be16 p.statusCount ++ (be24 p.refTime ++ ([byte p.fbCount] ++ R)))) p.media 8 (by simp) w2
  have e3 := get16_at (p.header.bytes ++ be32 p.sender ++ be32 p.media) (be16 p.statusCount ++ (be24 p.refTime ++ ([byte p.fbCount] ++ R))) p.baseSeq 12 (by simp) w3
  have e4 := get16_at (p.header.bytes ++ be32 p.sender ++ be32 p.media ++ be16 p.baseSeq) (be24 p.refTime ++ ([byte p.fbCount] ++ R)) p.statusCount 14 (by simp) w4
  have e5 := get24_at (p.header.bytes ++ be32 p.sender ++ be32 p.media ++ be16 p.baseSeq ++ be16 p.statusCount) ([byte p.fbCount] ++ R) p.refTime 16 (by simp) w5
  have e6 := get8_at (p.header.bytes ++ be32 p.sender ++ be32 p.media ++ be16 p.baseSeq ++ be16 p.statusCount ++ be24 p.refTime) R (byte p.fbCount) 19 (by simp)
  simp only [List.append_assoc, List.cons_append, List.nil_append] at e1 e2 e3 e4 e5 e6 ⊢
  rw [byte_toNat, Nat.mod_eq_of_lt w6] at e6
  exact ⟨e1, e2, e3, e4, e5, e6⟩

theorem Twcc.decP_wire (p : Twcc) (h : p.WFq) : Twcc.decP p.wire = (p.quant, .ok) := by
  have hs := Twcc.size_facts p h
  have hl := Twcc.wire_length p h
  have hfr := Twcc.framed p h
  obtain ⟨g1, g2, g3, g4, g5, g6⟩ := Twcc.wire_fields p h
  obtain ⟨⟨c1, c2, c3, c4, c5⟩, w1, w2, w3, w4, w5, w6, hch, hcov, hty, hfit⟩ := h
  have hdl := (twccDeltasBytes_length p.deltas hfit).1
  have htl : p.trueLen = 20 + 2 * p.chunks.length + (twccDeltasBytes p.deltas).length := by rw [hdl]; rfl
  have hhd : Header.dec p.wire = .ok p.header := Header.dec_bytes p.header _ (by omega) (by omega) (by omega)
  have htotal : (4 * ((p.header.length + 1) % 65536)) % 65536 = p.marshalSize := by rw [c3]; omega
  -- the two loops
  obtain ⟨ds0, hloop1, hty0⟩ := chunkLoop_enc p.chunks hch p.statusCount (by omega) p.marshalSize (by omega)
    (twccDeltasBytes p.deltas ++ twccPad p.trueLen) (p.wire.length + 1) 0 p.pre20 (by omega) (by simpa using hcov)
    (by rw [hl]; omega) (by rw [Twcc.pre20_length]; omega)
  have hloop2 := deltaLoop_enc p.deltas hfit p.marshalSize (by omega) (twccPad p.trueLen) ds0 (p.pre20 ++ twccChunksBytes p.chunks)
    (by rw [hty0, hty]) (by simp only [List.length_append, Twcc.pre20_length, twccChunksBytes_length]; omega)
  rw [List.append_assoc, ← Twcc.wire_eq p w6] at hloop2
  rw [← Twcc.wire_eq p w6] at hloop1
  simp only [List.length_append, Twcc.pre20_length, twccChunksBytes_length] at hloop1 hloop2
  unfold Twcc.decP
  rw [if_neg (by rw [hl]; simp only [headerLength, ssrcLength]; omega), hhd]
  dsimp only
  rw [htotal, if_neg (by simp only [headerLength, packetChunkOffset]; omega), if_neg (by omega),
    if_neg (by rw [c1, c2]; decide)]
  rw [u32At_of_le (by rw [hl]; simp only [headerLength]; omega), u32At_of_le (by rw [hl]; simp only [headerLength, ssrcLength]; omega),
    u16At_of_le (by rw [hl]; simp only [headerLength, baseSequenceNumberOffset]; omega),
    u16At_of_le (by rw [hl]; simp only [headerLength, packetStatusCountOffset]; omega),
    u24At_of_le (by rw [hl]; simp only [headerLength, referenceTimeOffset]; omega),
    u8At_of_lt (by rw [hl]; simp only [headerLength, fbPktCountOffset]; omega)]
  dsimp only
  simp only [headerLength, ssrcLength, baseSequenceNumberOffset, packetStatusCountOffset, referenceTimeOffset, fbPktCountOffset,
    packetChunkOffset, Nat.reduceAdd]
  rw [g1, g2, g3, g4, g5, g6, hloop1]
  dsimp only
  rw [hloop2]
  rfl

theorem Twcc.dec_wire (p : Twcc) (h : p.WFq) : Twcc.dec p.wire = .ok p.quant := by
  unfold Twcc.dec
  rw [Twcc.decP_wire p h]
  rfl

theorem render_append (xs ys : List El) : render (xs ++ ys) = render xs ++ render ys := by
  simp [render, List.map_append, List.flatten_append]

theorem render_cons (x : El) (xs : List El) : render (x :: xs) = x.render ++ render xs := by
  simp [render]

theorem render_nil : render [] = [] := rfl

theorem be16_congr {a b : Nat} (h : a = b) : be16 a = be16 b := by rw [h]

theorem twccChunk_render (c : TwccChunk) (h : c.WF) : (twccChunk c).render = be16 (chunkWord c) := by
  cases c with
  | rl t sym run =>
    simp only [twccChunk, El.render, totalBits, groupVal, List.map_cons, List.map_nil, List.sum_cons, List.sum_nil, chunkWord]
    simp only [Nat.reduceAdd, Nat.reduceDiv, Nat.reducePow, Nat.add_zero, Nat.zero_mul, Nat.zero_add, Nat.mul_one, Nat.pow_zero]
    rw [beBytes2]
  | sv t ss syms =>
    obtain ⟨h1, h2⟩ := h
    rcases h2 with ⟨h2, h3, h4⟩ | ⟨h2, h3, h4⟩
    · obtain ⟨a0, a1, a2, a3, a4, a5, a6, a7, a8, a9, a10, a11, a12, a13, rfl⟩ := list_len14 syms h3
      subst h2
      simp only [List.mem_cons, List.not_mem_nil, or_false, forall_eq_or_imp, forall_eq] at h4
      simp only [twccChunk, El.render, totalBits, groupVal, List.map_cons, List.map_nil, List.sum_cons, List.sum_nil, chunkWord,
        symSum, List.cons_append, List.nil_append, if_true]
      simp only [Nat.reduceAdd, Nat.reduceDiv, Nat.reducePow, Nat.add_zero, Nat.zero_mul, Nat.zero_add, Nat.mul_one, Nat.pow_zero,
        Nat.reduceMul, Nat.reduceSub, Nat.one_mul]
      rw [beBytes2]
      exact be16_congr (by omega)
    · obtain ⟨a0, a1, a2, a3, a4, a5, a6, rfl⟩ := list_len7 syms h3
      subst h2
      simp only [List.mem_cons, List.not_mem_nil, or_false, forall_eq_or_imp, forall_eq] at h4
      simp only [twccChunk, El.render, totalBits, groupVal, List.map_cons, List.map_nil, List.sum_cons, List.sum_nil, chunkWord,
        symSum, List.cons_append, List.nil_append, if_false, Nat.succ_ne_zero, Nat.one_ne_zero]
      simp only [Nat.reduceAdd, Nat.reduceDiv, Nat.reducePow, Nat.add_zero, Nat.zero_mul, Nat.zero_add, Nat.mul_one, Nat.pow_zero,
        Nat.reduceMul, Nat.reduceSub, Nat.one_mul]
      rw [beBytes2]
      exact be16_congr (by omega)

theorem twccChunks_render (cs : List TwccChunk) (h : ∀ c ∈ cs, c.WF) : render (cs.map twccChunk) = twccChunksBytes cs := by
  induction cs with
  | nil => rfl
  | cons c cs ih =>
    rw [List.map_cons, render_cons, twccChunk_render c (h c (by simp)), ih (fun x hx => h x (by simp [hx]))]
    simp [twccChunksBytes]

theorem twccDelta_render (d : RecvDelta) (h : d.Fits) : (twccDelta d).render = deltaBytes d := by
  unfold twccDelta deltaBytes
  rcases h with ⟨h1, h2, h3⟩ | ⟨h1, h2, h3⟩
  · rw [if_pos h1, if_pos h1]
    simp only [El.render, totalBits, groupVal, List.map_cons, List.map_nil, List.sum_cons, List.sum_nil]
    simp only [Nat.reduceAdd, Nat.reduceDiv, Nat.add_zero, Nat.pow_zero, Nat.mul_one]
    rw [beBytes1]
  · have hne : ¬ d.type = 1 := by omega
    rw [if_neg hne, if_neg hne]
    simp only [El.render, totalBits, groupVal, List.map_cons, List.map_nil, List.sum_cons, List.sum_nil]
    simp only [Nat.reduceAdd, Nat.reduceDiv, Nat.add_zero, Nat.pow_zero, Nat.mul_one]
    rw [beBytes2]
    apply be16_congr
    split <;> omega

theorem twccDeltas_render (ds : List RecvDelta) (h : ∀ d ∈ ds, d.Fits) : render (ds.map twccDelta) = twccDeltasBytes ds := by
  induction ds with
  | nil => rfl
  | cons d ds ih =>
    rw [List.map_cons, render_cons, twccDelta_render d (h d (by simp)), ih (fun x hx => h x (by simp [hx]))]
    simp [twccDeltasBytes]

theorem rtpPadding_render (n : Nat) : render (rtpPadding n) = twccPad n := by
  unfold rtpPadding twccPad
  split
  · rfl
  · simp only [render_cons, render_nil, El.render, totalBits, groupVal, List.map_cons, List.map_nil, List.sum_cons, List.sum_nil, zeros]
    simp only [Nat.reduceAdd, Nat.reduceDiv, Nat.add_zero, Nat.pow_zero, Nat.mul_one, List.append_nil]
    rw [beBytes1]

theorem twccFixed_render (p : Twcc) (h : p.WFq) :
    El.render (.bits [(32, p.sender), (32, p.media), (16, p.baseSeq), (16, p.statusCount), (24, p.refTime), (8, p.fbCount)])
      = be32 p.sender ++ (be32 p.media ++ (be16 p.baseSeq ++ (be16 p.statusCount ++ be32 (p.refTime * 256 + p.fbCount)))) := by
  obtain ⟨_, w1, w2, w3, w4, w5, w6, _⟩ := h
  rw [bits_aligned _ (by
    intro f hf
    simp only [List.mem_cons, List.not_mem_nil, or_false] at hf
    rcases hf with h | h | h | h | h | h <;> subst h <;> simp <;> omega)]
  simp only [renderAligned, List.flatMap_cons, List.flatMap_nil, Nat.reduceDiv, beBytes4, beBytes3, beBytes2, beBytes1,
    List.append_nil]
  rw [be32_split _ _ w6]

theorem twcc_render (p : Twcc) (h : p.WFq) : render (twcc p) = p.wire := by
  have hfix := twccFixed_render p h
  obtain ⟨⟨c1, c2, c3, c4, c5⟩, w1, w2, w3, w4, w5, w6, hch, hcov, hty, hfit⟩ := h
  have hs := Twcc.size_facts p ⟨⟨c1, c2, c3, c4, c5⟩, w1, w2, w3, w4, w5, w6, hch, hcov, hty, hfit⟩
  unfold twcc Twcc.wire
  rw [render_append, render_append, render_append, render_cons, render_cons, render_nil, twccChunks_render _ hch, twccDeltas_render _ hfit,
    rtpPadding_render, hfix, header_render _ _ _ _ (by omega) (by omega) (by omega)]
  simp only [List.append_assoc, List.append_nil]

/-! ### quantisation is idempotent and invisible to Marshal -/

theorem quant_ticks (d : RecvDelta) : d.quant.ticks = d.ticks := by
  simp only [RecvDelta.quant, RecvDelta.ticks]
  rw [Int.mul_comm]; exact Int.mul_tdiv_cancel _ (by decide)

theorem quantDelta_WF (d : RecvDelta) (h : d.Fits) : d.quant.WF := by
  refine ⟨?_, ?_⟩
  · unfold RecvDelta.Fits
    rw [quant_ticks, quant_type]; exact h
  · rw [quant_ticks]; rfl

theorem quant_deltaBytes (d : RecvDelta) : deltaBytes d.quant = deltaBytes d := by
  unfold deltaBytes
  rw [quant_ticks, quant_type]

theorem quant_deltasBytes (ds : List RecvDelta) : twccDeltasBytes (ds.map RecvDelta.quant) = twccDeltasBytes ds := by
  induction ds with
  | nil => rfl
  | cons d ds ih =>
    simp only [twccDeltasBytes, List.map_cons, List.flatMap_cons] at ih ⊢
    rw [quant_deltaBytes, ih]

theorem quant_types (ds : List RecvDelta) : (ds.map RecvDelta.quant).map (·.type) = ds.map (·.type) := by
  rw [List.map_map]; rfl

theorem Twcc.quant_sizes (p : Twcc) :
    p.quant.trueLen = p.trueLen ∧ p.quant.packetLen = p.packetLen ∧ p.quant.marshalSize = p.marshalSize := by
  have h1 : (p.quant.deltas.map fun d => if d.type = 1 then 1 else 2) = (p.deltas.map fun d => if d.type = 1 then 1 else 2) := by
    simp only [Twcc.quant, List.map_map]; rfl
  have h2 : p.quant.deltas.map deltaSize = p.deltas.map deltaSize := by
    simp only [Twcc.quant, List.map_map]; rfl
  have h3 : p.quant.packetLen = p.packetLen := by
    unfold Twcc.packetLen; rw [h2]; rfl
  refine ⟨?_, h3, ?_⟩
  · unfold Twcc.trueLen; rw [h1]; rfl
  · unfold Twcc.marshalSize; rw [h3]

theorem Twcc.quant_WF (p : Twcc) (h : p.WFq) : p.quant.WF := by
  obtain ⟨hs1, hs2, hs3⟩ := Twcc.quant_sizes p
  obtain ⟨⟨c1, c2, c3, c4, c5⟩, w1, w2, w3, w4, w5, w6, hch, hcov, hty, hfit⟩ := h
  have hfq : ∀ d ∈ p.quant.deltas, d.WF := by
    intro d hd
    simp only [Twcc.quant, List.mem_map] at hd
    obtain ⟨d0, hd0, rfl⟩ := hd
    exact quantDelta_WF d0 (hfit d0 hd0)
  refine ⟨⟨⟨c1, c2, ?_, ?_, ?_⟩, w1, w2, w3, w4, w5, w6, hch, hcov, ?_, fun d hd => (hfq d hd).1⟩, hfq⟩
  · rw [hs3]; exact c3
  · rw [hs3, hs2]; exact c4
  · rw [hs1]; exact c5
  · show (p.deltas.map RecvDelta.quant).map (·.type) = _
    rw [quant_types]; exact hty

theorem Twcc.quant_wire (p : Twcc) : p.quant.wire = p.wire := by
  unfold Twcc.wire
  rw [(Twcc.quant_sizes p).1]
  show _ ++ (_ ++ (_ ++ (_ ++ (_ ++ (_ ++ (_ ++ (twccDeltasBytes (p.deltas.map RecvDelta.quant) ++ _))))))) = _
  rw [quant_deltasBytes]
  rfl

end Rtcp
