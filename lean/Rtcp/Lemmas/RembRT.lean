/-
  REMB helper lemmas: the octets Marshal emits (`rembBytes`), the rendering of the draft layout, reading them back,
  and uniqueness of the normalised mantissa/exponent pair (C02, C03, C04, C05 for REMB; Proofs/Remb.lean).
-/
import Rtcp.Spec.Remb
import Rtcp.Lemmas.SpecBits
import Rtcp.Lemmas.Frame
import Rtcp.Proofs.C14
namespace Rtcp
open Gen Out
set_option linter.unusedSimpArgs false
set_option linter.unusedVariables false

/-! ### the normalised pair is unique, and it is the closed form of the spec -/

theorem Spec.rembMax_eq : Spec.rembMax = rembBitrateMax := by decide

theorem Spec.rembValue_eq (bits : Nat) : Spec.rembValue bits = C14.clampFloor bits := by
  unfold Spec.rembValue C14.clampFloor; rw [Spec.rembMax_eq]

theorem Spec.rembValue_le (bits : Nat) : Spec.rembValue bits ≤ Spec.rembMax := by
  unfold Spec.rembValue; split
  · exact Nat.le_refl _
  · exact Nat.min_le_right _ _

/-- `m·2^e ≤ v < (m+1)·2^e` with an 18-bit mantissa in normal form (`e = 0` or bit 17 set) determines the pair:
it is the closed form `rembExp`, `rembMant` -/
theorem Spec.rembPair_unique (v m e : Nat) (hv : v ≤ Spec.rembMax) (hm : m < 262144) (hnorm : e = 0 ∨ 131072 ≤ m)
    (hlo : m * 2 ^ e ≤ v) (hhi : v < (m + 1) * 2 ^ e) : e = Spec.rembExp v ∧ m = Spec.rembMant v := by
  have hpos : 0 < 2 ^ e := Nat.pow_pos (by decide)
  have hmin : min v Spec.rembMax = v := Nat.min_eq_left hv
  have hE : e = Spec.rembExp v := by
    unfold Spec.rembExp
    simp only [hmin]
    by_cases h0 : e = 0
    · subst h0
      simp only [Nat.pow_zero, Nat.mul_one] at hlo hhi
      rw [if_pos (by omega)]
    · have hm17 : 131072 ≤ m := by rcases hnorm with h | h; exact absurd h h0; exact h
      have he1 : 1 ≤ e := by omega
      have h2 : 2 ≤ 2 ^ e := by
        have : 2 ^ 1 ≤ 2 ^ e := Nat.pow_le_pow_right (by decide) he1
        simpa using this
      have hvbig : 262144 ≤ v := by
        have : 131072 * 2 ≤ m * 2 ^ e := Nat.mul_le_mul hm17 h2
        omega
      rw [if_neg (by omega)]
      have hvne : v ≠ 0 := by omega
      have hge : 2 ^ (17 + e) ≤ v := by
        rw [Nat.pow_add]
        have h17 : (2 : Nat) ^ 17 = 131072 := by decide
        rw [h17]
        exact Nat.le_trans (Nat.mul_le_mul_right _ hm17) hlo
      have hlt : v < 2 ^ (18 + e) := by
        rw [Nat.pow_add]
        have h18 : (2 : Nat) ^ 18 = 262144 := by decide
        rw [h18]
        exact Nat.lt_of_lt_of_le hhi (Nat.mul_le_mul_right _ (by omega))
      have a := (Nat.le_log2 hvne).mpr hge
      have b := (Nat.log2_lt hvne).mpr hlt
      omega
  refine ⟨hE, ?_⟩
  unfold Spec.rembMant
  rw [hmin, ← hE]
  exact (Nat.div_eq_of_lt_le hlo hhi).symm

/-- the closed form meets the draft's requirements on its own (no reference to the encoder): 18-bit mantissa,
exponent at most 63 and minimal (`e = 0` or the mantissa's top bit is set), value rounded down -/
theorem Spec.rembPair_spec (v : Nat) (hv : v ≤ Spec.rembMax) :
    Spec.rembMant v < 262144 ∧ Spec.rembExp v ≤ 63 ∧ (Spec.rembExp v = 0 ∨ 131072 ≤ Spec.rembMant v) ∧
      Spec.rembMant v * 2 ^ Spec.rembExp v ≤ v ∧ v < (Spec.rembMant v + 1) * 2 ^ Spec.rembExp v := by
  have hmin : min v Spec.rembMax = v := Nat.min_eq_left hv
  have hpos : 0 < 2 ^ Spec.rembExp v := Nat.pow_pos (by decide)
  have hlo : v / 2 ^ Spec.rembExp v * 2 ^ Spec.rembExp v ≤ v := Nat.div_mul_le_self _ _
  have hhi : v < (v / 2 ^ Spec.rembExp v + 1) * 2 ^ Spec.rembExp v := by
    have := Nat.lt_div_mul_add (a := v) (b := 2 ^ Spec.rembExp v) hpos
    rw [Nat.add_mul, Nat.one_mul]; exact this
  have hM : Spec.rembMant v = v / 2 ^ Spec.rembExp v := by unfold Spec.rembMant; rw [hmin]
  rw [hM]
  by_cases hsmall : v < 262144
  · have hE : Spec.rembExp v = 0 := by unfold Spec.rembExp; simp only [hmin]; rw [if_pos hsmall]
    rw [hE] at hlo hhi ⊢
    simp only [Nat.pow_zero, Nat.div_one, Nat.mul_one] at hlo hhi
    exact ⟨by simpa using hsmall, by omega, Or.inl rfl, by simp, by simp⟩
  · have hvne : v ≠ 0 := by omega
    have hE : Spec.rembExp v = Nat.log2 v - 17 := by unfold Spec.rembExp; simp only [hmin]; rw [if_neg hsmall]
    have h18 : 18 ≤ Nat.log2 v := (Nat.le_log2 hvne).mpr (by have : (2 : Nat) ^ 18 = 262144 := by decide
                                                             omega)
    have h81 : Nat.log2 v < 81 := (Nat.log2_lt hvne).mpr (by
      have : Spec.rembMax < 2 ^ 81 := by decide
      omega)
    have hL : Nat.log2 v = 17 + Spec.rembExp v := by omega
    have hge : 2 ^ Nat.log2 v ≤ v := Nat.log2_self_le hvne
    have hlt : v < 2 ^ (Nat.log2 v + 1) := Nat.lt_log2_self
    have hL1 : Nat.log2 v + 1 = 18 + Spec.rembExp v := by omega
    rw [hL, Nat.pow_add] at hge
    rw [hL1, Nat.pow_add] at hlt
    have p17 : (2 : Nat) ^ 17 = 131072 := by decide
    have p18 : (2 : Nat) ^ 18 = 262144 := by decide
    rw [p17] at hge
    rw [p18] at hlt
    refine ⟨(Nat.div_lt_iff_lt_mul hpos).mpr hlt, by omega, Or.inr ((Nat.le_div_iff_mul_le hpos).mpr hge), hlo, hhi⟩


/-- the encoder's pair is the one the draft prescribes -/
theorem rembEncBitrate_spec (bits : Nat) (hpos : f32Sign bits = 0) :
    rembEncBitrate bits = .ok (Spec.rembMant (Spec.rembValue bits), Spec.rembExp (Spec.rembValue bits)) ∧
    Spec.rembMant (Spec.rembValue bits) < 262144 ∧ Spec.rembExp (Spec.rembValue bits) ≤ 63 ∧
    (Spec.rembExp (Spec.rembValue bits) = 0 ∨ 131072 ≤ Spec.rembMant (Spec.rembValue bits)) ∧
    Spec.rembMant (Spec.rembValue bits) * 2 ^ Spec.rembExp (Spec.rembValue bits) ≤ Spec.rembValue bits ∧
    Spec.rembValue bits < (Spec.rembMant (Spec.rembValue bits) + 1) * 2 ^ Spec.rembExp (Spec.rembValue bits) := by
  obtain ⟨m, e, h1, h2, h3, h4, h5, h6⟩ := C14.enc_floor bits hpos
  rw [← Spec.rembValue_eq] at h5 h6
  obtain ⟨he, hm⟩ := Spec.rembPair_unique _ m e (Spec.rembValue_le bits) h2 h4 h5 h6
  rw [← he, ← hm]
  exact ⟨h1, h2, h3, h4, h5, h6⟩

/-! ### the octets of a REMB message -/

/-- the octets of a REMB message with exponent `e` and mantissa `m` -/
def rembBytes (sender e m : Nat) (ssrcs : List Nat) : Bytes :=
  (Header.mk false 15 206 (4 + ssrcs.length)).bytes ++ (be32 sender ++ (be32 0 ++ ([82, 69, 77, 66] ++
    ([byte ssrcs.length, byte (e * 4 + m / 65536), byte (m / 256), byte m] ++ encSSRCList ssrcs))))

@[simp] theorem encSSRCList_length (l : List Nat) : (encSSRCList l).length = 4 * l.length := by
  induction l with
  | nil => rfl
  | cons s l ih => simp [encSSRCList] at ih ⊢; omega

theorem rembBytes_length (sender e m : Nat) (ssrcs : List Nat) : (rembBytes sender e m ssrcs).length = 20 + 4 * ssrcs.length := by
  simp [rembBytes]; omega

theorem Remb.marshalSize_words (p : Remb) (h : p.ssrcs.length ≤ 255) : (p.marshalSize / 4 - 1) % 65536 = 4 + p.ssrcs.length := by
  unfold Remb.marshalSize; omega

theorem Remb.header_eq (p : Remb) (h : p.ssrcs.length ≤ 255) : p.header = Header.mk false 15 206 (4 + p.ssrcs.length) := by
  unfold Remb.header; rw [Remb.marshalSize_words p h]

/-- Marshal, once the pair chosen for the bitrate is known -/
theorem Remb.enc_ok (p : Remb) (m e : Nat) (hn : p.ssrcs.length ≤ 255) (hb : rembEncBitrate p.bitrate = .ok (m, e))
    (hm : m < 262144) (he : e ≤ 63) : p.enc = .ok (rembBytes p.sender e m p.ssrcs) := by
  unfold Remb.enc
  rw [if_neg (by omega), hb, bind_ok]
  dsimp only
  rw [Remb.marshalSize_words p hn]
  have hb2 : byte (e * 4 % 256 + m / 65536 % 256) = byte (e * 4 + m / 65536) := by
    apply UInt8.toNat_inj.mp; simp only [byte_toNat]; omega
  rw [hb2]
  simp [rembBytes, Header.bytes]
  decide


/-! ### rendering of the draft layout -/

theorem Spec.ssrcs_render (l : List Nat) (h : ∀ s ∈ l, s < 4294967296) :
    Spec.render (l.map fun s => Spec.El.bits [(32, s)]) = encSSRCList l := by
  induction l with
  | nil => rfl
  | cons s l ih =>
    have hs := h s (by simp)
    have ih' := ih (fun x hx => h x (by simp [hx]))
    simp only [Spec.render, List.map_cons, List.flatten_cons, encSSRCList] at ih' ⊢
    rw [ih']
    congr 1
    rw [Spec.bits_aligned _ (by intro f hf; simp at hf; subst hf; exact ⟨by simp, by simpa using hs⟩)]
    simp [Spec.renderAligned, Spec.beBytes4]

/-- the 32-bit group Num SSRC (8) | BR Exp (6) | BR Mantissa (18) -/
theorem Spec.rembGroup_render (n e m : Nat) (hn : n < 256) (he : e < 64) (hm : m < 262144) :
    (Spec.El.bits [(8, n), (6, e), (18, m)]).render = [byte n, byte (e * 4 + m / 65536), byte (m / 256), byte m] := by
  have hb : ∀ a b : Nat, a % 256 = b % 256 → byte a = byte b := by
    intro a b h; apply UInt8.toNat_inj.mp; simpa using h
  simp only [Spec.El.render, Spec.totalBits, Spec.groupVal, List.map_cons, List.map_nil, List.sum_cons, List.sum_nil]
  show Spec.beBytes 4 _ = _
  simp only [Spec.beBytes, List.cons.injEq, and_true]
  simp
  refine ⟨hb _ _ (by omega), hb _ _ (by omega), hb _ _ (by omega), hb _ _ (by omega)⟩


/-- **the draft layout renders to these octets**, for any 6-bit exponent and 18-bit mantissa -/
theorem Spec.rembRaw_render (sender e m : Nat) (ssrcs : List Nat) (hs : sender < 4294967296) (he : e < 64) (hm : m < 262144)
    (hn : ssrcs.length ≤ 255) (hl : ∀ s ∈ ssrcs, s < 4294967296) :
    Spec.render (Spec.rembRaw sender e m ssrcs) = rembBytes sender e m ssrcs := by
  have happ : ∀ a b : List Spec.El, Spec.render (a ++ b) = Spec.render a ++ Spec.render b := by intro a b; simp [Spec.render]
  rw [Spec.rembRaw, happ, Spec.ssrcs_render _ hl]
  simp only [Spec.render, List.map_cons, List.map_nil, List.flatten_cons, List.flatten_nil, List.append_nil]
  rw [Spec.header_render false 15 206 _ (by decide) (by decide) (by omega), Spec.rembGroup_render _ e m (by omega) he hm]
  rw [Spec.bits_aligned [(32, sender), (32, 0)] (by
    intro f hf; simp at hf
    rcases hf with h | h <;> subst h
    · exact ⟨by simp, by simpa using hs⟩
    · exact ⟨by simp, by simp⟩)]
  rw [Spec.bits_aligned [(8, 82), (8, 69), (8, 77), (8, 66)] (by
    intro f hf; simp at hf
    rcases hf with h | h | h | h <;> subst h <;> exact ⟨by simp, by simp⟩)]
  simp [Spec.renderAligned, Spec.beBytes4, Spec.beBytes1, rembBytes]
  decide


/-! ### reading the octets back -/

/-- the SSRC loop reads back exactly the SSRCs written at `|pre|` -/
theorem decSSRCList_bytes (l : List Nat) (pre post : Bytes) (gas : Nat) (hg : l.length < gas) (h : ∀ s ∈ l, s < 4294967296) :
    decSSRCList gas (pre ++ (encSSRCList l ++ post)) pre.length (pre.length + 4 * l.length) = .ok l := by
  induction l generalizing pre gas with
  | nil =>
    cases gas with
    | zero => simp at hg
    | succ g => simp [decSSRCList]
  | cons s l ih =>
    cases gas with
    | zero => simp at hg
    | succ g =>
      rw [decSSRCList, if_pos (by simp), u32At_of_le (by simp; omega), bind_ok]
      have hb : pre ++ (encSSRCList (s :: l) ++ post) = pre ++ (be32 s ++ (encSSRCList l ++ post)) := by simp [encSSRCList]
      rw [hb, get32_at pre _ s _ rfl (h s (by simp))]
      have hre : pre ++ (be32 s ++ (encSSRCList l ++ post)) = (pre ++ be32 s) ++ (encSSRCList l ++ post) := by simp
      have ih' := ih (pre ++ be32 s) g (by simp at hg; omega) (fun x hx => h x (by simp [hx]))
      have e1 : pre.length + 4 = (pre ++ be32 s).length := by simp
      have e2 : pre.length + 4 * (s :: l).length = (pre ++ be32 s).length + 4 * l.length := by simp; omega
      rw [hre, e1, e2, ih']
      rfl


/-- the first twenty octets -/
def rembFixed (sender n e m : Nat) : Bytes :=
  [143, 206, byte ((4 + n) / 256), byte (4 + n)] ++ be32 sender ++ be32 0 ++ [82, 69, 77, 66] ++
    [byte n, byte (e * 4 + m / 65536), byte (m / 256), byte m]

theorem rembBytes_split (sender e m : Nat) (ssrcs : List Nat) :
    rembBytes sender e m ssrcs = rembFixed sender ssrcs.length e m ++ (encSSRCList ssrcs ++ []) := by
  simp [rembBytes, rembFixed, Header.bytes, be16]
  decide

theorem rembFixed_length (sender n e m : Nat) : (rembFixed sender n e m).length = 20 := by simp [rembFixed]

theorem rembFixed_fields (sender n e m : Nat) (hs : sender < 4294967296) (hn : n ≤ 255) (he : e < 64) (hm : m < 262144) :
    get8 (rembFixed sender n e m) 0 = 143 ∧ get8 (rembFixed sender n e m) 1 = 206 ∧ get16 (rembFixed sender n e m) 2 = 4 + n ∧
    get32 (rembFixed sender n e m) 4 = sender ∧ get32 (rembFixed sender n e m) 8 = 0 ∧
    ((rembFixed sender n e m).take 16).drop 12 = [82, 69, 77, 66] ∧
    get8 (rembFixed sender n e m) 16 = n ∧ get8 (rembFixed sender n e m) 17 = e * 4 + m / 65536 ∧
    get8 (rembFixed sender n e m) 18 = m / 256 % 256 ∧ get8 (rembFixed sender n e m) 19 = m % 256 := by
  simp [rembFixed, get8, get16, get32, be32, byte]
  omega


theorem RembRT.get16_append_left (a b : Bytes) (i : Nat) (h : i + 1 < a.length) : get16 (a ++ b) i = get16 a i := by
  simp only [get16]; rw [get8_append_left _ _ _ (by omega), get8_append_left _ _ _ (by omega)]
theorem RembRT.get32_append_left (a b : Bytes) (i : Nat) (h : i + 3 < a.length) : get32 (a ++ b) i = get32 a i := by
  simp only [get32]
  rw [get8_append_left _ _ _ (by omega), get8_append_left _ _ _ (by omega), get8_append_left _ _ _ (by omega), get8_append_left _ _ _ (by omega)]

/-- **Unmarshal of the REMB octets**: every field is read from its place; the bitrate is `rembDecBits e m` -/
theorem Remb.dec_bytes (sender e m : Nat) (ssrcs : List Nat) (hs : sender < 4294967296) (he : e < 64) (hm : m < 262144)
    (hn : ssrcs.length ≤ 255) (hl : ∀ s ∈ ssrcs, s < 4294967296) :
    Remb.dec (rembBytes sender e m ssrcs) =
      (rembDecBits e m >>= fun bits => .ok { sender := sender, bitrate := bits, ssrcs := ssrcs }) := by
  obtain ⟨f0, f1, f2, f4, f8, fid, f16, f17, f18, f19⟩ := rembFixed_fields sender ssrcs.length e m hs hn he hm
  have hfl := rembFixed_length sender ssrcs.length e m
  have hlen : (rembBytes sender e m ssrcs).length = 20 + 4 * ssrcs.length := rembBytes_length _ _ _ _
  have hloop := decSSRCList_bytes ssrcs (rembFixed sender ssrcs.length e m) [] ((rembBytes sender e m ssrcs).length + 1) (by omega) hl
  rw [hfl, ← rembBytes_split] at hloop
  have g0 : get8 (rembBytes sender e m ssrcs) 0 = 143 := by rw [rembBytes_split, get8_append_left _ _ _ (by omega), f0]
  have g1 : get8 (rembBytes sender e m ssrcs) 1 = 206 := by rw [rembBytes_split, get8_append_left _ _ _ (by omega), f1]
  have g2 : get16 (rembBytes sender e m ssrcs) 2 = 4 + ssrcs.length := by rw [rembBytes_split, RembRT.get16_append_left _ _ _ (by omega), f2]
  have g4 : get32 (rembBytes sender e m ssrcs) 4 = sender := by rw [rembBytes_split, RembRT.get32_append_left _ _ _ (by omega), f4]
  have g8 : get32 (rembBytes sender e m ssrcs) 8 = 0 := by rw [rembBytes_split, RembRT.get32_append_left _ _ _ (by omega), f8]
  have gid : ((rembBytes sender e m ssrcs).take 16).drop 12 = [82, 69, 77, 66] := by
    rw [rembBytes_split, List.take_append_of_le_length (by omega), fid]
  have g16 : get8 (rembBytes sender e m ssrcs) 16 = ssrcs.length := by rw [rembBytes_split, get8_append_left _ _ _ (by omega), f16]
  have g17 : get8 (rembBytes sender e m ssrcs) 17 = e * 4 + m / 65536 := by rw [rembBytes_split, get8_append_left _ _ _ (by omega), f17]
  have g18 : get8 (rembBytes sender e m ssrcs) 18 = m / 256 % 256 := by rw [rembBytes_split, get8_append_left _ _ _ (by omega), f18]
  have g19 : get8 (rembBytes sender e m ssrcs) 19 = m % 256 := by rw [rembBytes_split, get8_append_left _ _ _ (by omega), f19]
  generalize rembBytes sender e m ssrcs = B at *
  unfold Remb.dec
  rw [if_neg (by omega), u8At_of_lt (by omega), bind_ok, g0, if_neg (by decide), if_neg (by decide), if_neg (by decide),
    u8At_of_lt (by omega), bind_ok, g1, if_neg (by decide), u16At_of_le (by omega), bind_ok, g2]
  dsimp only
  have hsize : (4 + ssrcs.length + 1) * 4 % 65536 = 20 + 4 * ssrcs.length := by omega
  rw [hsize, if_neg (by omega), if_neg (by omega), u32At_of_le (by omega), bind_ok, u32At_of_le (by omega), bind_ok, g8,
    if_neg (by decide), slice_of_le (by omega) (by omega), bind_ok, gid, if_neg (by decide), u8At_of_lt (by omega), bind_ok, g16,
    if_neg (by omega), u8At_of_lt (by omega), bind_ok, u8At_of_lt (by omega), bind_ok, u8At_of_lt (by omega), bind_ok,
    g17, g18, g19, g4]
  have e1 : (e * 4 + m / 65536) / 4 = e := by omega
  have e2 : (e * 4 + m / 65536) % 4 * 65536 + m / 256 % 256 * 256 + m % 256 = m := by omega
  rw [e1, e2, hlen] at *
  rw [hloop]
  cases rembDecBits e m <;> rfl


/-! ### framing -/

theorem rembBytes_framed (sender e m : Nat) (ssrcs : List Nat) (hn : ssrcs.length ≤ 255) :
    Framed (rembBytes sender e m ssrcs) (Header.mk false 15 206 (4 + ssrcs.length)) :=
  ⟨⟨_, rfl⟩, by simp, by simp, by simp; omega, by rw [rembBytes_length]; simp; omega⟩

/-- Marshal of a well-formed REMB value: the octets of the prescribed pair, framed by `Header()` -/
theorem Remb.framed (p : Remb) (h : p.WF) :
    ∃ f, p.enc = .ok f ∧ Framed f p.header ∧ f.length = p.marshalSize ∧
      f = rembBytes p.sender (Spec.rembExp (Spec.rembValue p.bitrate)) (Spec.rembMant (Spec.rembValue p.bitrate)) p.ssrcs := by
  obtain ⟨h1, h2, h3, h4, h5, h6⟩ := h
  obtain ⟨hb, hm, he, _⟩ := rembEncBitrate_spec p.bitrate h5
  refine ⟨_, Remb.enc_ok p _ _ h2 hb hm he, ?_, ?_, rfl⟩
  · rw [Remb.header_eq p h2]; exact rembBytes_framed _ _ _ _ h2
  · rw [rembBytes_length]; rfl

/-- the dispatch `switch` of `unmarshal` sends PT 206 / FMT 15 to the REMB decoder -/
theorem dispatch_remb : dispatch 206 15 = .remb := by decide

/-- a single well-framed packet as a whole datagram -/
theorem RembRT.udec_single (f : Bytes) (h : Header) (hf : Framed f h) (p : Packet)
    (hd : decKind (dispatch h.type h.count) f = .ok p) : udec f = .ok [p] := by
  have hlen : 4 ≤ f.length := by have := hf.size; omega
  unfold udec
  obtain ⟨g, hg⟩ : ∃ g, f.length = g + 1 := ⟨f.length - 1, by omega⟩
  have hcons := unmarshalLoop_cons f [] h hf (g + 1)
  rw [List.append_nil] at hcons
  rw [hg, hcons, hd, bind_ok]
  simp [unmarshalLoop]


/-! ### decode, then encode again -/

/-- what the decoder makes of a pair with a non-zero mantissa: a finite non-negative float32 pattern whose value is
the integer `m·2^e` -/
theorem rembDecBits_facts (e m : Nat) (he : e < 64) (hm : 0 < m) (hm18 : m < 262144) :
    ∃ bits, rembDecBits e m = .ok bits ∧ bits < 4294967296 ∧ f32Floor bits = m * 2 ^ e ∧ f32Sign bits = 0 ∧
      f32IsNaN bits = false ∧ f32IsInf bits = false ∧ Spec.rembValue bits = m * 2 ^ e := by
  obtain ⟨bits, hb, hfl, hnan, hinf, hneg⟩ := C14.dec_exact e m he hm hm18
  obtain ⟨s, bits', hb', _, _, _, hE, hF, hS⟩ := C14.decBits_spec e m he hm hm18
  rw [hb] at hb'
  cases hb'
  have hlt : bits < 4294967296 := by
    -- `rembDecBits` assembles `exp·2^23 mod 2^32 + mant mod 2^23`
    unfold rembDecBits at hb
    obtain ⟨⟨x, y⟩, _, hb⟩ := bind_eq_ok.mp hb
    simp at hb
    have : y % 8388608 < 8388608 := Nat.mod_lt _ (by decide)
    omega
  refine ⟨bits, hb, hlt, hfl, hS, hnan, hinf, ?_⟩
  unfold Spec.rembValue
  rw [hinf, hfl]
  simp only [Bool.false_eq_true, if_false]
  apply Nat.min_eq_left
  unfold Spec.rembMax
  have h1 : 2 ^ e ≤ 2 ^ 63 := Nat.pow_le_pow_right (by decide) (by omega)
  exact Nat.mul_le_mul (by omega) h1

/-- encoding the decoded value of a normalised pair gives the pair back -/
theorem rembEnc_of_dec (e m bits : Nat) (he : e < 64) (hm : 0 < m) (hm18 : m < 262144) (hnorm : e = 0 ∨ 131072 ≤ m)
    (hb : rembDecBits e m = .ok bits) : rembEncBitrate bits = .ok (m, e) := by
  obtain ⟨bits', hb', _, _, hS, _, _, hv⟩ := rembDecBits_facts e m he hm hm18
  rw [hb] at hb'; cases hb'
  obtain ⟨henc, _⟩ := rembEncBitrate_spec bits hS
  have hpos : 0 < 2 ^ e := Nat.pow_pos (by decide)
  obtain ⟨h1, h2⟩ := Spec.rembPair_unique (Spec.rembValue bits) m e (Spec.rembValue_le bits) hm18 hnorm
    (by rw [hv]; exact Nat.le_refl _) (by rw [hv, Nat.add_mul]; omega)
  rw [henc, ← h1, ← h2]


/-- the decoder produces the float32 pattern of `m·2^e` in closed form -/
theorem rembDecBits_closed (e m : Nat) (he : e < 64) (hm : 0 < m) (hm18 : m < 262144) :
    rembDecBits e m = .ok (Spec.rembFloat e m) := by
  obtain ⟨s, bits, hb, hs, hlo, hhi, hE, hF, hS⟩ := C14.decBits_spec e m he hm hm18
  obtain ⟨bits', hb', hlt, _⟩ := rembDecBits_facts e m he hm hm18
  rw [hb] at hb'; cases hb'
  have hmne : m ≠ 0 := by omega
  have hpos : 0 < 2 ^ s := Nat.pow_pos (by decide)
  have hL : Nat.log2 m = 23 - s := by
    have p23 : (2 : Nat) ^ 23 = 2 ^ (23 - s) * 2 ^ s := by rw [← Nat.pow_add]; congr 1; omega
    have p24 : (2 : Nat) ^ 24 = 2 ^ (24 - s) * 2 ^ s := by rw [← Nat.pow_add]; congr 1; omega
    have a : 2 ^ (23 - s) ≤ m := by
      apply Nat.le_of_mul_le_mul_right _ hpos
      rw [← p23]; exact hlo
    have b : m < 2 ^ (24 - s) := by
      apply Nat.lt_of_mul_lt_mul_right (a := 2 ^ s)
      rw [← p24]; exact hhi
    have a' := (Nat.le_log2 hmne).mpr a
    have b' := (Nat.log2_lt hmne).mpr b
    omega
  refine hb.trans (congrArg Out.ok ?_)
  unfold Spec.rembFloat
  rw [hL]
  have hs' : 23 - (23 - s) = s := by omega
  rw [hs']
  unfold f32Exp at hE
  unfold f32Frac at hF
  unfold f32Sign at hS
  omega

end Rtcp
