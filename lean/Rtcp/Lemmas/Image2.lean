/-
  The IMAGE of the remaining decoders (C09, second half): REMB, CCFB, XR, TWCC. See Lemmas/Image.lean for the first ten
  kinds. What a decoder returns from a frame cut by `rtcp.Unmarshal` is (almost) in the domain of the round-trip theorems.

  REMB   every decoded value is `Remb.WF`; its bitrate is the float32 of `m·2^e` (m > 0, possibly NOT normalised) or of
         `2^(e+23)` (m = 0: KF-REMB-MANT0). Re-encoding is the identity on it unless it exceeds 0x3FFFF·2^63, which only
         happens for m = 0, e ≥ 58 (`Remb.reenc`, `Remb.reenc_saturated`).
  CCFB   every decoded block is `CcfbBlock.Decoded`: fields in range, metric blocks well-formed, never exactly one metric
         block; with at most 16384 metric blocks per block (else Marshal rejects) and a re-encoding of at most 262144
         octets the report is `Ccfb.WF` and the C02 round trip applies (`Ccfb.reenc`).
  XR     every block decoded from a 32-bit aligned frame is `C15.BlockWF` — in particular word aligned: the block size
         is the smaller of `4·(BL+1)` and what is left of the aligned frame, so the unaligned blocks of KF-XR-ALIGN cannot
         come out of the decoder (`xrDecBlock_image`, via the image of the reflective reader `readItems_image`). Marshal
         normalises the block headers (`XR.marshalled`); the marshalled report is a fixed point (`XR.reenc`).
  TWCC   fields in range, chunks `TwccChunk.WF`, every chunk needed (`chunksNeeded`), deltas of the announced size classes
         (`C13.announced`: a final run length clipped to the status count, ALL symbols of a status vector) in whole ticks.
         That is not `Twcc.WFq` (whose `chunksCover` forbids a clipped final run length and non-zero unused symbols), so the
         round trip is re-run on the weaker `Twcc.DecodedOK` (`Twcc.enc_ok'`, `chunkLoop_enc'`, `Twcc.decP_wire'`); the
         header is carried verbatim, hence the hypothesis `Twcc.Consistent` (`Twcc.dec_image`, `Twcc.reenc`).
-/
import Rtcp.Lemmas.Image
import Rtcp.Proofs.C09
import Rtcp.Proofs.Remb
import Rtcp.Proofs.Ccfb
import Rtcp.Proofs.XRWire
import Rtcp.Proofs.Twcc
import Rtcp.Proofs.C13
namespace Rtcp
open Gen Out
set_option linter.unusedSimpArgs false
set_option linter.unusedVariables false

/-! ## REMB -/

theorem decSSRCList_image (gas : Nat) (b : Bytes) (n size : Nat) (l : List Nat) (h : decSSRCList gas b n size = .ok l) :
    (∀ s ∈ l, u32 s) ∧ (n < size → n + 4 * l.length < size + 4) ∧ (size ≤ n → l.length = 0) ∧
      (n ≤ size → size ≤ n + 4 * l.length) := by
  induction gas generalizing n l with
  | zero => simp [decSSRCList] at h
  | succ g ih =>
    unfold decSSRCList at h
    split at h
    · obtain ⟨s, hs, h⟩ := bind_eq_ok.mp h
      obtain ⟨rest, hr, h⟩ := bind_eq_ok.mp h
      simp at h; subst h
      obtain ⟨i1, i2, i3, i4⟩ := ih _ _ hr
      refine ⟨?_, by intro _; simp only [List.length_cons]; omega, by intro _; omega,
        by intro _; simp only [List.length_cons]; omega⟩
      intro x hx
      rcases List.mem_cons.mp hx with hx | hx
      · rw [hx]; exact u32At_lt hs
      · exact i1 x hx
    · simp at h; subst h
      exact ⟨by simp, by intro _; omega, by intro _; rfl, by intro _; simp; omega⟩

/-- **image of the REMB decoder**: 32-bit sender and SSRCs, at most 255 SSRCs, and a bitrate assembled by `rembDecBits`
from a 6-bit exponent and an 18-bit mantissa -/
theorem Remb.dec_image {f : Bytes} {v : Remb} (h : Remb.dec f = .ok v) :
    u32 v.sender ∧ v.ssrcs.length ≤ 255 ∧ (∀ s ∈ v.ssrcs, u32 s) ∧
      ∃ e m, e < 64 ∧ m < 262144 ∧ rembDecBits e m = .ok v.bitrate := by
  unfold Remb.dec at h
  split at h
  · cases h
  · obtain ⟨_, _, h⟩ := bind_eq_ok.mp h
    split at h
    · cases h
    · split at h
      · cases h
      · split at h
        · cases h
        · obtain ⟨_, _, h⟩ := bind_eq_ok.mp h
          split at h
          · cases h
          · obtain ⟨len, hlen, h⟩ := bind_eq_ok.mp h
            dsimp only at h
            split at h
            · cases h
            · split at h
              · cases h
              · obtain ⟨sender, hsender, h⟩ := bind_eq_ok.mp h
                obtain ⟨_, _, h⟩ := bind_eq_ok.mp h
                split at h
                · cases h
                · obtain ⟨_, _, h⟩ := bind_eq_ok.mp h
                  split at h
                  · cases h
                  · obtain ⟨num, hnum, h⟩ := bind_eq_ok.mp h
                    split at h
                    · cases h
                    · rename_i hsz
                      obtain ⟨b17, h17, h⟩ := bind_eq_ok.mp h
                      obtain ⟨b18, h18, h⟩ := bind_eq_ok.mp h
                      obtain ⟨b19, h19, h⟩ := bind_eq_ok.mp h
                      obtain ⟨bits, hb, h⟩ := bind_eq_ok.mp h
                      obtain ⟨ssrcs, hss, h⟩ := bind_eq_ok.mp h
                      simp at h
                      subst h
                      have n1 := u8At_lt hnum
                      have n17 := u8At_lt h17
                      have n18 := u8At_lt h18
                      have n19 := u8At_lt h19
                      obtain ⟨i1, i2, _, _⟩ := decSSRCList_image _ _ _ _ _ hss
                      simp only [Decidable.not_not] at hsz
                      rw [hsz] at i2
                      exact ⟨u32At_lt hsender, by simp only; omega, i1, b17 / 4, b17 % 4 * 65536 + b18 * 256 + b19,
                        by omega, by omega, hb⟩

/-- a non-negative finite float32 pattern is determined by its value `(2^23 + F)·2^E` -/
theorem f32_unique (a b : Nat) (ha : a < 4294967296) (hb : b < 4294967296) (sa : f32Sign a = 0) (sb : f32Sign b = 0)
    (hv : (8388608 + f32Frac a) * 2 ^ f32Exp a = (8388608 + f32Frac b) * 2 ^ f32Exp b) : a = b := by
  have key : ∀ (F G X Y : Nat), F < 8388608 → G < 8388608 → X ≤ Y → (8388608 + F) * 2 ^ X = (8388608 + G) * 2 ^ Y →
      X = Y ∧ F = G := by
    intro F G X Y hF hG hXY he
    obtain ⟨d, hd⟩ : ∃ d, Y = X + d := ⟨Y - X, by omega⟩
    subst hd
    have hpos : 0 < 2 ^ X := Nat.pow_pos (by decide)
    have hre : (8388608 + G) * 2 ^ (X + d) = ((8388608 + G) * 2 ^ d) * 2 ^ X := by
      rw [Nat.pow_add, Nat.mul_comm (2 ^ X), Nat.mul_assoc]
    rw [hre] at he
    have he' := Nat.eq_of_mul_eq_mul_right hpos he
    cases d with
    | zero => simp at he'; exact ⟨rfl, by omega⟩
    | succ d =>
      exfalso
      have : 2 ≤ 2 ^ (d + 1) := by
        have : 2 ^ 1 ≤ 2 ^ (d + 1) := Nat.pow_le_pow_right (by decide) (by omega)
        simpa using this
      have : 8388608 * 2 ≤ (8388608 + G) * 2 ^ (d + 1) := Nat.mul_le_mul (by omega) this
      omega
  have hFa : f32Frac a < 8388608 := Nat.mod_lt _ (by decide)
  have hFb : f32Frac b < 8388608 := Nat.mod_lt _ (by decide)
  have hEF : f32Exp a = f32Exp b ∧ f32Frac a = f32Frac b := by
    by_cases hle : f32Exp a ≤ f32Exp b
    · exact key _ _ _ _ hFa hFb hle hv
    · obtain ⟨h1, h2⟩ := key _ _ _ _ hFb hFa (by omega) hv.symm
      exact ⟨h1.symm, h2.symm⟩
  unfold f32Sign at sa sb
  unfold f32Exp f32Frac at hEF
  omega

/-- the normalised pair of the integer `m·2^e` (m ≥ 1, 18 bits): it carries exactly that value -/
theorem rembPair_exact (e m : Nat) (he : e < 64) (hm0 : 0 < m) (hm : m < 262144) :
    0 < Spec.rembMant (m * 2 ^ e) ∧ Spec.rembMant (m * 2 ^ e) < 262144 ∧ Spec.rembExp (m * 2 ^ e) ≤ 63 ∧
      (Spec.rembExp (m * 2 ^ e) = 0 ∨ 131072 ≤ Spec.rembMant (m * 2 ^ e)) ∧
      Spec.rembMant (m * 2 ^ e) * 2 ^ Spec.rembExp (m * 2 ^ e) = m * 2 ^ e := by
  have hle : m * 2 ^ e ≤ Spec.rembMax := by
    unfold Spec.rembMax
    exact Nat.mul_le_mul (by omega) (Nat.pow_le_pow_right (by decide) (by omega))
  obtain ⟨h1, h2, h3, h4, h5⟩ := Spec.rembPair_spec _ hle
  generalize Spec.rembMant (m * 2 ^ e) = M at *
  generalize Spec.rembExp (m * 2 ^ e) = E at *
  have hpe : 0 < 2 ^ e := Nat.pow_pos (by decide)
  have hpE : 0 < 2 ^ E := Nat.pow_pos (by decide)
  have hv1 : 1 ≤ m * 2 ^ e := Nat.mul_pos hm0 hpe
  -- the exponent chosen is at most `e`
  have hEe : E ≤ e := by
    rcases h3 with h | h
    · omega
    · apply Nat.le_of_not_lt; intro hlt
      have h6 : 2 ^ (e + 1) ≤ 2 ^ E := Nat.pow_le_pow_right (by decide) hlt
      have h7 : 131072 * 2 ^ (e + 1) ≤ M * 2 ^ E := Nat.mul_le_mul h h6
      have h8 : m * 2 ^ e ≤ 262143 * 2 ^ e := Nat.mul_le_mul_right _ (by omega)
      rw [Nat.pow_succ] at h7
      omega
  obtain ⟨d, hd⟩ : ∃ d, e = E + d := ⟨e - E, by omega⟩
  have hsplit : m * 2 ^ e = (m * 2 ^ d) * 2 ^ E := by rw [hd, Nat.pow_add, Nat.mul_comm (2 ^ E), Nat.mul_assoc]
  rw [hsplit] at h4 h5
  have hM : M = m * 2 ^ d := by
    have a := Nat.le_of_mul_le_mul_right h4 hpE
    have b := Nat.lt_of_mul_lt_mul_right h5
    omega
  refine ⟨?_, h1, h2, h3, by rw [hsplit, hM]⟩
  rw [hM]; exact Nat.mul_pos hm0 (Nat.pow_pos (by decide))

/-- **decoded REMB bitrates are fixed points of encode-decode** (non-zero mantissa, normalised or not): the encoder
chooses a normalised pair `(M, E)` with `M·2^E = m·2^e`, which decodes to the same float32 -/
theorem rembDecBits_reenc (e m bits : Nat) (he : e < 64) (hm0 : 0 < m) (hm : m < 262144) (hb : rembDecBits e m = .ok bits) :
    ∃ M E, rembEncBitrate bits = .ok (M, E) ∧ M < 262144 ∧ E ≤ 63 ∧ rembDecBits E M = .ok bits ∧
      bits < 4294967296 ∧ f32Sign bits = 0 ∧ f32IsNaN bits = false := by
  obtain ⟨bits', hb', hlt, hfl, hS, hnan, hinf, hval⟩ := rembDecBits_facts e m he hm0 hm
  rw [hb] at hb'; cases hb'
  obtain ⟨henc, _⟩ := rembEncBitrate_spec bits hS
  rw [hval] at henc
  obtain ⟨hM0, hM, hE, hnorm, hex⟩ := rembPair_exact e m he hm0 hm
  refine ⟨_, _, henc, hM, hE, ?_, hlt, hS, hnan⟩
  generalize Spec.rembMant (m * 2 ^ e) = M at *
  generalize Spec.rembExp (m * 2 ^ e) = E at *
  obtain ⟨b2, hb2, hlt2, _, hS2, _, _, _⟩ := rembDecBits_facts E M (by omega) hM0 hM
  obtain ⟨x1, hx1, _, _, hv1⟩ := C04.remb_dec_value_exact e m he hm0 hm
  obtain ⟨x2, hx2, _, _, hv2⟩ := C04.remb_dec_value_exact E M (by omega) hM0 hM
  rw [hb] at hx1; cases hx1
  rw [hb2] at hx2; cases hx2
  rw [hb2]
  congr 1
  exact f32_unique _ _ hlt2 hlt hS2 hS (by rw [hv1, hv2, hex])

/-- mantissa 0 (KF-REMB-MANT0): the decoded pattern is that of `2^(e+23)`, which for `e ≤ 57` is also what the
normalised pair `(2^17, e+6)` decodes to -/
theorem rembDecBits_zero : ∀ e, e < 58 → rembDecBits e 0 = rembDecBits (e + 6) 131072 := by decide

/-- … and for `e ≥ 58` it lies above the saturation bound 0x3FFFF·2^63 -/
theorem rembDecBits_zero_sat : ∀ e, e < 64 → 58 ≤ e →
    Spec.rembMax < f32Floor ((e + 150) * 8388608) ∧
      rembEncBitrate ((e + 150) * 8388608) = .ok (262143, 63) ∧ rembDecBits 63 262143 = .ok 1744830400 ∧
      (e + 150) * 8388608 ≠ 1744830400 := by decide

/-- the pattern a zero mantissa decodes to: biased exponent `e + 150`, fraction 0, i.e. `2^(e+23)` -/
theorem rembDecBits_zero_val : ∀ e, e < 64 → rembDecBits e 0 = .ok ((e + 150) * 8388608) ∧
    f32Sign ((e + 150) * 8388608) = 0 ∧ f32IsNaN ((e + 150) * 8388608) = false ∧
    f32Floor ((e + 150) * 8388608) = 2 ^ (e + 23) := by decide

/-- a decoded REMB whose bitrate is within the range of the wire format -/
def Remb.Unsaturated (v : Remb) : Prop := f32Floor v.bitrate ≤ Spec.rembMax
instance (v : Remb) : Decidable v.Unsaturated := by unfold Remb.Unsaturated; infer_instance

/-- the header Marshal writes for a REMB with at most 255 SSRCs -/
def Remb.hdr (v : Remb) : Header := Header.mk false 15 206 (4 + v.ssrcs.length)

/-- **REMB: decode, then encode, then decode** — for every decoded value not above the saturation bound Marshal emits a
frame that the REMB decoder maps back to the very same value -/
theorem Remb.reenc {f : Bytes} {v : Remb} (h : Remb.dec f = .ok v) (hu : v.Unsaturated) :
    ∃ f2, v.enc = .ok f2 ∧ Framed2 f2 v.hdr ∧ Remb.dec f2 = .ok v := by
  obtain ⟨h1, h2, h3, e, m, he, hm, hb⟩ := Remb.dec_image h
  -- reduce to a pair with a non-zero mantissa
  have hpos : ∃ e' m', e' < 64 ∧ 0 < m' ∧ m' < 262144 ∧ rembDecBits e' m' = .ok v.bitrate := by
    by_cases hm0 : m = 0
    · subst hm0
      by_cases he58 : e < 58
      · exact ⟨e + 6, 131072, by omega, by decide, by decide, by rw [← rembDecBits_zero e he58]; exact hb⟩
      · exfalso
        obtain ⟨hsat, _⟩ := rembDecBits_zero_sat e he (by omega)
        have hb' := (rembDecBits_zero_val e he).1
        rw [hb] at hb'
        have hbv : v.bitrate = (e + 150) * 8388608 := Out.ok.inj hb'
        unfold Remb.Unsaturated at hu
        rw [hbv] at hu
        omega
    · exact ⟨e, m, he, by omega, hm, hb⟩
  obtain ⟨e', m', he', hm0', hm', hb'⟩ := hpos
  obtain ⟨M, E, henc, hM, hE, hdec, hlt, hS, hnan⟩ := rembDecBits_reenc e' m' v.bitrate he' hm0' hm' hb'
  have hencok := Remb.enc_ok v M E h2 henc hM hE
  have hd := Remb.dec_bytes v.sender E M v.ssrcs h1 (by omega) hM h2 h3
  rw [hdec, bind_ok] at hd
  exact ⟨_, hencok, (rembBytes_framed _ _ _ _ h2).framed2, hd⟩

/-- **the REMB decoder's image is well-formed** -/
theorem Remb.dec_WF {f : Bytes} {v : Remb} (h : Remb.dec f = .ok v) : v.WF := by
  obtain ⟨h1, h2, h3, e, m, he, hm, hb⟩ := Remb.dec_image h
  refine ⟨h1, h2, h3, C09.decBits_lt _ _ _ hb, ?_⟩
  by_cases hm0 : m = 0
  · subst hm0
    obtain ⟨hb', hS, hnan, _⟩ := rembDecBits_zero_val e he
    rw [hb] at hb'
    have hbv : v.bitrate = (e + 150) * 8388608 := Out.ok.inj hb'
    rw [hbv]
    exact ⟨hS, hnan⟩
  · obtain ⟨bits', hb', _, _, hS, hnan, _⟩ := rembDecBits_facts e m he (by omega) hm
    rw [hb] at hb'; cases hb'
    exact ⟨hS, hnan⟩

/-- what happens above the bound: the value is re-encoded as 0x3FFFF·2^63 and comes back DIFFERENT (a C09 deviation of the
library, a further consequence of KF-REMB-MANT0; only the second decoding is a fixed point) -/
theorem Remb.reenc_saturated {f : Bytes} {v : Remb} (h : Remb.dec f = .ok v) (hs : ¬ v.Unsaturated) :
    ∃ f2, v.enc = .ok f2 ∧ Remb.dec f2 = .ok { v with bitrate := 1744830400 } ∧ v.bitrate ≠ 1744830400 := by
  obtain ⟨h1, h2, h3, e, m, he, hm, hb⟩ := Remb.dec_image h
  unfold Remb.Unsaturated at hs
  by_cases hm0 : m = 0
  · subst hm0
    obtain ⟨hb', _, _, hfl⟩ := rembDecBits_zero_val e he
    rw [hb] at hb'
    have hbv : v.bitrate = (e + 150) * 8388608 := Out.ok.inj hb'
    have hsmall : ∀ e, e < 58 → 2 ^ (e + 23) ≤ Spec.rembMax := by decide
    have he58 : 58 ≤ e := by
      apply Nat.le_of_not_lt; intro hlt
      exact hs (by rw [hbv, hfl]; exact hsmall e hlt)
    obtain ⟨_, henc, hdec, hne⟩ := rembDecBits_zero_sat e he he58
    rw [← hbv] at henc hne
    have hencok := Remb.enc_ok v 262143 63 h2 henc (by decide) (by decide)
    have hd := Remb.dec_bytes v.sender 63 262143 v.ssrcs h1 (by decide) (by decide) h2 h3
    rw [hdec, bind_ok] at hd
    exact ⟨_, hencok, hd, hne⟩
  · exfalso
    obtain ⟨bits', hb', _, hfl, _⟩ := rembDecBits_facts e m he (by omega) hm
    rw [hb] at hb'
    have hbv : v.bitrate = bits' := Out.ok.inj hb'
    apply hs
    rw [hbv, hfl]
    unfold Spec.rembMax
    exact Nat.mul_le_mul (by omega) (Nat.pow_le_pow_right (by decide) (by omega))

/-! ## CCFB (RFC 8888) -/

theorem CcfbMetric.dec_WF {b : Bytes} {m : CcfbMetric} (h : CcfbMetric.dec b = .ok m) : m.WF := by
  unfold CcfbMetric.dec at h
  split at h
  · cases h
  · obtain ⟨b0, h0, h⟩ := bind_eq_ok.mp h
    split at h
    · simp at h; subst h; exact ⟨by decide, by decide, fun _ => ⟨rfl, rfl⟩⟩
    · obtain ⟨w, hw, h⟩ := bind_eq_ok.mp h
      simp at h; subst h
      exact ⟨by simp only; omega, by simp only; omega, by intro hh; cases hh⟩

theorem decMetrics_image (n : Nat) (b : Bytes) (off : Nat) (ms : List CcfbMetric) (h : decMetrics n b off = .ok ms) :
    ms.length = n ∧ ∀ m ∈ ms, m.WF := by
  induction n generalizing off ms with
  | zero => simp [decMetrics] at h; subst h; simp
  | succ n ih =>
    unfold decMetrics at h
    obtain ⟨mb, _, h⟩ := bind_eq_ok.mp h
    obtain ⟨m, hm, h⟩ := bind_eq_ok.mp h
    obtain ⟨rest, hr, h⟩ := bind_eq_ok.mp h
    simp at h; subst h
    obtain ⟨i1, i2⟩ := ih _ _ hr
    refine ⟨by simp [i1], ?_⟩
    intro x hx
    rcases List.mem_cons.mp hx with hx | hx
    · rw [hx]; exact CcfbMetric.dec_WF hm
    · exact i2 x hx

/-- what `CCFeedbackReportBlock.unmarshal` returns: fields in range, well-formed metric blocks, sequence numbers that do
not wrap, and NEVER exactly one metric block (num_reports = k > 0 is read as k + 1 metric blocks) -/
def CcfbBlock.Decoded (b : CcfbBlock) : Prop :=
  u32 b.media ∧ u16 b.beginSeq ∧ (0 < b.metrics.length → b.beginSeq + b.metrics.length - 1 ≤ 65535) ∧
    (∀ m ∈ b.metrics, m.WF) ∧ b.metrics.length ≠ 1

theorem CcfbBlock.dec_image {b : Bytes} {blk : CcfbBlock} (h : CcfbBlock.dec b = .ok blk) : blk.Decoded := by
  unfold CcfbBlock.dec at h
  split at h
  · cases h
  · obtain ⟨media, hmedia, h⟩ := bind_eq_ok.mp h
    obtain ⟨bs, hbs, h⟩ := bind_eq_ok.mp h
    obtain ⟨field, hfield, h⟩ := bind_eq_ok.mp h
    have n1 := u16At_lt hbs
    have n2 := u16At_lt hfield
    split at h
    · simp at h; subst h
      exact ⟨u32At_lt hmedia, n1, by simp, by simp, by simp⟩
    · rename_i hf0
      split at h
      · cases h
      · rename_i hwrap
        dsimp only at h
        split at h
        · cases h
        · obtain ⟨ms, hms, h⟩ := bind_eq_ok.mp h
          simp at h; subst h
          obtain ⟨i1, i2⟩ := decMetrics_image _ _ _ _ hms
          refine ⟨u32At_lt hmedia, n1, ?_, i2, ?_⟩
          · intro _; simp only; rw [i1]; omega
          · simp only; rw [i1]; omega

theorem decBlocksP_image (gas : Nat) (rest : Bytes) (ts : Nat) (bs : List CcfbBlock) (h : decBlocksP gas rest ts = (bs, .ok)) :
    ∀ b ∈ bs, b.Decoded := by
  induction gas generalizing rest ts bs with
  | zero => simp [decBlocksP] at h
  | succ g ih =>
    unfold decBlocksP at h
    split at h
    · simp at h; subst h; simp
    · cases hd : CcfbBlock.dec rest with
      | ok blk =>
        rw [hd] at h
        dsimp only at h
        cases hrec : decBlocksP g (rest.drop blk.len) (ts - blk.len) with
        | mk bs' st =>
          rw [hrec] at h
          simp at h
          obtain ⟨h1, h2⟩ := h
          subst h2; subst h1
          intro x hx
          rcases List.mem_cons.mp hx with hx | hx
          · rw [hx]; exact CcfbBlock.dec_image hd
          · exact ih _ _ _ hrec x hx
      | err => rw [hd] at h; simp [Out.status] at h
      | panic => rw [hd] at h; simp [Out.status] at h
      | diverge => rw [hd] at h; simp [Out.status] at h

/-- **image of `CCFeedbackReport.Unmarshal`** -/
theorem Ccfb.dec_image {f : Bytes} {v : Ccfb} (h : Ccfb.dec f = .ok v) :
    u32 v.sender ∧ u32 v.timestamp ∧ ∀ b ∈ v.blocks, b.Decoded := by
  have ⟨hst, hv⟩ := Status.toOut_eq_ok h
  unfold Ccfb.decP at hst hv
  split at hst
  · simp at hst
  · rename_i hlen
    rw [if_neg hlen] at hv
    cases hh : Header.dec f with
    | ok hd =>
      simp only [hh] at hst hv
      split at hst
      · simp at hst
      · rename_i ht
        rw [if_neg ht] at hv
        cases h1 : u32At f headerLength with
        | ok s =>
          cases h2 : u32At f (f.length - reportTimestampLength) with
          | ok ts =>
            simp only [h1, h2] at hst hv
            cases hrec : decBlocksP (f.length + 1) (f.drop reportBlockOffset) (f.length - reportTimestampLength - reportBlockOffset) with
            | mk bs st =>
              rw [hrec] at hst hv
              dsimp only at hst hv
              subst hst
              subst hv
              exact ⟨u32At_lt h1, u32At_lt h2, decBlocksP_image _ _ _ _ hrec⟩
          | err => simp [h1, h2] at hst
          | panic => simp [h1, h2] at hst
          | diverge => simp [h1, h2] at hst
        | err => simp [h1] at hst
        | panic => simp [h1] at hst
        | diverge => simp [h1] at hst
    | err => simp [hh, Out.status] at hst
    | panic => simp [hh, Out.status] at hst
    | diverge => simp [hh, Out.status] at hst

theorem encBlocks_err (bs : List CcfbBlock) (h : ∃ b ∈ bs, 16384 < b.metrics.length) : encBlocks bs = .err := by
  induction bs with
  | nil => obtain ⟨b, hb, _⟩ := h; cases hb
  | cons c cs ih =>
    unfold encBlocks
    by_cases hc : c.metrics.length ≤ 16384
    · rw [CcfbBlock.enc_ok c hc, bind_ok]
      obtain ⟨b, hb, hbig⟩ := h
      rcases List.mem_cons.mp hb with e | e
      · subst e; omega
      · rw [ih ⟨b, e, hbig⟩]; rfl
    · have : c.enc = .err := by
        unfold CcfbBlock.enc; rw [if_pos (by simp only [maxMetricBlocks]; omega)]
      rw [this]; rfl

/-- **CCFB: decode, then encode, then decode.** For every decoded report whose re-encoding fits the 16-bit length field,
if Marshal accepts it (no block above 16384 metric blocks) the frame it emits decodes to the very same report. -/
theorem Ccfb.reenc {f : Bytes} {v : Ccfb} (h : Ccfb.dec f = .ok v) (hfit : v.marshalSize ≤ 262144) (he : ∃ b, v.enc = .ok b) :
    ∃ f2, v.enc = .ok f2 ∧ Framed2 f2 v.header ∧ Ccfb.dec f2 = .ok v := by
  obtain ⟨h1, h2, h3⟩ := Ccfb.dec_image h
  by_cases hall : ∀ b ∈ v.blocks, b.metrics.length ≤ 16384
  · have hwf : v.WF := ⟨h1, h2, fun b hb => by
      obtain ⟨a1, a2, a3, a4, _⟩ := h3 b hb
      exact ⟨a1, a2, hall b hb, a3, a4⟩, hfit⟩
    obtain ⟨f2, e1, e2, e3, e4, e5⟩ := C05.ccfb_framed v hwf
    obtain ⟨f3, g1, g2, _⟩ := C02.ccfb_roundtrip_partial v hwf (fun b hb => (h3 b hb).2.2.2.2)
    rw [e1] at g1; cases g1
    have h12 : 12 ≤ v.marshalSize := by rw [Ccfb.size_eq]; omega
    exact ⟨f2, e1, ⟨e4, by rw [e5]; omega⟩, g2⟩
  · exfalso
    have hex : ∃ b ∈ v.blocks, 16384 < b.metrics.length := by
      apply Classical.byContradiction; intro hn
      apply hall; intro b hb
      apply Nat.le_of_not_lt; intro hlt
      exact hn ⟨b, hb, hlt⟩
    obtain ⟨b, hb⟩ := he
    unfold Ccfb.enc at hb
    rw [Header.enc_ok _ (by rw [Ccfb.header_count]; omega), bind_ok, encBlocks_err _ hex] at hb
    cases hb

/-! ## XR (RFC 3611) -/

theorem getScalar_fits (w : Nat) (b : Bytes) (hw : widthOK w) : fits w (getScalar w b) := by
  unfold fits
  rcases hw with h | h | h | h <;> subst h
  · simpa [getScalar] using get8_lt b 0
  · simpa [getScalar] using get16_lt b 0
  · simpa [getScalar] using get32_lt b 0
  · simpa [getScalar] using get64_lt b 0

theorem readElem_image (ws : List Nat) (b : Bytes) (vs : List Nat) (rest : Bytes) (hw : ∀ w ∈ ws, widthOK w)
    (h : readElem ws b = .ok (vs, rest)) : elemOK ws vs ∧ rest.length + ws.sum = b.length := by
  induction ws generalizing b vs with
  | nil => simp [readElem] at h; obtain ⟨h1, h2⟩ := h; subst h1; subst h2; simp [elemOK]
  | cons w ws ih =>
    unfold readElem at h
    split at h
    · cases h
    · rename_i hlen
      obtain ⟨⟨vs', r'⟩, hr, h⟩ := bind_eq_ok.mp h
      simp at h
      obtain ⟨h1, h2⟩ := h
      subst h1; subst h2
      obtain ⟨i1, i2⟩ := ih _ _ (fun x hx => hw x (by simp [hx])) hr
      simp only [List.length_drop] at i2
      exact ⟨⟨hw w (by simp), getScalar_fits w b (hw w (by simp)), i1⟩, by simp only [List.sum_cons]; omega⟩

theorem readElems_image (gas : Nat) (ws : List Nat) (b : Bytes) (es : List (List Nat)) (hw : ∀ w ∈ ws, widthOK w)
    (h : readElems gas ws b = .ok es) : (∀ e ∈ es, elemOK ws e) ∧ es.length * ws.sum = b.length := by
  induction gas generalizing b es with
  | zero => simp [readElems] at h
  | succ g ih =>
    unfold readElems at h
    split at h
    · rename_i h0; simp at h; subst h; simp [h0]
    · obtain ⟨⟨e, rest⟩, he, h⟩ := bind_eq_ok.mp h
      obtain ⟨es', hes, h⟩ := bind_eq_ok.mp h
      simp at h; subst h
      obtain ⟨i1, i2⟩ := readElem_image ws b e rest hw he
      obtain ⟨j1, j2⟩ := ih _ _ hes
      refine ⟨?_, by simp only [List.length_cons, Nat.add_mul, Nat.one_mul]; omega⟩
      intro x hx
      rcases List.mem_cons.mp hx with hx | hx
      · rw [hx]; exact i1
      · exact j1 x hx

/-- layouts the codec can read back into writable values: scalars of 1/2/4/8 octets, skipped and omitted fields,
at most one slice of such scalars, in last position -/
def itemsShape : List Item → Bool
  | [] => true
  | .scalar _ w :: is => decide (widthOK w) && itemsShape is
  | .skip _ :: is => itemsShape is
  | .omitted _ :: is => itemsShape is
  | [.sliceOf _ ws] => decide (0 < ws.sum) && ws.all (fun w => decide (widthOK w))
  | _ => false

theorem gen_layouts_shape : ∀ k, itemsShape (layoutOf k).items = true := by
  intro k; unfold layoutOf; split <;> decide

/-- **image of the reflective reader**: the values read are well shaped for the layout, the octets are accounted for,
and either everything was consumed (a trailing slice) or the wire size does not depend on the slice -/
theorem readItems_image (items : List Item) (b : Bytes) (vs : List Nat) (es : List (List Nat)) (r : Bytes)
    (hsh : itemsShape items = true) (h : readItems items b = .ok (vs, es, r)) :
    itemsOK items vs es ∧ sizeItems items es + r.length = b.length ∧
      (r.length = 0 ∨ ∀ es', sizeItems items es' = sizeItems items es) := by
  induction items generalizing b vs with
  | nil =>
    simp [readItems] at h
    obtain ⟨h1, h2, h3⟩ := h
    subst h1; subst h2; subst h3
    exact ⟨by simp [itemsOK], by simp [sizeItems], Or.inr (fun _ => rfl)⟩
  | cons it items ih =>
    cases it with
    | scalar n w =>
      simp only [itemsShape, Bool.and_eq_true, decide_eq_true_eq] at hsh
      unfold readItems at h
      split at h
      · cases h
      · obtain ⟨⟨vs', es', r'⟩, hr, h⟩ := bind_eq_ok.mp h
        simp at h
        obtain ⟨h1, h2, h3⟩ := h
        subst h1; subst h2; subst h3
        obtain ⟨i1, i2, i3⟩ := ih _ _ hsh.2 hr
        simp only [List.length_drop] at i2
        refine ⟨⟨hsh.1, getScalar_fits w b hsh.1, i1⟩, by simp only [sizeItems]; omega, ?_⟩
        rcases i3 with i3 | i3
        · exact Or.inl i3
        · right; intro es''; simp only [sizeItems]; rw [i3 es'']
    | skip w =>
      simp only [itemsShape] at hsh
      unfold readItems at h
      split at h
      · cases h
      · obtain ⟨i1, i2, i3⟩ := ih _ _ hsh h
        simp only [List.length_drop] at i2
        refine ⟨by simpa [itemsOK] using i1, by simp only [sizeItems]; omega, ?_⟩
        rcases i3 with i3 | i3
        · exact Or.inl i3
        · right; intro es''; simp only [sizeItems]; rw [i3 es'']
    | omitted n =>
      simp only [itemsShape] at hsh
      unfold readItems at h
      obtain ⟨i1, i2, i3⟩ := ih _ _ hsh h
      refine ⟨by simpa [itemsOK] using i1, by simpa only [sizeItems] using i2, ?_⟩
      rcases i3 with i3 | i3
      · exact Or.inl i3
      · right; intro es''; simp only [sizeItems]; rw [i3 es'']
    | sliceOf n ws =>
      cases items with
      | nil =>
        simp only [itemsShape, Bool.and_eq_true, decide_eq_true_eq, List.all_eq_true] at hsh
        unfold readItems at h
        obtain ⟨es1, he1, h⟩ := bind_eq_ok.mp h
        simp [readItems] at h
        obtain ⟨h1, h2, h3⟩ := h
        subst h1; subst h2; subst h3
        obtain ⟨j1, j2⟩ := readElems_image _ ws b es1 hsh.2 he1
        exact ⟨⟨hsh.1, j1⟩, by simp [sizeItems, elemSize]; exact j2, Or.inl rfl⟩
      | cons i2 is2 => simp [itemsShape] at hsh
    | blocks n => simp [itemsShape] at hsh
    | bad n => simp [itemsShape] at hsh

theorem get8_take (b : Bytes) (n i : Nat) (h : i < n) : get8 (b.take n) i = get8 b i := by
  simp [get8, List.getD_eq_getElem?_getD, List.getElem?_take, h]

/-- the header peek of `xrDecBlock` -/
theorem readXRHeader_eq {buf : Bytes} {hv : List Nat} {es : List (List Nat)} {r : Bytes}
    (h : readItems layoutXRHeader.items buf = .ok (hv, es, r)) :
    4 ≤ buf.length ∧ hv = [get8 buf 0, get8 buf 1, get16 buf 2] := by
  match buf, h with
  | [], h => simp [layoutXRHeader, readItems] at h
  | [_], h => simp [layoutXRHeader, readItems] at h
  | [_, _], h => simp [layoutXRHeader, readItems] at h
  | [_, _, _], h => simp [layoutXRHeader, readItems] at h
  | a :: b :: c :: d :: rest, h =>
    simp only [layoutXRHeader, readItems, getScalar, List.length_cons, List.drop_succ_cons, List.drop_zero] at h
    rw [if_neg (by omega), if_neg (by omega), if_neg (by omega)] at h
    simp at h
    refine ⟨by simp, ?_⟩
    rw [← h.1]
    simp [get16]

theorem xrKindOfType_le (bt : Nat) : xrKindOfType bt ≤ 7 := by unfold xrKindOfType; split <;> omega

theorem fixed_sizes_aligned : ∀ k, k ≤ 7 → sizeItems (layoutOf k).items [] % 4 = 0 := by decide

theorem XRBlock.unpack_fields (b : XRBlock) :
    b.unpack.kind = b.kind ∧ b.unpack.bt = b.bt ∧ b.unpack.ts = b.ts ∧ b.unpack.bl = b.bl ∧ b.unpack.vals = b.vals ∧
      b.unpack.elems = b.elems := by
  unfold XRBlock.unpack; split <;> exact ⟨rfl, rfl, rfl, rfl, rfl, rfl⟩

theorem XRBlock.setupTs_lt (b : XRBlock) (h : b.ts < 256) : b.setupTs < 256 := by
  unfold XRBlock.setupTs
  split
  · omega
  · omega
  · omega
  · omega
  · omega
  · omega
  · dsimp only; split <;> split <;> split <;> omega
  · exact h

/-- **image of one XR report block**: whatever `xrDecBlock` cuts from a 32-bit aligned buffer is a well-formed block
(`C15.BlockWF`: in particular word aligned), the remainder is aligned again, and nothing is invented: the block's
wire size is at most what was consumed -/
theorem xrDecBlock_image {buf : Bytes} {blk : XRBlock} {rest : Bytes} (h : xrDecBlock buf = .ok (blk, rest))
    (h4 : buf.length % 4 = 0) (hmax : buf.length ≤ 262144) :
    C15.BlockWF blk ∧ rest.length % 4 = 0 ∧ blk.wireSize + rest.length ≤ buf.length ∧ rest.length < buf.length := by
  unfold xrDecBlock at h
  obtain ⟨⟨hv, es0, r0⟩, hr, h⟩ := bind_eq_ok.mp h
  obtain ⟨hlen, hhv⟩ := readXRHeader_eq hr
  subst hhv
  dsimp only at h
  generalize hsz : (if (get16 buf 2 + 1) * 4 > buf.length then buf.length else (get16 buf 2 + 1) * 4) = size at h
  have hs4 : size % 4 = 0 := by rw [← hsz]; split <;> omega
  have hsle : size ≤ buf.length := by rw [← hsz]; split <;> omega
  have hsge : 4 ≤ size := by rw [← hsz]; split <;> omega
  obtain ⟨⟨vs, es, r1⟩, hr1, h⟩ := bind_eq_ok.mp h
  dsimp only at h
  split at h
  · rename_i bt' ts' bl' vals
    simp at h
    obtain ⟨hb, hrest⟩ := h
    subst hrest
    obtain ⟨i1, i2, i3⟩ := readItems_image _ _ _ _ _ (gen_layouts_shape _) hr1
    simp only [List.length_take, Nat.min_eq_left hsle] at i2
    obtain ⟨n1, n2, n3, tl, hl⟩ := C15.layout_hdr (xrKindOfType (get8 buf 0))
    obtain ⟨u1, u2, u3, u4, u5, u6⟩ := XRBlock.unpack_fields
      { kind := xrKindOfType (get8 buf 0), bt := bt', ts := ts', bl := bl', omits := xrFreshOmits (xrKindOfType (get8 buf 0)), vals := vals, elems := es }
    rw [hb] at u1 u2 u3 u4 u5 u6
    dsimp only at u1 u2 u3 u4 u5 u6
    have hkle := xrKindOfType_le (get8 buf 0)
    -- the block type read with the block's own layout is the octet that was peeked
    have hbt' : bt' = get8 buf 0 := by
      have hr1' := hr1
      rw [hl] at hr1'
      unfold readItems at hr1'
      split at hr1'
      · cases hr1'
      · obtain ⟨⟨v2, e2, r2⟩, _, hr1'⟩ := bind_eq_ok.mp hr1'
        simp at hr1'
        rw [← hr1'.1.1]
        simp [getScalar, get8_take _ _ _ (by omega : 0 < size)]
    have hws : blk.wireSize = sizeItems (layoutOf (xrKindOfType (get8 buf 0))).items es := by
      unfold XRBlock.wireSize; rw [u1, u6]
    rw [hl] at i1
    obtain ⟨_, f1, _, f2, _, f3, i1'⟩ := i1
    refine ⟨⟨by rw [u1]; exact hkle, ?_, ?_, ?_, by rw [hws]; omega, ?_⟩, by simp only [List.length_drop]; omega,
      by rw [hws]; simp only [List.length_drop]; omega, by simp only [List.length_drop]; omega⟩
    · -- shape
      rw [u1, u6, hl]
      have hsc : blk.setup.scalars = blk.setupBt :: blk.setupTs :: ((blk.wireSize / 4 + 65535) % 65536) :: vals := by
        simp [XRBlock.scalars, XRBlock.setup, u5]
      rw [hsc]
      refine ⟨Or.inl rfl, ?_, Or.inl rfl, ?_, Or.inr (Or.inl rfl), ?_, i1'⟩
      · unfold fits XRBlock.setupBt; rw [u1, u2]; unfold fits at f1; split <;> omega
      · have := XRBlock.setupTs_lt blk (by rw [u3]; unfold fits at f2; omega)
        unfold fits; omega
      · unfold fits; omega
    · -- omits
      rw [← hb]
      unfold C15.omitsOK XRBlock.unpack xrFreshOmits
      generalize xrKindOfType (get8 buf 0) = k at hkle
      have : k = 0 ∨ k = 1 ∨ k = 2 ∨ k = 3 ∨ k = 4 ∨ k = 5 ∨ k = 6 ∨ k = 7 := by omega
      rcases this with e | e | e | e | e | e | e | e <;> subst e <;> dsimp only <;>
        first | rfl | exact ⟨_, rfl, by omega⟩ | exact ⟨_, _, _, _, rfl, by omega, by omega, by omega, by omega⟩
    · -- aligned
      rw [hws]
      rcases i3 with i3 | i3
      · omega
      · rw [← i3 []]; exact fixed_sizes_aligned _ hkle
    · -- an opaque block has an unregistered type
      intro hk0
      rw [u1] at hk0
      rw [u2, hbt']
      unfold xrKindOfType at hk0
      split at hk0
      · omega
      · assumption
  · cases h

theorem xrDecBlocksP_image (gas : Nat) (buf : Bytes) (bs : List XRBlock) (h : xrDecBlocksP gas buf = (bs, .ok))
    (h4 : buf.length % 4 = 0) (hmax : buf.length ≤ 262144) :
    (∀ b ∈ bs, C15.BlockWF b) ∧ (bs.map XRBlock.wireSize).sum ≤ buf.length := by
  induction gas generalizing buf bs with
  | zero => simp [xrDecBlocksP] at h
  | succ g ih =>
    unfold xrDecBlocksP at h
    split at h
    · simp at h; subst h; simp
    · cases hd : xrDecBlock buf with
      | ok r =>
        obtain ⟨blk, rest⟩ := r
        rw [hd] at h
        dsimp only at h
        cases hrec : xrDecBlocksP g rest with
        | mk bs' st =>
          rw [hrec] at h
          simp at h
          obtain ⟨h1, h2⟩ := h
          subst h2; subst h1
          obtain ⟨w1, w2, w3, _⟩ := xrDecBlock_image hd h4 hmax
          obtain ⟨i1, i2⟩ := ih rest bs' hrec w2 (by omega)
          refine ⟨?_, by simp only [List.map_cons, List.sum_cons]; omega⟩
          intro x hx
          rcases List.mem_cons.mp hx with hx | hx
          · rw [hx]; exact w1
          · exact i1 x hx
      | err => rw [hd] at h; simp [Out.status] at h
      | panic => rw [hd] at h; simp [Out.status] at h
      | diverge => rw [hd] at h; simp [Out.status] at h

/-- **image of `ExtendedReport.Unmarshal`** on a frame cut by `rtcp.Unmarshal`: 32-bit sender, every block well-formed
(`C15.BlockWF`, word aligned included), and a size that fits the frame it came from -/
theorem XR.dec_image {f : Bytes} {v : XR} (h : XR.dec f = .ok v) (h4 : f.length % 4 = 0) (hmax : f.length ≤ 262144) :
    v.sender < 4294967296 ∧ (∀ b ∈ v.blocks, C15.BlockWF b) ∧ v.marshalSize ≤ f.length := by
  have ⟨hst, hv⟩ := Status.toOut_eq_ok h
  unfold XR.decP at hst hv
  cases hh : Header.dec f with
  | ok hd =>
    simp only [hh] at hst hv
    split at hst
    · simp at hst
    · rename_i ht
      rw [if_neg ht] at hv
      try dsimp only at hst hv
      split at hst
      · simp at hst
      · rename_i hl
        rw [if_neg hl] at hv
        simp only [List.length_drop, headerLength] at hl
        cases hb : xrDecBlocksP (f.length + 1) ((f.drop headerLength).drop 4) with
        | mk bs st =>
          rw [hb] at hst hv
          dsimp only at hst hv
          subst hst
          subst hv
          obtain ⟨i1, i2⟩ := xrDecBlocksP_image _ _ _ hb (by simp only [List.length_drop, headerLength]; omega)
            (by simp only [List.length_drop]; omega)
          simp only [List.length_drop, headerLength] at i2
          refine ⟨get32_lt _ _, i1, ?_⟩
          simp only [XR.marshalSize, XR.wireSize, headerLength]
          omega
  | err => simp [hh, Out.status] at hst
  | panic => simp [hh, Out.status] at hst
  | diverge => simp [hh, Out.status] at hst

/-! ### Marshal's block header fix-up is idempotent -/

theorem XRBlock.setup_setup (b : XRBlock) : b.setup.setup = b.setup := by
  have hbt : b.setup.setupBt = b.setupBt := by
    simp only [XRBlock.setupBt, XRBlock.setup]; split <;> rfl
  have hts : b.setup.setupTs = b.setupTs := by
    simp only [XRBlock.setupTs, XRBlock.setup]
    split <;> first | rfl | (split <;> first | rfl | contradiction)
  have hws : b.setup.wireSize = b.wireSize := rfl
  show ({ b.setup with bt := b.setup.setupBt, ts := b.setup.setupTs, bl := (b.setup.wireSize / 4 + 65535) % 65536 } : XRBlock) = b.setup
  rw [hbt, hts, hws]
  rfl

theorem BlockWF_setup (b : XRBlock) (h : C15.BlockWF b) : C15.BlockWF b.setup := by
  refine ⟨h.kind, ?_, h.omits, h.aligned, h.fits, ?_⟩
  · rw [XRBlock.setup_setup]; exact h.shape
  · intro hk
    have hk' : b.kind = 0 := hk
    show ¬ (1 ≤ b.setupBt ∧ b.setupBt ≤ 7)
    unfold XRBlock.setupBt
    rw [if_neg (by omega)]
    exact h.unknownType hk'

theorem blockBytes_setup (b : XRBlock) : C15.blockBytes b.setup = C15.blockBytes b := by
  unfold C15.blockBytes; rw [XRBlock.setup_setup]; rfl

theorem XR.marshalled_marshalled (x : XR) : x.marshalled.marshalled = x.marshalled := by
  simp only [XR.marshalled, List.map_map]
  congr 1
  apply List.map_congr_left
  intro b _
  exact XRBlock.setup_setup b

theorem blocksBytes_setup (bs : List XRBlock) : C15.blocksBytes (bs.map XRBlock.setup) = C15.blocksBytes bs := by
  simp only [C15.blocksBytes, List.map_map]
  congr 1
  apply List.map_congr_left
  intro b _
  exact blockBytes_setup b

/-- **XR: decode, then encode, then decode.** Marshal fills in the block headers of the decoded report (`XR.marshalled`:
reserved bits of the type-specific octet cleared, block length recomputed), emits a frame, and that frame decodes to
the marshalled report, which is a fixed point: marshalling it again gives the same octets and leaves it unchanged. -/
theorem XR.reenc {f : Bytes} {v : XR} (h : XR.dec f = .ok v) (h4 : f.length % 4 = 0) (hmax : f.length ≤ 262144) :
    ∃ f2, v.enc = .ok (f2, v.marshalled) ∧ Framed2 f2 v.header ∧ XR.dec f2 = .ok v.marshalled ∧
      v.marshalled.enc = .ok (f2, v.marshalled) := by
  obtain ⟨hs, hwf, hsz⟩ := XR.dec_image h h4 hmax
  have hms : v.marshalSize = 4 + v.wireSize := rfl
  have hw4 : 4 ≤ v.wireSize := by simp only [XR.wireSize]; omega
  obtain ⟨f2, e1, e2, e3, e4, e5, _⟩ := C05.xr_framed v hs hwf (by omega)
  obtain ⟨f3, g1, g2, _⟩ := C15.xr_roundtrip v hs hwf (by omega)
  have hf : f3 = f2 := by
    have := Out.ok.inj (g1.symm.trans e1)
    exact (Prod.mk.inj this).1
  subst hf
  refine ⟨f3, e1, ⟨e4, by rw [e5]; omega⟩, g2, ?_⟩
  have hwf' : ∀ b ∈ v.marshalled.blocks, C15.BlockWF b := by
    intro b hb
    simp only [XR.marshalled, List.mem_map] at hb
    obtain ⟨a, ha, hab⟩ := hb
    rw [← hab]; exact BlockWF_setup a (hwf a ha)
  have k1 := XRW.enc_ok v hwf
  have k2 := XRW.enc_ok v.marshalled hwf'
  rw [XR.marshalled_marshalled] at k2
  have hf : f3 = v.header.bytes ++ be32 v.sender ++ C15.blocksBytes v.blocks := by
    have := Out.ok.inj (e1.symm.trans k1)
    exact (Prod.mk.inj this).1
  rw [k2, hf]
  have hh : v.marshalled.header = v.header := by
    simp only [XR.header, XRW.wireSize_marshalled]
  have hb : C15.blocksBytes v.marshalled.blocks = C15.blocksBytes v.blocks := blocksBytes_setup v.blocks
  rw [hh, hb]
  rfl

/-! ## TWCC -/

/-- every chunk is needed: a packet is still unreported when it starts, and none is left after the last one
(`C13.chunkAdvance`: a run length is clipped to the packets that remain, a status vector may have unused symbols) -/
def chunksNeeded (count : Nat) : Nat → List TwccChunk → Bool
  | processed, [] => decide (count ≤ processed)
  | processed, c :: cs => decide (processed < count) && chunksNeeded count (processed + C13.chunkAdvance (count - processed) c) cs

/-- what Marshal needs: consistent header, fields within their widths, well-formed chunks, deltas that fit -/
structure Twcc.EncOK (p : Twcc) : Prop where
  consistent : p.Consistent
  sender : p.sender < 4294967296
  media : p.media < 4294967296
  baseSeq : p.baseSeq < 65536
  statusCount : p.statusCount < 65536
  refTime : p.refTime < 16777216
  fbCount : p.fbCount < 256
  chunks : ∀ c ∈ p.chunks, c.WF
  fit : ∀ d ∈ p.deltas, d.Fits

/-- the domain of the TWCC round trip that contains every decoded value with a consistent header: like `Twcc.WF`, but
the chunk list only has to be *needed* (`chunksNeeded`: a final run length may overshoot, unused symbols of a final
status vector may be anything) and the deltas are those announced under the decoder's clipping (`C13.announced`) -/
structure Twcc.DecodedOK (p : Twcc) : Prop extends Twcc.EncOK p where
  needed : chunksNeeded p.statusCount 0 p.chunks = true
  types : p.deltas.map (·.type) = C13.announced p.statusCount 0 p.chunks
  whole : ∀ d ∈ p.deltas, d.WF

theorem Twcc.enc_ok' (p : Twcc) (h : p.EncOK) : p.enc = .ok p.wire := by
  obtain ⟨⟨c1, c2, c3, c4, c5⟩, w1, w2, w3, w4, w5, w6, hch, hfit⟩ := h
  have hpl := Twcc.packetLen_eq p c5
  have hms := Twcc.marshalSize_eq p c5
  have hdl := (twccDeltasBytes_length p.deltas hfit).1
  have htl : p.trueLen = 20 + 2 * p.chunks.length + (twccDeltasBytes p.deltas).length := by rw [hdl]; rfl
  unfold Twcc.enc
  rw [Header.enc_ok _ (by omega), bind_ok]
  dsimp only
  rw [hms, hpl, appendNBits_24_8 _ _ w6, Nat.mod_eq_of_lt w5]
  have hp4 : Spec.pad4 p.trueLen < 4 ∧ (p.trueLen + Spec.pad4 p.trueLen) % 4 = 0 := by simp only [Spec.pad4]; omega
  have hpadb : twccPad p.trueLen = if Spec.pad4 p.trueLen = 0 then [] else zeros (Spec.pad4 p.trueLen - 1) ++ [byte (Spec.pad4 p.trueLen)] := rfl
  have hc4 : p.header.padding = true ↔ Spec.pad4 p.trueLen ≠ 0 := by rw [c4, hms, hpl]; omega
  generalize Spec.pad4 p.trueLen = pad at hp4 hpadb hc4 ⊢
  generalize htw : twccPad p.trueLen = padb at hpadb
  have hwire : p.wire = p.header.bytes ++ (be32 p.sender ++ (be32 p.media ++ (be16 p.baseSeq ++ (be16 p.statusCount ++
    (be32 (p.refTime * 256 + p.fbCount) ++ (twccChunksBytes p.chunks ++ (twccDeltasBytes p.deltas ++ padb))))))) := by
    rw [← htw]; rfl
  rw [hwire]
  generalize hT : p.trueLen = T at htl c5 hp4 ⊢
  rw [if_neg (by simp only [headerLength]; omega), if_neg (by simp only [headerLength]; omega)]
  rw [encTwccChunks_ok _ hch, bind_ok]
  rw [if_neg (by simp only [headerLength]; omega)]
  rw [copyInto_zeros _ _ _ 16 (by simp) (by simp only [twccChunksBytes_length, headerLength]; omega), bind_ok]
  rw [← List.append_assoc]
  rw [writeDeltas_zeros _ hfit _ _ _ (by simp; omega) (by simp only [twccChunksBytes_length, headerLength]; omega), bind_ok]
  have hz : T + pad - headerLength - 16 - (twccChunksBytes p.chunks).length - (twccDeltasBytes p.deltas).length = pad := by
    simp only [twccChunksBytes_length, headerLength]; omega
  rw [hz]
  cases hpb : p.header.padding with
  | false =>
    have hp0 : pad = 0 := by
      false_or_by_contra
      rename_i hne
      have := hc4.mpr hne
      rw [hpb] at this; cases this
    subst hp0
    rw [if_neg (by simp)]
    simp only [pure_eq, bind_ok, if_true] at hpadb ⊢
    rw [hpadb]
    simp [zeros]
  | true =>
    have hp0 : pad ≠ 0 := hc4.mp hpb
    rw [if_pos rfl, if_neg (by simp only [headerLength]; omega)]
    simp only [pure_eq, bind_ok]
    rw [if_neg hp0] at hpadb
    rw [hpadb]
    have htake : (be32 p.sender ++ be32 p.media ++ be16 p.baseSeq ++ be16 p.statusCount ++ be32 (p.refTime * 256 + p.fbCount) ++
        twccChunksBytes p.chunks ++ (twccDeltasBytes p.deltas ++ zeros pad)).take (T + pad - headerLength - 1)
        = be32 p.sender ++ be32 p.media ++ be16 p.baseSeq ++ be16 p.statusCount ++ be32 (p.refTime * 256 + p.fbCount) ++
        twccChunksBytes p.chunks ++ (twccDeltasBytes p.deltas ++ zeros (pad - 1)) := by
      rw [← List.append_assoc, ← List.append_assoc, List.take_append]
      have hl : (be32 p.sender ++ be32 p.media ++ be16 p.baseSeq ++ be16 p.statusCount ++ be32 (p.refTime * 256 + p.fbCount) ++
        twccChunksBytes p.chunks ++ twccDeltasBytes p.deltas).length = T + pad - headerLength - 1 - (pad - 1) := by
        simp only [List.length_append, be32_length, be16_length, twccChunksBytes_length, headerLength]; omega
      rw [List.take_of_length_le (by omega), hl]
      have : T + pad - headerLength - 1 - (T + pad - headerLength - 1 - (pad - 1)) = pad - 1 := by
        simp only [headerLength]; omega
      rw [this]
      simp [zeros, List.take_replicate]
    rw [htake]
    have hb : (T + pad + 65536 - T) % 256 = pad := by omega
    rw [hb]
    simp

theorem Twcc.wire_length' (p : Twcc) (h : p.EncOK) : p.wire.length = p.marshalSize := by
  have c5 := h.consistent.2.2.2.2
  have hdl := (twccDeltasBytes_length p.deltas h.fit).1
  have htl : p.trueLen = 20 + 2 * p.chunks.length + (twccDeltasBytes p.deltas).length := by rw [hdl]; rfl
  rw [Twcc.marshalSize_eq p c5]
  simp only [Twcc.wire, List.length_append, Header.bytes_length, be32_length, be16_length, twccChunksBytes_length, twccPad_length]
  omega

theorem Twcc.size_facts' (p : Twcc) (h : p.EncOK) :
    p.marshalSize % 4 = 0 ∧ 20 ≤ p.marshalSize ∧ p.marshalSize ≤ 65532 ∧ p.trueLen ≤ p.marshalSize ∧ 20 ≤ p.trueLen := by
  have c5 := h.consistent.2.2.2.2
  rw [Twcc.marshalSize_eq p c5]
  have : 20 ≤ p.trueLen := by unfold Twcc.trueLen; omega
  simp only [Spec.pad4]; omega

theorem Twcc.framed' (p : Twcc) (h : p.EncOK) : Framed p.wire p.header := by
  have hs := Twcc.size_facts' p h
  have hl := Twcc.wire_length' p h
  obtain ⟨c1, c2, c3, c4, c5⟩ := h.consistent
  exact ⟨⟨_, rfl⟩, by omega, by omega, by omega, by rw [hl, c3]; omega⟩

theorem Twcc.wire_fields' (p : Twcc) (h : p.EncOK) :
    get32 p.wire 4 = p.sender ∧ get32 p.wire 8 = p.media ∧ get16 p.wire 12 = p.baseSeq ∧ get16 p.wire 14 = p.statusCount ∧
    get24 p.wire 16 = p.refTime ∧ get8 p.wire 19 = p.fbCount := by
  obtain ⟨_, w1, w2, w3, w4, w5, w6, _⟩ := h
  rw [Twcc.wire_eq p w6]
  generalize twccChunksBytes p.chunks ++ (twccDeltasBytes p.deltas ++ twccPad p.trueLen) = R
  unfold Twcc.pre20
  have e1 := get32_at p.header.bytes (be32 p.media ++ (be16 p.baseSeq ++ (be16 p.statusCount ++ (be24 p.refTime ++ ([byte p.fbCount] ++ R))))) p.sender 4 (by simp) w1
  have e2 := get32_at (p.header.bytes ++ be32 p.sender) (be16 p.baseSeq ++ (be16 p.statusCount ++ (be24 p.refTime ++ ([byte p.fbCount] ++ R)))) p.media 8 (by simp) w2
  have e3 := get16_at (p.header.bytes ++ be32 p.sender ++ be32 p.media) (be16 p.statusCount ++ (be24 p.refTime ++ ([byte p.fbCount] ++ R))) p.baseSeq 12 (by simp) w3
  have e4 := get16_at (p.header.bytes ++ be32 p.sender ++ be32 p.media ++ be16 p.baseSeq) (be24 p.refTime ++ ([byte p.fbCount] ++ R)) p.statusCount 14 (by simp) w4
  have e5 := get24_at (p.header.bytes ++ be32 p.sender ++ be32 p.media ++ be16 p.baseSeq ++ be16 p.statusCount) ([byte p.fbCount] ++ R) p.refTime 16 (by simp) w5
  have e6 := get8_at (p.header.bytes ++ be32 p.sender ++ be32 p.media ++ be16 p.baseSeq ++ be16 p.statusCount ++ be24 p.refTime) R (byte p.fbCount) 19 (by simp)
  simp only [List.append_assoc, List.cons_append, List.nil_append] at e1 e2 e3 e4 e5 e6 ⊢
  rw [byte_toNat, Nat.mod_eq_of_lt w6] at e6
  exact ⟨e1, e2, e3, e4, e5, e6⟩

theorem TwccChunk.WF_sv_len {c : TwccChunk} (h : c.WF) : ∀ t ss syms, c = .sv t ss syms → syms.length ≤ 14 := by
  intro t ss syms hc
  subst hc
  obtain ⟨_, hss⟩ := h
  rcases hss with ⟨_, h, _⟩ | ⟨_, h, _⟩ <;> omega

/-- the status chunk loop reads back the chunks that were written at `|pre|`, under the decoder's own clipping -/
theorem chunkLoop_enc' (cs : List TwccChunk) (hwf : ∀ c ∈ cs, c.WF) (count : Nat) (hc : count ≤ 65535)
    (total : Nat) (ht : total ≤ 65532) (post : Bytes) :
    ∀ (gas processed : Nat) (pre : Bytes), processed ≤ count → chunksNeeded count processed cs = true → cs.length < gas →
      pre.length + 2 * cs.length ≤ total →
      ∃ ds, twccChunkLoop gas (pre ++ (twccChunksBytes cs ++ post)) total count pre.length processed
          = (cs, ds, pre.length + 2 * cs.length, .ok) ∧ ds.map (·.type) = C13.announced count processed cs := by
  induction cs with
  | nil =>
    intro gas processed pre hp hcov hg htot
    simp [chunksNeeded] at hcov
    cases gas with
    | zero => simp at hg
    | succ g =>
      rw [twccChunkLoop, if_neg (by omega)]
      exact ⟨[], by simp, rfl⟩
  | cons c cs ih =>
    intro gas processed pre hp hcov hg htot
    simp only [chunksNeeded, Bool.and_eq_true, decide_eq_true_eq] at hcov
    obtain ⟨hrem, hcov'⟩ := hcov
    have hcw := hwf c (by simp)
    have hw := chunkWord_lt c hcw
    have hcd := C13.chunkDeltas_spec count processed c hc hp (TwccChunk.WF_sv_len hcw)
    have hb := chunkDeltas_bound count processed c hc hp (TwccChunk.WF_sv_len hcw)
    cases gas with
    | zero => simp at hg
    | succ g =>
      simp only [List.length_cons] at hg htot
      have hb' : pre ++ (twccChunksBytes (c :: cs) ++ post) = pre ++ (be16 (chunkWord c) ++ (twccChunksBytes cs ++ post)) := by
        simp [twccChunksBytes]
      have hmod : (pre.length + packetStatusChunkLength) % 65536 = pre.length + 2 := by simp only [packetStatusChunkLength]; omega
      rw [twccChunkLoop, if_pos (by omega), hmod, if_neg (by omega), hb']
      rw [u8At_of_lt (by simp; omega), slice_of_le (by omega) (by simp)]
      dsimp only
      have htd := take_drop_mid pre (be16 (chunkWord c)) (twccChunksBytes cs ++ post)
      simp only [be16_length] at htd
      rw [htd, be16_get8_at _ _ _ hw.1, TwccChunk.dec_word c hcw]
      dsimp only
      have hih := ih (fun x hx => hwf x (by simp [hx])) g (chunkDeltas count processed c).2 (pre ++ be16 (chunkWord c))
        hb.1 (by rw [hcd.2.1]; exact hcov') (by omega) (by simp; omega)
      obtain ⟨ds2, hloop, hty2⟩ := hih
      have hpos : pre.length + 2 = (pre ++ be16 (chunkWord c)).length := by simp
      rw [← List.append_assoc, hpos, hloop]
      refine ⟨(chunkDeltas count processed c).1 ++ ds2, ?_, ?_⟩
      · simp; omega
      · rw [List.map_append, hcd.1, hty2, hcd.2.1]; rfl

theorem Twcc.quant_of_whole (p : Twcc) (h : ∀ d ∈ p.deltas, d.WF) : p.quant = p := by
  obtain ⟨hdr, s, m, b, c, r, f, cs, ds⟩ := p
  simp only [Twcc.quant, Twcc.mk.injEq, true_and]
  simp only at h
  induction ds with
  | nil => rfl
  | cons d ds ih =>
    rw [List.map_cons, quant_of_WF d (h d (by simp)), ih (fun x hx => h x (by simp [hx]))]

theorem Twcc.decP_wire' (p : Twcc) (h : p.DecodedOK) : Twcc.decP p.wire = (p, .ok) := by
  have he := h.toEncOK
  have hs := Twcc.size_facts' p he
  have hl := Twcc.wire_length' p he
  obtain ⟨g1, g2, g3, g4, g5, g6⟩ := Twcc.wire_fields' p he
  obtain ⟨⟨⟨c1, c2, c3, c4, c5⟩, w1, w2, w3, w4, w5, w6, hch, hfit⟩, hcov, hty, hwhole⟩ := h
  have hdl := (twccDeltasBytes_length p.deltas hfit).1
  have htl : p.trueLen = 20 + 2 * p.chunks.length + (twccDeltasBytes p.deltas).length := by rw [hdl]; rfl
  have hhd : Header.dec p.wire = .ok p.header := Header.dec_bytes p.header _ (by omega) (by omega) (by omega)
  have htotal : (4 * ((p.header.length + 1) % 65536)) % 65536 = p.marshalSize := by rw [c3]; omega
  obtain ⟨ds0, hloop1, hty0⟩ := chunkLoop_enc' p.chunks hch p.statusCount (by omega) p.marshalSize (by omega)
    (twccDeltasBytes p.deltas ++ twccPad p.trueLen) (p.wire.length + 1) 0 p.pre20 (by omega) hcov
    (by rw [hl]; omega) (by rw [Twcc.pre20_length]; omega)
  have hloop2 := deltaLoop_enc p.deltas hfit p.marshalSize (by omega) (twccPad p.trueLen) ds0 (p.pre20 ++ twccChunksBytes p.chunks)
    (by rw [hty0, hty]) (by simp only [List.length_append, Twcc.pre20_length, twccChunksBytes_length]; omega)
  rw [List.append_assoc, ← Twcc.wire_eq p w6] at hloop2
  rw [← Twcc.wire_eq p w6] at hloop1
  simp only [List.length_append, Twcc.pre20_length, twccChunksBytes_length] at hloop1 hloop2
  have hq : p.quant = p := Twcc.quant_of_whole p hwhole
  unfold Twcc.decP
  rw [if_neg (by rw [hl]; simp only [headerLength, ssrcLength]; omega), hhd]
  dsimp only
  rw [htotal, if_neg (by simp only [headerLength, packetChunkOffset]; omega), if_neg (by omega),
    if_neg (by rw [c1, c2]; decide)]
  rw [u32At_of_le (by rw [hl]; simp only [headerLength]; omega), u32At_of_le (by rw [hl]; simp only [headerLength, ssrcLength]; omega),
    u16At_of_le (by rw [hl]; simp only [headerLength, baseSequenceNumberOffset]; omega),
    u16At_of_le (by rw [hl]; simp only [headerLength, packetStatusCountOffset]; omega),
    u24At_of_le (by rw [hl]; simp only [headerLength, referenceTimeOffset]; omega),
    u8At_of_lt (by rw [hl]; simp only [headerLength, fbPktCountOffset]; omega)]
  dsimp only
  simp only [headerLength, ssrcLength, baseSequenceNumberOffset, packetStatusCountOffset, referenceTimeOffset, fbPktCountOffset,
    packetChunkOffset, Nat.reduceAdd]
  rw [g1, g2, g3, g4, g5, g6, hloop1]
  dsimp only
  rw [hloop2]
  have : p.deltas.map RecvDelta.quant = p.deltas := by
    have := congrArg Twcc.deltas hq
    simpa [Twcc.quant] using this
  rw [this]

/-- **TWCC round trip on `DecodedOK`**: Marshal emits a frame headed by the packet's own header, and Unmarshal gives the
packet back exactly -/
theorem Twcc.reenc_of_DecodedOK (p : Twcc) (h : p.DecodedOK) :
    p.enc = .ok p.wire ∧ Framed2 p.wire p.header ∧ Twcc.dec p.wire = .ok p := by
  refine ⟨Twcc.enc_ok' p h.toEncOK, (Twcc.framed' p h.toEncOK).framed2, ?_⟩
  unfold Twcc.dec
  rw [Twcc.decP_wire' p h]
  rfl


/-! ### the image of the TWCC decoder -/

theorem rlChunkDec_WF {cb : Bytes} {c : TwccChunk} (h : rlChunkDec cb = .ok c) : c.WF := by
  unfold rlChunkDec at h
  split at h
  · cases h
  · obtain ⟨b0, h0, h⟩ := bind_eq_ok.mp h
    obtain ⟨b1, h1, h⟩ := bind_eq_ok.mp h
    simp at h
    subst h
    have n0 := u8At_lt h0
    have n1 := u8At_lt h1
    rw [getNBits_eq b0 1 2 n0 (by omega), getNBits_eq b0 3 5 n0 (by omega)]
    exact ⟨rfl, by omega, by omega⟩

theorem svChunkDec_WF {cb : Bytes} {c : TwccChunk} (h : svChunkDec cb = .ok c) : c.WF := by
  unfold svChunkDec at h
  split at h
  · cases h
  · obtain ⟨b0, h0, h⟩ := bind_eq_ok.mp h
    obtain ⟨b1, h1, h⟩ := bind_eq_ok.mp h
    have n0 := u8At_lt h0
    have n1 := u8At_lt h1
    dsimp only at h
    have hss : getNBitsFromByte b0 1 1 < 2 := by rw [getNBits_eq b0 1 1 n0 (by omega)]; omega
    split at h
    · rename_i hs
      simp at h
      subst h
      refine ⟨rfl, Or.inl ⟨hs, by simp, ?_⟩⟩
      intro s hsm
      rcases List.mem_append.mp hsm with hm | hm
      · obtain ⟨i, hi, he⟩ := List.mem_map.mp hm
        have hi' : i < 6 := List.mem_range.mp hi
        rw [← he, getNBits_eq b0 (2 + i) 1 n0 (by omega)]; omega
      · obtain ⟨i, hi, he⟩ := List.mem_map.mp hm
        have hi' : i < 8 := List.mem_range.mp hi
        rw [← he, getNBits_eq b1 i 1 n1 (by omega)]; omega
    · split at h
      · rename_i hs
        simp at h
        subst h
        refine ⟨rfl, Or.inr ⟨hs, by simp, ?_⟩⟩
        intro s hsm
        rcases List.mem_append.mp hsm with hm | hm
        · obtain ⟨i, hi, he⟩ := List.mem_map.mp hm
          have hi' : i < 3 := List.mem_range.mp hi
          rw [← he, getNBits_eq b0 (2 + i * 2) 2 n0 (by omega)]; omega
        · obtain ⟨i, hi, he⟩ := List.mem_map.mp hm
          have hi' : i < 4 := List.mem_range.mp hi
          rw [← he, getNBits_eq b1 (i * 2) 2 n1 (by omega)]; omega
      · rename_i hs0 hs1
        simp only [TypeTCCSymbolSizeOneBit, TypeTCCSymbolSizeTwoBit] at hs0 hs1
        omega

/-- the chunks the status loop returns are well-formed and all needed -/
theorem chunkLoop_image (gas : Nat) (b : Bytes) (total count pos processed : Nat) (hc : count ≤ 65535) (hp : processed ≤ count)
    (cs : List TwccChunk) (ds : List RecvDelta) (pos' : Nat)
    (h : twccChunkLoop gas b total count pos processed = (cs, ds, pos', .ok)) :
    (∀ c ∈ cs, c.WF) ∧ chunksNeeded count processed cs = true := by
  induction gas generalizing pos processed cs ds pos' with
  | zero => simp [twccChunkLoop] at h
  | succ g ih =>
    unfold twccChunkLoop at h
    split at h
    · rename_i hlt
      split at h
      · simp at h
      · split at h
        · rename_i b0 cb hb0 hcb
          dsimp only at h
          generalize hr : (if getNBitsFromByte b0 0 1 = TypeTCCRunLengthChunk then rlChunkDec cb else svChunkDec cb) = r at h
          cases r with
          | err => simp [Out.status] at h
          | panic => simp [Out.status] at h
          | diverge => simp [Out.status] at h
          | ok c =>
            dsimp only at h
            have hcw : c.WF := by
              split at hr
              · exact rlChunkDec_WF hr
              · exact svChunkDec_WF hr
            have hsv := TwccChunk.WF_sv_len hcw
            have hcd := C13.chunkDeltas_spec count processed c hc hp hsv
            have hb := chunkDeltas_bound count processed c hc hp hsv
            cases hrec : twccChunkLoop g b total count ((pos + packetStatusChunkLength) % 65536) (chunkDeltas count processed c).2 with
            | mk cs1 r1 =>
              obtain ⟨ds1, pos1, st1⟩ := r1
              rw [hrec] at h
              simp at h
              obtain ⟨hcs, hds, hps, hst⟩ := h
              subst hst
              have := ih _ (chunkDeltas count processed c).2 hb.1 cs1 ds1 pos1 hrec
              rw [← hcs]
              refine ⟨?_, ?_⟩
              · intro x hx
                rcases List.mem_cons.mp hx with hx | hx
                · rw [hx]; exact hcw
                · exact this.1 x hx
              · simp only [chunksNeeded, Bool.and_eq_true, decide_eq_true_eq]
                refine ⟨hlt, ?_⟩
                rw [← hcd.2.1]; exact this.2
        · simp at h
    · rename_i hge
      simp at h
      obtain ⟨h1, h2, h3⟩ := h
      subst h1
      simp [chunksNeeded]; omega

theorem int16_range (n : Nat) (h : n < 65536) : -32768 ≤ int16 n ∧ int16 n ≤ 32767 := by
  unfold int16; split <;> omega

theorem specDeltas_WF (ts : List Nat) (b : Bytes) (pos : Nat) : ∀ d ∈ C13.specDeltas ts b pos, d.WF := by
  induction ts generalizing pos with
  | nil => intro d hd; simp [C13.specDeltas] at hd
  | cons t ts ih =>
    intro d hd
    simp only [C13.specDeltas] at hd
    split at hd
    · rcases List.mem_cons.mp hd with hd | hd
      · subst hd
        have hlt := get8_lt b pos
        have ht : RecvDelta.ticks ⟨1, 250 * (get8 b pos : Int)⟩ = (get8 b pos : Int) := by
          simp only [RecvDelta.ticks]
          exact Int.mul_tdiv_cancel_left _ (by decide)
        exact ⟨Or.inl ⟨rfl, by rw [ht]; omega, by rw [ht]; omega⟩, by rw [ht]⟩
      · exact ih _ d hd
    · rcases List.mem_cons.mp hd with hd | hd
      · subst hd
        have hr := int16_range _ (get16_lt b pos)
        have ht : RecvDelta.ticks ⟨2, 250 * int16 (get16 b pos)⟩ = int16 (get16 b pos) := by
          simp only [RecvDelta.ticks]
          exact Int.mul_tdiv_cancel_left _ (by decide)
        exact ⟨Or.inr ⟨rfl, by rw [ht]; exact hr.1, by rw [ht]; exact hr.2⟩, by rw [ht]⟩
      · exact ih _ d hd

/-- **image of `TransportLayerCC.Unmarshal`**: fields within their widths, well-formed chunks that are all needed, deltas
of the announced size classes, in whole ticks within range. With a consistent header (`Twcc.Consistent`) that is `DecodedOK`. -/
theorem Twcc.dec_image {b : Bytes} {t : Twcc} (h : Twcc.dec b = .ok t) (hcons : t.Consistent) : t.DecodedOK := by
  obtain ⟨a1, a2, _, _⟩ := C13.accepted_consistent b t h
  have hwhole : ∀ d ∈ t.deltas, d.WF := by rw [a2]; exact specDeltas_WF _ _ _
  have hst := Status.toOut_eq_ok h
  obtain ⟨hs, hv⟩ := hst
  unfold Twcc.decP at hs hv
  by_cases hlen : b.length < headerLength + ssrcLength
  · rw [if_pos hlen] at hs; simp at hs
  · rw [if_neg hlen] at hs hv
    cases hh : Header.dec b with
    | ok hd =>
      simp only [hh] at hs hv
      split at hs
      · simp at hs
      · split at hs
        · simp at hs
        · split at hs
          · simp at hs
          · rename_i h1 h2 h3
            rw [if_neg h1, if_neg h2, if_neg h3] at hv
            rw [u32At_of_le (by lomega), u32At_of_le (by lomega), u16At_of_le (by lomega), u16At_of_le (by lomega),
              u24At_of_le (by lomega), u8At_of_lt (by lomega)] at hs hv
            dsimp only at hs hv
            have hcount := get16_lt b (headerLength + packetStatusCountOffset)
            cases hloop : twccChunkLoop (b.length + 1) b (4 * ((hd.length + 1) % 65536) % 65536) (get16 b (headerLength + packetStatusCountOffset))
                (headerLength + packetChunkOffset) 0 with
            | mk cs r =>
              obtain ⟨ds, pos, st⟩ := r
              rw [hloop] at hs hv
              dsimp only at hs hv
              cases st with
              | ok =>
                dsimp only at hs hv
                have hc := chunkLoop_image (b.length + 1) b _ _ _ 0 (by omega) (by omega) cs ds pos hloop
                cases hdl : twccDeltaLoop ds b (4 * ((hd.length + 1) % 65536) % 65536) pos with
                | mk ds' st' =>
                  rw [hdl] at hs hv
                  dsimp only at hs hv
                  subst hs
                  subst hv
                  exact ⟨⟨hcons, get32_lt _ _, get32_lt _ _, get16_lt _ _, get16_lt _ _, get24_lt _ _, get8_lt _ _, hc.1,
                    fun d hd => (hwhole d hd).1⟩, hc.2, a1, hwhole⟩
              | err => simp at hs
              | panic => simp at hs
              | diverge => simp at hs
    | err => simp [hh, Out.status] at hs
    | panic => simp [hh, Out.status] at hs
    | diverge => simp [hh, Out.status] at hs

/-- **TWCC: decode, then encode, then decode** — whenever the decoded header is consistent with the decoded content -/
theorem Twcc.reenc {f : Bytes} {v : Twcc} (h : Twcc.dec f = .ok v) (hc : v.Consistent) :
    ∃ f2, v.enc = .ok f2 ∧ Framed2 f2 v.header ∧ Twcc.dec f2 = .ok v := by
  obtain ⟨h1, h2, h3⟩ := Twcc.reenc_of_DecodedOK v (Twcc.dec_image h hc)
  exact ⟨_, h1, h2, h3⟩


/-! ### non-vacuity: concrete frames and values that meet the hypotheses of the theorems above -/

/-- REMB: an UNNORMALISED wire pair (exponent 10, mantissa 3) is accepted; the decoded value is unsaturated, so `Remb.reenc`
applies to it (Marshal sends the normalised pair (3072, 0), which decodes to the same float 3072.0) -/
example : Remb.dec [143, 206, 0, 5, 0, 0, 0, 1, 0, 0, 0, 0, 82, 69, 77, 66, 1, 40, 0, 3, 0, 0, 0, 7] = .ok ⟨1, 0x45400000, [7]⟩ ∧
    (Remb.mk 1 0x45400000 [7]).Unsaturated ∧ rembDecBits 10 3 = rembDecBits 0 3072 := by decide
/-- REMB: mantissa 0 with exponent 57 is still covered (2^80 ≤ 0x3FFFF·2^63), exponent 58 is not -/
example : (Remb.mk 1 ((57 + 150) * 8388608) []).Unsaturated ∧ ¬ (Remb.mk 1 ((58 + 150) * 8388608) []).Unsaturated := by decide

/-- CCFB: num_reports = 2 is read as three metric blocks; the decoded block is `Decoded` -/
example : CcfbBlock.dec [0, 0, 0, 3, 255, 253, 0, 2, 0xA0, 5, 0, 0, 0x80, 0, 9, 9] =
      .ok ⟨3, 65533, [⟨true, 1, 5⟩, ⟨false, 0, 0⟩, ⟨true, 0, 0⟩]⟩ ∧
    (CcfbBlock.mk 3 65533 [⟨true, 1, 5⟩, ⟨false, 0, 0⟩, ⟨true, 0, 0⟩]).metrics.length ≠ 1 := by decide

/-- XR: a Loss RLE block with reserved bits set (0xF5) and a block length that runs past the packet is accepted; the decoded
block is well-formed, Marshal clears the reserved bits and recomputes the length -/
example : xrDecBlock [1, 0xF5, 0, 9, 0, 0, 0, 2, 0, 1, 0, 2, 0x80, 1, 0x40, 2] =
      .ok ({ kind := 1, bt := 1, ts := 0xF5, bl := 9, omits := [5], vals := [2, 1, 2], elems := [[0x8001], [0x4002]] }, []) ∧
    XRBlock.setup { kind := 1, bt := 1, ts := 0xF5, bl := 9, omits := [5], vals := [2, 1, 2], elems := [[0x8001], [0x4002]] } =
      { kind := 1, bt := 1, ts := 5, bl := 3, omits := [5], vals := [2, 1, 2], elems := [[0x8001], [0x4002]] } := by decide
example : C15.BlockWF { kind := 1, bt := 1, ts := 0xF5, bl := 9, omits := [5], vals := [2, 1, 2], elems := [[0x8001], [0x4002]] } :=
  (xrDecBlock_image (buf := [1, 0xF5, 0, 9, 0, 0, 0, 2, 0, 1, 0, 2, 0x80, 1, 0x40, 2]) (rest := []) (by decide) (by decide) (by decide)).1

/-- TWCC: a run length (5) that overshoots the status count (3): in the decoder's image, `DecodedOK`, but not `Twcc.WFq` -/
def twccClipped : Twcc :=
  { header := ⟨true, 15, 205, 6⟩, sender := 1, media := 2, baseSeq := 3, statusCount := 3, refTime := 0x000405, fbCount := 6,
    chunks := [.rl 0 1 5], deltas := [⟨1, 250⟩, ⟨1, 500⟩, ⟨1, 750⟩] }
example : Twcc.dec [175, 205, 0, 6, 0, 0, 0, 1, 0, 0, 0, 2, 0, 3, 0, 3, 0, 4, 5, 6, 0x20, 5, 1, 2, 3, 77, 0, 3] = .ok twccClipped := by
  decide
example : twccClipped.DecodedOK ∧ ¬ twccClipped.WFq :=
  ⟨⟨⟨by decide, by decide, by decide, by decide, by decide, by decide, by decide, by decide, by decide⟩, by decide, by decide, by decide⟩,
   by decide⟩
/-- TWCC: a two-bit status vector whose unused symbols are not zero (count 2, symbols 1 2 | 1 0 0 0 0) -/
def twccUnused : Twcc :=
  { header := ⟨true, 15, 205, 6⟩, sender := 1, media := 2, baseSeq := 3, statusCount := 2, fbCount := 6,
    chunks := [.sv 1 1 [1, 2, 1, 0, 0, 0, 0]], deltas := [⟨1, 250⟩, ⟨2, -250⟩, ⟨1, 0⟩] }
example : twccUnused.DecodedOK ∧ ¬ twccUnused.WFq :=
  ⟨⟨⟨by decide, by decide, by decide, by decide, by decide, by decide, by decide, by decide, by decide⟩, by decide, by decide, by decide⟩,
   by decide⟩

end Rtcp
