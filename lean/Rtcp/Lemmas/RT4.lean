/-
  C02 helper lemmas, part 4: NACK, SLI, FIR round trips.
-/
import Rtcp.Lemmas.RT3
namespace Rtcp
open Gen Out
set_option linter.unusedSimpArgs false
set_option linter.unusedVariables false

theorem encNacks_length (l : List NackPair) : (encNacks l).length = l.length * 4 := by
  induction l with
  | nil => rfl
  | cons x xs ih => simp [encNacks] at ih ⊢; omega

theorem decNacks_bytes (l : List NackPair) (pre post : Bytes) (gas : Nat) (hg : l.length < gas) (h : ∀ n ∈ l, n.WF) :
    decNacks gas (pre ++ (encNacks l ++ post)) pre.length (pre.length + l.length * 4) = .ok l := by
  induction l generalizing pre gas with
  | nil =>
    cases gas with
    | zero => omega
    | succ g => simp [decNacks]
  | cons x xs ih =>
    cases gas with
    | zero => omega
    | succ g =>
      rw [decNacks]
      rw [if_pos (by slen)]
      have hb : encNacks (x :: xs) ++ post = be16 x.packetID ++ (be16 x.lost ++ (encNacks xs ++ post)) := by simp [encNacks]
      have hx := h x (by simp)
      simp only [NackPair.WF, u16] at hx
      rw [hb, u16At_of_le (by first | (simp [encNacks_length]; done) | (simp [encNacks_length]; omega)), u16At_of_le (by first | (simp [encNacks_length]; done) | (simp [encNacks_length]; omega))]
      rw [bind_ok, bind_ok]
      rw [get16_at pre _ x.packetID _ rfl hx.1]
      have hre2 : pre ++ (be16 x.packetID ++ (be16 x.lost ++ (encNacks xs ++ post))) = (pre ++ be16 x.packetID) ++ (be16 x.lost ++ (encNacks xs ++ post)) := by simp
      rw [hre2, get16_at (pre ++ be16 x.packetID) _ x.lost _ (by simp) hx.2]
      have hre3 : (pre ++ be16 x.packetID) ++ (be16 x.lost ++ (encNacks xs ++ post)) = (pre ++ be16 x.packetID ++ be16 x.lost) ++ (encNacks xs ++ post) := by simp
      have hl : pre.length + 4 = (pre ++ be16 x.packetID ++ be16 x.lost).length := by simp
      have hstop : pre.length + (x :: xs).length * 4 = (pre ++ be16 x.packetID ++ be16 x.lost).length + xs.length * 4 := by simp; omega
      rw [hre3, hl, hstop, ih _ g (by simp at hg; omega) (fun n hn => h n (by simp [hn]))]
      simp

theorem TransportLayerNack.roundtrip (p : TransportLayerNack) (h : p.WF) : (p.enc >>= TransportLayerNack.dec) = .ok p := by
  obtain ⟨s, m, ns⟩ := p
  obtain ⟨h1, h2, h3, h4, h5⟩ := h
  simp only [u32] at h1 h2 h3 h4
  have hsz : (TransportLayerNack.mk s m ns).marshalSize = 12 + ns.length * 4 := by simp [TransportLayerNack.marshalSize]
  have hht : (TransportLayerNack.mk s m ns).header.type = TypeTransportSpecificFeedback := rfl
  have hhc : (TransportLayerNack.mk s m ns).header.count = FormatTLN := rfl
  have hhl : (TransportLayerNack.mk s m ns).header.length = 2 + ns.length := by simp [TransportLayerNack.header, hsz]; omega
  unfold TransportLayerNack.enc
  rw [if_neg (by slen), Header.enc_ok _ (by rw [hhc]; decide), bind_ok]
  simp only [pure_eq, bind_ok, List.append_assoc]
  unfold TransportLayerNack.dec
  rw [if_neg (by slen), Header.dec_bytes _ _ (by rw [hhc]; decide) (by rw [hht]; decide) (by rw [hhl]; omega), bind_ok]
  simp only [hhl]
  have hl4 : 4 * (2 + ns.length) = 8 + ns.length * 4 := by omega
  rw [hl4]
  rw [if_neg (by first | (simp [encNacks_length]; done) | (simp [encNacks_length]; omega)), if_neg (by simp [hht, hhc]), if_neg (by slen)]
  rw [u32At_of_le (by slen), u32At_of_le (by slen), bind_ok, bind_ok]
  have e1 := get32_at (TransportLayerNack.mk s m ns).header.bytes (be32 m ++ encNacks ns) s 4 (by simp) h1
  have e2 := get32_at ((TransportLayerNack.mk s m ns).header.bytes ++ be32 s) (encNacks ns) m 8 (by simp) h2
  simp only [List.append_assoc] at e2
  simp only [headerLength, ssrcLength]
  rw [e1, e2]
  have hloop := decNacks_bytes ns ((TransportLayerNack.mk s m ns).header.bytes ++ be32 s ++ be32 m) []
      (((TransportLayerNack.mk s m ns).header.bytes ++ (be32 s ++ (be32 m ++ encNacks ns))).length + 1) (by first | (simp [encNacks_length]; done) | (simp [encNacks_length]; omega)) h5
  simp only [List.append_nil, List.append_assoc] at hloop
  have hpl : ((TransportLayerNack.mk s m ns).header.bytes ++ (be32 s ++ be32 m)).length = 12 := by simp
  rw [hpl] at hloop
  simp only [nackOffset]
  have : 4 + (8 + ns.length * 4) = 12 + ns.length * 4 := by omega
  rw [this, hloop]
  rfl

/-! ### SLI -/

theorem encSLIs_length (l : List SLIEntry) : (encSLIs l).length = l.length * 4 := by
  induction l with
  | nil => rfl
  | cons x xs ih => simp [encSLIs] at ih ⊢; omega

theorem SLIEntry.word_lt (e : SLIEntry) : e.word < 4294967296 := by simp [SLIEntry.word]; omega

theorem SLIEntry.ofWord_word (e : SLIEntry) (h : e.WF) : SLIEntry.ofWord e.word = e := by
  obtain ⟨a, b, c⟩ := e
  obtain ⟨h1, h2, h3⟩ := h
  simp [SLIEntry.ofWord, SLIEntry.word] at *
  omega

theorem decSLIs_bytes (l : List SLIEntry) (pre post : Bytes) (gas : Nat) (hg : l.length < gas) (h : ∀ n ∈ l, n.WF) :
    decSLIs gas (pre ++ (encSLIs l ++ post)) pre.length (pre.length + l.length * 4) = .ok l := by
  induction l generalizing pre gas with
  | nil =>
    cases gas with
    | zero => omega
    | succ g => simp [decSLIs]
  | cons x xs ih =>
    cases gas with
    | zero => omega
    | succ g =>
      rw [decSLIs]
      rw [if_pos (by slen)]
      have hb : encSLIs (x :: xs) ++ post = be32 x.word ++ (encSLIs xs ++ post) := by simp [encSLIs]
      rw [hb, u32At_of_le (by first | (simp [encSLIs_length]; done) | (simp [encSLIs_length]; omega)), bind_ok]
      rw [get32_at pre _ x.word _ rfl x.word_lt, SLIEntry.ofWord_word x (h x (by simp))]
      have hre3 : pre ++ (be32 x.word ++ (encSLIs xs ++ post)) = (pre ++ be32 x.word) ++ (encSLIs xs ++ post) := by simp
      have hl : pre.length + 4 = (pre ++ be32 x.word).length := by simp
      have hstop : pre.length + (x :: xs).length * 4 = (pre ++ be32 x.word).length + xs.length * 4 := by simp; omega
      rw [hre3, hl, hstop, ih _ g (by simp at hg; omega) (fun n hn => h n (by simp [hn]))]
      simp

/-- the type's own decoder (which demands packet type 205) reads back what Marshal wrote -/
theorem SliceLossIndication.roundtrip (p : SliceLossIndication) (h : p.WF) : (p.enc >>= SliceLossIndication.dec) = .ok p := by
  obtain ⟨s, m, ns⟩ := p
  obtain ⟨h1, h2, h4, h5⟩ := h
  simp only [u32] at h1 h2 h4
  have hsz : (SliceLossIndication.mk s m ns).marshalSize = 12 + ns.length * 4 := by simp [SliceLossIndication.marshalSize]
  have hht : (SliceLossIndication.mk s m ns).header.type = TypeTransportSpecificFeedback := rfl
  have hhc : (SliceLossIndication.mk s m ns).header.count = FormatSLI := rfl
  have hhl : (SliceLossIndication.mk s m ns).header.length = 2 + ns.length := by simp [SliceLossIndication.header, hsz]; omega
  unfold SliceLossIndication.enc
  rw [if_neg (by slen), Header.enc_ok _ (by rw [hhc]; decide), bind_ok]
  simp only [pure_eq, bind_ok, List.append_assoc]
  unfold SliceLossIndication.dec
  rw [if_neg (by slen), Header.dec_bytes _ _ (by rw [hhc]; decide) (by rw [hht]; decide) (by rw [hhl]; omega), bind_ok]
  simp only [hhl]
  have hl4 : 4 * (2 + ns.length) = 8 + ns.length * 4 := by omega
  rw [hl4]
  rw [if_neg (by first | (simp [encSLIs_length]; done) | (simp [encSLIs_length]; omega)), if_neg (by simp [hht, hhc])]
  rw [u32At_of_le (by slen), u32At_of_le (by slen), bind_ok, bind_ok]
  have e1 := get32_at (SliceLossIndication.mk s m ns).header.bytes (be32 m ++ encSLIs ns) s 4 (by simp) h1
  have e2 := get32_at ((SliceLossIndication.mk s m ns).header.bytes ++ be32 s) (encSLIs ns) m 8 (by simp) h2
  simp only [List.append_assoc] at e2
  simp only [headerLength, ssrcLength]
  rw [e1, e2]
  have hloop := decSLIs_bytes ns ((SliceLossIndication.mk s m ns).header.bytes ++ be32 s ++ be32 m) []
      (((SliceLossIndication.mk s m ns).header.bytes ++ (be32 s ++ (be32 m ++ encSLIs ns))).length + 1) (by first | (simp [encSLIs_length]; done) | (simp [encSLIs_length]; omega)) h5
  simp only [List.append_nil, List.append_assoc] at hloop
  have hpl : ((SliceLossIndication.mk s m ns).header.bytes ++ (be32 s ++ be32 m)).length = 12 := by simp
  rw [hpl] at hloop
  simp only [sliOffset]
  have : 4 + (8 + ns.length * 4) = 12 + ns.length * 4 := by omega
  rw [this, hloop]
  rfl

/-! ### FIR -/

theorem encFIRs_length (l : List FIREntry) : (encFIRs l).length = l.length * 8 := by
  induction l with
  | nil => rfl
  | cons x xs ih => simp [encFIRs] at ih ⊢; omega

theorem decFIRs_bytes (l : List FIREntry) (pre post : Bytes) (gas : Nat) (hg : l.length < gas) (h : ∀ n ∈ l, n.WF) :
    decFIRs gas (pre ++ (encFIRs l ++ post)) pre.length (pre.length + l.length * 8) = .ok l := by
  induction l generalizing pre gas with
  | nil =>
    cases gas with
    | zero => omega
    | succ g => simp [decFIRs]
  | cons x xs ih =>
    cases gas with
    | zero => omega
    | succ g =>
      rw [decFIRs]
      rw [if_pos (by slen)]
      have hx := h x (by simp)
      simp only [FIREntry.WF, u32, u8] at hx
      have hb : encFIRs (x :: xs) ++ post = be32 x.ssrc ++ (byte x.seq :: ([0, 0, 0] ++ (encFIRs xs ++ post))) := by simp [encFIRs]
      rw [hb, u32At_of_le (by first | (simp [encFIRs_length]; done) | (simp [encFIRs_length]; omega)), u8At_of_lt (by first | (simp [encFIRs_length]; done) | (simp [encFIRs_length]; omega)), bind_ok, bind_ok]
      rw [get32_at pre _ x.ssrc _ rfl hx.1]
      have hre2 : pre ++ (be32 x.ssrc ++ (byte x.seq :: ([0, 0, 0] ++ (encFIRs xs ++ post)))) = (pre ++ be32 x.ssrc) ++ (byte x.seq :: ([0, 0, 0] ++ (encFIRs xs ++ post))) := by simp
      rw [hre2, get8_at (pre ++ be32 x.ssrc) _ (byte x.seq) _ (by simp)]
      simp only [byte_toNat]
      have hsq : x.seq % 256 = x.seq := by omega
      rw [hsq]
      have hre3 : (pre ++ be32 x.ssrc) ++ (byte x.seq :: ([0, 0, 0] ++ (encFIRs xs ++ post))) = (pre ++ be32 x.ssrc ++ [byte x.seq, 0, 0, 0]) ++ (encFIRs xs ++ post) := by simp
      have hl : pre.length + 8 = (pre ++ be32 x.ssrc ++ [byte x.seq, 0, 0, 0]).length := by simp
      have hstop : pre.length + (x :: xs).length * 8 = (pre ++ be32 x.ssrc ++ [byte x.seq, 0, 0, 0]).length + xs.length * 8 := by simp; omega
      rw [hre3, hl, hstop, ih _ g (by simp at hg; omega) (fun n hn => h n (by simp [hn]))]
      simp

theorem FullIntraRequest.roundtrip (p : FullIntraRequest) (h : p.WF) : (p.enc >>= FullIntraRequest.dec) = .ok p := by
  obtain ⟨s, m, ns⟩ := p
  obtain ⟨h1, h2, h3, h4, h5⟩ := h
  simp only [u32] at h1 h2 h3 h4
  have hsz : (FullIntraRequest.mk s m ns).marshalSize = 12 + ns.length * 8 := by simp [FullIntraRequest.marshalSize]
  have hht : (FullIntraRequest.mk s m ns).header.type = TypePayloadSpecificFeedback := rfl
  have hhc : (FullIntraRequest.mk s m ns).header.count = FormatFIR := rfl
  have hhl : (FullIntraRequest.mk s m ns).header.length = 2 + ns.length * 2 := by simp [FullIntraRequest.header, hsz]; omega
  unfold FullIntraRequest.enc
  rw [Header.enc_ok _ (by rw [hhc]; decide), bind_ok]
  simp only [pure_eq, bind_ok, List.append_assoc]
  unfold FullIntraRequest.dec
  rw [if_neg (by slen), Header.dec_bytes _ _ (by rw [hhc]; decide) (by rw [hht]; decide) (by rw [hhl]; omega), bind_ok]
  simp only [hhl]
  have hl4 : 4 * (2 + ns.length * 2) = 8 + ns.length * 8 := by omega
  rw [hl4]
  rw [if_neg (by first | (simp [encFIRs_length]; done) | (simp [encFIRs_length]; omega)), if_neg (by simp [hht, hhc]), if_neg (by slen)]
  rw [u32At_of_le (by slen), u32At_of_le (by slen), bind_ok, bind_ok]
  have e1 := get32_at (FullIntraRequest.mk s m ns).header.bytes (be32 m ++ encFIRs ns) s 4 (by simp) h1
  have e2 := get32_at ((FullIntraRequest.mk s m ns).header.bytes ++ be32 s) (encFIRs ns) m 8 (by simp) h2
  simp only [List.append_assoc] at e2
  simp only [headerLength, ssrcLength]
  rw [e1, e2]
  have hloop := decFIRs_bytes ns ((FullIntraRequest.mk s m ns).header.bytes ++ be32 s ++ be32 m) []
      (((FullIntraRequest.mk s m ns).header.bytes ++ (be32 s ++ (be32 m ++ encFIRs ns))).length + 1) (by first | (simp [encFIRs_length]; done) | (simp [encFIRs_length]; omega)) h5
  simp only [List.append_nil, List.append_assoc] at hloop
  have hpl : ((FullIntraRequest.mk s m ns).header.bytes ++ (be32 s ++ be32 m)).length = 12 := by simp
  rw [hpl] at hloop
  simp only [firOffset]
  have : 4 + (8 + ns.length * 8) = 12 + ns.length * 8 := by omega
  rw [this, hloop]
  rfl

end Rtcp
