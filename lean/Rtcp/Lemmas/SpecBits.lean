/-
  Rendering lemmas for the declarative wire spec (Spec/Wire.lean): byte-aligned fields render as the big-endian
  octets of each field, one after the other.
-/
import Rtcp.Spec.Wire
import Rtcp.Lemmas.RT5
namespace Rtcp.Spec
open Rtcp
set_option linter.unusedSimpArgs false
set_option linter.unusedVariables false

theorem beBytes_length (n x : Nat) : (beBytes n x).length = n := by
  induction n with
  | zero => rfl
  | succ n ih => simp [beBytes, ih]

theorem pow256_pos (n : Nat) : 0 < 256 ^ n := Nat.pow_pos (by decide)

/-- the high part and the low part of a number render side by side -/
theorem beBytes_append (n m a b : Nat) (hb : b < 256 ^ m) :
    beBytes (n + m) (a * 256 ^ m + b) = beBytes n a ++ beBytes m b := by
  induction n with
  | zero =>
    simp only [Nat.zero_add, beBytes, List.nil_append]
    -- beBytes m (a·256^m + b) = beBytes m b : octet k only sees the value mod 256^(k+1)… prove by a general lemma
    have gen : ∀ (k : Nat) (c : Nat), k ≤ m → beBytes k (c * 256 ^ m + b) = beBytes k b := by
      intro k
      induction k with
      | zero => intro _ _; rfl
      | succ k ihk =>
        intro c hk
        simp only [beBytes]
        rw [ihk c (by omega)]
        congr 1
        apply UInt8.toNat_inj.mp
        simp only [byte_toNat]
        obtain ⟨d, hd⟩ : ∃ d, m = k + 1 + d := ⟨m - (k + 1), by omega⟩
        have hpow : c * 256 ^ m = (c * 256 ^ d * 256) * 256 ^ k := by
          rw [hd]
          simp only [Nat.pow_add, Nat.pow_one, Nat.mul_assoc, Nat.mul_comm, Nat.mul_left_comm]
        rw [hpow, Nat.add_comm, Nat.add_mul_div_right _ _ (pow256_pos k), Nat.add_mul_mod_self_right]
    exact gen m a (Nat.le_refl m)
  | succ n ih =>
    have e : n + 1 + m = (n + m) + 1 := by omega
    rw [e]
    simp only [beBytes, List.cons_append]
    rw [ih]
    congr 1
    apply UInt8.toNat_inj.mp
    simp only [byte_toNat]
    congr 1
    rw [Nat.pow_add, Nat.mul_comm (256 ^ n), ← Nat.div_div_eq_div_mul]
    congr 1
    rw [Nat.mul_comm a, Nat.mul_add_div (pow256_pos m), Nat.div_eq_of_lt hb, Nat.add_zero]

theorem beBytes1 (x : Nat) : beBytes 1 x = [byte x] := by simp [beBytes]
theorem beBytes2 (x : Nat) : beBytes 2 x = be16 x := by simp [beBytes, be16]
theorem beBytes3 (x : Nat) : beBytes 3 x = be24 x := by simp [beBytes, be24]
theorem beBytes4 (x : Nat) : beBytes 4 x = be32 x := by simp [beBytes, be32]
theorem beBytes8 (x : Nat) : beBytes 8 x = be64 x := by
  have hb : ∀ a b : Nat, a = b → byte a = byte b := fun _ _ h => by rw [h]
  simp only [beBytes, be64, be32, List.cons_append, List.nil_append]
  have p7 : (256 : Nat) ^ 7 = 72057594037927936 := by decide
  have p6 : (256 : Nat) ^ 6 = 281474976710656 := by decide
  have p5 : (256 : Nat) ^ 5 = 1099511627776 := by decide
  have p4 : (256 : Nat) ^ 4 = 4294967296 := by decide
  have p3 : (256 : Nat) ^ 3 = 16777216 := by decide
  have p2 : (256 : Nat) ^ 2 = 65536 := by decide
  rw [p7, p6, p5, p4, p3, p2]
  simp only [Nat.pow_one, Nat.pow_zero, Nat.div_one]
  rw [hb (x / 72057594037927936) (x / 4294967296 / 16777216) (by omega),
      hb (x / 281474976710656) (x / 4294967296 / 65536) (by omega),
      hb (x / 1099511627776) (x / 4294967296 / 256) (by omega)]

end Rtcp.Spec

namespace Rtcp.Spec
open Rtcp
set_option linter.unusedSimpArgs false
set_option linter.unusedVariables false

/-- rendering of byte-aligned fields, field by field -/
def renderAligned (fs : List (Nat × Nat)) : Bytes := fs.flatMap fun f => beBytes (f.1 / 8) f.2

theorem groupVal_lt (fs : List (Nat × Nat)) (h : ∀ f ∈ fs, f.2 < 2 ^ f.1) : groupVal fs < 2 ^ totalBits fs := by
  induction fs with
  | nil => simp [groupVal, totalBits]
  | cons f fs ih =>
    obtain ⟨w, v⟩ := f
    have hv : v < 2 ^ w := h (w, v) (by simp)
    have hr := ih (fun g hg => h g (by simp [hg]))
    simp only [groupVal, totalBits, List.map_cons, List.sum_cons] at hr ⊢
    rw [Nat.pow_add]
    have : v * 2 ^ (fs.map (·.1)).sum + groupVal fs < (v + 1) * 2 ^ (fs.map (·.1)).sum := by
      rw [Nat.add_mul, Nat.one_mul]; omega
    exact Nat.lt_of_lt_of_le this (Nat.mul_le_mul_right _ hv)

theorem totalBits_aligned (fs : List (Nat × Nat)) (h : ∀ f ∈ fs, f.1 % 8 = 0) : totalBits fs % 8 = 0 := by
  induction fs with
  | nil => rfl
  | cons f fs ih =>
    have h1 := h f (by simp)
    have h2 := ih (fun g hg => h g (by simp [hg]))
    simp only [totalBits, List.map_cons, List.sum_cons] at h2 ⊢
    omega

theorem two_pow_8 (b : Nat) : 2 ^ (8 * b) = 256 ^ b := by
  rw [Nat.pow_mul]

/-- **byte-aligned bit fields render as the big-endian octets of each field in order** -/
theorem bits_aligned (fs : List (Nat × Nat)) (h : ∀ f ∈ fs, f.1 % 8 = 0 ∧ f.2 < 2 ^ f.1) :
    El.render (.bits fs) = renderAligned fs := by
  induction fs with
  | nil => rfl
  | cons f fs ih =>
    obtain ⟨w, v⟩ := f
    have hw := (h (w, v) (by simp)).1
    have hrest : ∀ g ∈ fs, g.1 % 8 = 0 ∧ g.2 < 2 ^ g.1 := fun g hg => h g (by simp [hg])
    have hal := totalBits_aligned fs (fun g hg => (hrest g hg).1)
    have hgv := groupVal_lt fs (fun g hg => (hrest g hg).2)
    have ih' := ih hrest
    simp only [El.render] at ih' ⊢
    simp only [renderAligned, List.flatMap_cons] at ih' ⊢
    simp only [groupVal, totalBits, List.map_cons, List.sum_cons] at hgv hal ih' ⊢
    obtain ⟨a, ha⟩ : ∃ a, w = 8 * a := ⟨w / 8, by omega⟩
    obtain ⟨b, hb⟩ : ∃ b, (fs.map (·.1)).sum = 8 * b := ⟨(fs.map (·.1)).sum / 8, by omega⟩
    rw [hb] at hgv ih' ⊢
    rw [ha]
    have e1 : (8 * a + 8 * b) / 8 = a + b := by omega
    have e2 : 8 * a / 8 = a := by omega
    have e3 : 8 * b / 8 = b := by omega
    rw [e1, e2, two_pow_8]
    rw [e3] at ih'
    rw [two_pow_8] at hgv
    rw [beBytes_append a b v _ hgv, ih']

theorem header_render (p : Bool) (c t l : Nat) (hc : c < 32) (ht : t < 256) (hl : l < 65536) :
    (header p c t l).render = (Header.mk p c t l).bytes := by
  simp only [header, El.render, totalBits, groupVal, List.map_cons, List.map_nil, List.sum_cons, List.sum_nil, Header.bytes,
    beBytes, be16, List.cons_append, List.nil_append]
  have hb : ∀ a b : Nat, a % 256 = b % 256 → byte a = byte b := by
    intro a b h; apply UInt8.toNat_inj.mp; simpa using h
  have e8 : (32 : Nat) / 8 = 4 := rfl
  simp only [Nat.add_zero, Nat.zero_add]
  show beBytes ((2 + (1 + (5 + (8 + 16)))) / 8) _ = _
  simp only [beBytes, List.cons.injEq, and_true]
  cases p <;> simp <;> refine ⟨hb _ _ (by omega), hb _ _ (by omega), hb _ _ (by omega), hb _ _ (by omega)⟩

end Rtcp.Spec
