/-
  C02 (list level, all packet kinds) — `rtcp.Unmarshal(rtcp.Marshal(list))` returns the list, in order, with the same
  concrete Go types, up to the documented quantisations, and re-marshalling the decoded list reproduces the octets.

  Extends `C02.rt_datagram` / `C02.rebytes` (Proofs/C02.lean: SR, RR, SDES, BYE, APP, NACK, RRR, PLI, FIR) to
  REMB, TWCC, CCFB, XR and RawPacket, using the single-packet results of Proofs/Remb.lean, Twcc.lean, Ccfb.lean,
  C15.lean + XRWire.lean and the `Framed2` machinery of Lemmas/Image.lean. As a by-product SR, RR and SDES lose the
  `marshalSize ≤ 262140` side condition of `C02.DWF`: frames with a length field of 0xFFFF (262144 octets) are covered.

  `quantAll` — the documented quantisations, and nothing else:
      RR    profile extensions zero-padded to 32 bits            (`ReceiverReport.quant`)
      REMB  bitrate rounded down to 18 significant bits          (`Remb.quant`)
      TWCC  receive deltas rounded toward zero to 250 µs ticks   (`Twcc.quant`)
      XR    the packet after Marshal: `ExtendedReport.Marshal` fills in block type, type-specific octet and block
            length of every report block (`XR.marshalled`, documented behaviour of the library; = `normalise`)
      every other kind: identity.

  `DWFAll` — the domain:
      SR, RR, SDES, BYE, APP, NACK, RRR, PLI, FIR   `WF` of Model/WF.lean (no further size bound)
      REMB   `Remb.WF` and prescribed mantissa ≠ 0 (bitrate ≥ 1; a zero mantissa is KF-REMB-MANT0)
      TWCC   `Twcc.WFq`
      CCFB   `Ccfb.WF` and no report block with exactly one metric block (KF-CCFB-ONE-METRIC: such a packet does NOT
             survive Marshal/Unmarshal in the library, `C02.KF_ccfb_one_metric_general`)
      XR     32-bit sender, every block `C15.BlockWF`, `marshalSize ≤ 262144` (`XRWF`)
      RAW    the octets are one frame (parse as a version-2 header `hd`, are `hd.length + 1` words long) whose
             (packet type, count) pair is not registered in the dispatch `switch` (`RawWF`, decidable)

  NOT in `DWFAll`: SliceLossIndication. The library marshals SLI with packet type 205 while the dispatcher sends
  FMT 2 to the SLI decoder only under packet type 206 (recorded deviation KF-SLI-PT): a marshalled SLI comes back from
  `rtcp.Unmarshal` as a RawPacket, so the list statement is false for it. The own-decoder round trip is
  `C02.sli_roundtrip_own`; the decode-side fact is `C09.sli_never_returned` (Proofs/C09b.lean).

  Headline theorems: `frame_of_DWFAll`, `rt_datagram_all`, `rebytes_all`, `rt_datagram_all_full`,
  `quantAll_DWFAll`, `quantAll_idem`, `quantAll_kind`.
-/
import Rtcp.Proofs.C02
import Rtcp.Proofs.Remb
import Rtcp.Proofs.Ccfb
import Rtcp.Proofs.Twcc
import Rtcp.Proofs.XRWire
import Rtcp.Proofs.C09b
import Rtcp.Proofs.C18
namespace Rtcp.C02
open Rtcp Gen Out
set_option linter.unusedSimpArgs false
set_option linter.unusedVariables false

/-! ### quantisation and domain -/

/-- the documented quantisations, for every packet kind -/
def quantAll : Packet → Packet
  | .rr v => .rr v.quant
  | .remb v => .remb v.quant
  | .twcc v => .twcc v.quant
  | .xr v => .xr v.marshalled
  | p => p

/-- a raw packet that `rtcp.Unmarshal` returns as a RawPacket again: one frame with an unregistered (type, count) pair -/
def RawWF (b : Bytes) : Prop :=
  Header.dec b = .ok (rawHeader b) ∧ b.length = ((rawHeader b).length + 1) * 4 ∧
    dispatch (rawHeader b).type (rawHeader b).count = .raw
instance (b : Bytes) : Decidable (RawWF b) := by unfold RawWF; infer_instance

/-- the hypotheses of `C15.xr_roundtrip` / `C05.xr_framed` -/
def XRWF (x : XR) : Prop := x.sender < 4294967296 ∧ (∀ b ∈ x.blocks, C15.BlockWF b) ∧ x.marshalSize ≤ 262144

/-- well-formed packets for which the datagram round trip is proved: every kind but SLI -/
inductive DWFAll : Packet → Prop
  | sr (v : SenderReport) (h : v.WF) : DWFAll (.sr v)
  | rr (v : ReceiverReport) (h : v.WF) : DWFAll (.rr v)
  | sdes (v : SourceDescription) (h : v.WF) : DWFAll (.sdes v)
  | bye (v : Goodbye) (h : v.WF) : DWFAll (.bye v)
  | app (v : ApplicationDefined) (h : v.WF) : DWFAll (.app v)
  | nack (v : TransportLayerNack) (h : v.WF) : DWFAll (.nack v)
  | rrr (v : RapidResync) (h : v.WF) : DWFAll (.rrr v)
  | pli (v : PictureLossIndication) (h : v.WF) : DWFAll (.pli v)
  | fir (v : FullIntraRequest) (h : v.WF) : DWFAll (.fir v)
  | remb (v : Remb) (h : v.WF) (hm : Spec.rembMant (Spec.rembValue v.bitrate) ≠ 0) : DWFAll (.remb v)
  | twcc (v : Twcc) (h : v.WFq) : DWFAll (.twcc v)
  | ccfb (v : Ccfb) (h : v.WF) (h1 : ∀ b ∈ v.blocks, b.metrics.length ≠ 1) : DWFAll (.ccfb v)
  | xr (v : XR) (h : XRWF v) : DWFAll (.xr v)
  | raw (b : Bytes) (h : RawWF b) : DWFAll (.raw b)

/-- the domain of `C02.rt_datagram` is contained in the new one -/
theorem DWFAll_of_DWF (p : Packet) (h : DWF p) : DWFAll p := by
  cases h with
  | sr v h hs => exact .sr v h
  | rr v h hs => exact .rr v h
  | sdes v h hs => exact .sdes v h
  | bye v h => exact .bye v h
  | app v h => exact .app v h
  | nack v h => exact .nack v h
  | rrr v h => exact .rrr v h
  | pli v h => exact .pli v h
  | fir v h => exact .fir v h

theorem quantAll_of_DWF (p : Packet) (h : DWF p) : quantAll p = quant p := by cases h <;> simp only [quantAll, quant]
theorem normalise_of_DWF (p : Packet) (h : DWF p) : normalise p = p := by cases h <;> rfl

/-- the datagram decoder returns the same concrete Go type: quantisation never changes the constructor -/
theorem quantAll_kind (p : Packet) : (quantAll p).kind = p.kind := by cases p <;> simp only [quantAll, Packet.kind]

/-! ### one packet -/

/-- what is proved of one packet `p` of the domain: Marshal gives `f` (and leaves `normalise p` behind: `p` itself, for
XR `p` with its block headers filled in); `f` is a frame with header `hd`; the datagram decoder dispatches on `hd` back
to the decoder of `p`'s own type, which returns `quantAll p`; `f` has `MarshalSize()` octets; and marshalling
`quantAll p` gives `f` again and leaves `quantAll p` unchanged -/
def FrameAll (p : Packet) : Prop :=
  ∃ f hd, p.encP = .ok (f, normalise p) ∧ Framed2 f hd ∧ decKind (dispatch hd.type hd.count) f = .ok (quantAll p) ∧
    f.length = p.marshalSize ∧ (quantAll p).encP = .ok (f, quantAll p)

theorem frame_of_DWF_all (p : Packet) (h : DWF p) : FrameAll p := by
  obtain ⟨f, hd, he, hf, hdec, hl⟩ := frame_of_DWF p h
  have hq := quant_encP p h f he
  unfold FrameAll
  rw [quantAll_of_DWF p h]
  exact ⟨f, hd, by rw [normalise_of_DWF p h]; exact he, hf.framed2, hdec, hl, hq⟩

/-- the length of a frame whose length field is `(n/4 − 1) mod 2^16`, for a word-aligned size `n` of 4 … 262144 -/
theorem len_of_hdr (n L : Nat) (hm : n % 4 = 0) (h4 : 4 ≤ n) (hmax : n ≤ 262144)
    (hL : L = ((n / 4 - 1) % 65536 + 1) * 4) : L = n := by omega

theorem frame_sr (v : SenderReport) (h : v.WF) : FrameAll (.sr v) := by
  obtain ⟨f, he, hf2, hd2⟩ := SenderReport.reenc v h
  have hm := SenderReport.size_mod4 v
  have hsz : v.marshalSize = 28 + v.reports.length * 24 + v.ext.length + getPadding v.ext.length := by
    simp [SenderReport.marshalSize]
  have hlen : f.length = v.marshalSize :=
    len_of_hdr v.marshalSize f.length hm (by omega) h.2.2.2.2.2.2.2.2 hf2.2
  refine ⟨f, v.header, by simp [Packet.encP, he, normalise], hf2, ?_, hlen, by simp [quantAll, Packet.encP, he]⟩
  show decKind (dispatch TypeSenderReport _) f = _
  simp [dispatch, decKind, hd2, quantAll]

theorem frame_rr (v : ReceiverReport) (h : v.WF) : FrameAll (.rr v) := by
  obtain ⟨f, he, hf2, hd2⟩ := ReceiverReport.reenc v h
  have hm := ReceiverReport.size_mod4 v
  have hsz : v.marshalSize = 8 + v.reports.length * 24 + v.ext.length + getPadding v.ext.length := by
    simp [ReceiverReport.marshalSize]
  have hlen : f.length = v.marshalSize :=
    len_of_hdr v.marshalSize f.length hm (by omega) h.2.2.2 hf2.2
  have ⟨_, _, h3⟩ := rr_quant_facts v h
  refine ⟨f, v.header, by simp [Packet.encP, he, normalise], hf2, ?_, hlen, by simp [quantAll, Packet.encP, h3, he]⟩
  show decKind (dispatch TypeReceiverReport _) f = _
  simp [dispatch, decKind, hd2, quantAll]

theorem frame_sdes (v : SourceDescription) (h : v.WF) : FrameAll (.sdes v) := by
  obtain ⟨f, he, hf2, hd2⟩ := SourceDescription.reenc v h
  have hm := chunksLen_mod4 v.chunks
  have hsz : v.marshalSize = 4 + chunksLen v.chunks := by simp [SourceDescription.marshalSize]
  have hlen : f.length = v.marshalSize :=
    len_of_hdr v.marshalSize f.length (by omega) (by omega) h.2.2 hf2.2
  refine ⟨f, v.header, by simp [Packet.encP, he, normalise], hf2, ?_, hlen, by simp [quantAll, Packet.encP, he]⟩
  show decKind (dispatch TypeSourceDescription _) f = _
  simp [dispatch, decKind, hd2, quantAll]

theorem frame_remb (v : Remb) (h : v.WF) (hm : Spec.rembMant (Spec.rembValue v.bitrate) ≠ 0) : FrameAll (.remb v) := by
  obtain ⟨f, q, he, hdec, _, _, _, _, _, hq, hre, _, hqq⟩ := remb_roundtrip v h hm
  subst hqq
  obtain ⟨f', he', hfr, hlen, _⟩ := Remb.framed v h
  rw [he] at he'; cases he'
  refine ⟨f, v.header, by simp [Packet.encP, he, normalise], hfr.framed2, ?_, hlen, by simp [quantAll, Packet.encP, hre]⟩
  rw [Remb.header_eq v h.2.1]
  show decKind (dispatch 206 15) f = _
  rw [dispatch_remb]
  show (Packet.remb <$> Remb.dec f) = _
  rw [hdec]; rfl

theorem dispatch_twcc : dispatch 205 15 = .twcc := by decide
theorem dispatch_ccfb : dispatch 205 11 = .ccfb := by decide
theorem dispatch_xr (c : Nat) : dispatch 207 c = .xr := by
  unfold dispatch; simp

theorem frame_twcc (v : Twcc) (h : v.WFq) : FrameAll (.twcc v) := by
  have hfr := Twcc.framed v h
  have hl := Twcc.wire_length v h
  have he := Twcc.enc_ok v h
  obtain ⟨hqwf, hqe, _⟩ := twcc_rebytes v h
  refine ⟨v.wire, v.header, by simp [Packet.encP, he, normalise], hfr.framed2, ?_, hl,
    by simp [quantAll, Packet.encP, hqe, he]⟩
  rw [h.1.1, h.1.2.1, dispatch_twcc]
  show (Packet.twcc <$> Twcc.dec v.wire) = _
  rw [Twcc.dec_wire v h]; rfl

theorem frame_ccfb (v : Ccfb) (h : v.WF) (h1 : ∀ b ∈ v.blocks, b.metrics.length ≠ 1) : FrameAll (.ccfb v) := by
  have hd := Ccfb.dec_bytes v h h1
  have he := Ccfb.enc_ok v h.blocks_le
  obtain ⟨f, he', hlen, hmod, hhd, hhl⟩ := C05.ccfb_framed v h
  rw [he] at he'; cases he'
  have hs := Ccfb.size_eq v
  refine ⟨v.bytesF libField, v.header, by simp [Packet.encP, he, normalise], ⟨hhd, by rw [hhl]; omega⟩, ?_, hlen,
    by simp [quantAll, Packet.encP, he]⟩
  rw [Ccfb.header_type, Ccfb.header_count, dispatch_ccfb]
  show (Packet.ccfb <$> Ccfb.dec _) = _
  rw [hd]; rfl

theorem blockWF_setup (b : XRBlock) (h : C15.BlockWF b) : C15.BlockWF b.setup := by
  refine ⟨h.kind, ?_, h.omits, h.aligned, h.fits, ?_⟩
  · show itemsOK (layoutOf b.kind).items b.setup.setup.scalars b.elems
    rw [C18.setup_idem]; exact h.shape
  · intro hk
    have hk' : b.kind = 0 := hk
    have := h.unknownType hk'
    show ¬ (1 ≤ b.setupBt ∧ b.setupBt ≤ 7)
    simp only [XRBlock.setupBt, hk']
    simpa using this

theorem marshalled_marshalled (x : XR) : x.marshalled.marshalled = x.marshalled := by
  simp only [XR.marshalled, List.map_map]
  have : (XRBlock.setup ∘ XRBlock.setup) = XRBlock.setup := by funext b; exact C18.setup_idem b
  rw [this]

theorem XRWF_marshalled (x : XR) (h : XRWF x) : XRWF x.marshalled := by
  obtain ⟨hs, hb, hfit⟩ := h
  refine ⟨hs, ?_, ?_⟩
  · intro b hb'
    simp only [XR.marshalled, List.mem_map] at hb'
    obtain ⟨a, ha, rfl⟩ := hb'
    exact blockWF_setup a (hb a ha)
  · have := C18.normalise_size (.xr x)
    simp only [Packet.marshalSize] at this
    show (XR.marshalled x).marshalSize ≤ 262144
    have e : (XR.marshalled x).marshalSize = x.marshalSize := this
    rw [e]; exact hfit

theorem frame_xr (v : XR) (h : XRWF v) : FrameAll (.xr v) := by
  obtain ⟨hs, hb, hfit⟩ := h
  have hms : v.marshalSize = 4 + v.wireSize := rfl
  obtain ⟨f, he, hlen, hmod, hhd, hhl, hty, hct, _⟩ := C05.xr_framed v hs hb hfit
  obtain ⟨f', he', hdec, _⟩ := C15.xr_roundtrip v hs hb (by omega)
  have he2 : v.enc = .ok (f', v.marshalled) := he'
  rw [he] at he2
  have hff : f' = f := by injection he2 with e; injection e with e1 _; exact e1.symm
  subst hff
  have h4 : 4 ≤ f'.length := by omega
  have henc : (Packet.xr v).encP = .ok (f', .xr v.marshalled) := by simp [Packet.encP, he]
  have hnorm : (Packet.xr v.marshalled).encP = (Packet.xr v).encP := C18.encP_normalise (.xr v)
  refine ⟨f', v.header, henc, ⟨hhd, by rw [hhl]; omega⟩, ?_, hlen, ?_⟩
  · rw [hty, dispatch_xr]
    show (Packet.xr <$> XR.dec f') = _
    rw [hdec]; rfl
  · show (Packet.xr v.marshalled).encP = .ok (f', .xr v.marshalled)
    rw [hnorm, henc]

theorem frame_raw (b : Bytes) (h : RawWF b) : FrameAll (.raw b) := by
  obtain ⟨hd, hl, hk⟩ := h
  refine ⟨b, rawHeader b, rfl, ⟨hd, hl⟩, ?_, rfl, rfl⟩
  rw [hk]
  show (Packet.raw <$> rawDec b) = _
  unfold rawDec
  rw [if_neg (by simp only [headerLength]; omega), hd, bind_ok]
  rfl

/-- **one well-formed packet of any kind but SLI**: its encoding is a frame (`Framed2`: length field up to 0xFFFF
included) that the datagram decoder dispatches back to the same Go type and decodes to the quantised original; the frame
has `MarshalSize()` octets; re-marshalling the decoded packet gives the same frame. (`normalise p` is `p`, except for XR,
where Marshal fills in the block headers.) -/
theorem frame_of_DWFAll (p : Packet) (h : DWFAll p) :
    ∃ f hd, p.encP = .ok (f, normalise p) ∧ Framed2 f hd ∧ decKind (dispatch hd.type hd.count) f = .ok (quantAll p) ∧
      f.length = p.marshalSize ∧ (quantAll p).encP = .ok (f, quantAll p) := by
  cases h with
  | sr v h => exact frame_sr v h
  | rr v h => exact frame_rr v h
  | sdes v h => exact frame_sdes v h
  | bye v h => exact frame_of_DWF_all _ (.bye v h)
  | app v h => exact frame_of_DWF_all _ (.app v h)
  | nack v h => exact frame_of_DWF_all _ (.nack v h)
  | rrr v h => exact frame_of_DWF_all _ (.rrr v h)
  | pli v h => exact frame_of_DWF_all _ (.pli v h)
  | fir v h => exact frame_of_DWF_all _ (.fir v h)
  | remb v h hm => exact frame_remb v h hm
  | twcc v h => exact frame_twcc v h
  | ccfb v h h1 => exact frame_ccfb v h h1
  | xr v h => exact frame_xr v h
  | raw b h => exact frame_raw b h

/-! ### lists of packets through `rtcp.Marshal` / `rtcp.Unmarshal` -/

theorem list_roundtrip_all_aux (ps : List Packet) (h : ∀ p ∈ ps, DWFAll p) :
    ∃ b, uencP ps = .ok (b, ps.map normalise) ∧ ps.length * 4 ≤ b.length ∧ b.length = csize ps ∧
      (∀ gas, ps.length < gas → unmarshalLoop gas b = .ok (ps.map quantAll)) ∧
      uencP (ps.map quantAll) = .ok (b, ps.map quantAll) := by
  induction ps with
  | nil =>
    refine ⟨[], rfl, by simp, by simp [csize], ?_, rfl⟩
    intro gas hg
    cases gas with
    | zero => omega
    | succ g => simp [unmarshalLoop]
  | cons p ps ih =>
    obtain ⟨b, hb, hlen, hsz, hloop, hre⟩ := ih (fun q hq => h q (by simp [hq]))
    obtain ⟨f, hd, he, hf, hdec, hfl, hq⟩ := frame_of_DWFAll p (h p (by simp))
    have hf4 := hf.facts.1
    refine ⟨f ++ b, by simp [uencP, he, hb], by simp; omega, by simp [csize] at hsz ⊢; omega, ?_,
      by simp [uencP, hq, hre]⟩
    intro gas hg
    cases gas with
    | zero => omega
    | succ g =>
      rw [unmarshalLoop_cons2 f b hd hf g, hdec, bind_ok, hloop g (by simp at hg; omega), bind_ok]
      rfl

/-- **Unmarshal(Marshal(list)) returns an equal list in order**, modulo the documented quantisations, with the same
concrete types (`quantAll_kind`; the constructors of `Packet` are the Go types), for lists mixing every packet kind
except SLI -/
theorem rt_datagram_all (ps : List Packet) (hne : ps ≠ []) (h : ∀ p ∈ ps, DWFAll p) :
    (uenc ps >>= udec) = .ok (ps.map quantAll) := by
  obtain ⟨b, hb, hlen, hsz, hloop, _⟩ := list_roundtrip_all_aux ps h
  simp only [uenc, hb, bind_ok, pure_eq, udec]
  rw [hloop (b.length + 1) (by omega), bind_ok]
  rw [if_neg (by simp; exact hne)]

/-- **re-marshalling the decoded packets reproduces the same bytes** -/
theorem rebytes_all (ps : List Packet) (h : ∀ p ∈ ps, DWFAll p) : uenc (ps.map quantAll) = uenc ps := by
  obtain ⟨b, hb, _, _, _, hre⟩ := list_roundtrip_all_aux ps h
  simp only [uenc, hb, hre, bind_ok]

/-- the three clauses of C02 for lists in one statement: Marshal succeeds with `CompoundPacket`-size many octets,
Unmarshal of them is the quantised list (same length, same order, same kinds), Marshal of that is the same octets -/
theorem rt_datagram_all_full (ps : List Packet) (hne : ps ≠ []) (h : ∀ p ∈ ps, DWFAll p) :
    ∃ b, uenc ps = .ok b ∧ b.length = csize ps ∧ udec b = .ok (ps.map quantAll) ∧ uenc (ps.map quantAll) = .ok b ∧
      (ps.map quantAll).map Packet.kind = ps.map Packet.kind := by
  obtain ⟨b, hb, hlen, hsz, hloop, hre⟩ := list_roundtrip_all_aux ps h
  have hu : uenc ps = .ok b := by simp only [uenc, hb, bind_ok]; rfl
  have hrt := rt_datagram_all ps hne h
  rw [hu, bind_ok] at hrt
  refine ⟨b, hu, hsz, hrt, by simp only [uenc, hre, bind_ok]; rfl, ?_⟩
  rw [List.map_map]
  exact List.map_congr_left (fun p _ => quantAll_kind p)

/-! ### the quantised packets are again in the domain, and quantisation is idempotent on it -/

theorem quantAll_DWFAll (p : Packet) (h : DWFAll p) : DWFAll (quantAll p) := by
  cases h with
  | rr v hv =>
    have ⟨_, h2, _⟩ := rr_quant_facts v hv
    exact .rr _ h2
  | remb v hv hm =>
    obtain ⟨_, _, _, h4, h5, _⟩ := remb_roundtrip_quant v hv hm
    exact .remb _ h4 h5
  | twcc v hv => exact .twcc _ (twcc_rebytes v hv).1.1
  | xr v hv => exact .xr _ (XRWF_marshalled v hv)
  | sr v h => exact .sr v h
  | sdes v h => exact .sdes v h
  | bye v h => exact .bye v h
  | app v h => exact .app v h
  | nack v h => exact .nack v h
  | rrr v h => exact .rrr v h
  | pli v h => exact .pli v h
  | fir v h => exact .fir v h
  | ccfb v h h1 => exact .ccfb v h h1
  | raw b h => exact .raw b h

theorem quantAll_idem (p : Packet) (h : DWFAll p) : quantAll (quantAll p) = quantAll p := by
  cases h with
  | rr v hv =>
    have hal : v.quant.ext.length % 4 = 0 := by
      simp only [ReceiverReport.quant, List.length_append, zeros_length]
      exact add_getPadding_mod v.ext.length
    show Packet.rr v.quant.quant = Packet.rr v.quant
    rw [ReceiverReport.quant_of_aligned v.quant hal]
  | remb v hv hm =>
    obtain ⟨_, _, _, _, _, h6⟩ := remb_roundtrip_quant v hv hm
    show Packet.remb v.quant.quant = Packet.remb v.quant
    rw [h6]
  | twcc v hv =>
    show Packet.twcc v.quant.quant = Packet.twcc v.quant
    rw [(twcc_rebytes v hv).2.2]
  | xr v hv =>
    show Packet.xr v.marshalled.marshalled = Packet.xr v.marshalled
    rw [marshalled_marshalled]
  | sr v h => rfl
  | sdes v h => rfl
  | bye v h => rfl
  | app v h => rfl
  | nack v h => rfl
  | rrr v h => rfl
  | pli v h => rfl
  | fir v h => rfl
  | ccfb v h h1 => rfl
  | raw b h => rfl

/-- the decoded list is a fixed point: sending it round again changes nothing at all -/
theorem rt_datagram_all_fixed (ps : List Packet) (hne : ps ≠ []) (h : ∀ p ∈ ps, DWFAll p) :
    (uenc (ps.map quantAll) >>= udec) = .ok (ps.map quantAll) := by
  have h' : ∀ q ∈ ps.map quantAll, DWFAll q := by
    intro q hq
    obtain ⟨p, hp, rfl⟩ := List.mem_map.mp hq
    exact quantAll_DWFAll p (h p hp)
  have := rt_datagram_all (ps.map quantAll) (by simpa using hne) h'
  rw [this, List.map_map]
  exact congrArg Out.ok (List.map_congr_left (fun p hp => quantAll_idem p (h p hp)))

/-! ### non-vacuity: one list mixing SR, RR, SDES, BYE, REMB, TWCC, CCFB, XR and a raw packet -/

def exSR : SenderReport :=
  { ssrc := 1, ntpTime := 2, rtpTime := 3, packetCount := 4, octetCount := 5,
    reports := [{ ssrc := 2, fractionLost := 5, totalLost := 9, lastSeq := 3, jitter := 4, lastSR := 5, delay := 6 }] }
def exRR : ReceiverReport := { ssrc := 1, reports := [{ ssrc := 2, totalLost := 16777215 }], ext := [1, 2, 3] }
def exSDES : SourceDescription := { chunks := [{ source := 1, items := [{ type := 1, text := [97, 98] }] }] }
def exBYE : Goodbye := { sources := [1, 2], reason := [98, 121, 101] }
/-- a bitrate that really is quantised (2^25 + 32 is sent as 2^25) -/
def exREMB : Remb := Remb.mk 1 0x4c000008 [2, 4294967295]
/-- deltas that are not whole ticks -/
def exTWCC : Twcc := { twccExample with deltas := [⟨1, 300⟩, ⟨1, 63999⟩, ⟨2, -749⟩, ⟨1, 249⟩] }
def exCCFB : Ccfb := ⟨1, [⟨2, 65534, [⟨true, 3, 8191⟩, ⟨false, 0, 0⟩]⟩, ⟨7, 0, []⟩, ⟨8, 9, [⟨true, 1, 5⟩, ⟨true, 0, 0⟩, ⟨false, 0, 0⟩]⟩], 4⟩
/-- packet type 192 (the old H.261 FIR of RFC 2032) is not registered; neither is FMT 9 of packet type 206 -/
def exRAW1 : Bytes := [0x80, 192, 0, 1, 0, 0, 0, 7]
def exRAW2 : Bytes := [0x89, 206, 0, 2, 0, 0, 0, 1, 0, 0, 0, 2]

def exList : List Packet :=
  [.sr exSR, .rr exRR, .sdes exSDES, .remb exREMB, .twcc exTWCC, .raw exRAW1, .ccfb exCCFB, .xr XRW.exXR, .raw exRAW2, .bye exBYE]

theorem exList_DWFAll : ∀ p ∈ exList, DWFAll p := by
  intro p hp
  simp only [exList, List.mem_cons, List.not_mem_nil, or_false] at hp
  rcases hp with rfl | rfl | rfl | rfl | rfl | rfl | rfl | rfl | rfl | rfl
  · exact .sr _ (by decide)
  · exact .rr _ (by decide)
  · exact .sdes _ (by decide)
  · exact .remb _ (by decide) (by decide)
  · exact .twcc _ (by decide)
  · exact .raw _ (by decide)
  · exact .ccfb _ (by decide) (by decide)
  · exact .xr _ XRW.exXR_hyps
  · exact .raw _ (by decide)
  · exact .bye _ (by decide)

/-- the theorems applied to the example -/
example : (uenc exList >>= udec) = .ok (exList.map quantAll) ∧ uenc (exList.map quantAll) = uenc exList :=
  ⟨rt_datagram_all exList (by simp [exList]) exList_DWFAll, rebytes_all exList exList_DWFAll⟩

/-- the quantisation is not the identity on the example: RR extension padded, REMB bitrate and TWCC deltas rounded -/
example : quantAll (.rr exRR) ≠ .rr exRR ∧ quantAll (.remb exREMB) = .remb (Remb.mk 1 0x4c000000 [2, 4294967295]) ∧
    quantAll (.twcc exTWCC) = .twcc twccExample := by decide

/-- SLI is outside the domain for a reason (KF-SLI-PT): a well-formed SLI marshals to a frame that `rtcp.Unmarshal`
returns as a RawPacket -/
example : (SliceLossIndication.mk 1 2 [⟨3, 4, 5⟩]).WF ∧
    ∃ f, (Packet.sli (SliceLossIndication.mk 1 2 [⟨3, 4, 5⟩])).enc = .ok f ∧ udec f = .ok [.raw f] := by
  refine ⟨by decide, [130, 205, 0, 3, 0, 0, 0, 1, 0, 0, 0, 2, 0, 24, 1, 5], by decide, by decide⟩

end Rtcp.C02
