/-
  C05 — Marshal output is well-framed and its length equals MarshalSize.
  For every value Marshal accepts (within the wire limits of C08, `WF`) whose encoding fits the 16-bit length
  field: |output| = MarshalSize, 4 ∣ |output|, the first four octets decode to the type's Header() with
  length field = |output|/4 − 1. Proved for SR, RR, SDES, BYE, APP, NACK, RRR, PLI, SLI, FIR; CompoundPacket size law.
  REMB/TWCC/CCFB/XR: correspondence (`framed.*`, `size.*`, `hdr.*`, `len.*`) only at this point.
  Known finding KF-XR-ALIGN: XR blocks with an odd chunk count / unaligned unknown bytes are emitted unaligned.
-/
import Rtcp.Lemmas.Frame
namespace Rtcp.C05
open Rtcp Gen Out
set_option linter.unusedSimpArgs false
set_option linter.unusedVariables false

/-- what "well-framed" gives: version 2 header with the announced fields, word aligned, length field = words − 1 -/
theorem framed_facts {f : Bytes} {h : Header} (hf : Framed f h) :
    Header.dec f = .ok h ∧ f.length % 4 = 0 ∧ h.length = f.length / 4 - 1 ∧ 4 ≤ f.length := by
  obtain ⟨⟨body, hb⟩, hc, ht, hl, hs⟩ := hf
  refine ⟨?_, by omega, by omega, by omega⟩
  rw [hb]; exact Header.dec_bytes h body hc ht (by omega)

theorem sr_framed (v : SenderReport) (h : v.WF) (hfit : v.marshalSize ≤ 262140) :
    ∃ f, v.enc = .ok f ∧ f.length = v.marshalSize ∧ f.length % 4 = 0 ∧ Header.dec f = .ok v.header ∧ v.header.length = f.length / 4 - 1 := by
  obtain ⟨f, he, hf, hl⟩ := SenderReport.framed v h hfit
  have := framed_facts hf
  exact ⟨f, he, hl, this.2.1, this.1, this.2.2.1⟩

theorem rr_framed (v : ReceiverReport) (h : v.WF) (hfit : v.marshalSize ≤ 262140) :
    ∃ f, v.enc = .ok f ∧ f.length = v.marshalSize ∧ f.length % 4 = 0 ∧ Header.dec f = .ok v.header ∧ v.header.length = f.length / 4 - 1 := by
  obtain ⟨f, he, hf, hl⟩ := ReceiverReport.framed v h hfit
  have := framed_facts hf
  exact ⟨f, he, hl, this.2.1, this.1, this.2.2.1⟩

theorem sdes_framed (v : SourceDescription) (h : v.WF) (hfit : v.marshalSize ≤ 262140) :
    ∃ f, v.enc = .ok f ∧ f.length = v.marshalSize ∧ f.length % 4 = 0 ∧ Header.dec f = .ok v.header ∧ v.header.length = f.length / 4 - 1 := by
  obtain ⟨f, he, hf, hl⟩ := SourceDescription.framed v h hfit
  have := framed_facts hf
  exact ⟨f, he, hl, this.2.1, this.1, this.2.2.1⟩

theorem bye_framed (v : Goodbye) (h : v.WF) :
    ∃ f, v.enc = .ok f ∧ f.length = v.marshalSize ∧ f.length % 4 = 0 ∧ Header.dec f = .ok v.header ∧ v.header.length = f.length / 4 - 1 := by
  obtain ⟨f, he, hf, hl⟩ := Goodbye.framed v h
  have := framed_facts hf
  exact ⟨f, he, hl, this.2.1, this.1, this.2.2.1⟩

theorem app_framed (v : ApplicationDefined) (h : v.WF) :
    ∃ f hd, v.enc = .ok f ∧ f.length = v.marshalSize ∧ f.length % 4 = 0 ∧ Header.dec f = .ok hd ∧ hd.type = 204 ∧ hd.length = f.length / 4 - 1 := by
  obtain ⟨f, hd, he, hf, ht, hl⟩ := ApplicationDefined.framed v h
  have := framed_facts hf
  exact ⟨f, hd, he, hl, this.2.1, this.1, ht, this.2.2.1⟩

theorem nack_framed (v : TransportLayerNack) (h : v.WF) :
    ∃ f, v.enc = .ok f ∧ f.length = v.marshalSize ∧ f.length % 4 = 0 ∧ Header.dec f = .ok v.header ∧ v.header.length = f.length / 4 - 1 := by
  obtain ⟨f, he, hf, hl⟩ := TransportLayerNack.framed v h
  have := framed_facts hf
  exact ⟨f, he, hl, this.2.1, this.1, this.2.2.1⟩

theorem sli_framed (v : SliceLossIndication) (h : v.WF) :
    ∃ f, v.enc = .ok f ∧ f.length = v.marshalSize ∧ f.length % 4 = 0 ∧ Header.dec f = .ok v.header ∧ v.header.length = f.length / 4 - 1 := by
  obtain ⟨f, he, hf, hl⟩ := SliceLossIndication.framed v h
  have := framed_facts hf
  exact ⟨f, he, hl, this.2.1, this.1, this.2.2.1⟩

theorem fir_framed (v : FullIntraRequest) (h : v.WF) :
    ∃ f, v.enc = .ok f ∧ f.length = v.marshalSize ∧ f.length % 4 = 0 ∧ Header.dec f = .ok v.header ∧ v.header.length = f.length / 4 - 1 := by
  obtain ⟨f, he, hf, hl⟩ := FullIntraRequest.framed v h
  have := framed_facts hf
  exact ⟨f, he, hl, this.2.1, this.1, this.2.2.1⟩

theorem pli_framed (v : PictureLossIndication) :
    ∃ f, v.enc = .ok f ∧ f.length = v.marshalSize ∧ f.length % 4 = 0 ∧ Header.dec f = .ok v.header ∧ v.header.length = f.length / 4 - 1 := by
  obtain ⟨f, he, hf, hl⟩ := PictureLossIndication.framed v
  have := framed_facts hf
  exact ⟨f, he, hl, this.2.1, this.1, this.2.2.1⟩

theorem rrr_framed (v : RapidResync) :
    ∃ f, v.enc = .ok f ∧ f.length = v.marshalSize ∧ f.length % 4 = 0 ∧ Header.dec f = .ok v.header ∧ v.header.length = f.length / 4 - 1 := by
  obtain ⟨f, he, hf, hl⟩ := RapidResync.framed v
  have := framed_facts hf
  exact ⟨f, he, hl, this.2.1, this.1, this.2.2.1⟩

/-- RawPacket: the bytes themselves; MarshalSize is their number -/
theorem raw_size (b : Bytes) : (Packet.raw b).enc = .ok b ∧ (Packet.raw b).marshalSize = b.length := ⟨rfl, rfl⟩

/-- ExtendedReport.MarshalSize counts the RTCP header (the defect repaired by the fix: commit) -/
theorem xr_size (x : XR) : x.marshalSize = 4 + x.wireSize := rfl

/-- CompoundPacket.MarshalSize is the sum over its members -/
theorem compound_size (ps : List Packet) : csize ps = (ps.map Packet.marshalSize).sum := rfl
theorem compound_size_append (ps qs : List Packet) : csize (ps ++ qs) = csize ps + csize qs := by simp [csize]

/-- the size functions are word aligned on their own for the padded types -/
theorem sizes_aligned (sr : SenderReport) (rr : ReceiverReport) (g : Goodbye) (s : SourceDescription) :
    sr.marshalSize % 4 = 0 ∧ rr.marshalSize % 4 = 0 ∧ g.marshalSize % 4 = 0 ∧ s.marshalSize % 4 = 0 := by
  refine ⟨SenderReport.size_mod4 sr, ReceiverReport.size_mod4 rr, Goodbye.size_mod4 g, ?_⟩
  have := chunksLen_mod4 s.chunks
  simp [SourceDescription.marshalSize]; omega

example : (SenderReport.mk 1 2 3 4 5 [{ ssrc := 9 }] [1, 2, 3, 4]).WF := by decide

end Rtcp.C05
