import Rtcp.Lemmas.Safe6
namespace Rtcp.C05
end Rtcp.C05
