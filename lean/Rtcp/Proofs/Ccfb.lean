/-
  RFC 8888 congestion control feedback (CCFeedbackReport, rfc8888.go): the C02 / C03 / C05 theorems.
  Well-formed domain and RFC layout: Spec/Ccfb.lean. Helper lemmas: Lemmas/CcfbRT.lean.

  Recorded findings of the library (the model follows the library, the theorems state them):
  * KF-CCFB-NUM-REPORTS  num_reports is written as len(MetricBlocks) − 1 (0 for 0 or 1 metric blocks) where RFC 8888 §3.1
    says num_reports = number of metric blocks (`C03.KF_ccfb_num_reports`); all other fields are as prescribed
    (`C03.ccfb_wire_partial`).
  * consequently a block with exactly one metric block does not survive Marshal/Unmarshal (`C02.KF_ccfb_one_metric`,
    `C02.KF_ccfb_one_metric_silent`, `C02.KF_ccfb_one_metric_block`, `C02.KF_ccfb_one_metric_general`); every other well-formed report does (`C02.ccfb_roundtrip_partial`).
  * the decoder does not check FMT = 11 (not needed below: the encoder writes 11 and the datagram dispatch tests it).

  Full-strength statements that do NOT hold for the library, kept for the record:
    C03 (full):  ∀ p, p.WF → p.enc = .ok (Spec.render (Spec.ccfbRFC p))                 -- false: KF_ccfb_num_reports
    C02 (full):  ∀ p, p.WF → ∃ f, p.enc = .ok f ∧ Ccfb.dec f = .ok p ∧ udec f = .ok [.ccfb p]   -- false: KF_ccfb_one_metric
  What is missing from the `_partial` versions is exactly the hypothesis violated by those findings.
-/
import Rtcp.Lemmas.CcfbRT
set_option linter.unusedSimpArgs false
set_option linter.unusedVariables false

/-! ## C05 — framing -/
namespace Rtcp.C05
open Rtcp Gen Out

/-- Marshal succeeds on every well-formed report; the output has MarshalSize() octets (= Len()), a multiple of four;
its first four octets decode to Header(), whose length field is the size in words minus one.
(`Ccfb.WF` allows MarshalSize up to 262144, i.e. a length field of 0xFFFF.) -/
theorem ccfb_framed (p : Ccfb) (h : p.WF) :
    ∃ f, p.enc = .ok f ∧ f.length = p.marshalSize ∧ f.length % 4 = 0 ∧ Header.dec f = .ok p.header ∧
      p.header.length = f.length / 4 - 1 := by
  have hm := Ccfb.size_mod4 p
  have hs := Ccfb.size_eq p
  have h4 := h.2.2.2
  refine ⟨p.bytesF libField, Ccfb.enc_ok p h.blocks_le, Ccfb.bytesF_length _ p, ?_, ?_, ?_⟩
  · rw [Ccfb.bytesF_length]; exact hm
  · exact Header.dec_bytes p.header _ (by rw [Ccfb.header_count]; omega) (by rw [Ccfb.header_type]; omega)
      (by rw [Ccfb.header_length]; omega)
  · rw [Ccfb.bytesF_length, Ccfb.header_length]; omega

/-- Header(): version 2 is written by `Header.enc`; no padding, FMT 11, PT 205, length = MarshalSize()/4 − 1 -/
theorem ccfb_header_fields (p : Ccfb) (h : p.WF) :
    p.header.padding = false ∧ p.header.count = 11 ∧ p.header.type = 205 ∧ p.header.length = p.marshalSize / 4 - 1 := by
  have hs := Ccfb.size_eq p
  have h4 := h.2.2.2
  refine ⟨rfl, rfl, rfl, ?_⟩
  rw [Ccfb.header_length]; omega

/-- the first octet of the output is `10 0 01011` (V = 2, P = 0, FMT = 11), the second is 205 -/
theorem ccfb_first_octets (p : Ccfb) (h : p.WF) :
    ∃ f, p.enc = .ok f ∧ get8 f 0 = 0x8B ∧ get8 f 1 = 205 := by
  refine ⟨p.bytesF libField, Ccfb.enc_ok p h.blocks_le, ?_, ?_⟩
  · rw [Ccfb.bytesF, get8_hdr0]; rfl
  · rw [Ccfb.bytesF, get8_hdr1]; rfl

/-- MarshalSize is word aligned by itself, and counts 12 octets plus the blocks -/
theorem ccfb_size (p : Ccfb) : p.marshalSize % 4 = 0 ∧ p.marshalSize = 12 + blocksLen p.blocks :=
  ⟨Ccfb.size_mod4 p, Ccfb.size_eq p⟩

/-- non-vacuity -/
example : (Ccfb.mk 1 [⟨2, 65534, [⟨true, 3, 8191⟩, ⟨false, 0, 0⟩]⟩, ⟨7, 0, []⟩, ⟨8, 9, [⟨true, 1, 5⟩]⟩] 4).WF := by decide

end Rtcp.C05

/-! ## C03 — wire layout -/
namespace Rtcp.C03
open Rtcp Gen Out

theorem libField_lt (p : Ccfb) (h : p.WF) : ∀ b ∈ p.blocks, libField b < 65536 := by
  intro b hb
  have := h.blocks_le b hb
  unfold libField; omega

/-- **every field except num_reports is as RFC 8888 §3.1 prescribes**: version 2, P = 0, FMT 11, PT 205, length, sender SSRC,
per block SSRC / begin_seq, the metric blocks R|ECN|ATO, zero padding after an odd number of them, report timestamp —
and num_reports carries the number of metric blocks minus one (`Spec.ccfbLib`) -/
theorem ccfb_wire_partial (p : Ccfb) (h : p.WF) : p.enc = .ok (Spec.render (Spec.ccfbLib p)) := by
  rw [Ccfb.enc_ok p h.blocks_le, Spec.ccfbLib]
  exact congrArg Out.ok (Spec.ccfb_render libField p h (libField_lt p h)).symm

theorem be16_inj {a b : Nat} (ha : a < 65536) (hb : b < 65536) (h : be16 a = be16 b) : a = b := by
  have h1 := get16_be16 a [] ha
  have h2 := get16_be16 b [] hb
  rw [h] at h1; omega

theorem blocksBytesF_inj (f g : CcfbBlock → Nat) (bs : List CcfbBlock) (h : blocksBytesF f bs = blocksBytesF g bs) :
    ∀ b ∈ bs, be16 (f b) = be16 (g b) := by
  induction bs with
  | nil => intro b hb; cases hb
  | cons c cs ih =>
    rw [blocksBytesF_cons, blocksBytesF_cons] at h
    obtain ⟨h1, h2⟩ := List.append_inj h (by simp)
    intro b hb
    rcases List.mem_cons.mp hb with e | e
    · subst e
      simp only [CcfbBlock.bytesF] at h1
      have h3 := List.append_cancel_left (List.append_cancel_left h1)
      exact List.append_cancel_right h3
    · exact ih h2 b e

/-- **KF-CCFB-NUM-REPORTS**: as soon as one block carries a metric block, the RFC 8888 encoding (num_reports = number of
metric blocks) differs from what Marshal emits, for every well-formed report -/
theorem KF_ccfb_num_reports (p : Ccfb) (h : p.WF) (hne : ∃ b ∈ p.blocks, b.metrics ≠ []) :
    p.enc ≠ .ok (Spec.render (Spec.ccfbRFC p)) := by
  obtain ⟨b, hb, hb0⟩ := hne
  have hle := h.blocks_le
  rw [Ccfb.enc_ok p hle, Spec.ccfbRFC,
    Spec.ccfb_render (fun b => b.metrics.length) p h (fun c hc => by have := hle c hc; omega)]
  intro heq
  have heq := Out.ok.inj heq
  simp only [Ccfb.bytesF] at heq
  have h1 := List.append_cancel_right (List.append_cancel_left (List.append_cancel_left heq))
  have h2 := blocksBytesF_inj _ _ _ h1 b hb
  have hl := hle b hb
  have hpos : 0 < b.metrics.length := List.length_pos_iff.mpr hb0
  have := be16_inj (by unfold libField; omega) (by omega) h2
  unfold libField at this; omega

/-- the two layouts agree when no block carries a metric block, and then Marshal emits the RFC encoding -/
theorem ccfb_wire_of_empty_blocks (p : Ccfb) (h : p.WF) (he : ∀ b ∈ p.blocks, b.metrics = []) :
    p.enc = .ok (Spec.render (Spec.ccfbRFC p)) := by
  have hf : ∀ b ∈ p.blocks, b.metrics.length < 65536 := fun b hb => by rw [he b hb]; simp
  rw [Ccfb.enc_ok p h.blocks_le, Spec.ccfbRFC, Spec.ccfb_render (fun b => b.metrics.length) p h hf]
  have : blocksBytesF libField p.blocks = blocksBytesF (fun b => b.metrics.length) p.blocks := by
    have key : ∀ bs : List CcfbBlock, (∀ b ∈ bs, b.metrics = []) →
        blocksBytesF libField bs = blocksBytesF (fun b => b.metrics.length) bs := by
      intro bs
      induction bs with
      | nil => intro _; rfl
      | cons c cs ih =>
        intro hc
        rw [blocksBytesF_cons, blocksBytesF_cons, ih (fun x hx => hc x (by simp [hx]))]
        simp [libField, hc c (by simp)]
    exact key p.blocks he
  rw [Ccfb.bytesF, Ccfb.bytesF, this]

/-- concrete witness of the finding: one block, two metric blocks; RFC: num_reports = 2, library: 1 (octet 15) -/
example :
    let p : Ccfb := ⟨1, [⟨2, 3, [⟨true, 1, 5⟩, ⟨false, 0, 0⟩]⟩], 4⟩
    p.WF ∧ p.enc = .ok (Spec.render (Spec.ccfbLib p)) ∧ get8 (Spec.render (Spec.ccfbLib p)) 15 = 1 ∧
      get8 (Spec.render (Spec.ccfbRFC p)) 15 = 2 := by decide

/-- non-vacuity of `ccfb_wire_of_empty_blocks` -/
example : (Ccfb.mk 1 [⟨2, 3, []⟩, ⟨5, 65535, []⟩] 4).WF ∧ ∀ b ∈ (Ccfb.mk 1 [⟨2, 3, []⟩, ⟨5, 65535, []⟩] 4).blocks, b.metrics = [] := by
  decide

end Rtcp.C03

/-! ## C02 — round trip -/
namespace Rtcp.C02
open Rtcp Gen Out

/-- **Unmarshal(Marshal(p)) = p through the type's own decoder and through rtcp.Unmarshal (same concrete type)**, for every
well-formed report none of whose blocks has exactly one metric block -/
theorem ccfb_roundtrip_partial (p : Ccfb) (h : p.WF) (h1 : ∀ b ∈ p.blocks, b.metrics.length ≠ 1) :
    ∃ f, p.enc = .ok f ∧ Ccfb.dec f = .ok p ∧ udec f = .ok [.ccfb p] := by
  have hd := Ccfb.dec_bytes p h h1
  have hs := Ccfb.size_eq p
  have hm := Ccfb.size_mod4 p
  have h4 := h.2.2.2
  refine ⟨p.bytesF libField, Ccfb.enc_ok p h.blocks_le, hd, ?_⟩
  refine udec_frame (p.bytesF libField) p.header _ rfl (by rw [Ccfb.header_count]; omega) (by rw [Ccfb.header_type]; omega)
    (by rw [Ccfb.header_length]; omega) (by rw [Ccfb.bytesF_length, Ccfb.header_length]; omega) (.ccfb p) ?_
  show decKind (dispatch TypeTransportSpecificFeedback FormatCCFB) _ = _
  simp [dispatch, decKind, hd]

/-- re-marshalling the decoded report reproduces the same bytes -/
theorem ccfb_rebytes (p : Ccfb) (h : p.WF) (h1 : ∀ b ∈ p.blocks, b.metrics.length ≠ 1) :
    ∃ f, p.enc = .ok f ∧ (Ccfb.dec f >>= Ccfb.enc) = .ok f ∧ (udec f >>= uenc) = .ok f := by
  obtain ⟨f, he, hd, hu⟩ := ccfb_roundtrip_partial p h h1
  refine ⟨f, he, by rw [hd, bind_ok, he], ?_⟩
  rw [hu, bind_ok]
  simp [uenc, uencP, Packet.encP, he]

/-- **KF (block level, general)**: a well-formed block with exactly one metric block is written with num_reports = 0 and
is read back as a block without metric blocks — whose `len()` is 8, so the report loop then resumes 4 octets early -/
theorem KF_ccfb_one_metric_block (b : CcfbBlock) (post : Bytes) (h : b.WF) (h1 : b.metrics.length = 1) :
    ∃ f, b.enc = .ok f ∧ f.length = 12 ∧ CcfbBlock.dec (f ++ post) = .ok { b with metrics := [] } ∧
      ({ b with metrics := [] } : CcfbBlock).len = 8 := by
  refine ⟨_, CcfbBlock.enc_ok b h.2.2.1, ?_, CcfbBlock.dec_bytes_one b post h h1, ?_⟩
  · rw [CcfbBlock.bytesF_length, CcfbBlock.len_eq]; simp [h1, ccfbPad]
  · simp [CcfbBlock.len]

/-- **KF (general)**: NO well-formed report containing a block with exactly one metric block survives
Marshal → Unmarshal, neither through its own decoder nor through rtcp.Unmarshal (the decoder may reject the bytes or
return a different report, see the two witnesses below) -/
theorem KF_ccfb_one_metric_general (p : Ccfb) (h : p.WF) (h1 : ∃ b ∈ p.blocks, b.metrics.length = 1) :
    ∃ f, p.enc = .ok f ∧ Ccfb.dec f ≠ .ok p ∧ udec f ≠ .ok [.ccfb p] := by
  have hs := Ccfb.size_eq p
  have hm := Ccfb.size_mod4 p
  have h4 := h.2.2.2
  have hd : Ccfb.dec (p.bytesF libField) ≠ .ok p := by
    intro heq
    unfold Ccfb.dec at heq
    exact Ccfb.decP_bytes_one p h h1 (Status.toOut_eq_ok heq).2
  refine ⟨p.bytesF libField, Ccfb.enc_ok p h.blocks_le, hd, ?_⟩
  intro hu
  cases hk : Ccfb.dec (p.bytesF libField) with
  | ok q =>
    have hq : decKind (dispatch p.header.type p.header.count) (p.bytesF libField) = .ok (.ccfb q) := by
      show decKind (dispatch TypeTransportSpecificFeedback FormatCCFB) _ = _
      simp [dispatch, decKind, hk]
    have := udec_frame (p.bytesF libField) p.header _ rfl (by rw [Ccfb.header_count]; omega) (by rw [Ccfb.header_type]; omega)
      (by rw [Ccfb.header_length]; omega) (by rw [Ccfb.bytesF_length, Ccfb.header_length]; omega) (.ccfb q) hq
    rw [this] at hu
    have e : q = p := by simpa using hu
    exact hd (by rw [hk, e])
  | err =>
    have hq : decKind (dispatch p.header.type p.header.count) (p.bytesF libField) = .err := by
      show decKind (dispatch TypeTransportSpecificFeedback FormatCCFB) _ = _
      simp [dispatch, decKind, hk]
    exact udec_frame_ne (p.bytesF libField) p.header _ rfl (by rw [Ccfb.header_count]; omega) (by rw [Ccfb.header_type]; omega)
      (by rw [Ccfb.header_length]; omega) (by rw [Ccfb.bytesF_length, Ccfb.header_length]; omega) hq _ hu
  | panic => exact (Ccfb.dec_safe _).1 hk
  | diverge => exact (Ccfb.dec_safe _).2 hk

/-- non-vacuity of `KF_ccfb_one_metric_general` -/
example : (Ccfb.mk 1 [⟨7, 0, []⟩, ⟨2, 3, [⟨true, 1, 5⟩]⟩] 4).WF ∧ ∃ b ∈ (Ccfb.mk 1 [⟨7, 0, []⟩, ⟨2, 3, [⟨true, 1, 5⟩]⟩] 4).blocks, b.metrics.length = 1 := by
  decide

/-- **KF-CCFB-ONE-METRIC**: a concrete well-formed report with a one-metric block. Marshal succeeds, and the library's
decoders (own `Unmarshal` and `rtcp.Unmarshal`) REJECT those bytes: the block is read back without metric blocks, the
loop resumes inside it and reads the metric block, the padding and the report timestamp as a second block header -/
theorem KF_ccfb_one_metric :
    let p : Ccfb := ⟨1, [⟨2, 3, [⟨true, 1, 5⟩]⟩], 4⟩
    let f : Bytes := [0x8B, 205, 0, 5,  0, 0, 0, 1,  0, 0, 0, 2,  0, 3, 0, 0,  0xA0, 0x05, 0, 0,  0, 0, 0, 4]
    p.WF ∧ p.enc = .ok f ∧ Ccfb.dec f = .err ∧ udec f = .err ∧ Ccfb.dec f ≠ .ok p ∧ udec f ≠ .ok [.ccfb p] := by
  decide

/-- the same report with report timestamp 0: the bytes are ACCEPTED and decode to a different report — the metric block is
lost and a spurious second block (SSRC 0xA0050000, made of the metric block and the padding) appears -/
theorem KF_ccfb_one_metric_silent :
    let p : Ccfb := ⟨1, [⟨2, 3, [⟨true, 1, 5⟩]⟩], 0⟩
    let f : Bytes := [0x8B, 205, 0, 5,  0, 0, 0, 1,  0, 0, 0, 2,  0, 3, 0, 0,  0xA0, 0x05, 0, 0,  0, 0, 0, 0]
    let q : Ccfb := ⟨1, [⟨2, 3, []⟩, ⟨0xA0050000, 0, []⟩], 0⟩
    p.WF ∧ p.enc = .ok f ∧ Ccfb.dec f = .ok q ∧ udec f = .ok [.ccfb q] ∧ q ≠ p := by
  decide

/-- non-vacuity of `ccfb_roundtrip_partial`: empty block, two-metric block at the top of the sequence space, odd count -/
example :
    let p : Ccfb := ⟨1, [⟨2, 65534, [⟨true, 3, 8191⟩, ⟨false, 0, 0⟩]⟩, ⟨7, 0, []⟩, ⟨8, 9, [⟨true, 1, 5⟩, ⟨true, 0, 0⟩, ⟨false, 0, 0⟩]⟩], 4⟩
    p.WF ∧ ∀ b ∈ p.blocks, b.metrics.length ≠ 1 := by decide

end Rtcp.C02
