/-
  C08 — Marshal never silently truncates: out-of-range values are errors.
  `ok_implies_limits`: whenever Marshal returns bytes, the value is inside every wire limit the property lists;
  `*_at_limit`: values exactly at the limits are accepted. The emitted counts/lengths equal the content by the
  round-trip theorems of C02 (decode reads back exactly the value).
  Known finding (KF-LEN-WRAP): for oversized packets the 16-bit header length wraps silently — the theorems about
  sizes carry `marshalSize ≤ 262144`.
-/
import Rtcp.Lemmas.Frame
import Rtcp.Model.Remb
namespace Rtcp.C08
open Rtcp Gen Out
set_option linter.unusedSimpArgs false
set_option linter.unusedVariables false

theorem header_limit {h : Header} {b : Bytes} (e : h.enc = .ok b) : h.count ≤ 31 := by
  unfold Header.enc at e
  split at e
  · cases e
  · omega

theorem reception_report_limit {r : ReceptionReport} {b : Bytes} (e : r.enc = .ok b) : r.totalLost < 16777216 := by
  unfold ReceptionReport.enc at e
  split at e
  · cases e
  · omega

theorem encReports_limit {rs : List ReceptionReport} {b : Bytes} (e : encReports rs = .ok b) : ∀ r ∈ rs, r.totalLost < 16777216 := by
  induction rs generalizing b with
  | nil => simp
  | cons r rs ih =>
    simp only [encReports] at e
    obtain ⟨a, ha, e⟩ := bind_eq_ok.mp e
    obtain ⟨c, hc, e⟩ := bind_eq_ok.mp e
    intro x hx
    rcases List.mem_cons.mp hx with h | h
    · subst h; exact reception_report_limit ha
    · exact ih hc x h

/-- SenderReport: at most 31 reports, every cumulative-lost below 2^24 -/
theorem sr_limits {v : SenderReport} {b : Bytes} (e : v.enc = .ok b) :
    v.reports.length ≤ 31 ∧ ∀ r ∈ v.reports, r.totalLost < 16777216 := by
  unfold SenderReport.enc at e
  obtain ⟨reps, hr, e⟩ := bind_eq_ok.mp e
  split at e
  · cases e
  · rename_i h; simp at h; exact ⟨h, encReports_limit hr⟩

theorem rr_limits {v : ReceiverReport} {b : Bytes} (e : v.enc = .ok b) :
    v.reports.length ≤ 31 ∧ ∀ r ∈ v.reports, r.totalLost < 16777216 := by
  unfold ReceiverReport.enc at e
  obtain ⟨reps, hr, e⟩ := bind_eq_ok.mp e
  split at e
  · cases e
  · rename_i h; simp at h; exact ⟨h, encReports_limit hr⟩

theorem item_limits {i : SDESItem} {b : Bytes} (e : i.enc = .ok b) : i.type ≠ 0 ∧ i.text.length ≤ 255 := by
  unfold SDESItem.enc at e
  split at e
  · cases e
  · split at e
    · cases e
    · rename_i h1 h2; simp at h1 h2; exact ⟨h1, h2⟩

theorem encItems_limits {is : List SDESItem} {b : Bytes} (e : encItems is = .ok b) : ∀ i ∈ is, i.type ≠ 0 ∧ i.text.length ≤ 255 := by
  induction is generalizing b with
  | nil => simp
  | cons i is ih =>
    simp only [encItems] at e
    obtain ⟨a, ha, e⟩ := bind_eq_ok.mp e
    obtain ⟨c, hc, e⟩ := bind_eq_ok.mp e
    intro x hx
    rcases List.mem_cons.mp hx with h | h
    · subst h; exact item_limits ha
    · exact ih hc x h

theorem encChunks_limits {cs : List SDESChunk} {b : Bytes} (e : encChunks cs = .ok b) :
    ∀ c ∈ cs, ∀ i ∈ c.items, i.type ≠ 0 ∧ i.text.length ≤ 255 := by
  induction cs generalizing b with
  | nil => simp
  | cons c cs ih =>
    simp only [encChunks] at e
    obtain ⟨a, ha, e⟩ := bind_eq_ok.mp e
    obtain ⟨d, hd, e⟩ := bind_eq_ok.mp e
    intro x hx
    rcases List.mem_cons.mp hx with h | h
    · subst h
      unfold SDESChunk.enc at ha
      obtain ⟨its, hi, _⟩ := bind_eq_ok.mp ha
      exact encItems_limits hi
    · exact ih hd x h

/-- SourceDescription: at most 31 chunks, no item of type 0, every text at most 255 octets -/
theorem sdes_limits {v : SourceDescription} {b : Bytes} (e : v.enc = .ok b) :
    v.chunks.length ≤ 31 ∧ ∀ c ∈ v.chunks, ∀ i ∈ c.items, i.type ≠ 0 ∧ i.text.length ≤ 255 := by
  unfold SourceDescription.enc at e
  obtain ⟨cs, hc, e⟩ := bind_eq_ok.mp e
  split at e
  · cases e
  · rename_i h; simp at h; exact ⟨h, encChunks_limits hc⟩

/-- Goodbye: at most 31 sources, reason at most 255 octets -/
theorem bye_limits {v : Goodbye} {b : Bytes} (e : v.enc = .ok b) : v.sources.length ≤ 31 ∧ v.reason.length ≤ 255 := by
  unfold Goodbye.enc at e
  split at e
  · cases e
  · split at e
    · cases e
    · rename_i h1 h2; simp at h1 h2; exact ⟨h1, by omega⟩

/-- ApplicationDefined: name of exactly 4 octets, subtype at most 31, data within the length field -/
theorem app_limits {v : ApplicationDefined} {b : Bytes} (e : v.enc = .ok b) :
    v.name.length = 4 ∧ v.subType ≤ 31 ∧ v.data.length ≤ 65523 := by
  unfold ApplicationDefined.enc at e
  split at e
  · cases e
  · split at e
    · cases e
    · rename_i h1 h2
      obtain ⟨hb, hh, _⟩ := bind_eq_ok.mp e
      have := header_limit hh
      simp at h1 h2 this
      exact ⟨h2, this, by omega⟩

/-- REMB: at most 255 SSRCs, bitrate not negative -/
theorem remb_limits {v : Remb} {b : Bytes} (e : v.enc = .ok b) : v.ssrcs.length ≤ 255 ∧ f32Neg v.bitrate = false := by
  unfold Remb.enc at e
  split at e
  · cases e
  · rename_i h
    obtain ⟨⟨m, ex⟩, hm, _⟩ := bind_eq_ok.mp e
    refine ⟨by omega, ?_⟩
    unfold rembEncBitrate at hm
    dsimp only at hm
    split at hm
    · cases hm
    · rename_i hn; simpa using hn

/-- RFC 8888 report block: at most 16384 metric blocks -/
theorem ccfb_block_limits {v : CcfbBlock} {b : Bytes} (e : v.enc = .ok b) : v.metrics.length ≤ 16384 := by
  unfold CcfbBlock.enc at e
  split at e
  · cases e
  · rename_i h; simp at h; exact h

/-- TWCC receive delta: inside its 1- or 2-octet range (in 250 µs ticks, Go's truncating division) -/
theorem delta_limits {d : RecvDelta} {b : Bytes} (e : d.enc = .ok b) :
    (d.type = 1 ∧ 0 ≤ tdiv d.delta 250 ∧ tdiv d.delta 250 ≤ 255) ∨
    (d.type = 2 ∧ -32768 ≤ tdiv d.delta 250 ∧ tdiv d.delta 250 ≤ 32767) := by
  unfold RecvDelta.enc at e
  dsimp only at e
  split at e
  · rename_i h; left; simpa using h
  · split at e
    · rename_i h; right; simpa using h
    · cases e

theorem encDeltas_limits {ds : List RecvDelta} {b : Bytes} (e : encDeltas ds = .ok b) : ∀ d ∈ ds, ∃ c, d.enc = .ok c := by
  induction ds generalizing b with
  | nil => simp
  | cons d ds ih =>
    simp only [encDeltas] at e
    obtain ⟨a, ha, e⟩ := bind_eq_ok.mp e
    obtain ⟨c, hc, e⟩ := bind_eq_ok.mp e
    intro x hx
    rcases List.mem_cons.mp hx with h | h
    · subst h; exact ⟨a, ha⟩
    · exact ih hc x h

theorem writeDeltas_limits {ds : List RecvDelta} {payload out : Bytes} {pos : Nat} (e : writeDeltas ds payload pos = .ok out) :
    ∀ d ∈ ds, ∃ c, d.enc = .ok c := by
  induction ds generalizing payload pos with
  | nil => simp
  | cons d ds ih =>
    simp only [writeDeltas] at e
    obtain ⟨a, ha, e⟩ := bind_eq_ok.mp e
    obtain ⟨p, hp, e⟩ := bind_eq_ok.mp e
    intro x hx
    rcases List.mem_cons.mp hx with h | h
    · subst h; exact ⟨a, ha⟩
    · exact ih e x h

/-- TransportLayerCC: no delta is dropped — Marshal succeeds only if every receive delta fits its wire size -/
theorem twcc_limits {t : Twcc} {b : Bytes} (e : t.enc = .ok b) : ∀ d ∈ t.deltas, ∃ c, d.enc = .ok c := by
  unfold Twcc.enc at e
  obtain ⟨h, hh, e⟩ := bind_eq_ok.mp e
  dsimp only at e
  split at e
  · cases e
  · split at e
    · cases e
    · obtain ⟨cs, hc, e⟩ := bind_eq_ok.mp e
      obtain ⟨p1, hp1, e⟩ := bind_eq_ok.mp e
      obtain ⟨p2, hp2, e⟩ := bind_eq_ok.mp e
      exact writeDeltas_limits hp2

/-! ### values exactly at the limits are accepted -/

theorem header_at_limit (p : Bool) (t l : Nat) : (Header.enc ⟨p, 31, t, l⟩).isOk = true := by simp [Header.enc, Out.isOk]
theorem total_lost_at_limit : (ReceptionReport.enc { totalLost := 16777215 }).isOk = true := by simp [ReceptionReport.enc, Out.isOk]
theorem total_lost_above_limit : ReceptionReport.enc { totalLost := 16777216 } = .err := by simp [ReceptionReport.enc]
theorem item_text_at_limit (t : Bytes) (h : t.length = 255) : (SDESItem.enc ⟨1, t⟩).isOk = true := by simp [SDESItem.enc, h, Out.isOk]
theorem item_text_above_limit (t : Bytes) (h : t.length = 256) : SDESItem.enc ⟨1, t⟩ = .err := by simp [SDESItem.enc, h]
theorem small_delta_at_limit : (RecvDelta.enc ⟨1, 255 * 250 + 249⟩).isOk = true := by decide
theorem small_delta_above_limit : RecvDelta.enc ⟨1, 256 * 250⟩ = .err := by decide
theorem large_delta_at_limit : (RecvDelta.enc ⟨2, -32768 * 250 - 249⟩).isOk = true := by decide
theorem large_delta_above_limit : RecvDelta.enc ⟨2, 32768 * 250⟩ = .err := by decide
theorem sr_31_reports_accepted (v : SenderReport) (h : v.WF) : ∃ b, v.enc = .ok b := ⟨_, SenderReport.enc_ok v h⟩
theorem rr_accepted (v : ReceiverReport) (h : v.WF) : ∃ b, v.enc = .ok b := ⟨_, ReceiverReport.enc_ok v h⟩
theorem remb_256_rejected (v : Remb) (h : v.ssrcs.length = 256) : v.enc = .err := by simp [Remb.enc, h]

end Rtcp.C08
