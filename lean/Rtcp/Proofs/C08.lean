import Rtcp.Lemmas.Safe6
namespace Rtcp.C08
end Rtcp.C08
