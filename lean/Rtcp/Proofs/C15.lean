/-
  C15 — XR report blocks are self-delimiting; unknown blocks survive verbatim.
  The block codec is the generic reflective codec run over the struct layouts regenerated from /repo
  (Gen/Layouts.lean); `layouts_rfc` pins those layouts to RFC 3611's field tables, so reordering, retagging or
  retyping a struct field breaks that theorem directly.
  Known finding KF-XR-ALIGN: a block whose wire size is not a multiple of 4 (odd RLE chunk count, unaligned unknown
  bytes) is emitted unaligned with a truncated block length — the theorems carry `Aligned`.
-/
import Rtcp.Lemmas.XRCodec
import Rtcp.Lemmas.RT1
namespace Rtcp.C15
open Rtcp Gen Out
set_option linter.unusedSimpArgs false
set_option linter.unusedVariables false

/-! ### the regenerated layouts are RFC 3611's -/

/-- RFC 3611 §4.1–4.7 field tables (widths in octets, after the common 4-octet block header) -/
def rfcLayout : Nat → List Item
  | 1 | 2 => [.scalar "BlockType" 1, .scalar "TypeSpecific" 1, .scalar "BlockLength" 2, .omitted "T",
              .scalar "SSRC" 4, .scalar "BeginSeq" 2, .scalar "EndSeq" 2, .sliceOf "Chunks" [2]]
  | 3 => [.scalar "BlockType" 1, .scalar "TypeSpecific" 1, .scalar "BlockLength" 2, .omitted "T",
          .scalar "SSRC" 4, .scalar "BeginSeq" 2, .scalar "EndSeq" 2, .sliceOf "ReceiptTime" [4]]
  | 4 => [.scalar "BlockType" 1, .scalar "TypeSpecific" 1, .scalar "BlockLength" 2, .scalar "NTPTimestamp" 8]
  | 5 => [.scalar "BlockType" 1, .scalar "TypeSpecific" 1, .scalar "BlockLength" 2, .sliceOf "Reports" [4, 4, 4]]
  | 6 => [.scalar "BlockType" 1, .scalar "TypeSpecific" 1, .scalar "BlockLength" 2,
          .omitted "LossReports", .omitted "DuplicateReports", .omitted "JitterReports", .omitted "TTLorHopLimit",
          .scalar "SSRC" 4, .scalar "BeginSeq" 2, .scalar "EndSeq" 2, .scalar "LostPackets" 4, .scalar "DupPackets" 4,
          .scalar "MinJitter" 4, .scalar "MaxJitter" 4, .scalar "MeanJitter" 4, .scalar "DevJitter" 4,
          .scalar "MinTTLOrHL" 1, .scalar "MaxTTLOrHL" 1, .scalar "MeanTTLOrHL" 1, .scalar "DevTTLOrHL" 1]
  | 7 => [.scalar "BlockType" 1, .scalar "TypeSpecific" 1, .scalar "BlockLength" 2, .scalar "SSRC" 4,
          .scalar "LossRate" 1, .scalar "DiscardRate" 1, .scalar "BurstDensity" 1, .scalar "GapDensity" 1,
          .scalar "BurstDuration" 2, .scalar "GapDuration" 2, .scalar "RoundTripDelay" 2, .scalar "EndSystemDelay" 2,
          .scalar "SignalLevel" 1, .scalar "NoiseLevel" 1, .scalar "RERL" 1, .scalar "Gmin" 1, .scalar "RFactor" 1,
          .scalar "ExtRFactor" 1, .scalar "MOSLQ" 1, .scalar "MOSCQ" 1, .scalar "RXConfig" 1, .skip 1,
          .scalar "JBNominal" 2, .scalar "JBMaximum" 2, .scalar "JBAbsMax" 2]
  | _ => [.scalar "BlockType" 1, .scalar "TypeSpecific" 1, .scalar "BlockLength" 2, .sliceOf "Bytes" [1]]

/-- re-proved against the struct declarations of the current source on every run -/
theorem layouts_rfc : ∀ k, k ≤ 7 → (layoutOf k).items = rfcLayout k ∧ (layoutOf k).untied = false := by decide

theorem layout_unknown : ∀ k, 7 < k → (layoutOf k).items = rfcLayout 0 := by
  intro k hk
  unfold layoutOf
  split <;> first | omega | rfl

theorem header_layout_rfc : layoutXRHeader.items = [.scalar "BlockType" 1, .scalar "TypeSpecific" 1, .scalar "BlockLength" 2] := rfl

/-! ### one block -/

/-- the `encoding:"omit"` fields hold what the type-specific octet can carry -/
def omitsOK (b : XRBlock) : Prop :=
  match b.kind with
  | 1 | 2 | 3 => ∃ t, b.omits = [t] ∧ t < 16
  | 6 => ∃ l d j toh, b.omits = [l, d, j, toh] ∧ l ≤ 1 ∧ d ≤ 1 ∧ j ≤ 1 ∧ toh < 4
  | _ => b.omits = []

/-- well-formed block: registered kind (or opaque with an unregistered type), fields in range, word aligned -/
structure BlockWF (b : XRBlock) : Prop where
  kind : b.kind ≤ 7
  shape : itemsOK (layoutOf b.kind).items b.setup.scalars b.elems
  omits : omitsOK b
  aligned : b.wireSize % 4 = 0
  fits : b.wireSize ≤ 262144
  unknownType : b.kind = 0 → ¬ (1 ≤ b.bt ∧ b.bt ≤ 7)

def blockBytes (b : XRBlock) : Bytes := itemsBytesL (layoutOf b.kind).items b.setup.scalars b.elems

theorem block_enc (b : XRBlock) (h : BlockWF b) : b.setup.enc = .ok (blockBytes b) ∧ (blockBytes b).length = b.wireSize := by
  have hk : b.setup.kind = b.kind := rfl
  have he : b.setup.elems = b.elems := rfl
  constructor
  · unfold XRBlock.enc
    rw [hk, he]
    have : b.setup.scalars = b.setup.scalars := rfl
    exact writeItems_ok _ _ _ h.shape
  · exact itemsBytesL_length _ _ _ h.shape

/-- every layout starts with the three XRHeader scalars -/
theorem layout_hdr (k : Nat) : ∃ n1 n2 n3 rest, (layoutOf k).items = .scalar n1 1 :: .scalar n2 1 :: .scalar n3 2 :: rest := by
  unfold layoutOf
  split <;> exact ⟨_, _, _, _, rfl⟩

theorem wireSize_ge4 (b : XRBlock) : 4 ≤ b.wireSize := by
  obtain ⟨n1, n2, n3, rest, hl⟩ := layout_hdr b.kind
  simp [XRBlock.wireSize, hl, sizeItems]; omega

/-- **block header**: the first four octets of a marshalled block are its registered block type, the type-specific
octet in RFC 3611's bit positions, and `size/4 − 1` -/
theorem block_header (b : XRBlock) (h : BlockWF b) :
    ∃ body, (blockBytes b) = [byte b.setupBt, byte b.setupTs] ++ be16 (b.wireSize / 4 - 1) ++ body := by
  obtain ⟨n1, n2, n3, rest, hl⟩ := layout_hdr b.kind
  have h4 := wireSize_ge4 b
  have hbl : (b.wireSize / 4 + 65535) % 65536 = b.wireSize / 4 - 1 := by have := h.fits; omega
  refine ⟨itemsBytesL rest b.vals b.elems, ?_⟩
  simp [blockBytes, hl, XRBlock.scalars, XRBlock.setup, itemsBytesL, writeScalar, hbl]

/-- type-specific bits: thinning T in the low nibble; L/D/J flags at 0x80/0x40/0x20 and the TTL/hop-limit kind at bits 3–4 -/
theorem type_specific_bits (b : XRBlock) :
    (b.kind = 1 ∨ b.kind = 2 ∨ b.kind = 3 → b.setupTs = b.omits.headD 0 % 16) ∧
    (b.kind = 6 → b.setupTs = (if b.omits.getD 0 0 ≠ 0 then 128 else 0) + (if b.omits.getD 1 0 ≠ 0 then 64 else 0) +
                               (if b.omits.getD 2 0 ≠ 0 then 32 else 0) + (b.omits.getD 3 0 % 4) * 8) ∧
    (b.kind = 4 ∨ b.kind = 5 ∨ b.kind = 7 → b.setupTs = 0) := by
  refine ⟨?_, ?_, ?_⟩
  · rintro (h | h | h) <;> simp [XRBlock.setupTs, h]
  · intro h; simp [XRBlock.setupTs, h]
  · rintro (h | h | h) <;> simp [XRBlock.setupTs, h]

theorem take_of_length_eq {a b : Bytes} {n : Nat} (h : a.length = n) : (a ++ b).take n = a := by
  subst h; exact List.take_left

/-- **a block decodes from the front of any buffer, independently of what follows it**, to the Go type of its
block type, and hands the rest on untouched -/
theorem block_roundtrip (b : XRBlock) (rest : Bytes) (h : BlockWF b) :
    xrDecBlock ((blockBytes b) ++ rest) = .ok (b.setup, rest) := by
  obtain ⟨body, hb⟩ := block_header b h
  have ⟨_, hlen⟩ := block_enc b h
  have h4 := wireSize_ge4 b
  have hfits := h.fits
  have hal := h.aligned
  have hbl : b.wireSize / 4 - 1 < 65536 := by omega
  have hbt : b.setupBt < 256 ∧ b.setupTs < 256 ∧ xrKindOfType b.setupBt = b.kind := by
    have hsh := h.shape
    obtain ⟨n1, n2, n3, rest', hl⟩ := layout_hdr b.kind
    rw [hl] at hsh
    simp only [XRBlock.scalars, XRBlock.setup, List.cons_append, List.nil_append, itemsOK, fits] at hsh
    refine ⟨by omega, by omega, ?_⟩
    unfold xrKindOfType XRBlock.setupBt
    by_cases hk : 1 ≤ b.kind ∧ b.kind ≤ 7
    · simp [hk]
    · have hk0 : b.kind = 0 := by have := h.kind; omega
      have := h.unknownType hk0
      simp [hk0, this]
  unfold xrDecBlock
  -- the header peek
  have hpeek : readItems layoutXRHeader.items ((blockBytes b) ++ rest) = .ok ([b.setupBt, b.setupTs, b.wireSize / 4 - 1], [], body ++ rest) := by
    rw [hb]
    simp only [layoutXRHeader, readItems, List.append_assoc]
    simp [getScalar, get8, get16, be16, byte]
    rw [if_neg (by omega)]
    simp only [bind_ok]
    have e1 : b.setupBt % 256 = b.setupBt := by omega
    have e2 : b.setupTs % 256 = b.setupTs := by omega
    have e3 : (b.wireSize / 4 - 1) / 256 % 256 * 256 + (b.wireSize / 4 - 1) % 256 = b.wireSize / 4 - 1 := by omega
    rw [e1, e2, e3]
  rw [hpeek, bind_ok]
  dsimp only
  rw [hbt.2.2]
  have hsize : (b.wireSize / 4 - 1 + 1) * 4 = b.wireSize := by omega
  rw [hsize, if_neg (by simp [hlen])]
  rw [take_of_length_eq hlen, drop_of_length_eq hlen]
  have hrd := readItems_bytes _ _ _ h.shape
  show (readItems (layoutOf b.kind).items (blockBytes b) >>= _) = _
  unfold blockBytes
  rw [hrd, bind_ok]
  simp only [XRBlock.scalars, XRBlock.setup, List.cons_append, List.nil_append]
  -- unpack recovers the omitted fields from the type-specific octet
  have hom := h.omits
  unfold omitsOK at hom
  have hkind := h.kind
  have hcases : b.kind = 0 ∨ b.kind = 1 ∨ b.kind = 2 ∨ b.kind = 3 ∨ b.kind = 4 ∨ b.kind = 5 ∨ b.kind = 6 ∨ b.kind = 7 := by omega
  congr 2
  rcases hcases with hk | hk | hk | hk | hk | hk | hk | hk <;> simp only [hk] at hom
  · cases b; simp_all [XRBlock.unpack, xrFreshOmits, XRBlock.setupTs, XRBlock.setupBt]
  · obtain ⟨t, ht, htl⟩ := hom; cases b; simp_all [XRBlock.unpack, xrFreshOmits, XRBlock.setupTs, XRBlock.setupBt] <;> omega
  · obtain ⟨t, ht, htl⟩ := hom; cases b; simp_all [XRBlock.unpack, xrFreshOmits, XRBlock.setupTs, XRBlock.setupBt] <;> omega
  · obtain ⟨t, ht, htl⟩ := hom; cases b; simp_all [XRBlock.unpack, xrFreshOmits, XRBlock.setupTs, XRBlock.setupBt] <;> omega
  · cases b; simp_all [XRBlock.unpack, xrFreshOmits, XRBlock.setupTs, XRBlock.setupBt]
  · cases b; simp_all [XRBlock.unpack, xrFreshOmits, XRBlock.setupTs, XRBlock.setupBt]
  · obtain ⟨l, d, j, toh, ho, h1, h2, h3, h4'⟩ := hom
    cases b; simp_all [XRBlock.unpack, xrFreshOmits, XRBlock.setupTs, XRBlock.setupBt]
    refine ⟨?_, ?_, ?_, ?_⟩ <;> (split <;> split <;> split <;> omega)
  · cases b; simp_all [XRBlock.unpack, xrFreshOmits, XRBlock.setupTs, XRBlock.setupBt]

/-! ### sequences of blocks, the whole packet -/

def blocksBytes (bs : List XRBlock) : Bytes := (bs.map blockBytes).flatten

theorem encXRBlocks_ok (bs : List XRBlock) (h : ∀ b ∈ bs, BlockWF b) : encXRBlocks (bs.map XRBlock.setup) = .ok (blocksBytes bs) := by
  induction bs with
  | nil => rfl
  | cons b bs ih =>
    simp only [List.map_cons, encXRBlocks, (block_enc b (h b (by simp))).1, bind_ok, ih (fun x hx => h x (by simp [hx]))]
    simp [blocksBytes]

theorem blocksBytes_length (bs : List XRBlock) (h : ∀ b ∈ bs, BlockWF b) : (blocksBytes bs).length = (bs.map XRBlock.wireSize).sum := by
  induction bs with
  | nil => rfl
  | cons b bs ih =>
    have := ih (fun x hx => h x (by simp [hx]))
    simp [blocksBytes] at this ⊢
    rw [(block_enc b (h b (by simp))).2, this]

/-- **blocks decode in order and independently of their neighbours**, each to the Go type of its block type -/
theorem blocks_in_order (bs : List XRBlock) (gas : Nat) (hg : bs.length < gas) (h : ∀ b ∈ bs, BlockWF b) :
    xrDecBlocksP gas (blocksBytes bs) = (bs.map XRBlock.setup, .ok) := by
  induction bs generalizing gas with
  | nil =>
    cases gas with
    | zero => omega
    | succ g => simp [xrDecBlocksP, blocksBytes]
  | cons b bs ih =>
    cases gas with
    | zero => omega
    | succ g =>
      rw [xrDecBlocksP]
      have hb : blocksBytes (b :: bs) = blockBytes b ++ blocksBytes bs := by simp [blocksBytes]
      have h4 := wireSize_ge4 b
      have hl := (block_enc b (h b (by simp))).2
      rw [hb, if_neg (by rw [List.length_append, hl]; omega), block_roundtrip b _ (h b (by simp))]
      dsimp only
      rw [ih g (by simp at hg; omega) (fun x hx => h x (by simp [hx]))]
      rfl

/-- the block kind is a function of the block type octet alone: 1..7 the defined structs, everything else opaque -/
theorem block_kind_of_type (bt : Nat) : xrKindOfType bt = (if 1 ≤ bt ∧ bt ≤ 7 then bt else 0) := rfl

/-- **unknown blocks survive**: an opaque block keeps its type, its type-specific octet and its content through
Marshal (only the block length is recomputed) -/
theorem unknown_verbatim (b : XRBlock) (hk : b.kind = 0) :
    b.setup.bt = b.bt ∧ b.setup.ts = b.ts ∧ b.setup.elems = b.elems ∧ b.setup.kind = 0 := by
  simp [XRBlock.setup, XRBlock.setupBt, XRBlock.setupTs, hk]

/-- **ExtendedReport round trip**: decoding what Marshal emitted gives the packet in its post-Marshal state
(block headers filled in), blocks in order -/
theorem xr_roundtrip (x : XR) (hs : x.sender < 4294967296) (h : ∀ b ∈ x.blocks, BlockWF b) (hfit : x.wireSize ≤ 262140) :
    ∃ bytes, x.enc = .ok (bytes, { x with blocks := x.blocks.map XRBlock.setup }) ∧
      XR.dec bytes = .ok { x with blocks := x.blocks.map XRBlock.setup } ∧ bytes.length = x.marshalSize := by
  have hws : ({ x with blocks := x.blocks.map XRBlock.setup } : XR).wireSize = x.wireSize := by
    simp only [XR.wireSize, List.map_map]
    congr 2
  have hal : (x.blocks.map XRBlock.wireSize).sum % 4 = 0 := by
    have : ∀ bs : List XRBlock, (∀ b ∈ bs, BlockWF b) → (bs.map XRBlock.wireSize).sum % 4 = 0 := by
      intro bs
      induction bs with
      | nil => intro _; rfl
      | cons b bs ih =>
        intro hb
        have h1 := (hb b (by simp)).aligned
        have h2 := ih (fun y hy => hb y (by simp [hy]))
        simp; omega
    exact this x.blocks h
  have hwsz : x.wireSize = 4 + (x.blocks.map XRBlock.wireSize).sum := rfl
  let hdr : Header := { type := TypeExtendedReport, length := (x.wireSize / 4) % 65536 }
  refine ⟨hdr.bytes ++ be32 x.sender ++ blocksBytes x.blocks, ?_, ?_, ?_⟩
  · unfold XR.enc
    dsimp only
    rw [hws, Header.enc_ok _ (by simp), bind_ok, encXRBlocks_ok x.blocks h, bind_ok]
    rfl
  · unfold XR.dec
    have hP : XR.decP (hdr.bytes ++ be32 x.sender ++ blocksBytes x.blocks) = ({ x with blocks := x.blocks.map XRBlock.setup }, .ok) := by
      unfold XR.decP
      rw [List.append_assoc, Header.dec_bytes hdr _ (by simp [hdr]) (by simp [hdr]) (by show x.wireSize / 4 % 65536 < 65536; omega)]
      dsimp only
      rw [if_neg (by simp [hdr])]
      have hd : (hdr.bytes ++ (be32 x.sender ++ blocksBytes x.blocks)).drop headerLength = be32 x.sender ++ blocksBytes x.blocks :=
        drop_of_length_eq (by simp)
      rw [hd, if_neg (by simp)]
      have hd2 : (be32 x.sender ++ blocksBytes x.blocks).drop 4 = blocksBytes x.blocks := drop_of_length_eq (by simp)
      have hbl := blocksBytes_length x.blocks h
      have hge : x.blocks.length * 4 ≤ (x.blocks.map XRBlock.wireSize).sum := by
        have : ∀ bs : List XRBlock, bs.length * 4 ≤ (bs.map XRBlock.wireSize).sum := by
          intro bs
          induction bs with
          | nil => simp
          | cons b bs ih => have := wireSize_ge4 b; simp; omega
        exact this _
      rw [hd2, blocks_in_order x.blocks _ (by simp [hbl]; omega) h]
      have hg : get32 (be32 x.sender ++ blocksBytes x.blocks) 0 = x.sender := get32_be32 _ _ hs
      rw [hg]
    rw [hP]; rfl
  · simp [blocksBytes_length x.blocks h, XR.marshalSize, hwsz]

/-- non-vacuity: a DLRR block with two sub-reports and an opaque block of type 200 are well formed -/
example : BlockWF { kind := 5, elems := [[1, 2, 3], [4, 5, 6]] } :=
  ⟨by decide, by simp [itemsOK, layoutOf, layout5, XRBlock.scalars, XRBlock.setup, XRBlock.setupBt, XRBlock.setupTs,
      XRBlock.wireSize, sizeItems, elemSize, widthOK, fits, elemOK], by simp [omitsOK], by decide, by decide, by decide⟩
example : BlockWF { kind := 0, bt := 200, ts := 7, elems := [[1], [2], [3], [4]] } :=
  ⟨by decide, by simp [itemsOK, layoutOf, layout0, XRBlock.scalars, XRBlock.setup, XRBlock.setupBt, XRBlock.setupTs,
      XRBlock.wireSize, sizeItems, elemSize, widthOK, fits, elemOK], by simp [omitsOK], by decide, by decide, by decide⟩

end Rtcp.C15
