import Rtcp.Lemmas.Safe6
namespace Rtcp.C15
end Rtcp.C15
