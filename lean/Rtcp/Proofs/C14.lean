import Rtcp.Lemmas.Safe6
namespace Rtcp.C14
end Rtcp.C14
