/-
  C14 — REMB bitrate coding is exact, monotone and saturating.
  A float32 is its bit pattern; `f32Floor bits` is ⌊value⌋ for a finite non-negative pattern, and the theorems
  also show when the value is an integer (so the floor *is* the value). The float32 operations of the Go code
  (halve, Floor, compare with 2^18 and 0x3FFFF·2^63, assemble bits) are exact on the reachable range and are
  modelled on ℕ; that modelling step is tied by the correspondence on REMB wire pairs and dense float inputs.
  Known finding KF-REMB-MANT0: the 64 wire pairs with mantissa 0 decode to 2^(e+23) (pinned by a test vector).
-/
import Rtcp.Model.Remb
import Rtcp.Lemmas.Bytes
namespace Rtcp.C14
open Rtcp Gen Out
set_option linter.unusedSimpArgs false
set_option linter.unusedVariables false

/-! ### decoding: exact for all 64 × (2^18 − 1) pairs with a non-zero mantissa -/

/-- invariant of the normalisation loop: `mant = m0·2^s`, `exp + s = exp0`, until bit 23 is set -/
theorem normLoop_spec (gas exp0 m0 : Nat) (s exp m : Nat) (hm0 : 0 < m0) (hm : m = m0 * 2 ^ s) (hlt : m < 16777216)
    (he : exp + s = exp0) (hexp0 : 150 ≤ exp0 ∧ exp0 < 256) (hg : 16777216 ≤ m * 2 ^ gas) :
    ∃ s' exp' m', rembNormLoop gas exp m = .ok (exp', m') ∧ m' = m0 * 2 ^ s' ∧ exp' + s' = exp0 ∧
      8388608 ≤ m' ∧ m' < 16777216 := by
  induction gas generalizing s exp m with
  | zero => simp at hg; omega
  | succ g ih =>
    unfold rembNormLoop
    by_cases hb : m / 8388608 % 2 = 0
    · rw [if_pos hb]
      have hm2 : m < 8388608 := by omega
      have h2 : (m * 2) % 4294967296 = m * 2 := by omega
      have hs : s < 24 := by
        apply Nat.lt_of_not_le; intro h24
        have h1 : 2 ^ 24 ≤ 2 ^ s := Nat.pow_le_pow_right (by decide) h24
        have h3 : m0 * 2 ^ 24 ≤ m0 * 2 ^ s := Nat.mul_le_mul_left _ h1
        have h224 : (2 : Nat) ^ 24 = 16777216 := by decide
        rw [h224] at h3
        omega
      have hdec : (exp + 255) % 256 = exp - 1 := by omega
      rw [h2, hdec]
      apply ih (s + 1) (exp - 1) (m * 2)
      · rw [hm, Nat.pow_succ, Nat.mul_assoc]
      · omega
      · omega
      · rw [Nat.pow_succ, Nat.mul_comm (2 ^ g) 2, ← Nat.mul_assoc] at hg; exact hg
    · rw [if_neg hb]
      exact ⟨s, exp, m, rfl, hm, he, by omega, hlt⟩

/-- the decoded pattern, for a non-zero mantissa: exponent field `e + 150 − s`, fraction `m·2^s − 2^23` -/
theorem decBits_spec (e m : Nat) (he : e < 64) (hm : 0 < m) (hm18 : m < 262144) :
    ∃ s bits, rembDecBits e m = .ok bits ∧ s ≤ 23 ∧ 8388608 ≤ m * 2 ^ s ∧ m * 2 ^ s < 16777216 ∧
      f32Exp bits = e + 150 - s ∧ f32Frac bits = m * 2 ^ s - 8388608 ∧ f32Sign bits = 0 := by
  have hexp0 : (e + 127 + 23) % 256 = e + 150 := by omega
  have h40 : (2 : Nat) ^ 40 = 1099511627776 := by decide
  obtain ⟨s, exp', m', hl, hm', hes, hlo, hhi⟩ :=
    normLoop_spec 40 (e + 150) m 0 (e + 150) m hm (by simp) (by omega) (by omega) (by omega) (by rw [h40]; omega)
  have hs : s ≤ 23 := by
    apply Nat.le_of_not_lt; intro h24
    have h1 : 2 ^ 24 ≤ 2 ^ s := Nat.pow_le_pow_right (by decide) h24
    have h3 : m * 2 ^ 24 ≤ m * 2 ^ s := Nat.mul_le_mul_left _ h1
    have h224 : (2 : Nat) ^ 24 = 16777216 := by decide
    rw [h224] at h3; omega
  refine ⟨s, (exp' * 8388608) % 4294967296 + m' % 8388608, ?_, hs, by omega, by omega, ?_, ?_, ?_⟩
  · unfold rembDecBits
    dsimp only
    rw [hexp0, if_pos (by omega), hl]
    rfl
  · unfold f32Exp; omega
  · unfold f32Frac; omega
  · unfold f32Sign; omega

/-- **decoding is exact**: the decoded float is the integer `mantissa × 2^exponent` (its floor is that number and
nothing is cut off), for every exponent 0..63 and every mantissa 1..2^18−1 -/
theorem dec_exact (e m : Nat) (he : e < 64) (hm : 0 < m) (hm18 : m < 262144) :
    ∃ bits, rembDecBits e m = .ok bits ∧ f32Floor bits = m * 2 ^ e ∧ f32IsNaN bits = false ∧ f32IsInf bits = false ∧
      f32Neg bits = false := by
  obtain ⟨s, bits, hb, hs, hlo, hhi, hE, hF, hS⟩ := decBits_spec e m he hm hm18
  refine ⟨bits, hb, ?_, ?_, ?_, ?_⟩
  · unfold f32Floor
    dsimp only
    rw [hE, hF]
    have hsum : 8388608 + (m * 2 ^ s - 8388608) = m * 2 ^ s := by omega
    rw [if_neg (by omega), hsum]
    by_cases hc : e + 150 - s ≥ 150
    · rw [if_pos hc]
      have h1 : e + 150 - s - 150 = e - s := by omega
      have h2 : s + (e - s) = e := by omega
      rw [h1, Nat.mul_assoc, (Nat.pow_add 2 s (e - s)).symm, h2]
    · rw [if_neg hc]
      have h1 : 150 - (e + 150 - s) = s - e := by omega
      rw [h1]
      obtain ⟨d, hd⟩ : ∃ d, s = e + d := ⟨s - e, by omega⟩
      subst hd
      rw [Nat.add_sub_cancel_left, Nat.pow_add, ← Nat.mul_assoc]
      exact Nat.mul_div_cancel _ (Nat.pow_pos (by decide : 0 < 2))
  · simp [f32IsNaN, hE]; omega
  · simp [f32IsInf, hE]; omega
  · simp [f32Neg, hS]

/-- the known deviation, stated so that it stays visible: mantissa 0 decodes to `2^(e+23)`, not 0 -/
theorem KF_mantissa_zero : ∃ bits, rembDecBits 5 0 = .ok bits ∧ f32Floor bits = 2 ^ 28 := ⟨_, rfl, by decide⟩

/-! ### encoding: largest representable value not above the bitrate, minimal exponent, saturating -/

theorem encLoop_spec (gas v e : Nat) (hg : v < 262144 * 2 ^ gas) :
    ∃ k, rembEncLoop (gas + 1) v e = .ok (v / 2 ^ k, e + k) ∧ v / 2 ^ k < 262144 ∧ (k = 0 ∨ 131072 ≤ v / 2 ^ k) := by
  induction gas generalizing v e with
  | zero =>
    simp at hg
    exact ⟨0, by simp [rembEncLoop]; omega, by simp; omega, Or.inl rfl⟩
  | succ g ih =>
    rw [rembEncLoop]
    by_cases h : v ≥ 262144
    · rw [if_pos h]
      obtain ⟨k, hk, hlt, hmin⟩ := ih (v / 2) (e + 1) (by rw [Nat.pow_succ] at hg; omega)
      refine ⟨k + 1, ?_, ?_, ?_⟩
      · rw [hk, Nat.pow_succ, Nat.mul_comm, ← Nat.div_div_eq_div_mul]
        congr 2; omega
      · rw [Nat.pow_succ, Nat.mul_comm, ← Nat.div_div_eq_div_mul]; exact hlt
      · right
        rw [Nat.pow_succ, Nat.mul_comm, ← Nat.div_div_eq_div_mul]
        rcases hmin with h0 | h1
        · subst h0; simp at hlt ⊢; omega
        · exact h1
    · rw [if_neg h]
      exact ⟨0, by simp, by simp; omega, Or.inl rfl⟩

/-- ⌊bitrate⌋ after the saturation clamp -/
def clampFloor (bits : Nat) : Nat :=
  if f32IsInf bits then rembBitrateMax else min (f32Floor bits) rembBitrateMax

/-- **encoding**: for every non-negative, non-NaN float32 the mantissa has 18 bits, the exponent is at most 63 and
minimal, and `mantissa·2^exp` is the largest such value not exceeding the (clamped) bitrate: it falls short by less
than one unit in the last place of the mantissa. -/
theorem enc_floor (bits : Nat) (hpos : f32Sign bits = 0) :
    ∃ m e, rembEncBitrate bits = .ok (m, e) ∧ m < 262144 ∧ e ≤ 63 ∧ (e = 0 ∨ 131072 ≤ m) ∧
      m * 2 ^ e ≤ clampFloor bits ∧ clampFloor bits < (m + 1) * 2 ^ e := by
  have hneg : f32Neg bits = false := by simp [f32Neg, hpos]
  have hmax : rembBitrateMax = 262143 * 2 ^ 63 := by decide
  have hvle : clampFloor bits ≤ rembBitrateMax := by
    unfold clampFloor; split
    · exact Nat.le_refl _
    · exact Nat.min_le_right _ _
  have hv : (if (if f32IsInf bits ∧ f32Sign bits = 0 then rembBitrateMax else f32Floor bits) ≥ rembBitrateMax ∧ f32Sign bits = 0
      then rembBitrateMax else (if f32IsInf bits ∧ f32Sign bits = 0 then rembBitrateMax else f32Floor bits)) = clampFloor bits := by
    unfold clampFloor
    by_cases hi : f32IsInf bits = true
    · simp [hi, hpos]
    · simp [hi, hpos]
      by_cases hge : rembBitrateMax ≤ f32Floor bits
      · simp [hge, Nat.min_eq_right hge]
      · simp [hge]; omega
  obtain ⟨k, hk, hlt, hmin⟩ := encLoop_spec 199 (clampFloor bits) 0 (by
    have h200 : (262143 : Nat) * 2 ^ 63 < 262144 * 2 ^ 199 := by decide
    rw [hmax] at hvle; omega)
  have hk63 : k ≤ 63 := by
    apply Nat.le_of_not_lt; intro h64
    have h1 : 2 ^ 64 ≤ 2 ^ k := Nat.pow_le_pow_right (by decide) h64
    have h2 : clampFloor bits < 2 ^ 64 * 131072 := by
      have : (262143 : Nat) * 2 ^ 63 < 2 ^ 64 * 131072 := by decide
      rw [hmax] at hvle; omega
    have h3 : clampFloor bits / 2 ^ k < 131072 := by
      apply (Nat.div_lt_iff_lt_mul (Nat.pow_pos (by decide))).mpr
      calc clampFloor bits < 2 ^ 64 * 131072 := h2
        _ ≤ 2 ^ k * 131072 := Nat.mul_le_mul_right _ h1
        _ = 131072 * 2 ^ k := Nat.mul_comm _ _
    rcases hmin with h0 | h1'
    · omega
    · omega
  refine ⟨clampFloor bits / 2 ^ k, k, ?_, hlt, hk63, hmin, ?_, ?_⟩
  · unfold rembEncBitrate
    dsimp only
    rw [hneg, if_neg (by simp), hv, hpos, if_neg (by decide), hk]
    simp only [bind_ok, Nat.zero_add]
    rw [if_neg (by omega)]
    rfl
  · exact Nat.div_mul_le_self _ _
  · have := Nat.lt_div_mul_add (a := clampFloor bits) (b := 2 ^ k) (Nat.pow_pos (by decide))
    rw [Nat.add_mul, Nat.one_mul]; exact this

/-- **saturation**: everything at or above 0x3FFFF·2^63 (including +∞) is sent as 0x3FFFF·2^63 -/
theorem saturates (bits : Nat) (hpos : f32Sign bits = 0) (hbig : clampFloor bits = rembBitrateMax) :
    rembEncBitrate bits = .ok (262143, 63) := by
  obtain ⟨m, e, he, hm, he63, hmin, hlo, hhi⟩ := enc_floor bits hpos
  rw [he]
  have hmax : rembBitrateMax = 262143 * 2 ^ 63 := by decide
  rw [hbig, hmax] at hlo hhi
  -- m·2^e ≤ 262143·2^63 < (m+1)·2^e with m < 2^18, e ≤ 63 forces e = 63, m = 262143
  have he' : e = 63 := by
    apply Nat.le_antisymm he63
    apply Nat.le_of_not_lt; intro hlt
    have h1 : 2 ^ e ≤ 2 ^ 62 := Nat.pow_le_pow_right (by decide) (by omega)
    have h2 : (m + 1) * 2 ^ e ≤ 262144 * 2 ^ 62 := Nat.mul_le_mul (by omega) h1
    have h3 : (262144 : Nat) * 2 ^ 62 ≤ 262143 * 2 ^ 63 := by decide
    omega
  subst he'
  have hm' : m = 262143 := by
    have h63 : (0 : Nat) < 2 ^ 63 := Nat.pow_pos (by decide)
    have a : m ≤ 262143 := by omega
    have b : 262143 < m + 1 := Nat.lt_of_mul_lt_mul_right hhi
    omega
  rw [hm']

/-- **negative bitrates are rejected** (−0 is not negative) -/
theorem negative_rejected (bits : Nat) (h : f32Neg bits = true) : rembEncBitrate bits = .err := by
  unfold rembEncBitrate; dsimp only; rw [h]; rfl

theorem negative_packet_rejected (p : Remb) (h : f32Neg p.bitrate = true) (hs : p.ssrcs.length ≤ 255) : p.enc = .err := by
  unfold Remb.enc
  rw [if_neg (by omega), negative_rejected _ h]; rfl

/-- **monotone**: the value sent never decreases when the bitrate increases -/
theorem monotone_values (x y : Nat) (hxy : x ≤ y) (mx ex my ey : Nat)
    (hx : mx * 2 ^ ex ≤ x ∧ x < (mx + 1) * 2 ^ ex) (hy : my * 2 ^ ey ≤ y ∧ y < (my + 1) * 2 ^ ey)
    (hminx : ex = 0 ∨ 131072 ≤ mx) (hminy : ey = 0 ∨ 131072 ≤ my) (hmx : mx < 262144) (hmy : my < 262144) :
    mx * 2 ^ ex ≤ my * 2 ^ ey := by
  by_cases hle : ex ≤ ey
  · obtain ⟨d, hd⟩ : ∃ d, ey = ex + d := ⟨ey - ex, by omega⟩
    subst hd
    have hpow : 2 ^ (ex + d) = 2 ^ d * 2 ^ ex := by rw [Nat.pow_add, Nat.mul_comm]
    rw [hpow, ← Nat.mul_assoc] at hy ⊢
    have hpos : 0 < 2 ^ ex := Nat.pow_pos (by decide)
    apply Nat.mul_le_mul_right
    cases d with
    | zero =>
      simp at hy ⊢
      have h1 : mx * 2 ^ ex < (my + 1) * 2 ^ ex := by omega
      have := Nat.lt_of_mul_lt_mul_right h1
      omega
    | succ d =>
      have hmy : 131072 ≤ my := by rcases hminy with h | h <;> omega
      have h2 : 2 ≤ 2 ^ (d + 1) := by
        have : 2 ^ 1 ≤ 2 ^ (d + 1) := Nat.pow_le_pow_right (by decide) (by omega)
        simpa using this
      have : 131072 * 2 ≤ my * 2 ^ (d + 1) := Nat.mul_le_mul hmy h2
      omega
  · exfalso
    have hlt : ey < ex := by omega
    have hmx2 : 131072 ≤ mx := by rcases hminx with h | h <;> omega
    have h1 : 2 ^ (ey + 1) ≤ 2 ^ ex := Nat.pow_le_pow_right (by decide) (by omega)
    have h2 : (my + 1) * 2 ^ ey ≤ 262144 * 2 ^ ey := Nat.mul_le_mul_right _ (by omega)
    have h3 : 262144 * 2 ^ ey = 131072 * 2 ^ (ey + 1) := by rw [Nat.pow_succ]; omega
    have h4 : 131072 * 2 ^ (ey + 1) ≤ mx * 2 ^ ex := Nat.mul_le_mul hmx2 h1
    omega

/-- corollary for the encoder: `x ≤ y` (as clamped floors) ⇒ value sent for x ≤ value sent for y -/
theorem enc_monotone (bx by_ : Nat) (hx : f32Sign bx = 0) (hy : f32Sign by_ = 0) (hxy : clampFloor bx ≤ clampFloor by_) :
    ∃ mx ex my ey, rembEncBitrate bx = .ok (mx, ex) ∧ rembEncBitrate by_ = .ok (my, ey) ∧ mx * 2 ^ ex ≤ my * 2 ^ ey := by
  obtain ⟨mx, ex, h1, h2, h3, h4, h5, h6⟩ := enc_floor bx hx
  obtain ⟨my, ey, g1, g2, g3, g4, g5, g6⟩ := enc_floor by_ hy
  exact ⟨mx, ex, my, ey, h1, g1, monotone_values _ _ hxy mx ex my ey ⟨h5, h6⟩ ⟨g5, g6⟩ h4 g4 h2 g2⟩

/-- **decode(encode(x)) ≤ x with equality when x is representable**: if the clamped value is `m·2^e` with an
18-bit mantissa in normal form, the encoder returns exactly `(m, e)` -/
theorem enc_exact_on_representable (bits m e : Nat) (hpos : f32Sign bits = 0) (hm : m < 262144) (he : e ≤ 63)
    (hnorm : e = 0 ∨ 131072 ≤ m) (hval : clampFloor bits = m * 2 ^ e) :
    ∃ m' e', rembEncBitrate bits = .ok (m', e') ∧ m' * 2 ^ e' = m * 2 ^ e := by
  obtain ⟨m', e', h1, h2, h3, h4, h5, h6⟩ := enc_floor bits hpos
  refine ⟨m', e', h1, ?_⟩
  rw [hval] at h5 h6
  have a := monotone_values (m * 2 ^ e) (m * 2 ^ e) (Nat.le_refl _) m e m' e' ⟨Nat.le_refl _, by rw [Nat.add_mul]; have := Nat.pow_pos (a := 2) (n := e) (by decide); omega⟩ ⟨h5, h6⟩ hnorm h4 hm h2
  omega

/-- the SSRC count octet equals the number of SSRC entries (at most 255 are accepted) -/
theorem count_octet (p : Remb) (b : Bytes) (h : p.enc = .ok b) : p.ssrcs.length ≤ 255 ∧ get8 b 16 = p.ssrcs.length := by
  unfold Remb.enc at h
  split at h
  · cases h
  · rename_i hl
    obtain ⟨⟨m, e⟩, _, h⟩ := bind_eq_ok.mp h
    simp at h
    refine ⟨by omega, ?_⟩
    rw [← h]
    simp [get8, be16, be32, byte]
    omega

example : rembEncBitrate 0x4b083800 = .ok (139488, 6) := by decide   -- 8927232 = 139488·2^6

end Rtcp.C14
