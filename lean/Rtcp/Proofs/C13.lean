/-
  C13 — decoded TWCC feedback is internally consistent and chunking-invariant.
  For every byte string the decoder accepts: the receive deltas are exactly the packets marked received by the
  status chunks, in order (run lengths clipped to the status count, vector chunks contributing all their symbols),
  each has the size class of its symbol and the value 250 µs × the signed wire value at the position following the
  chunks, and everything lies inside the declared length. Consequently the deltas are a function of the announced
  symbol sequence and the delta octets only — not of how the statuses were chunked.
-/
import Rtcp.Lemmas.Alloc
namespace Rtcp.C13
open Rtcp Gen Out
set_option linter.unusedSimpArgs false
set_option linter.unusedVariables false

/-! ### specification, written from the draft: status symbols 0 not received, 1 small delta, 2 large delta, 3 reserved -/

/-- symbols a chunk stands for when `remaining` packets are still to be reported -/
def chunkSymbols (remaining : Nat) : TwccChunk → List Nat
  | .rl _ sym run => List.replicate (min remaining run) sym
  | .sv _ _ syms => syms

/-- is a symbol of this chunk a received packet with a delta (a 1-bit vector only knows "small delta") -/
def hasDelta (c : TwccChunk) (s : Nat) : Bool :=
  match c with
  | .rl _ _ _ => s = 1 || s = 2
  | .sv _ ss _ => if ss = 0 then s = 1 else if ss = 1 then (s = 1 || s = 2) else false

/-- how many of the remaining packets a chunk reports on -/
def chunkAdvance (remaining : Nat) : TwccChunk → Nat
  | .rl _ _ run => min remaining run
  | .sv _ _ syms => min remaining syms.length

/-- delta types announced by a chunk list, `processed` packets having been reported already -/
def announced (count : Nat) : Nat → List TwccChunk → List Nat
  | _, [] => []
  | processed, c :: cs =>
    ((chunkSymbols (count - processed) c).filter (hasDelta c)) ++
      announced count (processed + chunkAdvance (count - processed) c) cs

/-- the deltas as the draft lays them out after the chunks: one octet unsigned for a small delta,
two octets big-endian two's complement for a large one, in 250 µs ticks -/
def specDeltas : List Nat → Bytes → Nat → List RecvDelta
  | [], _, _ => []
  | t :: ts, b, pos =>
    if t = 1 then ⟨1, 250 * (get8 b pos : Int)⟩ :: specDeltas ts b (pos + 1)
    else ⟨2, 250 * int16 (get16 b pos)⟩ :: specDeltas ts b (pos + 2)

def deltasSize (ts : List Nat) : Nat := (ts.map fun t => if t = 1 then 1 else 2).sum

/-! ### the delta loop reads exactly `specDeltas` and stays inside `total` -/

theorem deltaLoop_spec (ds : List RecvDelta) (b : Bytes) (total pos : Nat) (ht : total ≤ b.length) (ht2 : total ≤ 65532) (hp : pos ≤ total)
    (hty : ∀ d ∈ ds, d.type = 1 ∨ d.type = 2) (ds' : List RecvDelta) (h : twccDeltaLoop ds b total pos = (ds', .ok)) :
    ds' = specDeltas (ds.map (·.type)) b pos ∧ pos + deltasSize (ds.map (·.type)) ≤ total := by
  induction ds generalizing pos ds' with
  | nil =>
    simp [twccDeltaLoop] at h
    subst h
    simp [specDeltas, deltasSize]; exact hp
  | cons d ds ih =>
    have hd := hty d (by simp)
    have hrest : ∀ x ∈ ds, x.type = 1 ∨ x.type = 2 := fun x hx => hty x (by simp [hx])
    unfold twccDeltaLoop at h
    rcases hd with h1 | h2
    · rw [if_pos (by simpa using h1)] at h
      split at h
      · simp at h
      · rename_i hle
        have hmod : (pos + 1) % 65536 = pos + 1 := by omega
        rw [hmod] at hle h
        simp at hle
        rw [slice_of_le (by omega) (by omega), bind_ok] at h
        have hsl : ((b.take (pos + 1)).drop pos).length = 1 := by simp; omega
        have hdec : RecvDelta.dec ((b.take (pos + 1)).drop pos) = .ok ⟨1, 250 * (get8 b pos : Int)⟩ := by
          unfold RecvDelta.dec
          rw [if_neg (by omega), if_pos hsl, u8At_of_lt (by omega), bind_ok]
          have : get8 ((b.take (pos + 1)).drop pos) 0 = get8 b pos := by
            rw [get8_drop]; simp [get8, List.getD_eq_getElem?_getD, List.getElem?_take]
          rw [this]; rfl
        rw [hdec] at h
        dsimp only at h
        cases hr : twccDeltaLoop ds b total (pos + 1) with
        | mk rest st =>
          rw [hr] at h
          simp at h
          obtain ⟨hh1, hh2⟩ := h
          subst hh2
          have := ih (pos + 1) (by omega) hrest rest hr
          simp only [List.map_cons, specDeltas, h1, if_true, deltasSize, List.sum_cons]
          rw [← hh1, this.1]
          refine ⟨rfl, ?_⟩
          have h2 := this.2
          simp only [deltasSize] at h2
          omega
    · have hne : ¬ d.type = TypeTCCPacketReceivedSmallDelta := by simp; omega
      rw [if_neg hne, if_pos (by simpa using h2)] at h
      split at h
      · simp at h
      · rename_i hle
        have hmod : (pos + 2) % 65536 = pos + 2 := by omega
        rw [hmod] at hle h
        simp at hle
        rw [slice_of_le (by omega) (by omega), bind_ok] at h
        have hsl : ((b.take (pos + 2)).drop pos).length = 2 := by simp; omega
        have hdec : RecvDelta.dec ((b.take (pos + 2)).drop pos) = .ok ⟨2, 250 * int16 (get16 b pos)⟩ := by
          unfold RecvDelta.dec
          rw [if_neg (by omega), if_neg (by omega), u16At_of_le (by omega), bind_ok]
          have : get16 ((b.take (pos + 2)).drop pos) 0 = get16 b pos := by
            simp only [get16, get8_drop]
            simp [get8, List.getD_eq_getElem?_getD, List.getElem?_take]
          rw [this]; rfl
        rw [hdec] at h
        dsimp only at h
        cases hr : twccDeltaLoop ds b total (pos + 2) with
        | mk rest st =>
          rw [hr] at h
          simp at h
          obtain ⟨hh1, hh2⟩ := h
          subst hh2
          have := ih (pos + 2) (by omega) hrest rest hr
          have hne1 : ¬ d.type = 1 := by omega
          simp only [List.map_cons, specDeltas, hne1, if_false, deltasSize, List.sum_cons]
          rw [← hh1, this.1]
          refine ⟨rfl, ?_⟩
          · have h3 := this.2
            simp only [deltasSize] at h3
            omega

/-! ### the chunk loop announces exactly `announced` -/

theorem chunkDeltas_spec (count processed : Nat) (c : TwccChunk) (hc : count ≤ 65535) (hp : processed ≤ count)
    (hsv : ∀ t ss syms, c = .sv t ss syms → syms.length ≤ 14) :
    ((chunkDeltas count processed c).1.map (·.type)) = (chunkSymbols (count - processed) c).filter (hasDelta c) ∧
    (chunkDeltas count processed c).2 = processed + chunkAdvance (count - processed) c ∧
    (∀ d ∈ (chunkDeltas count processed c).1, d.type = 1 ∨ d.type = 2) := by
  have h1 : (count + 65536 - processed) % 65536 = count - processed := by omega
  cases c with
  | rl t sym run =>
    simp only [chunkDeltas, chunkSymbols, chunkAdvance, localMin, h1]
    have hmin : (if count - processed < run then count - processed else run) = min (count - processed) run := by
      simp only [Nat.min_def]; split <;> split <;> omega
    rw [hmin]
    have hmod : (processed + min (count - processed) run) % 65536 = processed + min (count - processed) run := by
      have : min (count - processed) run ≤ count - processed := Nat.min_le_left _ _
      omega
    refine ⟨?_, hmod, ?_⟩
    · by_cases hs : sym = 1 ∨ sym = 2
      · have hd : hasDelta (.rl t sym run) sym = true := by simp [hasDelta]; exact hs
        simp only [TypeTCCPacketReceivedSmallDelta, TypeTCCPacketReceivedLargeDelta]
        rw [if_pos hs, List.filter_replicate_of_pos hd, List.map_replicate]
      · have hd : ¬ hasDelta (.rl t sym run) sym = true := by simp [hasDelta]; omega
        simp only [TypeTCCPacketReceivedSmallDelta, TypeTCCPacketReceivedLargeDelta]
        rw [if_neg hs, List.filter_replicate_of_neg hd]; rfl
    · intro d hd
      simp only [TypeTCCPacketReceivedSmallDelta, TypeTCCPacketReceivedLargeDelta] at hd
      split at hd
      · rename_i hs
        have := List.eq_of_mem_replicate hd
        rw [this]; exact hs
      · simp at hd
  | sv t ss syms =>
    have hl := hsv t ss syms rfl
    have h2 : syms.length % 65536 = syms.length := by omega
    simp only [chunkDeltas, chunkSymbols, chunkAdvance, localMin, h1, h2]
    have hmin : (if count - processed < syms.length then count - processed else syms.length) = min (count - processed) syms.length := by
      simp only [Nat.min_def]; split <;> split <;> omega
    rw [hmin]
    have hmod : (processed + min (count - processed) syms.length) % 65536 = processed + min (count - processed) syms.length := by
      have : min (count - processed) syms.length ≤ count - processed := Nat.min_le_left _ _
      omega
    refine ⟨?_, hmod, ?_⟩
    · by_cases h0 : ss = 0
      · subst h0
        have hf : hasDelta (.sv t 0 syms) = fun s => decide (s = 1) := by funext s; simp [hasDelta]
        simp [hf, List.map_map, Function.comp_def]
      · by_cases h1' : ss = 1
        · subst h1'
          have hf : hasDelta (.sv t 1 syms) = fun s => (decide (s = 1) || decide (s = 2)) := by funext s; simp [hasDelta]
          simp [hf, List.map_map, Function.comp_def]
        · have hf : hasDelta (.sv t ss syms) = fun _ => false := by funext s; simp [hasDelta, h0, h1']
          simp [h0, h1', hf]
    · intro d hd
      by_cases h0 : ss = 0
      · simp [h0] at hd; obtain ⟨a, ha, hd⟩ := hd; rw [← hd]; left; exact ha.2
      · by_cases h1' : ss = 1
        · simp [h1'] at hd; obtain ⟨a, ha, hd⟩ := hd; rw [← hd]; exact ha.2
        · simp [h0, h1'] at hd

theorem chunkLoop_spec (gas : Nat) (b : Bytes) (total count pos processed : Nat)
    (hc : count ≤ 65535) (hp : processed ≤ count) (hpos : pos ≤ total) (ht : total ≤ 65532)
    (cs : List TwccChunk) (ds : List RecvDelta) (pos' : Nat)
    (h : twccChunkLoop gas b total count pos processed = (cs, ds, pos', .ok)) :
    ds.map (·.type) = announced count processed cs ∧ pos' = pos + 2 * cs.length ∧ pos' ≤ total ∧
    (∀ d ∈ ds, d.type = 1 ∨ d.type = 2) := by
  induction gas generalizing pos processed cs ds pos' with
  | zero => simp [twccChunkLoop] at h
  | succ g ih =>
    unfold twccChunkLoop at h
    split at h
    · split at h
      · simp at h
      · rename_i h1 h2
        have hmod : (pos + packetStatusChunkLength) % 65536 = pos + 2 := by unfold_consts; omega
        rw [hmod] at h2 h
        split at h
        · rename_i b0 cb hb0 hcb
          dsimp only at h
          generalize hr : (if getNBitsFromByte b0 0 1 = TypeTCCRunLengthChunk then rlChunkDec cb else svChunkDec cb) = r at h
          cases r with
          | err => simp [Out.status] at h
          | panic => simp [Out.status] at h
          | diverge => simp [Out.status] at h
          | ok c =>
            dsimp only at h
            have hsv : ∀ t ss syms, c = .sv t ss syms → syms.length ≤ 14 := by
              split at hr
              · exact rlChunkDec_not_sv hr
              · exact svChunkDec_len hr
            have hcd := chunkDeltas_spec count processed c hc hp hsv
            have hb := chunkDeltas_bound count processed c hc hp hsv
            cases hrec : twccChunkLoop g b total count (pos + 2) (chunkDeltas count processed c).2 with
            | mk cs1 r1 =>
              obtain ⟨ds1, pos1, st1⟩ := r1
              rw [hrec] at h
              simp at h
              obtain ⟨hcs, hds, hps, hst⟩ := h
              subst hst
              have := ih (pos + 2) (chunkDeltas count processed c).2 hb.1 (by omega) cs1 ds1 pos1 hrec
              rw [← hcs, ← hds, ← hps]
              refine ⟨?_, ?_, this.2.2.1, ?_⟩
              · rw [List.map_append, hcd.1, this.1, hcd.2.1]; rfl
              · rw [this.2.1]; simp; omega
              · intro d hd
                rcases List.mem_append.mp hd with h3 | h3
                · exact hcd.2.2 d h3
                · exact this.2.2.2 d h3
        · simp at h
    · simp at h
      obtain ⟨h1, h2, h3⟩ := h
      subst h1; subst h2; subst h3
      exact ⟨rfl, by simp, hpos, by simp⟩


/-- **consistency of every accepted TWCC packet** -/
theorem accepted_consistent (b : Bytes) (t : Twcc) (h : Twcc.dec b = .ok t) :
    let total := 4 * ((t.header.length + 1) % 65536) % 65536
    -- the deltas are the received packets announced by the chunks, in order …
    t.deltas.map (·.type) = announced t.statusCount 0 t.chunks ∧
    -- … with the wire values that follow the chunks, scaled by 250 µs …
    t.deltas = specDeltas (announced t.statusCount 0 t.chunks) b (20 + 2 * t.chunks.length) ∧
    -- … and chunks and deltas lie inside the declared length, which lies inside the buffer
    20 + 2 * t.chunks.length + deltasSize (announced t.statusCount 0 t.chunks) ≤ total ∧ total ≤ b.length := by
  have hst := Status.toOut_eq_ok h
  obtain ⟨hs, hv⟩ := hst
  unfold Twcc.decP at hs hv
  by_cases hlen : b.length < headerLength + ssrcLength
  · rw [if_pos hlen] at hs; simp at hs
  · rw [if_neg hlen] at hs hv
    cases hh : Header.dec b with
    | ok hd =>
      simp only [hh] at hs hv
      split at hs
      · simp at hs
      · split at hs
        · simp at hs
        · split at hs
          · simp at hs
          · rename_i h1 h2 h3
            rw [if_neg h1, if_neg h2, if_neg h3] at hv
            rw [u32At_of_le (by lomega), u32At_of_le (by lomega), u16At_of_le (by lomega), u16At_of_le (by lomega),
              u24At_of_le (by lomega), u8At_of_lt (by lomega)] at hs hv
            dsimp only at hs hv
            have hcount := get16_lt b (headerLength + packetStatusCountOffset)
            cases hloop : twccChunkLoop (b.length + 1) b (4 * ((hd.length + 1) % 65536) % 65536) (get16 b (headerLength + packetStatusCountOffset))
                (headerLength + packetChunkOffset) 0 with
            | mk cs r =>
              obtain ⟨ds, pos, st⟩ := r
              rw [hloop] at hs hv
              dsimp only at hs hv
              cases st with
              | ok =>
                dsimp only at hs hv
                have hc := chunkLoop_spec (b.length + 1) b _ _ _ 0 (by omega) (by omega) (by lomega) (by lomega) cs ds pos hloop
                cases hdl : twccDeltaLoop ds b (4 * ((hd.length + 1) % 65536) % 65536) pos with
                | mk ds' st' =>
                  rw [hdl] at hs hv
                  dsimp only at hs hv
                  subst hs
                  have hd' := deltaLoop_spec ds b _ pos (by lomega) (by lomega) hc.2.2.1 hc.2.2.2 ds' hdl
                  rw [← hv]
                  dsimp only
                  have hpos : pos = 20 + 2 * cs.length := by rw [hc.2.1]; rfl
                  refine ⟨?_, ?_, ?_, by lomega⟩
                  · rw [hd'.1, ← hc.1]
                    -- types of specDeltas are the announced types
                    have : ∀ (ts : List Nat) (p : Nat), (∀ x ∈ ts, x = 1 ∨ x = 2) → (specDeltas ts b p).map (·.type) = ts := by
                      intro ts
                      induction ts with
                      | nil => intro p _; rfl
                      | cons x xs ihx =>
                        intro p hx
                        have hx1 := hx x (by simp)
                        simp only [specDeltas]
                        split
                        · rename_i he; simp [he, ihx _ (fun y hy => hx y (by simp [hy]))]
                        · rename_i he; simp [ihx _ (fun y hy => hx y (by simp [hy]))]; omega
                    apply this
                    intro x hx
                    obtain ⟨d, hd1, hd2⟩ := List.mem_map.mp hx
                    rw [← hd2]; exact hc.2.2.2 d hd1
                  · rw [hd'.1, hc.1, hpos]
                  · rw [← hc.1, ← hpos]; exact hd'.2
              | err => simp at hs
              | panic => simp at hs
              | diverge => simp at hs
    | err => simp [hh, Out.status] at hs
    | panic => simp [hh, Out.status] at hs
    | diverge => simp [hh, Out.status] at hs

/-- **chunking invariance**: two accepted packets that announce the same delta types and carry the same octets after
their chunks decode to the same deltas — however the statuses were split into run-length and vector chunks -/
theorem chunking_invariant (b1 b2 : Bytes) (t1 t2 : Twcc) (h1 : Twcc.dec b1 = .ok t1) (h2 : Twcc.dec b2 = .ok t2)
    (hann : announced t1.statusCount 0 t1.chunks = announced t2.statusCount 0 t2.chunks)
    (hbytes : ∀ i, get8 b1 (20 + 2 * t1.chunks.length + i) = get8 b2 (20 + 2 * t2.chunks.length + i)) :
    t1.deltas = t2.deltas := by
  have a1 := (accepted_consistent b1 t1 h1).2.1
  have a2 := (accepted_consistent b2 t2 h2).2.1
  rw [a1, a2, hann]
  generalize announced t2.statusCount 0 t2.chunks = ts
  have key : ∀ (ts : List Nat) (p1 p2 : Nat), (∀ i, get8 b1 (p1 + i) = get8 b2 (p2 + i)) → specDeltas ts b1 p1 = specDeltas ts b2 p2 := by
    intro ts
    induction ts with
    | nil => intro _ _ _; rfl
    | cons x xs ih =>
      intro p1 p2 hb
      simp only [specDeltas]
      have h0 := hb 0
      have h1' := hb 1
      simp only [Nat.add_zero] at h0
      split
      · rw [h0, ih (p1 + 1) (p2 + 1) (fun i => by have := hb (1 + i); simpa [Nat.add_assoc] using this)]
      · simp only [get16]
        rw [h0, h1', ih (p1 + 2) (p2 + 2) (fun i => by have := hb (2 + i); simpa [Nat.add_assoc] using this)]
  exact key ts _ _ hbytes

/-- non-vacuity: example packet of the test-suite (count 2, one run-length chunk of small deltas) -/
example : ∃ t, Twcc.dec [0x8f, 0xcd, 0, 5, 0, 0, 0, 1, 0, 0, 0, 2, 0, 3, 0, 2, 0, 4, 5, 6, 0x20, 2, 1, 2, 0, 0] = .ok t ∧
    t.deltas = [⟨1, 250⟩, ⟨1, 500⟩] := ⟨_, rfl, by decide⟩

end Rtcp.C13
