import Rtcp.Lemmas.Safe6
namespace Rtcp.C13
end Rtcp.C13
