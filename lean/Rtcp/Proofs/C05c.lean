/-
  C05 / C07, regenerated tie: the `Header()` methods of the current source (tools/extract/headers.go →
  Gen/Headers.lean) carry the packet type and count/FMT the properties register, and compute the length field from
  MarshalSize in the one way the model assumes. A changed constant, a count taken from another field, or a
  re-parenthesised length expression changes the generated rows and breaks `source_headers` at build time.
-/
import Rtcp.Proofs.C05
import Rtcp.Gen.Headers
import Rtcp.Gen.Sizes
namespace Rtcp.C05
open Rtcp Gen

/-- what the model's `X.header` definitions assume about the source, row by row -/
def modelledHeaders : List HeaderRow := [
  { recv := "CCFeedbackReport", pt := some 205, count := some 11, countLen := "", length := "uint16(recv.MarshalSize()/4-1)", padding := "false" },
  { recv := "FullIntraRequest", pt := some 206, count := some 4, countLen := "", length := "uint16((recv.MarshalSize()/4)-1)", padding := "" },
  { recv := "Goodbye", pt := some 203, count := none, countLen := "Sources", length := "uint16((recv.MarshalSize()/4)-1)", padding := "false" },
  { recv := "PictureLossIndication", pt := some 206, count := some 1, countLen := "", length := "pliLength", padding := "" },
  { recv := "RapidResynchronizationRequest", pt := some 205, count := some 5, countLen := "", length := "rrrLength", padding := "" },
  { recv := "ReceiverEstimatedMaximumBitrate", pt := some 206, count := some 15, countLen := "", length := "uint16((recv.MarshalSize()/4)-1)", padding := "" },
  { recv := "ReceiverReport", pt := some 201, count := none, countLen := "Reports", length := "uint16((recv.MarshalSize()/4)-1)", padding := "" },
  { recv := "SenderReport", pt := some 200, count := none, countLen := "Reports", length := "uint16((recv.MarshalSize()/4)-1)", padding := "" },
  { recv := "SliceLossIndication", pt := some 205, count := some 2, countLen := "", length := "uint16((recv.MarshalSize()/4)-1)", padding := "" },
  { recv := "SourceDescription", pt := some 202, count := none, countLen := "Chunks", length := "uint16((recv.MarshalSize()/4)-1)", padding := "" },
  { recv := "TransportLayerNack", pt := some 205, count := some 1, countLen := "", length := "uint16((recv.MarshalSize()/4)-1)", padding := "" }
]

/-- **the source's Header() methods are the ones the model was written from** -/
theorem source_headers : Gen.headerRows = modelledHeaders := by decide

/-- and the model's header definitions say the same thing (type, count/FMT; length = size/4 − 1 in 16 bits) -/
theorem model_headers (sr : SenderReport) (rr : ReceiverReport) (sd : SourceDescription) (g : Goodbye)
    (n : TransportLayerNack) (r3 : RapidResync) (pl : PictureLossIndication) (sl : SliceLossIndication)
    (f : FullIntraRequest) (rb : Remb) (cf : Ccfb) :
    sr.header.type = 200 ∧ sr.header.count = sr.reports.length % 256 ∧ sr.header.length = (sr.marshalSize / 4 - 1) % 65536 ∧
    rr.header.type = 201 ∧ rr.header.count = rr.reports.length % 256 ∧ rr.header.length = (rr.marshalSize / 4 - 1) % 65536 ∧
    sd.header.type = 202 ∧ sd.header.count = sd.chunks.length % 256 ∧ sd.header.length = (sd.marshalSize / 4 - 1) % 65536 ∧
    g.header.type = 203 ∧ g.header.count = g.sources.length % 256 ∧ g.header.length = (g.marshalSize / 4 - 1) % 65536 ∧
    n.header.type = 205 ∧ n.header.count = 1 ∧ n.header.length = (n.marshalSize / 4 - 1) % 65536 ∧
    r3.header.type = 205 ∧ r3.header.count = 5 ∧
    pl.header.type = 206 ∧ pl.header.count = 1 ∧
    sl.header.type = 205 ∧ sl.header.count = 2 ∧ sl.header.length = (sl.marshalSize / 4 - 1) % 65536 ∧
    f.header.type = 206 ∧ f.header.count = 4 ∧ f.header.length = (f.marshalSize / 4 - 1) % 65536 ∧
    rb.header.type = 206 ∧ rb.header.count = 15 ∧ rb.header.length = (rb.marshalSize / 4 - 1) % 65536 ∧
    cf.header.type = 205 ∧ cf.header.count = 11 := by
  repeat' constructor

end Rtcp.C05

/-! ### MarshalSize: the model's size functions are the source's, translated on every run -/
namespace Rtcp.C05
open Rtcp Gen

/-- the model's `marshalSize` definitions equal the translations of the current source's `MarshalSize` return
expressions (tools/extract/sizes.go → Gen/Sizes.lean), for every method the translator covers -/
theorem source_sizes (sr : SenderReport) (rr : ReceiverReport) (sd : SourceDescription) (n : TransportLayerNack)
    (r3 : RapidResync) (pl : PictureLossIndication) (sl : SliceLossIndication) (f : FullIntraRequest) (rb : Remb)
    (cf : Ccfb) (raw : Bytes) :
    sr.marshalSize = Gen.size_SenderReport (sr.reports.length * receptionReportLength) sr.ext.length ∧
    rr.marshalSize = Gen.size_ReceiverReport (rr.reports.length * receptionReportLength) rr.ext.length ∧
    sd.marshalSize = Gen.size_SourceDescription (chunksLen sd.chunks) ∧
    n.marshalSize = Gen.size_TransportLayerNack n.nacks.length ∧
    r3.marshalSize = Gen.size_RapidResynchronizationRequest ∧
    pl.marshalSize = Gen.size_PictureLossIndication ∧
    sl.marshalSize = Gen.size_SliceLossIndication sl.sli.length ∧
    f.marshalSize = Gen.size_FullIntraRequest f.fir.length ∧
    rb.marshalSize = Gen.size_ReceiverEstimatedMaximumBitrate rb.ssrcs.length ∧
    cf.marshalSize = Gen.size_CCFeedbackReport (blocksLen cf.blocks) ∧
    (Packet.raw raw).marshalSize = Gen.size_RawPacket raw.length ∧
    (∀ ps : List Packet, csize ps = Gen.size_CompoundPacket (ps.map Packet.marshalSize).sum) := by
  refine ⟨rfl, rfl, rfl, rfl, rfl, rfl, rfl, rfl, ?_, rfl, rfl, fun _ => rfl⟩
  simp only [Remb.marshalSize, Gen.size_ReceiverEstimatedMaximumBitrate]

/-- which `MarshalSize` methods stay outside the translated fragment (branches, reflection): tied by the
correspondence only; a method that gains or loses a branch changes this list -/
theorem sizes_untranslated : Gen.sizesUntranslated =
    [("ApplicationDefined", "has a branch"), ("ExtendedReport", "expression outside the translated fragment"),
     ("Goodbye", "has a branch"), ("TransportLayerCC", "has a branch")] := by decide

end Rtcp.C05
