/-
  C07c — the last clause of C07: "every type's Marshal output is dispatched back to that same type", WITHOUT a
  well-formedness premise. The only hypothesis is that the model's Marshal returned bytes (`p.enc = .ok b`).

  `frameKind b` is what `unmarshal` (packet.go) does before it calls a decoder: parse the common header from the first
  four octets and run the dispatch `switch` on (packet type, count/FMT). `unmarshalOne_uses_frameKind` ties it to the
  model's `unmarshalOne`.

    `output_dispatched`           every kind but TWCC / RawPacket / SLI: `frameKind b = .ok (kindOfPacket p)`
    `output_dispatched_fields`    the same, on the raw octets: `dispatch (get8 b 1) (get8 b 0 % 32) = kindOfPacket p`
    `sli_output_not_dispatched_back`, `sli_output_comes_back_raw`   SLI must be excluded (KF-SLI-PT): its Marshal writes 205/2,
                                  the switch sends 205/2 to RawPacket (and 206/2 to the SLI decoder)
    `twcc_output_dispatched`      TWCC under "the caller's Header says type 205, count 15"
    `twcc_premise_necessary`      ... and a zero Header is dispatched to RawPacket
    `raw_output_not_dispatched_back` RawPacket must be excluded: its bytes are the caller's
    `udec_output`                 datagram level: `rtcp.Unmarshal` of one Marshal output IS the decoder of that kind on it
    `udec_output_kind`, `udec_output_never_raw`, `udec_output_fails_in_decoder`   corollaries
    `twcc_udec_output`            the same for TWCC with a consistent header
-/
import Rtcp.Proofs.C05d
import Rtcp.Proofs.C07
import Rtcp.Lemmas.Image
namespace Rtcp
/-- the packet is a `SliceLossIndication` -/
def Packet.isSli : Packet → Prop | .sli _ => True | _ => False
instance (p : Packet) : Decidable p.isSli := by cases p <;> unfold Packet.isSli <;> infer_instance
end Rtcp

namespace Rtcp.C07
open Rtcp Gen Out
set_option linter.unusedSimpArgs false
set_option linter.unusedVariables false

/-- the kind (Go type) a value of each constructor must be dispatched to: its own -/
def kindOfPacket : Packet → Kind
  | .sr _ => .sr | .rr _ => .rr | .sdes _ => .sdes | .bye _ => .bye | .app _ => .app
  | .nack _ => .nack | .rrr _ => .rrr | .twcc _ => .twcc | .ccfb _ => .ccfb | .pli _ => .pli
  | .sli _ => .sli | .remb _ => .remb | .fir _ => .fir | .xr _ => .xr | .raw _ => .raw

theorem kindOfPacket_eq_kind (p : Packet) : kindOfPacket p = p.kind := by cases p <;> rfl

/-- what `unmarshal` does with the first octets of a frame before it calls a decoder: parse the common header, then the
dispatch `switch` on packet type and count/FMT -/
def frameKind (b : Bytes) : Out Kind := do
  let h ← Header.dec b
  pure (dispatch h.type h.count)

/-- `frameKind` is the choice `unmarshalOne` makes: a returned packet was produced by the decoder of kind `frameKind b`
run on the frame cut from `b` -/
theorem unmarshalOne_uses_frameKind {b : Bytes} {q : Packet} {n : Nat} (e : unmarshalOne b = .ok (q, n)) :
    ∃ k, frameKind b = .ok k ∧ decKind k (b.take n) = .ok q := by
  unfold unmarshalOne at e
  obtain ⟨h, hh, e⟩ := bind_eq_ok.mp e
  dsimp only at e
  split at e
  · cases e
  · rename_i hle
    rw [slice_of_le (by omega) (by omega), bind_ok] at e
    obtain ⟨q', hq, e⟩ := bind_eq_ok.mp e
    simp at e
    refine ⟨dispatch h.type h.count, ?_, ?_⟩
    · unfold frameKind; rw [hh, bind_ok]; rfl
    · rw [← e.2, ← e.1, ← hq, List.drop_zero]

/-- the packet a decoder returns has that decoder's kind -/
theorem decKind_kind {k : Kind} {b : Bytes} {q : Packet} (e : decKind k b = .ok q) : q.kind = k := by
  cases k <;> simp only [decKind] at e <;> obtain ⟨v, _, hv⟩ := map_eq_ok.mp e <;> rw [← hv] <;> rfl

/-! ### the header of a frame that starts with version 2 parses -/

/-- four octets with version 2 parse, and the parsed fields are the octets' -/
theorem Header.dec_of_version (b : Bytes) (h4 : 4 ≤ b.length) (hv : get8 b 0 / 64 = 2) :
    Header.dec b = .ok { padding := get8 b 0 / 32 % 2 > 0, count := get8 b 0 % 32, type := get8 b 1, length := get16 b 2 } := by
  unfold Header.dec
  rw [if_neg (by simp only [headerLength]; omega), u8At_of_lt (by omega), bind_ok,
    if_neg (by simp only [rtpVersion]; omega), u8At_of_lt (by omega), bind_ok, u16At_of_le (by omega), bind_ok]
  rfl

theorem frameKind_of_version (b : Bytes) (h4 : 4 ≤ b.length) (hv : get8 b 0 / 64 = 2) :
    frameKind b = .ok (dispatch (get8 b 1) (get8 b 0 % 32)) := by
  unfold frameKind
  rw [Header.dec_of_version b h4 hv, bind_ok]
  rfl

/-! ### every size function counts the header -/

theorem marshalSize_ge4 (p : Packet) (hk : ¬ p.isTwcc) (hr : ¬ p.isRaw) : 4 ≤ p.marshalSize := by
  cases p with
  | sr v => simp only [Packet.marshalSize, SenderReport.marshalSize, headerLength]; omega
  | rr v => simp only [Packet.marshalSize, ReceiverReport.marshalSize, headerLength]; omega
  | sdes v => simp only [Packet.marshalSize, SourceDescription.marshalSize, headerLength]; omega
  | bye v => simp only [Packet.marshalSize, Goodbye.marshalSize, headerLength]; omega
  | app v => simp only [Packet.marshalSize, ApplicationDefined.marshalSize]; omega
  | nack v => simp only [Packet.marshalSize, TransportLayerNack.marshalSize, headerLength]; omega
  | rrr v => simp only [Packet.marshalSize, RapidResync.marshalSize, headerLength]; omega
  | twcc v => exact absurd trivial hk
  | ccfb v => simp only [Packet.marshalSize, Ccfb.marshalSize, reportBlockOffset]; omega
  | pli v => simp only [Packet.marshalSize, PictureLossIndication.marshalSize, headerLength]; omega
  | sli v => simp only [Packet.marshalSize, SliceLossIndication.marshalSize, headerLength]; omega
  | remb v => simp only [Packet.marshalSize, Remb.marshalSize]; omega
  | fir v => simp only [Packet.marshalSize, FullIntraRequest.marshalSize, headerLength]; omega
  | xr v => simp only [Packet.marshalSize, XR.marshalSize, headerLength]; omega
  | raw r => exact absurd trivial hr

/-! ### the switch, on what each kind's Marshal announces -/

/-- the dispatch switch sends each kind's announced (packet type, count/FMT) to that kind — SLI excepted (it announces
205/2; `dispatch 205 2 = .raw`), TWCC and RawPacket have no announcement of their own -/
theorem dispatch_announced (p : Packet) (hk : ¬ p.isTwcc) (hr : ¬ p.isRaw) (hs : ¬ p.isSli) :
    dispatch p.pktType p.fmtCount = kindOfPacket p := by
  cases p with
  | sr v => rfl
  | rr v => rfl
  | sdes v => rfl
  | bye v => rfl
  | app v => rfl
  | nack v => rfl
  | rrr v => rfl
  | twcc v => exact absurd trivial hk
  | ccfb v => rfl
  | pli v => rfl
  | sli v => exact absurd trivial hs
  | remb v => rfl
  | fir v => rfl
  | xr v => rfl
  | raw r => exact absurd trivial hr

/-! ## 2. the clause -/

/-- the clause on the octets themselves: the switch, applied to octet 1 and the low five bits of octet 0 of the Marshal
output, answers the kind of the value that was marshalled -/
theorem output_dispatched_fields (p : Packet) (b : Bytes) (h : p.enc = .ok b) (hk : ¬ p.isTwcc) (hr : ¬ p.isRaw) (hs : ¬ p.isSli) :
    4 ≤ b.length ∧ get8 b 0 / 64 = 2 ∧ dispatch (get8 b 1) (get8 b 0 % 32) = kindOfPacket p := by
  obtain ⟨h1, h2, h3, _⟩ := C05.enc_header_all p b h hk hr
  refine ⟨?_, h1, ?_⟩
  · rw [C05.enc_length_all p b h]; exact marshalSize_ge4 p hk hr
  · rw [h2, h3]; exact dispatch_announced p hk hr hs

/-- **C07, last clause, no well-formedness premise**: whenever the model's Marshal returns bytes `b` for a packet `p`
(kind other than TWCC — caller's header, see `twcc_output_dispatched` —, RawPacket — caller's bytes —, and SLI — recorded
finding KF-SLI-PT, see `sli_output_not_dispatched_back`), the header of `b` parses and the dispatch switch of `unmarshal`
selects the decoder of `p`'s own kind. -/
theorem output_dispatched (p : Packet) (b : Bytes) (h : p.enc = .ok b) (hk : ¬ p.isTwcc) (hr : ¬ p.isRaw) (hs : ¬ p.isSli) :
    frameKind b = .ok (kindOfPacket p) := by
  obtain ⟨h4, hv, hd⟩ := output_dispatched_fields p b h hk hr hs
  rw [frameKind_of_version b h4 hv, hd]

/-- the same with the parsed header spelled out -/
theorem output_dispatched_header (p : Packet) (b : Bytes) (h : p.enc = .ok b) (hk : ¬ p.isTwcc) (hr : ¬ p.isRaw) (hs : ¬ p.isSli) :
    ∃ hd, Header.dec b = .ok hd ∧ hd.type = p.pktType ∧ hd.count = p.fmtCount ∧ dispatch hd.type hd.count = kindOfPacket p := by
  obtain ⟨h4, hv, hd⟩ := output_dispatched_fields p b h hk hr hs
  obtain ⟨_, h2, h3, _⟩ := C05.enc_header_all p b h hk hr
  exact ⟨_, Header.dec_of_version b h4 hv, h3, h2, hd⟩

/-! ### SLI: the exclusion is necessary (KF-SLI-PT) -/

/-- an SLI with one entry -/
def exSli : SliceLossIndication := { sender := 1, media := 2, sli := [{ first := 3, number := 4, picture := 5 }] }

theorem exSli_enc : (Packet.sli exSli).enc = .ok [130, 205, 0, 3, 0, 0, 0, 1, 0, 0, 0, 2, 0, 24, 1, 5] := by decide

/-- **SLI must be excluded**: Marshal succeeds, and the switch sends the output to RawPacket, not to the SLI decoder -/
theorem sli_output_not_dispatched_back :
    ∃ v b, (Packet.sli v).enc = .ok b ∧ frameKind b = .ok .raw ∧ dispatch (get8 b 1) (get8 b 0 % 32) ≠ kindOfPacket (.sli v) :=
  ⟨exSli, _, exSli_enc, by decide, by decide⟩

/-- for every SLI value, not just the witness: whatever Marshal returns is dispatched to RawPacket -/
theorem sli_output_dispatched_raw (v : SliceLossIndication) (b : Bytes) (h : (Packet.sli v).enc = .ok b) :
    frameKind b = .ok .raw := by
  obtain ⟨h1, h2, h3, _⟩ := C05.enc_header_all _ b h (fun x => x) (fun x => x)
  have h4 : 4 ≤ b.length := by rw [C05.enc_length_all _ b h]; exact marshalSize_ge4 _ (fun x => x) (fun x => x)
  rw [frameKind_of_version b h4 h1, h2, h3]
  rfl

/-- datagram level: `rtcp.Unmarshal` returns the marshalled SLI as a RawPacket -/
theorem sli_output_comes_back_raw :
    ∃ v b, (Packet.sli v).enc = .ok b ∧ udec b = .ok [.raw b] := ⟨exSli, _, exSli_enc, by decide⟩

/-! ### RawPacket: the exclusion is necessary -/

/-- **RawPacket must be excluded**: its Marshal returns the caller's bytes, here a well-formed PLI frame -/
theorem raw_output_not_dispatched_back :
    ∃ r b, (Packet.raw r).enc = .ok b ∧ frameKind b = .ok .pli ∧ frameKind b ≠ .ok (kindOfPacket (.raw r)) :=
  ⟨[129, 206, 0, 2, 0, 0, 0, 1, 0, 0, 0, 2], _, rfl, by decide, by decide⟩

/-! ## 3. TWCC: the header is the caller's -/

theorem Twcc.enc_ge4 (v : Twcc) (b : Bytes) (h : v.enc = .ok b) : 4 ≤ b.length := by
  unfold Twcc.enc at h
  obtain ⟨hd, hh, h⟩ := bind_eq_ok.mp h
  dsimp only at h
  split at h
  · cases h
  · split at h
    · cases h
    · obtain ⟨cs, hc, h⟩ := bind_eq_ok.mp h
      obtain ⟨p1, hp1, h⟩ := bind_eq_ok.mp h
      obtain ⟨p2, hp2, h⟩ := bind_eq_ok.mp h
      obtain ⟨p3, hp3, h⟩ := bind_eq_ok.mp h
      cases h
      have := C05.Header.enc_length hh
      simp only [List.length_append]
      omega

/-- whatever the caller put in `Header`: the switch is run on the caller's type (low eight bits) and count -/
theorem twcc_output_dispatched_caller (v : Twcc) (b : Bytes) (h : (Packet.twcc v).enc = .ok b) :
    frameKind b = .ok (dispatch (v.header.type % 256) v.header.count) := by
  have he := C05.plain_of_enc h
  obtain ⟨h1, h2, h3, _⟩ := C05.Twcc.enc_header_caller v b he
  rw [frameKind_of_version b (Twcc.enc_ge4 v b he) h1, h2, h3]

/-- **TWCC, given a caller-supplied header that says type 205, FMT 15**: the output is dispatched to the TWCC decoder
(nothing is asked of the header's length field, nor of the content) -/
theorem twcc_output_dispatched (v : Twcc) (b : Bytes) (h : (Packet.twcc v).enc = .ok b)
    (hc : v.header.type = 205 ∧ v.header.count = 15) : frameKind b = .ok (kindOfPacket (.twcc v)) := by
  rw [twcc_output_dispatched_caller v b h, hc.1, hc.2]
  rfl

/-- **the premise is necessary**: a TransportLayerCC whose `Header` was left zero marshals, and is dispatched to RawPacket -/
theorem twcc_premise_necessary :
    ∃ v b, (Packet.twcc v).enc = .ok b ∧ frameKind b = .ok .raw ∧ frameKind b ≠ .ok (kindOfPacket (.twcc v)) :=
  ⟨C05.exTw, _, C05.exTw_enc, by decide, by decide⟩

/-- either half of the premise alone is not enough: type 205 with FMT 1 goes to the NACK decoder -/
def exTwNack : Twcc := { C05.exTw with header := { type := 205, count := 1, length := 5 } }
theorem exTwNack_enc : (Packet.twcc exTwNack).enc = .ok [129, 205, 0, 5, 0, 0, 0, 1, 0, 0, 0, 2, 0, 3, 0, 1, 0, 0, 0, 0, 32, 1, 1, 0] := by decide
theorem twcc_premise_count_necessary :
    ∃ v b, (Packet.twcc v).enc = .ok b ∧ v.header.type = 205 ∧ frameKind b = .ok .nack :=
  ⟨exTwNack, _, exTwNack_enc, rfl, by decide⟩

/-! ## 4. datagram level: `rtcp.Unmarshal` of one Marshal output -/

/-- a frame whose header parses and whose length field is `uint16(len/4 − 1)` is `Framed2` once it fits and is aligned -/
theorem framed2_of_hdr (b : Bytes) (pt cnt : Nat) (hh : C05.HdrIs b pt cnt b.length) (h4 : 4 ≤ b.length)
    (hfit : b.length ≤ 262144) (hal : b.length % 4 = 0) :
    Framed2 b { padding := get8 b 0 / 32 % 2 > 0, count := get8 b 0 % 32, type := get8 b 1, length := get16 b 2 } := by
  obtain ⟨h1, h2, h3, h5⟩ := hh
  refine ⟨Header.dec_of_version b h4 h1, ?_⟩
  simp only
  rw [h5]
  omega

/-- `rtcp.Unmarshal` on exactly one `Framed2` frame is the dispatched decoder on it -/
theorem udec_single (b : Bytes) (h : Header) (hf : Framed2 b h) :
    udec b = (decKind (dispatch h.type h.count) b >>= fun q => .ok [q]) := by
  have h4 := hf.facts.1
  unfold udec
  have hb : b = b ++ [] := by simp
  rw [show unmarshalLoop (b.length + 1) b = unmarshalLoop (b.length + 1) (b ++ []) by rw [← hb]]
  rw [unmarshalLoop_cons2 b [] h hf b.length]
  obtain ⟨n, hn⟩ : ∃ n, b.length = n + 1 := ⟨b.length - 1, by omega⟩
  rw [hn]
  cases decKind (dispatch h.type h.count) b with
  | ok q => rfl
  | err => rfl
  | panic => rfl
  | diverge => rfl

/-- **datagram level, no well-formedness premise**: for one packet `p` (not TWCC / RawPacket / SLI) whose Marshal returned
`b`, `b` fitting the 16-bit length field and word-aligned (automatic except for XR: `C05.enc_aligned_all`),
`rtcp.Unmarshal b` IS the decoder of `p`'s own kind run on the whole of `b`, its result wrapped in a one-element list.
So the datagram decoder either fails inside that decoder (with that decoder's outcome) or returns one packet of that type:
the output is never returned as another type, never as a RawPacket, never split. -/
theorem udec_output (p : Packet) (b : Bytes) (h : p.enc = .ok b) (hfit : b.length ≤ 262144) (hal : b.length % 4 = 0)
    (hk : ¬ p.isTwcc) (hr : ¬ p.isRaw) (hs : ¬ p.isSli) :
    udec b = (decKind (kindOfPacket p) b >>= fun q => .ok [q]) := by
  obtain ⟨h4, hv, hd⟩ := output_dispatched_fields p b h hk hr hs
  have hf := framed2_of_hdr b _ _ (C05.enc_header_all p b h hk hr) h4 hfit hal
  rw [udec_single b _ hf]
  dsimp only
  rw [hd]

/-- alignment is automatic for every kind but XR -/
theorem udec_output_nonxr (p : Packet) (b : Bytes) (h : p.enc = .ok b) (hfit : b.length ≤ 262144)
    (hk : ¬ p.isTwcc) (hr : ¬ p.isRaw) (hs : ¬ p.isSli) (hx : ¬ p.isXR) :
    udec b = (decKind (kindOfPacket p) b >>= fun q => .ok [q]) :=
  udec_output p b h hfit (C05.enc_aligned_all p b h hx hr) hk hr hs

/-- whatever `rtcp.Unmarshal` returns for the output is one packet, of the kind that was marshalled, produced by that
kind's decoder -/
theorem udec_output_kind (p : Packet) (b : Bytes) (h : p.enc = .ok b) (hfit : b.length ≤ 262144) (hal : b.length % 4 = 0)
    (hk : ¬ p.isTwcc) (hr : ¬ p.isRaw) (hs : ¬ p.isSli) (qs : List Packet) (e : udec b = .ok qs) :
    ∃ q, qs = [q] ∧ q.kind = kindOfPacket p ∧ decKind (kindOfPacket p) b = .ok q := by
  rw [udec_output p b h hfit hal hk hr hs] at e
  obtain ⟨q, hq, e⟩ := bind_eq_ok.mp e
  cases e
  exact ⟨q, rfl, decKind_kind hq, hq⟩

/-- in particular it never comes back as a RawPacket -/
theorem udec_output_never_raw (p : Packet) (b : Bytes) (h : p.enc = .ok b) (hfit : b.length ≤ 262144) (hal : b.length % 4 = 0)
    (hk : ¬ p.isTwcc) (hr : ¬ p.isRaw) (hs : ¬ p.isSli) (qs : List Packet) (e : udec b = .ok qs) :
    ∀ q ∈ qs, ¬ q.isRaw := by
  obtain ⟨q, rfl, hq, _⟩ := udec_output_kind p b h hfit hal hk hr hs qs e
  intro q' hq'
  simp only [List.mem_singleton] at hq'
  subst hq'
  intro hraw
  cases q' <;> try exact hraw
  cases p <;> first | exact hr trivial | cases hq

/-- and when `rtcp.Unmarshal` does not return packets, that is the outcome of the kind's own decoder on `b` -/
theorem udec_output_fails_in_decoder (p : Packet) (b : Bytes) (h : p.enc = .ok b) (hfit : b.length ≤ 262144)
    (hal : b.length % 4 = 0) (hk : ¬ p.isTwcc) (hr : ¬ p.isRaw) (hs : ¬ p.isSli) (hne : ∀ qs, udec b ≠ .ok qs) :
    (∀ q, decKind (kindOfPacket p) b ≠ .ok q) ∧ udec b = (decKind (kindOfPacket p) b >>= fun q => .ok [q]) := by
  have hu := udec_output p b h hfit hal hk hr hs
  refine ⟨?_, hu⟩
  intro q hq
  rw [hq, bind_ok] at hu
  exact hne _ hu

/-- TWCC at datagram level, given a header consistent with the content (type 205, FMT 15, length field) -/
theorem twcc_udec_output (v : Twcc) (b : Bytes) (h : (Packet.twcc v).enc = .ok b) (hfit : b.length ≤ 262144)
    (hc : v.header.type = 205 ∧ v.header.count = 15 ∧ v.header.length = (v.marshalSize / 4 - 1) % 65536) :
    udec b = (decKind .twcc b >>= fun q => .ok [q]) := by
  have he := C05.plain_of_enc h
  have hh := C05.twcc_header v b h hc
  have hal : b.length % 4 = 0 := C05.enc_aligned_all _ b h (fun x => x) (fun x => x)
  have hf := framed2_of_hdr b _ _ hh (Twcc.enc_ge4 v b he) hfit hal
  rw [udec_single b _ hf]
  dsimp only
  rw [hh.2.1, hh.2.2.1]
  rfl

/-! ## 5. the theorems on values that are NOT well-formed but that Marshal accepts -/

/-- SR with an SSRC beyond 32 bits and a 3-octet extension (`C05.exSR_notWF`) -/
example : frameKind [128, 200, 0, 7, 0, 0, 0, 5, 0, 0, 0, 0, 0, 0, 0, 0, 0, 0, 0, 0, 0, 0, 0, 0, 0, 0, 0, 0, 1, 2, 3, 0] = .ok .sr :=
  output_dispatched _ _ C05.exSR_enc (by decide) (by decide) (by decide)

/-- APP with 3 data octets (`C05.exApp_notWF`) -/
example : frameKind [163, 204, 0, 3, 0, 0, 0, 9, 65, 66, 67, 68, 1, 2, 3, 1] = .ok .app :=
  output_dispatched _ _ C05.exApp_enc (by decide) (by decide) (by decide)

example : ∃ hd, Header.dec [163, 204, 0, 3, 0, 0, 0, 9, 65, 66, 67, 68, 1, 2, 3, 1] = .ok hd ∧ hd.type = 204 ∧ hd.count = 3 ∧
    dispatch hd.type hd.count = .app :=
  output_dispatched_header _ _ C05.exApp_enc (by decide) (by decide) (by decide)

/-- NACK without pairs (`C05.exNack_notWF`) -/
example : 4 ≤ ([129, 205, 0, 2, 0, 0, 0, 1, 0, 0, 0, 2] : Bytes).length ∧ get8 [129, 205, 0, 2, 0, 0, 0, 1, 0, 0, 0, 2] 0 / 64 = 2 ∧
    dispatch (get8 [129, 205, 0, 2, 0, 0, 0, 1, 0, 0, 0, 2] 1) (get8 [129, 205, 0, 2, 0, 0, 0, 1, 0, 0, 0, 2] 0 % 32) = .nack :=
  output_dispatched_fields _ _ C05.exNack_enc (by decide) (by decide) (by decide)

/-- the unaligned XR (22 octets, `C05.exXR`): the dispatch clause needs no alignment -/
example : frameKind [128, 207, 0, 4, 0, 0, 0, 1, 1, 0, 0, 2, 0, 0, 0, 7, 0, 1, 0, 2, 0, 5] = .ok .xr :=
  output_dispatched _ _ C05.exXR_enc (by decide) (by decide) (by decide)

/-- a TWCC whose header says 205/15 but whose length field (0) is wrong for its 24 octets: still dispatched to TWCC -/
def exTwHdr : Twcc := { C05.exTw with header := { type := 205, count := 15, length := 0 } }
theorem exTwHdr_enc : (Packet.twcc exTwHdr).enc = .ok [143, 205, 0, 0, 0, 0, 0, 1, 0, 0, 0, 2, 0, 3, 0, 1, 0, 0, 0, 0, 32, 1, 1, 0] := by decide
example : frameKind [143, 205, 0, 0, 0, 0, 0, 1, 0, 0, 0, 2, 0, 3, 0, 1, 0, 0, 0, 0, 32, 1, 1, 0] = .ok .twcc :=
  twcc_output_dispatched _ _ exTwHdr_enc ⟨rfl, rfl⟩

/-- datagram level on the non-well-formed SR: the result of `rtcp.Unmarshal` is the SR decoder's -/
example : udec [128, 200, 0, 7, 0, 0, 0, 5, 0, 0, 0, 0, 0, 0, 0, 0, 0, 0, 0, 0, 0, 0, 0, 0, 0, 0, 0, 0, 1, 2, 3, 0] =
    (decKind .sr [128, 200, 0, 7, 0, 0, 0, 5, 0, 0, 0, 0, 0, 0, 0, 0, 0, 0, 0, 0, 0, 0, 0, 0, 0, 0, 0, 0, 1, 2, 3, 0] >>= fun q => .ok [q]) :=
  udec_output _ _ C05.exSR_enc (by decide) (by decide) (by decide) (by decide) (by decide)

/-- ... and on the NACK without pairs, which the NACK decoder accepts or refuses by its own rules -/
example (qs : List Packet) (e : udec [129, 205, 0, 2, 0, 0, 0, 1, 0, 0, 0, 2] = .ok qs) :
    ∃ q, qs = [q] ∧ q.kind = .nack ∧ decKind .nack [129, 205, 0, 2, 0, 0, 0, 1, 0, 0, 0, 2] = .ok q :=
  udec_output_kind _ _ C05.exNack_enc (by decide) (by decide) (by decide) (by decide) (by decide) qs e

/-- the alignment hypothesis of `udec_output` is needed for XR: the 22-octet output is cut at 20 and the datagram fails on
the two octets left over -/
example : udec [128, 207, 0, 4, 0, 0, 0, 1, 1, 0, 0, 2, 0, 0, 0, 7, 0, 1, 0, 2, 0, 5] = .err := by decide +kernel

end Rtcp.C07
