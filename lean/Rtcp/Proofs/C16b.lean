/-
  C16b — the missing direction for the 2-octet receive delta, and the edges of both delta encoders.

  `C16.large_delta_enc_dec` covers encode-then-decode for all 2^16 signed wire values; here is decode-then-encode for
  all 2^16 wire words (`large_delta_dec_enc`), and what lies just outside each encoder's domain is rejected rather than
  wrapped (`small_delta_out_of_range`, `large_delta_out_of_range`): the identity is on the whole domain and on nothing else.
-/
import Rtcp.Proofs.C16
namespace Rtcp.C16
open Rtcp Rtcp.Gen
set_option linter.unusedSimpArgs false
set_option linter.unusedVariables false

theorem int16_range (w : Nat) (hw : w < 65536) : -32768 ≤ int16 w ∧ int16 w ≤ 32767 := by
  unfold int16; split <;> omega

theorem int16_wire (w : Nat) (hw : w < 65536) : ((int16 w + 65536) % 65536).toNat = w := by
  unfold int16; split <;> omega

/-- decode-then-encode is the identity on every 16-bit wire word of a large delta -/
theorem large_delta_dec_enc (w : Nat) (hw : w < 65536) :
    (RecvDelta.dec (be16 w) >>= RecvDelta.enc) = .ok (be16 w) := by
  have hget : get16 (be16 w) 0 = w := by
    simp [get16, get8, be16, byte]; omega
  have hd : RecvDelta.dec (be16 w) = .ok ⟨2, 250 * int16 w⟩ := by
    simp [RecvDelta.dec, u16At, be16, hget]
    simp [get16, get8, byte]
    have : w / 256 % 256 * 256 + w % 256 = w := by omega
    rw [this]
  rw [hd]
  have ht : Int.tdiv (250 * int16 w) 250 = int16 w := by
    rw [Int.mul_comm]; exact Int.mul_tdiv_cancel _ (by decide)
  have hr := int16_range w hw
  simp [RecvDelta.enc, tdiv, ht]
  rw [if_pos hr]
  have h2 : (int16 w % 65536).toNat = w := by
    have := int16_wire w hw
    omega
  rw [h2]

/-- a small delta outside 0 … 255 ticks is refused, not wrapped -/
theorem small_delta_out_of_range (d : Int) (h : d < 0 ∨ 255 < d) : RecvDelta.enc ⟨1, 250 * d⟩ = .err := by
  have ht : Int.tdiv (250 * d) 250 = d := by
    rw [Int.mul_comm]; exact Int.mul_tdiv_cancel _ (by decide)
  simp [RecvDelta.enc, tdiv, ht]
  omega

/-- a large delta outside −32768 … 32767 ticks is refused, not wrapped -/
theorem large_delta_out_of_range (d : Int) (h : d < -32768 ∨ 32767 < d) : RecvDelta.enc ⟨2, 250 * d⟩ = .err := by
  have ht : Int.tdiv (250 * d) 250 = d := by
    rw [Int.mul_comm]; exact Int.mul_tdiv_cancel _ (by decide)
  simp [RecvDelta.enc, tdiv, ht]
  omega

/-- a symbol other than small/large delta has no wire form -/
theorem delta_other_symbol_rejected (t : Nat) (d : Int) (h1 : t ≠ 1) (h2 : t ≠ 2) : RecvDelta.enc ⟨t, d⟩ = .err := by
  simp [RecvDelta.enc, h1, h2]

example : (RecvDelta.dec (be16 0x8000) >>= RecvDelta.enc) = .ok (be16 0x8000) := large_delta_dec_enc _ (by decide)
example : RecvDelta.dec (be16 0xFFFF) = .ok ⟨2, -250⟩ := by decide

end Rtcp.C16
