/-
  C04 (continued) — Unmarshal extracts the RFC-specified fields from any valid encoding: TWCC, CCFB, SLI.
  Proofs/C04.lean has `*_dec_spec` for SR, RR, SDES, BYE, APP, NACK, RRR, PLI, FIR; REMB and XR are in Proofs/Remb.lean and
  Proofs/XRWire.lean. This file adds the three missing kinds.

  TWCC (draft-holmer-rmcat-transport-wide-cc-extensions-01 §3.1)
    `twcc_dec_spec`         the draft's layout of every encodable value decodes to the value, deltas in whole 250 µs ticks
    `twcc_dec_spec_wf`      … to the value itself when the deltas are whole ticks
    `twcc_chunkings_agree`  two encodable values with the same deltas and DIFFERENT chunkings of the statuses: both layouts
                            are accepted, each returns its own chunks, and the deltas returned are equal
    `twcc_foreign_chunking` (with `C13.chunking_invariant`) ANY accepted octet string — e.g. one with a clipped run length,
                            a form outside the encoder's domain — that announces the delta types of an encodable value `p` and
                            carries the delta octets of `p`'s layout decodes to the deltas of `p`
    `announced_of_WFq`      C13's `announced` (read off accepted octets) is the draft's `deltaTypes` of the chunks

  CCFB (RFC 8888 §3.1)
    `ccfb_dec_lib`          the layout with the LIBRARY's num_reports convention (number of metric blocks − 1) decodes to the
                            value (no block with exactly one metric block). The RFC convention (num_reports = number of
                            metric blocks) is the recorded deviation KF-CCFB-NUM-REPORTS:
    `KF_ccfb_rfc_encoding_general`   for EVERY well-formed report with a non-empty block, the RFC 8888 encoding is not
                            decoded to the report (rejected, or one metric block too many);
                            `KF_ccfb_rfc_encoding_misread` is a concrete accepted-but-misread instance.
    `ccfb_not_received_stray_bits`   a metric block whose R bit is 0 decodes to (false, 0, 0) whatever its other 15 bits
                            (`ccfb_not_received_stray_fields`: the same in terms of the R | ECN | ATO fields)
    `ccfb_dec_stray`        the same for a WHOLE report: the layout of a report description `q` whose not-received metric
                            blocks carry arbitrary ECN / ATO bits (`StrayWF`) is accepted and decodes to `cleanReport q`
                            (those bits read as 0, every other field as laid out); `cleanReport_of_WF`: identity on `Ccfb.WF`
  SLI (RFC 4585 §6.3.2)
    `sli_wire_lib`          Marshal emits the RFC layout with packet type 205 in place of 206 (every other field as prescribed)
    `sli_dec_spec_own`      and the type's own Unmarshal reads that back
    `KF_sli_rfc_encoding_rejected`   KF-SLI-PT: the RFC encoding (PT 206) of EVERY well-formed SLI is rejected by the SLI
                            decoder, and (`KF_sli_rfc_udec_rejected`) by rtcp.Unmarshal, which dispatches (206, 2) to it.
-/
import Rtcp.Proofs.C04
import Rtcp.Proofs.C13
import Rtcp.Proofs.Twcc
import Rtcp.Proofs.Ccfb
namespace Rtcp.C04
open Rtcp Gen Out Spec
set_option linter.unusedSimpArgs false
set_option linter.unusedVariables false

/-! ## TWCC -/

/-- **the draft's layout decodes to the value**, for every encodable TransportLayerCC value (`Twcc.WFq`): the receive
deltas come back in whole 250 µs ticks (`Twcc.quant`; the layout of `p` and of `p.quant` is the same octet string) -/
theorem twcc_dec_spec (p : Twcc) (h : p.WFq) : Twcc.dec (render (Spec.twcc p.quant)) = .ok p.quant := by
  rw [twcc_render p.quant (Twcc.quant_WF p h).1, Twcc.quant_wire, Twcc.dec_wire p h]

/-- the layout of the value itself (deltas not yet rounded) is the same octets and decodes to the rounded value -/
theorem twcc_dec_spec_unrounded (p : Twcc) (h : p.WFq) : Twcc.dec (render (Spec.twcc p)) = .ok p.quant := by
  rw [twcc_render p h, Twcc.dec_wire p h]

/-- deltas that are whole ticks: exactly the value -/
theorem twcc_dec_spec_wf (p : Twcc) (h : p.WF) : Twcc.dec (render (Spec.twcc p)) = .ok p := by
  have := twcc_dec_spec_unrounded p h.1
  rwa [C02.quant_eq_of_WF p h] at this

/-- C13's `announced` — the delta types read off an accepted octet string — is, for an encodable value, the draft's
`deltaTypes` of its chunks -/
theorem announced_of_WFq (p : Twcc) (h : p.WFq) :
    C13.announced p.statusCount 0 p.chunks = p.chunks.flatMap TwccChunk.deltaTypes := by
  have ha := (C13.accepted_consistent p.wire p.quant (Twcc.dec_wire p h)).1
  have hty : p.deltas.map (·.type) = p.chunks.flatMap TwccChunk.deltaTypes := h.2.2.2.2.2.2.2.2.2.1
  have hq : p.quant.deltas.map (·.type) = p.deltas.map (·.type) := quant_types p.deltas
  have e1 : p.quant.statusCount = p.statusCount := rfl
  have e2 : p.quant.chunks = p.chunks := rfl
  rw [e1, e2] at ha
  rw [← ha, hq, hty]

/-- **alternative chunkings, both inside the encoder's domain**: two encodable values with the same receive deltas whose
statuses are chunked differently (run-length chunks against status-vector chunks, one- against two-bit vectors, …). Both
layouts are accepted, each value comes back with its own chunks, and the deltas that come back are equal. -/
theorem twcc_chunkings_agree (p1 p2 : Twcc) (h1 : p1.WFq) (h2 : p2.WFq) (hd : p1.deltas = p2.deltas) :
    ∃ t1 t2, Twcc.dec (render (Spec.twcc p1)) = .ok t1 ∧ Twcc.dec (render (Spec.twcc p2)) = .ok t2 ∧
      t1.chunks = p1.chunks ∧ t2.chunks = p2.chunks ∧ t1.deltas = t2.deltas ∧
      t1.deltas = p1.deltas.map RecvDelta.quant := by
  refine ⟨p1.quant, p2.quant, twcc_dec_spec_unrounded p1 h1, twcc_dec_spec_unrounded p2 h2, rfl, rfl, ?_, rfl⟩
  show p1.deltas.map RecvDelta.quant = p2.deltas.map RecvDelta.quant
  rw [hd]

/-- **alternative chunkings, any accepted form** (`C13.chunking_invariant` applied to a layout of the draft): let `p` be
an encodable value and `b` ANY octet string the decoder accepts — the statuses may be chunked in a way the encoder's
domain excludes (clipped run lengths, vector chunks with unused symbols in the middle) — which announces the same delta
types as `p` and carries, after its chunks, the delta octets that `p`'s layout carries after its chunks. Then `b` decodes
to the deltas of `p` (in whole ticks). -/
theorem twcc_foreign_chunking (p : Twcc) (h : p.WFq) (b : Bytes) (t : Twcc) (hdec : Twcc.dec b = .ok t)
    (hann : C13.announced t.statusCount 0 t.chunks = p.chunks.flatMap TwccChunk.deltaTypes)
    (hbytes : ∀ i, get8 b (20 + 2 * t.chunks.length + i) = get8 (render (Spec.twcc p)) (20 + 2 * p.chunks.length + i)) :
    t.deltas = p.deltas.map RecvDelta.quant := by
  have hp := twcc_dec_spec_unrounded p h
  have := C13.chunking_invariant b (render (Spec.twcc p)) t p.quant hdec hp
    (by rw [hann]; exact (announced_of_WFq p h).symm) hbytes
  rw [this]; rfl

/-! ### non-vacuity (TWCC) -/

/-- six packets with statuses 1 1 2 1 0 3: a run of two small deltas and a two-bit vector … -/
def twccA : Twcc := C02.twccExample
/-- … or one two-bit vector chunk for all six (the seventh symbol unused) -/
def twccB : Twcc :=
  { header := ⟨true, 15, 205, 6⟩, sender := 1, media := 2, baseSeq := 3, statusCount := 6, refTime := 1193046, fbCount := 7
    chunks := [.sv 1 1 [1, 1, 2, 1, 0, 3, 0]]
    deltas := [⟨1, 250⟩, ⟨1, 63750⟩, ⟨2, -500⟩, ⟨1, 0⟩] }

example : twccA.WFq ∧ twccB.WFq ∧ twccA.deltas = twccB.deltas ∧ twccA.chunks ≠ twccB.chunks ∧
    render (Spec.twcc twccA) ≠ render (Spec.twcc twccB) := by decide

example : ∃ t1 t2, Twcc.dec (render (Spec.twcc twccA)) = .ok t1 ∧ Twcc.dec (render (Spec.twcc twccB)) = .ok t2 ∧
    t1.chunks = twccA.chunks ∧ t2.chunks = twccB.chunks ∧ t1.deltas = t2.deltas ∧ t1.deltas = twccA.deltas.map RecvDelta.quant :=
  twcc_chunkings_agree twccA twccB (by decide) (by decide) (by decide)

/-- a value with two small deltas in one run-length chunk (the packet of the test-suite) … -/
def twccC : Twcc :=
  { header := ⟨false, 15, 205, 5⟩, sender := 1, media := 2, baseSeq := 3, statusCount := 2, refTime := 1029, fbCount := 6
    chunks := [.rl 0 1 2], deltas := [⟨1, 250⟩, ⟨1, 500⟩] }
/-- … and octets NOT in the encoder's domain: status count 2 announced by a run-length chunk of length 100 (clipped by the
decoder), and by two one-packet runs -/
def twccClipped : Bytes := [0x8f, 0xcd, 0, 5, 0, 0, 0, 1, 0, 0, 0, 2, 0, 3, 0, 2, 0, 4, 5, 6, 0x20, 100, 1, 2, 0, 0]
def twccSplit : Bytes := [0x8f, 0xcd, 0, 6, 0, 0, 0, 1, 0, 0, 0, 2, 0, 3, 0, 2, 0, 4, 5, 6, 0x20, 1, 0x20, 1, 1, 2, 0, 0]

example : twccC.WF ∧ render (Spec.twcc twccC) = [0x8f, 0xcd, 0, 5, 0, 0, 0, 1, 0, 0, 0, 2, 0, 3, 0, 2, 0, 4, 5, 6, 0x20, 2, 1, 2] := by
  decide

/-- the hypotheses of `twcc_foreign_chunking` hold for the clipped form, which no WFq value renders to -/
example : ∃ t, Twcc.dec twccClipped = .ok t ∧ t.chunks = [.rl 0 1 100] ∧
    C13.announced t.statusCount 0 t.chunks = twccC.chunks.flatMap TwccChunk.deltaTypes ∧
    chunksCover t.statusCount t.chunks = false ∧ t.deltas = twccC.deltas.map RecvDelta.quant :=
  ⟨{ twccC with chunks := [.rl 0 1 100] }, by decide, by decide, by decide, by decide, by decide⟩

theorem get8_beyond (b : Bytes) (i : Nat) (h : b.length ≤ i) : get8 b i = 0 := by
  simp [get8, List.getD_eq_getElem?_getD, List.getElem?_eq_none h]

/-- the hypotheses of `twcc_foreign_chunking` hold for the split form (all of them, `hbytes` for every `i`) -/
example : ∃ t, Twcc.dec twccSplit = .ok t ∧ t.chunks = [.rl 0 1 1, .rl 0 1 1] ∧
    C13.announced t.statusCount 0 t.chunks = twccC.chunks.flatMap TwccChunk.deltaTypes ∧
    (∀ i, get8 twccSplit (20 + 2 * t.chunks.length + i) = get8 (render (Spec.twcc twccC)) (20 + 2 * twccC.chunks.length + i)) ∧
    t.deltas = twccC.deltas.map RecvDelta.quant := by
  refine ⟨{ twccC with header := ⟨false, 15, 205, 6⟩, chunks := [.rl 0 1 1, .rl 0 1 1] }, by decide, by decide, by decide, ?_, by decide⟩
  intro i
  by_cases hi : i < 4
  · have : ∀ j, j < 4 → get8 twccSplit (24 + j) = get8 (render (Spec.twcc twccC)) (22 + j) := by decide
    exact this i hi
  · have l1 : twccSplit.length = 28 := by decide
    have l2 : (render (Spec.twcc twccC)).length = 24 := by decide
    rw [get8_beyond _ _ (by rw [l1]; show 28 ≤ 20 + 2 * 2 + i; omega),
      get8_beyond _ _ (by rw [l2]; show 24 ≤ 20 + 2 * 1 + i; omega)]

/-! ## CCFB -/

/-- **the RFC 8888 layout with the library's num_reports convention decodes to the value** (num_reports = number of metric
blocks − 1, 0 for an empty block; no block with exactly one metric block — KF-CCFB-ONE-METRIC) -/
theorem ccfb_dec_lib (p : Ccfb) (h : p.WF) (h1 : ∀ b ∈ p.blocks, b.metrics.length ≠ 1) :
    Ccfb.dec (render (Spec.ccfbLib p)) = .ok p := by
  have hw := C03.ccfb_wire_partial p h
  obtain ⟨f, he, hd, _⟩ := C02.ccfb_roundtrip_partial p h h1
  rw [he] at hw
  cases hw
  exact hd

/-- KF-CCFB-NUM-REPORTS, decode side: an RFC 8888-conformant report (num_reports = number of metric blocks = 2) is
accepted and returned with a THIRD, spurious metric block (read from the report timestamp).
    Full-strength C04 statement, which does NOT hold:  ∀ p, p.WF → Ccfb.dec (render (Spec.ccfbRFC p)) = .ok p -/
theorem KF_ccfb_rfc_encoding_misread :
    let p : Ccfb := ⟨1, [⟨2, 3, [⟨true, 1, 5⟩, ⟨false, 0, 0⟩]⟩], 4⟩
    p.WF ∧ (∀ b ∈ p.blocks, b.metrics.length ≠ 1) ∧
      Ccfb.dec (render (Spec.ccfbRFC p)) = .ok ⟨1, [⟨2, 3, [⟨true, 1, 5⟩, ⟨false, 0, 0⟩, ⟨false, 0, 0⟩]⟩], 4⟩ ∧
      Ccfb.dec (render (Spec.ccfbRFC p)) ≠ .ok p := by decide

/-- **a 16-bit metric block whose R bit is 0 decodes to "not received", ECN 0, arrival time offset 0, whatever its other
15 bits hold** (RFC 8888 §3.1: a sender MUST zero them; a receiver gives them no meaning) -/
theorem ccfb_not_received_stray_bits (w : Nat) (hw : w < 32768) : CcfbMetric.dec (be16 w) = .ok ⟨false, 0, 0⟩ := by
  rw [be16_eq]
  exact metric_not_received_stray_bits (w / 256) (w % 256) (by omega) (by omega)

/-- the same in terms of the RFC's fields R | ECN | ATO -/
theorem ccfb_not_received_stray_fields (ecn ato : Nat) (he : ecn < 4) (ha : ato < 8192) :
    CcfbMetric.dec (El.render (.bits [(1, 0), (2, ecn), (13, ato)])) = .ok ⟨false, 0, 0⟩ := by
  have hr := Spec.ccfbMetric_render ⟨false, ecn, ato⟩ he ha
  have e : Spec.ccfbMetric ⟨false, ecn, ato⟩ = .bits [(1, 0), (2, ecn), (13, ato)] := rfl
  rw [e] at hr
  rw [hr, CcfbMetric.bytes]
  exact ccfb_not_received_stray_bits _ (by simp [CcfbMetric.word]; omega)

/-! ### whole reports with stray bits in their not-received metric blocks

A `Ccfb` value `q` is used as the description of the octets: `Spec.ccfbMetric` lays out R | ECN | ATO from the three
fields of every metric block, also when `received = false`. `StrayWF` is `Ccfb.WF` WITHOUT the clause "a not-received
block has ECN = 0 and ATO = 0"; `cleanReport q` is what RFC 8888 assigns to those octets: the same report with the
ECN / ATO of not-received blocks read as 0. -/

def MetricS (m : CcfbMetric) : Prop := m.ecn < 4 ∧ m.ato < 8192
instance (m : CcfbMetric) : Decidable (MetricS m) := by unfold MetricS; infer_instance

def BlockS (b : CcfbBlock) : Prop :=
  u32 b.media ∧ u16 b.beginSeq ∧ b.metrics.length ≤ 16384 ∧
  (0 < b.metrics.length → b.beginSeq + b.metrics.length - 1 ≤ 65535) ∧ ∀ m ∈ b.metrics, MetricS m
instance (b : CcfbBlock) : Decidable (BlockS b) := by unfold BlockS; infer_instance

/-- `Ccfb.WF` minus "not received ⇒ ECN = ATO = 0" -/
def StrayWF (p : Ccfb) : Prop := u32 p.sender ∧ u32 p.timestamp ∧ (∀ b ∈ p.blocks, BlockS b) ∧ p.marshalSize ≤ 262144
instance (p : Ccfb) : Decidable (StrayWF p) := by unfold StrayWF; infer_instance

def cleanMetric (m : CcfbMetric) : CcfbMetric := if m.received then m else ⟨false, 0, 0⟩
def cleanBlock (b : CcfbBlock) : CcfbBlock := { b with metrics := b.metrics.map cleanMetric }
def cleanReport (p : Ccfb) : Ccfb := { p with blocks := p.blocks.map cleanBlock }

theorem StrayWF_of_WF (p : Ccfb) (h : p.WF) : StrayWF p := by
  obtain ⟨h1, h2, h3, h4⟩ := h
  refine ⟨h1, h2, ?_, h4⟩
  intro b hb
  obtain ⟨a1, a2, a3, a4, a5⟩ := h3 b hb
  exact ⟨a1, a2, a3, a4, fun m hm => ⟨(a5 m hm).1, (a5 m hm).2.1⟩⟩

theorem cleanMetric_of_WF (m : CcfbMetric) (h : m.WF) : cleanMetric m = m := by
  obtain ⟨r, e, a⟩ := m
  cases r with
  | true => rfl
  | false =>
    obtain ⟨e1, e2⟩ := h.2.2 rfl
    simp only at e1 e2
    subst e1; subst e2; rfl

theorem cleanBlock_len (b : CcfbBlock) : (cleanBlock b).len = b.len := by
  simp [cleanBlock, CcfbBlock.len]

/-- one metric block: the octets of R | ECN | ATO decode to the cleaned metric -/
theorem metric_dec_clean (m : CcfbMetric) (h : MetricS m) : CcfbMetric.dec m.bytes = .ok (cleanMetric m) := by
  obtain ⟨r, e, a⟩ := m
  obtain ⟨h1, h2⟩ := h
  simp only at h1 h2
  cases r with
  | true =>
    have := C16.metric_enc_dec e a h1 h2
    rw [CcfbMetric.enc_ok, bind_ok] at this
    exact this
  | false =>
    rw [CcfbMetric.bytes]
    exact ccfb_not_received_stray_bits _ (by simp [CcfbMetric.word]; omega)

theorem decMetrics_clean (ms : List CcfbMetric) (pre post : Bytes) (h : ∀ m ∈ ms, MetricS m) :
    decMetrics ms.length (pre ++ (metricsBytes ms ++ post)) pre.length = .ok (ms.map cleanMetric) := by
  induction ms generalizing pre with
  | nil => rfl
  | cons m ms ih =>
    rw [List.length_cons, decMetrics]
    have hre : pre ++ (metricsBytes (m :: ms) ++ post) = pre ++ (m.bytes ++ (metricsBytes ms ++ post)) := by
      rw [metricsBytes_cons, List.append_assoc]
    rw [hre, slice_of_le (by omega) (by simp), bind_ok]
    have hsl : ((pre ++ (m.bytes ++ (metricsBytes ms ++ post))).take (pre.length + 2)).drop pre.length = m.bytes :=
      take_drop_mid pre m.bytes (metricsBytes ms ++ post)
    rw [hsl, metric_dec_clean m (h m (by simp)), bind_ok]
    have hre2 : pre ++ (m.bytes ++ (metricsBytes ms ++ post)) = (pre ++ m.bytes) ++ (metricsBytes ms ++ post) := by
      rw [List.append_assoc]
    have hl : pre.length + 2 = (pre ++ m.bytes).length := by simp
    rw [hre2, hl, ih (pre ++ m.bytes) (fun x hx => h x (by simp [hx])), bind_ok]
    rfl

theorem block_dec_clean (b : CcfbBlock) (post : Bytes) (h : BlockS b) (hne : b.metrics.length ≠ 1) :
    CcfbBlock.dec (b.bytesF (libField b) ++ post) = .ok (cleanBlock b) := by
  obtain ⟨media, bs, ms⟩ := b
  obtain ⟨h1, h2, h3, h4, h5⟩ := h
  simp only [u32, u16] at h1 h2 h3 h4 h5 hne
  simp only [libField, CcfbBlock.bytesF, List.append_assoc]
  generalize hk : ms.length - 1 = k
  generalize htail : zeros (ccfbPad ms.length) ++ post = tail
  have e1 := get32_at [] (be16 bs ++ (be16 k ++ (metricsBytes ms ++ tail))) media 0 rfl h1
  have e2 := get16_at (be32 media) (be16 k ++ (metricsBytes ms ++ tail)) bs 4 rfl h2
  have e3 := get16_at (be32 media ++ be16 bs) (metricsBytes ms ++ tail) k 6 rfl (by omega)
  simp only [List.nil_append, List.append_assoc] at e1 e2 e3
  unfold CcfbBlock.dec
  rw [if_neg (by simp <;> omega), u32At_of_le (by simp <;> omega), u16At_of_le (by simp <;> omega), u16At_of_le (by simp <;> omega)]
  repeat rw [bind_ok]
  simp only [beginSequenceOffset, numReportsOffset]
  rw [e1, e2, e3]
  by_cases h0 : ms.length = 0
  · have : ms = [] := List.eq_nil_of_length_eq_zero h0
    subst this
    rw [if_pos (by simp at hk; omega)]
    rfl
  · have h4' := h4 (by omega)
    rw [if_neg (by omega), if_neg (by omega)]
    have hnum : ((bs + k) % 65536 + 65536 - bs + 1) % 65536 = ms.length := by omega
    rw [hnum, if_neg (by simp; omega)]
    have hB : be32 media ++ (be16 bs ++ (be16 k ++ (metricsBytes ms ++ tail)))
        = (be32 media ++ be16 bs ++ be16 k) ++ (metricsBytes ms ++ tail) := by simp
    have hoff : reportsOffset = (be32 media ++ be16 bs ++ be16 k).length := by simp
    rw [hB, hoff, decMetrics_clean ms _ tail h5, bind_ok]
    rfl

theorem decBlocksP_clean (bs : List CcfbBlock) (post : Bytes) (gas : Nat)
    (h : ∀ b ∈ bs, BlockS b ∧ b.metrics.length ≠ 1) (hg : bs.length < gas) :
    decBlocksP gas (blocksBytesF libField bs ++ post) (blocksLen bs) = (bs.map cleanBlock, .ok) := by
  induction bs generalizing gas with
  | nil =>
    cases gas with
    | zero => simp at hg
    | succ g => simp [decBlocksP, blocksLen]
  | cons b bs ih =>
    cases gas with
    | zero => simp at hg
    | succ g =>
      have hb := h b (by simp)
      have hpos := CcfbBlock.len_pos b
      rw [decBlocksP, blocksLen_cons, if_neg (by omega), blocksBytesF_cons, List.append_assoc,
        block_dec_clean b _ hb.1 hb.2]
      dsimp only
      rw [cleanBlock_len]
      have hd : (b.bytesF (libField b) ++ (blocksBytesF libField bs ++ post)).drop b.len = blocksBytesF libField bs ++ post := by
        have : b.len = (b.bytesF (libField b)).length := by simp
        rw [this, List.drop_left]
      rw [hd, Nat.add_sub_cancel_left, ih g (fun x hx => h x (by simp [hx])) (by simp at hg; omega)]
      rfl

/-- `Ccfb.decP_bytes_loop` needs only the widths of sender SSRC and report timestamp, and holds whatever is written into
num_reports -/
theorem decP_loop_stray (fld : CcfbBlock → Nat) (p : Ccfb) (h1 : p.sender < 4294967296) (h2 : p.timestamp < 4294967296) :
    Ccfb.decP (p.bytesF fld) =
      ({ sender := p.sender, timestamp := p.timestamp,
         blocks := (decBlocksP (12 + blocksLen p.blocks + 1) (blocksBytesF fld p.blocks ++ be32 p.timestamp) (blocksLen p.blocks)).1 },
       (decBlocksP (12 + blocksLen p.blocks + 1) (blocksBytesF fld p.blocks ++ be32 p.timestamp) (blocksLen p.blocks)).2) := by
  have hs := Ccfb.size_eq p
  have hm := Ccfb.size_mod4 p
  have hlen : (p.bytesF fld).length = 12 + blocksLen p.blocks := by rw [Ccfb.bytesF_length, hs]
  have hhd : Header.dec (p.bytesF fld) = .ok p.header :=
    Header.dec_bytes p.header _ (by rw [Ccfb.header_count]; omega) (by rw [Ccfb.header_type]; omega)
      (by rw [Ccfb.header_length]; omega)
  have e1 : get32 (p.bytesF fld) 4 = p.sender := get32_at p.header.bytes _ p.sender 4 (by simp) h1
  have e2 : get32 (p.bytesF fld) (12 + blocksLen p.blocks - 4) = p.timestamp := by
    have hB : p.bytesF fld = (p.header.bytes ++ be32 p.sender ++ blocksBytesF fld p.blocks) ++ be32 p.timestamp := by
      simp [Ccfb.bytesF]
    rw [hB]
    exact get32_end _ p.timestamp _ (by simp; omega) h2
  have hdrop : (p.bytesF fld).drop 8 = blocksBytesF fld p.blocks ++ be32 p.timestamp := by
    have hB : p.bytesF fld = (p.header.bytes ++ be32 p.sender) ++ (blocksBytesF fld p.blocks ++ be32 p.timestamp) := by
      simp [Ccfb.bytesF]
    have h8 : 8 = (p.header.bytes ++ be32 p.sender).length := by simp
    rw [hB, h8, List.drop_left]
  generalize p.bytesF fld = B at hlen hhd e1 e2 hdrop
  unfold Ccfb.decP
  rw [if_neg (by rw [hlen]; simp <;> omega), hhd]
  dsimp only
  rw [if_neg (by rw [Ccfb.header_type]; simp), u32At_of_le (by rw [hlen]; simp <;> omega), u32At_of_le (by rw [hlen]; simp <;> omega)]
  dsimp only
  simp only [headerLength, reportTimestampLength, reportBlockOffset]
  rw [hlen, e1, e2, hdrop]
  have h12 : 12 + blocksLen p.blocks - 4 - 8 = blocksLen p.blocks := by omega
  rw [h12]

/-- the layout of Spec/Ccfb.lean renders to `bytesF` under `StrayWF` already (`Spec.ccfb_render` asks for `Ccfb.WF`) -/
theorem ccfb_render_stray (fld : CcfbBlock → Nat) (p : Ccfb) (h : StrayWF p) (hf : ∀ b ∈ p.blocks, fld b < 65536) :
    render (Spec.ccfb fld p) = p.bytesF fld := by
  obtain ⟨h1, h2, h3, h4⟩ := h
  simp only [u32] at h1 h2
  have hw := Spec.ccfbWords_eq p
  have hm := Ccfb.size_mod4 p
  have hs := Ccfb.size_eq p
  unfold Spec.ccfb
  rw [Spec.render_append', Spec.render_append', Spec.render_cons', Spec.render_cons']
  rw [header_render false 11 205 _ (by decide) (by decide) (by omega)]
  rw [Spec.ccfbBlocks_render fld p.blocks (fun b hb => by
    obtain ⟨a1, a2, a3, a4, a5⟩ := h3 b hb
    exact ⟨a1, a2, hf b hb, a5⟩)]
  rw [bits_aligned _ (by intro f hf'; simp at hf'; subst hf'; exact ⟨by simp, by simpa using h1⟩)]
  rw [Spec.render_cons', bits_aligned _ (by intro f hf'; simp at hf'; subst hf'; exact ⟨by simp, by simpa using h2⟩)]
  have hh : p.header = Header.mk false 11 205 (Spec.ccfbWords p - 1) := by
    show Header.mk false 11 205 ((p.marshalSize / 4 - 1) % 65536) = _
    congr 1; omega
  rw [Ccfb.bytesF, hh]
  simp [renderAligned, beBytes4, render]

/-- **a whole report whose not-received metric blocks carry stray bits**: the RFC 8888 layout (library convention for
num_reports) of `q` — R | ECN | ATO written from the fields of every metric block, also where R = 0 — is accepted and
decodes to `cleanReport q`: every field as laid out, not-received blocks as (false, 0, 0). The encoder never emits such
octets when a not-received block of `q` has a non-zero ECN or ATO (`Marshal` of the decoded report gives different octets). -/
theorem ccfb_dec_stray (q : Ccfb) (h : StrayWF q) (h1 : ∀ b ∈ q.blocks, b.metrics.length ≠ 1) :
    Ccfb.dec (render (Spec.ccfbLib q)) = .ok (cleanReport q) := by
  have hle : ∀ b ∈ q.blocks, libField b < 65536 := by
    intro b hb
    have := (h.2.2.1 b hb).2.2.1
    unfold libField; omega
  have hr : render (Spec.ccfbLib q) = q.bytesF libField := ccfb_render_stray libField q h hle
  have hge := blocksLen_ge q.blocks
  rw [hr]
  unfold Ccfb.dec
  rw [decP_loop_stray libField q h.1 h.2.1,
    decBlocksP_clean q.blocks _ _ (fun b hb => ⟨h.2.2.1 b hb, h1 b hb⟩) (by omega)]
  rfl

/-- on well-formed reports `cleanReport` is the identity: `ccfb_dec_lib` is the special case without stray bits -/
theorem cleanReport_of_WF (p : Ccfb) (h : p.WF) : cleanReport p = p := by
  obtain ⟨s, bs, t⟩ := p
  have hb : ∀ b ∈ bs, b.WF := h.2.2.1
  simp only [cleanReport, Ccfb.mk.injEq, true_and, and_true]
  clear h
  induction bs with
  | nil => rfl
  | cons b bs ih =>
    rw [List.map_cons, ih (fun x hx => hb x (by simp [hx]))]
    congr 1
    obtain ⟨m, q, ms⟩ := b
    have hm : ∀ x ∈ ms, x.WF := (hb ⟨m, q, ms⟩ (by simp)).2.2.2.2
    simp only [cleanBlock, CcfbBlock.mk.injEq, true_and]
    clear hb ih
    induction ms with
    | nil => rfl
    | cons x xs ihx =>
      rw [List.map_cons, cleanMetric_of_WF x (hm x (by simp)), ihx (fun y hy => hm y (by simp [hy]))]


/-! ### KF-CCFB-NUM-REPORTS on the decode side, in general -/

theorem decMetrics_length (n : Nat) (b : Bytes) (off : Nat) (ms : List CcfbMetric) (h : decMetrics n b off = .ok ms) :
    ms.length = n := by
  induction n generalizing off ms with
  | zero => simp [decMetrics] at h; subst h; rfl
  | succ n ih =>
    unfold decMetrics at h
    obtain ⟨_, _, h⟩ := bind_eq_ok.mp h
    obtain ⟨_, _, h⟩ := bind_eq_ok.mp h
    obtain ⟨rest, hr, h⟩ := bind_eq_ok.mp h
    simp at h
    rw [← h, List.length_cons, ih _ _ hr]

/-- a block with n ≥ 1 metric blocks and the RFC's num_reports = n is read — if it is accepted at all — as a block with
n + 1 metric blocks -/
theorem block_dec_rfc (b : CcfbBlock) (post : Bytes) (h : BlockS b) (hpos : 0 < b.metrics.length) (blk : CcfbBlock)
    (hd : CcfbBlock.dec (b.bytesF b.metrics.length ++ post) = .ok blk) : blk.metrics.length = b.metrics.length + 1 := by
  obtain ⟨media, bs, ms⟩ := b
  obtain ⟨h1, h2, h3, h4, h5⟩ := h
  simp only [u32, u16] at h1 h2 h3 h4 h5 hpos
  simp only [CcfbBlock.bytesF, List.append_assoc] at hd
  simp only []
  generalize hk : ms.length = k at hd hpos h3 h4
  generalize htail : zeros (ccfbPad k) ++ post = tail at hd
  have e1 := get32_at [] (be16 bs ++ (be16 k ++ (metricsBytes ms ++ tail))) media 0 rfl h1
  have e2 := get16_at (be32 media) (be16 k ++ (metricsBytes ms ++ tail)) bs 4 rfl h2
  have e3 := get16_at (be32 media ++ be16 bs) (metricsBytes ms ++ tail) k 6 rfl (by omega)
  simp only [List.nil_append, List.append_assoc] at e1 e2 e3
  unfold CcfbBlock.dec at hd
  rw [if_neg (by simp <;> omega), u32At_of_le (by simp <;> omega), u16At_of_le (by simp <;> omega), u16At_of_le (by simp <;> omega)] at hd
  repeat rw [bind_ok] at hd
  simp only [beginSequenceOffset, numReportsOffset] at hd
  rw [e1, e2, e3, if_neg (by omega)] at hd
  by_cases hov : bs + k > 65535
  · rw [if_pos hov] at hd; cases hd
  · rw [if_neg hov] at hd
    have hnum : ((bs + k) % 65536 + 65536 - bs + 1) % 65536 = k + 1 := by omega
    rw [hnum] at hd
    split at hd
    · cases hd
    · obtain ⟨ms', hm, hd⟩ := bind_eq_ok.mp hd
      simp at hd
      rw [← hd]
      exact decMetrics_length _ _ _ _ hm

theorem decBlocksP_head (gas : Nat) (rest : Bytes) (tsOff : Nat) (hts : tsOff ≠ 0) :
    (∃ blk t, CcfbBlock.dec rest = .ok blk ∧ (decBlocksP (gas + 1) rest tsOff).1 = blk :: t) ∨
      (decBlocksP (gas + 1) rest tsOff).1 = [] := by
  rw [decBlocksP, if_neg hts]
  cases hdec : CcfbBlock.dec rest with
  | ok blk => left; exact ⟨blk, _, rfl, rfl⟩
  | err => right; rfl
  | panic => right; rfl
  | diverge => right; rfl

theorem blocksBytesF_empty (fld : CcfbBlock → Nat) (bs : List CcfbBlock) (h : ∀ b ∈ bs, b.metrics.length = 0)
    (hf : ∀ b, b.metrics.length = 0 → fld b = 0) : blocksBytesF fld bs = blocksBytesF libField bs := by
  induction bs with
  | nil => rfl
  | cons c cs ih =>
    rw [blocksBytesF_cons, blocksBytesF_cons, ih (fun x hx => h x (by simp [hx])), hf c (h c (by simp))]
    simp [libField, h c (by simp)]

/-- **KF-CCFB-NUM-REPORTS, decode side, for every report**: as soon as one block carries a metric block, the RFC 8888
encoding of a well-formed report (num_reports = number of metric blocks) is NOT decoded to that report — the decoder
rejects it or returns a different report (the first non-empty block comes back with one metric block too many).
    Full-strength C04 statement, refuted here:  ∀ p, p.WF → Ccfb.dec (render (Spec.ccfbRFC p)) = .ok p -/
theorem KF_ccfb_rfc_encoding_general (p : Ccfb) (h : p.WF) (hne : ∃ b ∈ p.blocks, b.metrics.length ≠ 0) :
    Ccfb.dec (render (Spec.ccfbRFC p)) ≠ .ok p := by
  have hle := h.blocks_le
  have hwf : ∀ c ∈ p.blocks, c.WF := h.2.2.1
  rw [Spec.ccfbRFC, Spec.ccfb_render (fun b => b.metrics.length) p h (fun c hc => by have := hle c hc; omega)]
  intro heq
  unfold Ccfb.dec at heq
  have hp := (Status.toOut_eq_ok heq).2
  rw [decP_loop_stray _ p h.1 h.2.1] at hp
  have hblocks := congrArg Ccfb.blocks hp
  simp only at hblocks
  obtain ⟨pre, b, suf, hsplit, hpre, hb⟩ := exists_first (fun b : CcfbBlock => b.metrics.length ≠ 0) p.blocks hne
  have hpre0 : ∀ x ∈ pre, x.metrics.length = 0 := fun x hx => by have := hpre x hx; omega
  have hbwf : b.WF := hwf b (by rw [hsplit]; simp)
  have hpos := CcfbBlock.len_pos b
  have hge := blocksLen_ge pre
  have hbytes : blocksBytesF (fun b => b.metrics.length) p.blocks ++ be32 p.timestamp
      = blocksBytesF libField pre ++ (b.bytesF b.metrics.length ++ (blocksBytesF (fun b => b.metrics.length) suf ++ be32 p.timestamp)) := by
    rw [← blocksBytesF_empty (fun b => b.metrics.length) pre hpre0 (fun _ hc => hc), hsplit]
    simp [blocksBytesF]
  have hlen : blocksLen p.blocks = blocksLen pre + (b.len + blocksLen suf) := by
    rw [hsplit]; simp [blocksLen]
  obtain ⟨g, hg⟩ : ∃ g, 12 + blocksLen p.blocks + 1 = pre.length + (g + 1) := ⟨12 + blocksLen p.blocks - pre.length, by omega⟩
  rw [hbytes, hg, hlen] at hblocks
  rw [decBlocksP_prefix pre _ _ _ (fun c hc => ⟨hwf c (by rw [hsplit]; simp [hc]), by rw [hpre0 c hc]; omega⟩) (by omega)] at hblocks
  rw [hsplit] at hblocks
  have hrest := List.append_cancel_left hblocks
  rcases decBlocksP_head g (b.bytesF b.metrics.length ++ (blocksBytesF (fun b => b.metrics.length) suf ++ be32 p.timestamp))
      (b.len + blocksLen suf) (by omega) with ⟨blk, t, hdec, hl⟩ | hnil
  · rw [hl] at hrest
    have hbb : blk = b := (List.cons.inj hrest).1
    have := block_dec_rfc b _ ((StrayWF_of_WF p h).2.2.1 b (by rw [hsplit]; simp)) (by omega) blk hdec
    rw [hbb] at this
    omega
  · rw [hnil] at hrest
    cases hrest

/-- non-vacuity of `KF_ccfb_rfc_encoding_general` -/
example : (Ccfb.mk 1 [⟨7, 0, []⟩, ⟨2, 3, [⟨true, 1, 5⟩, ⟨false, 0, 0⟩]⟩] 4).WF ∧
    ∃ b ∈ (Ccfb.mk 1 [⟨7, 0, []⟩, ⟨2, 3, [⟨true, 1, 5⟩, ⟨false, 0, 0⟩]⟩] 4).blocks, b.metrics.length ≠ 0 := by decide

/-! ### non-vacuity (CCFB) -/

/-- the report of Proofs/Ccfb.lean: no stray bits -/
example :
    let p : Ccfb := ⟨1, [⟨2, 65534, [⟨true, 3, 8191⟩, ⟨false, 0, 0⟩]⟩, ⟨7, 0, []⟩, ⟨8, 9, [⟨true, 1, 5⟩, ⟨true, 0, 0⟩, ⟨false, 0, 0⟩]⟩], 4⟩
    p.WF ∧ ∀ b ∈ p.blocks, b.metrics.length ≠ 1 := by decide

/-- not-received blocks with every stray bit set, and with a stray ECN only -/
def ccfbStray : Ccfb :=
  ⟨1, [⟨2, 65534, [⟨true, 3, 8191⟩, ⟨false, 3, 8191⟩]⟩, ⟨7, 0, []⟩, ⟨8, 9, [⟨false, 1, 0⟩, ⟨true, 0, 0⟩, ⟨false, 0, 77⟩]⟩], 4⟩

example : StrayWF ccfbStray ∧ (∀ b ∈ ccfbStray.blocks, b.metrics.length ≠ 1) ∧ ¬ ccfbStray.WF ∧
    cleanReport ccfbStray =
      ⟨1, [⟨2, 65534, [⟨true, 3, 8191⟩, ⟨false, 0, 0⟩]⟩, ⟨7, 0, []⟩, ⟨8, 9, [⟨false, 0, 0⟩, ⟨true, 0, 0⟩, ⟨false, 0, 0⟩]⟩], 4⟩ := by
  decide

/-- the octets: 0x7FFF, 0x2000 and 0x004D are metric blocks with R = 0 and stray bits; no `Marshal` produces them -/
example : render (Spec.ccfbLib ccfbStray) =
    [0x8B, 205, 0, 11, 0, 0, 0, 1,
     0, 0, 0, 2, 0xFF, 0xFE, 0, 1, 0xFF, 0xFF, 0x7F, 0xFF,
     0, 0, 0, 7, 0, 0, 0, 0,
     0, 0, 0, 8, 0, 9, 0, 2, 0x20, 0x00, 0x80, 0x00, 0x00, 0x4D, 0, 0,
     0, 0, 0, 4] ∧
    (cleanReport ccfbStray).enc ≠ .ok (render (Spec.ccfbLib ccfbStray)) := by decide

example : Ccfb.dec (render (Spec.ccfbLib ccfbStray)) = .ok (cleanReport ccfbStray) :=
  ccfb_dec_stray ccfbStray (by decide) (by decide)

example : CcfbMetric.dec (be16 0x7FFF) = .ok ⟨false, 0, 0⟩ := ccfb_not_received_stray_bits _ (by decide)

/-! ## SLI -/

/-- RFC 4585 §6.3.2 with the packet type as a parameter: `Spec.sli` is `sliWith 206` -/
def sliWith (pt : Nat) (v : SliceLossIndication) : List El :=
  fb 2 pt (2 + v.sli.length) v.sender v.media ++ v.sli.map fun e => .bits [(13, e.first), (13, e.number), (6, e.picture)]

theorem sliWith_rfc (v : SliceLossIndication) : sliWith 206 v = Spec.sli v := rfl

/-- First (13) | Number (13) | PictureID (6), MSB first, is the 32-bit word the library writes -/
theorem sliEntry_render (e : SLIEntry) (h : e.WF) :
    (El.bits [(13, e.first), (13, e.number), (6, e.picture)]).render = be32 e.word := by
  obtain ⟨h1, h2, h3⟩ := h
  simp only [El.render, totalBits, groupVal, List.map_cons, List.map_nil, List.sum_cons, List.sum_nil]
  show beBytes 4 _ = _
  rw [beBytes4, SLIEntry.word]
  apply congrArg be32
  simp
  omega

theorem slis_render (es : List SLIEntry) (h : ∀ e ∈ es, e.WF) :
    render (es.map fun e => El.bits [(13, e.first), (13, e.number), (6, e.picture)]) = encSLIs es := by
  induction es with
  | nil => rfl
  | cons e es ih =>
    rw [List.map_cons, C03.render_cons, sliEntry_render e (h e (by simp)), ih (fun x hx => h x (by simp [hx]))]
    simp [encSLIs]

/-- the octets of the layout -/
theorem sliWith_render (pt : Nat) (hp : pt < 256) (v : SliceLossIndication) (h : v.WF) :
    render (sliWith pt v) = (Header.mk false 2 pt (2 + v.sli.length)).bytes ++ (be32 v.sender ++ (be32 v.media ++ encSLIs v.sli)) := by
  obtain ⟨h1, h2, h3, h4⟩ := h
  simp only [u32] at h1 h2
  rw [sliWith, C03.render_append, C03.fb_render 2 pt _ _ _ (by decide) hp (by omega) h1 h2, slis_render _ h4]
  simp

theorem sli_header (v : SliceLossIndication) (h : v.sli.length ≤ 253) : v.header = Header.mk false 2 205 (2 + v.sli.length) := by
  simp [SliceLossIndication.header, SliceLossIndication.marshalSize]; omega

/-- **C03 for SLI, up to the recorded deviation**: Marshal emits the RFC 4585 layout with packet type 205 in place of 206;
version, padding bit, FMT, length, both SSRCs and every First/Number/PictureID entry are as prescribed -/
theorem sli_wire_lib (v : SliceLossIndication) (h : v.WF) : v.enc = .ok (render (sliWith 205 v)) := by
  rw [sliWith_render 205 (by decide) v h]
  unfold SliceLossIndication.enc
  rw [if_neg (by have := h.2.2.1; simp only [sliLength]; omega), Header.enc_ok _ (by rw [sli_header v h.2.2.1]; simp), bind_ok,
    sli_header v h.2.2.1]
  simp

/-- **the library's own encoding decodes to the value** (own Unmarshal; RFC layout but for the packet type) -/
theorem sli_dec_spec_own (p : SliceLossIndication) (h : p.WF) :
    SliceLossIndication.dec (render (sliWith 205 p)) = .ok p := by
  have h1 := sli_wire_lib p h
  have h2 := SliceLossIndication.roundtrip p h
  rw [h1, bind_ok] at h2
  exact h2

/-- in terms of Marshal -/
theorem sli_dec_own (p : SliceLossIndication) (h : p.WF) : ∃ f, p.enc = .ok f ∧ SliceLossIndication.dec f = .ok p :=
  ⟨_, sli_wire_lib p h, sli_dec_spec_own p h⟩

/-- **KF-SLI-PT**: the RFC 4585 encoding (payload-specific feedback, PT 206, FMT 2) of EVERY well-formed SLI is rejected
by `SliceLossIndication.Unmarshal`, which demands packet type 205.
    Full-strength C04 statement, which does NOT hold:  ∀ p, p.WF → SliceLossIndication.dec (render (Spec.sli p)) = .ok p -/
theorem KF_sli_rfc_encoding_rejected (p : SliceLossIndication) (h : p.WF) :
    SliceLossIndication.dec (render (Spec.sli p)) = .err := by
  rw [← sliWith_rfc, sliWith_render 206 (by decide) p h]
  have hl := h.2.2.1
  unfold SliceLossIndication.dec
  rw [if_neg (by simp [encSLIs_length]; omega), Header.dec_bytes _ _ (by simp) (by simp) (by simp only []; omega), bind_ok]
  rw [if_neg (by simp [encSLIs_length]; omega), if_pos (by left; simp)]

/-- … and by `rtcp.Unmarshal`: the dispatcher hands (206, 2) to the SLI decoder, which refuses it. No RFC-conformant SLI
can be received through this library. -/
theorem KF_sli_rfc_udec_rejected (p : SliceLossIndication) (h : p.WF) (ps : List Packet) :
    udec (render (Spec.sli p)) ≠ .ok ps := by
  have hrej := KF_sli_rfc_encoding_rejected p h
  have hl := h.2.2.1
  have hr := sliWith_render 206 (by decide) p h
  rw [sliWith_rfc] at hr
  refine udec_frame_ne (render (Spec.sli p)) (Header.mk false 2 206 (2 + p.sli.length)) _ hr (by simp) (by simp)
    (by simp only []; omega) (by rw [hr]; simp [encSLIs_length]; omega) ?_ ps
  show decKind (dispatch 206 2) _ = _
  have hd : dispatch 206 2 = .sli := by decide
  rw [hd]
  show (Packet.sli <$> SliceLossIndication.dec _) = _
  rw [hrej]; rfl

/-! ### non-vacuity (SLI) -/

def sliEx : SliceLossIndication := ⟨0x01020304, 0x0A0B0C0D, [⟨8191, 1, 63⟩, ⟨3, 8191, 0⟩]⟩

example : sliEx.WF := by decide
example : render (sliWith 205 sliEx) = [0x82, 205, 0, 4, 1, 2, 3, 4, 10, 11, 12, 13, 0xFF, 0xF8, 0x00, 0x7F, 0x00, 0x1F, 0xFF, 0xC0] ∧
    render (Spec.sli sliEx) = [0x82, 206, 0, 4, 1, 2, 3, 4, 10, 11, 12, 13, 0xFF, 0xF8, 0x00, 0x7F, 0x00, 0x1F, 0xFF, 0xC0] := by decide
example : SliceLossIndication.dec (render (sliWith 205 sliEx)) = .ok sliEx ∧
    SliceLossIndication.dec (render (Spec.sli sliEx)) = .err ∧ udec (render (Spec.sli sliEx)) = .err := by decide

end Rtcp.C04
